(* DF/AggCase.v — evaluation side of the C06/C12 correspondence: a universal identifier for the modelled
   streaming aggregations, the model run rendered as canonical values (`oval`, the same shape
   harness/df_common.canon produces from pandas objects), and the comparison with what the real code emitted.
   No proofs here; generated case files import this. *)
From Coq Require Import List ZArith QArith Qabs Qcanon Bool Lia.
From SZ Require Import DF.Frames.
From SZ Require Import DF.Agg.
From SZ Require Import DF.GroupBy.
Import ListNotations.
Local Open Scope Qc_scope.

Inductive oval :=
| ONone
| ONum (q : option Qc)
| OVec (l : list (option Qc))
| OMap (m : list (Z * list (option Qc)))         (* keyed, sorted by key; one value per value column *)
| OTup (l : list oval).

Inductive shape := Ser (c : nat) | Fr (cs : list nat).
Inductive red := RSum | RCount | RSize | RMean | RVar (ddof : Z).
Inductive gop := GSum | GCount | GSize | GMean | GVar (ddof : Z).
Inductive aggid :=
| ARed (r : red) (s : shape)                     (* sdf.x.sum() ...            : accumulator *)
| AExp (r : red) (s : shape)                     (* sdf.expanding().x.sum() ...: window_accumulator/diff_expanding *)
| AVC                                            (* series.value_counts(), series in the key field *)
| AGrp (g : gop) (gs : grouper_spec) (cs : list nat).

(* ---- rendering ---- *)
Definition oq (q : Qc) : oval := ONum (Some q).
Definition oz (n : Z) : oval := ONum (Some (zq n)).
Definition ovq (l : list Qc) : oval := OVec (map Some l).
Definition ovz (l : list Z) : oval := OVec (map (fun n => Some (zq n)) l).
Definition render {S R} (fs : S -> oval) (fr : R -> oval) (l : list (option (S * R))) : list (option (oval * oval)) :=
  map (option_map (fun p => (fs (fst p), fr (snd p)))) l.

Definition mean_s_state (p : Qc * Z) := OTup [oq (fst p); oz (snd p)].
Definition var_s_state (p : var_state) := let '(x, x2, n, _) := p in OTup [oq x; oq x2; oz n].
Definition mean_v_state (p : list Qc * list Z) := OTup [ovq (fst p); ovz (snd p)].
Definition var_v_state (p : list Qc * list Qc * list Z) := let '(x, x2, n) := p in OTup [ovq x; ovq x2; ovz n].

Definition run_red (v : variant) (r : red) (s : shape) (bs : list frame) : list (option (oval * oval)) :=
  match s, r with
  | Ser c, RSum => render oq oq (run (accumulator (sum_s c)) None bs)
  | Ser c, RCount => render oz oz (run (accumulator (count_s c)) None bs)
  | Ser c, RSize => render oz oz (run (accumulator (size_s c)) None bs)
  | Ser c, RMean => render mean_s_state ONum (run (accumulator (mean_s c v)) None bs)
  | Ser c, RVar d => render var_s_state ONum (run (accumulator (var_s c v d)) None bs)
  | Fr cs, RSum => render ovq ovq (run (accumulator (sum_v cs)) None bs)
  | Fr cs, RCount => render ovz ovz (run (accumulator (count_v cs)) None bs)
  | Fr cs, RSize => render oz oz (run (accumulator (size_v cs)) None bs)
  | Fr cs, RMean => render mean_v_state OVec (run (accumulator (mean_v cs)) None bs)
  | Fr cs, RVar d => render var_v_state OVec (run (accumulator (var_v cs d)) None bs)
  end.

Definition exp_state {S} (fs : S -> oval) (p : list frame * S) : oval :=
  OTup [OVec (map (fun d => Some (zq (Z.of_nat (length d)))) (fst p)); fs (snd p)].
Definition run_exp (v : variant) (r : red) (s : shape) (bs : list frame) : list (option (oval * oval)) :=
  match s, r with
  | Ser c, RSum => render (exp_state oq) oq (run (window_accumulator_expanding (sum_s c)) None bs)
  | Ser c, RCount => render (exp_state oz) oz (run (window_accumulator_expanding (count_s c)) None bs)
  | Ser c, RSize => render (exp_state oz) oz (run (window_accumulator_expanding (size_s c)) None bs)
  | Ser c, RMean => render (exp_state mean_s_state) ONum (run (window_accumulator_expanding (mean_s c v)) None bs)
  | Ser c, RVar d => render (exp_state var_s_state) ONum (run (window_accumulator_expanding (var_s c v d)) None bs)
  | Fr cs, RSum => render (exp_state ovq) ovq (run (window_accumulator_expanding (sum_v cs)) None bs)
  | Fr cs, RCount => render (exp_state ovz) ovz (run (window_accumulator_expanding (count_v cs)) None bs)
  | Fr cs, RSize => render (exp_state oz) oz (run (window_accumulator_expanding (size_v cs)) None bs)
  | Fr cs, RMean => render (exp_state mean_v_state) OVec (run (window_accumulator_expanding (mean_v cs)) None bs)
  | Fr cs, RVar d => render (exp_state var_v_state) OVec (run (window_accumulator_expanding (var_v cs d)) None bs)
  end.

(* groupby: one model run per value column; the columns share the key index *)
Definition kq (m : kmap Qc) : kmap (option Qc) := map (fun p => (fst p, Some (snd p))) m.
Definition kz (m : kmap Z) : kmap (option Qc) := map (fun p => (fst p, Some (zq (snd p)))) m.
Definition gcomps := (list (kmap (option Qc)) * kmap (option Qc))%type.      (* state components, result *)
Definition grender {S R} (fs : S -> list (kmap (option Qc))) (fr : R -> kmap (option Qc))
  (l : list (option (S * R))) : list gcomps :=
  map (fun o => match o with Some p => (fs (fst p), fr (snd p)) | None => ([], []) end) l.
Definition run_gcol (g : gop) (gs : grouper_spec) (bs : list frame) (c : nat) : list gcomps :=
  match g with
  | GSum => grender (fun s => [kq s]) kq (grun gs (gsum c) None bs)
  | GCount => grender (fun s => [kz s]) kz (grun gs (gcount c) None bs)
  | GSize => grender (fun s => [kz s]) kz (grun gs gsize None bs)
  | GMean => grender (fun s => [kq (fst s); kz (snd s)]) (fun r => r) (grun gs (gmean c) None bs)
  | GVar d => grender (fun s => let '(x, x2, n) := s in [kq x; kq x2; kz n]) (fun r => r) (grun gs (gvar c d) None bs)
  end.
Definition transpose_k (ms : list (kmap (option Qc))) : list (Z * list (option Qc)) :=
  match ms with
  | [] => []
  | m0 :: _ => map (fun p => (fst p, map (fun m => kget None m (fst p)) ms)) m0
  end.
Definition run_grp (g : gop) (gs : grouper_spec) (cs : list nat) (bs : list frame) : list (option (oval * oval)) :=
  let runs := map (run_gcol g gs bs) cs in
  let ncomp := match g with GMean => 2%nat | GVar _ => 3%nat | _ => 1%nat end in
  map (fun i =>
         let cols := map (fun r => nth i r ([], [])) runs in
         let comp j := OMap (transpose_k (map (fun gc => nth j (fst gc) []) cols)) in
         let st := match ncomp with 1%nat => comp 0%nat | _ => OTup (map comp (seq 0 ncomp)) end in
         Some (st, OMap (transpose_k (map snd cols))))
      (seq 0 (length bs)).

Definition run_vc (bs : list frame) : list (option (oval * oval)) :=
  let f (m : kmap Z) := OMap (transpose_k [kz m]) in
  render f f (run (accumulator value_counts_agg) None bs).

Definition model_run (v : variant) (a : aggid) (filt : option Qc) (bs : list frame) : list (option (oval * oval)) :=
  let bs := match filt with Some t => map (pfilter_gt 0 t) bs | None => bs end in
  match a with
  | ARed r s => run_red v r s bs
  | AExp r s => run_exp v r s bs
  | AVC => run_vc bs
  | AGrp g gs cs => run_grp g gs cs bs
  end.

(* ---- comparison ---- *)
Definition q_eqb (a b : Qc) : bool := Qeq_bool (this a) (this b).
(* |a - b| <= 1e-9 * max(1, |b|)  (a observed, b model) *)
Definition q_close (a b : Qc) : bool :=
  let d := Qabs (this a - this b)%Q in
  let m := Qabs (this b) in
  Qle_bool d ((1 # 1000000000) * (if Qle_bool 1 m then m else 1))%Q.
Definition oq_cmp (tol : bool) (a b : option Qc) : bool :=
  match a, b with
  | None, None => true
  | Some x, Some y => if tol then q_close x y else q_eqb x y
  | _, _ => false
  end.
Fixpoint list_cmp {A} (f : A -> A -> bool) (a b : list A) : bool :=
  match a, b with
  | [], [] => true
  | x :: a', y :: b' => f x y && list_cmp f a' b'
  | _, _ => false
  end.
Fixpoint oval_cmp (tol : bool) (a b : oval) {struct a} : bool :=
  match a, b with
  | ONone, ONone => true
  | ONum x, ONum y => oq_cmp tol x y
  | OVec x, OVec y => list_cmp (oq_cmp tol) x y
  | OMap x, OMap y => list_cmp (fun p q => (fst p =? fst q)%Z && list_cmp (oq_cmp tol) (snd p) (snd q)) x y
  | OTup x, OTup y =>
      (fix go (x y : list oval) : bool :=
         match x, y with
         | [], [] => true
         | u :: x', w :: y' => oval_cmp tol u w && go x' y'
         | _, _ => false
         end) x y
  | _, _ => false
  end.

Record case := mkcase {
  c_agg : aggid;
  c_filt : option Qc;
  c_quot : bool;                                  (* emitted value is a quotient: compare within 1e-9 *)
  c_batches : list frame;
  c_obs : list (option (oval * oval)) }.          (* per batch: (state, value) seen on the real code; None = emit raised *)

Definition step_cmp (quot : bool) (o m : option (oval * oval)) : bool :=
  match o, m with
  | None, None => true
  | Some (os, ov), Some (ms, mv) => oval_cmp false os ms && oval_cmp quot ov mv
  | _, _ => false
  end.
Definition agrees (v : variant) (c : case) : bool :=
  list_cmp (step_cmp (c_quot c)) (c_obs c) (model_run v (c_agg c) (c_filt c) (c_batches c)).

Fixpoint mism_from (v : variant) (i : nat) (cs : list case) : list nat :=
  match cs with
  | [] => []
  | c :: t => if agrees v c then mism_from v (S i) t else i :: mism_from v (S i) t
  end.
Definition mismatches (v : variant) (cs : list case) : list nat := mism_from v 0 cs.

(* ---- C12: a resumed run observed on the real code against the suffix of the model's uninterrupted run
        (equal to the model's resumed run by DF.Resume.resume_from_emitted) ---- *)
Record rcase := mkrcase {
  r_case : case;                                   (* the uninterrupted run and what it emitted *)
  r_cut : nat;                                     (* checkpoint taken after this many batches *)
  r_obs : list (option (oval * oval)) }.           (* what the pipeline restarted from that state emitted *)
Definition ragrees (v : variant) (rc : rcase) : bool :=
  let c := r_case rc in
  agrees v c &&
  list_cmp (step_cmp (c_quot c)) (r_obs rc) (skipn (r_cut rc) (model_run v (c_agg c) (c_filt c) (c_batches c))).
Fixpoint rmism_from (v : variant) (i : nat) (cs : list rcase) : list nat :=
  match cs with
  | [] => []
  | c :: t => if ragrees v c then rmism_from v (S i) t else i :: rmism_from v (S i) t
  end.
Definition rmismatches (v : variant) (cs : list rcase) : list nat := rmism_from v 0 cs.
