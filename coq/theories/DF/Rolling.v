(* DF/Rolling.v — executable model for C11: rolling / cumulative / ewm accumulators of streamz/dataframe/core.py and
   aggregations.py (rolling_accumulator, _cumulative_accumulator, EWMean) next to pandas' one-pass definitions.

   Rows are DF.Window.row (stamp, key, cell); a cell is option Qc, None = NaN.
   Variants: fx_cum (false = as found: the carried state is the last cumulative ROW, NaN when the batch ends with a NaN
   cell; true = repaired: the last valid cumulative value, `result.ffill().iloc[-1:]`),
   fx_ewm (false = as found: EWMean.initial takes new.iloc[:1] of an EMPTY first batch and every later result is an
   empty Series; true = repaired: the start value is taken from the first non-empty batch). *)
From Coq Require Import List ZArith QArith Qcanon Bool Lia.
From SZ Require Import DF.Window.
Import ListNotations.
Close Scope Qc_scope. Close Scope Q_scope. Open Scope nat_scope.

(* ---------- pandas: rolling(window).op() in one pass ---------- *)
(* an op maps the rows of one window to the reported number; min_periods is part of the op *)
Definition wop := frame -> onum.

(* integer window w: the value at a row is op (last w rows up to and including it) *)
Fixpoint rolling_from (w : nat) (op : wop) (pre l : frame) : list onum :=
  match l with
  | [] => []
  | x :: t => op (lastn w (pre ++ [x])) :: rolling_from w op (pre ++ [x]) t
  end.
Definition pd_rolling (w : nat) (op : wop) (l : frame) : list onum := rolling_from w op [] l.

(* time window T on a monotonic index: rows at or before this one whose stamp is > stamp - T *)
Fixpoint trolling_from (T : Z) (op : wop) (pre l : frame) : list onum :=
  match l with
  | [] => []
  | x :: t => op (filter (fun r => (stamp x - T <? stamp r)%Z) (pre ++ [x])) :: trolling_from T op (pre ++ [x]) t
  end.
Definition pd_trolling (T : Z) (op : wop) (l : frame) : list onum := trolling_from T op [] l.

(* ---------- streamz: rolling_accumulator ----------
     df = concat([acc, new]); result = df.rolling(window).op()
     new_acc = df.iloc[-window:]                      (int window)
             = df.loc[result.index.max() - window:]   (time window; label slice on a monotonic index)
     result = result.iloc[len(acc):]                                                            *)
Definition roll_step (w : nat) (op : wop) (acc new : frame) : frame * list onum :=
  let df := acc ++ new in
  (lastn w df, skipn (length acc) (pd_rolling w op df)).

Definition troll_step (T : Z) (op : wop) (acc new : frame) : frame * list onum :=
  let df := acc ++ new in
  (if isnil df then df else filter (fun r => (fmax df - T <=? stamp r)%Z) df,
   skipn (length acc) (pd_trolling T op df)).

Fixpoint run_steps {S O} (step : S -> frame -> S * O) (acc : S) (batches : list frame) : list O :=
  match batches with
  | [] => []
  | b :: t => let '(acc', r) := step acc b in r :: run_steps step acc' t
  end.

Definition roll_run (w : nat) (op : wop) (batches : list frame) : list (list onum) := run_steps (roll_step w op) [] batches.
Definition troll_run (T : Z) (op : wop) (batches : list frame) : list (list onum) := run_steps (troll_step T op) [] batches.

(* ---------- concrete ops (pandas semantics of the window reductions, exact arithmetic) ---------- *)
Definition valid (f : frame) : list Qc := flat_map (fun r => match val r with Some v => [v] | None => [] end) f.
Definition qsum (l : list Qc) : Qc := fold_right Qcplus q0 l.
Definition qmin2 (a b : Qc) : Qc := if Qle_bool (this a) (this b) then a else b.
Definition qmax2 (a b : Qc) : Qc := if Qle_bool (this a) (this b) then b else a.
Definition qfold1 (f : Qc -> Qc -> Qc) (l : list Qc) : onum :=
  match l with [] => ONan | a :: t => ONum (fold_left f t a) end.
Inductive ropname := RSum | RMean | RMin | RMax | RCount.
(* minp = window size for integer windows, 1 for time windows; count compares the number of ROWS with minp *)
Definition rop (o : ropname) (minp : nat) : wop := fun win =>
  let v := valid win in
  match o with
  | RCount => if length win <? minp then ONan else ONum (z2q (Z.of_nat (length v)))
  | _ =>
    if length v <? minp then ONan else
    match o with
    | RSum => ONum (qsum v)
    | RMean => match v with [] => ONan | _ => ONum (Qcdiv (qsum v) (z2q (Z.of_nat (length v)))) end
    | RMin => qfold1 qmin2 v
    | RMax => qfold1 qmax2 v
    | RCount => ONan
    end
  end.

(* ---------- pandas: cumsum / cumprod / cummin / cummax (skipna): NaN cells stay NaN, the running value goes on ---------- *)
Fixpoint cum_from (f : Qc -> Qc -> Qc) (run : option Qc) (l : list (option Qc)) : list (option Qc) :=
  match l with
  | [] => []
  | None :: t => None :: cum_from f run t
  | Some v :: t => let r := match run with None => v | Some a => f a v end in Some r :: cum_from f (Some r) t
  end.
Definition pd_cum (f : Qc -> Qc -> Qc) (l : list (option Qc)) : list (option Qc) := cum_from f None l.

(* ---------- streamz: _cumulative_accumulator ----------
     state = () or the one-row frame result.iloc[-1:]; empty batch: state unchanged, emits the empty batch *)
Fixpoint last_valid (l : list (option Qc)) (d : option Qc) : option Qc :=
  match l with [] => d | None :: t => last_valid t d | Some v :: t => last_valid t (Some v) end.

Definition cum_step (fx : bool) (f : Qc -> Qc -> Qc) (state : option (option Qc)) (new : list (option Qc))
  : option (option Qc) * list (option Qc) :=
  match new with
  | [] => (state, [])
  | _ =>
    let df := match state with None => new | Some s => s :: new end in
    let result := pd_cum f df in
    let new_state := if fx then last_valid result None else last result None in
    (Some new_state, match state with None => result | Some _ => tl result end)
  end.
Definition cum_run (fx : bool) (f : Qc -> Qc -> Qc) (batches : list (list (option Qc))) : list (list (option Qc)) :=
  (fix go st bs := match bs with [] => [] | b :: t => let '(st', r) := cum_step fx f st b in r :: go st' t end) None batches.

Inductive cumname := CSum | CProd | CMin | CMax.
Definition cumf (c : cumname) : Qc -> Qc -> Qc :=
  match c with CSum => Qcplus | CProd => Qcmult | CMin => qmin2 | CMax => qmax2 end.

(* ---------- pandas: ewm(com).mean(), adjust=True, on NaN-free data ----------
     y_t = sum_i q^i x_(t-i) / sum_i q^i,  q = 1 - alpha = com/(1+com); Horner form over the reversed prefix *)
Fixpoint horner (q : Qc) (l : list Qc) : Qc := match l with [] => q0 | x :: t => Qcplus x (Qcmult q (horner q t)) end.
Definition pd_ewm (q : Qc) (prefix : list Qc) : Qc :=
  Qcdiv (horner q (rev prefix)) (horner q (map (fun _ => q1) (rev prefix))).

(* ---------- streamz: EWMean ---------- *)
Inductive ewres := EEmpty | EVal (v : Qc).
Record ewstate := mkEw { ew_res : ewres; ew_wt : Qc; ew_first : bool }.
Definition ew_row (q : Qc) (st : ewres * Qc) (x : Qc) : ewres * Qc :=
  let '(r, w) := st in
  let w1 := Qcmult w q in
  (match r with EEmpty => EEmpty | EVal v => EVal (Qcdiv (Qcplus (Qcmult w1 v) x) (Qcplus w1 q1)) end, Qcplus w1 q1).
Definition ew_initial (new : list Qc) : ewstate := mkEw (match new with [] => EEmpty | x :: _ => EVal x end) q1 true.
Definition ew_on_new (fx : bool) (q : Qc) (st : ewstate) (new : list Qc) : ewstate :=
  if fx && ew_first st && match ew_res st with EEmpty => true | _ => false end then
    (* repaired: nothing seen yet, start from this batch *)
    match new with
    | [] => st
    | x :: t => let '(r, w) := fold_left (ew_row q) t (EVal x, q1) in mkEw r w false
    end
  else
    let '(r, w) := fold_left (ew_row q) (if ew_first st then tl new else new) (ew_res st, ew_wt st) in mkEw r w false.
(* window_accumulator with diff_expanding: acc is None -> state = initial(new); then on_new *)
Definition ew_step (fx : bool) (q : Qc) (acc : option ewstate) (new : list Qc) : option ewstate * ewres :=
  let st := match acc with None => ew_initial new | Some s => s end in
  let st' := ew_on_new fx q st new in
  (Some st', ew_res st').
Definition ewm_run (fx : bool) (q : Qc) (batches : list (list Qc)) : list ewres :=
  (fix go acc bs := match bs with [] => [] | b :: t => let '(acc', r) := ew_step fx q acc b in r :: go acc' t end) None batches.

(* ---------- correspondence: cases generated by harness/check_c11.py ---------- *)
Record rflags := mkRFlags { fx_cum : bool; fx_ewm : bool }.
Inductive fam :=
| FRoll (w : nat) (o : ropname) | FTroll (T : Z) (o : ropname) | FCum (c : cumname) | FEwm (com : Qc)
| FExp (a : aggname).
Record rcase := mkRCase { r_fam : fam; r_batches : list frame; r_obs : list res }.

Definition cells (f : frame) : list (option Qc) := map val f.
Definition ocell (c : option Qc) : onum := match c with Some v => ONum v | None => ONan end.
Definition values (f : frame) : list Qc := valid f.

Definition rmodel_run (fl : rflags) (c : rcase) : list res :=
  match r_fam c with
  | FRoll w o => map RList (roll_run w (rop o w) (r_batches c))
  | FTroll T o => map RList (troll_run T (rop o 1) (r_batches c))
  | FCum cn => map (fun l => RList (map ocell l)) (cum_run (fx_cum fl) (cumf cn) (map cells (r_batches c)))
  | FEwm com => map (fun r => match r with EEmpty => RList [] | EVal v => RScal (ONum v) end)
                    (ewm_run (fx_ewm fl) (Qcdiv com (Qcplus q1 com)) (map values (r_batches c)))
  | FExp a => wrun (agg_of (mkFlags true true true) true a) WE (r_batches c)
  end.
Definition ragree (fl : rflags) (c : rcase) : bool := all2 res_close (rmodel_run fl c) (r_obs c).
Fixpoint rmism_from (fl : rflags) (i : nat) (cs : list rcase) : list nat :=
  match cs with [] => [] | c :: t => if ragree fl c then rmism_from fl (S i) t else i :: rmism_from fl (S i) t end.
Definition rmismatches (fl : rflags) (cs : list rcase) : list nat := rmism_from fl 0 cs.
Definition all_rflags : list rflags := [mkRFlags false false; mkRFlags true false; mkRFlags false true; mkRFlags true true].
