(* DF/WindowVar.v — the streaming variance formula (x2/n - (x/n)^2) * n/(n - ddof) on the state (sum, sum of squares,
   count) of the window rows IS pandas' two-pass variance sum (x - mean)^2 / (n - ddof), NaN for n <= ddof; ddof 0, 1. *)
From Coq Require Import List ZArith QArith Qcanon Bool Lia.
From SZ Require Import DF.Window DF.WindowProofs.
Import ListNotations.
Close Scope Qc_scope. Close Scope Q_scope. Open Scope nat_scope.

Definition psumdev (m : Qc) (f : frame) : Qc :=
  fold_right (fun r a => match val r with Some v => Qcplus (Qcmult (Qcminus v m) (Qcminus v m)) a | None => a end) q0 f.

(* pandas: Series.var(ddof) skips NaN; NaN when the number of valid cells is <= ddof *)
Definition pd_var (ddof : Z) (f : frame) : onum :=
  let n := pcount f in
  if (n <=? ddof)%Z then ONan
  else ONum (Qcdiv (psumdev (Qcdiv (psum f) (z2q n)) f) (z2q (n - ddof))).

Local Open Scope Qc_scope.

Lemma z2q_plus a b : z2q (a + b) = z2q a + z2q b.
Proof.
  unfold z2q. apply Qc_is_canon.
  change (Qred (inject_Z (a + b)) == Qred (Qred (inject_Z a) + Qred (inject_Z b)))%Q.
  rewrite !Qred_correct. rewrite inject_Z_plus. reflexivity.
Qed.
Lemma z2q_1 : z2q 1 = 1.
Proof. apply Qc_is_canon. reflexivity. Qed.
Lemma z2q_0 : z2q 0 = 0.
Proof. apply Qc_is_canon. reflexivity. Qed.
Lemma z2q_nonzero n : n <> 0%Z -> z2q n <> 0.
Proof.
  intros Hn H. unfold z2q in H. apply Q2Qc_eq_iff in H. unfold Qeq in H. simpl in H. lia.
Qed.
Lemma z2q_minus a b : z2q (a - b) = z2q a - z2q b.
Proof. replace a with ((a - b) + b)%Z at 2 by lia. rewrite z2q_plus. ring. Qed.

Lemma pcount_nonneg f : (0 <= pcount f)%Z.
Proof. unfold pcount. induction f as [|r f IH]; cbn [fold_right]; [lia|]. destruct (val r); lia. Qed.

Lemma psumdev_expand m f :
  psumdev m f = psumsq f - (1 + 1) * m * psum f + z2q (pcount f) * m * m.
Proof.
  unfold psumdev, psumsq, psum, pcount. induction f as [|r f IH]; cbn [fold_right].
  - rewrite z2q_0. unfold q0. ring.
  - destruct (val r); auto. rewrite IH, z2q_plus, z2q_1. ring.
Qed.

Lemma pcount_zero f : pcount f = 0%Z -> psum f = 0 /\ psumsq f = 0.
Proof.
  unfold pcount, psum, psumsq. induction f as [|r f IH]; cbn [fold_right]; auto.
  destruct (val r); auto. intros H. pose proof (pcount_nonneg f). unfold pcount in *. lia.
Qed.
Lemma pcount_one f : pcount f = 1%Z -> psumsq f = psum f * psum f.
Proof.
  induction f as [|r f IH]; unfold pcount, psum, psumsq in *; cbn [fold_right]; [discriminate|].
  destruct (val r); auto. intros H.
  destruct (pcount_zero f) as [E1 E2]; [unfold pcount; lia|]. unfold psum, psumsq in *. rewrite E1, E2. ring.
Qed.

Theorem var_fin_is_pandas ddof f : ddof = 0%Z \/ ddof = 1%Z -> var_fin ddof (var_h f) = pd_var ddof f.
Proof.
  intros Hd. unfold var_fin, var_h, pd_var. pose proof (pcount_nonneg f) as Hn.
  set (n := pcount f) in *. set (x := psum f). set (x2 := psumsq f).
  destruct (Z.eqb_spec n 0) as [E0|E0].
  - rewrite E0. destruct Hd as [-> | ->]; reflexivity.
  - assert (Hnq : z2q n <> 0) by (apply z2q_nonzero; auto).
    rewrite psumdev_expand. fold n x x2.
    destruct Hd as [-> | ->].
    + simpl Z.eqb. cbv iota. destruct (Z.leb_spec n 0); [lia|]. f_equal.
      replace (n - 0)%Z with n by lia. field. auto.
    + simpl Z.eqb. cbv iota. destruct (Z.eqb_spec (n - 1) 0) as [E1|E1].
      * assert (n = 1%Z) by lia. destruct (Z.leb_spec n 1); [|lia].
        assert (Hx2 : x2 = x * x) by (apply pcount_one; auto).
        destruct (Qc_eq_dec _ q0) as [_|Hne]; auto. exfalso. apply Hne.
        rewrite Hx2, H, z2q_1. unfold q0. field. discriminate.
      * destruct (Z.leb_spec n 1); [lia|]. f_equal.
        assert (Hn1 : z2q (n - 1) <> 0) by (apply z2q_nonzero; auto).
        field. auto.
Qed.

(* windowed var (repaired scalar / any Series-valued use), ddof 0 or 1 = pandas' variance of the window rows *)
Theorem window_n_var_pandas scalar fx ddof : (scalar && negb fx = false)%bool -> ddof = 0%Z \/ ddof = 1%Z ->
  forall N batches,
  wrun (var_agg scalar fx ddof) (WN N) batches = map (fun p => RScal (pd_var ddof (window_n N p))) (prefixes batches).
Proof.
  intros Hf Hd N batches. rewrite (window_n_correct (var_agg scalar fx ddof) var_h (var_lawful scalar fx ddof Hf)).
  apply map_ext. intros p. simpl. f_equal. now apply var_fin_is_pandas.
Qed.
Theorem window_t_var_pandas scalar fx ddof : (scalar && negb fx = false)%bool -> ddof = 0%Z \/ ddof = 1%Z ->
  forall T batches, (1 <= T)%Z -> ssorted (concat batches) ->
  wrun (var_agg scalar fx ddof) (WT true T) batches = map (fun p => RScal (pd_var ddof (window_t T p))) (prefixes batches).
Proof.
  intros Hf Hd T batches HT Hs. rewrite (window_t_correct (var_agg scalar fx ddof) var_h (var_lawful scalar fx ddof Hf) T batches HT Hs).
  apply map_ext. intros p. simpl. f_equal. now apply var_fin_is_pandas.
Qed.
