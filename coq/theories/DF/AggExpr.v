(* DF/AggExpr.v — elementwise expressions on streaming frames (C06, second sentence).
   `sdf.x + sdf.y`, `sdf.x * 2`, `-sdf.x` ... are built by collection.map_partitions: a column is
   `source.map(getattr, c)`, a binary operation on two streaming operands is `zip(a.stream, b.stream).map(op)`,
   an operation with a constant is `a.stream.map(op, const)` (pandas broadcasts the constant).
   `seval` follows that construction node by node on the list of batches; `peval` is pandas' vectorised
   evaluation on one frame.  The theorems: the streamed result for each batch is pandas on that batch, and
   concatenating the per-batch results gives pandas on the concatenated table. *)
From Coq Require Import List ZArith QArith Qcanon Bool Lia.
From SZ Require Import DF.Frames.
From SZ Require Import DF.Agg.
From SZ Require Import DF.AggProofs.
Import ListNotations.
Local Open Scope Qc_scope.

Inductive binop := BAdd | BSub | BMul.
Inductive expr :=
| ECol (c : nat)
| EConst (q : Qc)
| EBin (o : binop) (a b : expr)
| ENeg (a : expr).

Definition obin (o : binop) (x y : option Qc) : option Qc :=       (* NaN propagates *)
  match x, y with
  | Some a, Some b => Some (match o with BAdd => a + b | BSub => a - b | BMul => a * b end)
  | _, _ => None
  end.

(* pandas, vectorised, on one frame (operands share the frame's index, so alignment is positional) *)
Fixpoint peval (e : expr) (f : frame) : series :=
  match e with
  | ECol c => col c f
  | EConst q => map (fun _ => Some q) f
  | EBin o a b => zipw (obin o) (peval a f) (peval b f)
  | ENeg a => map (option_map Qcopp) (peval a f)
  end.

(* the stream graph built by map_partitions, run on the batches one at a time *)
Fixpoint seval (e : expr) (bs : list frame) : list series :=
  match e with
  | ECol c => map (col c) bs                                        (* source.map(getattr, c) *)
  | EConst q => map (fun b => map (fun _ => Some q) b) bs           (* constant operand, broadcast in the map *)
  | EBin o a b => zipw (zipw (obin o)) (seval a bs) (seval b bs)    (* zip(a, b).map(op) *)
  | ENeg a => map (map (option_map Qcopp)) (seval a bs)             (* a.map(neg) *)
  end.

Theorem elementwise_per_batch : forall e bs, seval e bs = map (peval e) bs.
Proof.
  induction e as [c|q|o a IHa b IHb|a IHa]; intros bs; cbn [seval peval].
  - reflexivity.
  - reflexivity.
  - rewrite IHa, IHb. apply zipw_map.
  - rewrite IHa, map_map. reflexivity.
Qed.

Lemma zipw_length {A B C} (g : A -> B -> C) : forall a b n, length a = n -> length b = n -> length (zipw g a b) = n.
Proof.
  induction a as [|x a IH]; intros [|y b] n Ha Hb; cbn in *; try congruence.
  destruct n; [discriminate|]. f_equal. apply IH; congruence.
Qed.
Lemma peval_length e : forall f, length (peval e f) = length f.
Proof.
  induction e as [c|q|o a IHa b IHb|a IHa]; intros f; cbn [peval].
  - apply map_length.
  - apply map_length.
  - apply zipw_length; auto.
  - rewrite map_length. apply IHa.
Qed.
Lemma zipw_app {A B C} (g : A -> B -> C) a1 b1 a2 b2 :
  length a1 = length b1 -> zipw g (a1 ++ a2) (b1 ++ b2) = zipw g a1 b1 ++ zipw g a2 b2.
Proof. revert b1. induction a1 as [|x a1 IH]; intros [|y b1] H; cbn in *; try discriminate; auto. f_equal. apply IH. congruence. Qed.
Lemma peval_app e : forall f g, peval e (f ++ g) = peval e f ++ peval e g.
Proof.
  induction e as [c|q|o a IHa b IHb|a IHa]; intros f g; cbn [peval].
  - apply map_app.
  - apply map_app.
  - rewrite IHa, IHb. apply zipw_app. rewrite !peval_length. reflexivity.
  - rewrite IHa. apply map_app.
Qed.
(* the streamed pieces concatenate to pandas on the whole table: nothing depends on where the batches are cut *)
Theorem elementwise_concat : forall e bs, concat (seval e bs) = peval e (concat bs).
Proof.
  intros e bs. rewrite elementwise_per_batch.
  induction bs as [|b t IH]; cbn [map concat].
  - clear. induction e as [c|q|o a IHa b IHb|a IHa]; cbn [peval]; try reflexivity.
    + rewrite <- IHa, <- IHb. reflexivity.
    + rewrite <- IHa. reflexivity.
  - rewrite IH, peval_app. reflexivity.
Qed.

(* boolean filters and column selection are per-row, hence per-batch: *)
Theorem filter_per_batch (p : row -> bool) (bs : list frame) :
  concat (map (filter p) bs) = filter p (concat bs).
Proof. induction bs as [|b t IH]; cbn; [reflexivity|]. rewrite IH, filter_app. reflexivity. Qed.
