(* Structural theorem about push: in a DAG, with no exception, the call log is
   exactly what the per-node update functions prescribe:
   - every downstream of an emitting node (snapshot taken when the emission starts) that is still attached when its
     turn comes receives the element exactly once, in attachment order, each cascade completing before the next sibling
     is called; only a slice with an end can have left in between (it finished during an earlier hand-over of the same
     emission), every permanent downstream is served;
   - the state of every node is the fold of its update over its arrivals;
   - the sequence carried by every (permanent) edge u->d is the sequence of
     outputs of u's update folded over u's arrivals: nothing lost, duplicated or reordered. *)
From Coq Require Import List ZArith Bool Lia Arith.
From SZ Require Import Base.Values Sync.Nodes Sync.Pipeline.
Import ListNotations.
Close Scope Z_scope.
Open Scope nat_scope.

(* ---- effect of an action list ------------------------------------------- *)
Fixpoint final_state (acts : list action) (s : nstate) : nstate :=
  match acts with
  | [] => s
  | ASet st :: t => final_state t st
  | _ :: t => final_state t s
  end.

Fixpoint outs (acts : list action) : list (val * md) :=
  match acts with
  | [] => []
  | AEmit y my :: t => (y, my) :: outs t
  | _ :: t => outs t
  end.

Definition arrival : Type := nat * val * md.     (* port, value, metadata *)

Definition upd_state (k : kind) (s : nstate) (a : arrival) : nstate :=
  let '(p, x, m) := a in
  match update k s p x m with Some acts => final_state acts s | None => s end.

Definition upd_outs (k : kind) (s : nstate) (a : arrival) : list (val * md) :=
  let '(p, x, m) := a in
  match update k s p x m with Some acts => outs acts | None => [] end.

Definition fold_state (k : kind) (s : nstate) (l : list arrival) : nstate :=
  fold_left (upd_state k) l s.

Fixpoint fold_outs (k : kind) (s : nstate) (l : list arrival) : list (val * md) :=
  match l with
  | [] => []
  | a :: t => upd_outs k s a ++ fold_outs k (upd_state k s a) t
  end.

(* no user function raised while folding *)
Fixpoint fold_ok (k : kind) (s : nstate) (l : list arrival) : bool :=
  match l with
  | [] => true
  | a :: t => match update k s (fst (fst a)) (snd (fst a)) (snd a) with
              | Some _ => fold_ok k (upd_state k s a) t
              | None => false
              end
  end.

Lemma fold_ok_app k : forall l1 s l2,
  fold_ok k s (l1 ++ l2) = fold_ok k s l1 && fold_ok k (fold_state k s l1) l2.
Proof.
  induction l1 as [|a t IH]; intros s l2; cbn [app fold_ok]; [reflexivity|].
  destruct (update k s (fst (fst a)) (snd (fst a)) (snd a)); [|reflexivity].
  rewrite IH. reflexivity.
Qed.

Lemma fold_state_app k s l1 l2 : fold_state k s (l1 ++ l2) = fold_state k (fold_state k s l1) l2.
Proof. unfold fold_state. apply fold_left_app. Qed.

Lemma fold_outs_app k : forall l1 s l2,
  fold_outs k s (l1 ++ l2) = fold_outs k s l1 ++ fold_outs k (fold_state k s l1) l2.
Proof.
  induction l1 as [|a t IH]; intros s l2; cbn [app fold_outs]; [reflexivity|].
  rewrite IH, app_assoc. reflexivity.
Qed.

(* ---- projections of a piece of log (program order) ------------------------ *)
Definition arr (g : graph) (new : list entry) (d : nat) : list arrival :=
  map (fun e => (index_of (e_src e) (ups (gnode g d)), e_val e, e_md e))
      (filter (fun e => e_dst e =? d) new).

Definition edge (new : list entry) (u d : nat) : list (val * md) :=
  map (fun e => (e_val e, e_md e)) (filter (fun e => (e_src e =? u) && (e_dst e =? d)) new).

Lemma arr_app g n1 n2 d : arr g (n1 ++ n2) d = arr g n1 d ++ arr g n2 d.
Proof. unfold arr. rewrite filter_app, map_app. reflexivity. Qed.
Lemma edge_app n1 n2 u d : edge (n1 ++ n2) u d = edge n1 u d ++ edge n2 u d.
Proof. unfold edge. rewrite filter_app, map_app. reflexivity. Qed.

Lemma arr_none g new d : (forall e, In e new -> e_dst e <> d) -> arr g new d = [].
Proof.
  intros H. unfold arr. induction new as [|e t IH]; cbn; [reflexivity|].
  destruct (Nat.eqb_spec (e_dst e) d) as [E|E].
  - exfalso. apply (H e); [left; reflexivity | exact E].
  - apply IH. intros e' He'. apply H. right. exact He'.
Qed.

Lemma edge_none new u d : (forall e, In e new -> e_src e <> u \/ e_dst e <> d) -> edge new u d = [].
Proof.
  intros H. unfold edge. induction new as [|e t IH]; cbn; [reflexivity|].
  destruct (Nat.eqb_spec (e_src e) u) as [E1|E1]; destruct (Nat.eqb_spec (e_dst e) d) as [E2|E2]; cbn;
    try (apply IH; intros e' He'; apply H; right; exact He').
  exfalso. destruct (H e (or_introl eq_refl)) as [X|X]; contradiction.
Qed.

(* ---- permanence: only a slice with an end ever detaches -------------------- *)
Definition permanent (g : graph) (d : nat) : bool :=
  match nkind (gnode g d) with KSlice _ (Some _) _ => false | _ => true end.

Definition is_down (g : graph) (u d : nat) : bool :=
  (d <? length g) && existsb (Nat.eqb u) (ups (gnode g d)).

Definition WF (g : graph) (w : world) : Prop :=
  length (sts w) = length g /\
  forall d, permanent g d = true -> st_detached (nst w d) = false.

(* ---- frame lemmas for retain / release ------------------------------------ *)
Lemma retain_frame w m n : sts (retain w m n) = sts w /\ log (retain w m n) = log w.
Proof.
  unfold retain. revert w. induction m as [|i t IH]; intros w; cbn [fold_left]; [split; reflexivity|].
  destruct (mref i); [|apply IH]. destruct (IH (retain1 w (mid i) n)) as [A B]. rewrite A, B. split; reflexivity.
Qed.
Lemma release_frame w m n : sts (release w m n) = sts w /\ log (release w m n) = log w.
Proof.
  unfold release. revert w. induction m as [|i t IH]; intros w; cbn [fold_left]; [split; reflexivity|].
  destruct (mref i); [|apply IH]. destruct (IH (release1 w (mid i) n)) as [A B]. rewrite A, B. split; reflexivity.
Qed.

Lemma nst_retain w m n i : nst (retain w m n) i = nst w i.
Proof. unfold nst. destruct (retain_frame w m n) as [-> _]. reflexivity. Qed.
Lemma nst_release w m n i : nst (release w m n) i = nst w i.
Proof. unfold nst. destruct (release_frame w m n) as [-> _]. reflexivity. Qed.

Lemma WF_retain g w m n : WF g w -> WF g (retain w m n).
Proof. intros [A B]. split; [destruct (retain_frame w m n) as [-> _]; exact A|]. intros d Hd. rewrite nst_retain. auto. Qed.
Lemma WF_release g w m n : WF g w -> WF g (release w m n).
Proof. intros [A B]. split; [destruct (release_frame w m n) as [-> _]; exact A|]. intros d Hd. rewrite nst_release. auto. Qed.

Lemma downs_retain g w m n k : downs g (retain w m n) k = downs g w k.
Proof. unfold downs. apply filter_ext. intros d. rewrite nst_retain. reflexivity. Qed.

(* ---- set_nth ---------------------------------------------------------------- *)
Lemma set_nth_length {A} (l : list A) : forall i x, length (set_nth i x l) = length l.
Proof. induction l as [|h t IH]; intros [|i] x; cbn; auto. Qed.

Lemma nth_set_nth_eq {A} (l : list A) : forall i x dflt, i < length l -> nth i (set_nth i x l) dflt = x.
Proof. induction l as [|h t IH]; intros [|i] x dflt H; cbn in *; try lia; auto. apply IH. lia. Qed.

Lemma nth_set_nth_neq {A} (l : list A) : forall i j x dflt, i <> j -> nth j (set_nth i x l) dflt = nth j l dflt.
Proof.
  induction l as [|h t IH]; intros [|i] [|j] x dflt H; cbn; try reflexivity; try lia.
  apply IH. lia.
Qed.

(* ---- the specification of one push ------------------------------------------ *)
(* Segment n w new w' : going from w to w', `new` was logged; nothing at or below n was touched;
   every node's state is the fold of update over its new arrivals; every permanent edge out of a
   node above n carried exactly the outputs of that node. *)
Record Segment (g : graph) (n depth : nat) (w : world) (new : list entry) (w' : world) : Prop := {
  seg_log : log w' = rev new ++ log w;
  seg_wf : WF g w';
  seg_low : forall i, i <= n -> nst w' i = nst w i;
  seg_ent : forall e, In e new -> n <= e_src e /\ n < e_dst e /\ e_dst e < length g /\ depth <= e_depth e;
  seg_along : forall e, In e new -> is_down g (e_src e) (e_dst e) = true;
  seg_state : forall d, nst w' d = fold_state (nkind (gnode g d)) (nst w d) (arr g new d);
  seg_ok : forall d, fold_ok (nkind (gnode g d)) (nst w d) (arr g new d) = true;
  seg_edge : forall u d, n < u -> is_down g u d = true -> permanent g d = true ->
             edge new u d = fold_outs (nkind (gnode g u)) (nst w u) (arr g new u);
}.

Lemma Segment_nil g n depth w : WF g w -> Segment g n depth w [] w.
Proof.
  intros H. constructor; cbn; auto; try (intros; contradiction).
Qed.

Lemma Segment_app g n depth w n1 w1 n2 w2 :
  Segment g n depth w n1 w1 -> Segment g n depth w1 n2 w2 -> Segment g n depth w (n1 ++ n2) w2.
Proof.
  intros A B. constructor.
  - rewrite (seg_log _ _ _ _ _ _ B), (seg_log _ _ _ _ _ _ A), rev_app_distr, app_assoc. reflexivity.
  - exact (seg_wf _ _ _ _ _ _ B).
  - intros i Hi. rewrite (seg_low _ _ _ _ _ _ B i Hi). apply (seg_low _ _ _ _ _ _ A i Hi).
  - intros e He. apply in_app_or in He as [He|He]; [apply (seg_ent _ _ _ _ _ _ A e He) | apply (seg_ent _ _ _ _ _ _ B e He)].
  - intros e He. apply in_app_or in He as [He|He]; [apply (seg_along _ _ _ _ _ _ A e He) | apply (seg_along _ _ _ _ _ _ B e He)].
  - intros d. rewrite arr_app, fold_state_app, <- (seg_state _ _ _ _ _ _ A d). apply (seg_state _ _ _ _ _ _ B d).
  - intros d. rewrite arr_app, fold_ok_app, (seg_ok _ _ _ _ _ _ A d), <- (seg_state _ _ _ _ _ _ A d). apply (seg_ok _ _ _ _ _ _ B d).
  - intros u d Hu Hd Hp. rewrite edge_app, arr_app, fold_outs_app.
    rewrite (seg_edge _ _ _ _ _ _ A u d Hu Hd Hp), (seg_edge _ _ _ _ _ _ B u d Hu Hd Hp).
    rewrite <- (seg_state _ _ _ _ _ _ A u). reflexivity.
Qed.

(* a world change that touches neither states nor log *)
Lemma Segment_same g n depth w new w1 w2 :
  Segment g n depth w new w1 -> sts w2 = sts w1 -> log w2 = log w1 -> Segment g n depth w new w2.
Proof.
  intros A Hs Hl. destruct A as [a b c d d2 e e2 f].
  assert (Hn : forall i, nst w2 i = nst w1 i) by (intros i; unfold nst; rewrite Hs; reflexivity).
  constructor; auto.
  - rewrite Hl. exact a.
  - destruct b as [b1 b2]. split; [rewrite Hs; exact b1|]. intros dd Hd. rewrite Hn. auto.
  - intros i Hi. rewrite Hn. auto.
  - intros dd. rewrite Hn. auto.
Qed.

Lemma Segment_same_start g n depth w0 w new w1 :
  Segment g n depth w new w1 -> sts w0 = sts w -> log w0 = log w -> Segment g n depth w0 new w1.
Proof.
  intros A Hs Hl. destruct A as [a b c d d2 e e2 f].
  assert (Hn : forall i, nst w0 i = nst w i) by (intros i; unfold nst; rewrite Hs; reflexivity).
  constructor; auto.
  - rewrite Hl. exact a.
  - intros i Hi. rewrite Hn. auto.
  - intros dd. rewrite Hn. auto.
  - intros dd. rewrite Hn. auto.
  - intros u dd Hu Hd Hp. rewrite Hn. auto.
Qed.

(* what a push from node n promises *)
Definition PushOk (g : graph) (n depth : nat) (w : world) (x : val) (m : md) (w' : world) : Prop :=
  exists new,
    Segment g n depth w new w' /\
    (forall d, is_down g n d = true -> permanent g d = true -> edge new n d = [(x, m)]) /\
    (forall e, In e new -> e_src e = n -> e_depth e = depth) /\
    exists keep : nat -> bool,
      (forall d, permanent g d = true -> keep d = true) /\
      filter (fun e => e_depth e =? depth) new =
        map (fun d => {| e_depth := depth; e_src := n; e_dst := d; e_val := x; e_md := m |})
            (filter keep (downs g w n)).

Definition EmitSpec (g : graph) (emitfrom : nat -> world -> val -> md -> world * status) (depth : nat) : Prop :=
  forall d w y my w', WF g w -> emitfrom d w y my = (w', SOk) -> PushOk g d depth w y my w'.

(* ---- statuses are sticky ------------------------------------------------------ *)
Lemma status_join_ok a s : status_join a s = SOk -> a = SOk /\ s = SOk.
Proof. destruct s; cbn; intros H; try discriminate; auto. Qed.

Lemma actions_ok_inv emit coro d : forall acts w s w',
  fold_left (do_action emit coro d) acts (w, s) = (w', SOk) -> s = SOk.
Proof.
  induction acts as [|a t IH]; intros w s w' H; cbn [fold_left] in H; [congruence|].
  unfold do_action at 2 in H.
  destruct (if coro then status_ok s else status_go s) eqn:G.
  - destruct a as [st|mm|mm|y my].
    + eapply IH; eauto.
    + eapply IH; eauto.
    + eapply IH; eauto.
    + destruct (emit w y my) as [w1 s1] eqn:E. apply IH in H. apply status_join_ok in H. tauto.
  - eapply IH; eauto.
Qed.

Lemma deliver_ok_inv emitfrom g depth n x m : forall l w s w',
  fold_left (deliver emitfrom g depth n x m) l (w, s) = (w', SOk) -> s = SOk.
Proof.
  induction l as [|d t IH]; intros w s w' H; cbn [fold_left] in H; [congruence|].
  unfold deliver at 2 in H.
  destruct (status_go s) eqn:G; [|eapply IH; eauto].
  set (w1 := wlog w _) in H.
  destruct (update _ _ _ _ _) as [acts|].
  - destruct (run_actions _ _ _ _ _) as [w2 s2].
    destruct s2.
    + eapply IH; eauto.
    + apply IH in H. discriminate.
    + destruct (is_coroutine _); apply IH in H; discriminate.
    + apply IH in H. discriminate.
  - destruct (is_coroutine _); apply IH in H; discriminate.
Qed.

Lemma hand_ok_inv emitfrom g depth n x m : forall l w s w',
  fold_left (hand emitfrom g depth n x m) l (w, s) = (w', SOk) -> s = SOk.
Proof.
  induction l as [|d t IH]; intros w s w' H; cbn [fold_left] in H; [congruence|].
  destruct (hand_cases emitfrom g depth n x m w s d) as [E|[_ [_ E]]]; rewrite E in H.
  - destruct (deliver emitfrom g depth n x m (w, s) d) as [w1 s1] eqn:Ed.
    pose proof (IH _ _ _ H) as ->.
    apply (deliver_ok_inv emitfrom g depth n x m [d] w s w1). exact Ed.
  - eapply IH; eauto.
Qed.

(* ---- membership in the live set ------------------------------------------------ *)
Lemma attached_In g w n d : attached g w n d = true <-> In d (downs g w n).
Proof.
  unfold attached. rewrite existsb_exists. split.
  - intros [y [Hy E]]. apply Nat.eqb_eq in E. subst. exact Hy.
  - intros H. exists d. split; [exact H | apply Nat.eqb_refl].
Qed.

(* ---- actions of one node ---------------------------------------------------- *)
Record ActSeg (g : graph) (d depth : nat) (w : world) (acts : list action) (new : list entry) (w' : world) : Prop := {
  as_log : log w' = rev new ++ log w;
  as_wf : WF g w';
  as_low : forall i, i < d -> nst w' i = nst w i;
  as_self : nst w' d = final_state acts (nst w d);
  as_ent : forall e, In e new -> d <= e_src e /\ d < e_dst e /\ e_dst e < length g /\ S depth <= e_depth e;
  as_along : forall e, In e new -> is_down g (e_src e) (e_dst e) = true;
  as_state : forall dd, d < dd -> nst w' dd = fold_state (nkind (gnode g dd)) (nst w dd) (arr g new dd);
  as_ok : forall dd, d < dd -> fold_ok (nkind (gnode g dd)) (nst w dd) (arr g new dd) = true;
  as_edge : forall u dd, d < u -> is_down g u dd = true -> permanent g dd = true ->
            edge new u dd = fold_outs (nkind (gnode g u)) (nst w u) (arr g new u);
  as_out : forall dd, is_down g d dd = true -> permanent g dd = true -> edge new d dd = outs acts;
  as_src : forall e, In e new -> e_src e = d -> e_depth e = S depth;
}.

Lemma nst_wset_eq w d st : d < length (sts w) -> nst (wset_sts w (set_nth d st (sts w))) d = st.
Proof. intros H. unfold nst; cbn. apply nth_set_nth_eq. exact H. Qed.
Lemma nst_wset_neq w d st i : i <> d -> nst (wset_sts w (set_nth d st (sts w))) i = nst w i.
Proof. intros H. unfold nst; cbn. apply nth_set_nth_neq. auto. Qed.

Lemma run_actions_spec g emitfrom depth d coro :
  EmitSpec g emitfrom (S depth) -> d < length g ->
  forall acts w w',
    (forall st, In (ASet st) acts -> permanent g d = true -> st_detached st = false) ->
    WF g w ->
    fold_left (do_action (emitfrom d) coro d) acts (w, SOk) = (w', SOk) ->
    exists new, ActSeg g d depth w acts new w'.
Proof.
  intros HE Hd. induction acts as [|a t IH]; intros w w' Hset Hwf H; cbn [fold_left] in H.
  - injection H as <-. exists []. constructor; cbn; auto; intros; contradiction.
  - assert (Hset' : forall st, In (ASet st) t -> permanent g d = true -> st_detached st = false)
      by (intros st Hin; apply Hset; right; exact Hin).
    unfold do_action at 2 in H.
    replace (if coro then status_ok SOk else status_go SOk) with true in H by (destruct coro; reflexivity).
    destruct a as [st|mm|mm|y my].
    + (* ASet *)
      set (w1 := wset_sts w (set_nth d st (sts w))) in *.
      assert (Hlen : d < length (sts w)) by (destruct Hwf as [-> _]; exact Hd).
      assert (Hwf1 : WF g w1).
      { destruct Hwf as [A B]. split; [unfold w1; cbn; rewrite set_nth_length; exact A|].
        intros dd Hp. destruct (Nat.eq_dec dd d) as [->|Hne].
        - unfold w1. rewrite nst_wset_eq by exact Hlen. apply Hset; [left; reflexivity | exact Hp].
        - unfold w1. rewrite nst_wset_neq by exact Hne. auto. }
      destruct (IH w1 w' Hset' Hwf1 H) as [new S].
      exists new. destruct S as [a1 a2 a3 a4 a5 a5b a6 a6b a7 a8 a9]. constructor; auto.
      * intros i Hi. rewrite a3 by exact Hi. unfold w1. apply nst_wset_neq. lia.
      * rewrite a4. unfold w1. rewrite nst_wset_eq by exact Hlen. reflexivity.
      * intros dd Hdd. rewrite a6 by exact Hdd. unfold w1. rewrite nst_wset_neq by lia. reflexivity.
      * intros dd Hdd. rewrite <- (a6b dd Hdd). unfold w1. rewrite nst_wset_neq by lia. reflexivity.
      * intros u dd Hu Hdn Hp. rewrite (a7 u dd Hu Hdn Hp). unfold w1. rewrite nst_wset_neq by lia. reflexivity.
    + (* ARetain *)
      destruct (IH (retain w mm 1) w' Hset' (WF_retain _ _ _ _ Hwf) H) as [new S].
      exists new. destruct S as [a1 a2 a3 a4 a5 a5b a6 a6b a7 a8 a9]. destruct (retain_frame w mm 1) as [F1 F2].
      constructor; auto.
      * rewrite a1, F2. reflexivity.
      * intros i Hi. rewrite a3 by exact Hi. apply nst_retain.
      * rewrite a4, nst_retain. reflexivity.
      * intros dd Hdd. rewrite a6 by exact Hdd. rewrite nst_retain. reflexivity.
      * intros dd Hdd. rewrite <- (a6b dd Hdd), nst_retain. reflexivity.
      * intros u dd Hu Hdn Hp. rewrite (a7 u dd Hu Hdn Hp), nst_retain. reflexivity.
    + (* ARelease *)
      destruct (IH (release w mm 1) w' Hset' (WF_release _ _ _ _ Hwf) H) as [new S].
      exists new. destruct S as [a1 a2 a3 a4 a5 a5b a6 a6b a7 a8 a9]. destruct (release_frame w mm 1) as [F1 F2].
      constructor; auto.
      * rewrite a1, F2. reflexivity.
      * intros i Hi. rewrite a3 by exact Hi. apply nst_release.
      * rewrite a4, nst_release. reflexivity.
      * intros dd Hdd. rewrite a6 by exact Hdd. rewrite nst_release. reflexivity.
      * intros dd Hdd. rewrite <- (a6b dd Hdd), nst_release. reflexivity.
      * intros u dd Hu Hdn Hp. rewrite (a7 u dd Hu Hdn Hp), nst_release. reflexivity.
    + (* AEmit *)
      destruct (emitfrom d w y my) as [w1 s1] eqn:E.
      pose proof (actions_ok_inv _ _ _ _ _ _ _ H) as Hs. apply status_join_ok in Hs. destruct Hs as [_ Hs]. subst s1.
      cbn [status_join] in H.
      destruct (HE d w y my w1 Hwf E) as [n1 [S1 [O1 [D1 _]]]].
      destruct (IH w1 w' Hset' (seg_wf _ _ _ _ _ _ S1) H) as [n2 S2].
      exists (n1 ++ n2). destruct S1 as [b1 b2 b3 b4 b4b b5 b5b b6]. destruct S2 as [a1 a2 a3 a4 a5 a5b a6 a6b a7 a8 a9].
      constructor; auto.
      * rewrite a1, b1, rev_app_distr, app_assoc. reflexivity.
      * intros i Hi. rewrite a3 by exact Hi. apply b3. lia.
      * rewrite a4. rewrite (b3 d) by lia. reflexivity.
      * intros e He. apply in_app_or in He as [He|He]; [|apply a5; exact He].
        destruct (b4 e He) as [? [? [? ?]]]. repeat split; auto.
      * intros e He. apply in_app_or in He as [He|He]; auto.
      * intros dd Hdd. rewrite arr_app, fold_state_app, <- b5. apply a6. exact Hdd.
      * intros dd Hdd. rewrite arr_app, fold_ok_app, b5b, <- b5. apply a6b. exact Hdd.
      * intros u dd Hu Hdn Hp. rewrite edge_app, arr_app, fold_outs_app.
        rewrite (b6 u dd Hu Hdn Hp), (a7 u dd Hu Hdn Hp), <- b5. reflexivity.
      * intros dd Hdn Hp. rewrite edge_app, (O1 dd Hdn Hp), (a8 dd Hdn Hp). reflexivity.
      * intros e He Hsrc. apply in_app_or in He as [He|He]; [apply D1; assumption | apply a9; assumption].
Qed.

(* ---- update never detaches a permanent node ----------------------------------- *)
Definition perm_kind (k : kind) : bool :=
  match k with KSlice _ (Some _) _ => false | _ => true end.

Ltac split_upd H :=
  repeat match type of H with
         | context [match ?x with _ => _ end] => destruct x eqn:?
         | context [if ?x then _ else _] => destruct x eqn:?
         end.

Lemma In_ASet_app st l1 l2 : In (ASet st) (l1 ++ l2) -> In (ASet st) l1 \/ In (ASet st) l2.
Proof. apply in_app_or. Qed.

Lemma In_ASet_map_emit st (f : val -> action) l :
  (forall y, exists a b, f y = AEmit a b) -> ~ In (ASet st) (map f l).
Proof.
  intros Hf Hin. apply in_map_iff in Hin as [y [Hy _]]. destruct (Hf y) as [a [b E]]. congruence.
Qed.

Lemma update_detached k s p x m acts st :
  update k s p x m = Some acts -> perm_kind k = true -> st_detached s = false ->
  In (ASet st) acts -> st_detached st = false.
Proof.
  intros H Hk Hs Hin.
  destruct k; cbn [update] in H; try discriminate Hk.
  all: try solve [split_upd H; try discriminate H; injection H as <-;
            cbn in Hin; repeat (destruct Hin as [Hin|Hin]; [try discriminate Hin; injection Hin as <-; cbn; exact Hs|]);
            try contradiction].
  - (* slice, no end *)
    destruct stop; [discriminate Hk|]. injection H as <-.
    destruct Hin as [Hin|Hin].
    + injection Hin as <-. reflexivity.
    + destruct (_ && _); cbn in Hin; intuition discriminate.
  - (* partition_unique *)
    destruct (if keep_last then _ else _) as [pre kd] eqn:Epre.
    assert (Hpre : ~ In (ASet st) pre).
    { destruct keep_last.
      - injection Epre as <- _. destruct (assoc_get _ _) as [[? ?]|]; cbn; intuition discriminate.
      - destruct (assoc_get _ _); injection Epre as <- _; cbn; intuition discriminate. }
    destruct (_ =? _); injection H as <-; cbn in Hin.
    + destruct Hin as [Hin|Hin]; [discriminate|]. apply in_app_or in Hin as [Hin|Hin]; [contradiction|].
      cbn in Hin. repeat (destruct Hin as [Hin|Hin]; [try discriminate Hin; injection Hin as <-; cbn; exact Hs|]); contradiction.
    + destruct Hin as [Hin|Hin]; [discriminate|]. apply in_app_or in Hin as [Hin|Hin]; [contradiction|].
      cbn in Hin. repeat (destruct Hin as [Hin|Hin]; [try discriminate Hin; injection Hin as <-; cbn; exact Hs|]); contradiction.
  - (* flatten *)
    destruct (items x) as [[|y l]|]; try discriminate H; injection H as <-; [contradiction|].
    apply in_app_or in Hin as [Hin|Hin].
    + exfalso. revert Hin. apply In_ASet_map_emit. intros z. eauto.
    + cbn in Hin. intuition discriminate.
  - (* zip_latest *)
    set (rel := if p =? 0 then [] else match nth p (st_last s) None with Some (_, om) => [ARelease om] | None => [] end) in *.
    assert (Hrel : ~ In (ASet st) rel).
    { unfold rel. destruct (p =? 0); [intros []|]. destruct (nth p (st_last s) None) as [[? ?]|]; cbn; intuition discriminate. }
    destruct (all_some _) as [full|]; injection H as <-; cbn in Hin.
    + destruct Hin as [Hin|Hin]; [discriminate|]. apply in_app_or in Hin as [Hin|Hin]; [contradiction|].
      cbn in Hin. destruct Hin as [Hin|Hin]; [injection Hin as <-; cbn; exact Hs|].
      revert Hin. generalize (if p =? 0 then st_win s ++ [(x, m)] else st_win s).
      induction l as [|[x0 m0] rest IHl]; intros Hin; cbn in Hin; [contradiction|].
      destruct Hin as [Hin|[Hin|[Hin|Hin]]]; try discriminate Hin.
      * injection Hin as <-. cbn. exact Hs.
      * apply IHl. exact Hin.
    + destruct Hin as [Hin|Hin]; [discriminate|]. apply in_app_or in Hin as [Hin|Hin]; [contradiction|].
      cbn in Hin. destruct Hin as [Hin|[]]. injection Hin as <-. cbn. exact Hs.
Qed.

(* ---- one delivery ------------------------------------------------------------ *)
Lemma is_down_In g u d : is_down g u d = true -> d < length g /\ In u (ups (gnode g d)).
Proof.
  unfold is_down. intros H. apply andb_true_iff in H as [H1 H2]. apply Nat.ltb_lt in H1.
  split; [exact H1|]. apply existsb_exists in H2 as [y [Hy E]]. apply Nat.eqb_eq in E. subst. exact Hy.
Qed.

Definition mk_entry depth n d x m : entry :=
  {| e_depth := depth; e_src := n; e_dst := d; e_val := x; e_md := m |}.

Lemma arr_cons_hit g e t d : e_dst e = d ->
  arr g (e :: t) d = (index_of (e_src e) (ups (gnode g d)), e_val e, e_md e) :: arr g t d.
Proof. intros H. unfold arr. cbn. rewrite H, Nat.eqb_refl. reflexivity. Qed.
Lemma arr_cons_miss g e t d : e_dst e <> d -> arr g (e :: t) d = arr g t d.
Proof. intros H. unfold arr. cbn. apply Nat.eqb_neq in H. rewrite H. reflexivity. Qed.
Lemma edge_cons_miss e t u d : e_src e <> u \/ e_dst e <> d -> edge (e :: t) u d = edge t u d.
Proof.
  intros H. unfold edge. cbn.
  destruct (Nat.eqb_spec (e_src e) u); destruct (Nat.eqb_spec (e_dst e) d); cbn; try reflexivity.
  exfalso. destruct H; contradiction.
Qed.
Lemma edge_cons_hit e t u d : e_src e = u -> e_dst e = d -> edge (e :: t) u d = (e_val e, e_md e) :: edge t u d.
Proof. intros H1 H2. unfold edge. cbn. rewrite H1, H2, !Nat.eqb_refl. reflexivity. Qed.

Lemma deliver_spec g emitfrom depth n x m d w w' :
  wf_dag g -> EmitSpec g emitfrom (S depth) -> WF g w ->
  is_down g n d = true ->
  deliver emitfrom g depth n x m (w, SOk) d = (w', SOk) ->
  exists rest,
     Segment g n depth w (mk_entry depth n d x m :: rest) w' /\
     (forall e, In e rest -> d <= e_src e /\ S depth <= e_depth e).
Proof.
  intros Hdag HE Hwf Hdn H.
  destruct (is_down_In _ _ _ Hdn) as [Hd Hin]. pose proof (Hdag d n Hd Hin) as Hnd.
  unfold deliver in H. cbn [status_go] in H.
  set (e0 := {| e_depth := depth; e_src := n; e_dst := d; e_val := x; e_md := m |}) in *.
  set (w1 := wlog w e0) in *.
  assert (Hn1 : forall i, nst w1 i = nst w i) by reflexivity.
  assert (Hwf1 : WF g w1) by (destruct Hwf as [A B]; split; [exact A | intros dd Hp; rewrite Hn1; auto]).
  destruct (update (nkind (gnode g d)) (nst w1 d) (index_of n (ups (gnode g d))) x m) as [acts|] eqn:Eu;
    [|destruct (is_coroutine _); discriminate H].
  destruct (run_actions (emitfrom d) (is_coroutine (nkind (gnode g d))) d acts w1) as [w2 s2] eqn:Er.
  destruct s2; try discriminate H; [|destruct (is_coroutine _); discriminate H].
  injection H as <-.
  unfold run_actions in Er.
  assert (Hset : forall st, In (ASet st) acts -> permanent g d = true -> st_detached st = false).
  { intros st Hst Hp. eapply update_detached; eauto. destruct Hwf1 as [_ B]. apply B. exact Hp. }
  destruct (run_actions_spec g emitfrom depth d _ HE Hd acts w1 w2 Hset Hwf1 Er) as [rest S].
  destruct S as [a1 a2 a3 a4 a5 a5b a6 a6b a7 a8 a9].
  exists rest. split.
  - destruct (release_frame w2 m 1) as [F1 F2].
    assert (Hn2 : forall i, nst (release w2 m 1) i = nst w2 i) by (intros i; apply nst_release).
    constructor.
    + rewrite F2, a1. cbn. rewrite <- app_assoc. reflexivity.
    + apply WF_release. exact a2.
    + intros i Hi. rewrite Hn2, a3 by lia. apply Hn1.
    + intros e [<-|He]; [cbn; repeat split; lia|].
      destruct (a5 e He) as [? [? [? ?]]]. repeat split; lia.
    + intros e [<-|He]; [cbn; exact Hdn | apply a5b; exact He].
    + intros dd. rewrite Hn2. destruct (lt_eq_lt_dec dd d) as [[Hlt|Heq]|Hgt]; [| subst dd |].
      * rewrite a3 by exact Hlt. rewrite Hn1.
        rewrite arr_cons_miss by (cbn; lia). rewrite arr_none; [reflexivity|].
        intros e He. destruct (a5 e He) as [_ [? _]]. lia.
      * rewrite a4, Hn1. rewrite arr_cons_hit by reflexivity.
        rewrite arr_none by (intros e He; destruct (a5 e He) as [_ [? _]]; lia).
        cbn. rewrite Hn1 in Eu. rewrite Eu. reflexivity.
      * rewrite (a6 dd Hgt), Hn1. rewrite arr_cons_miss by (cbn; lia). reflexivity.
    + intros dd. destruct (lt_eq_lt_dec dd d) as [[Hlt|Heq]|Hgt]; [| subst dd |].
      * rewrite arr_cons_miss by (cbn; lia). rewrite arr_none; [reflexivity|].
        intros e He. destruct (a5 e He) as [_ [? _]]. lia.
      * rewrite arr_cons_hit by reflexivity.
        rewrite arr_none by (intros e He; destruct (a5 e He) as [_ [? _]]; lia).
        cbn. rewrite Hn1 in Eu. rewrite Eu. reflexivity.
      * rewrite arr_cons_miss by (cbn; lia). rewrite <- (a6b dd Hgt). rewrite Hn1. reflexivity.
    + intros u dd Hu Hdd Hp. rewrite edge_cons_miss by (left; cbn; lia).
      destruct (lt_eq_lt_dec u d) as [[Hlt|Heq]|Hgt]; [| subst u |].
      * rewrite edge_none by (intros e He; left; destruct (a5 e He) as [? _]; lia).
        rewrite arr_cons_miss by (cbn; lia).
        rewrite arr_none by (intros e He; destruct (a5 e He) as [_ [? _]]; lia). reflexivity.
      * rewrite (a8 dd Hdd Hp). rewrite arr_cons_hit by reflexivity.
        rewrite arr_none by (intros e He; destruct (a5 e He) as [_ [? _]]; lia).
        cbn. rewrite Hn1 in Eu. rewrite Eu, app_nil_r. reflexivity.
      * rewrite (a7 u dd Hgt Hdd Hp), Hn1. rewrite arr_cons_miss by (cbn; lia). reflexivity.
  - intros e He. destruct (a5 e He) as [? [_ [_ ?]]]. split; assumption.
Qed.

(* ---- all downstreams of one emission ---------------------------------------- *)
Lemma downs_is_down g w n d : In d (downs g w n) -> is_down g n d = true.
Proof.
  unfold downs, is_down. intros H. apply filter_In in H as [H1 H2]. apply in_seq in H1.
  apply andb_true_iff in H2 as [H2 _]. rewrite H2. replace (d <? length g) with true; [reflexivity|].
  symmetry. apply Nat.ltb_lt. lia.
Qed.

Lemma In_downs g w n d : In d (downs g w n) <-> is_down g n d = true /\ st_detached (nst w d) = false.
Proof.
  unfold downs, is_down. rewrite filter_In, in_seq, !andb_true_iff, Nat.ltb_lt, negb_true_iff. intuition lia.
Qed.

(* a permanent child is always in the live set *)
Lemma attached_permanent g w n d :
  WF g w -> is_down g n d = true -> permanent g d = true -> attached g w n d = true.
Proof. intros [_ B] Hd Hp. apply attached_In, In_downs. split; [exact Hd | apply B, Hp]. Qed.

Lemma filter_ext_notin (k1 k2 : nat -> bool) d t :
  ~ In d t -> (forall d', d' <> d -> k1 d' = k2 d') -> filter k1 t = filter k2 t.
Proof. intros Hn H. apply filter_ext_in. intros a Ha. apply H. intros ->. contradiction. Qed.

(* one turn per element of the snapshot l; [keep] says which ones were still attached when their turn came *)
Lemma hand_all_spec g emitfrom depth n x m :
  wf_dag g -> EmitSpec g emitfrom (S depth) ->
  forall l w w', WF g w -> NoDup l -> (forall d, In d l -> is_down g n d = true) ->
   fold_left (hand emitfrom g depth n x m) l (w, SOk) = (w', SOk) ->
   exists new keep, Segment g n depth w new w' /\
     (forall d, permanent g d = true -> keep d = true) /\
     (forall dd, edge new n dd = map (fun _ => (x, m)) (filter (Nat.eqb dd) (filter keep l))) /\
     (forall e, In e new -> e_src e = n -> e_depth e = depth) /\
     filter (fun e => e_depth e =? depth) new = map (fun d => mk_entry depth n d x m) (filter keep l).
Proof.
  intros Hdag HE. induction l as [|d t IH]; intros w w' Hwf Hnd Hl H; cbn [fold_left] in H.
  - injection H as <-. exists [], (fun _ => true). split; [apply Segment_nil; exact Hwf|]. cbn. repeat split; auto; intros; contradiction.
  - destruct (hand emitfrom g depth n x m (w, SOk) d) as [w1 s1] eqn:E1.
    pose proof (hand_ok_inv _ _ _ _ _ _ _ _ _ _ H) as ->.
    assert (Hdn : is_down g n d = true) by (apply Hl; left; reflexivity).
    destruct (is_down_In _ _ _ Hdn) as [Hd Hin]. pose proof (Hdag d n Hd Hin) as Hnd'.
    inversion Hnd as [|? ? Hnotin Hnd2]; subst.
    destruct (attached g w n d) eqn:Ha.
    + (* still attached: the hand-over *)
      rewrite hand_attached in E1 by exact Ha.
      destruct (deliver_spec _ _ _ _ _ _ _ _ _ Hdag HE Hwf Hdn E1) as [rest [S1 R1]].
      destruct (IH w1 w' (seg_wf _ _ _ _ _ _ S1) Hnd2 (fun d' Hd' => Hl d' (or_intror Hd')) H) as [new2 [keep2 [S2 [K2 [E2 [D2 F2]]]]]].
      set (keep := fun d' => if d' =? d then true else keep2 d').
      assert (Hkt : filter keep t = filter keep2 t).
      { apply (filter_ext_notin keep keep2 d t Hnotin). intros d' Hne. unfold keep.
        apply Nat.eqb_neq in Hne. rewrite Hne. reflexivity. }
      assert (Hfk : filter keep (d :: t) = d :: filter keep2 t).
      { cbn [filter]. replace (keep d) with true by (unfold keep; rewrite Nat.eqb_refl; reflexivity). rewrite Hkt. reflexivity. }
      exists ((mk_entry depth n d x m :: rest) ++ new2), keep. split; [eapply Segment_app; eauto|].
      assert (Hrest_edge : forall dd, edge rest n dd = []).
      { intros dd. apply edge_none. intros e He. left. destruct (R1 e He) as [? _]. lia. }
      split; [|split; [|split]].
      * intros d' Hp. unfold keep. destruct (d' =? d); [reflexivity | apply K2, Hp].
      * intros dd. rewrite edge_app, E2, Hfk. cbn [filter].
        destruct (Nat.eqb_spec dd d) as [->|Hne].
        -- rewrite edge_cons_hit by reflexivity. rewrite Hrest_edge. reflexivity.
        -- rewrite edge_cons_miss by (right; cbn; lia). rewrite Hrest_edge. reflexivity.
      * intros e He Hs. apply in_app_or in He as [[<-|He]|He]; [reflexivity| |apply D2; assumption].
        destruct (R1 e He) as [? _]. lia.
      * rewrite filter_app, F2, Hfk. cbn [filter map app mk_entry e_depth]. rewrite Nat.eqb_refl.
        cbn [app].
        replace (filter (fun e => e_depth e =? depth) rest) with (@nil entry); [reflexivity|].
        symmetry. clear -R1. induction rest as [|e r IHr]; cbn; [reflexivity|].
        destruct (R1 e (or_introl eq_refl)) as [_ Hdep].
        destruct (Nat.eqb_spec (e_depth e) depth); [lia|]. apply IHr. intros e' He'. apply R1. right. exact He'.
    + (* gone since the snapshot: only the reference retained for it is given back *)
      rewrite hand_gone in E1 by (reflexivity || exact Ha). injection E1 as <-.
      assert (Hnp : permanent g d = false).
      { destruct (permanent g d) eqn:Hp; [|reflexivity].
        rewrite (attached_permanent g w n d Hwf Hdn Hp) in Ha. discriminate. }
      destruct (IH _ w' (WF_release _ _ _ _ Hwf) Hnd2 (fun d' Hd' => Hl d' (or_intror Hd')) H) as [new2 [keep2 [S2 [K2 [E2 [D2 F2]]]]]].
      set (keep := fun d' => if d' =? d then false else keep2 d').
      assert (Hkt : filter keep t = filter keep2 t).
      { apply (filter_ext_notin keep keep2 d t Hnotin). intros d' Hne. unfold keep.
        apply Nat.eqb_neq in Hne. rewrite Hne. reflexivity. }
      destruct (release_frame w m 1) as [F1 F2r].
      assert (Hfk : filter keep (d :: t) = filter keep2 t).
      { cbn [filter]. replace (keep d) with false by (unfold keep; rewrite Nat.eqb_refl; reflexivity). exact Hkt. }
      exists new2, keep. split; [eapply Segment_same_start; eauto|].
      split; [|split; [|split]].
      * intros d' Hp. unfold keep. destruct (Nat.eqb_spec d' d) as [->|]; [congruence | apply K2, Hp].
      * intros dd. rewrite E2, Hfk. reflexivity.
      * exact D2.
      * rewrite F2, Hfk. reflexivity.
Qed.

Lemma filter_eqb_seq (P : nat -> bool) dd : forall len start,
  filter (Nat.eqb dd) (filter P (seq start len)) =
  if (start <=? dd) && (dd <? start + len) && P dd then [dd] else [].
Proof.
  induction len as [|len IH]; intros start; cbn [seq filter].
  - destruct (Nat.leb_spec start dd); [|reflexivity].
    replace (dd <? start + 0) with false; [reflexivity|]. symmetry. apply Nat.ltb_ge. lia.
  - assert (Hcase : forall (b : bool), b = P dd -> forall X Y : list nat,
             (if (S start <=? dd) && (dd <? S start + len) && b then X else Y) =
             if (start <=? dd) && (dd <? start + S len) && b && negb (dd =? start) then X else Y).
    { intros b _ X Y. destruct (Nat.leb_spec (S start) dd); destruct (Nat.leb_spec start dd);
        destruct (Nat.ltb_spec dd (S start + len)); destruct (Nat.ltb_spec dd (start + S len));
        destruct (Nat.eqb_spec dd start); destruct b; cbn [andb negb]; try reflexivity; lia. }
    destruct (P start) eqn:Ps; cbn [filter].
    + destruct (Nat.eqb_spec dd start) as [->|Hne].
      * rewrite IH, (Hcase _ eq_refl). cbn [negb]. rewrite andb_false_r.
        rewrite Ps, Nat.leb_refl. replace (start <? start + S len) with true by (symmetry; apply Nat.ltb_lt; lia). reflexivity.
      * rewrite IH, (Hcase _ eq_refl). cbn [negb]. rewrite andb_true_r. reflexivity.
    + rewrite IH, (Hcase _ eq_refl). destruct (Nat.eqb_spec dd start) as [->|Hne]; cbn [negb].
      * rewrite Ps, !andb_false_r. reflexivity.
      * rewrite andb_true_r. reflexivity.
Qed.

Lemma downs_NoDup g w n : NoDup (downs g w n).
Proof. unfold downs. apply NoDup_filter, seq_NoDup. Qed.

Lemma filter_comm {A} (p q : A -> bool) l : filter p (filter q l) = filter q (filter p l).
Proof.
  induction l as [|a t IH]; [reflexivity|]. cbn [filter].
  destruct (q a) eqn:Q; destruct (p a) eqn:P; cbn [filter]; rewrite ?Q, ?P, IH; reflexivity.
Qed.

(* ---- the push theorem ---------------------------------------------------------- *)
Theorem push_spec g : wf_dag g -> forall fuel depth, EmitSpec g (fun d => push fuel g depth d) depth.
Proof.
  intros Hdag. induction fuel as [|fuel IH]; intros depth d w y my w' Hwf H; cbn [push] in H; [discriminate|].
  destruct (retain_frame w my (Z.of_nat (length (downs g w d)))) as [F1 F2].
  destruct (hand_all_spec g _ depth d y my Hdag (IH (S depth)) (downs g w d) _ w'
              (WF_retain _ _ _ _ Hwf) (downs_NoDup g w d) (fun dd Hdd => downs_is_down _ _ _ _ Hdd) H) as [new [keep [S [K [E [D F]]]]]].
  exists new. split; [eapply Segment_same_start; eauto|]. split; [|split; [exact D | exists keep; split; [exact K | exact F]]].
  intros dd Hdn Hp. rewrite E. rewrite filter_comm. unfold downs. rewrite filter_eqb_seq.
  destruct (is_down_In _ _ _ Hdn) as [Hlt _].
  unfold is_down in Hdn. apply andb_true_iff in Hdn as [_ Hdn]. rewrite Hdn.
  destruct Hwf as [_ B]. rewrite (B dd Hp).
  replace (0 <=? dd) with true by (symmetry; apply Nat.leb_le; lia).
  replace (dd <? 0 + length g) with true by (symmetry; apply Nat.ltb_lt; lia).
  cbn [andb negb filter]. rewrite (K dd Hp). reflexivity.
Qed.

(* Sibling order: the calls made directly by one emission (nesting depth = that of the emission) are exactly one per
   downstream of the snapshot that was still attached when its turn came ([keep]; every permanent downstream is), in
   attachment order, all with the emitted value and metadata; everything logged in between belongs to deeper cascades.
   (Only a slice with an end that finished during an earlier hand-over of the same emission - it is attached to several
   upstreams - is skipped: Stream._emit tests `downstream not in self.downstreams` before each hand-over.) *)
Theorem sibling_order g fuel depth n w x m w' :
  wf_dag g -> WF g w -> push fuel g depth n w x m = (w', SOk) ->
  exists new keep, log w' = rev new ++ log w /\
    (forall d, permanent g d = true -> keep d = true) /\
    filter (fun e => e_depth e =? depth) new = map (fun d => mk_entry depth n d x m) (filter keep (downs g w n)) /\
    (forall e, In e new -> depth <= e_depth e) /\
    (forall e, In e new -> is_down g (e_src e) (e_dst e) = true).
Proof.
  intros Hdag Hwf H. destruct (push_spec g Hdag fuel depth n w x m w' Hwf H) as [new [S [_ [_ [keep [K F]]]]]].
  exists new, keep. split; [exact (seg_log _ _ _ _ _ _ S)|]. split; [exact K|]. split; [exact F|]. split.
  - intros e He. destruct (seg_ent _ _ _ _ _ _ S e He) as [_ [_ [_ ?]]]. assumption.
  - exact (seg_along _ _ _ _ _ _ S).
Qed.

(* when no downstream of the emitting node is a slice with an end, nobody can leave: exactly one call per downstream *)
Corollary sibling_order_permanent g fuel depth n w x m w' :
  wf_dag g -> WF g w -> (forall d, In d (downs g w n) -> permanent g d = true) ->
  push fuel g depth n w x m = (w', SOk) ->
  exists new, log w' = rev new ++ log w /\
    filter (fun e => e_depth e =? depth) new = map (fun d => mk_entry depth n d x m) (downs g w n) /\
    (forall e, In e new -> depth <= e_depth e) /\
    (forall e, In e new -> is_down g (e_src e) (e_dst e) = true).
Proof.
  intros Hdag Hwf Hp H. destruct (sibling_order g fuel depth n w x m w' Hdag Hwf H) as [new [keep [A [K [F [B C]]]]]].
  exists new. split; [exact A|]. split; [|split; assumption].
  rewrite F. f_equal. clear -K Hp. induction (downs g w n) as [|d t IH]; [reflexivity|]. cbn [filter].
  rewrite (K d (Hp d (or_introl eq_refl))). f_equal. apply IH. intros d' Hd'. apply Hp. right. exact Hd'.
Qed.

(* decidable well-formedness, for examples *)
Definition wf_dagb (g : graph) : bool :=
  forallb (fun i => forallb (fun u => u <? i) (ups (gnode g i))) (seq 0 (length g)).

Lemma wf_dagb_spec g : wf_dagb g = true -> wf_dag g.
Proof.
  unfold wf_dagb, wf_dag. intros H i u Hi Hu. rewrite forallb_forall in H.
  specialize (H i ltac:(apply in_seq; lia)). rewrite forallb_forall in H. apply Nat.ltb_lt. apply H. exact Hu.
Qed.
