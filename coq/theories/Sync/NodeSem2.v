(* List-level meaning of the remaining synchronous node kinds (continuation of NodeSem.v):
   accumulate in full, sliding_window, unique, partition with key, partition_unique,
   collect (+flush), zip (any arity, with literals), combine_latest, zip_latest.
   For each kind: an independent definition over the arrival list / its prefixes, and the
   proof that folding `update` (fold_outs, i.e. what flows on the node's outgoing edges by
   Dataflow.v) produces exactly that, values and metadata.

   Style: most meanings are `prefix_sem step pre l` = concatenation, over every split
   l = l1 ++ a :: _, of `step (pre ++ l1) a` (see prefix_sem_by_index); `pre` is the prefix already
   consumed, related to an arbitrary starting state by an explicit invariant (`*_inv`).

   Headline theorems
     1 sem_accumulate_full, accumulate_state, scan_full_plain
     2 sem_sliding (+ sliding_state, sliding_sem_by_index)
     3 sem_unique (+ unique_state), unique_unbounded + first_occ_keys, unique_maxsize_1
     4 sem_partition_key (+ partition_key_state), partition_key_per_key, partition_key_step_members,
       partition_key_nothing_lost
     5 sem_part_unique (+ part_unique_state), part_unique_distinct, pu_group_first, pu_group_last
     6 sem_collect, collect_state, flush_spec, collect_flush, collect_flush_twice
     7 sem_zip_prefix, sem_zip, sem_zip2, zip_sem_transpose
     8 sem_combine_latest (+ combine_latest_state)
     9 sem_zip_latest (+ zip_latest_state), zip_latest_lossless *)
From Coq Require Import List ZArith Bool Lia Arith.
From SZ Require Import Base.Values Sync.Nodes Sync.Pipeline Sync.PushSpec Sync.NodeSem.
Import ListNotations.
Close Scope Z_scope.
Open Scope nat_scope.

(* ================================================================================== *)
(* 0. Preliminaries                                                                    *)
(* ================================================================================== *)

(* ---- val_eqb decides equality ------------------------------------------------------ *)
Section ValInd.
Variable P : val -> Prop.
Hypothesis HI : forall z, P (VInt z).
Hypothesis HT : forall l, Forall P l -> P (VTup l).
Hypothesis HL : forall l, Forall P l -> P (VList l).
Hypothesis HN : P VNone.
Fixpoint val_ind_nested (v : val) : P v :=
  match v with
  | VInt z => HI z
  | VTup l => HT l ((fix go (l : list val) : Forall P l :=
                      match l with [] => Forall_nil _ | x :: t => Forall_cons x (val_ind_nested x) (go t) end) l)
  | VList l => HL l ((fix go (l : list val) : Forall P l :=
                      match l with [] => Forall_nil _ | x :: t => Forall_cons x (val_ind_nested x) (go t) end) l)
  | VNone => HN
  end.
End ValInd.

Definition vleqb := fix leqb (l1 l2 : list val) {struct l1} : bool :=
      match l1, l2 with
      | [], [] => true
      | x :: t1, y :: t2 => val_eqb x y && leqb t1 t2
      | _, _ => false
      end.

Lemma vleqb_spec l1 : Forall (fun a => forall b, val_eqb a b = true <-> a = b) l1 ->
  forall l2, vleqb l1 l2 = true <-> l1 = l2.
Proof.
  induction 1 as [|x t Hx Ht IH]; intros [|y t2]; cbn [vleqb]; split; intros H; try reflexivity; try discriminate.
  - apply andb_true_iff in H as [H1 H2]. apply Hx in H1. apply IH in H2. congruence.
  - injection H as <- <-. apply andb_true_iff. split; [apply Hx | apply IH]; reflexivity.
Qed.

Lemma val_eqb_spec a : forall b, val_eqb a b = true <-> a = b.
Proof.
  induction a as [z|l Hl|l Hl|] using val_ind_nested; intros [z2|l2|l2|]; cbn [val_eqb];
    try (split; intros H; (discriminate || reflexivity)).
  - rewrite Z.eqb_eq. split; congruence.
  - change (vleqb l l2 = true <-> VTup l = VTup l2). rewrite (vleqb_spec l Hl l2). split; congruence.
  - change (vleqb l l2 = true <-> VList l = VList l2). rewrite (vleqb_spec l Hl l2). split; congruence.
Qed.

Lemma val_eqb_refl a : val_eqb a a = true.
Proof. apply val_eqb_spec. reflexivity. Qed.

Lemma val_eqb_false a b : val_eqb a b = false <-> a <> b.
Proof.
  split.
  - intros H E. subst. rewrite val_eqb_refl in H. discriminate.
  - intros H. destruct (val_eqb a b) eqn:E; [|reflexivity]. apply val_eqb_spec in E. contradiction.
Qed.

Lemma val_eqb_sym a b : val_eqb a b = val_eqb b a.
Proof.
  destruct (val_eqb a b) eqn:E.
  - apply val_eqb_spec in E. subst. symmetry. apply val_eqb_refl.
  - apply val_eqb_false in E. symmetry. apply val_eqb_false. congruence.
Qed.

Lemma mem_val_In y l : mem_val y l = true <-> In y l.
Proof.
  unfold mem_val. rewrite existsb_exists. split.
  - intros [x [Hx E]]. apply val_eqb_spec in E. subst. exact Hx.
  - intros H. exists y. split; [exact H | apply val_eqb_refl].
Qed.

Lemma mem_val_false y l : mem_val y l = false <-> ~ In y l.
Proof.
  rewrite <- mem_val_In. destruct (mem_val y l); split; intros H.
  - discriminate H.
  - exfalso. apply H. reflexivity.
  - intros E. discriminate E.
  - reflexivity.
Qed.

(* ---- arrivals ----------------------------------------------------------------------- *)
Definition aport (a : arrival) : nat := fst (fst a).
Definition apair (a : arrival) : val * md := (aval a, amd a).
Definition on_port (p : nat) (l : list arrival) : list arrival := filter (fun a => aport a =? p) l.

Lemma upd_outs_eq k s a :
  upd_outs k s a = match update k s (aport a) (aval a) (amd a) with Some acts => outs acts | None => [] end.
Proof. destruct a as [[q x] m]. reflexivity. Qed.
Lemma upd_state_eq k s a :
  upd_state k s a = match update k s (aport a) (aval a) (amd a) with Some acts => final_state acts s | None => s end.
Proof. destruct a as [[q x] m]. reflexivity. Qed.

(* ---- prefix semantics: the output is the concatenation, over every split l = pre ++ a :: _,
        of what the arrival `a` produces given the arrivals `pre` consumed before it ------- *)
Fixpoint prefix_sem (step : list arrival -> arrival -> list (val * md)) (pre l : list arrival)
  : list (val * md) :=
  match l with
  | [] => []
  | a :: t => step pre a ++ prefix_sem step (pre ++ [a]) t
  end.

(* the same, by position: output = concat over i of step (first i arrivals) (i-th arrival) *)
Lemma prefix_sem_by_index step d : forall l pre,
  prefix_sem step pre l =
  flat_map (fun i => step (pre ++ firstn i l) (nth i l d)) (seq 0 (length l)).
Proof.
  induction l as [|a t IH]; intros pre; cbn [prefix_sem length seq flat_map]; [reflexivity|].
  cbn [firstn nth]. rewrite app_nil_r. f_equal.
  rewrite <- seq_shift, flat_map_concat_map, map_map, <- flat_map_concat_map, IH.
  apply flat_map_ext. intros i. cbn [firstn nth]. rewrite <- app_assoc. reflexivity.
Qed.

Lemma prefix_sem_app step : forall l1 pre l2,
  prefix_sem step pre (l1 ++ l2) = prefix_sem step pre l1 ++ prefix_sem step (pre ++ l1) l2.
Proof.
  induction l1 as [|a t IH]; intros pre l2; cbn [app prefix_sem].
  - rewrite app_nil_r. reflexivity.
  - rewrite IH, <- !app_assoc. reflexivity.
Qed.

(* generic refinement principle: an invariant linking the node state to the consumed prefix,
   preserved by every update, under which one update emits exactly `step pre a` *)
Lemma fold_refines k (P : arrival -> Prop) (Inv : nstate -> list arrival -> Prop) step :
  (forall s pre a, P a -> Inv s pre ->
     upd_outs k s a = step pre a /\ Inv (upd_state k s a) (pre ++ [a])) ->
  forall l s pre, Forall P l -> Inv s pre ->
    fold_outs k s l = prefix_sem step pre l /\ Inv (fold_state k s l) (pre ++ l).
Proof.
  intros Hstep. induction l as [|a t IH]; intros s pre HP HI; cbn [fold_outs prefix_sem].
  - rewrite app_nil_r. split; [reflexivity | exact HI].
  - inversion HP as [|? ? Pa Pt]; subst. destruct (Hstep s pre a Pa HI) as [E1 I1].
    destruct (IH _ _ Pt I1) as [E2 I2]. split.
    + rewrite E1, E2. reflexivity.
    + unfold fold_state in *. cbn [fold_left]. rewrite <- app_assoc in I2. exact I2.
Qed.

Lemma flat_map_ext_in' {A B} (f g : A -> list B) l :
  (forall a, In a l -> f a = g a) -> flat_map f l = flat_map g l.
Proof.
  induction l as [|h t IH]; intros H; cbn [flat_map]; [reflexivity|].
  rewrite (H h (or_introl eq_refl)), IH; [reflexivity|]. intros a Ha. apply H. right. exact Ha.
Qed.

Lemma firstn_S_nth {A} (d : A) : forall l i, i < length l -> firstn (S i) l = firstn i l ++ [nth i l d].
Proof.
  induction l as [|h t IH]; intros [|i] H; cbn [length] in H; try lia; [reflexivity|].
  cbn [firstn nth app]. f_equal. apply IH. lia.
Qed.

Lemma Forall_True {A} (l : list A) : Forall (fun _ => True) l.
Proof. induction l; constructor; auto. Qed.

(* ---- lastn ---------------------------------------------------------------------------- *)
Lemma skipn_skipn' {A} (l : list A) : forall x y, skipn x (skipn y l) = skipn (x + y) l.
Proof.
  induction l as [|h t IH]; intros x y.
  - rewrite !skipn_nil. reflexivity.
  - destruct y as [|y]; [rewrite Nat.add_0_r; reflexivity|].
    rewrite Nat.add_succ_r. cbn [skipn]. apply IH.
Qed.

Lemma lastn_length {A} n (l : list A) : length (lastn n l) = Nat.min n (length l).
Proof. unfold lastn. rewrite skipn_length. lia. Qed.

Lemma lastn_all {A} n (l : list A) : length l <= n -> lastn n l = l.
Proof. intros H. unfold lastn. replace (length l - n) with 0 by lia. reflexivity. Qed.

Lemma lastn_0 {A} (l : list A) : lastn 0 l = [].
Proof. unfold lastn. rewrite Nat.sub_0_r. apply skipn_all. Qed.

Lemma lastn_snoc {A} k (l : list A) a : lastn (S k) (l ++ [a]) = lastn k l ++ [a].
Proof.
  unfold lastn. rewrite app_length. cbn [length].
  replace (length l + 1 - S k) with (length l - k) by lia.
  rewrite skipn_app. replace (length l - k - length l) with 0 by lia. reflexivity.
Qed.

Lemma lastn_lastn {A} k m (l : list A) : k <= m -> lastn k (lastn m l) = lastn k l.
Proof.
  intros H. unfold lastn. rewrite skipn_length, skipn_skipn'. f_equal. lia.
Qed.

Lemma lastn_map {A B} (f : A -> B) n l : lastn n (map f l) = map f (lastn n l).
Proof. unfold lastn. rewrite map_length, skipn_map. reflexivity. Qed.

Lemma tl_skipn {A} (l : list A) : forall j, tl (skipn j l) = skipn (S j) l.
Proof.
  induction l as [|h t IH]; intros [|j]; cbn [skipn tl]; try reflexivity.
  apply IH.
Qed.

Lemma map_tl {A B} (f : A -> B) l : map f (tl l) = tl (map f l).
Proof. destruct l; reflexivity. Qed.

Lemma tl_lastn {A} k (l : list A) : S k <= length l -> tl (lastn (S k) l) = lastn k l.
Proof. intros H. unfold lastn. rewrite tl_skipn. f_equal. lia. Qed.

Lemma lastn_suffix {A} n (l : list A) : exists p, l = p ++ lastn n l.
Proof. exists (firstn (length l - n) l). unfold lastn. symmetry. apply firstn_skipn. Qed.

(* ================================================================================== *)
(* 1. accumulate in full (returns_state, with_state)                                   *)
(* ================================================================================== *)

(* one application of the user function: new state and result; None = the call raises (or,
   with returns_state, does not return a 2-element tuple/list) and the arrival is skipped *)
Definition accum_call (f : val -> val -> option val) (rs : bool) (acc : option val) (x : val)
  : option (val * val) :=
  match acc with
  | None => Some (x, x)                          (* no start value: the first element is the state *)
  | Some a =>
      match f a x with
      | None => None
      | Some r =>
          if rs then match items r with Some [st; res] => Some (st, res) | _ => None end
          else Some (r, r)
      end
  end.

Fixpoint scan_full (f : val -> val -> option val) (rs ws : bool) (acc : option val) (l : list arrival)
  : list (val * md) :=
  match l with
  | [] => []
  | a :: t =>
      match accum_call f rs acc (aval a) with
      | Some (st, res) => ((if ws then VTup [st; res] else res), amd a) :: scan_full f rs ws (Some st) t
      | None => scan_full f rs ws acc t
      end
  end.

Theorem sem_accumulate_full f start rs ws s l :
  fold_outs (KAccum f start rs ws) s l = scan_full f rs ws (st_acc s) l.
Proof.
  revert s. induction l as [|[[q x] m] t IH]; intros s; cbn [fold_outs scan_full]; [reflexivity|].
  unfold upd_outs, upd_state, accum_call, aval, amd. cbn [update fst snd].
  destruct (st_acc s) as [a|] eqn:Ea.
  - destruct (f a x) as [r|]; [|rewrite IH, Ea; reflexivity].
    destruct rs.
    + destruct (items r) as [[|st [|res [|z zs]]]|]; try (rewrite IH, Ea; reflexivity).
      cbn [outs final_state app]. rewrite IH. reflexivity.
    + cbn [outs final_state app]. rewrite IH. reflexivity.
  - cbn [outs final_state app]. rewrite IH. reflexivity.
Qed.

Corollary sem_accumulate_full_init f start rs ws nups l :
  fold_outs (KAccum f start rs ws) (init_state (KAccum f start rs ws) nups) l = scan_full f rs ws start l.
Proof. rewrite sem_accumulate_full. reflexivity. Qed.

(* scan_full generalises NodeSem.scan *)
Lemma scan_full_plain f acc l : scan_full f false false acc l = scan f acc l.
Proof.
  revert acc. induction l as [|a t IH]; intros acc; cbn [scan_full scan]; [reflexivity|].
  destruct acc as [s|]; cbn [accum_call].
  - destruct (f s (aval a)); rewrite IH; reflexivity.
  - rewrite IH. reflexivity.
Qed.

(* the state after the fold is the state threaded by scan_full *)
Fixpoint scan_state (f : val -> val -> option val) (rs : bool) (acc : option val) (l : list arrival) : option val :=
  match l with
  | [] => acc
  | a :: t => match accum_call f rs acc (aval a) with
              | Some (st, _) => scan_state f rs (Some st) t
              | None => scan_state f rs acc t
              end
  end.

Lemma accumulate_state f start rs ws s l :
  st_acc (fold_state (KAccum f start rs ws) s l) = scan_state f rs (st_acc s) l.
Proof.
  revert s. induction l as [|[[q x] m] t IH]; intros s; cbn [scan_state]; [reflexivity|].
  unfold fold_state in *. cbn [fold_left]. rewrite IH. clear IH.
  unfold upd_state, accum_call, aval. cbn [update fst snd].
  destruct (st_acc s) as [a|] eqn:Ea.
  - destruct (f a x) as [r|]; [|rewrite Ea; reflexivity].
    destruct rs.
    + destruct (items r) as [[|st [|res [|z zs]]]|]; try (rewrite Ea; reflexivity). reflexivity.
    + reflexivity.
  - reflexivity.
Qed.

(* with_state only changes the shape of what is emitted, never the state or the metadata *)
Lemma scan_full_with_state f rs acc l :
  map snd (scan_full f rs true acc l) = map snd (scan_full f rs false acc l) /\
  length (scan_full f rs true acc l) = length (scan_full f rs false acc l).
Proof.
  revert acc. induction l as [|a t IH]; intros acc; cbn [scan_full]; [split; reflexivity|].
  destruct (accum_call f rs acc (aval a)) as [[st res]|]; [|apply IH].
  destruct (IH (Some st)) as [A B]. cbn. rewrite A, B. split; reflexivity.
Qed.

(* ================================================================================== *)
(* 2. sliding_window(n, return_partial)                                                *)
(* ================================================================================== *)

(* after `pre`, the arrival `a` completes the window = last n of pre ++ [a]; it is emitted
   always (partial) or only once n elements are there *)
Definition sliding_step (n : nat) (partial : bool) (pre : list arrival) (a : arrival) : list (val * md) :=
  let seen := pre ++ [a] in
  if partial || (n <=? length seen) then [chunk_out (lastn n seen)] else [].

Definition sliding_sem (n : nat) (partial : bool) (pre l : list arrival) : list (val * md) :=
  prefix_sem (sliding_step n partial) pre l.

(* value deque = last n values; metadata deque = last n-1 entries (its head is released right
   after each full-window emission) *)
Definition sliding_inv (n : nat) (s : nstate) (pre : list arrival) : Prop :=
  st_seen s = map aval (lastn n pre) /\ st_win s = map apair (lastn (n - 1) pre).

Lemma flat_map_snd_apair l : flat_map snd (map apair l) = flat_map amd l.
Proof. induction l as [|a t IH]; cbn; [reflexivity | rewrite IH; reflexivity]. Qed.
Lemma map_fst_apair l : map fst (map apair l) = map aval l.
Proof. rewrite map_map. reflexivity. Qed.

Lemma sliding_step_ok n partial s pre a : 1 <= n -> sliding_inv n s pre ->
  upd_outs (KSliding n partial) s a = sliding_step n partial pre a /\
  sliding_inv n (upd_state (KSliding n partial) s a) (pre ++ [a]).
Proof.
  intros Hn [Hseen Hwin]. destruct a as [[q x] m].
  destruct n as [|k]; [lia|]. replace (S k - 1) with k in * by lia.
  unfold upd_outs, upd_state, sliding_step. cbn [update].
  rewrite Hseen, Hwin.
  pose (a := ((q, x, m) : arrival)).
  change [x] with (map aval [a]). change [(x, m)] with (map apair [a]). change (q, x, m) with a.
  rewrite <- !map_app, !lastn_map.
  rewrite !lastn_snoc, lastn_lastn by lia. rewrite (lastn_all k (lastn k pre)) by (rewrite lastn_length; lia).
  rewrite <- lastn_snoc. rewrite !map_length.
  assert (Hlen : forall sn : list arrival, (length (lastn (S k) sn) =? S k) = (S k <=? length sn)).
  { intros sn. rewrite lastn_length. destruct (Nat.leb_spec (S k) (length sn)); [apply Nat.eqb_eq | apply Nat.eqb_neq]; lia. }
  rewrite !Hlen. clearbody a. generalize (pre ++ [a]). intros seen.
  destruct (partial || (S k <=? length seen)) eqn:Eemit.
  - destruct (S k <=? length seen) eqn:Efull.
    + apply Nat.leb_le in Efull. cbn [outs final_state]. split.
      * unfold chunk_out. rewrite flat_map_snd_apair. reflexivity.
      * split; cbn [st_seen st_win set_win set_seen]; [reflexivity|].
        rewrite <- map_tl. rewrite tl_lastn by exact Efull. replace (S k - 1) with k by lia. reflexivity.
    + apply Nat.leb_gt in Efull. cbn [outs final_state]. split.
      * unfold chunk_out. rewrite flat_map_snd_apair. reflexivity.
      * split; cbn [st_seen st_win set_win set_seen]; [reflexivity|].
        replace (S k - 1) with k by lia. rewrite !lastn_all by lia. reflexivity.
  - apply orb_false_iff in Eemit as [_ Efull]. 
    apply Nat.leb_gt in Efull. cbn [outs final_state]. split; [reflexivity|].
    split; cbn [st_seen st_win set_win set_seen]; [reflexivity|].
    replace (S k - 1) with k by lia. rewrite !lastn_all by lia. reflexivity.
Qed.

Theorem sem_sliding n partial l s pre : 1 <= n -> sliding_inv n s pre ->
  fold_outs (KSliding n partial) s l = sliding_sem n partial pre l.
Proof.
  intros Hn HI.
  apply (fold_refines (KSliding n partial) (fun _ => True) (sliding_inv n) (sliding_step n partial)); auto.
  - intros s0 pre0 a _ H0. apply sliding_step_ok; assumption.
  - apply Forall_True.
Qed.

Corollary sem_sliding_init n partial nups l : 1 <= n ->
  fold_outs (KSliding n partial) (init_state (KSliding n partial) nups) l = sliding_sem n partial [] l.
Proof. intros Hn. apply sem_sliding; [exact Hn|]. split; reflexivity. Qed.

(* by position: output i is the tuple of the last min(i+1,n) arrivals *)
Corollary sliding_sem_by_index n partial l :
  sliding_sem n partial [] l =
  flat_map (fun i => if partial || (n <=? S i) then [chunk_out (lastn n (firstn (S i) l))] else [])
           (seq 0 (length l)).
Proof.
  unfold sliding_sem. rewrite (prefix_sem_by_index _ (0, VNone, [])).
  apply flat_map_ext_in'. intros i Hi. apply in_seq in Hi. cbn [app]. unfold sliding_step.
  rewrite <- firstn_S_nth by lia. rewrite firstn_length_le by lia. reflexivity.
Qed.

(* ================================================================================== *)
(* 3. unique(maxsize, key): LRU history with touch-on-hit                              *)
(* ================================================================================== *)

(* keep the first occurrence of every value, preserving order *)
Fixpoint dedup (l : list val) : list val :=
  match l with
  | [] => []
  | k :: t => k :: filter (fun k' => negb (val_eqb k k')) (dedup t)
  end.

(* the (at most maxsize) most recently seen distinct keys, most recent first, of a history
   `ks` given in arrival order; maxsize None / Some 0 = unbounded *)
Definition recent_keys (maxsize : option nat) (ks : list val) : list val :=
  trunc maxsize (dedup (rev ks)).

Definition keys_of (key : val -> val) (l : list arrival) : list val := map (fun b => key (aval b)) l.

Definition unique_step (maxsize : option nat) (key : val -> val) (pre : list arrival) (a : arrival)
  : list (val * md) :=
  if mem_val (key (aval a)) (recent_keys maxsize (keys_of key pre)) then [] else [apair a].

Definition unique_sem maxsize key (pre l : list arrival) : list (val * md) :=
  prefix_sem (unique_step maxsize key) pre l.

Definition unique_inv maxsize key (s : nstate) (pre : list arrival) : Prop :=
  st_seen s = recent_keys maxsize (keys_of key pre).

Lemma filter_ne_notin y l : ~ In y l -> filter (fun k' => negb (val_eqb y k')) l = l.
Proof.
  induction l as [|h t IH]; intros H; cbn [filter]; [reflexivity|].
  destruct (val_eqb y h) eqn:E.
  - apply val_eqb_spec in E. subst. exfalso. apply H. left. reflexivity.
  - cbn [negb]. rewrite IH; [reflexivity|]. intros X. apply H. right. exact X.
Qed.

Lemma In_dedup y l : In y (dedup l) <-> In y l.
Proof.
  induction l as [|h t IH]; cbn [dedup]; [tauto|]. cbn [In]. rewrite filter_In, IH.
  destruct (val_eqb h y) eqn:E.
  - apply val_eqb_spec in E. subst. split; auto.
  - apply val_eqb_false in E. split; [tauto|]. intros [X|X]; [contradiction|]. right. split; [exact X | reflexivity].
Qed.

Lemma dedup_NoDup l : NoDup (dedup l).
Proof.
  induction l as [|h t IH]; cbn [dedup]; constructor.
  - rewrite filter_In. intros [_ X]. rewrite val_eqb_refl in X. discriminate.
  - apply NoDup_filter. exact IH.
Qed.

Lemma remove_val_filter y l : NoDup l -> remove_val y l = filter (fun k' => negb (val_eqb y k')) l.
Proof.
  induction 1 as [|h t Hh Ht IH]; cbn [remove_val filter]; [reflexivity|].
  destruct (val_eqb y h) eqn:E; cbn [negb].
  - apply val_eqb_spec in E. subst. symmetry. apply filter_ne_notin. exact Hh.
  - rewrite IH. reflexivity.
Qed.

Lemma firstn_remove_val y : forall D k,
  firstn k (remove_val y (firstn (S k) D)) = firstn k (remove_val y D).
Proof.
  induction D as [|h t IH]; intros k; [destruct k; reflexivity|].
  cbn [firstn remove_val]. destruct (val_eqb y h).
  - rewrite firstn_firstn, Nat.min_id. reflexivity.
  - destruct k as [|k]; [reflexivity|]. cbn [firstn]. rewrite IH. reflexivity.
Qed.

Lemma firstn_remove_notin y : forall D k,
  ~ In y (firstn (S k) D) -> firstn k (remove_val y D) = firstn k D.
Proof.
  induction D as [|h t IH]; intros k H; [reflexivity|].
  cbn [remove_val]. destruct (val_eqb y h) eqn:E.
  - apply val_eqb_spec in E. subst. exfalso. apply H. left. reflexivity.
  - destruct k as [|k]; [reflexivity|]. cbn [firstn]. f_equal. apply IH.
    intros X. apply H. right. exact X.
Qed.

(* one LRU step (hit: move to front; miss: push front; then truncate) computes the recent keys
   of the extended history *)
Lemma recent_keys_snoc maxsize ks y :
  (if mem_val y (recent_keys maxsize ks)
   then trunc maxsize (y :: remove_val y (recent_keys maxsize ks))
   else trunc maxsize (y :: recent_keys maxsize ks))
  = recent_keys maxsize (ks ++ [y]).
Proof.
  unfold recent_keys. rewrite rev_app_distr. cbn [rev app dedup].
  set (D := dedup (rev ks)). assert (ND : NoDup D) by apply dedup_NoDup.
  assert (Unb : (if mem_val y D then y :: remove_val y D else y :: D)
                = y :: filter (fun k' => negb (val_eqb y k')) D).
  { destruct (mem_val y D) eqn:E.
    - rewrite remove_val_filter by exact ND. reflexivity.
    - apply mem_val_false in E. rewrite filter_ne_notin by exact E. reflexivity. }
  destruct maxsize as [[|k]|]; cbn [trunc].
  - rewrite <- Unb. destruct (mem_val y D); reflexivity.
  - rewrite <- remove_val_filter by exact ND.
    destruct (mem_val y (firstn (S k) D)) eqn:E.
    + rewrite !firstn_cons, firstn_remove_val. reflexivity.
    + apply mem_val_false in E. rewrite !firstn_cons, firstn_firstn.
      replace (Nat.min k (S k)) with k by lia. rewrite firstn_remove_notin by exact E. reflexivity.
  - rewrite <- Unb. destruct (mem_val y D); reflexivity.
Qed.

Lemma unique_step_ok maxsize key s pre a : unique_inv maxsize key s pre ->
  upd_outs (KUnique maxsize key) s a = unique_step maxsize key pre a /\
  unique_inv maxsize key (upd_state (KUnique maxsize key) s a) (pre ++ [a]).
Proof.
  unfold unique_inv. intros HI. destruct a as [[q x] m].
  unfold upd_outs, upd_state, unique_step, keys_of. cbn [update].
  rewrite map_app. cbn [map]. rewrite <- recent_keys_snoc. rewrite HI.
  unfold aval, apair, aval, amd. cbn [fst snd].
  destruct (mem_val (key x) _); cbn [outs final_state st_seen set_seen]; split; reflexivity.
Qed.

Theorem sem_unique maxsize key l s pre : unique_inv maxsize key s pre ->
  fold_outs (KUnique maxsize key) s l = unique_sem maxsize key pre l.
Proof.
  intros HI.
  apply (fold_refines (KUnique maxsize key) (fun _ => True) (unique_inv maxsize key) (unique_step maxsize key)); auto.
  - intros s0 pre0 a _ H0. apply unique_step_ok; assumption.
  - apply Forall_True.
Qed.

Corollary sem_unique_init maxsize key nups l :
  fold_outs (KUnique maxsize key) (init_state (KUnique maxsize key) nups) l = unique_sem maxsize key [] l.
Proof. apply sem_unique. unfold unique_inv, recent_keys. cbn. destruct maxsize as [[|k]|]; reflexivity. Qed.

Lemma prefix_sem_ext step1 step2 : (forall pre a, step1 pre a = step2 pre a) ->
  forall l pre, prefix_sem step1 pre l = prefix_sem step2 pre l.
Proof.
  intros H. induction l as [|a t IH]; intros pre; cbn [prefix_sem]; [reflexivity|].
  rewrite H, IH. reflexivity.
Qed.

Lemma mem_val_ext y l1 l2 : (In y l1 <-> In y l2) -> mem_val y l1 = mem_val y l2.
Proof.
  intros H. destruct (mem_val y l2) eqn:E.
  - apply mem_val_In. apply H. apply mem_val_In. exact E.
  - apply mem_val_false. apply mem_val_false in E. tauto.
Qed.

(* (a) unbounded history: an element passes iff its key occurs nowhere before it *)
Definition first_occ_step (key : val -> val) (pre : list arrival) (a : arrival) : list (val * md) :=
  if mem_val (key (aval a)) (keys_of key pre) then [] else [apair a].

Corollary unique_unbounded maxsize key pre l : maxsize = None \/ maxsize = Some 0 ->
  unique_sem maxsize key pre l = prefix_sem (first_occ_step key) pre l.
Proof.
  intros Hm. unfold unique_sem. apply prefix_sem_ext. intros p a.
  unfold unique_step, first_occ_step, recent_keys.
  replace (trunc maxsize (dedup (rev (keys_of key p)))) with (dedup (rev (keys_of key p)))
    by (destruct Hm as [-> | ->]; reflexivity).
  rewrite (mem_val_ext _ (dedup (rev (keys_of key p))) (keys_of key p)); [reflexivity|].
  rewrite In_dedup, <- in_rev. tauto.
Qed.

(* ... hence the emitted keys are pairwise distinct, and are exactly the keys of the input that
   were not already in the history: the output is the list of first occurrences *)
Lemma first_occ_keys key : forall l pre,
  let out := prefix_sem (first_occ_step key) pre l in
  NoDup (map key (map fst out)) /\
  (forall y, In y (map key (map fst out)) <-> In y (keys_of key l) /\ ~ In y (keys_of key pre)).
Proof.
  induction l as [|a t IH]; intros pre; cbn zeta; cbn [prefix_sem].
  - split; [constructor|]. cbn. tauto.
  - destruct (IH (pre ++ [a])) as [ND Hin]. cbn zeta in ND, Hin.
    assert (Hk : forall y, In y (keys_of key (pre ++ [a])) <-> In y (keys_of key pre) \/ key (aval a) = y).
    { intros y. unfold keys_of. rewrite map_app, in_app_iff. cbn. tauto. }
    unfold first_occ_step at 1 3. destruct (mem_val (key (aval a)) (keys_of key pre)) eqn:E; cbn [app].
    + apply mem_val_In in E. split; [exact ND|]. intros y. rewrite Hin, Hk. cbn [keys_of map In].
      split.
      * intros [A B]. split; [right; exact A | tauto].
      * intros [[A|A] B]; [subst; contradiction|]. split; [exact A|]. intros [X|X]; [contradiction|subst; contradiction].
    + apply mem_val_false in E. cbn [map fst apair]. split.
      * constructor; [|exact ND]. rewrite Hin, Hk. tauto.
      * intros y. cbn [In keys_of map]. rewrite Hin, Hk. fold (keys_of key t).
        destruct (val_eqb (key (aval a)) y) eqn:Ey.
        -- apply val_eqb_spec in Ey. subst. tauto.
        -- apply val_eqb_false in Ey. tauto.
Qed.

(* (b) maxsize = 1: an element is dropped iff its key equals the previous element's key *)
Definition dedup_adjacent_step (key : val -> val) (pre : list arrival) (a : arrival) : list (val * md) :=
  match rev pre with
  | [] => [apair a]
  | b :: _ => if val_eqb (key (aval a)) (key (aval b)) then [] else [apair a]
  end.

Corollary unique_maxsize_1 key pre l :
  unique_sem (Some 1) key pre l = prefix_sem (dedup_adjacent_step key) pre l.
Proof.
  unfold unique_sem. apply prefix_sem_ext. intros p a.
  unfold unique_step, dedup_adjacent_step, recent_keys, keys_of. rewrite <- map_rev.
  destruct (rev p) as [|b r]; cbn [map dedup trunc firstn mem_val existsb]; [reflexivity|].
  rewrite orb_false_r. reflexivity.
Qed.

(* ================================================================================== *)
(* 6. collect: silent until flush                                                      *)
(* ================================================================================== *)

Theorem sem_collect s l : fold_outs KCollect s l = [].
Proof.
  revert s. induction l as [|[[q x] m] t IH]; intros s; cbn [fold_outs]; [reflexivity|].
  unfold upd_outs. cbn [update outs app]. apply IH.
Qed.

Lemma collect_state s l : st_win (fold_state KCollect s l) = st_win s ++ map apair l.
Proof.
  revert s. induction l as [|[[q x] m] t IH]; intros s; cbn [map]; [rewrite app_nil_r; reflexivity|].
  unfold fold_state in *. cbn [fold_left]. rewrite IH. unfold upd_state. cbn [update final_state st_win set_win].
  rewrite <- app_assoc. reflexivity.
Qed.

(* flush emits the cache as one tuple (metadata concatenated in order), then empties it *)
Lemma flush_spec s :
  outs (flush_actions s) = [(VTup (map fst (st_win s)), flat_map snd (st_win s))] /\
  final_state (flush_actions s) s = set_win s [].
Proof. split; reflexivity. Qed.

(* ... i.e. exactly the arrivals since the previous flush (or since the start) *)
Theorem collect_flush s l : st_win s = [] ->
  let s' := fold_state KCollect s l in
  outs (flush_actions s') = [chunk_out l] /\
  st_win (final_state (flush_actions s') s') = [].
Proof.
  intros H s'. destruct (flush_spec s') as [A B]. rewrite A, B. split; [|reflexivity].
  unfold s'. rewrite collect_state, H. cbn [app]. unfold chunk_out.
  rewrite map_fst_apair, flat_map_snd_apair. reflexivity.
Qed.

(* two consecutive rounds: arrivals l1, flush, arrivals l2, flush *)
Corollary collect_flush_twice nups l1 l2 :
  let s1 := fold_state KCollect (init_state KCollect nups) l1 in
  let s1' := final_state (flush_actions s1) s1 in
  let s2 := fold_state KCollect s1' l2 in
  fold_outs KCollect (init_state KCollect nups) l1 ++ outs (flush_actions s1) ++
  fold_outs KCollect s1' l2 ++ outs (flush_actions s2) = [chunk_out l1; chunk_out l2].
Proof.
  intros s1 s1' s2. rewrite !sem_collect.
  destruct (collect_flush (init_state KCollect nups) l1 eq_refl) as [A B]. fold s1 in A, B. fold s1' in B.
  destruct (collect_flush s1' l2 B) as [C _]. fold s2 in C. rewrite A, C. reflexivity.
Qed.

(* ================================================================================== *)
(* 8. combine_latest(emit_on)                                                          *)
(* ================================================================================== *)

(* latest arrival on port p in a prefix *)
Definition latest (pre : list arrival) (p : nat) : option (val * md) :=
  match rev (on_port p pre) with
  | [] => None
  | a :: _ => Some (apair a)
  end.

Definition latest_all (arity : nat) (pre : list arrival) : list (option (val * md)) :=
  map (latest pre) (seq 0 arity).

Definition triggers (emit_on : option (list nat)) (p : nat) : bool :=
  match emit_on with None => true | Some ps => existsb (Nat.eqb p) ps end.

Definition row_out (full : list (val * md)) : val * md := (VTup (map fst full), flat_map snd full).

(* an arrival on a triggering port emits the tuple of the latest value of every port (itself
   included), as soon as every port has delivered at least once *)
Definition combine_latest_step (arity : nat) (emit_on : option (list nat)) (pre : list arrival) (a : arrival)
  : list (val * md) :=
  match all_some (latest_all arity (pre ++ [a])) with
  | Some full => if triggers emit_on (aport a) then [row_out full] else []
  | None => []
  end.

Definition combine_latest_sem arity emit_on (pre l : list arrival) : list (val * md) :=
  prefix_sem (combine_latest_step arity emit_on) pre l.

Definition latest_inv (arity : nat) (s : nstate) (pre : list arrival) : Prop :=
  st_last s = latest_all arity pre.

Lemma latest_snoc pre a p :
  latest (pre ++ [a]) p = if aport a =? p then Some (apair a) else latest pre p.
Proof.
  unfold latest, on_port. rewrite filter_app. cbn [filter].
  destruct (aport a =? p).
  - rewrite rev_app_distr. reflexivity.
  - rewrite app_nil_r. reflexivity.
Qed.

Lemma nth_map_seq {B} (f : nat -> B) len n d : n < len -> nth n (map f (seq 0 len)) d = f n.
Proof.
  intros H. rewrite (nth_indep _ d (f 0)) by (rewrite map_length, seq_length; exact H).
  rewrite map_nth, seq_nth by exact H. reflexivity.
Qed.

Lemma set_nth_out {A} (l : list A) : forall i x, length l <= i -> set_nth i x l = l.
Proof.
  induction l as [|h t IH]; intros [|i] x H; cbn [set_nth length] in *; try reflexivity; try lia.
  rewrite IH by lia. reflexivity.
Qed.

Lemma latest_all_snoc arity pre a :
  set_nth (aport a) (Some (apair a)) (latest_all arity pre) = latest_all arity (pre ++ [a]).
Proof.
  unfold latest_all.
  apply (nth_ext _ _ None None).
  - rewrite set_nth_length, !map_length. reflexivity.
  - intros n Hn. rewrite set_nth_length, map_length, seq_length in Hn.
    rewrite (nth_map_seq _ _ _ _ Hn), latest_snoc.
    destruct (Nat.eqb_spec (aport a) n) as [<-|Hne].
    + rewrite nth_set_nth_eq by (rewrite map_length, seq_length; exact Hn). reflexivity.
    + rewrite nth_set_nth_neq by exact Hne. apply nth_map_seq. exact Hn.
Qed.

Lemma combine_latest_step_ok arity emit_on s pre a : latest_inv arity s pre ->
  upd_outs (KCombineLatest emit_on) s a = combine_latest_step arity emit_on pre a /\
  latest_inv arity (upd_state (KCombineLatest emit_on) s a) (pre ++ [a]).
Proof.
  unfold latest_inv. intros HI.
  rewrite upd_outs_eq, upd_state_eq. unfold combine_latest_step. cbn [update].
  rewrite HI. change (aval a, amd a) with (apair a). rewrite latest_all_snoc. unfold triggers, row_out.
  destruct (nth (aport a) (latest_all arity pre) None) as [[ov om]|];
    destruct (all_some (latest_all arity (pre ++ [a]))) as [full|];
    try destruct (match emit_on with None => true | Some ps => existsb (Nat.eqb (aport a)) ps end);
    cbn [app outs final_state]; split; reflexivity.
Qed.

Theorem sem_combine_latest arity emit_on l s pre : latest_inv arity s pre ->
  fold_outs (KCombineLatest emit_on) s l = combine_latest_sem arity emit_on pre l.
Proof.
  intros HI.
  apply (fold_refines (KCombineLatest emit_on) (fun _ => True) (latest_inv arity) (combine_latest_step arity emit_on)); auto.
  - intros s0 pre0 a _ H0. apply combine_latest_step_ok; assumption.
  - apply Forall_True.
Qed.

Lemma latest_all_nil arity : latest_all arity [] = repeat None arity.
Proof.
  unfold latest_all. generalize 0. induction arity as [|n IH]; intros st; cbn; [reflexivity|].
  rewrite IH. reflexivity.
Qed.

Corollary sem_combine_latest_init emit_on arity l :
  fold_outs (KCombineLatest emit_on) (init_state (KCombineLatest emit_on) arity) l
  = combine_latest_sem arity emit_on [] l.
Proof. apply sem_combine_latest. unfold latest_inv. cbn. symmetry. apply latest_all_nil. Qed.

(* ================================================================================== *)
(* 7. zip (any arity >= 1, with literals)                                              *)
(* ================================================================================== *)

(* the column of port p: what arrived on p, in order *)
Definition col (p : nat) (l : list arrival) : list (val * md) := map apair (on_port p l).
Definition cols (arity : nat) (l : list arrival) : list (list (val * md)) :=
  map (fun p => col p l) (seq 0 arity).

Definition minlen {A} (cs : list (list A)) : nat :=
  match map (@length A) cs with
  | [] => 0
  | n :: t => fold_right Nat.min n t
  end.

(* row i: the i-th arrival of every port, in port order; literals inserted by pack_literals;
   metadata of the members concatenated in port order *)
Definition zip_row (lits : list (nat * val)) (cs : list (list (val * md))) (i : nat) : val * md :=
  let cells := map (fun c => nth i c (VNone, [])) cs in
  (VTup (pack_literals lits (map fst cells) 0), flat_map snd cells).

(* the complete rows, in order *)
Definition zip_sem (lits : list (nat * val)) (arity : nat) (l : list arrival) : list (val * md) :=
  map (zip_row lits (cols arity l)) (seq 0 (minlen (cols arity l))).

(* incremental reading: an arrival emits row k exactly when it completes it *)
Definition zip_step (lits : list (nat * val)) (arity : nat) (pre : list arrival) (a : arrival) : list (val * md) :=
  let k := minlen (cols arity pre) in
  if minlen (cols arity (pre ++ [a])) =? S k then [zip_row lits (cols arity (pre ++ [a])) k] else [].

(* the buffers hold the unmatched rest of every column *)
Definition zip_inv (arity : nat) (s : nstate) (pre : list arrival) : Prop :=
  st_ports s = map (fun p => skipn (minlen (cols arity pre)) (col p pre)) (seq 0 arity).

Lemma fold_min_le n t : fold_right Nat.min n t <= n /\ forall x, In x t -> fold_right Nat.min n t <= x.
Proof.
  induction t as [|h t [IH1 IH2]]; cbn [fold_right]; [split; [lia | intros x []]|].
  split; [lia|]. intros x [->|Hx]; [lia|]. specialize (IH2 x Hx). lia.
Qed.

Lemma fold_min_in n t : fold_right Nat.min n t = n \/ In (fold_right Nat.min n t) t.
Proof.
  induction t as [|h t IH]; cbn [fold_right]; [left; reflexivity|].
  destruct (Nat.min_spec h (fold_right Nat.min n t)) as [[_ E]|[_ E]]; rewrite E.
  - right. left. reflexivity.
  - destruct IH as [IH|IH]; [left; exact IH | right; right; exact IH].
Qed.

Lemma minlen_le {A} (cs : list (list A)) c : In c cs -> minlen cs <= length c.
Proof.
  intros H. unfold minlen. apply (in_map (@length A)) in H.
  destruct (map (@length A) cs) as [|n t]; [destruct H|].
  destruct (fold_min_le n t) as [A1 A2]. destruct H as [<-|H]; [exact A1 | apply A2; exact H].
Qed.

Lemma minlen_witness {A} (cs : list (list A)) : cs <> [] -> exists c, In c cs /\ length c = minlen cs.
Proof.
  intros H. unfold minlen.
  assert (G : forall x, In x (map (@length A) cs) -> exists c, In c cs /\ length c = x).
  { intros x Hx. apply in_map_iff in Hx as [c [E Hc]]. exists c. auto. }
  destruct (map (@length A) cs) as [|n t] eqn:E; [destruct cs; [contradiction | discriminate]|].
  destruct (fold_min_in n t) as [X|X].
  - rewrite X. apply G. left. reflexivity.
  - apply G. right. exact X.
Qed.

Lemma minlen_cols_le arity l q : q < arity -> minlen (cols arity l) <= length (col q l).
Proof.
  intros H. apply minlen_le. unfold cols. apply in_map_iff. exists q. split; [reflexivity|]. apply in_seq. lia.
Qed.

Lemma minlen_cols_wit arity l : 1 <= arity -> exists q, q < arity /\ length (col q l) = minlen (cols arity l).
Proof.
  intros H. destruct (minlen_witness (cols arity l)) as [c [Hc E]].
  - unfold cols. destruct arity; [lia|]. cbn. discriminate.
  - unfold cols in Hc. apply in_map_iff in Hc as [q [<- Hq]]. apply in_seq in Hq. exists q. split; [lia | exact E].
Qed.

Lemma col_snoc q pre a :
  col q (pre ++ [a]) = col q pre ++ (if aport a =? q then [apair a] else []).
Proof.
  unfold col, on_port. rewrite filter_app, map_app. cbn [filter]. destruct (aport a =? q); reflexivity.
Qed.

Lemma col_snoc_length q pre a :
  length (col q (pre ++ [a])) = length (col q pre) + (if aport a =? q then 1 else 0).
Proof. rewrite col_snoc, app_length. destruct (aport a =? q); reflexivity. Qed.

(* one arrival raises the number of complete rows by at most one; it does so iff afterwards every
   column is longer than the old count *)
Lemma minlen_cols_step arity pre a : 1 <= arity ->
  let k := minlen (cols arity pre) in
  let k' := minlen (cols arity (pre ++ [a])) in
  (k' = k \/ k' = S k) /\
  (k' = S k <-> forall q, q < arity -> S k <= length (col q (pre ++ [a]))).
Proof.
  intros Ha k k'.
  destruct (minlen_cols_wit arity pre Ha) as [q0 [Hq0 E0]]. fold k in E0.
  destruct (minlen_cols_wit arity (pre ++ [a]) Ha) as [q1 [Hq1 E1]]. fold k' in E1.
  pose proof (minlen_cols_le arity pre q1 Hq1) as L1. fold k in L1.
  pose proof (minlen_cols_le arity (pre ++ [a]) q0 Hq0) as L0. fold k' in L0.
  pose proof (col_snoc_length q0 pre a) as S0. pose proof (col_snoc_length q1 pre a) as S1.
  assert (R : k <= k' <= S k).
  { destruct (aport a =? q0); destruct (aport a =? q1); lia. }
  split; [lia|]. split.
  - intros Ek q Hq. pose proof (minlen_cols_le arity (pre ++ [a]) q Hq) as X. fold k' in X. lia.
  - intros H. specialize (H q1 Hq1). lia.
Qed.

Lemma hd_skipn {A} (d : A) : forall c k, hd d (skipn k c) = nth k c d.
Proof.
  induction c as [|h t IH]; intros [|k]; cbn [skipn hd nth]; try reflexivity. apply IH.
Qed.

Lemma map_seq_ext {B} (f g : nat -> B) len : forall start,
  (forall i, start <= i < start + len -> f i = g i) -> map f (seq start len) = map g (seq start len).
Proof.
  intros start H. apply map_ext_in. intros i Hi. apply in_seq in Hi. apply H. exact Hi.
Qed.

Lemma zip_step_ok lits arity s pre a : 1 <= arity -> aport a < arity -> zip_inv arity s pre ->
  upd_outs (KZip lits) s a = zip_step lits arity pre a /\
  zip_inv arity (upd_state (KZip lits) s a) (pre ++ [a]).
Proof.
  intros Ha Hp HI. unfold zip_inv in *.
  rewrite upd_outs_eq, upd_state_eq. unfold zip_step. cbn [update].
  destruct (minlen_cols_step arity pre a Ha) as [Hk Hk']. cbn zeta in Hk, Hk'.
  set (k := minlen (cols arity pre)) in *. set (k' := minlen (cols arity (pre ++ [a]))) in *.
  set (p := aport a) in *.
  rewrite HI.
  assert (Hnth : nth p (map (fun q => skipn k (col q pre)) (seq 0 arity)) [] = skipn k (col p pre))
    by (apply (nth_map_seq (fun q => skipn k (col q pre))); exact Hp).
  rewrite Hnth.
  assert (HL : skipn k (col p pre) ++ [(aval a, amd a)] = skipn k (col p (pre ++ [a]))).
  { rewrite col_snoc. unfold p. rewrite Nat.eqb_refl, skipn_app.
    pose proof (minlen_cols_le arity pre (aport a) Hp) as X. fold k in X.
    replace (k - length (col (aport a) pre)) with 0 by lia. reflexivity. }
  rewrite HL.
  assert (Hbufs : set_nth p (skipn k (col p (pre ++ [a]))) (map (fun q => skipn k (col q pre)) (seq 0 arity))
                  = map (fun q => skipn k (col q (pre ++ [a]))) (seq 0 arity)).
  { apply (nth_ext _ _ [] []).
    - rewrite set_nth_length, !map_length. reflexivity.
    - intros n Hn. rewrite set_nth_length, map_length, seq_length in Hn.
      rewrite (nth_map_seq (fun q => skipn k (col q (pre ++ [a]))) _ _ _ Hn).
      destruct (Nat.eq_dec p n) as [<-|Hne].
      + rewrite nth_set_nth_eq by (rewrite map_length, seq_length; exact Hn). reflexivity.
      + rewrite nth_set_nth_neq by exact Hne. rewrite (nth_map_seq (fun q => skipn k (col q pre)) _ _ _ Hn).
        rewrite col_snoc. fold p. apply Nat.eqb_neq in Hne. rewrite Hne, app_nil_r. reflexivity. }
  rewrite Hbufs.
  set (cond := (length (skipn k (col p (pre ++ [a]))) =? 1) &&
               forallb (fun b => negb (length b =? 0)) (map (fun q => skipn k (col q (pre ++ [a]))) (seq 0 arity))).
  assert (Hcond : cond = (k' =? S k)).
  { unfold cond. destruct (Nat.eqb_spec k' (S k)) as [E|E].
    - assert (All : forall q, q < arity -> S k <= length (col q (pre ++ [a]))) by (apply Hk'; exact E).
      apply andb_true_iff. split.
      + apply Nat.eqb_eq. rewrite skipn_length.
        destruct (minlen_cols_wit arity pre Ha) as [q0 [Hq0 E0]]. fold k in E0.
        pose proof (All q0 Hq0) as X. pose proof (col_snoc_length q0 pre a) as Y. fold p in Y.
        destruct (Nat.eqb_spec p q0) as [->|Hne]; [|lia].
        pose proof (col_snoc_length q0 pre a) as Z. lia.
      + apply forallb_forall. intros b Hb. apply in_map_iff in Hb as [q [<- Hq]]. apply in_seq in Hq.
        rewrite skipn_length. specialize (All q ltac:(lia)).
        apply negb_true_iff. apply Nat.eqb_neq. lia.
    - apply andb_false_iff. right. apply not_true_is_false. intros F. apply E. apply Hk'.
      intros q Hq. rewrite forallb_forall in F.
      specialize (F (skipn k (col q (pre ++ [a])))). rewrite skipn_length in F.
      assert (X : negb (length (col q (pre ++ [a])) - k =? 0) = true).
      { apply F. apply in_map_iff. exists q. split; [reflexivity|]. apply in_seq. lia. }
      apply negb_true_iff in X. apply Nat.eqb_neq in X. lia. }
  fold cond. rewrite Hcond. destruct (Nat.eqb_spec k' (S k)) as [E|E]; cbn [outs final_state st_ports set_ports].
  - split.
    + unfold zip_row. rewrite !map_map.
      f_equal. f_equal.
      * f_equal. f_equal. unfold cols. rewrite map_map. apply map_ext. intros q. rewrite hd_skipn. reflexivity.
      * unfold cols. rewrite !flat_map_concat_map, !map_map. f_equal. apply map_ext. intros q. rewrite hd_skipn. reflexivity.
    + rewrite map_map. rewrite E. apply map_ext. intros q. apply tl_skipn.
  - split; [reflexivity|]. replace k' with k by lia. reflexivity.
Qed.

Theorem sem_zip_prefix lits arity l s pre : 1 <= arity -> Forall (fun a => aport a < arity) l ->
  zip_inv arity s pre ->
  fold_outs (KZip lits) s l = prefix_sem (zip_step lits arity) pre l /\
  zip_inv arity (fold_state (KZip lits) s l) (pre ++ l).
Proof.
  intros Ha HP HI.
  apply (fold_refines (KZip lits) (fun a => aport a < arity) (zip_inv arity) (zip_step lits arity)); auto.
  intros s0 pre0 a Pa H0. apply zip_step_ok; assumption.
Qed.

(* closed form: the incremental reading yields exactly the complete rows *)
Lemma zip_sem_snoc lits arity l a : 1 <= arity ->
  zip_sem lits arity (l ++ [a]) = zip_sem lits arity l ++ zip_step lits arity l a.
Proof.
  intros Ha. unfold zip_sem, zip_step.
  destruct (minlen_cols_step arity l a Ha) as [Hk _]. cbn zeta in Hk.
  set (k := minlen (cols arity l)) in *. set (k' := minlen (cols arity (l ++ [a]))) in *.
  assert (Hrow : map (zip_row lits (cols arity (l ++ [a]))) (seq 0 k) = map (zip_row lits (cols arity l)) (seq 0 k)).
  { apply map_seq_ext. intros i Hi. unfold zip_row, cols. rewrite !map_map.
    assert (Hcell : forall q, In q (seq 0 arity) ->
              nth i (col q (l ++ [a])) (VNone, []) = nth i (col q l) (VNone, [])).
    { intros q Hq. apply in_seq in Hq. rewrite col_snoc. apply app_nth1.
      pose proof (minlen_cols_le arity l q ltac:(lia)) as X. fold k in X. lia. }
    f_equal.
    - f_equal. f_equal. apply map_ext_in. intros q Hq. rewrite Hcell by exact Hq. reflexivity.
    - rewrite !flat_map_concat_map, !map_map. f_equal. apply map_ext_in. intros q Hq. rewrite Hcell by exact Hq. reflexivity. }
  destruct (Nat.eqb_spec k' (S k)) as [E|E].
  - rewrite E, seq_S, map_app, Hrow. reflexivity.
  - replace k' with k by lia. rewrite Hrow, app_nil_r. reflexivity.
Qed.

Lemma zip_prefix_closed lits arity l : 1 <= arity ->
  prefix_sem (zip_step lits arity) [] l = zip_sem lits arity l.
Proof.
  intros Ha. induction l as [|a l IH] using rev_ind.
  - unfold zip_sem, cols, col. cbn [prefix_sem on_port filter map].
    replace (minlen (map (fun _ : nat => @nil (val * md)) (seq 0 arity))) with 0; [reflexivity|].
    destruct arity; [lia|]. unfold minlen. cbn [seq map length].
    symmetry. apply Nat.le_0_r. apply (proj1 (fold_min_le 0 _)).
  - rewrite prefix_sem_app, IH. cbn [app prefix_sem]. rewrite app_nil_r. symmetry. apply zip_sem_snoc. exact Ha.
Qed.

Lemma map_const_repeat {A B} (b : B) (l : list A) : map (fun _ => b) l = repeat b (length l).
Proof. induction l as [|h t IH]; cbn; [reflexivity | rewrite IH; reflexivity]. Qed.

Lemma zip_inv_init lits arity : zip_inv arity (init_state (KZip lits) arity) [].
Proof.
  unfold zip_inv. cbn [init_state st_ports].
  rewrite (map_ext _ (fun _ => @nil (val * md))) by (intros q; apply skipn_nil).
  rewrite map_const_repeat, seq_length. reflexivity.
Qed.

Theorem sem_zip lits arity l : 1 <= arity -> Forall (fun a => aport a < arity) l ->
  fold_outs (KZip lits) (init_state (KZip lits) arity) l = zip_sem lits arity l /\
  st_ports (fold_state (KZip lits) (init_state (KZip lits) arity) l)
    = map (fun p => skipn (length (zip_sem lits arity l)) (col p l)) (seq 0 arity).
Proof.
  intros Ha HP. destruct (sem_zip_prefix lits arity l _ [] Ha HP (zip_inv_init lits arity)) as [A B].
  rewrite zip_prefix_closed in A by exact Ha. split; [exact A|].
  unfold zip_inv in B. cbn [app] in B. rewrite B. unfold zip_sem. rewrite map_length, seq_length. reflexivity.
Qed.

(* two inputs, no literals: the k-th output pairs the k-th arrivals of ports 0 and 1 *)
Lemma combine_by_index {A B} (da : A) (db : B) : forall (l1 : list A) (l2 : list B),
  combine l1 l2 = map (fun i => (nth i l1 da, nth i l2 db)) (seq 0 (Nat.min (length l1) (length l2))).
Proof.
  induction l1 as [|x t IH]; intros [|y u]; cbn [combine length Nat.min seq map]; try reflexivity.
  rewrite <- seq_shift, map_map. cbn [nth]. f_equal. apply IH.
Qed.

Definition arr0 : arrival := (0, VNone, []).

Corollary sem_zip2 l : Forall (fun a => aport a < 2) l ->
  fold_outs (KZip []) (init_state (KZip []) 2) l =
  map (fun ab => (VTup [aval (fst ab); aval (snd ab)], amd (fst ab) ++ amd (snd ab)))
      (combine (on_port 0 l) (on_port 1 l)).
Proof.
  intros HP. destruct (sem_zip [] 2 l ltac:(lia) HP) as [A _]. rewrite A.
  unfold zip_sem. rewrite (combine_by_index arr0 arr0), map_map.
  unfold cols, minlen. cbn [seq map fold_right]. unfold col. rewrite !map_length, Nat.min_comm.
  apply map_ext. intros i. unfold zip_row. cbn [map pack_literals flat_map fst snd].
  change (VNone, @nil mdi) with (apair arr0). rewrite !map_nth.
  rewrite app_nil_r. reflexivity.
Qed.

Corollary sem_zip2_values l : Forall (fun a => aport a < 2) l ->
  map fst (fold_outs (KZip []) (init_state (KZip []) 2) l) =
  map (fun ab => VTup [aval (fst ab); aval (snd ab)]) (combine (on_port 0 l) (on_port 1 l)).
Proof. intros HP. rewrite sem_zip2 by exact HP. rewrite map_map. reflexivity. Qed.

(* ================================================================================== *)
(* 4. partition(n, key=...)                                                            *)
(* ================================================================================== *)

Definition same_key (key : val -> val) (y : val) (l : list arrival) : list arrival :=
  filter (fun b => val_eqb y (key (aval b))) l.

(* the arrival `a` completes a chunk iff the number of arrivals with its key (itself included)
   is a multiple of n; the chunk is the last n of them *)
Definition partition_key_step (n : nat) (key : val -> val) (pre : list arrival) (a : arrival)
  : list (val * md) :=
  let same := same_key key (key (aval a)) (pre ++ [a]) in
  if length same mod n =? 0 then [chunk_out (lastn n same)] else [].

Definition partition_key_sem n key (pre l : list arrival) : list (val * md) :=
  prefix_sem (partition_key_step n key) pre l.

(* what waits in the buffer of one key: the arrivals after its last complete chunk *)
Definition pending (n : nat) (same : list arrival) : list arrival := lastn (length same mod n) same.

Definition key_buf (s : nstate) (y : val) : list val * md :=
  match assoc_get y (st_keyed s) with Some b => b | None => ([], []) end.

Definition partition_key_inv (n : nat) (key : val -> val) (s : nstate) (pre : list arrival) : Prop :=
  forall y, key_buf s y = (map aval (pending n (same_key key y pre)), flat_map amd (pending n (same_key key y pre))).

Lemma pending_length n same : 1 <= n -> length (pending n same) = length same mod n /\ length (pending n same) < n.
Proof.
  intros Hn. unfold pending. rewrite lastn_length.
  pose proof (Nat.mod_le (length same) n ltac:(lia)). pose proof (Nat.mod_upper_bound (length same) n ltac:(lia)). lia.
Qed.

Lemma pending_snoc n same a : 1 <= n ->
  let B := pending n same in
  (length (same ++ [a]) mod n =? 0) = (length (B ++ [a]) =? n) /\
  (length (B ++ [a]) = n -> lastn n (same ++ [a]) = B ++ [a] /\ pending n (same ++ [a]) = []) /\
  (length (B ++ [a]) <> n -> pending n (same ++ [a]) = B ++ [a]).
Proof.
  intros Hn B. destruct (pending_length n same Hn) as [LB LBn]. fold B in LB, LBn.
  rewrite !app_length. cbn [length].
  set (len := length same) in *. set (r := len mod n) in *.
  pose proof (Nat.div_mod len n ltac:(lia)) as Hdm. fold r in Hdm.
  assert (Hmod : (len + 1) mod n = if r + 1 =? n then 0 else r + 1).
  { destruct (Nat.eqb_spec (r + 1) n) as [E|E]; symmetry.
    - apply (Nat.mod_unique _ _ (S (len / n))); [lia|]. rewrite Nat.mul_succ_r. lia.
    - apply (Nat.mod_unique _ _ (len / n)); lia. }
  rewrite LB. split; [|split].
  - rewrite Hmod. destruct (Nat.eqb_spec (r + 1) n); [reflexivity|]. apply Nat.eqb_neq. lia.
  - intros E. unfold pending. rewrite app_length. cbn [length]. fold len. rewrite Hmod.
    apply Nat.eqb_eq in E. rewrite E. rewrite lastn_0. split; [|reflexivity].
    apply Nat.eqb_eq in E. rewrite <- E, Nat.add_1_r, lastn_snoc. reflexivity.
  - intros E. unfold pending. rewrite app_length. cbn [length]. fold len. rewrite Hmod.
    apply Nat.eqb_neq in E. rewrite E. rewrite Nat.add_1_r, lastn_snoc. reflexivity.
Qed.

Lemma assoc_get_set_other {B} y k (b : B) l : val_eqb y k = false ->
  assoc_get y (assoc_set k b l) = assoc_get y l.
Proof.
  intros H. induction l as [|[k' b'] t IH]; cbn [assoc_set assoc_get].
  - rewrite H. reflexivity.
  - destruct (val_eqb k k') eqn:E; cbn [assoc_get].
    + apply val_eqb_spec in E. subst k'. rewrite H. reflexivity.
    + rewrite IH. reflexivity.
Qed.

Lemma same_key_snoc key y pre a :
  same_key key y (pre ++ [a]) = same_key key y pre ++ (if val_eqb y (key (aval a)) then [a] else []).
Proof. unfold same_key. rewrite filter_app. cbn [filter]. destruct (val_eqb y (key (aval a))); reflexivity. Qed.

Lemma partition_key_step_ok n key s pre a : 1 <= n -> partition_key_inv n key s pre ->
  upd_outs (KPartition n (Some key)) s a = partition_key_step n key pre a /\
  partition_key_inv n key (upd_state (KPartition n (Some key)) s a) (pre ++ [a]).
Proof.
  intros Hn HI. rewrite upd_outs_eq, upd_state_eq. unfold partition_key_step. cbn [update].
  set (ky := key (aval a)).
  pose proof (HI ky) as Hb. unfold key_buf in Hb. rewrite Hb.
  rewrite same_key_snoc. fold ky. rewrite val_eqb_refl.
  set (same := same_key key ky pre) in *.
  destruct (pending_snoc n same a Hn) as [P1 [P2 P3]]. cbn zeta in P1, P2, P3.
  set (B := pending n same) in *.
  rewrite P1. rewrite !app_length, map_length. cbn [length].
  rewrite app_length in P1, P2, P3. cbn [length] in P1, P2, P3.
  assert (Hother : forall b y, val_eqb y ky = false ->
            key_buf (set_keyed s (assoc_set ky b (st_keyed s))) y =
            (map aval (pending n (same_key key y (pre ++ [a]))), flat_map amd (pending n (same_key key y (pre ++ [a]))))).
  { intros b y Hy. unfold key_buf. cbn [st_keyed set_keyed]. rewrite assoc_get_set_other by exact Hy.
    rewrite same_key_snoc. fold ky. rewrite Hy, app_nil_r. apply HI. }
  destruct (Nat.eqb_spec (length B + 1) n) as [E|E]; cbn [outs final_state].
  - destruct (P2 E) as [Q1 Q2]. split.
    + rewrite Q1. unfold chunk_out. rewrite map_app, flat_map_app. cbn [map flat_map]. rewrite app_nil_r. reflexivity.
    + intros y. destruct (val_eqb y ky) eqn:Ey; [|apply Hother; exact Ey].
      apply val_eqb_spec in Ey. subst y. unfold key_buf. cbn [st_keyed set_keyed]. rewrite assoc_get_set.
      rewrite same_key_snoc. fold ky. rewrite val_eqb_refl. fold same. rewrite Q2. reflexivity.
  - split; [reflexivity|].
    intros y. destruct (val_eqb y ky) eqn:Ey; [|apply Hother; exact Ey].
    apply val_eqb_spec in Ey. subst y. unfold key_buf. cbn [st_keyed set_keyed]. rewrite assoc_get_set.
    rewrite same_key_snoc. fold ky. rewrite val_eqb_refl. fold same. rewrite (P3 E).
    rewrite map_app, flat_map_app. cbn [map flat_map]. rewrite app_nil_r. reflexivity.
Qed.

Theorem sem_partition_key n key l s pre : 1 <= n -> partition_key_inv n key s pre ->
  fold_outs (KPartition n (Some key)) s l = partition_key_sem n key pre l.
Proof.
  intros Hn HI.
  apply (fold_refines (KPartition n (Some key)) (fun _ => True) (partition_key_inv n key) (partition_key_step n key)); auto.
  - intros s0 pre0 a _ H0. apply partition_key_step_ok; assumption.
  - apply Forall_True.
Qed.

Corollary sem_partition_key_init n key nups l : 1 <= n ->
  fold_outs (KPartition n (Some key)) (init_state (KPartition n (Some key)) nups) l = partition_key_sem n key [] l.
Proof.
  intros Hn. apply sem_partition_key; [exact Hn|]. intros y. unfold key_buf, pending, same_key.
  cbn [init_state st_empty st_keyed assoc_get filter length]. rewrite Nat.mod_0_l by lia. reflexivity.
Qed.

(* every member of an emitted chunk carries the key of the arrival that completed it *)
Lemma partition_key_step_members n key pre a c :
  In c (partition_key_step n key pre a) ->
  exists g, c = chunk_out g /\ Forall (fun b => key (aval b) = key (aval a)) g.
Proof.
  unfold partition_key_step. destruct (_ =? 0); [|intros []]. intros [<-|[]].
  eexists. split; [reflexivity|]. apply Forall_forall. intros b Hb.
  destruct (lastn_suffix n (same_key key (key (aval a)) (pre ++ [a]))) as [p Hp].
  assert (Hin : In b (same_key key (key (aval a)) (pre ++ [a]))) by (rewrite Hp; apply in_or_app; right; exact Hb).
  unfold same_key in Hin. apply filter_In in Hin as [_ E]. apply val_eqb_spec in E. symmetry. exact E.
Qed.

(* restricted to the arrivals of one key, the outputs are the chunks of n of that key's
   subsequence (NodeSem.chunks); globally they appear in order of completion (prefix_sem) *)
Definition partition_key_step_for (n : nat) (key : val -> val) (y : val) (pre : list arrival) (a : arrival) :=
  if val_eqb y (key (aval a)) then partition_key_step n key pre a else [].

Theorem partition_key_per_key n key y : 1 <= n -> forall l pre,
  prefix_sem (partition_key_step_for n key y) pre l
  = chunks n (pending n (same_key key y pre)) (same_key key y l).
Proof.
  intros Hn. induction l as [|a t IH]; intros pre; cbn [prefix_sem]; [reflexivity|].
  rewrite IH. unfold partition_key_step_for, partition_key_step. rewrite !same_key_snoc.
  unfold same_key at 6. cbn [filter]. fold (same_key key y t).
  destruct (val_eqb y (key (aval a))) eqn:Ey.
  - apply val_eqb_spec in Ey. subst y. rewrite val_eqb_refl. cbn [chunks].
    destruct (pending_snoc n (same_key key (key (aval a)) pre) a Hn) as [P1 [P2 P3]]. cbn zeta in P1, P2, P3.
    rewrite P1. destruct (Nat.eqb_spec (length (pending n (same_key key (key (aval a)) pre) ++ [a])) n) as [E|E].
    + destruct (P2 E) as [Q1 Q2]. rewrite Q1, Q2. reflexivity.
    + rewrite (P3 E). reflexivity.
  - rewrite app_nil_r. reflexivity.
Qed.

Corollary partition_key_per_key_init n key y l : 1 <= n ->
  prefix_sem (partition_key_step_for n key y) [] l = chunks n [] (same_key key y l).
Proof.
  intros Hn. rewrite (partition_key_per_key n key y Hn l []). unfold pending, same_key.
  cbn [filter length]. rewrite Nat.mod_0_l by lia. reflexivity.
Qed.

(* the global output interleaves the per-key outputs: an arrival only ever completes a chunk of
   its own key *)
Lemma partition_key_step_split n key y pre a :
  partition_key_step_for n key y pre a =
  if val_eqb y (key (aval a)) then partition_key_step n key pre a else [].
Proof. reflexivity. Qed.

Lemma partition_key_step_own n key pre a :
  partition_key_step n key pre a = partition_key_step_for n key (key (aval a)) pre a.
Proof. unfold partition_key_step_for. rewrite val_eqb_refl. reflexivity. Qed.

(* the per-key buffer is always shorter than n, so NodeSem.chunks_concat applies: per key,
   nothing is lost or reordered *)
Corollary partition_key_nothing_lost n key y l : 1 <= n ->
  exists rest, length rest < n /\
    flat_map (fun c => match fst c with VTup vs => vs | _ => [] end)
             (prefix_sem (partition_key_step_for n key y) [] l) ++ map aval rest
      = map aval (same_key key y l).
Proof.
  intros Hn. rewrite partition_key_per_key_init by exact Hn.
  destruct (chunks_concat n (same_key key y l) [] ltac:(cbn; lia)) as [rest [R1 [R2 _]]].
  exists rest. split; [exact R1 | exact R2].
Qed.

(* ================================================================================== *)
(* 5. partition_unique(n, key, keep)                                                   *)
(* ================================================================================== *)

(* the current group: one arrival per key.  keep = "first": a repeated key is ignored;
   keep = "last": the old entry is removed and the new one appended *)
Definition pu_insert (key : val -> val) (keep_last : bool) (buf : list arrival) (a : arrival) : list arrival :=
  let same b := val_eqb (key (aval a)) (key (aval b)) in
  if keep_last then filter (fun b => negb (same b)) buf ++ [a]
  else if existsb same buf then buf else buf ++ [a].

Fixpoint part_unique_sem (n : nat) (key : val -> val) (keep_last : bool) (buf l : list arrival) : list (val * md) :=
  match l with
  | [] => []
  | a :: t =>
      let buf' := pu_insert key keep_last buf a in
      if length buf' =? n then chunk_out buf' :: part_unique_sem n key keep_last [] t
      else part_unique_sem n key keep_last buf' t
  end.

Definition pu_entry (key : val -> val) (b : arrival) : val * (list val * md) := (key (aval b), ([aval b], amd b)).

Definition pu_inv (key : val -> val) (s : nstate) (buf : list arrival) : Prop :=
  st_keyed s = map (pu_entry key) buf /\ NoDup (keys_of key buf).

Lemma NoDup_snoc {A} (l : list A) x : NoDup l -> ~ In x l -> NoDup (l ++ [x]).
Proof.
  induction 1 as [|h t Hh Ht IH]; intros Hx; cbn [app].
  - constructor; [intros [] | constructor].
  - constructor.
    + rewrite in_app_iff. intros [X|[X|[]]]; [contradiction|]. apply Hx. left. symmetry. exact X.
    + apply IH. intros X. apply Hx. right. exact X.
Qed.

Lemma keys_filter_In key y (f : arrival -> bool) buf :
  In y (keys_of key (filter f buf)) -> exists b, In b buf /\ f b = true /\ key (aval b) = y.
Proof.
  unfold keys_of. intros H. apply in_map_iff in H as [b [E Hb]]. apply filter_In in Hb as [Hb Hf]. eauto.
Qed.

Lemma NoDup_keys_filter key (f : arrival -> bool) buf :
  NoDup (keys_of key buf) -> NoDup (keys_of key (filter f buf)).
Proof.
  unfold keys_of. induction buf as [|h t IH]; intros H; cbn [filter map]; [constructor|].
  inversion H as [|? ? Hh Ht]; subst. destruct (f h); cbn [map]; [|apply IH; exact Ht].
  constructor; [|apply IH; exact Ht].
  intros X. apply Hh. apply in_map_iff in X as [b [E Hb]]. apply filter_In in Hb as [Hb _].
  apply in_map_iff. eauto.
Qed.

Lemma pu_insert_NoDup key kl buf a : NoDup (keys_of key buf) -> NoDup (keys_of key (pu_insert key kl buf a)).
Proof.
  intros H. unfold pu_insert. destruct kl.
  - unfold keys_of. rewrite map_app. cbn [map]. apply NoDup_snoc; [apply NoDup_keys_filter; exact H|].
    intros X. apply keys_filter_In in X as [b [_ [Hf E]]]. rewrite E, val_eqb_refl in Hf. discriminate.
  - destruct (existsb _ buf) eqn:E; [exact H|].
    unfold keys_of. rewrite map_app. cbn [map]. apply NoDup_snoc; [exact H|].
    intros X. apply in_map_iff in X as [b [Eb Hb]].
    assert (F : existsb (fun b0 => val_eqb (key (aval a)) (key (aval b0))) buf = true).
    { apply existsb_exists. exists b. split; [exact Hb|]. rewrite Eb. apply val_eqb_refl. }
    congruence.
Qed.

Lemma assoc_get_entries key y buf :
  match assoc_get y (map (pu_entry key) buf) with Some _ => true | None => false end
  = existsb (fun b => val_eqb y (key (aval b))) buf.
Proof.
  induction buf as [|h t IH]; cbn [map assoc_get pu_entry existsb]; [reflexivity|].
  destruct (val_eqb y (key (aval h))); [reflexivity | exact IH].
Qed.

Lemma assoc_remove_entries key y buf : NoDup (keys_of key buf) ->
  assoc_remove y (map (pu_entry key) buf) = map (pu_entry key) (filter (fun b => negb (val_eqb y (key (aval b)))) buf).
Proof.
  induction buf as [|h t IH]; intros H; cbn [map assoc_remove pu_entry filter]; [reflexivity|].
  inversion H as [|? ? Hh Ht]; subst.
  destruct (val_eqb y (key (aval h))) eqn:E; cbn [negb map].
  - apply val_eqb_spec in E. subst y. f_equal. symmetry.
    clear IH H Ht. induction t as [|b t IHt]; cbn [filter]; [reflexivity|].
    destruct (val_eqb (key (aval h)) (key (aval b))) eqn:Eb; cbn [negb].
    + apply val_eqb_spec in Eb. exfalso. apply Hh. left. symmetry. exact Eb.
    + rewrite IHt; [reflexivity|]. intros X. apply Hh. right. exact X.
  - fold (pu_entry key h). rewrite IH by exact Ht. reflexivity.
Qed.

Lemma entries_vals key buf : flat_map (fun e : val * (list val * md) => fst (snd e)) (map (pu_entry key) buf) = map aval buf.
Proof. induction buf as [|h t IH]; cbn; [reflexivity | rewrite IH; reflexivity]. Qed.
Lemma entries_mds key buf : flat_map (fun e : val * (list val * md) => snd (snd e)) (map (pu_entry key) buf) = flat_map amd buf.
Proof. induction buf as [|h t IH]; cbn; [reflexivity | rewrite IH; reflexivity]. Qed.

Lemma part_unique_step_ok n key kl s buf a : pu_inv key s buf ->
  let buf' := pu_insert key kl buf a in
  upd_outs (KPartUnique n key kl) s a = (if length buf' =? n then [chunk_out buf'] else []) /\
  pu_inv key (upd_state (KPartUnique n key kl) s a) (if length buf' =? n then [] else buf').
Proof.
  intros [HK ND] buf'. pose proof (pu_insert_NoDup key kl buf a ND) as ND'. fold buf' in ND'.
  rewrite upd_outs_eq, upd_state_eq. cbn [update]. rewrite HK.
  set (y := key (aval a)).
  assert (Hkd : exists pre,
    (if kl
     then (match assoc_get y (map (pu_entry key) buf) with Some (_, om) => [ARelease om] | None => [] end,
           assoc_remove y (map (pu_entry key) buf) ++ [(y, ([aval a], amd a))])
     else match assoc_get y (map (pu_entry key) buf) with
          | Some _ => ([ARelease (amd a)], map (pu_entry key) buf)
          | None => ([], map (pu_entry key) buf ++ [(y, ([aval a], amd a))])
          end) = (pre, map (pu_entry key) buf') /\
    (forall tl0, outs (pre ++ tl0) = outs tl0) /\ (forall tl0 s0, final_state (pre ++ tl0) s0 = final_state tl0 s0)).
  { unfold buf', pu_insert. fold y. destruct kl.
    - eexists. split; [|split].
      + f_equal. rewrite assoc_remove_entries by exact ND. rewrite map_app. reflexivity.
      + intros tl0. destruct (assoc_get y _) as [[? ?]|]; reflexivity.
      + intros tl0 s0. destruct (assoc_get y _) as [[? ?]|]; reflexivity.
    - pose proof (assoc_get_entries key y buf) as G.
      destruct (assoc_get y (map (pu_entry key) buf)) as [e|]; rewrite <- G.
      + eexists. split; [reflexivity|]. split; reflexivity.
      + eexists. split; [rewrite map_app; reflexivity|]. split; reflexivity. }
  destruct Hkd as [pre [-> [O F]]].
  rewrite map_length. rewrite entries_vals, entries_mds.
  destruct (length buf' =? n); cbn [app outs final_state]; rewrite O, F; cbn [outs final_state]; split;
    try reflexivity; split; try reflexivity; try exact ND'. constructor.
Qed.

Theorem sem_part_unique n key kl : forall l s buf, pu_inv key s buf ->
  fold_outs (KPartUnique n key kl) s l = part_unique_sem n key kl buf l.
Proof.
  induction l as [|a t IH]; intros s buf HI; cbn [fold_outs part_unique_sem]; [reflexivity|].
  destruct (part_unique_step_ok n key kl s buf a HI) as [A B]. cbn zeta in A, B. rewrite A.
  destruct (length (pu_insert key kl buf a) =? n); cbn [app]; [f_equal|]; apply IH; exact B.
Qed.

Corollary sem_part_unique_init n key kl nups l :
  fold_outs (KPartUnique n key kl) (init_state (KPartUnique n key kl) nups) l = part_unique_sem n key kl [] l.
Proof. apply sem_part_unique. split; [reflexivity | constructor]. Qed.

(* every emitted tuple has exactly n members, with pairwise distinct keys *)
Theorem part_unique_distinct n key kl : forall l buf, NoDup (keys_of key buf) ->
  Forall (fun o => exists c, o = chunk_out c /\ length c = n /\ NoDup (keys_of key c))
         (part_unique_sem n key kl buf l).
Proof.
  induction l as [|a t IH]; intros buf ND; cbn [part_unique_sem]; [constructor|].
  pose proof (pu_insert_NoDup key kl buf a ND) as ND'.
  destruct (Nat.eqb_spec (length (pu_insert key kl buf a)) n) as [E|E].
  - constructor; [eexists; split; [reflexivity|]; split; assumption|]. apply IH. constructor.
  - apply IH. exact ND'.
Qed.

(* ================================================================================== *)
(* 9. zip_latest (port 0 lossless, the others "latest")                                *)
(* ================================================================================== *)

Definition delivered (pre : list arrival) (q : nat) : bool :=
  match latest pre q with Some _ => true | None => false end.

(* every non-lossless port has delivered at least once *)
Definition others_ready (arity : nat) (pre : list arrival) : bool :=
  forallb (delivered pre) (seq 1 (arity - 1)).

(* lossless elements still waiting: none once the other ports are all there (they were emitted
   on arrival or drained when the last missing port delivered), everything otherwise *)
Definition zl_pending (arity : nat) (pre : list arrival) : list arrival :=
  if others_ready arity pre then [] else on_port 0 pre.

Definition zl_out (others : list (val * md)) (b : arrival) : val * md :=
  (VTup (aval b :: map fst others), amd b ++ flat_map snd others).

(* when, after the arrival `a`, every port has delivered: emit, oldest first, every waiting
   lossless element (and `a` itself if it is one), each paired with the latest of the others *)
Definition zip_latest_step (arity : nat) (pre : list arrival) (a : arrival) : list (val * md) :=
  match all_some (latest_all arity (pre ++ [a])) with
  | Some full => map (zl_out (tl full)) (zl_pending arity pre ++ (if aport a =? 0 then [a] else []))
  | None => []
  end.

Definition zip_latest_sem (arity : nat) (pre l : list arrival) : list (val * md) :=
  prefix_sem (zip_latest_step arity) pre l.

Definition zl_inv (arity : nat) (s : nstate) (pre : list arrival) : Prop :=
  st_last s = latest_all arity pre /\ st_win s = map apair (zl_pending arity pre).

(* the local `drain` of update, as a top-level function (convertible) *)
Definition zl_drain (s : nstate) (last' : list (option (val * md))) (others : list (val * md)) :=
  fix drain (b : list (val * md)) : list action :=
    match b with
    | [] => []
    | (x0, m0) :: rest =>
        ASet (set_win (set_last s (Some (x0, m0) :: tl last')) rest)
        :: AEmit (VTup (x0 :: map fst others)) (m0 ++ flat_map snd others)
        :: ARelease m0 :: drain rest
    end.

Lemma zl_update_eq s p x m :
  update KZipLatest s p x m =
  let old := nth p (st_last s) None in
  let last' := set_nth p (Some (x, m)) (st_last s) in
  let buf' := if p =? 0 then st_win s ++ [(x, m)] else st_win s in
  let rel := if p =? 0 then [] else match old with Some (_, om) => [ARelease om] | None => [] end in
  let s1 := set_win (set_last s last') buf' in
  match all_some last' with
  | Some full => Some ([ARetain m] ++ rel ++ [ASet s1] ++ zl_drain s last' (tl full) buf')
  | None => Some ([ARetain m] ++ rel ++ [ASet s1])
  end.
Proof. reflexivity. Qed.

Lemma zl_drain_cons s last' others x0 m0 rest :
  zl_drain s last' others ((x0, m0) :: rest) =
  ASet (set_win (set_last s (Some (x0, m0) :: tl last')) rest)
  :: AEmit (VTup (x0 :: map fst others)) (m0 ++ flat_map snd others)
  :: ARelease m0 :: zl_drain s last' others rest.
Proof. reflexivity. Qed.

Lemma zl_drain_outs s last' others b :
  outs (zl_drain s last' others b) =
  map (fun e => (VTup (fst e :: map fst others), snd e ++ flat_map snd others)) b.
Proof.
  induction b as [|[x0 m0] rest IH]; [reflexivity|].
  rewrite zl_drain_cons. cbn [outs map fst snd]. rewrite IH. reflexivity.
Qed.

Lemma zl_drain_state s last' others : forall b s',
  final_state (zl_drain s last' others b) s' =
  match b with
  | [] => s'
  | _ => set_win (set_last s (Some (last b (VNone, [])) :: tl last')) []
  end.
Proof.
  induction b as [|[x0 m0] rest IH]; intros s'; [reflexivity|].
  rewrite zl_drain_cons. cbn [final_state]. rewrite IH.
  destruct rest as [|e r]; reflexivity.
Qed.

Lemma all_some_forallb {A} (l : list (option A)) :
  match all_some l with Some _ => true | None => false end
  = forallb (fun o => match o with Some _ => true | None => false end) l.
Proof.
  induction l as [|[a|] t IH]; cbn [all_some forallb]; try reflexivity.
  destruct (all_some t); cbn [andb]; exact IH.
Qed.

Lemma forallb_map {A B} (f : A -> B) (p : B -> bool) l : forallb p (map f l) = forallb (fun a => p (f a)) l.
Proof. induction l as [|h t IH]; cbn; [reflexivity | rewrite IH; reflexivity]. Qed.

Lemma ready_split arity pre : 1 <= arity ->
  match all_some (latest_all arity pre) with Some _ => true | None => false end
  = delivered pre 0 && others_ready arity pre.
Proof.
  intros Ha. rewrite all_some_forallb. unfold latest_all. rewrite forallb_map.
  destruct arity as [|n]; [lia|]. cbn [seq forallb]. unfold others_ready.
  replace (S n - 1) with n by lia. reflexivity.
Qed.

Lemma delivered_snoc pre a q : delivered (pre ++ [a]) q = (aport a =? q) || delivered pre q.
Proof. unfold delivered. rewrite latest_snoc. destruct (aport a =? q); reflexivity. Qed.

Lemma others_ready_mono arity pre a : others_ready arity pre = true -> others_ready arity (pre ++ [a]) = true.
Proof.
  unfold others_ready. rewrite !forallb_forall. intros H q Hq. rewrite delivered_snoc, (H q Hq). apply orb_true_r.
Qed.

Lemma latest_None pre p : latest pre p = None -> on_port p pre = [].
Proof.
  unfold latest. destruct (rev (on_port p pre)) as [|b r] eqn:E; [|discriminate]. intros _.
  rewrite <- (rev_involutive (on_port p pre)), E. reflexivity.
Qed.

Lemma latest_last pre p d : on_port p pre <> [] -> latest pre p = Some (apair (last (on_port p pre) d)).
Proof.
  intros H. unfold latest. destruct (exists_last H) as [l' [b E]]. rewrite E, rev_app_distr, last_last. reflexivity.
Qed.

Lemma last_map {A B} (f : A -> B) l d : last (map f l) (f d) = f (last l d).
Proof.
  induction l as [|h t IH]; [reflexivity|]. cbn [map]. destruct t as [|h2 t2]; [reflexivity|]. exact IH.
Qed.

Lemma latest_all_cons arity pre : 1 <= arity ->
  latest_all arity pre = latest pre 0 :: tl (latest_all arity pre).
Proof. intros H. destruct arity; [lia|]. reflexivity. Qed.

Lemma zip_latest_step_ok arity s pre a : 1 <= arity -> zl_inv arity s pre ->
  upd_outs KZipLatest s a = zip_latest_step arity pre a /\
  zl_inv arity (upd_state KZipLatest s a) (pre ++ [a]).
Proof.
  intros Ha [HL HW]. rewrite upd_outs_eq, upd_state_eq, zl_update_eq. unfold zip_latest_step. cbn zeta.
  rewrite HL, HW. change (aval a, amd a) with (apair a). rewrite latest_all_snoc.
  set (X := zl_pending arity pre ++ (if aport a =? 0 then [a] else [])).
  assert (Hbuf : (if aport a =? 0 then map apair (zl_pending arity pre) ++ [apair a] else map apair (zl_pending arity pre))
                 = map apair X).
  { unfold X. destruct (aport a =? 0); [rewrite map_app; reflexivity | rewrite app_nil_r; reflexivity]. }
  rewrite Hbuf.
  set (last' := latest_all arity (pre ++ [a])).
  set (rel := if aport a =? 0 then [] else match nth (aport a) (latest_all arity pre) None with Some (_, om) => [ARelease om] | None => [] end).
  assert (Hrel : forall tl0, outs (rel ++ tl0) = outs tl0 /\ forall s0, final_state (rel ++ tl0) s0 = final_state tl0 s0).
  { intros tl0. unfold rel. destruct (aport a =? 0); [split; reflexivity|].
    destruct (nth (aport a) (latest_all arity pre) None) as [[ov om]|]; split; reflexivity. }
  pose proof (ready_split arity (pre ++ [a]) Ha) as Hready. fold last' in Hready.
  destruct (all_some last') as [full|] eqn:Efull.
  - (* every port has delivered: drain *)
    symmetry in Hready. apply andb_true_iff in Hready as [Hd0 Hor].
    cbn [app outs final_state]. destruct (Hrel (ASet (set_win (set_last s last') (map apair X)) :: zl_drain s last' (tl full) (map apair X))) as [O F].
    rewrite O, F. cbn [app outs final_state]. rewrite zl_drain_outs, zl_drain_state. split.
    + rewrite map_map. reflexivity.
    + unfold zl_inv, zl_pending. rewrite Hor. cbn [map].
      destruct (map apair X) as [|e r] eqn:EX; cbn [st_last st_win set_win set_last]; [split; reflexivity|].
      split; [|reflexivity].
      rewrite <- EX. change (VNone, @nil mdi) with (apair arr0). rewrite last_map.
      rewrite (latest_all_cons arity (pre ++ [a]) Ha). fold last'. f_equal.
      assert (HXne : X <> []) by (intros Z; rewrite Z in EX; discriminate).
      rewrite latest_snoc. unfold X in *. destruct (aport a =? 0) eqn:Ep.
      * rewrite last_last. reflexivity.
      * rewrite app_nil_r in *. unfold zl_pending in *. destruct (others_ready arity pre); [contradiction|].
        symmetry. apply latest_last. exact HXne.
  - (* some port is still missing: buffer *)
    symmetry in Hready. cbn [app outs final_state].
    destruct (Hrel [ASet (set_win (set_last s last') (map apair X))]) as [O F]. rewrite O, F.
    cbn [outs final_state]. split; [reflexivity|].
    split; cbn [st_last st_win set_win set_last]; [reflexivity|]. f_equal.
    unfold X, zl_pending.
    destruct (others_ready arity (pre ++ [a])) eqn:Hor.
    + rewrite andb_true_r in Hready. rewrite delivered_snoc in Hready. apply orb_false_iff in Hready as [Hp Hd].
      rewrite Hp, app_nil_r. destruct (others_ready arity pre); [reflexivity|].
      apply latest_None. unfold delivered in Hd. destruct (latest pre 0); [discriminate | reflexivity].
    + destruct (others_ready arity pre) eqn:Hor0; [rewrite (others_ready_mono arity pre a Hor0) in Hor; discriminate|].
      unfold on_port. rewrite filter_app. cbn [filter]. destruct (aport a =? 0); reflexivity.
Qed.

Theorem sem_zip_latest arity l s pre : 1 <= arity -> zl_inv arity s pre ->
  fold_outs KZipLatest s l = zip_latest_sem arity pre l.
Proof.
  intros Ha HI.
  apply (fold_refines KZipLatest (fun _ => True) (zl_inv arity) (zip_latest_step arity)); auto.
  - intros s0 pre0 a _ H0. apply zip_latest_step_ok; assumption.
  - apply Forall_True.
Qed.

Corollary sem_zip_latest_init arity l : 1 <= arity ->
  fold_outs KZipLatest (init_state KZipLatest arity) l = zip_latest_sem arity [] l.
Proof.
  intros Ha. apply sem_zip_latest; [exact Ha|]. split.
  - cbn. symmetry. apply latest_all_nil.
  - unfold zl_pending. cbn [on_port filter]. destruct (others_ready arity []); reflexivity.
Qed.

(* what is still waiting after one more arrival *)
Lemma zl_pending_snoc arity pre a : 1 <= arity ->
  zl_pending arity (pre ++ [a]) =
  match all_some (latest_all arity (pre ++ [a])) with
  | Some _ => []
  | None => zl_pending arity pre ++ (if aport a =? 0 then [a] else [])
  end.
Proof.
  intros Ha. pose proof (ready_split arity (pre ++ [a]) Ha) as Hready.
  destruct (all_some (latest_all arity (pre ++ [a]))) as [full|]; symmetry in Hready.
  - apply andb_true_iff in Hready as [_ Hor]. unfold zl_pending. rewrite Hor. reflexivity.
  - unfold zl_pending. destruct (others_ready arity (pre ++ [a])) eqn:Hor.
    + rewrite andb_true_r in Hready. rewrite delivered_snoc in Hready. apply orb_false_iff in Hready as [Hp Hd].
      rewrite Hp, app_nil_r. destruct (others_ready arity pre); [reflexivity|].
      symmetry. apply latest_None. unfold delivered in Hd. destruct (latest pre 0); [discriminate | reflexivity].
    + destruct (others_ready arity pre) eqn:Hor0; [rewrite (others_ready_mono arity pre a Hor0) in Hor; discriminate|].
      unfold on_port. rewrite filter_app. cbn [filter]. destruct (aport a =? 0); reflexivity.
Qed.

(* lossless: the first components of the outputs, followed by what is still waiting, are exactly
   the port-0 arrivals in order - each emitted once, none lost, none reordered *)
Definition out_head (o : val * md) : val := match fst o with VTup (v :: _) => v | _ => VNone end.

Theorem zip_latest_lossless arity : 1 <= arity -> forall l pre,
  map out_head (zip_latest_sem arity pre l) ++ map aval (zl_pending arity (pre ++ l))
  = map aval (zl_pending arity pre) ++ map aval (on_port 0 l).
Proof.
  intros Ha. unfold zip_latest_sem. induction l as [|a t IH]; intros pre; cbn [prefix_sem map].
  - rewrite !app_nil_r. reflexivity.
  - rewrite map_app, <- app_assoc. replace (pre ++ a :: t) with ((pre ++ [a]) ++ t) by (rewrite <- app_assoc; reflexivity).
    rewrite IH. rewrite (zl_pending_snoc arity pre a Ha). unfold zip_latest_step.
    unfold on_port at 2. cbn [filter]. fold (on_port 0 t).
    destruct (all_some (latest_all arity (pre ++ [a]))) as [full|].
    + rewrite map_map. cbn [map app]. unfold out_head, zl_out. cbn [fst].
      rewrite map_app. destruct (aport a =? 0); cbn [map app]; rewrite <- ?app_assoc; reflexivity.
    + cbn [map app]. rewrite map_app. destruct (aport a =? 0); cbn [map app]; rewrite <- ?app_assoc; reflexivity.
Qed.

Corollary zip_latest_lossless_init arity l : 1 <= arity ->
  map out_head (fold_outs KZipLatest (init_state KZipLatest arity) l) ++ map aval (zl_pending arity l)
  = map aval (on_port 0 l).
Proof.
  intros Ha. rewrite sem_zip_latest_init by exact Ha.
  pose proof (zip_latest_lossless arity Ha l []) as H. cbn [app] in H. rewrite H.
  unfold zl_pending at 1. cbn [on_port filter]. destruct (others_ready arity []); reflexivity.
Qed.

(* ================================================================================== *)
(* State after the fold: the invariants are maintained (buffers = function of the prefix) *)
(* ================================================================================== *)

Lemma sliding_state n partial l s pre : 1 <= n -> sliding_inv n s pre ->
  sliding_inv n (fold_state (KSliding n partial) s l) (pre ++ l).
Proof.
  intros Hn HI.
  apply (fold_refines (KSliding n partial) (fun _ => True) (sliding_inv n) (sliding_step n partial)); auto.
  - intros s0 pre0 a _ H0. apply sliding_step_ok; assumption.
  - apply Forall_True.
Qed.

Lemma unique_state maxsize key l s pre : unique_inv maxsize key s pre ->
  unique_inv maxsize key (fold_state (KUnique maxsize key) s l) (pre ++ l).
Proof.
  intros HI.
  apply (fold_refines (KUnique maxsize key) (fun _ => True) (unique_inv maxsize key) (unique_step maxsize key)); auto.
  - intros s0 pre0 a _ H0. apply unique_step_ok; assumption.
  - apply Forall_True.
Qed.

Lemma combine_latest_state arity emit_on l s pre : latest_inv arity s pre ->
  latest_inv arity (fold_state (KCombineLatest emit_on) s l) (pre ++ l).
Proof.
  intros HI.
  apply (fold_refines (KCombineLatest emit_on) (fun _ => True) (latest_inv arity) (combine_latest_step arity emit_on)); auto.
  - intros s0 pre0 a _ H0. apply combine_latest_step_ok; assumption.
  - apply Forall_True.
Qed.

Lemma partition_key_state n key l s pre : 1 <= n -> partition_key_inv n key s pre ->
  partition_key_inv n key (fold_state (KPartition n (Some key)) s l) (pre ++ l).
Proof.
  intros Hn HI.
  apply (fold_refines (KPartition n (Some key)) (fun _ => True) (partition_key_inv n key) (partition_key_step n key)); auto.
  - intros s0 pre0 a _ H0. apply partition_key_step_ok; assumption.
  - apply Forall_True.
Qed.

Lemma zip_latest_state arity l s pre : 1 <= arity -> zl_inv arity s pre ->
  zl_inv arity (fold_state KZipLatest s l) (pre ++ l).
Proof.
  intros Ha HI.
  apply (fold_refines KZipLatest (fun _ => True) (zl_inv arity) (zip_latest_step arity)); auto.
  - intros s0 pre0 a _ H0. apply zip_latest_step_ok; assumption.
  - apply Forall_True.
Qed.

(* partition_unique: the group left in the buffer *)
Fixpoint part_unique_buf (n : nat) (key : val -> val) (keep_last : bool) (buf l : list arrival) : list arrival :=
  match l with
  | [] => buf
  | a :: t =>
      let buf' := pu_insert key keep_last buf a in
      part_unique_buf n key keep_last (if length buf' =? n then [] else buf') t
  end.

Lemma part_unique_state n key kl : forall l s buf, pu_inv key s buf ->
  pu_inv key (fold_state (KPartUnique n key kl) s l) (part_unique_buf n key kl buf l).
Proof.
  induction l as [|a t IH]; intros s buf HI; cbn [part_unique_buf]; [exact HI|].
  unfold fold_state in *. cbn [fold_left]. apply IH.
  destruct (part_unique_step_ok n key kl s buf a HI) as [_ B]. exact B.
Qed.

(* ---- the group as a function of the arrivals since the last emission -------------------- *)
(* one arrival per key: the first of each key, in order of first occurrence ... *)
Fixpoint firsts_by_key (key : val -> val) (g : list arrival) : list arrival :=
  match g with
  | [] => []
  | a :: t => a :: filter (fun b => negb (val_eqb (key (aval a)) (key (aval b)))) (firsts_by_key key t)
  end.

(* ... or the last of each key, in order of last occurrence *)
Definition lasts_by_key (key : val -> val) (g : list arrival) : list arrival :=
  rev (firsts_by_key key (rev g)).

Lemma filter_filter {A} (f g : A -> bool) l : filter f (filter g l) = filter (fun x => g x && f x) l.
Proof.
  induction l as [|h t IH]; cbn [filter]; [reflexivity|].
  destruct (g h); cbn [filter andb]; [destruct (f h)|]; rewrite IH; reflexivity.
Qed.

Lemma pu_group_first key : forall g buf,
  fold_left (pu_insert key false) g buf =
  buf ++ filter (fun b => negb (mem_val (key (aval b)) (keys_of key buf))) (firsts_by_key key g).
Proof.
  induction g as [|a t IH]; intros buf; cbn [fold_left firsts_by_key filter]; [rewrite app_nil_r; reflexivity|].
  rewrite IH. unfold pu_insert.
  assert (Hm : existsb (fun b => val_eqb (key (aval a)) (key (aval b))) buf = mem_val (key (aval a)) (keys_of key buf)).
  { unfold mem_val, keys_of. induction buf as [|h r IHr]; cbn; [reflexivity | rewrite IHr; reflexivity]. }
  rewrite Hm. rewrite filter_filter.
  destruct (mem_val (key (aval a)) (keys_of key buf)) eqn:E; cbn [negb].
  - f_equal. apply filter_ext_in. intros b _.
    destruct (val_eqb (key (aval a)) (key (aval b))) eqn:Eb; cbn [negb andb]; [|reflexivity].
    apply val_eqb_spec in Eb. rewrite <- Eb, E. reflexivity.
  - rewrite <- app_assoc. cbn [app]. f_equal. f_equal. apply filter_ext. intros b.
    unfold keys_of, mem_val. rewrite map_app, existsb_app. cbn [map existsb].
    rewrite orb_false_r, negb_orb, (val_eqb_sym (key (aval b)) (key (aval a))), andb_comm. reflexivity.
Qed.

Lemma filter_rev' {A} (f : A -> bool) l : filter f (rev l) = rev (filter f l).
Proof.
  induction l as [|h t IH]; cbn [rev filter]; [reflexivity|].
  rewrite filter_app, IH. cbn [filter]. destruct (f h); cbn [rev]; [reflexivity | rewrite app_nil_r; reflexivity].
Qed.

Lemma pu_group_last key g : fold_left (pu_insert key true) g [] = lasts_by_key key g.
Proof.
  induction g as [|a g IH] using rev_ind; [reflexivity|].
  rewrite fold_left_app. cbn [fold_left]. rewrite IH. unfold pu_insert, lasts_by_key.
  rewrite rev_app_distr. cbn [rev app firsts_by_key]. rewrite <- filter_rev'. reflexivity.
Qed.

(* ================================================================================== *)
(* zip_sem is the transposition of the columns, cut at the shortest                    *)
(* ================================================================================== *)

Fixpoint zipn {A} (cs : list (list A)) : list (list A) :=
  match cs with
  | [] => []
  | c :: cs' =>
      match cs' with
      | [] => map (fun x => [x]) c
      | _ => map (fun xr => fst xr :: snd xr) (combine c (zipn cs'))
      end
  end.

Lemma fold_min_swap a b t : Nat.min a (fold_right Nat.min b t) = Nat.min b (fold_right Nat.min a t).
Proof. induction t as [|h t IH]; cbn [fold_right]; lia. Qed.

Lemma minlen_cons {A} (c c2 : list A) cs : minlen (c :: c2 :: cs) = Nat.min (length c) (minlen (c2 :: cs)).
Proof. unfold minlen. cbn [map fold_right]. apply fold_min_swap. Qed.

Lemma map_nth_seq {A B} (f : A -> B) (d : A) : forall c, map (fun i => f (nth i c d)) (seq 0 (length c)) = map f c.
Proof.
  induction c as [|h t IH]; cbn [length seq map]; [reflexivity|].
  cbn [nth]. f_equal. rewrite <- seq_shift, map_map. exact IH.
Qed.

Theorem zipn_rows {A} (d : A) : forall cs, cs <> [] ->
  zipn cs = map (fun i => map (fun c => nth i c d) cs) (seq 0 (minlen cs)).
Proof.
  induction cs as [|c cs IH]; intros H; [contradiction|].
  destruct cs as [|c2 cs'].
  - cbn [zipn]. unfold minlen. cbn [map]. rewrite <- (map_nth_seq (fun x => [x]) d c). reflexivity.
  - change (zipn (c :: c2 :: cs')) with (map (fun xr : A * list A => fst xr :: snd xr) (combine c (zipn (c2 :: cs')))).
    rewrite IH by discriminate. rewrite minlen_cons.
    rewrite (combine_by_index d []), map_length, seq_length, map_map.
    apply map_seq_ext. intros i Hi. cbn [fst snd]. rewrite nth_map_seq by lia. reflexivity.
Qed.

Corollary zip_sem_transpose lits arity l : 1 <= arity ->
  zip_sem lits arity l =
  map (fun row => (VTup (pack_literals lits (map fst row) 0), flat_map snd row)) (zipn (cols arity l)).
Proof.
  intros Ha. rewrite (zipn_rows (VNone, [])).
  - unfold zip_sem. rewrite map_map. reflexivity.
  - unfold cols. destruct arity; [lia|]. discriminate.
Qed.

(* ================================================================================== *)
(* Examples (vm_compute): each meaning on a small input, and agreement with the fold     *)
(* ================================================================================== *)

Definition mk (p : nat) (z : Z) (i : nat) : arrival := (p, VInt z, [{| mid := i; mref := true |}]).
Definition mdr (i : nat) : mdi := {| mid := i; mref := true |}.

(* accumulate with returns_state: f(acc, x) = (acc + x, acc * x); raises on 0; returns a non-pair on 7 *)
Definition ex_f (a x : val) : option val :=
  match a, x with
  | VInt a, VInt x =>
      if (x =? 0)%Z then None else if (x =? 7)%Z then Some (VInt 0)
      else Some (VTup [VInt (a + x); VInt (a * x)])
  | _, _ => None
  end.
Definition ex_l5 := [mk 0 2 1; mk 0 0 2; mk 0 3 3; mk 0 7 4; mk 0 4 5].

Example ex_accum_full :
  scan_full ex_f true true (Some (VInt 1)) ex_l5 =
    [(VTup [VInt 3; VInt 2], [mdr 1]); (VTup [VInt 6; VInt 9], [mdr 3]); (VTup [VInt 10; VInt 24], [mdr 5])]
  /\ fold_outs (KAccum ex_f (Some (VInt 1)) true true) (init_state (KAccum ex_f (Some (VInt 1)) true true) 1) ex_l5
     = scan_full ex_f true true (Some (VInt 1)) ex_l5
  /\ scan_full ex_f true false None ex_l5 = [(VInt 2, [mdr 1]); (VInt 6, [mdr 3]); (VInt 20, [mdr 5])].
Proof. vm_compute. repeat split; reflexivity. Qed.

Definition ex_l4 := [mk 0 10 1; mk 0 20 2; mk 0 30 3; mk 0 40 4].

Example ex_sliding :
  sliding_sem 3 false [] ex_l4 =
    [(VTup [VInt 10; VInt 20; VInt 30], [mdr 1; mdr 2; mdr 3]); (VTup [VInt 20; VInt 30; VInt 40], [mdr 2; mdr 3; mdr 4])]
  /\ sliding_sem 3 true [] ex_l4 =
    [(VTup [VInt 10], [mdr 1]); (VTup [VInt 10; VInt 20], [mdr 1; mdr 2]);
     (VTup [VInt 10; VInt 20; VInt 30], [mdr 1; mdr 2; mdr 3]); (VTup [VInt 20; VInt 30; VInt 40], [mdr 2; mdr 3; mdr 4])]
  /\ fold_outs (KSliding 3 true) (init_state (KSliding 3 true) 1) ex_l4 = sliding_sem 3 true [] ex_l4.
Proof. vm_compute. repeat split; reflexivity. Qed.

(* 1 2 1 3 2 2 with a history of two keys: the repeated 1 is touched, so 3 evicts 2 (not 1) and
   the second 2 passes again; the third 2 is a plain repeat *)
Definition ex_lu := [mk 0 1 1; mk 0 2 2; mk 0 1 3; mk 0 3 4; mk 0 2 5; mk 0 2 6].

Example ex_unique :
  map fst (unique_sem (Some 2) (fun v => v) [] ex_lu) = [VInt 1; VInt 2; VInt 3; VInt 2]
  /\ map fst (unique_sem None (fun v => v) [] ex_lu) = [VInt 1; VInt 2; VInt 3]
  /\ map fst (unique_sem (Some 1) (fun v => v) [] ex_lu) = [VInt 1; VInt 2; VInt 1; VInt 3; VInt 2]
  /\ fold_outs (KUnique (Some 2) (fun v => v)) (init_state (KUnique (Some 2) (fun v => v)) 1) ex_lu
     = unique_sem (Some 2) (fun v => v) [] ex_lu.
Proof. vm_compute. repeat split; reflexivity. Qed.

Definition ex_mod (k : Z) (v : val) : val := match v with VInt z => VInt (z mod k) | _ => VNone end.
Definition ex_lp := [mk 0 1 1; mk 0 2 2; mk 0 4 3; mk 0 3 4; mk 0 5 5; mk 0 6 6; mk 0 7 7].

Example ex_partition_key :
  partition_key_sem 2 (ex_mod 2) [] ex_lp =
    [(VTup [VInt 2; VInt 4], [mdr 2; mdr 3]); (VTup [VInt 1; VInt 3], [mdr 1; mdr 4]); (VTup [VInt 5; VInt 7], [mdr 5; mdr 7])]
  /\ fold_outs (KPartition 2 (Some (ex_mod 2))) (init_state (KPartition 2 (Some (ex_mod 2))) 1) ex_lp
     = partition_key_sem 2 (ex_mod 2) [] ex_lp.
Proof. vm_compute. repeat split; reflexivity. Qed.

Definition ex_lq := [mk 0 1 1; mk 0 4 2; mk 0 2 3; mk 0 3 4; mk 0 6 5; mk 0 7 6].

Example ex_part_unique :
  part_unique_sem 2 (ex_mod 3) true [] ex_lq =
    [(VTup [VInt 4; VInt 2], [mdr 2; mdr 3]); (VTup [VInt 6; VInt 7], [mdr 5; mdr 6])]
  /\ part_unique_sem 2 (ex_mod 3) false [] ex_lq =
    [(VTup [VInt 1; VInt 2], [mdr 1; mdr 3]); (VTup [VInt 3; VInt 7], [mdr 4; mdr 6])]
  /\ fold_outs (KPartUnique 2 (ex_mod 3) true) (init_state (KPartUnique 2 (ex_mod 3) true) 1) ex_lq
     = part_unique_sem 2 (ex_mod 3) true [] ex_lq.
Proof. vm_compute. repeat split; reflexivity. Qed.

Example ex_collect :
  let s := fold_state KCollect (init_state KCollect 1) ex_l4 in
  fold_outs KCollect (init_state KCollect 1) ex_l4 = []
  /\ outs (flush_actions s) = [(VTup [VInt 10; VInt 20; VInt 30; VInt 40], [mdr 1; mdr 2; mdr 3; mdr 4])]
  /\ st_win (final_state (flush_actions s) s) = [].
Proof. vm_compute. repeat split; reflexivity. Qed.

Definition ex_lz := [mk 0 1 1; mk 0 2 2; mk 1 10 3; mk 1 20 4; mk 1 30 5; mk 0 3 6].

Example ex_zip :
  zip_sem [(1, VInt 99)] 2 ex_lz =
    [(VTup [VInt 1; VInt 99; VInt 10], [mdr 1; mdr 3]); (VTup [VInt 2; VInt 99; VInt 20], [mdr 2; mdr 4]);
     (VTup [VInt 3; VInt 99; VInt 30], [mdr 6; mdr 5])]
  /\ fold_outs (KZip [(1, VInt 99)]) (init_state (KZip [(1, VInt 99)]) 2) ex_lz = zip_sem [(1, VInt 99)] 2 ex_lz.
Proof. vm_compute. repeat split; reflexivity. Qed.

Example ex_combine_latest :
  combine_latest_sem 2 (Some [0]) [] ex_lz = [(VTup [VInt 3; VInt 30], [mdr 6; mdr 5])]
  /\ combine_latest_sem 2 None [] ex_lz =
    [(VTup [VInt 2; VInt 10], [mdr 2; mdr 3]); (VTup [VInt 2; VInt 20], [mdr 2; mdr 4]);
     (VTup [VInt 2; VInt 30], [mdr 2; mdr 5]); (VTup [VInt 3; VInt 30], [mdr 6; mdr 5])]
  /\ fold_outs (KCombineLatest None) (init_state (KCombineLatest None) 2) ex_lz = combine_latest_sem 2 None [] ex_lz.
Proof. vm_compute. repeat split; reflexivity. Qed.

Example ex_zip_latest :
  zip_latest_sem 2 [] ex_lz =
    [(VTup [VInt 1; VInt 10], [mdr 1; mdr 3]); (VTup [VInt 2; VInt 10], [mdr 2; mdr 3]); (VTup [VInt 3; VInt 30], [mdr 6; mdr 5])]
  /\ fold_outs KZipLatest (init_state KZipLatest 2) ex_lz = zip_latest_sem 2 [] ex_lz.
Proof. vm_compute. repeat split; reflexivity. Qed.

(* ================================================================================== *)
(* Assumptions                                                                          *)
(* ================================================================================== *)
Print Assumptions sem_accumulate_full.
Print Assumptions sem_sliding.
Print Assumptions sliding_sem_by_index.
Print Assumptions sem_unique.
Print Assumptions unique_unbounded.
Print Assumptions first_occ_keys.
Print Assumptions unique_maxsize_1.
Print Assumptions sem_partition_key.
Print Assumptions partition_key_per_key.
Print Assumptions partition_key_nothing_lost.
Print Assumptions sem_part_unique.
Print Assumptions part_unique_distinct.
Print Assumptions sem_collect.
Print Assumptions collect_flush.
Print Assumptions collect_flush_twice.
Print Assumptions sem_zip_prefix.
Print Assumptions sem_zip.
Print Assumptions sem_zip2.
Print Assumptions zip_sem_transpose.
Print Assumptions sem_combine_latest.
Print Assumptions sem_zip_latest.
Print Assumptions zip_latest_lossless.
Print Assumptions part_unique_state.
Print Assumptions pu_group_first.
Print Assumptions pu_group_last.
Print Assumptions zip_latest_state.
