(* C15: counting deliveries of an emission during which a consumer edits the graph (ORemit).
   Every forwarding node hands what it receives to each child whose edge exists before and after the step.
   The loop of Stream._emit walks the snapshot of the downstream set it took when it started, but before each
   hand-over it tests `downstream not in self.downstreams` on the CURRENT graph: a child detached before it was served
   is skipped; a child attached during the emission is not in the snapshot of the running loop and is served only by
   the emissions that start later.  Consequently no update of a combining node is ever handed an element by a node
   that is not among its inputs: such an emission never raises (reentrant_never_raises), and the untouched siblings
   get the element in flight whatever the edit was (reentrant_untouched_sibling, without any "it returned"
   hypothesis). *)
From Coq Require Import List ZArith Bool Lia Arith Relations.
From SZ Require Import Base.Values Sync.Topology Sync.TopologyProofs.
Import ListNotations.
Close Scope Z_scope.
Open Scope nat_scope.

Definition b2n (b : bool) : nat := if b then 1 else 0.
(* how often node P was handed something / how often P handed something to c *)
Definition cnt_to (P : nat) (l : list tdeliv) : nat :=
  length (filter (fun e : tdeliv => snd (fst e) =? P) l).
Definition cnt_edge (P c : nat) (l : list tdeliv) : nat :=
  length (filter (fun e : tdeliv => (fst (fst e) =? P) && (snd (fst e) =? c)) l).

Lemma cnt_to_app P a b : cnt_to P (a ++ b) = cnt_to P a + cnt_to P b.
Proof. unfold cnt_to. rewrite filter_app, app_length. auto. Qed.
Lemma cnt_edge_app P c a b : cnt_edge P c (a ++ b) = cnt_edge P c a + cnt_edge P c b.
Proof. unfold cnt_edge. rewrite filter_app, app_length. auto. Qed.
Lemma cnt_to_one n d (x : val) P : cnt_to P [(n, d, x)] = b2n (d =? P).
Proof. unfold cnt_to. simpl. destruct (d =? P); auto. Qed.
Lemma cnt_edge_one n d (x : val) P c : cnt_edge P c [(n, d, x)] = b2n ((n =? P) && (d =? c)).
Proof. unfold cnt_edge. simpl. destruct ((n =? P) && (d =? c)); auto. Qed.
Lemma cnt_to_nil P : cnt_to P [] = 0. Proof. reflexivity. Qed.
Lemma cnt_edge_nil P c : cnt_edge P c [] = 0. Proof. reflexivity. Qed.

Definition occ (n P c : nat) (l : list nat) : nat := if n =? P then count_occ Nat.eq_dec l c else 0.

Lemma occ_cons n P c d l : occ n P c (d :: l) = b2n ((n =? P) && (d =? c)) + occ n P c l.
Proof.
  unfold occ. simpl. destruct (n =? P); simpl; auto.
  destruct (Nat.eq_dec d c) as [->|N].
  - rewrite Nat.eqb_refl. auto.
  - apply Nat.eqb_neq in N. rewrite N. auto.
Qed.

(* ---- emission never changes the shape, whatever the state ---- *)
Lemma temit_frame0 : forall f g n x g' l, temit f g n x = (g', l) -> frame g g'.
Proof.
  induction f as [|f IH]; intros g n x g' l E.
  - simpl in E. inversion E; subst. apply frame_refl.
  - rewrite temit_S in E.
    assert (H : forall lst ga la, fold_left (estep f n x) lst (ga, la) = (g', l) -> frame ga g').
    { induction lst as [|d lst IHl]; intros ga la E'; cbn [fold_left] in E'.
      - inversion E'; subst. apply frame_refl.
      - destruct (estep f n x (ga, la) d) as [g1 l1] eqn:E1.
        eapply frame_trans; [|eapply IHl; eauto].
        unfold estep in E1. destruct (tk (tget ga d)) eqn:K.
        + destruct (temit f ga d x) as [g2 l2] eqn:E2. inversion E1; subst. eapply IH; eauto.
        + inversion E1; subst. apply frame_refl.
        + match type of E1 with (if ?c then _ else _) = _ => destruct c end.
          * match type of E1 with (let '(_, _) := temit f ?gg d ?tt in _) = _ => destruct (temit f gg d tt) as [g2 l2] eqn:E2 end.
            inversion E1; subst. eapply frame_trans; [|eapply IH; eauto].
            apply frame_tset. unfold same_shape; simpl; auto 10.
          * inversion E1; subst. apply frame_tset. unfold same_shape; simpl; auto 10.
        + match type of E1 with match ?c with _ => _ end = _ => destruct c as [vs|] end.
          * match type of E1 with (let '(_, _) := temit f ?gg d ?tt in _) = _ => destruct (temit f gg d tt) as [g2 l2] eqn:E2 end.
            inversion E1; subst. eapply frame_trans; [|eapply IH; eauto].
            apply frame_tset. unfold same_shape; simpl; auto 10.
          * inversion E1; subst. apply frame_tset. unfold same_shape; simpl; auto 10.
        + inversion E1; subst. apply frame_refl.
        + match type of E1 with match ?c with _ => _ end = _ => destruct c as [vs|] end; [destruct (n =? trig)|].
          * match type of E1 with (let '(_, _) := temit f ?gg d ?tt in _) = _ => destruct (temit f gg d tt) as [g2 l2] eqn:E2 end.
            inversion E1; subst. eapply frame_trans; [|eapply IH; eauto].
            apply frame_tset. unfold same_shape; simpl; auto 10.
          * inversion E1; subst. apply frame_tset. unfold same_shape; simpl; auto 10.
          * inversion E1; subst. apply frame_tset. unfold same_shape; simpl; auto 10. }
    eapply H; eauto.
Qed.

(* ---- plain emission: every pipe hands what it receives to every child ---- *)
Definition tcspec (f : nat) : Prop :=
  forall g n x g' log, TShape g -> alive g n -> length g <= f + n -> temit f g n x = (g', log) ->
  forall P c, tk (tget g P) = TPipe -> In c (t_downs (tget g P)) ->
  cnt_edge P c log = cnt_to P log + b2n (n =? P).

Lemma tcount_step f g n x ga la d g1 l1 :
  tcspec f -> TShape g -> alive g n -> length g <= S f + n -> In d (t_downs (tget g n)) -> frame g ga ->
  estep f n x (ga, la) d = (g1, l1) ->
  frame g g1 /\
  forall P c, tk (tget g P) = TPipe -> In c (t_downs (tget g P)) ->
  cnt_edge P c l1 + cnt_to P la = cnt_edge P c la + cnt_to P l1 + b2n ((n =? P) && (d =? c)).
Proof.
  intros IH Sh An Fu Hin F E.
  destruct (s_down _ Sh _ _ An Hin) as (Ad & Hup).
  assert (Lt : n < d) by (eapply s_ups_lt; eauto).
  assert (Sha : forall gb, frame g gb -> TShape gb /\ alive gb d /\ length gb <= f + d).
  { intros gb Fb. split; [eapply TShape_frame; eauto|]. split; [apply (fr_alive_iff _ _ _ Fb); auto|].
    rewrite <- (proj1 Fb). lia. }
  assert (REC : forall gb y g2 l2, frame g gb -> temit f gb d y = (g2, l2) ->
            frame g g2 /\ forall P c, tk (tget g P) = TPipe -> In c (t_downs (tget g P)) ->
            cnt_edge P c ((la ++ [(n, d, x)]) ++ l2) + cnt_to P la =
            cnt_edge P c la + cnt_to P ((la ++ [(n, d, x)]) ++ l2) + b2n ((n =? P) && (d =? c))).
  { intros gb y g2 l2 Fb E2. destruct (Sha gb Fb) as (Shb & Adb & Fub).
    split; [eapply frame_trans; eauto using temit_frame0|].
    intros P c KP Hc.
    pose proof (IH gb d y g2 l2 Shb Adb Fub E2 P c) as H.
    rewrite (fr_tk _ _ _ Fb), (fr_downs _ _ _ Fb) in H. specialize (H KP Hc).
    rewrite !cnt_edge_app, !cnt_to_app, cnt_edge_one, cnt_to_one. lia. }
  assert (NOREC : forall P c, tk (tget g P) = TPipe -> tk (tget g d) <> TPipe ->
            cnt_edge P c (la ++ [(n, d, x)]) + cnt_to P la =
            cnt_edge P c la + cnt_to P (la ++ [(n, d, x)]) + b2n ((n =? P) && (d =? c))).
  { intros P c KP Kd. rewrite !cnt_edge_app, !cnt_to_app, cnt_edge_one, cnt_to_one.
    destruct (d =? P) eqn:EP; [apply Nat.eqb_eq in EP; subst; congruence|]. simpl. lia. }
  assert (Kd : tk (tget ga d) = tk (tget g d)) by (apply fr_tk; auto).
  unfold estep in E. destruct (tk (tget ga d)) eqn:K.
  - destruct (temit f ga d x) as [g2 l2] eqn:E2. inversion E; subst. eapply REC; eauto.
  - inversion E; subst. split; auto. intros. apply NOREC; auto. congruence.
  - match type of E with (if ?c then _ else _) = _ => destruct c end.
    + match type of E with (let '(_, _) := temit f ?gg d ?tt in _) = _ => destruct (temit f gg d tt) as [g2 l2] eqn:E2 end.
      inversion E; subst.
      assert (Fb : frame g (tset ga d (zip_pop (with_bufs (tget ga d)
                     (buf_set n (buf_get n (t_bufs (tget ga d)) ++ [x]) (t_bufs (tget ga d))))))).
      { eapply frame_trans; eauto. apply frame_tset. unfold same_shape; simpl; auto 10. }
      destruct (REC _ _ _ _ Fb E2) as (F2 & H2). split; auto.
    + inversion E; subst. split; [|intros; apply NOREC; auto; congruence].
      eapply frame_trans; eauto. apply frame_tset. unfold same_shape; simpl; auto 10.
  - match type of E with match ?c with _ => _ end = _ => destruct c as [vs|] end.
    + match type of E with (let '(_, _) := temit f ?gg d ?tt in _) = _ => destruct (temit f gg d tt) as [g2 l2] eqn:E2 end.
      inversion E; subst.
      match type of E2 with temit f ?gg _ _ = _ => assert (Fb : frame g gg) end.
      { eapply frame_trans; eauto. apply frame_tset. unfold same_shape; simpl; auto 10. }
      destruct (REC _ _ _ _ Fb E2) as (F2 & H2). split; auto.
    + inversion E; subst. split; [|intros; apply NOREC; auto; congruence].
      eapply frame_trans; eauto. apply frame_tset. unfold same_shape; simpl; auto 10.
  - inversion E; subst. split; auto. intros. apply NOREC; auto. congruence.
  - match type of E with match ?c with _ => _ end = _ => destruct c as [vs|] end; [destruct (n =? trig)|].
    + match type of E with (let '(_, _) := temit f ?gg d ?tt in _) = _ => destruct (temit f gg d tt) as [g2 l2] eqn:E2 end.
      inversion E; subst.
      match type of E2 with temit f ?gg _ _ = _ => assert (Fb : frame g gg) end.
      { eapply frame_trans; eauto. apply frame_tset. unfold same_shape; simpl; auto 10. }
      destruct (REC _ _ _ _ Fb E2) as (F2 & H2). split; auto.
    + inversion E; subst. split; [|intros; apply NOREC; auto; congruence].
      eapply frame_trans; eauto. apply frame_tset. unfold same_shape; simpl; auto 10.
    + inversion E; subst. split; [|intros; apply NOREC; auto; congruence].
      eapply frame_trans; eauto. apply frame_tset. unfold same_shape; simpl; auto 10.
Qed.

Lemma tcount_fold f g n x : tcspec f -> TShape g -> alive g n -> length g <= S f + n ->
  forall l ga la g' l', (forall d, In d l -> In d (t_downs (tget g n))) -> frame g ga ->
  fold_left (estep f n x) l (ga, la) = (g', l') ->
  forall P c, tk (tget g P) = TPipe -> In c (t_downs (tget g P)) ->
  cnt_edge P c l' + cnt_to P la = cnt_edge P c la + cnt_to P l' + occ n P c l.
Proof.
  intros IH Sh An Fu. induction l as [|d l IHl]; intros ga la g' l' Hl F E P c KP Hc; cbn [fold_left] in E.
  - inversion E; subst. unfold occ. simpl. destruct (n =? P); lia.
  - destruct (estep f n x (ga, la) d) as [g1 l1] eqn:E1.
    destruct (tcount_step _ _ _ _ _ _ _ _ _ IH Sh An Fu (Hl d (or_introl eq_refl)) F E1) as (F1 & H1).
    specialize (H1 P c KP Hc).
    pose proof (IHl g1 l1 g' l' (fun d' H => Hl d' (or_intror H)) F1 E P c KP Hc) as H2.
    rewrite occ_cons. lia.
Qed.

Lemma occ_nodup n P c l : NoDup l -> In c l -> occ n P c l = b2n (n =? P).
Proof.
  intros Nd Hin. unfold occ. destruct (n =? P); auto.
  simpl. apply NoDup_count_occ'; auto.
Qed.

Lemma temit_tcspec : forall f, tcspec f.
Proof.
  induction f as [|f IH]; intros g n x g' log Sh An Fu E P c KP Hc.
  - apply alive_lt in An. simpl in Fu. lia.
  - rewrite temit_S in E.
    pose proof (tcount_fold f g n x IH Sh An Fu _ _ _ _ _ (fun d H => H) (frame_refl g) E P c KP Hc) as H.
    rewrite cnt_edge_nil, cnt_to_nil in H.
    destruct (n =? P) eqn:EP.
    + apply Nat.eqb_eq in EP. subst P. rewrite occ_nodup in H; auto.
      * rewrite Nat.eqb_refl in H. simpl in *. lia.
      * apply (s_nd_downs _ Sh); auto.
    + unfold occ in H. rewrite EP in H. simpl. lia.
Qed.

(* ---- zip's backlog drain: a sequence of emissions from the zip node ---- *)
Lemma zip_drain_count : forall f g d g' l,
  TShape g -> alive g d -> tk (tget g d) = TZip -> zip_drain f g d = (g', l) ->
  frame g g' /\
  forall P c, tk (tget g P) = TPipe -> In c (t_downs (tget g P)) -> cnt_edge P c l = cnt_to P l.
Proof.
  induction f as [|f IH]; intros g d g' l Sh Ad Kd E.
  - simpl in E. inversion E; subst. split; [apply frame_refl|]. intros; reflexivity.
  - rewrite zip_drain_S in E. destruct (zip_ready (tget g d)).
    + set (g1 := tset g d (zip_pop (tget g d))) in *.
      destruct (temit (S (length g)) g1 d (VTup (zip_heads (tget g d)))) as [g2 l1] eqn:E1.
      destruct (zip_drain f g2 d) as [g3 l2] eqn:E2. inversion E; subst g3 l. clear E.
      assert (F1 : frame g g1) by (apply frame_tset; unfold same_shape; simpl; auto 10).
      assert (F2 : frame g1 g2) by (eapply temit_frame0; eauto).
      assert (F02 : frame g g2) by (eapply frame_trans; eauto).
      assert (Sh1 : TShape g1) by (eapply TShape_frame; eauto).
      assert (Ad1 : alive g1 d) by (apply (fr_alive_iff _ _ _ F1); auto).
      assert (Fu : length g1 <= S (length g) + d) by (rewrite <- (proj1 F1); lia).
      pose proof (temit_tcspec _ g1 d _ g2 l1 Sh1 Ad1 Fu E1) as H1.
      destruct (IH g2 d g' l2) as (F3 & H3); auto.
      * eapply TShape_frame; eauto.
      * apply (fr_alive_iff _ _ _ F02); auto.
      * rewrite (fr_tk _ _ _ F02); auto.
      * split; [eapply frame_trans; eauto|]. intros P c KP Hc.
        specialize (H1 P c). rewrite (fr_tk _ _ _ F1), (fr_downs _ _ _ F1) in H1. specialize (H1 KP Hc).
        specialize (H3 P c). rewrite (fr_tk _ _ _ F02), (fr_downs _ _ _ F02) in H3. specialize (H3 KP Hc).
        rewrite cnt_edge_app, cnt_to_app.
        destruct (d =? P) eqn:EP; [apply Nat.eqb_eq in EP; subst; congruence|]. simpl in H1. lia.
    + inversion E; subst. split; [apply frame_refl|]. intros; reflexivity.
Qed.

(* ---- an edit delivers nothing, except zip pairing the backlog of its remaining inputs ---- *)
Lemma edit_count g e g2 r l :
  TInv0 g -> wf_edit g e -> tedit0 g e = (g2, r, l) ->
  forall P c, tk (tget g2 P) = TPipe -> In c (t_downs (tget g2 P)) -> cnt_edge P c l = cnt_to P l.
Proof.
  intros I W E. destruct e as [u d|u d|n].
  - rewrite tedit0_connect in E. inversion E; subst. reflexivity.
  - rewrite tedit0_disconnect in E. destruct W as ((_ & Au & _) & (_ & Ad & _)).
    destruct (mem d (t_downs (tget g u))) eqn:M; [|inversion E; subst; reflexivity].
    apply mem_spec in M. cbv zeta in E. destruct I as [Sh Da Nw].
    destruct (disconnect_raw g u d Sh Da Au Ad M) as (Sh1 & Da1 & Fl1 & Nw1 & _).
    set (g1 := disconnect_g g u d) in *.
    destruct (tk (tget g1 d)) eqn:K; try (inversion E; subst; reflexivity).
    destruct (zip_drain (S (btotal (t_bufs (tget g1 d)))) g1 d) as [g3 l3] eqn:E3. inversion E; subst.
    assert (Ad1 : alive g1 d) by (apply (flags_kept_alive _ _ _ Fl1); auto).
    destruct (zip_drain_count _ _ _ _ _ Sh1 Ad1 K E3) as (F & H).
    intros P c KP Hc. apply H; [rewrite <- (fr_tk _ _ _ F)|rewrite <- (fr_downs _ _ _ F)]; auto.
  - rewrite tedit0_destroy in E. inversion E; subst. reflexivity.
Qed.

(* ================================================================================================ *)
(* the emission during which a reactive sink edits the graph                                         *)
(* ================================================================================================ *)

(* (the raised flag is kept in the model, faithful to the update methods that would raise for a non-input; it is
   never set in a legal history, see reentrant_never_raises below) *)
Lemma rfold_raised f n x : forall l g p la, fold_left (rstep f n x) l (g, p, true, la) = (g, p, true, la).
Proof. induction l as [|d l IH]; intros; cbn [fold_left]; auto. unfold rstep at 2. apply IH. Qed.

Lemma evolve_between g0 p0 ga pa g' p' P c :
  evolve g0 p0 ga pa -> evolve ga pa g' p' ->
  In c (t_downs (tget g0 P)) -> In c (t_downs (tget g' P)) -> In c (t_downs (tget ga P)).
Proof.
  intros [E1 F1|t e g1 E1 E1' F1 I1 W1 F1'] Ev2 H0 H'.
  - rewrite (fr_downs _ _ _ F1); auto.
  - destruct Ev2 as [E2 F2|t2 e2 g2 E2 E2' F2 I2 W2 F2']; [|congruence].
    rewrite <- (fr_downs _ _ _ F2); auto.
Qed.

Lemma evolve_tk g p g' p' i : evolve g p g' p' -> tk (tget g' i) = tk (tget g i).
Proof. intros Ev. destruct (evolve_flags _ _ _ _ Ev) as (_ & H). apply H. Qed.
Lemma evolve_alive g p g' p' i : evolve g p g' p' -> alive g i -> alive g' i.
Proof. intros Ev A. destruct (evolve_flags _ _ _ _ Ev) as (_ & H). unfold alive. destruct (H i) as (-> & _). auto. Qed.
Lemma evolve_length g p g' p' : evolve g p g' p' -> length g' = length g.
Proof. intros Ev. apply (evolve_flags _ _ _ _ Ev). Qed.

(* the state of a zip / combine_latest node after it took an element keeps the invariant *)
Lemma zip_fire_inv ga d n x :
  TInv0 ga -> tk (tget ga d) = TZip -> In n (map fst (t_bufs (tget ga d))) ->
  let nd := tget ga d in
  let L := buf_get n (t_bufs nd) ++ [x] in
  let nd1 := with_bufs nd (buf_set n L (t_bufs nd)) in
  (length L =? 1) && zip_ready nd1 = true -> TInv0 (tset ga d (zip_pop nd1)).
Proof.
  intros I K M nd L nd1 C.
  assert (Keq : map fst (buf_set n L (t_bufs nd)) = keys nd) by (apply keys_buf_set_in; auto).
  assert (Hk : alive ga d -> NoDup (keys nd) /\ forall u, In u (keys nd) <-> In u (t_ups nd)).
  { intros Ad. destruct (i_data _ I d Ad) as (_ & Hz). apply Hz; auto. }
  apply andb_true_iff in C. destruct C as [C1 C2]. apply Nat.eqb_eq in C1.
  apply TInv0_tset; auto.
  - unfold same_shape; simpl; auto 10.
  - intros Ad. destruct (Hk Ad) as (Nk & Hk'). split; simpl; [unfold nd; nocomb|]. intros _. unfold keys. simpl.
    change (fun kb : nat * list val => (fst kb, tl (snd kb))) with popf.
    rewrite keys_pop, Keq. auto.
  - intros Ad _. destruct (Hk Ad) as (Nk & Hk'). apply zip_ready_false. right. exists n. split; [apply Hk'; exact M|].
    simpl. change (fun kb : nat * list val => (fst kb, tl (snd kb))) with popf.
    rewrite buf_get_pop, buf_get_set_eq.
    unfold L in *. destruct (buf_get n (t_bufs nd)); simpl in *; auto.
    rewrite app_length in C1. simpl in C1. lia.
Qed.

Lemma combine_take_inv ga d n x :
  TInv0 ga -> is_comb (tk (tget ga d)) = true ->
  let nd := tget ga d in
  TInv0 (tset ga d (with_last nd (set_at (index_nat n (t_ups nd)) (Some x) (t_last nd)))).
Proof.
  intros I K nd. apply TInv0_tset; auto.
  - unfold same_shape; simpl; auto 10.
  - intros Ad. split; simpl; [|unfold nd; intros K'; rewrite K' in K; discriminate]. intros _. rewrite set_at_length.
    destruct (i_data _ I d Ad) as (Hc & _). apply Hc; auto.
  - intros _ K'. simpl in K'. unfold nd in K'. rewrite K' in K. discriminate.
Qed.

Definition rcspec (f : nat) : Prop :=
  forall g p n x g' p' log, TInv0 g -> pend_ok g p -> alive g n -> length g <= f + n ->
  rdeliver f g p n x = (g', p', false, log) ->
  forall P c, tk (tget g P) = TPipe -> In c (t_downs (tget g P)) -> In c (t_downs (tget g' P)) ->
  cnt_edge P c log = cnt_to P log + b2n (n =? P).

Lemma rcount_step f n x ga pa la d g1 p1 l1 :
  rcspec f -> TInv0 ga -> pend_ok ga pa -> alive ga d -> length ga <= f + d ->
  rstep f n x (ga, pa, false, la) d = (g1, p1, false, l1) ->
  forall P c, tk (tget ga P) = TPipe -> In c (t_downs (tget ga P)) -> In c (t_downs (tget g1 P)) ->
  cnt_edge P c l1 + cnt_to P la = cnt_edge P c la + cnt_to P l1 + b2n ((n =? P) && (d =? c)).
Proof.
  intros IH I Pd Ad Fu E P c KP Hc Hc1.
  assert (REC : forall gb y l2, frame ga gb -> TInv0 gb -> rdeliver f gb pa d y = (g1, p1, false, l2) ->
            cnt_edge P c ((la ++ [(n, d, x)]) ++ l2) + cnt_to P la =
            cnt_edge P c la + cnt_to P ((la ++ [(n, d, x)]) ++ l2) + b2n ((n =? P) && (d =? c))).
  { intros gb y l2 Fb Ib E2.
    assert (Adb : alive gb d) by (apply (fr_alive_iff _ _ _ Fb); auto).
    assert (Fub : length gb <= f + d) by (rewrite <- (proj1 Fb); auto).
    pose proof (IH gb pa d y g1 p1 l2 Ib (pend_ok_frame _ _ _ Fb Pd) Adb Fub E2 P c) as H.
    rewrite (fr_tk _ _ _ Fb), (fr_downs _ _ _ Fb) in H. specialize (H KP Hc Hc1).
    rewrite !cnt_edge_app, !cnt_to_app, cnt_edge_one, cnt_to_one. lia. }
  assert (NOREC : tk (tget ga d) <> TPipe ->
            cnt_edge P c (la ++ [(n, d, x)]) + cnt_to P la =
            cnt_edge P c la + cnt_to P (la ++ [(n, d, x)]) + b2n ((n =? P) && (d =? c))).
  { intros Kd. rewrite !cnt_edge_app, !cnt_to_app, cnt_edge_one, cnt_to_one.
    destruct (d =? P) eqn:EP; [apply Nat.eqb_eq in EP; subst; congruence|]. simpl. lia. }
  unfold rstep in E.
  destruct (negb (mem d (t_downs (tget ga n)))) eqn:G.
  { (* d was detached since the snapshot: skipped; then (n, d) is not the edge (P, c), which exists in ga *)
    inversion E; subst.
    assert (Z : (n =? P) && (d =? c) = false).
    { destruct (n =? P) eqn:EP; auto. destruct (d =? c) eqn:Ec; auto.
      apply Nat.eqb_eq in EP. apply Nat.eqb_eq in Ec. subst.
      apply negb_true_iff in G. apply mem_false in G. contradiction. }
    rewrite Z. simpl. lia. }
  destruct (tk (tget ga d)) eqn:K.
  - (* pipe *)
    destruct (rdeliver f ga pa d x) as [[[g2 p2] r2] l2] eqn:E2. inversion E; subst.
    apply (REC ga x l2); auto using frame_refl.
  - inversion E; subst. apply NOREC. congruence.
  - (* zip *)
    destruct (mem n (map fst (t_bufs (tget ga d)))) eqn:M; [|inversion E].
    apply mem_spec in M.
    destruct ((length (buf_get n (t_bufs (tget ga d)) ++ [x]) =? 1) &&
              zip_ready (with_bufs (tget ga d) (buf_set n (buf_get n (t_bufs (tget ga d)) ++ [x]) (t_bufs (tget ga d))))) eqn:C.
    + pose proof (zip_fire_inv ga d n x I K M C) as Ib. cbv zeta in Ib.
      match type of E with context [rdeliver f ?gg pa d ?tt] =>
        destruct (rdeliver f gg pa d tt) as [[[g2 p2] r2] l2] eqn:E2 end.
      inversion E; subst.
      eapply REC; eauto. apply frame_tset. unfold same_shape; simpl; auto 10.
    + inversion E; subst. apply NOREC. congruence.
  - (* combine_latest *)
    destruct (mem n (t_ups (tget ga d))) eqn:M; [|inversion E].
    assert (KC : is_comb (tk (tget ga d)) = true) by (rewrite K; reflexivity).
    pose proof (combine_take_inv ga d n x I KC) as Ib. cbv zeta in Ib.
    destruct (all_some_v (set_at (index_nat n (t_ups (tget ga d))) (Some x) (t_last (tget ga d)))) as [vs|].
    + match type of E with context [rdeliver f ?gg pa d ?tt] =>
        destruct (rdeliver f gg pa d tt) as [[[g2 p2] r2] l2] eqn:E2 end.
      inversion E; subst.
      eapply REC; eauto. apply frame_tset. unfold same_shape; simpl; auto 10.
    + inversion E; subst. apply NOREC. congruence.
  - (* reactive sink *)
    destruct pa as [[t e]|]; [|inversion E; subst; apply NOREC; congruence].
    destruct (t =? d); [|inversion E; subst; apply NOREC; congruence].
    simpl in Pd. rewrite (apply_edit_wf _ _ Pd) in E.
    destruct (tedit0 ga e) as [[g2 r2] l2] eqn:E2. inversion E; subst.
    destruct (edit0_ok ga e I Pd) as (_ & _ & Fl). rewrite E2 in Fl. cbn [fst] in Fl.
    assert (KP2 : tk (tget g1 P) = TPipe) by (destruct (Fl P) as (_ & HK & _); rewrite HK; auto).
    pose proof (edit_count ga e g1 r2 l2 I Pd E2 P c KP2 Hc1) as H.
    assert (Kd : TRSink <> TPipe) by congruence. specialize (NOREC Kd).
    rewrite !cnt_edge_app, !cnt_to_app in *. lia.
  - (* combine_latest with an explicit emit_on *)
    destruct (mem n (t_ups (tget ga d))) eqn:M; [|inversion E].
    assert (KC : is_comb (tk (tget ga d)) = true) by (rewrite K; reflexivity).
    pose proof (combine_take_inv ga d n x I KC) as Ib. cbv zeta in Ib.
    destruct (all_some_v (set_at (index_nat n (t_ups (tget ga d))) (Some x) (t_last (tget ga d)))) as [vs|];
      [destruct (n =? trig)|].
    + match type of E with context [rdeliver f ?gg pa d ?tt] =>
        destruct (rdeliver f gg pa d tt) as [[[g2 p2] r2] l2] eqn:E2 end.
      inversion E; subst.
      eapply REC; eauto. apply frame_tset. unfold same_shape; simpl; auto 10.
    + inversion E; subst. apply NOREC. congruence.
    + inversion E; subst. apply NOREC. congruence.
Qed.

Lemma rcount_fold f n x : rcspec f -> forall l g0 p0 ga pa la g' p' l',
  TShape g0 -> alive g0 n -> length g0 <= S f + n -> (forall d, In d l -> In d (t_downs (tget g0 n))) ->
  evolve g0 p0 ga pa -> TInv0 ga -> pend_ok ga pa ->
  fold_left (rstep f n x) l (ga, pa, false, la) = (g', p', false, l') ->
  forall P c, tk (tget g0 P) = TPipe -> In c (t_downs (tget g0 P)) -> In c (t_downs (tget g' P)) ->
  cnt_edge P c l' + cnt_to P la = cnt_edge P c la + cnt_to P l' + occ n P c l.
Proof.
  intros IH. induction l as [|d l IHl]; intros g0 p0 ga pa la g' p' l' Sh An Fu Hl Ev0 I Pd E P c KP Hc0 Hc';
    cbn [fold_left] in E.
  - inversion E; subst. unfold occ. simpl. destruct (n =? P); lia.
  - destruct (rstep f n x (ga, pa, false, la) d) as [[[g1 p1] r1] l1] eqn:E1.
    destruct r1; [rewrite rfold_raised in E; inversion E|].
    destruct (rstep_spec _ _ _ _ _ _ _ _ _ _ _ _ (rdeliver_rspec f) I Pd E1) as (I1 & P1 & Ev1).
    destruct (rfold_spec f n x (rdeliver_rspec f) _ _ _ _ _ _ _ _ _ I1 P1 E) as (_ & _ & Ev2).
    assert (Ev01 : evolve g0 p0 g1 p1) by (eapply evolve_trans; eauto).
    assert (Hca : In c (t_downs (tget ga P))).
    { eapply (evolve_between g0 p0 ga pa g' p'); eauto. eapply evolve_trans; eauto. }
    assert (Hc1 : In c (t_downs (tget g1 P))) by (eapply (evolve_between g0 p0 g1 p1 g' p'); eauto).
    assert (Hd : In d (t_downs (tget g0 n))) by (apply Hl; left; auto).
    destruct (s_down _ Sh _ _ An Hd) as (Ad0 & Hup).
    assert (Lt : n < d) by (eapply s_ups_lt; eauto).
    assert (Ada : alive ga d) by (eapply evolve_alive; eauto).
    assert (Fua : length ga <= f + d) by (rewrite (evolve_length _ _ _ _ Ev0); lia).
    assert (KPa : tk (tget ga P) = TPipe) by (rewrite (evolve_tk _ _ _ _ P Ev0); auto).
    pose proof (rcount_step _ _ _ _ _ _ _ _ _ _ IH I Pd Ada Fua E1 P c KPa Hca Hc1) as H1.
    pose proof (IHl g0 p0 g1 p1 l1 g' p' l' Sh An Fu (fun d' H => Hl d' (or_intror H)) Ev01 I1 P1 E P c KP Hc0 Hc') as H2.
    rewrite occ_cons. lia.
Qed.

Lemma rdeliver_rcspec : forall f, rcspec f.
Proof.
  induction f as [|f IH]; intros g p n x g' p' log I Pd An Fu E P c KP Hc Hc'.
  - apply alive_lt in An. simpl in Fu. lia.
  - rewrite rdeliver_S in E.
    pose proof (rcount_fold f n x IH _ g p g p [] g' p' log (i_shape _ I) An Fu (fun d H => H)
                  (evolve_refl g p) I Pd E P c KP Hc Hc') as H.
    rewrite cnt_edge_nil, cnt_to_nil in H.
    destruct (n =? P) eqn:EP.
    + apply Nat.eqb_eq in EP. subst P. rewrite occ_nodup in H; auto.
      * rewrite Nat.eqb_refl in H. simpl in *. lia.
      * apply (s_nd_downs _ (i_shape _ I)); auto.
    + unfold occ in H. rewrite EP in H. simpl. lia.
Qed.

(* ---- such an emission never raises: a child is handed the element only when it is among the CURRENT downstreams
        of the emitting node, and links are consistent at both ends in every intermediate graph, so the update of a
        zip / combine_latest node always finds the emitting node among its inputs ---- *)
Definition rnspec (f : nat) : Prop :=
  forall g p n x g' p' r log, TInv0 g -> pend_ok g p -> alive g n ->
  rdeliver f g p n x = (g', p', r, log) -> r = false.

Lemma rnever_step f n x ga pa la d g1 p1 r1 l1 :
  rnspec f -> TInv0 ga -> pend_ok ga pa -> alive ga n ->
  rstep f n x (ga, pa, false, la) d = (g1, p1, r1, l1) -> r1 = false.
Proof.
  intros IH I Pd An E. unfold rstep in E.
  destruct (negb (mem d (t_downs (tget ga n)))) eqn:G; [inversion E; auto|].
  apply negb_false_iff in G. apply mem_spec in G.
  destruct (s_down _ (i_shape _ I) _ _ An G) as (Ad & Hup).
  assert (REC : forall gb y g2 p2 r2 l2, frame ga gb -> TInv0 gb -> rdeliver f gb pa d y = (g2, p2, r2, l2) ->
            r2 = false).
  { intros gb y g2 p2 r2 l2 Fb Ib E2. apply (IH gb pa d y g2 p2 r2 l2); auto.
    - eapply pend_ok_frame; eauto.
    - apply (fr_alive_iff _ _ _ Fb); auto. }
  destruct (tk (tget ga d)) eqn:K.
  - (* pipe *)
    destruct (rdeliver f ga pa d x) as [[[g2 p2] r2] l2] eqn:E2. inversion E; subst.
    apply (REC ga x g1 p1 r1 l2); auto using frame_refl.
  - inversion E; auto.
  - (* zip: n is one of the keys of the buffers *)
    assert (M : In n (map fst (t_bufs (tget ga d)))).
    { destruct (i_data _ I d Ad) as (_ & Hz). destruct (Hz K) as (_ & Hk). apply (proj2 (Hk n)). exact Hup. }
    pose proof M as Mb. apply mem_spec in Mb. rewrite Mb in E.
    destruct ((length (buf_get n (t_bufs (tget ga d)) ++ [x]) =? 1) &&
              zip_ready (with_bufs (tget ga d) (buf_set n (buf_get n (t_bufs (tget ga d)) ++ [x]) (t_bufs (tget ga d))))) eqn:C.
    + pose proof (zip_fire_inv ga d n x I K M C) as Ib. cbv zeta in Ib.
      match type of E with context [rdeliver f ?gg pa d ?tt] =>
        destruct (rdeliver f gg pa d tt) as [[[g2 p2] r2] l2] eqn:E2 end.
      inversion E; subst.
      refine (REC _ _ _ _ _ _ _ Ib E2). apply frame_tset. unfold same_shape; simpl; auto 10.
    + inversion E; auto.
  - (* combine_latest: n is one of the inputs *)
    pose proof Hup as Mb. apply mem_spec in Mb. rewrite Mb in E.
    assert (KC : is_comb (tk (tget ga d)) = true) by (rewrite K; reflexivity).
    pose proof (combine_take_inv ga d n x I KC) as Ib. cbv zeta in Ib.
    destruct (all_some_v (set_at (index_nat n (t_ups (tget ga d))) (Some x) (t_last (tget ga d)))) as [vs|].
    + match type of E with context [rdeliver f ?gg pa d ?tt] =>
        destruct (rdeliver f gg pa d tt) as [[[g2 p2] r2] l2] eqn:E2 end.
      inversion E; subst.
      refine (REC _ _ _ _ _ _ _ Ib E2). apply frame_tset. unfold same_shape; simpl; auto 10.
    + inversion E; auto.
  - (* reactive sink *)
    destruct pa as [[t e]|]; [|inversion E; auto].
    destruct (t =? d); [|inversion E; auto].
    destruct (apply_edit ga e) as [[g2 r2] l2]. inversion E; auto.
  - (* combine_latest with an explicit emit_on *)
    pose proof Hup as Mb. apply mem_spec in Mb. rewrite Mb in E.
    assert (KC : is_comb (tk (tget ga d)) = true) by (rewrite K; reflexivity).
    pose proof (combine_take_inv ga d n x I KC) as Ib. cbv zeta in Ib.
    destruct (all_some_v (set_at (index_nat n (t_ups (tget ga d))) (Some x) (t_last (tget ga d)))) as [vs|];
      [destruct (n =? trig)|].
    + match type of E with context [rdeliver f ?gg pa d ?tt] =>
        destruct (rdeliver f gg pa d tt) as [[[g2 p2] r2] l2] eqn:E2 end.
      inversion E; subst.
      refine (REC _ _ _ _ _ _ _ Ib E2). apply frame_tset. unfold same_shape; simpl; auto 10.
    + inversion E; auto.
    + inversion E; auto.
Qed.

Lemma rnever_fold f n x : rnspec f -> forall l ga pa la g' p' r' l',
  TInv0 ga -> pend_ok ga pa -> alive ga n ->
  fold_left (rstep f n x) l (ga, pa, false, la) = (g', p', r', l') -> r' = false.
Proof.
  intros IH. induction l as [|d l IHl]; intros ga pa la g' p' r' l' I Pd An E; cbn [fold_left] in E.
  - inversion E; auto.
  - destruct (rstep f n x (ga, pa, false, la) d) as [[[g1 p1] r1] l1] eqn:E1.
    assert (R1 : r1 = false) by (eapply rnever_step; eauto). subst r1.
    destruct (rstep_spec _ _ _ _ _ _ _ _ _ _ _ _ (rdeliver_rspec f) I Pd E1) as (I1 & P1 & Ev1).
    apply (IHl g1 p1 l1 g' p' r' l'); auto. eapply evolve_alive; eauto.
Qed.

Lemma rdeliver_rnspec : forall f, rnspec f.
Proof.
  induction f as [|f IH]; intros g p n x g' p' r log I Pd An E.
  - simpl in E. inversion E; auto.
  - rewrite rdeliver_S in E. eapply rnever_fold; eauto.
Qed.

(* for any fuel, any graph satisfying the invariant and any legal pending edit *)
Theorem reentrant_never_raises f g p n x g' p' r log :
  TInv0 g -> pend_ok g p -> alive g n -> rdeliver f g p n x = (g', p', r, log) -> r = false.
Proof. apply rdeliver_rnspec. Qed.

Corollary reentrant_step_never_raises g n x t e g' r log :
  reachable g -> wf_op g (ORemit n x t e) -> tstep g (ORemit n x t e) = (g', r, log) -> r = ROk.
Proof.
  intros R W E. pose proof (reachable_inv g R) as I.
  destruct W as ((_ & An & _) & _ & _ & We & _).
  unfold tstep in E. rewrite tstep0_remit in E.
  destruct (rdeliver (S (length g)) g (Some (t, e)) n x) as [[[g1 p1] r1] l] eqn:E1.
  inversion E; subst.
  rewrite (reentrant_never_raises _ g (Some (t, e)) n x g1 p1 r1 log I We An E1). reflexivity.
Qed.

(* ---- headline: the siblings the edit does not touch get the element in flight, whatever the edit was (no
        hypothesis on the result of the step: it is ROk by reentrant_step_never_raises) ---- *)
Theorem reentrant_untouched_sibling g n x t e g' r log :
  reachable g -> wf_op g (ORemit n x t e) -> tstep g (ORemit n x t e) = (g', r, log) ->
  forall P c, tk (tget g P) = TPipe ->
    In c (t_downs (tget g P)) -> t_alive (tget g' P) = true -> In c (t_downs (tget g' P)) ->
    cnt_edge P c log = cnt_to P log + b2n (n =? P).
Proof.
  intros R W E P c KP Hc AP Hc'. pose proof (reachable_inv g R) as I.
  pose proof (reentrant_step_never_raises g n x t e g' r log R W E) as Rk. subst r.
  destruct W as ((_ & An & _) & _ & _ & We & _).
  unfold tstep in E. rewrite tstep0_remit in E.
  destruct (rdeliver (S (length g)) g (Some (t, e)) n x) as [[[g1 p1] r] l] eqn:E1.
  inversion E; subst. destruct r; [discriminate|].
  assert (Fu : length g <= S (length g) + n) by lia.
  apply (rdeliver_rcspec _ g (Some (t, e)) n x g1 p1 log I We An Fu E1 P c KP Hc).
  rewrite tget_collect in AP, Hc'. unfold cnode in *.
  destruct (t_alive (tget g1 P) && mem P (kept g1)); [|simpl in AP; discriminate].
  simpl in Hc'. apply filter_In in Hc'. tauto.
Qed.

(* the same count for a plain emission (no edit): every pipe hands on everything it gets *)
Theorem emit_forwarded_to_every_child g n x g' r log :
  reachable g -> wf_op g (OEmit n x) -> tstep g (OEmit n x) = (g', r, log) ->
  forall P c, tk (tget g P) = TPipe -> In c (t_downs (tget g P)) ->
    cnt_edge P c log = cnt_to P log + b2n (n =? P).
Proof.
  intros R (_ & An & _) E P c KP Hc. pose proof (reachable_inv g R) as [Sh _ _].
  unfold tstep in E. rewrite tstep0_emit in E.
  destruct (temit (S (length g)) g n x) as [g1 l] eqn:E1. inversion E; subst.
  assert (Fu : length g <= S (length g) + n) by lia.
  apply (temit_tcspec _ g n x g1 log Sh An Fu E1 P c KP Hc).
Qed.

(* ---- links stay consistent after such a step; the next emission follows the edited topology ---- *)
Theorem reentrant_links_consistent g n x t e :
  reachable g -> wf_op g (ORemit n x t e) ->
  let g' := step_g g (ORemit n x t e) in
  (forall u d, t_alive (tget g' u) = true -> t_alive (tget g' d) = true ->
     (In d (t_downs (tget g' u)) <-> In u (t_ups (tget g' d)))) /\
  (forall i, t_alive (tget g' i) = true -> NoDup (t_ups (tget g' i)) /\ NoDup (t_downs (tget g' i))) /\
  (forall i j, t_alive (tget g' i) = true -> In j (t_ups (tget g' i)) \/ In j (t_downs (tget g' i)) -> j < length g') /\
  (forall u d, t_alive (tget g' d) = true -> In u (t_ups (tget g' d)) -> u < d) /\
  (forall u d, t_alive (tget g' u) = true -> In d (t_downs (tget g' u)) -> u < d).
Proof. intros R W. apply links_consistent. apply reachable_step; auto. Qed.

(* also at the moment the step ends but before anything is collected: the graph the emission leaves behind satisfies
   the whole invariant (links at both ends, per-input state aligned, no zip wedged); stated for any value of the
   flag r, which is always false (reentrant_never_raises) *)
Theorem reentrant_raw_invariant g n x t e g' p' r log :
  reachable g -> wf_op g (ORemit n x t e) ->
  rdeliver (S (length g)) g (Some (t, e)) n x = (g', p', r, log) -> TInv0 g'.
Proof.
  intros R (_ & _ & _ & We & _) E.
  apply (rdeliver_rspec _ g (Some (t, e)) n x g' p' r log (reachable_inv g R) We E).
Qed.

Theorem reentrant_next_emit_follows_new_topology g n x t e m y g2 r log :
  reachable g -> wf_op g (ORemit n x t e) ->
  let g1 := step_g g (ORemit n x t e) in
  wf_op g1 (OEmit m y) -> tstep g1 (OEmit m y) = (g2, r, log) ->
  r = ROk /\
  (forall s d v, In (s, d, v) log -> t_alive (tget g1 d) = true /\ In d (t_downs (tget g1 s))) /\
  filter (fun e => fst (fst e) =? m) log = map (fun d => (m, d, y)) (t_downs (tget g1 m)).
Proof.
  intros R W g1 W1 E. apply (dropped_branch_silent g1 m y g2 r log); auto. apply reachable_step; auto.
Qed.

(* ---- when nobody edits the graph the test `downstream not in self.downstreams` is vacuous: a re-entrant delivery
        without a pending edit is the plain emission (same final graph, same deliveries, nothing raised) ---- *)
Definition rpspec (f : nat) : Prop :=
  forall g n x g' l, TInv0 g -> alive g n -> temit f g n x = (g', l) -> rdeliver f g None n x = (g', None, false, l).

Lemma evolve_none_frame g g' p' : evolve g None g' p' -> frame g g'.
Proof. intros [E F|t e g1 E]; [auto|discriminate]. Qed.

Lemma rplain_step f n x ga la d g1 l1 :
  rpspec f -> TInv0 ga -> alive ga n -> In d (t_downs (tget ga n)) ->
  estep f n x (ga, la) d = (g1, l1) -> rstep f n x (ga, None, false, la) d = (g1, None, false, l1).
Proof.
  intros IH I An Hin E.
  destruct (s_down _ (i_shape _ I) _ _ An Hin) as (Ad & Hup).
  pose proof Hin as G. apply mem_spec in G.
  assert (REC : forall gb y g2 l2, frame ga gb -> TInv0 gb -> temit f gb d y = (g2, l2) ->
            rdeliver f gb None d y = (g2, None, false, l2)).
  { intros gb y g2 l2 Fb Ib E2. apply IH; auto. apply (fr_alive_iff _ _ _ Fb); auto. }
  unfold estep in E. unfold rstep. rewrite G. cbn [negb].
  destruct (tk (tget ga d)) eqn:K.
  - destruct (temit f ga d x) as [g2 l2] eqn:E2. inversion E; subst.
    rewrite (REC ga x g1 l2 (frame_refl _) I E2). reflexivity.
  - inversion E; subst. reflexivity.
  - assert (M : In n (map fst (t_bufs (tget ga d)))).
    { destruct (i_data _ I d Ad) as (_ & Hz). destruct (Hz K) as (_ & Hk). apply (proj2 (Hk n)). exact Hup. }
    pose proof M as Mb. apply mem_spec in Mb. rewrite Mb.
    destruct ((length (buf_get n (t_bufs (tget ga d)) ++ [x]) =? 1) &&
              zip_ready (with_bufs (tget ga d) (buf_set n (buf_get n (t_bufs (tget ga d)) ++ [x]) (t_bufs (tget ga d))))) eqn:C.
    + pose proof (zip_fire_inv ga d n x I K M C) as Ib. cbv zeta in Ib.
      match type of E with (let '(_, _) := temit f ?gg d ?tt in _) = _ => destruct (temit f gg d tt) as [g2 l2] eqn:E2 end.
      inversion E; subst.
      match type of E2 with temit f ?gg _ _ = _ => assert (Fb : frame ga gg) end.
      { apply frame_tset. unfold same_shape; simpl; auto 10. }
      rewrite (REC _ _ _ _ Fb Ib E2). reflexivity.
    + inversion E; subst. reflexivity.
  - pose proof Hup as Mb. apply mem_spec in Mb. rewrite Mb.
    assert (KC : is_comb (tk (tget ga d)) = true) by (rewrite K; reflexivity).
    pose proof (combine_take_inv ga d n x I KC) as Ib. cbv zeta in Ib.
    destruct (all_some_v (set_at (index_nat n (t_ups (tget ga d))) (Some x) (t_last (tget ga d)))) as [vs|].
    + match type of E with (let '(_, _) := temit f ?gg d ?tt in _) = _ => destruct (temit f gg d tt) as [g2 l2] eqn:E2 end.
      inversion E; subst.
      match type of E2 with temit f ?gg _ _ = _ => assert (Fb : frame ga gg) end.
      { apply frame_tset. unfold same_shape; simpl; auto 10. }
      rewrite (REC _ _ _ _ Fb Ib E2). reflexivity.
    + inversion E; subst. reflexivity.
  - inversion E; subst. reflexivity.
  - pose proof Hup as Mb. apply mem_spec in Mb. rewrite Mb.
    assert (KC : is_comb (tk (tget ga d)) = true) by (rewrite K; reflexivity).
    pose proof (combine_take_inv ga d n x I KC) as Ib. cbv zeta in Ib.
    destruct (all_some_v (set_at (index_nat n (t_ups (tget ga d))) (Some x) (t_last (tget ga d)))) as [vs|];
      [destruct (n =? trig)|].
    + match type of E with (let '(_, _) := temit f ?gg d ?tt in _) = _ => destruct (temit f gg d tt) as [g2 l2] eqn:E2 end.
      inversion E; subst.
      match type of E2 with temit f ?gg _ _ = _ => assert (Fb : frame ga gg) end.
      { apply frame_tset. unfold same_shape; simpl; auto 10. }
      rewrite (REC _ _ _ _ Fb Ib E2). reflexivity.
    + inversion E; subst. reflexivity.
    + inversion E; subst. reflexivity.
Qed.

Lemma rplain_fold f n x : rpspec f -> forall l ga la g' l',
  TInv0 ga -> alive ga n -> (forall d, In d l -> In d (t_downs (tget ga n))) ->
  fold_left (estep f n x) l (ga, la) = (g', l') ->
  fold_left (rstep f n x) l (ga, None, false, la) = (g', None, false, l').
Proof.
  intros IH. induction l as [|d l IHl]; intros ga la g' l' I An Hl E; cbn [fold_left] in *.
  - inversion E; subst. reflexivity.
  - destruct (estep f n x (ga, la) d) as [g1 l1] eqn:E1.
    pose proof (rplain_step _ _ _ _ _ _ _ _ IH I An (Hl d (or_introl eq_refl)) E1) as R1. rewrite R1.
    destruct (rstep_spec f n x ga None false la d g1 None false l1 (rdeliver_rspec f) I Logic.I R1) as (I1 & _ & Ev1).
    pose proof (evolve_none_frame _ _ _ Ev1) as F1.
    apply IHl; auto.
    + apply (fr_alive_iff _ _ _ F1); auto.
    + intros d' Hd'. rewrite (fr_downs _ _ _ F1). apply Hl. right; auto.
Qed.

Lemma rdeliver_rpspec : forall f, rpspec f.
Proof.
  induction f as [|f IH]; intros g n x g' l I An E.
  - simpl in *. inversion E; subst. reflexivity.
  - rewrite temit_S in E. rewrite rdeliver_S. apply rplain_fold; auto.
Qed.

Theorem reentrant_without_edit_is_plain_emit f g n x g' l :
  TInv0 g -> alive g n -> temit f g n x = (g', l) -> rdeliver f g None n x = (g', None, false, l).
Proof. apply rdeliver_rpspec. Qed.

(* ---- non-vacuity: a legal history with two edits made from inside a callback ---- *)
Definition c15r_ops : list top :=
  [ ONew TPipe []; ONew TPipe [0];                          (* 0 source, 1 the parent *)
    ONew TRSink [1]; ONew TSink [1]; ONew TPipe [1]; ONew TSink [4];   (* its children 2 (reactive), 3, 4 (-> 5) *)
    ONew TPipe []; ONew TSink [6];                          (* 6 -> 7: a detached branch *)
    ORemit 0 (VInt 1%Z) 2 (EConnect 4 6);                   (* 2 connects 4 -> 6 while 1 is still handing out 1:
                                                               the _emit of 4 starts afterwards and serves 6 *)
    ORemit 0 (VInt 2%Z) 2 (EDisconnect 1 3);                (* 2 detaches its sibling 3: the running loop of 1 finds
                                                               3 no longer among its downstreams and skips it, 4 is
                                                               untouched and served *)
    OEmit 0 (VInt 3%Z) ].                                   (* follows the new topology: 3 gets nothing *)

Example c15_reentrant_nonvacuous :
  legal [] c15r_ops /\
  map (fun o => (to_raised o, to_deliv o)) (skipn 8 (trun [] c15r_ops)) =
    [ (false, [(0, 1, VInt 1%Z); (1, 2, VInt 1%Z); (1, 3, VInt 1%Z); (1, 4, VInt 1%Z); (4, 5, VInt 1%Z);
               (4, 6, VInt 1%Z); (6, 7, VInt 1%Z)]);
      (false, [(0, 1, VInt 2%Z); (1, 2, VInt 2%Z); (1, 4, VInt 2%Z); (4, 5, VInt 2%Z); (4, 6, VInt 2%Z);
               (6, 7, VInt 2%Z)]);
      (false, [(0, 1, VInt 3%Z); (1, 2, VInt 3%Z); (1, 4, VInt 3%Z); (4, 5, VInt 3%Z); (4, 6, VInt 3%Z);
               (6, 7, VInt 3%Z)]) ] /\
  links_of (run_ops [] c15r_ops) =
    [ (true, [], [1]); (true, [0], [2; 4]); (true, [1], []); (true, [], []); (true, [1], [5; 6]);
      (true, [4], []); (true, [4], [7]); (true, [6], []) ].
Proof.
  split; [apply legalb_sound; vm_compute; reflexivity|]. split; vm_compute; reflexivity.
Qed.

(* the hypotheses of reentrant_untouched_sibling are met by the second edit of that history, for the parent 1 and
   its untouched child 4, and the count is 1 = 1 + 0 *)
Example c15_reentrant_sibling_nonvacuous :
  let g := run_ops [] (firstn 9 c15r_ops) in
  reachable g /\ wf_op g (ORemit 0 (VInt 2%Z) 2 (EDisconnect 1 3)) /\
  exists g' log, tstep g (ORemit 0 (VInt 2%Z) 2 (EDisconnect 1 3)) = (g', ROk, log) /\
    tk (tget g 1) = TPipe /\ In 4 (t_downs (tget g 1)) /\ t_alive (tget g' 1) = true /\ In 4 (t_downs (tget g' 1)) /\
    cnt_edge 1 4 log = 1 /\ cnt_to 1 log = 1 /\
    (* the detached sibling is skipped: it was in the snapshot but is no longer a downstream when its turn comes *)
    In 3 (t_downs (tget g 1)) /\ ~ In 3 (t_downs (tget g' 1)) /\ cnt_edge 1 3 log = 0.
Proof.
  cbv zeta. split.
  - exists (firstn 9 c15r_ops). split; auto. apply legalb_sound. vm_compute. reflexivity.
  - split; [apply wf_opb_sound; vm_compute; reflexivity|].
    eexists. eexists. split; [vm_compute; reflexivity|].
    vm_compute. repeat split; auto. intros [H|[H|[]]]; discriminate.
Qed.

(* ---- the history that was the witness of the defect "detached-input-still-served": the reactive sink 2 detaches the
        zip node 3 from the emitting node 0 while 0 is still handing out the element.  Before the repair the running
        loop served 3 from its snapshot, the update of the zip raised (self.buffers[who] KeyError), the emission
        unwound and the late sibling 5 - whose edge nobody touched - never saw the element (the sibling statement
        was false without "the emission returned").  With the test `downstream not in self.downstreams` the detached
        zip is skipped: the step returns, 3 is not handed the element and 5 gets it ---- *)
Definition c15r_bad_ops : list top :=
  [ ONew TPipe []; ONew TPipe []; ONew TRSink [0]; ONew TZip [0; 1]; ONew TSink [3]; ONew TSink [0] ].

Theorem reentrant_detached_combiner_not_served :
  legal [] c15r_bad_ops /\
  let g := run_ops [] c15r_bad_ops in
  wf_op g (ORemit 0 (VInt 2%Z) 2 (EDisconnect 0 3)) /\
  exists g' log, tstep g (ORemit 0 (VInt 2%Z) 2 (EDisconnect 0 3)) = (g', ROk, log) /\
    tk (tget g 0) = TPipe /\ tk (tget g 3) = TZip /\
    In 3 (t_downs (tget g 0)) /\ ~ In 3 (t_downs (tget g' 0)) /\             (* the zip was a child, and is detached *)
    In 5 (t_downs (tget g 0)) /\ t_alive (tget g' 0) = true /\ In 5 (t_downs (tget g' 0)) /\   (* 5 is untouched *)
    log = [(0, 2, VInt 2%Z); (0, 5, VInt 2%Z)] /\
    cnt_edge 0 3 log = 0 /\                                                   (* the detached zip is NOT served *)
    cnt_edge 0 5 log = 1 /\ cnt_to 0 log + b2n (0 =? 0) = 1.                  (* the late sibling IS served *)
Proof.
  split; [apply legalb_sound; vm_compute; reflexivity|]. cbv zeta.
  split; [apply wf_opb_sound; vm_compute; reflexivity|].
  eexists. eexists. split; [vm_compute; reflexivity|].
  vm_compute. repeat split; auto. intros [H|[H|[]]]; discriminate.
Qed.

(* ================================================================================================ *)
(* combine_latest with an explicit emit_on emits only when that stream delivers                      *)
(* ================================================================================================ *)

(* every hand-over made by such a node z in the log is accounted for: the emission was started at z itself (top), or
   the stream named by emit_on handed z something in the same log *)
Definition trig_ok (K : nat -> tkind) (top : option nat) (l : list tdeliv) : Prop :=
  forall z t c v, K z = TCombineOn t -> In (z, c, v) l -> Some z = top \/ exists w, In (t, z, w) l.

Lemma trig_ok_nil K top : trig_ok K top [].
Proof. intros z t c v _ []. Qed.

Lemma trig_ok_ext K K' top l : (forall z, K' z = K z) -> trig_ok K top l -> trig_ok K' top l.
Proof. intros E H z t c v Kz. rewrite E in Kz. eauto. Qed.

Lemma trig_glue K n d (x : val) la l2 :
  trig_ok K (Some n) la -> trig_ok K (Some d) l2 -> (forall t, K d = TCombineOn t -> n = t) ->
  trig_ok K (Some n) ((la ++ [(n, d, x)]) ++ l2).
Proof.
  intros Ha H2 Hd z t c v Kz Hin. rewrite !in_app_iff in Hin. destruct Hin as [[Hin|Hin]|Hin].
  - destruct (Ha z t c v Kz Hin) as [E|(w & Hw)]; auto. right. exists w. rewrite !in_app_iff. auto.
  - destruct Hin as [Hin|[]]. inversion Hin; subst. auto.
  - destruct (H2 z t c v Kz Hin) as [E|(w & Hw)].
    + inversion E; subst. right. exists x. rewrite (Hd t Kz). rewrite !in_app_iff. simpl. auto.
    + right. exists w. rewrite !in_app_iff. auto.
Qed.

Lemma trig_noglue K n d (x : val) la : trig_ok K (Some n) la -> trig_ok K (Some n) (la ++ [(n, d, x)]).
Proof.
  intros Ha z t c v Kz Hin. rewrite in_app_iff in Hin. destruct Hin as [Hin|[Hin|[]]].
  - destruct (Ha z t c v Kz Hin) as [E|(w & Hw)]; auto. right. exists w. rewrite in_app_iff. auto.
  - inversion Hin; subst. auto.
Qed.

Lemma trig_ok_none K d l : trig_ok K (Some d) l -> (forall t, K d <> TCombineOn t) -> trig_ok K None l.
Proof.
  intros H Hd z t c v Kz Hin. destruct (H z t c v Kz Hin) as [E|E]; auto. inversion E; subst. destruct (Hd t Kz).
Qed.

Lemma trig_ok_none_app K a b : trig_ok K None a -> trig_ok K None b -> trig_ok K None (a ++ b).
Proof.
  intros Ha Hb z t c v Kz Hin. apply in_app_iff in Hin. right.
  destruct Hin as [Hin|Hin]; [destruct (Ha z t c v Kz Hin) as [E|(w & Hw)]|destruct (Hb z t c v Kz Hin) as [E|(w & Hw)]];
    try discriminate; exists w; rewrite in_app_iff; auto.
Qed.

(* the deliveries of an edit (zip pairing its backlog) inserted into a running emission *)
Lemma trig_glue_none K n d (x : val) la l2 :
  trig_ok K (Some n) la -> trig_ok K None l2 -> trig_ok K (Some n) ((la ++ [(n, d, x)]) ++ l2).
Proof.
  intros Ha H2 z t c v Kz Hin. rewrite in_app_iff in Hin. destruct Hin as [Hin|Hin].
  - destruct (trig_noglue K n d x la Ha z t c v Kz Hin) as [E|(w & Hw)]; auto. right. exists w. rewrite in_app_iff. auto.
  - destruct (H2 z t c v Kz Hin) as [E|(w & Hw)]; [discriminate|]. right. exists w. rewrite in_app_iff. auto.
Qed.

Definition ttspec (f : nat) : Prop :=
  forall g n x g' log, temit f g n x = (g', log) -> trig_ok (fun z => tk (tget g z)) (Some n) log.

Lemma ttrig_step f g n x ga la d g1 l1 :
  ttspec f -> frame g ga -> trig_ok (fun z => tk (tget g z)) (Some n) la ->
  estep f n x (ga, la) d = (g1, l1) ->
  frame g g1 /\ trig_ok (fun z => tk (tget g z)) (Some n) l1.
Proof.
  intros IH F Ha E.
  assert (REC : forall gb y g2 l2, frame g gb -> temit f gb d y = (g2, l2) ->
            (forall t, tk (tget g d) = TCombineOn t -> n = t) ->
            frame g g2 /\ trig_ok (fun z => tk (tget g z)) (Some n) ((la ++ [(n, d, x)]) ++ l2)).
  { intros gb y g2 l2 Fb E2 Hd. split; [eapply frame_trans; eauto using temit_frame0|].
    apply trig_glue; auto. apply (trig_ok_ext (fun z => tk (tget gb z))); [|eapply IH; eauto].
    intros z. symmetry. apply (fr_tk _ _ _ Fb). }
  assert (Kd : tk (tget ga d) = tk (tget g d)) by (apply fr_tk; auto).
  assert (FT : forall nd', same_shape (tget ga d) nd' -> frame g (tset ga d nd')).
  { intros nd' S. eapply frame_trans; eauto. apply frame_tset; auto. }
  unfold estep in E. destruct (tk (tget ga d)) eqn:K.
  - destruct (temit f ga d x) as [g2 l2] eqn:E2. inversion E; subst. eapply REC; eauto. intros t Kt. congruence.
  - inversion E; subst. split; auto. apply trig_noglue; auto.
  - match type of E with (if ?c then _ else _) = _ => destruct c end.
    + match type of E with (let '(_, _) := temit f ?gg d ?tt in _) = _ => destruct (temit f gg d tt) as [g2 l2] eqn:E2 end.
      inversion E; subst.
      refine (REC _ _ _ _ _ E2 _); [apply FT; unfold same_shape; simpl; auto 10|intros t Kt; congruence].
    + inversion E; subst. split; [apply FT; unfold same_shape; simpl; auto 10|apply trig_noglue; auto].
  - match type of E with match ?c with _ => _ end = _ => destruct c as [vs|] end.
    + match type of E with (let '(_, _) := temit f ?gg d ?tt in _) = _ => destruct (temit f gg d tt) as [g2 l2] eqn:E2 end.
      inversion E; subst.
      refine (REC _ _ _ _ _ E2 _); [apply FT; unfold same_shape; simpl; auto 10|intros t Kt; congruence].
    + inversion E; subst. split; [apply FT; unfold same_shape; simpl; auto 10|apply trig_noglue; auto].
  - inversion E; subst. split; auto. apply trig_noglue; auto.
  - match type of E with match ?c with _ => _ end = _ => destruct c as [vs|] end; [destruct (n =? trig) eqn:Et|].
    + match type of E with (let '(_, _) := temit f ?gg d ?tt in _) = _ => destruct (temit f gg d tt) as [g2 l2] eqn:E2 end.
      inversion E; subst. apply Nat.eqb_eq in Et.
      refine (REC _ _ _ _ _ E2 _); [apply FT; unfold same_shape; simpl; auto 10|intros t Kt; congruence].
    + inversion E; subst. split; [apply FT; unfold same_shape; simpl; auto 10|apply trig_noglue; auto].
    + inversion E; subst. split; [apply FT; unfold same_shape; simpl; auto 10|apply trig_noglue; auto].
Qed.

Lemma temit_ttspec : forall f, ttspec f.
Proof.
  induction f as [|f IH]; intros g n x g' log E.
  - simpl in E. inversion E; subst. apply trig_ok_nil.
  - rewrite temit_S in E.
    assert (H : forall l ga la, frame g ga -> trig_ok (fun z => tk (tget g z)) (Some n) la ->
              fold_left (estep f n x) l (ga, la) = (g', log) -> trig_ok (fun z => tk (tget g z)) (Some n) log).
    { induction l as [|d l IHl]; intros ga la F Ha E'; cbn [fold_left] in E'.
      - inversion E'; subst. auto.
      - destruct (estep f n x (ga, la) d) as [g1 l1] eqn:E1.
        destruct (ttrig_step _ _ _ _ _ _ _ _ _ IH F Ha E1) as (F1 & H1). eapply IHl; eauto. }
    eapply H; eauto using frame_refl, trig_ok_nil.
Qed.

Lemma zip_drain_trig : forall f g d g' l,
  tk (tget g d) = TZip -> zip_drain f g d = (g', l) ->
  frame g g' /\ trig_ok (fun z => tk (tget g z)) None l.
Proof.
  induction f as [|f IH]; intros g d g' l Kd E.
  - simpl in E. inversion E; subst. split; [apply frame_refl|apply trig_ok_nil].
  - rewrite zip_drain_S in E. destruct (zip_ready (tget g d)).
    + set (g1 := tset g d (zip_pop (tget g d))) in *.
      destruct (temit (S (length g)) g1 d (VTup (zip_heads (tget g d)))) as [g2 l1] eqn:E1.
      destruct (zip_drain f g2 d) as [g3 l2] eqn:E2. inversion E; subst g3 l. clear E.
      assert (F1 : frame g g1) by (apply frame_tset; unfold same_shape; simpl; auto 10).
      assert (F2 : frame g1 g2) by (eapply temit_frame0; eauto).
      assert (F02 : frame g g2) by (eapply frame_trans; eauto).
      destruct (IH g2 d g' l2) as (F3 & H3); auto; [rewrite (fr_tk _ _ _ F02); auto|].
      split; [eapply frame_trans; eauto|]. apply trig_ok_none_app.
      * apply (trig_ok_none _ d); [|intros t; congruence].
        apply (trig_ok_ext (fun z => tk (tget g1 z))); [intros z; symmetry; apply (fr_tk _ _ _ F1)|].
        eapply temit_ttspec; eauto.
      * apply (trig_ok_ext (fun z => tk (tget g2 z))); auto. intros z. symmetry. apply (fr_tk _ _ _ F02).
    + inversion E; subst. split; [apply frame_refl|apply trig_ok_nil].
Qed.

Lemma edit_trig g e g2 r l :
  TInv0 g -> wf_edit g e -> tedit0 g e = (g2, r, l) -> trig_ok (fun z => tk (tget g z)) None l.
Proof.
  intros I W E. destruct e as [u d|u d|n].
  - rewrite tedit0_connect in E. inversion E; subst. apply trig_ok_nil.
  - rewrite tedit0_disconnect in E. destruct W as ((_ & Au & _) & (_ & Ad & _)).
    destruct (mem d (t_downs (tget g u))) eqn:M; [|inversion E; subst; apply trig_ok_nil].
    apply mem_spec in M. cbv zeta in E. destruct I as [Sh Da Nw].
    destruct (disconnect_raw g u d Sh Da Au Ad M) as (Sh1 & Da1 & Fl1 & Nw1 & _).
    set (g1 := disconnect_g g u d) in *.
    destruct (tk (tget g1 d)) eqn:K; try (inversion E; subst; apply trig_ok_nil).
    destruct (zip_drain (S (btotal (t_bufs (tget g1 d)))) g1 d) as [g3 l3] eqn:E3. inversion E; subst.
    destruct (zip_drain_trig _ _ _ _ _ K E3) as (_ & H).
    apply (trig_ok_ext (fun z => tk (tget g1 z))); auto. intros z. symmetry. apply (proj2 Fl1 z).
  - rewrite tedit0_destroy in E. inversion E; subst. apply trig_ok_nil.
Qed.

Definition rtspec (f : nat) : Prop :=
  forall g p n x g' p' r log, TInv0 g -> pend_ok g p -> rdeliver f g p n x = (g', p', r, log) ->
  trig_ok (fun z => tk (tget g z)) (Some n) log.

Lemma rtrig_step f n x ga pa ra la d g1 p1 r1 l1 :
  rtspec f -> TInv0 ga -> pend_ok ga pa -> trig_ok (fun z => tk (tget ga z)) (Some n) la ->
  rstep f n x (ga, pa, ra, la) d = (g1, p1, r1, l1) ->
  trig_ok (fun z => tk (tget ga z)) (Some n) l1.
Proof.
  intros IH I Pd Ha E. unfold rstep in E. destruct ra; [inversion E; subst; auto|].
  destruct (negb (mem d (t_downs (tget ga n)))); [inversion E; subst; auto|].
  assert (REC : forall gb y g2 p2 r2 l2, frame ga gb -> TInv0 gb -> rdeliver f gb pa d y = (g2, p2, r2, l2) ->
            (forall t, tk (tget ga d) = TCombineOn t -> n = t) ->
            trig_ok (fun z => tk (tget ga z)) (Some n) ((la ++ [(n, d, x)]) ++ l2)).
  { intros gb y g2 p2 r2 l2 Fb Ib E2 Hd. apply trig_glue; auto.
    apply (trig_ok_ext (fun z => tk (tget gb z))); [intros z; symmetry; apply (fr_tk _ _ _ Fb)|].
    eapply IH; eauto. eapply pend_ok_frame; eauto. }
  destruct (tk (tget ga d)) eqn:K.
  - destruct (rdeliver f ga pa d x) as [[[g2 p2] r2] l2] eqn:E2. inversion E; subst.
    eapply (REC ga); eauto using frame_refl. intros t Kt. congruence.
  - inversion E; subst. apply trig_noglue; auto.
  - destruct (mem n (map fst (t_bufs (tget ga d)))) eqn:M; [|inversion E; subst; apply trig_noglue; auto].
    apply mem_spec in M.
    destruct ((length (buf_get n (t_bufs (tget ga d)) ++ [x]) =? 1) &&
              zip_ready (with_bufs (tget ga d) (buf_set n (buf_get n (t_bufs (tget ga d)) ++ [x]) (t_bufs (tget ga d))))) eqn:C.
    + pose proof (zip_fire_inv ga d n x I K M C) as Ib. cbv zeta in Ib.
      match type of E with context [rdeliver f ?gg pa d ?tt] =>
        destruct (rdeliver f gg pa d tt) as [[[g2 p2] r2] l2] eqn:E2 end.
      inversion E; subst.
      refine (REC _ _ _ _ _ _ _ Ib E2 _); [apply frame_tset; unfold same_shape; simpl; auto 10|intros t Kt; congruence].
    + inversion E; subst. apply trig_noglue; auto.
  - destruct (mem n (t_ups (tget ga d))) eqn:M; [|inversion E; subst; apply trig_noglue; auto].
    assert (KC : is_comb (tk (tget ga d)) = true) by (rewrite K; reflexivity).
    pose proof (combine_take_inv ga d n x I KC) as Ib. cbv zeta in Ib.
    destruct (all_some_v (set_at (index_nat n (t_ups (tget ga d))) (Some x) (t_last (tget ga d)))) as [vs|].
    + match type of E with context [rdeliver f ?gg pa d ?tt] =>
        destruct (rdeliver f gg pa d tt) as [[[g2 p2] r2] l2] eqn:E2 end.
      inversion E; subst.
      refine (REC _ _ _ _ _ _ _ Ib E2 _); [apply frame_tset; unfold same_shape; simpl; auto 10|intros t Kt; congruence].
    + inversion E; subst. apply trig_noglue; auto.
  - destruct pa as [[t e]|]; [|inversion E; subst; apply trig_noglue; auto].
    destruct (t =? d); [|inversion E; subst; apply trig_noglue; auto].
    simpl in Pd. rewrite (apply_edit_wf _ _ Pd) in E.
    destruct (tedit0 ga e) as [[g2 r2] l2] eqn:E2. inversion E; subst.
    apply trig_glue_none; auto. eapply edit_trig; eauto.
  - destruct (mem n (t_ups (tget ga d))) eqn:M; [|inversion E; subst; apply trig_noglue; auto].
    assert (KC : is_comb (tk (tget ga d)) = true) by (rewrite K; reflexivity).
    pose proof (combine_take_inv ga d n x I KC) as Ib. cbv zeta in Ib.
    destruct (all_some_v (set_at (index_nat n (t_ups (tget ga d))) (Some x) (t_last (tget ga d)))) as [vs|];
      [destruct (n =? trig) eqn:Et|].
    + match type of E with context [rdeliver f ?gg pa d ?tt] =>
        destruct (rdeliver f gg pa d tt) as [[[g2 p2] r2] l2] eqn:E2 end.
      inversion E; subst. apply Nat.eqb_eq in Et.
      refine (REC _ _ _ _ _ _ _ Ib E2 _); [apply frame_tset; unfold same_shape; simpl; auto 10|intros t Kt; congruence].
    + inversion E; subst. apply trig_noglue; auto.
    + inversion E; subst. apply trig_noglue; auto.
Qed.

Lemma rdeliver_rtspec : forall f, rtspec f.
Proof.
  induction f as [|f IH]; intros g p n x g' p' r log I Pd E.
  - simpl in E. inversion E; subst. apply trig_ok_nil.
  - rewrite rdeliver_S in E.
    assert (H : forall l ga pa ra la, evolve g p ga pa -> TInv0 ga -> pend_ok ga pa ->
              trig_ok (fun z => tk (tget g z)) (Some n) la ->
              fold_left (rstep f n x) l (ga, pa, ra, la) = (g', p', r, log) ->
              trig_ok (fun z => tk (tget g z)) (Some n) log).
    { induction l as [|d l IHl]; intros ga pa ra la Ev Ia Pa Ha E'; cbn [fold_left] in E'.
      - inversion E'; subst. auto.
      - destruct (rstep f n x (ga, pa, ra, la) d) as [[[g1 p1] r1] l1] eqn:E1.
        destruct (rstep_spec _ _ _ _ _ _ _ _ _ _ _ _ (rdeliver_rspec f) Ia Pa E1) as (I1 & P1 & Ev1).
        assert (KE : forall z, tk (tget ga z) = tk (tget g z)) by (intros z; eapply evolve_tk; eauto).
        eapply (IHl g1 p1 r1 l1); eauto; [eapply evolve_trans; eauto|].
        apply (trig_ok_ext (fun z => tk (tget ga z))); [intros z; symmetry; apply KE|].
        eapply rtrig_step; eauto. apply (trig_ok_ext (fun z => tk (tget g z))); auto. }
    eapply H; eauto using evolve_refl, trig_ok_nil.
Qed.

(* in ANY step of a legal history: if a combine_latest node z with emit_on = t handed something on, then the program
   emitted directly at z, or t handed z something in that same step *)
Theorem emit_on_only_when_triggered g o g' r log :
  reachable g -> wf_op g o -> tstep g o = (g', r, log) ->
  forall z t c v, tk (tget g z) = TCombineOn t -> In (z, c, v) log ->
  (exists x, o = OEmit z x) \/ (exists x t' e, o = ORemit z x t' e) \/ exists w, In (t, z, w) log.
Proof.
  intros R W E z t c v Kz Hin. pose proof (reachable_inv g R) as I.
  unfold tstep in E. destruct (tstep0 g o) as [[g0 r0] l0] eqn:E0. inversion E; subst. clear E.
  assert (NONE : trig_ok (fun z => tk (tget g z)) None log -> exists w, In (t, z, w) log).
  { intros H. destruct (H z t c v Kz Hin) as [E|E]; [discriminate|auto]. }
  destruct o as [k ups|n x|u d|u d|n|n|n x t' e].
  - rewrite tstep0_new in E0. inversion E0; subst. destruct Hin.
  - rewrite tstep0_emit in E0. destruct (temit (S (length g)) g n x) as [g1 l1] eqn:E1. inversion E0; subst.
    destruct (temit_ttspec _ _ _ _ _ _ E1 z t c v Kz Hin) as [E|E]; eauto. inversion E; subst. eauto.
  - right. right. apply NONE. eapply (edit_trig g (EConnect u d)); eauto.
  - right. right. apply NONE. eapply (edit_trig g (EDisconnect u d)); eauto.
  - right. right. apply NONE. eapply (edit_trig g (EDestroy n)); eauto.
  - rewrite tstep0_drop in E0. inversion E0; subst. destruct Hin.
  - rewrite tstep0_remit in E0. destruct W as (_ & _ & _ & We & _).
    destruct (rdeliver (S (length g)) g (Some (t', e)) n x) as [[[g1 p1] r1] l1] eqn:E1. inversion E0; subst.
    destruct (rdeliver_rtspec _ g (Some (t', e)) n x g0 p1 r1 log I We E1 z t c v Kz Hin) as [E|E]; eauto.
    inversion E; subst. eauto 10.
Qed.

(* non-vacuity: combine_latest(a, b, emit_on=a) through connect / disconnect of other inputs and of the trigger *)
Definition c15on_ops : list top :=
  [ ONew TPipe []; ONew TPipe []; ONew TPipe []; ONew (TCombineOn 0) [0; 1]; ONew TSink [3];
    OEmit 1 (VInt 10%Z);                 (* b alone: nothing *)
    OEmit 0 (VInt 1%Z);                  (* the trigger: (1, 10) *)
    OEmit 1 (VInt 20%Z);                 (* b again: stored, not emitted *)
    OConnect 2 3; OEmit 0 (VInt 2%Z);    (* a new input c: the node waits for it, even when the trigger delivers *)
    OEmit 2 (VInt 7%Z);                  (* c delivers: complete, but c is not the trigger *)
    OEmit 0 (VInt 3%Z);                  (* (3, 20, 7) *)
    ODisconnect 1 3; OEmit 0 (VInt 4%Z); (* b's slot is gone: (4, 7) *)
    ODisconnect 0 3; OEmit 2 (VInt 8%Z); (* the trigger input is gone: the node never emits again *)
    ODrop 0; ODrop 1 ].                  (* a stays alive (emit_on references it), b is collected *)

Example c15_emit_on_nonvacuous :
  legal [] c15on_ops /\
  map (fun o => (to_raised o, to_deliv o)) (skipn 5 (trun [] c15on_ops)) =
    [ (false, [(1, 3, VInt 10%Z)]);
      (false, [(0, 3, VInt 1%Z); (3, 4, VTup [VInt 1%Z; VInt 10%Z])]);
      (false, [(1, 3, VInt 20%Z)]); (false, []);
      (false, [(0, 3, VInt 2%Z)]); (false, [(2, 3, VInt 7%Z)]);
      (false, [(0, 3, VInt 3%Z); (3, 4, VTup [VInt 3%Z; VInt 20%Z; VInt 7%Z])]);
      (false, []);
      (false, [(0, 3, VInt 4%Z); (3, 4, VTup [VInt 4%Z; VInt 7%Z])]);
      (false, []); (false, [(2, 3, VInt 8%Z)]); (false, []); (false, []) ] /\
  links_of (run_ops [] c15on_ops) =
    [ (true, [], []); (false, [], []); (true, [], [3]); (true, [2], [4]); (true, [3], []) ].
Proof.
  split; [apply legalb_sound; vm_compute; reflexivity|]. split; vm_compute; reflexivity.
Qed.

Print Assumptions reentrant_never_raises.
Print Assumptions reentrant_step_never_raises.
Print Assumptions reentrant_untouched_sibling.
Print Assumptions emit_forwarded_to_every_child.
Print Assumptions reentrant_links_consistent.
Print Assumptions reentrant_raw_invariant.
Print Assumptions reentrant_next_emit_follows_new_topology.
Print Assumptions reentrant_without_edit_is_plain_emit.
Print Assumptions c15_reentrant_nonvacuous.
Print Assumptions c15_reentrant_sibling_nonvacuous.
Print Assumptions reentrant_detached_combiner_not_served.
Print Assumptions emit_on_only_when_triggered.
Print Assumptions c15_emit_on_nonvacuous.
