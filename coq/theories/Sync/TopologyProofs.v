(* C15: proofs about the dynamic-topology model (Topology.v). *)
From Coq Require Import List ZArith Bool Lia Arith Relations.
From SZ Require Import Base.Values Sync.Topology.
Import ListNotations.
Close Scope Z_scope.
Open Scope nat_scope.

(* ================================================================================================ *)
(* Part 0: lists, tget / tset                                                                        *)
(* ================================================================================================ *)

Lemma tset_length g i n : length (tset g i n) = length g.
Proof. revert i; induction g; intros [|i]; simpl; auto. Qed.

Lemma tget_tset_eq g i n : i < length g -> tget (tset g i n) i = n.
Proof.
  unfold tget; revert i; induction g; intros [|i] H; simpl in *; try lia; auto.
  apply IHg; lia.
Qed.

Lemma tget_tset_neq g i j n : i <> j -> tget (tset g i n) j = tget g j.
Proof.
  unfold tget; revert i j; induction g; intros [|i] [|j] H; simpl; auto; try congruence.
Qed.

Lemma tset_overflow g i n : length g <= i -> tset g i n = g.
Proof.
  revert i; induction g; intros [|i] H; simpl in *; auto; try lia.
  f_equal. apply IHg; lia.
Qed.

Lemma tget_overflow g i : length g <= i -> tget g i = dead_node.
Proof. intros; unfold tget; apply nth_overflow; auto. Qed.

Definition alive (g : tgraph) (i : nat) : Prop := t_alive (tget g i) = true.

Lemma alive_lt g i : alive g i -> i < length g.
Proof.
  unfold alive; intros H. destruct (lt_dec i (length g)); auto.
  rewrite tget_overflow in H by lia. discriminate.
Qed.

Lemma mem_spec x l : mem x l = true <-> In x l.
Proof.
  unfold mem. rewrite existsb_exists. split.
  - intros (y & Hy & E). apply Nat.eqb_eq in E. subst; auto.
  - intros H. exists x. split; auto. apply Nat.eqb_refl.
Qed.

Lemma mem_false x l : mem x l = false <-> ~ In x l.
Proof.
  rewrite <- mem_spec. destruct (mem x l); split; intros; try congruence; auto.
Qed.

Lemma forallb_false {A} (f : A -> bool) l :
  forallb f l = false <-> exists x, In x l /\ f x = false.
Proof.
  induction l; simpl.
  - split; [discriminate | intros (x & [] & _)].
  - rewrite andb_false_iff, IHl. split.
    + intros [H | (x & H1 & H2)]; eauto.
    + intros (x & [-> | H1] & H2); eauto.
Qed.

(* ---- remove_first ---- *)
Lemma remove_first_In x y l : In x (remove_first y l) -> In x l.
Proof.
  induction l; simpl; auto. destruct (a =? y); simpl; intuition.
Qed.

Lemma remove_first_In_iff x y l : NoDup l -> (In x (remove_first y l) <-> In x l /\ x <> y).
Proof.
  induction 1 as [|a l Ha Hl IH]; simpl.
  - tauto.
  - destruct (a =? y) eqn:E.
    + apply Nat.eqb_eq in E. subst. split.
      * intros H. split; auto. intros ->; auto.
      * intros [[->|H] N]; auto. congruence.
    + apply Nat.eqb_neq in E. simpl. rewrite IH. split.
      * intros [->|[H N]]; auto.
      * intros [[->|H] N]; auto.
Qed.

Lemma remove_first_NoDup y l : NoDup l -> NoDup (remove_first y l).
Proof.
  induction 1 as [|a l Ha Hl IH]; simpl; [constructor|].
  destruct (a =? y); auto. constructor; auto.
  intros H; apply Ha. eapply remove_first_In; eauto.
Qed.

Lemma remove_first_length y l : In y l -> S (length (remove_first y l)) = length l.
Proof.
  induction l; simpl; [tauto|]. intros H.
  destruct (a =? y) eqn:E; auto. apply Nat.eqb_neq in E. simpl.
  destruct H; [congruence|]. rewrite IHl; auto.
Qed.

Lemma remove_first_notin y l : ~ In y l -> remove_first y l = l.
Proof.
  induction l; simpl; auto. intros H.
  destruct (a =? y) eqn:E.
  - apply Nat.eqb_eq in E. subst. tauto.
  - f_equal. apply IHl. tauto.
Qed.

Lemma index_nat_lt x l : In x l -> index_nat x l < length l.
Proof.
  induction l; simpl; [tauto|]. intros H.
  destruct (a =? x) eqn:E; [lia|]. apply Nat.eqb_neq in E.
  destruct H; [congruence|]. apply IHl in H. lia.
Qed.

Lemma remove_at_length {A} i (l : list A) : i < length l -> S (length (remove_at i l)) = length l.
Proof.
  revert i; induction l; intros [|i] H; simpl in *; try lia. rewrite IHl; lia.
Qed.

Lemma set_at_length {A} i (x : A) l : length (set_at i x l) = length l.
Proof. revert i; induction l; intros [|i]; simpl; auto. Qed.

Lemma NoDup_app_single (l : list nat) x : NoDup l -> ~ In x l -> NoDup (l ++ [x]).
Proof.
  induction 1; simpl; intros N.
  - constructor; auto. constructor.
  - constructor.
    + rewrite in_app_iff; simpl. intuition.
    + apply IHNoDup. tauto.
Qed.

(* ---- zip buffers ---- *)
Lemma buf_get_set_eq u l b : buf_get u (buf_set u l b) = l.
Proof.
  induction b as [|[k l0] b IH]; simpl.
  - rewrite Nat.eqb_refl; auto.
  - destruct (k =? u) eqn:E; simpl; rewrite E; auto.
Qed.

Lemma buf_get_set_neq u k l b : u <> k -> buf_get k (buf_set u l b) = buf_get k b.
Proof.
  intros N. induction b as [|[k0 l0] b IH]; simpl.
  - destruct (u =? k) eqn:E; auto. apply Nat.eqb_eq in E; congruence.
  - destruct (k0 =? u) eqn:E; simpl.
    + apply Nat.eqb_eq in E. subst. destruct (u =? k) eqn:E2; auto.
      apply Nat.eqb_eq in E2; congruence.
    + destruct (k0 =? k); auto.
Qed.

Lemma keys_buf_set_in u l b : In u (map fst b) -> map fst (buf_set u l b) = map fst b.
Proof.
  induction b as [|[k l0] b IH]; simpl; [tauto|]. intros H.
  destruct (k =? u) eqn:E; simpl; auto. apply Nat.eqb_neq in E.
  f_equal. apply IH. destruct H; congruence.
Qed.

Lemma keys_buf_set_notin u l b : ~ In u (map fst b) -> map fst (buf_set u l b) = map fst b ++ [u].
Proof.
  induction b as [|[k l0] b IH]; simpl; auto. intros H.
  destruct (k =? u) eqn:E; simpl.
  - apply Nat.eqb_eq in E. tauto.
  - f_equal. apply IH. tauto.
Qed.

Definition popf (kb : nat * list val) : nat * list val := (fst kb, tl (snd kb)).

Lemma buf_get_pop u b : buf_get u (map popf b) = tl (buf_get u b).
Proof.
  induction b as [|[k l0] b IH]; simpl; auto. destruct (k =? u); auto.
Qed.

Lemma keys_pop b : map fst (map popf b) = map fst b.
Proof. rewrite map_map. apply map_ext. intros [k l]; auto. Qed.

Lemma keys_buf_del u b : map fst (buf_del u b) = remove_first u (map fst b).
Proof.
  induction b as [|[k l0] b IH]; simpl; auto. destruct (k =? u); simpl; congruence.
Qed.

Lemma buf_get_del_neq u k b : u <> k -> buf_get k (buf_del u b) = buf_get k b.
Proof.
  intros N. induction b as [|[k0 l0] b IH]; simpl; auto.
  destruct (k0 =? u) eqn:E; simpl.
  - apply Nat.eqb_eq in E. subst. destruct (u =? k) eqn:E2; auto.
    apply Nat.eqb_eq in E2; congruence.
  - destruct (k0 =? k); auto.
Qed.

Lemma buf_get_new u ups : buf_get u (map (fun u => (u, @nil val)) ups) = [].
Proof. induction ups; simpl; auto. destruct (a =? u); auto. Qed.

Definition btotal (b : list (nat * list val)) : nat := length (flat_map snd b).

Lemma btotal_pop_le b : btotal (map popf b) <= btotal b.
Proof.
  unfold btotal. induction b as [|[k l] b IH]; simpl; auto.
  rewrite !app_length. destruct l; simpl; lia.
Qed.

Lemma btotal_pop_lt u b : buf_get u b <> [] -> btotal (map popf b) < btotal b.
Proof.
  induction b as [|[k l] b IH]; simpl; [congruence|].
  intros H. pose proof (btotal_pop_le b) as L. unfold btotal in *. simpl.
  rewrite !app_length. destruct (k =? u).
  - destruct l; simpl; [congruence | lia].
  - specialize (IH H). destruct l; simpl; lia.
Qed.

(* ---- zip_ready ---- *)
Lemma zip_ready_false nd :
  zip_ready nd = false <-> t_ups nd = [] \/ exists u, In u (t_ups nd) /\ buf_get u (t_bufs nd) = [].
Proof.
  unfold zip_ready. destruct (t_ups nd) as [|a l] eqn:E.
  - simpl. split; auto.
  - rewrite <- E. replace (negb match t_ups nd with [] => true | _ :: _ => false end) with true by (rewrite E; auto).
    rewrite andb_true_l, forallb_false. split.
    + intros (u & H1 & H2). right. exists u. split; auto.
      destruct (buf_get u (t_bufs nd)); auto; discriminate.
    + intros [H | (u & H1 & H2)]; [rewrite E in H; discriminate|].
      exists u. split; auto. rewrite H2. auto.
Qed.

Lemma zip_ready_true nd :
  zip_ready nd = true -> t_ups nd <> [] /\ forall u, In u (t_ups nd) -> buf_get u (t_bufs nd) <> [].
Proof.
  intros H. split.
  - intros E. assert (zip_ready nd = false) by (apply zip_ready_false; auto). congruence.
  - intros u Hu E. assert (zip_ready nd = false) by (apply zip_ready_false; eauto). congruence.
Qed.

(* ================================================================================================ *)
(* Part 1: invariants                                                                                *)
(* ================================================================================================ *)

(* structural invariant: links stored at both ends agree, no duplicates, edges go up *)
Record TShape (g : tgraph) : Prop := {
  s_ups_lt : forall d u, alive g d -> In u (t_ups (tget g d)) -> u < d;
  s_nd_ups : forall i, alive g i -> NoDup (t_ups (tget g i));
  s_nd_downs : forall i, alive g i -> NoDup (t_downs (tget g i));
  s_down : forall u d, alive g u -> In d (t_downs (tget g u)) -> alive g d /\ In u (t_ups (tget g d));
  s_up : forall u d, alive g d -> In u (t_ups (tget g d)) -> alive g u /\ In d (t_downs (tget g u));
  s_trig : forall d t, alive g d -> tk (tget g d) = TCombineOn t -> alive g t;   (* emit_on holds its stream *)
}.

Definition keys (nd : tnode) : list nat := map fst (t_bufs nd).

(* per-node state of the combining nodes is aligned with the current inputs *)
Definition is_comb (k : tkind) : bool := match k with TCombine | TCombineOn _ => true | _ => false end.
Definition ndata (nd : tnode) : Prop :=
  (is_comb (tk nd) = true -> length (t_last nd) = length (t_ups nd)) /\
  (tk nd = TZip -> NoDup (keys nd) /\ forall u, In u (keys nd) <-> In u (t_ups nd)).
Ltac nocomb :=
  let H := fresh "HC" in
  intros H; exfalso; simpl in H; match goal with K : tk _ = _ |- _ => rewrite K in H; discriminate H end.
Definition nnw (nd : tnode) : Prop := tk nd = TZip -> zip_ready nd = false.

Definition TData (g : tgraph) : Prop := forall i, alive g i -> ndata (tget g i).
Definition TNW (g : tgraph) : Prop := forall i, alive g i -> nnw (tget g i).
Definition NWabove (n : nat) (g : tgraph) : Prop := forall i, n < i -> alive g i -> nnw (tget g i).

Record TInv0 (g : tgraph) : Prop := {
  i_shape : TShape g;
  i_data : TData g;
  i_nw : TNW g;
}.

(* ---- frames: only t_bufs / t_last may differ ---- *)
Definition same_shape (a b : tnode) : Prop :=
  tk a = tk b /\ t_ups a = t_ups b /\ t_downs a = t_downs b /\
  t_held a = t_held b /\ t_reg a = t_reg b /\ t_alive a = t_alive b.
Definition frame (g g' : tgraph) : Prop :=
  length g = length g' /\ forall i, same_shape (tget g i) (tget g' i).

Lemma same_shape_refl a : same_shape a a.
Proof. unfold same_shape; auto 10. Qed.
Lemma same_shape_trans a b c : same_shape a b -> same_shape b c -> same_shape a c.
Proof. unfold same_shape; intuition congruence. Qed.

Lemma frame_refl g : frame g g.
Proof. split; auto using same_shape_refl. Qed.
Lemma frame_trans a b c : frame a b -> frame b c -> frame a c.
Proof.
  intros [L1 H1] [L2 H2]. split; [congruence|]. intros i. eapply same_shape_trans; eauto.
Qed.

Lemma frame_tset g d nd : same_shape (tget g d) nd -> frame g (tset g d nd).
Proof.
  intros H. split; [rewrite tset_length; auto|]. intros i.
  destruct (Nat.eq_dec d i) as [->|N].
  - destruct (lt_dec i (length g)).
    + rewrite tget_tset_eq; auto.
    + rewrite tset_overflow by lia. apply same_shape_refl.
  - rewrite tget_tset_neq; auto. apply same_shape_refl.
Qed.

Lemma fr_alive g g' i : frame g g' -> t_alive (tget g' i) = t_alive (tget g i).
Proof. intros [_ H]. destruct (H i) as (?&?&?&?&?&?); auto. Qed.
Lemma fr_ups g g' i : frame g g' -> t_ups (tget g' i) = t_ups (tget g i).
Proof. intros [_ H]. destruct (H i) as (?&?&?&?&?&?); auto. Qed.
Lemma fr_downs g g' i : frame g g' -> t_downs (tget g' i) = t_downs (tget g i).
Proof. intros [_ H]. destruct (H i) as (?&?&?&?&?&?); auto. Qed.
Lemma fr_tk g g' i : frame g g' -> tk (tget g' i) = tk (tget g i).
Proof. intros [_ H]. destruct (H i) as (?&?&?&?&?&?); auto. Qed.
Lemma fr_held g g' i : frame g g' -> t_held (tget g' i) = t_held (tget g i).
Proof. intros [_ H]. destruct (H i) as (?&?&?&?&?&?); auto. Qed.
Lemma fr_reg g g' i : frame g g' -> t_reg (tget g' i) = t_reg (tget g i).
Proof. intros [_ H]. destruct (H i) as (?&?&?&?&?&?); auto. Qed.

Lemma fr_alive_iff g g' i : frame g g' -> (alive g' i <-> alive g i).
Proof. intros F. unfold alive. rewrite (fr_alive _ _ _ F). tauto. Qed.

Lemma TShape_frame g g' : frame g g' -> TShape g -> TShape g'.
Proof.
  intros F [A B C D E T]. constructor; unfold alive in *; intros *;
    rewrite ?(fr_alive _ _ _ F), ?(fr_ups _ _ _ F), ?(fr_downs _ _ _ F), ?(fr_tk _ _ _ F); eauto.
Qed.

(* a node update that keeps the shape and re-establishes the node-level data invariant *)
Lemma TData_tset g d nd : TData g -> (alive g d -> ndata nd) -> same_shape (tget g d) nd -> TData (tset g d nd).
Proof.
  intros H Hn S i Hi. destruct (Nat.eq_dec d i) as [->|N].
  - destruct (lt_dec i (length g)).
    + rewrite tget_tset_eq; auto. apply Hn.
      unfold alive in *. rewrite tget_tset_eq in Hi; auto. destruct S as (?&?&?&?&?&?); congruence.
    + rewrite tset_overflow in * by lia. auto.
  - unfold alive in *. rewrite tget_tset_neq in *; auto.
Qed.

Lemma NWabove_tset n g d nd :
  NWabove n g -> (alive g d -> nnw nd) -> same_shape (tget g d) nd -> NWabove n (tset g d nd).
Proof.
  intros H Hn S i Lt Hi. destruct (Nat.eq_dec d i) as [->|N].
  - destruct (lt_dec i (length g)).
    + rewrite tget_tset_eq; auto. apply Hn.
      unfold alive in *. rewrite tget_tset_eq in Hi; auto. destruct S as (?&?&?&?&?&?); congruence.
    + rewrite tset_overflow in * by lia. auto.
  - unfold alive in *. rewrite tget_tset_neq in *; auto.
Qed.

Lemma NWabove_mono n m g : n <= m -> NWabove n g -> NWabove m g.
Proof. intros L H i Lt. apply H. lia. Qed.

Lemma TNW_above g : TNW g -> forall n, NWabove n g.
Proof. intros H n i _. apply H. Qed.

(* ================================================================================================ *)
(* Part 2: emission                                                                                  *)
(* ================================================================================================ *)

Definition estep (f : nat) (n : nat) (x : val) (acc : tgraph * list tdeliv) (d : nat) : tgraph * list tdeliv :=
  let '(g, log) := acc in
  let nd := tget g d in
  let log := log ++ [(n, d, x)] in
  match tk nd with
  | TPipe => let '(g', l') := temit f g d x in (g', log ++ l')
  | TSink | TRSink => (g, log)
  | TZip =>
      let L := buf_get n (t_bufs nd) ++ [x] in
      let nd1 := with_bufs nd (buf_set n L (t_bufs nd)) in
      if (length L =? 1) && zip_ready nd1 then
        let tup := VTup (zip_heads nd1) in
        let g1 := tset g d (zip_pop nd1) in
        let '(g', l') := temit f g1 d tup in (g', log ++ l')
      else (tset g d nd1, log)
  | TCombine =>
      let last' := set_at (index_nat n (t_ups nd)) (Some x) (t_last nd) in
      let g1 := tset g d (with_last nd last') in
      match all_some_v last' with
      | Some vs => let '(g', l') := temit f g1 d (VTup vs) in (g', log ++ l')
      | None => (g1, log)
      end
  | TCombineOn t =>
      let last' := set_at (index_nat n (t_ups nd)) (Some x) (t_last nd) in
      let g1 := tset g d (with_last nd last') in
      match all_some_v last' with
      | Some vs => if n =? t then let '(g', l') := temit f g1 d (VTup vs) in (g', log ++ l') else (g1, log)
      | None => (g1, log)
      end
  end.

Lemma temit_S f g n x : temit (S f) g n x = fold_left (estep f n x) (t_downs (tget g n)) (g, []).
Proof. reflexivity. Qed.

Definition log_ok (g : tgraph) (n : nat) (log : list tdeliv) : Prop :=
  forall s d v, In (s, d, v) log -> n <= s /\ alive g s /\ In d (t_downs (tget g s)).
Definition srcs (n : nat) (log : list tdeliv) : list tdeliv := filter (fun e => fst (fst e) =? n) log.

Definition epost (g : tgraph) (n : nat) (ga : tgraph) (la : list tdeliv) : Prop :=
  frame g ga /\ (forall i, i <= n -> tget ga i = tget g i) /\ TData ga /\ NWabove n ga /\ log_ok g n la.

Definition espec (f : nat) : Prop :=
  forall g n x, TShape g -> TData g -> NWabove n g -> alive g n ->
  forall g' log, temit f g n x = (g', log) -> epost g n g' log.

Lemma srcs_app n a b : srcs n (a ++ b) = srcs n a ++ srcs n b.
Proof. apply filter_app. Qed.

Lemma srcs_above g n d l : log_ok g d l -> n < d -> srcs n l = [].
Proof.
  intros H Lt. unfold srcs. induction l as [|[[s d'] v] l IH]; simpl; auto.
  destruct (H s d' v (or_introl eq_refl)) as (L & _).
  destruct (s =? n) eqn:E; [apply Nat.eqb_eq in E; lia|].
  apply IH. intros s' d'' v' Hin. apply (H s' d'' v'). right; auto.
Qed.

(* the recursive call of one downstream, glued to the current accumulator *)
Lemma rec_glue f g n x d y g1 la g' l' :
  espec f -> TShape g -> n < d -> alive g d -> In d (t_downs (tget g n)) -> alive g n ->
  epost g n g1 la -> temit f g1 d y = (g', l') ->
  epost g n g' ((la ++ [(n, d, x)]) ++ l') /\ srcs n ((la ++ [(n, d, x)]) ++ l') = srcs n la ++ [(n, d, x)].
Proof.
  intros IH Sh Lt Ad Hin An (F & U & Da & Nw & Lo) E.
  assert (Sh1 : TShape g1) by (eapply TShape_frame; eauto).
  assert (Ad1 : alive g1 d) by (apply (fr_alive_iff _ _ _ F); auto).
  destruct (IH g1 d y Sh1 Da (NWabove_mono _ _ _ (Nat.lt_le_incl _ _ Lt) Nw) Ad1 _ _ E) as (F' & U' & Da' & Nw' & Lo').
  assert (LoG : log_ok g d l').
  { intros s d' v Hi. destruct (Lo' _ _ _ Hi) as (a & b & c). split; auto. split.
    - apply (fr_alive_iff _ _ _ F); auto.
    - rewrite <- (fr_downs _ _ _ F); auto. }
  split.
  - split; [eapply frame_trans; eauto|]. split; [|split; [auto|split]].
    + intros i Li. rewrite U' by lia. apply U; auto.
    + intros i Li Ai. destruct (le_lt_dec i d) as [Le|Gt].
      * rewrite U' by auto. apply Nw; auto. unfold alive in *. rewrite <- U'; auto.
      * apply Nw'; auto.
    + intros s d' v Hi. rewrite !in_app_iff in Hi. destruct Hi as [[Hi|Hi]|Hi].
      * apply (Lo _ _ _ Hi).
      * simpl in Hi. destruct Hi as [Hi|[]]. inversion Hi; subst. auto.
      * destruct (LoG _ _ _ Hi) as (a & b & c). split; [lia|auto].
  - rewrite !srcs_app. rewrite (srcs_above g n d l' LoG Lt), app_nil_r.
    f_equal. unfold srcs. simpl. rewrite Nat.eqb_refl. auto.
Qed.

Lemma no_rec_glue g n x d g1 la :
  alive g n -> In d (t_downs (tget g n)) ->
  epost g n g1 la ->
  epost g n g1 (la ++ [(n, d, x)]) /\ srcs n (la ++ [(n, d, x)]) = srcs n la ++ [(n, d, x)].
Proof.
  intros An Hin (F & U & Da & Nw & Lo). split.
  - split; auto. split; auto. split; auto. split; auto.
    intros s d' v H. apply in_app_iff in H. destruct H as [H|[H|[]]].
    + apply (Lo _ _ _ H).
    + inversion H; subst; auto.
  - rewrite srcs_app. f_equal. unfold srcs. simpl. rewrite Nat.eqb_refl. auto.
Qed.

Lemma epost_tset g n ga la d nd' :
  epost g n ga la -> n < d -> same_shape (tget ga d) nd' ->
  (alive ga d -> ndata nd') -> (alive ga d -> nnw nd') ->
  epost g n (tset ga d nd') la.
Proof.
  intros (F & U & Da & Nw & Lo) Lt S Hd Hn. split; [|split; [|split; [|split]]]; auto.
  - eapply frame_trans; eauto. apply frame_tset; auto.
  - intros i Li. rewrite tget_tset_neq by lia. auto.
  - apply TData_tset; auto.
  - apply NWabove_tset; auto.
Qed.

Lemma estep_spec f g n x ga la d g' l' :
  espec f -> TShape g -> alive g n -> In d (t_downs (tget g n)) ->
  epost g n ga la -> estep f n x (ga, la) d = (g', l') ->
  epost g n g' l' /\ srcs n l' = srcs n la ++ [(n, d, x)].
Proof.
  intros IH Sh An Hin P E.
  destruct (s_down _ Sh _ _ An Hin) as (Ad & Hup).
  assert (Lt : n < d) by (eapply s_ups_lt; eauto).
  assert (P' := P). destruct P' as (F & U & Da & Nw & Lo).
  assert (Ada : alive ga d) by (apply (fr_alive_iff _ _ _ F); auto).
  assert (Hupa : In n (t_ups (tget ga d))) by (rewrite (fr_ups _ _ _ F); auto).
  unfold estep in E. destruct (tk (tget ga d)) eqn:K.
  - (* pipe *)
    destruct (temit f ga d x) as [g2 l2] eqn:E2. inversion E; subst. eapply rec_glue; eauto.
  - inversion E; subst. apply no_rec_glue; auto.
  - (* zip *)
    set (nd := tget ga d) in *.
    set (L := buf_get n (t_bufs nd) ++ [x]) in *.
    set (nd1 := with_bufs nd (buf_set n L (t_bufs nd))) in *.
    destruct (Da d Ada) as (_ & Hz). specialize (Hz K). destruct Hz as (Nk & Hk). fold nd in Nk, Hk.
    assert (Kin : In n (keys nd)) by (apply Hk; auto).
    assert (Keq : map fst (buf_set n L (t_bufs nd)) = keys nd) by (apply keys_buf_set_in; auto).
    destruct ((length L =? 1) && zip_ready nd1) eqn:C.
    + apply andb_true_iff in C. destruct C as [C1 C2]. apply Nat.eqb_eq in C1.
      destruct (temit f (tset ga d (zip_pop nd1)) d (VTup (zip_heads nd1))) as [g2 l2] eqn:E2.
      inversion E; subst.
      apply (rec_glue f g n x d (VTup (zip_heads nd1)) (tset ga d (zip_pop nd1)) la g' l2); auto.
      apply epost_tset; auto.
      * unfold same_shape; simpl; auto 10.
      * intros _. split; simpl; [fold nd; nocomb|]. intros _. unfold keys. simpl.
        change (fun kb : nat * list val => (fst kb, tl (snd kb))) with popf.
        rewrite keys_pop, Keq. auto.
      * intros _ _. apply zip_ready_false. right. exists n. split; [exact Hupa|].
        simpl. change (fun kb : nat * list val => (fst kb, tl (snd kb))) with popf.
        rewrite buf_get_pop, buf_get_set_eq.
        unfold L in *. destruct (buf_get n (t_bufs nd)); simpl in *; auto.
        rewrite app_length in C1. simpl in C1. lia.
    + inversion E; subst. apply no_rec_glue; auto. apply epost_tset; auto.
      * unfold same_shape; simpl; auto 10.
      * intros _. split; simpl; [fold nd; nocomb|]. intros _. unfold keys. simpl. rewrite Keq. auto.
      * intros _ _. apply andb_false_iff in C. destruct C as [C|C]; auto.
        apply Nat.eqb_neq in C.
        assert (Hold : buf_get n (t_bufs nd) <> []).
        { intros E0. apply C. unfold L. rewrite E0. auto. }
        assert (R : zip_ready nd = false) by (apply (Nw d Lt Ada K)).
        apply zip_ready_false in R. apply zip_ready_false. simpl.
        destruct R as [R | (u & Hu & Eu)]; auto. right. exists u. split; auto.
        rewrite buf_get_set_neq; auto. intros <-. auto.
  - (* combine_latest *)
    set (nd := tget ga d) in *.
    set (last' := set_at (index_nat n (t_ups nd)) (Some x) (t_last nd)) in *.
    assert (P1 : epost g n (tset ga d (with_last nd last')) la).
    { apply epost_tset; auto.
      - unfold same_shape; simpl; auto 10.
      - intros _. split; simpl; [|fold nd; congruence]. intros _. unfold last'. rewrite set_at_length.
        destruct (Da d Ada) as (Hc & _). apply Hc; auto. fold nd. rewrite K. reflexivity.
      - intros _ K'. simpl in K'. fold nd in K'. congruence. }
    destruct (all_some_v last') as [vs|].
    + destruct (temit f (tset ga d (with_last nd last')) d (VTup vs)) as [g2 l2] eqn:E2.
      inversion E; subst.
      apply (rec_glue f g n x d (VTup vs) (tset ga d (with_last nd last')) la g' l2); auto.
    + inversion E; subst. apply no_rec_glue; auto.
  - inversion E; subst. apply no_rec_glue; auto.
  - (* combine_latest with an explicit emit_on *)
    set (nd := tget ga d) in *.
    set (last' := set_at (index_nat n (t_ups nd)) (Some x) (t_last nd)) in *.
    assert (P1 : epost g n (tset ga d (with_last nd last')) la).
    { apply epost_tset; auto.
      - unfold same_shape; simpl; auto 10.
      - intros _. split; simpl; [|fold nd; congruence]. intros _. unfold last'. rewrite set_at_length.
        destruct (Da d Ada) as (Hc & _). apply Hc; auto. fold nd. rewrite K. reflexivity.
      - intros _ K'. simpl in K'. fold nd in K'. congruence. }
    destruct (all_some_v last') as [vs|]; [destruct (n =? trig)|].
    + destruct (temit f (tset ga d (with_last nd last')) d (VTup vs)) as [g2 l2] eqn:E2.
      inversion E; subst.
      apply (rec_glue f g n x d (VTup vs) (tset ga d (with_last nd last')) la g' l2); auto.
    + inversion E; subst. apply no_rec_glue; auto.
    + inversion E; subst. apply no_rec_glue; auto.
Qed.

Lemma efold_spec f g n x :
  espec f -> TShape g -> alive g n ->
  forall l ga la g' l', (forall d, In d l -> In d (t_downs (tget g n))) ->
  epost g n ga la -> fold_left (estep f n x) l (ga, la) = (g', l') ->
  epost g n g' l' /\ srcs n l' = srcs n la ++ map (fun d => (n, d, x)) l.
Proof.
  intros IH Sh An. induction l as [|d l IHl]; intros ga la g' l' Hl P E; cbn [fold_left map] in *.
  - inversion E; subst. rewrite app_nil_r. auto.
  - destruct (estep f n x (ga, la) d) as [g1 l1] eqn:E1.
    destruct (estep_spec _ _ _ _ _ _ _ _ _ IH Sh An (Hl d (or_introl eq_refl)) P E1) as (P1 & S1).
    destruct (IHl g1 l1 g' l' (fun d' H => Hl d' (or_intror H)) P1 E) as (P2 & S2).
    split; auto. rewrite S2, S1, <- app_assoc. auto.
Qed.

Lemma epost_init g n : TData g -> NWabove n g -> epost g n g [].
Proof.
  intros Da Nw. split; [apply frame_refl|]. split; auto. split; auto. split; auto.
  intros s d v [].
Qed.

Lemma temit_espec : forall f, espec f.
Proof.
  induction f as [|f IH]; intros g n x Sh Da Nw An g' log E.
  - simpl in E. inversion E; subst. apply epost_init; auto.
  - rewrite temit_S in E.
    eapply efold_spec in E; eauto using epost_init. tauto.
Qed.

Lemma temit_srcs f g n x g' log :
  TShape g -> TData g -> NWabove n g -> alive g n ->
  temit (S f) g n x = (g', log) -> srcs n log = map (fun d => (n, d, x)) (t_downs (tget g n)).
Proof.
  intros Sh Da Nw An E. rewrite temit_S in E.
  eapply efold_spec in E; eauto using epost_init, temit_espec. destruct E as (_ & E). exact E.
Qed.

(* the frame lemma of emission, stated for any fuel and any graph whose links are consistent *)
Theorem temit_frame f g n x g' log :
  TInv0 g -> alive g n -> temit f g n x = (g', log) ->
  length g' = length g /\
  forall i, tk (tget g' i) = tk (tget g i) /\ t_ups (tget g' i) = t_ups (tget g i) /\
            t_downs (tget g' i) = t_downs (tget g i) /\ t_alive (tget g' i) = t_alive (tget g i) /\
            t_held (tget g' i) = t_held (tget g i) /\ t_reg (tget g' i) = t_reg (tget g i).
Proof.
  intros [Sh Da Nw] An E.
  destruct (temit_espec f g n x Sh Da (TNW_above _ Nw n) An _ _ E) as (F & _).
  split; [symmetry; apply F|]. intros i.
  rewrite (fr_tk _ _ _ F), (fr_ups _ _ _ F), (fr_downs _ _ _ F), (fr_alive _ _ _ F), (fr_held _ _ _ F), (fr_reg _ _ _ F).
  auto 10.
Qed.

Lemma temit_inv f g n x g' log :
  TInv0 g -> alive g n -> temit f g n x = (g', log) -> TInv0 g'.
Proof.
  intros [Sh Da Nw] An E.
  destruct (temit_espec f g n x Sh Da (TNW_above _ Nw n) An _ _ E) as (F & U & Da' & Nw' & _).
  constructor; auto.
  - eapply TShape_frame; eauto.
  - intros i Ai. destruct (le_lt_dec i n).
    + rewrite U by auto. apply Nw. unfold alive in *. rewrite <- U; auto.
    + apply Nw'; auto.
Qed.

(* ================================================================================================ *)
(* Part 3: edits                                                                                     *)
(* ================================================================================================ *)

Lemma ndata_ext a b : tk a = tk b -> t_ups a = t_ups b -> t_bufs a = t_bufs b -> t_last a = t_last b -> ndata a -> ndata b.
Proof. unfold ndata, keys. intros E1 E2 E3 E4. rewrite E1, E2, E3, E4. auto. Qed.
Lemma nnw_ext a b : tk a = tk b -> t_ups a = t_ups b -> t_bufs a = t_bufs b -> nnw a -> nnw b.
Proof. unfold nnw, zip_ready. intros E1 E2 E3. rewrite E1, E2, E3. auto. Qed.

(* edges are only added *)
Lemma TShape_add g g' (R : nat -> nat -> Prop) :
  TShape g ->
  (forall a b, alive g' a -> (In b (t_downs (tget g' a)) <-> (alive g a /\ In b (t_downs (tget g a))) \/ R a b)) ->
  (forall a b, alive g' b -> (In a (t_ups (tget g' b)) <-> (alive g b /\ In a (t_ups (tget g b))) \/ R a b)) ->
  (forall i, alive g i -> alive g' i) ->
  (forall a b, R a b -> alive g' a /\ alive g' b /\ a < b) ->
  (forall i, alive g' i -> NoDup (t_ups (tget g' i))) ->
  (forall i, alive g' i -> NoDup (t_downs (tget g' i))) ->
  (forall d t, alive g' d -> tk (tget g' d) = TCombineOn t -> alive g' t) ->
  TShape g'.
Proof.
  intros [A B C D E T] Hd Hu Hal HR N1 N2 HT. constructor; auto.
  - intros d u Ad Hi. apply Hu in Hi; auto. destruct Hi as [[Ad0 Hi]|Hi]; eauto. apply HR in Hi. tauto.
  - intros u d Au Hi. apply Hd in Hi; auto. destruct Hi as [[Au0 Hi]|Hi].
    + destruct (D _ _ Au0 Hi) as (Ad0 & Hi'). split; auto. apply Hu; auto.
    + destruct (HR _ _ Hi) as (? & ? & ?). split; auto. apply Hu; auto.
  - intros u d Ad Hi. apply Hu in Hi; auto. destruct Hi as [[Ad0 Hi]|Hi].
    + destruct (E _ _ Ad0 Hi) as (Au0 & Hi'). split; auto. apply Hd; auto.
    + destruct (HR _ _ Hi) as (? & ? & ?). split; auto. apply Hd; auto.
Qed.

(* one edge is removed *)
Lemma TShape_del g g' u d :
  TShape g ->
  (forall i, t_alive (tget g' i) = t_alive (tget g i)) ->
  (forall a b, alive g a -> (In b (t_downs (tget g' a)) <-> In b (t_downs (tget g a)) /\ ~ (a = u /\ b = d))) ->
  (forall a b, alive g b -> (In a (t_ups (tget g' b)) <-> In a (t_ups (tget g b)) /\ ~ (a = u /\ b = d))) ->
  (forall i, alive g i -> NoDup (t_ups (tget g' i))) ->
  (forall i, alive g i -> NoDup (t_downs (tget g' i))) ->
  (forall i, tk (tget g' i) = tk (tget g i)) ->
  TShape g'.
Proof.
  intros [A B C D E T] Hal Hd Hu N1 N2 HK.
  assert (AL : forall i, alive g' i <-> alive g i) by (intros i; unfold alive; rewrite Hal; tauto).
  constructor; [| | | | |intros d0 t0 Ad Kd; apply AL; apply AL in Ad; rewrite HK in Kd; eauto].
  - intros d0 u0 Ad Hi. apply AL in Ad. apply Hu in Hi; auto. destruct Hi; eauto.
  - intros i Ai. apply AL in Ai. auto.
  - intros i Ai. apply AL in Ai. auto.
  - intros u0 d0 Au Hi. apply AL in Au. apply Hd in Hi; auto. destruct Hi as [Hi Ne].
    destruct (D _ _ Au Hi) as (Ad0 & Hi'). split; [apply AL; auto|]. apply Hu; auto.
  - intros u0 d0 Ad Hi. apply AL in Ad. apply Hu in Hi; auto. destruct Hi as [Hi Ne].
    destruct (E _ _ Ad Hi) as (Au0 & Hi'). split; [apply AL; auto|]. apply Hd; auto.
Qed.

Lemma add_upstream_ups nd u : t_ups (add_upstream nd u) = t_ups nd ++ [u].
Proof. reflexivity. Qed.
Lemma add_upstream_shape nd u :
  tk (add_upstream nd u) = tk nd /\ t_downs (add_upstream nd u) = t_downs nd /\
  t_held (add_upstream nd u) = t_held nd /\ t_reg (add_upstream nd u) = t_reg nd /\
  t_alive (add_upstream nd u) = t_alive nd.
Proof. unfold add_upstream. destruct (tk nd) eqn:K; simpl; auto. Qed.
Lemma remove_upstream_ups nd u : t_ups (remove_upstream nd u) = remove_first u (t_ups nd).
Proof. reflexivity. Qed.
Lemma remove_upstream_shape nd u :
  tk (remove_upstream nd u) = tk nd /\ t_downs (remove_upstream nd u) = t_downs nd /\
  t_held (remove_upstream nd u) = t_held nd /\ t_reg (remove_upstream nd u) = t_reg nd /\
  t_alive (remove_upstream nd u) = t_alive nd.
Proof. unfold remove_upstream. destruct (tk nd) eqn:K; simpl; auto. Qed.

Lemma add_upstream_data nd u : ~ In u (t_ups nd) -> NoDup (t_ups nd) -> ndata nd -> ndata (add_upstream nd u) /\ nnw (add_upstream nd u).
Proof.
  intros Hn Nd (Hc & Hz). unfold add_upstream. destruct (tk nd) eqn:K; unfold ndata, nnw, keys; simpl; rewrite K.
  - repeat split; intros; discriminate.
  - repeat split; intros; discriminate.
  - destruct (Hz eq_refl) as (Nk & Hk). fold (keys nd) in *.
    assert (Keq : map fst (buf_set u [] (t_bufs nd)) = keys nd ++ [u]).
    { apply keys_buf_set_notin. intros H. apply Hk in H. auto. }
    split; [split; [discriminate|]|].
    + intros _. rewrite Keq. split.
      * apply NoDup_app_single; auto. intros H. apply Hk in H. auto.
      * intros v. rewrite !in_app_iff, Hk. tauto.
    + intros _. apply zip_ready_false. right. exists u. simpl. split.
      * apply in_app_iff; simpl; auto.
      * apply buf_get_set_eq.
  - split; [split|]; try discriminate. intros _. rewrite !app_length. simpl. rewrite Hc; auto.
  - repeat split; intros; discriminate.
  - split; [split|]; try discriminate. intros _. rewrite !app_length. simpl. rewrite Hc; auto.
Qed.

Lemma remove_upstream_data nd u : In u (t_ups nd) -> NoDup (t_ups nd) -> ndata nd -> ndata (remove_upstream nd u).
Proof.
  intros Hn Nd (Hc & Hz). unfold remove_upstream. destruct (tk nd) eqn:K; unfold ndata, keys; simpl; rewrite K.
  - split; intros; discriminate.
  - split; intros; discriminate.
  - destruct (Hz eq_refl) as (Nk & Hk). fold (keys nd) in *.
    split; [discriminate|]. intros _. rewrite keys_buf_del. fold (keys nd). split.
    + apply remove_first_NoDup; auto.
    + intros v. rewrite !remove_first_In_iff; auto. rewrite Hk. tauto.
  - split; [|discriminate]. intros _. specialize (Hc eq_refl).
    pose proof (remove_first_length u (t_ups nd) Hn).
    pose proof (index_nat_lt u (t_ups nd) Hn).
    pose proof (remove_at_length (index_nat u (t_ups nd)) (t_last nd)). lia.
  - split; intros; discriminate.
  - split; [|discriminate]. intros _. specialize (Hc eq_refl).
    pose proof (remove_first_length u (t_ups nd) Hn).
    pose proof (index_nat_lt u (t_ups nd) Hn).
    pose proof (remove_at_length (index_nat u (t_ups nd)) (t_last nd)). lia.
Qed.

Definition same_flags (a b : tnode) : Prop :=
  tk a = tk b /\ t_held a = t_held b /\ t_reg a = t_reg b /\ t_alive a = t_alive b.
Definition flags_kept (g g' : tgraph) : Prop :=
  length g' = length g /\ forall i, same_flags (tget g' i) (tget g i).

Definition connect_g (g : tgraph) (u d : nat) : tgraph :=
  let g1 := add_down g u d in tset g1 d (add_upstream (tget g1 d) u).

Lemma connect_inv g u d :
  TInv0 g -> alive g u -> alive g d -> u < d -> ~ In u (t_ups (tget g d)) ->
  TInv0 (connect_g g u d) /\ flags_kept g (connect_g g u d).
Proof.
  intros [Sh Da Nw] Au Ad Lt Hn.
  assert (Hnd : ~ In d (t_downs (tget g u))).
  { intros H. apply (s_down _ Sh) in H; tauto. }
  pose proof (alive_lt _ _ Au) as Lu. pose proof (alive_lt _ _ Ad) as Ld.
  unfold connect_g, add_down. cbv zeta. apply mem_false in Hnd. rewrite Hnd.
  set (nu' := with_downs (tget g u) (t_downs (tget g u) ++ [d])).
  rewrite (tget_tset_neq g u d) by lia.
  set (nd' := add_upstream (tget g d) u).
  set (g' := tset (tset g u nu') d nd').
  assert (G : forall i, tget g' i = if Nat.eq_dec i d then nd' else if Nat.eq_dec i u then nu' else tget g i).
  { intros i. unfold g'. destruct (Nat.eq_dec i d) as [->|].
    - rewrite tget_tset_eq; auto. rewrite tset_length; auto.
    - rewrite tget_tset_neq by auto. destruct (Nat.eq_dec i u) as [->|].
      + rewrite tget_tset_eq; auto.
      + rewrite tget_tset_neq; auto. }
  destruct (add_upstream_shape (tget g d) u) as (S1 & S2 & S3 & S4 & S5). fold nd' in S1, S2, S3, S4, S5.
  assert (FL : forall i, same_flags (tget g' i) (tget g i)).
  { intros i. rewrite G. unfold same_flags. destruct (Nat.eq_dec i d) as [->|]; auto.
    destruct (Nat.eq_dec i u) as [->|]; auto. }
  assert (AL : forall i, alive g' i <-> alive g i).
  { intros i. unfold alive. destruct (FL i) as (_ & _ & _ & E). rewrite E. tauto. }
  apply mem_false in Hnd.
  split; [|split; auto; unfold g'; rewrite !tset_length; auto].
  constructor.
  - apply (TShape_add g g' (fun a b => a = u /\ b = d)); auto.
    + intros a b Aa. apply AL in Aa. rewrite G. destruct (Nat.eq_dec a d) as [->|]; [|destruct (Nat.eq_dec a u) as [->|]].
      * rewrite S2. intuition lia.
      * simpl. rewrite in_app_iff. simpl. intuition.
      * intuition.
    + intros a b Ab. apply AL in Ab. rewrite G. destruct (Nat.eq_dec b d) as [->|]; [|destruct (Nat.eq_dec b u) as [->|]].
      * unfold nd'. rewrite add_upstream_ups, in_app_iff. simpl. intuition.
      * simpl. intuition lia.
      * intuition.
    + intros i Ai. apply AL; auto.
    + intros a b [-> ->]. split; [|split]; auto; apply AL; auto.
    + intros i Ai. apply AL in Ai. rewrite G. destruct (Nat.eq_dec i d) as [->|]; [|destruct (Nat.eq_dec i u) as [->|]].
      * unfold nd'. rewrite add_upstream_ups. apply NoDup_app_single; auto. apply (s_nd_ups _ Sh); auto.
      * simpl. apply (s_nd_ups _ Sh); auto.
      * apply (s_nd_ups _ Sh); auto.
    + intros i Ai. apply AL in Ai. rewrite G. destruct (Nat.eq_dec i d) as [->|]; [|destruct (Nat.eq_dec i u) as [->|]].
      * rewrite S2. apply (s_nd_downs _ Sh); auto.
      * simpl. apply NoDup_app_single; auto. apply (s_nd_downs _ Sh); auto.
      * apply (s_nd_downs _ Sh); auto.
    + intros d0 t0 Ad0 Kd0. apply AL. apply AL in Ad0. destruct (FL d0) as (Kq & _). rewrite Kq in Kd0.
      apply (s_trig _ Sh d0 t0); auto.
  - intros i Ai. apply AL in Ai. rewrite G. destruct (Nat.eq_dec i d) as [->|]; [|destruct (Nat.eq_dec i u) as [->|]].
    + apply add_upstream_data; auto. apply (s_nd_ups _ Sh); auto.
    + eapply ndata_ext; [| | | |apply (Da u Ai)]; auto.
    + auto.
  - intros i Ai. apply AL in Ai. rewrite G. destruct (Nat.eq_dec i d) as [->|]; [|destruct (Nat.eq_dec i u) as [->|]].
    + apply add_upstream_data; auto. apply (s_nd_ups _ Sh); auto.
    + eapply nnw_ext; [| | |apply (Nw u Ai)]; auto.
    + auto.
Qed.

(* removal of the edge u -> d at both ends, with the state adjustment of d, but without zip's backlog drain *)
Definition disconnect_g (g : tgraph) (u d : nat) : tgraph :=
  let nu := tget g u in
  let g1 := tset g u (with_downs nu (remove_first d (t_downs nu))) in
  tset g1 d (remove_upstream (tget g1 d) u).

Lemma disconnect_raw g u d :
  TShape g -> TData g -> alive g u -> alive g d -> In d (t_downs (tget g u)) ->
  TShape (disconnect_g g u d) /\ TData (disconnect_g g u d) /\ flags_kept g (disconnect_g g u d) /\
  (forall i, i <> d -> nnw (tget g i) -> nnw (tget (disconnect_g g u d) i)) /\
  t_ups (tget (disconnect_g g u d) d) = remove_first u (t_ups (tget g d)) /\
  (forall i, t_downs (tget g i) = [] -> t_downs (tget (disconnect_g g u d) i) = []).
Proof.
  intros Sh Da Au Ad Hin.
  destruct (s_down _ Sh _ _ Au Hin) as (_ & Hup).
  assert (Lt : u < d) by (eapply s_ups_lt; eauto).
  pose proof (alive_lt _ _ Au) as Lu. pose proof (alive_lt _ _ Ad) as Ld.
  unfold disconnect_g. cbv zeta.
  set (nu' := with_downs (tget g u) (remove_first d (t_downs (tget g u)))).
  rewrite (tget_tset_neq g u d) by lia.
  set (nd' := remove_upstream (tget g d) u).
  set (g' := tset (tset g u nu') d nd').
  assert (G : forall i, tget g' i = if Nat.eq_dec i d then nd' else if Nat.eq_dec i u then nu' else tget g i).
  { intros i. unfold g'. destruct (Nat.eq_dec i d) as [->|].
    - rewrite tget_tset_eq; auto. rewrite tset_length; auto.
    - rewrite tget_tset_neq by auto. destruct (Nat.eq_dec i u) as [->|].
      + rewrite tget_tset_eq; auto.
      + rewrite tget_tset_neq; auto. }
  destruct (remove_upstream_shape (tget g d) u) as (S1 & S2 & S3 & S4 & S5). fold nd' in S1, S2, S3, S4, S5.
  assert (FL : forall i, same_flags (tget g' i) (tget g i)).
  { intros i. rewrite G. unfold same_flags. destruct (Nat.eq_dec i d) as [->|]; auto.
    destruct (Nat.eq_dec i u) as [->|]; auto. }
  assert (AL : forall i, alive g' i <-> alive g i).
  { intros i. unfold alive. destruct (FL i) as (_ & _ & _ & E). rewrite E. tauto. }
  split; [|split; [|split; [|split; [|split]]]].
  - apply (TShape_del g g' u d); auto.
    + intros i. apply FL.
    + intros a b Aa. rewrite G. destruct (Nat.eq_dec a d) as [->|]; [|destruct (Nat.eq_dec a u) as [->|]].
      * rewrite S2. intuition lia.
      * simpl. rewrite remove_first_In_iff by (apply (s_nd_downs _ Sh); auto). intuition.
      * intuition.
    + intros a b Ab. rewrite G. destruct (Nat.eq_dec b d) as [->|]; [|destruct (Nat.eq_dec b u) as [->|]].
      * unfold nd'. rewrite remove_upstream_ups. rewrite remove_first_In_iff by (apply (s_nd_ups _ Sh); auto). intuition.
      * simpl. intuition lia.
      * intuition.
    + intros i Ai. rewrite G. destruct (Nat.eq_dec i d) as [->|]; [|destruct (Nat.eq_dec i u) as [->|]].
      * unfold nd'. rewrite remove_upstream_ups. apply remove_first_NoDup. apply (s_nd_ups _ Sh); auto.
      * simpl. apply (s_nd_ups _ Sh); auto.
      * apply (s_nd_ups _ Sh); auto.
    + intros i Ai. rewrite G. destruct (Nat.eq_dec i d) as [->|]; [|destruct (Nat.eq_dec i u) as [->|]].
      * rewrite S2. apply (s_nd_downs _ Sh); auto.
      * simpl. apply remove_first_NoDup. apply (s_nd_downs _ Sh); auto.
      * apply (s_nd_downs _ Sh); auto.
    + intros i. apply FL.
  - intros i Ai. apply AL in Ai. rewrite G. destruct (Nat.eq_dec i d) as [->|]; [|destruct (Nat.eq_dec i u) as [->|]].
    + apply remove_upstream_data; auto. apply (s_nd_ups _ Sh); auto.
    + eapply ndata_ext; [| | | |apply (Da u Ai)]; auto.
    + auto.
  - split; auto. unfold g'. rewrite !tset_length; auto.
  - intros i Ni. rewrite G. destruct (Nat.eq_dec i d) as [->|]; [congruence|]. destruct (Nat.eq_dec i u) as [->|]; auto.
  - rewrite G. destruct (Nat.eq_dec d d); [|congruence]. reflexivity.
  - intros i Hi. rewrite G. destruct (Nat.eq_dec i d) as [->|]; [|destruct (Nat.eq_dec i u) as [->|]]; auto.
    + congruence.
    + simpl. rewrite Hi. reflexivity.
Qed.

(* ---- zip backlog drain ---- *)
Lemma zip_drain_S f g d :
  zip_drain (S f) g d =
  if zip_ready (tget g d) then
    let '(g2, l1) := temit (S (length g)) (tset g d (zip_pop (tget g d))) d (VTup (zip_heads (tget g d))) in
    let '(g3, l2) := zip_drain f g2 d in (g3, l1 ++ l2)
  else (g, []).
Proof. reflexivity. Qed.

Lemma zip_drain_spec : forall f g d,
  TShape g -> TData g -> (forall i, i <> d -> alive g i -> nnw (tget g i)) ->
  alive g d -> btotal (t_bufs (tget g d)) < f ->
  forall g' l, zip_drain f g d = (g', l) -> frame g g' /\ TData g' /\ TNW g'.
Proof.
  induction f as [|f IH]; intros g d Sh Da Nw Ad Bt g' l E; [lia|].
  rewrite zip_drain_S in E. destruct (zip_ready (tget g d)) eqn:R.
  - set (g1 := tset g d (zip_pop (tget g d))) in *.
    destruct (temit (S (length g)) g1 d (VTup (zip_heads (tget g d)))) as [g2 l1] eqn:E1.
    destruct (zip_drain f g2 d) as [g3 l2] eqn:E2. inversion E; subst g3 l. clear E.
    pose proof (alive_lt _ _ Ad) as Ld.
    assert (SS : same_shape (tget g d) (zip_pop (tget g d))) by (unfold same_shape; simpl; auto 10).
    assert (F1 : frame g g1) by (apply frame_tset; auto).
    assert (Sh1 : TShape g1) by (eapply TShape_frame; eauto).
    assert (Da1 : TData g1).
    { apply TData_tset; auto. intros _. destruct (Da d Ad) as (Hc & Hz). split; simpl; auto.
      intros K. unfold keys. simpl. change (fun kb : nat * list val => (fst kb, tl (snd kb))) with popf.
      rewrite keys_pop. auto. }
    assert (Nw1 : NWabove d g1).
    { intros i Li Ai. unfold g1, alive in *. rewrite tget_tset_neq in * by lia. apply Nw; auto. lia. }
    assert (Ad1 : alive g1 d) by (apply (fr_alive_iff _ _ _ F1); auto).
    destruct (temit_espec _ g1 d _ Sh1 Da1 Nw1 Ad1 _ _ E1) as (F2 & U2 & Da2 & Nw2 & _).
    assert (Gd : tget g2 d = zip_pop (tget g d)).
    { rewrite U2 by auto. unfold g1. rewrite tget_tset_eq; auto. }
    assert (F02 : frame g g2) by (eapply frame_trans; eauto).
    destruct (IH g2 d) with (g' := g') (l := l2) as (F3 & Da3 & Nw3); auto.
    + eapply TShape_frame; eauto.
    + intros i Ni Ai. destruct (lt_dec i d).
      * rewrite U2 by lia. unfold g1. rewrite tget_tset_neq by lia. apply Nw; auto.
        apply (fr_alive_iff _ _ _ F02); auto.
      * apply Nw2; auto. lia.
    + apply (fr_alive_iff _ _ _ F02); auto.
    + rewrite Gd. simpl. change (fun kb : nat * list val => (fst kb, tl (snd kb))) with popf.
      destruct (zip_ready_true _ R) as (Ne & Hall).
      destruct (t_ups (tget g d)) as [|u0 ?] eqn:EU; [congruence|].
      pose proof (btotal_pop_lt u0 (t_bufs (tget g d)) (Hall u0 (or_introl eq_refl))). lia.
    + split; auto. eapply frame_trans; eauto.
  - inversion E; subst. split; [apply frame_refl|]. split; auto.
    intros i Ai. destruct (Nat.eq_dec i d) as [->|]; auto. intros _. auto.
Qed.

(* ---- pointwise extensionality of the invariant ---- *)
Lemma inv_ext g g' :
  (forall i, t_alive (tget g' i) = t_alive (tget g i) /\ tk (tget g' i) = tk (tget g i) /\
             t_ups (tget g' i) = t_ups (tget g i) /\ t_downs (tget g' i) = t_downs (tget g i) /\
             t_bufs (tget g' i) = t_bufs (tget g i) /\ t_last (tget g' i) = t_last (tget g i)) ->
  TInv0 g -> TInv0 g'.
Proof.
  intros H [[A B C D E T] Da Nw].
  assert (AL : forall i, alive g' i <-> alive g i).
  { intros i. unfold alive. destruct (H i) as (-> & _). tauto. }
  constructor.
  - assert (Ha : forall i, t_alive (tget g' i) = t_alive (tget g i)) by (intros i; apply H).
    assert (Hu : forall i, t_ups (tget g' i) = t_ups (tget g i)) by (intros i; apply H).
    assert (Hd : forall i, t_downs (tget g' i) = t_downs (tget g i)) by (intros i; apply H).
    assert (Hk : forall i, tk (tget g' i) = tk (tget g i)) by (intros i; apply H).
    constructor; unfold alive in *; intros *; rewrite ?Ha, ?Hu, ?Hd, ?Hk; eauto.
  - intros i Ai. apply AL in Ai. destruct (H i) as (_ & ? & ? & _ & ? & ?).
    eapply ndata_ext; [| | | |apply (Da i Ai)]; auto.
  - intros i Ai. apply AL in Ai. destruct (H i) as (_ & ? & ? & _ & ? & ?).
    eapply nnw_ext; [| | |apply (Nw i Ai)]; auto.
Qed.

(* ---- flag updates (drop, un-register) ---- *)
Lemma tget_tset_flags g n h r i :
  let nd' := tget (tset g n (with_flags (tget g n) h r (t_alive (tget g n)))) i in
  t_alive nd' = t_alive (tget g i) /\ tk nd' = tk (tget g i) /\
  t_ups nd' = t_ups (tget g i) /\ t_downs nd' = t_downs (tget g i) /\
  t_bufs nd' = t_bufs (tget g i) /\ t_last nd' = t_last (tget g i).
Proof.
  cbv zeta. destruct (Nat.eq_dec n i) as [->|N].
  - destruct (lt_dec i (length g)).
    + rewrite tget_tset_eq; auto. simpl. auto 10.
    + rewrite tset_overflow by lia. auto 10.
  - rewrite tget_tset_neq; auto 10.
Qed.

Lemma flags_inv g n h r : TInv0 g -> TInv0 (tset g n (with_flags (tget g n) h r (t_alive (tget g n)))).
Proof. intros H. eapply inv_ext; eauto. intros i. apply tget_tset_flags. Qed.

Lemma flags_kept_trans a b c : flags_kept a b -> flags_kept b c -> flags_kept a c.
Proof.
  intros [L1 H1] [L2 H2]. split; [congruence|]. intros i.
  destruct (H1 i) as (?&?&?&?), (H2 i) as (?&?&?&?). unfold same_flags. repeat split; congruence.
Qed.

Lemma flags_kept_refl g : flags_kept g g.
Proof. split; auto. intros i. unfold same_flags; auto. Qed.

Lemma flags_kept_alive g g' i : flags_kept g g' -> (alive g' i <-> alive g i).
Proof. intros [_ H]. unfold alive. destruct (H i) as (_&_&_&->). tauto. Qed.

Lemma frame_flags_kept g g' : frame g g' -> flags_kept g g'.
Proof.
  intros [L H]. split; auto. intros i. destruct (H i) as (?&?&?&?&?&?). unfold same_flags; auto.
Qed.

(* ---- destroy: the edges to all upstreams are removed one by one ---- *)
Definition destroy_fold (g : tgraph) (n : nat) (l : list nat) : tgraph :=
  fold_left (fun g u => disconnect_g g u n) l g.

Lemma destroy_fold_spec n : forall l g,
  TShape g -> TData g -> alive g n -> t_ups (tget g n) = l ->
  TShape (destroy_fold g n l) /\ TData (destroy_fold g n l) /\ flags_kept g (destroy_fold g n l) /\
  (forall i, i <> n -> nnw (tget g i) -> nnw (tget (destroy_fold g n l) i)) /\
  t_ups (tget (destroy_fold g n l) n) = [] /\
  (forall i, t_downs (tget g i) = [] -> t_downs (tget (destroy_fold g n l) i) = []).
Proof.
  induction l as [|u l IH]; intros g Sh Da An El; unfold destroy_fold; cbn [fold_left].
  - split; auto. split; auto. split; [apply flags_kept_refl|]. split; auto.
  - assert (Hin : In u (t_ups (tget g n))) by (rewrite El; left; auto).
    destruct (s_up _ Sh _ _ An Hin) as (Au & Hd).
    destruct (disconnect_raw g u n Sh Da Au An Hd) as (Sh1 & Da1 & Fl1 & Nw1 & Up1 & Dn1).
    assert (An1 : alive (disconnect_g g u n) n) by (apply (flags_kept_alive _ _ _ Fl1); auto).
    assert (El1 : t_ups (tget (disconnect_g g u n) n) = l).
    { rewrite Up1, El. simpl. rewrite Nat.eqb_refl. auto. }
    destruct (IH _ Sh1 Da1 An1 El1) as (Sh2 & Da2 & Fl2 & Nw2 & Up2 & Dn2). fold (destroy_fold (disconnect_g g u n) n l).
    split; auto. split; auto. split; [eapply flags_kept_trans; eauto|]. split; auto.
Qed.

(* ---- creation ---- *)
Lemma new_fold_spec i : forall l g1,
  NoDup l -> (forall u, In u l -> u < length g1 /\ ~ In i (t_downs (tget g1 u))) ->
  let res := fold_left (fun g u => add_down g u i) l g1 in
  length res = length g1 /\
  (forall j, In j l -> tget res j = with_downs (tget g1 j) (t_downs (tget g1 j) ++ [i])) /\
  (forall j, ~ In j l -> tget res j = tget g1 j).
Proof.
  induction l as [|u l IH]; intros g1 Nd Hl; cbn [fold_left]; cbv zeta.
  - split; auto. split; auto. intros j [].
  - inversion Nd as [|? ? Hu Nd']; subst.
    destruct (Hl u (or_introl eq_refl)) as (Lu & Hi).
    set (g2 := tset g1 u (with_downs (tget g1 u) (t_downs (tget g1 u) ++ [i]))).
    assert (Eg : add_down g1 u i = g2).
    { unfold add_down. cbv zeta. apply mem_false in Hi. rewrite Hi. reflexivity. }
    rewrite Eg.
    destruct (IH g2 Nd') as (L & A & B).
    { intros v Hv. unfold g2. rewrite tset_length. rewrite tget_tset_neq by (intros ->; auto).
      apply Hl; right; auto. }
    cbv zeta in L, A, B. split; [|split].
    + rewrite L. unfold g2. apply tset_length.
    + intros j [->|Hj].
      * rewrite B by auto. unfold g2. rewrite tget_tset_eq; auto.
      * rewrite A by auto. unfold g2. rewrite tget_tset_neq by (intros ->; auto). auto.
    + intros j Hj. rewrite B by (intros H; apply Hj; right; auto).
      unfold g2. rewrite tget_tset_neq; auto. intros ->. apply Hj; left; auto.
Qed.

Definition new_g (g : tgraph) (k : tkind) (ups : list nat) : tgraph :=
  fold_left (fun g' u => add_down g' u (length g)) ups (g ++ [new_node k ups]).

Lemma tget_app_l g nn j : j < length g -> tget (g ++ [nn]) j = tget g j.
Proof. intros; unfold tget; apply app_nth1; auto. Qed.
Lemma tget_app_new g nn : tget (g ++ [nn]) (length g) = nn.
Proof. unfold tget. rewrite app_nth2 by lia. rewrite Nat.sub_diag. auto. Qed.
Lemma tget_app_over g nn j : length g < j -> tget (g ++ [nn]) j = tget g j.
Proof.
  intros. rewrite !tget_overflow; auto; try lia. rewrite app_length; simpl; lia.
Qed.

Lemma new_g_spec g k ups :
  TShape g -> NoDup ups -> (forall u, In u ups -> alive g u) ->
  length (new_g g k ups) = S (length g) /\
  tget (new_g g k ups) (length g) = new_node k ups /\
  (forall j, In j ups -> tget (new_g g k ups) j = with_downs (tget g j) (t_downs (tget g j) ++ [length g])) /\
  (forall j, ~ In j ups -> j <> length g -> tget (new_g g k ups) j = tget g j).
Proof.
  intros Sh Nd Hu. unfold new_g.
  destruct (new_fold_spec (length g) ups (g ++ [new_node k ups]) Nd) as (L & A & B).
  { intros u Hin. pose proof (alive_lt _ _ (Hu u Hin)) as Lu. rewrite app_length. simpl. split; [lia|].
    rewrite tget_app_l by auto. intros H. apply (s_down _ Sh _ _ (Hu u Hin)) in H. destruct H as (H & _).
    apply alive_lt in H. lia. }
  cbv zeta in L, A, B. split; [|split; [|split]].
  - rewrite L, app_length. simpl. lia.
  - rewrite B; [apply tget_app_new|]. intros H. apply Hu in H. apply alive_lt in H. lia.
  - intros j Hj. rewrite A by auto. rewrite tget_app_l; auto. apply alive_lt; auto.
  - intros j Hj Nj. rewrite B by auto. destruct (lt_dec j (length g)).
    + apply tget_app_l; auto.
    + apply tget_app_over; lia.
Qed.

Lemma new_node_data k ups : NoDup ups -> (k = TZip -> ups <> []) -> ndata (new_node k ups) /\ nnw (new_node k ups).
Proof.
  intros Nd Ne. unfold ndata, nnw, keys. simpl. split; [split|].
  - destruct k; simpl; try discriminate; intros _; apply map_length.
  - intros ->. rewrite map_map. simpl. rewrite map_id. split; auto. tauto.
  - intros ->. apply zip_ready_false. simpl. destruct ups as [|u l]; [left; auto|].
    right. exists u. split; [left; auto|]. apply (buf_get_new u (u :: l)).
Qed.

Lemma new_inv g k ups :
  TInv0 g -> NoDup ups -> (forall u, In u ups -> alive g u) -> (k = TZip -> ups <> []) ->
  (forall t, k = TCombineOn t -> In t ups) ->
  TInv0 (new_g g k ups).
Proof.
  intros [Sh Da Nw] Nd Hu Ne Ht.
  destruct (new_g_spec g k ups Sh Nd Hu) as (L & Gn & Gu & Go).
  set (g' := new_g g k ups) in *.
  assert (Dead : ~ alive g (length g)) by (intros H; apply alive_lt in H; lia).
  assert (Hlt : forall u, In u ups -> u <> length g) by (intros u H ->; apply Hu in H; auto).
  assert (AL : forall i, alive g' i <-> alive g i \/ i = length g).
  { intros i. unfold alive. destruct (Nat.eq_dec i (length g)) as [->|N].
    - rewrite Gn. simpl. tauto.
    - destruct (in_dec Nat.eq_dec i ups).
      + rewrite Gu by auto. simpl. tauto.
      + rewrite Go by auto. tauto. }
  assert (UP : forall i, i <> length g -> t_ups (tget g' i) = t_ups (tget g i)).
  { intros i N. destruct (in_dec Nat.eq_dec i ups); [rewrite Gu|rewrite Go]; auto. }
  constructor.
  - apply (TShape_add g g' (fun a b => In a ups /\ b = length g)); auto.
    + intros a b Aa. destruct (Nat.eq_dec a (length g)) as [->|N].
      * rewrite Gn. simpl. split; [tauto|]. intros [[H _]|[H _]]; [tauto|]. apply Hlt in H. tauto.
      * apply AL in Aa. destruct Aa as [Aa|]; [|tauto]. destruct (in_dec Nat.eq_dec a ups).
        -- rewrite Gu by auto. simpl. rewrite in_app_iff. simpl. intuition.
        -- rewrite Go by auto. intuition.
    + intros a b Ab. destruct (Nat.eq_dec b (length g)) as [->|N].
      * rewrite Gn. simpl. intuition.
      * rewrite UP by auto. apply AL in Ab. intuition.
    + intros i Ai. apply AL; auto.
    + intros a b [Ha ->]. split; [|split].
      * apply AL; auto.
      * apply AL; auto.
      * apply alive_lt; auto.
    + intros i Ai. destruct (Nat.eq_dec i (length g)) as [->|N].
      * rewrite Gn. auto.
      * rewrite UP by auto. apply AL in Ai. destruct Ai; [|tauto]. apply (s_nd_ups _ Sh); auto.
    + intros i Ai. destruct (Nat.eq_dec i (length g)) as [->|N].
      * rewrite Gn. simpl. constructor.
      * apply AL in Ai. destruct Ai as [Ai|]; [|tauto]. destruct (in_dec Nat.eq_dec i ups).
        -- rewrite Gu by auto. simpl. apply NoDup_app_single; [apply (s_nd_downs _ Sh); auto|].
           intros H. apply (s_down _ Sh _ _ Ai) in H. destruct H as (H & _). apply alive_lt in H. lia.
        -- rewrite Go by auto. apply (s_nd_downs _ Sh); auto.
    + intros d0 t0 Ad0 Kd0. apply AL. destruct (Nat.eq_dec d0 (length g)) as [->|N].
      * rewrite Gn in Kd0. simpl in Kd0. left. apply Hu. apply Ht. auto.
      * apply AL in Ad0. destruct Ad0 as [Ad0|]; [|tauto]. left. apply (s_trig _ Sh d0 t0); auto.
        destruct (in_dec Nat.eq_dec d0 ups); [rewrite Gu in Kd0|rewrite Go in Kd0]; auto.
  - intros i Ai. destruct (Nat.eq_dec i (length g)) as [->|N].
    + rewrite Gn. apply new_node_data; auto.
    + apply AL in Ai. destruct Ai as [Ai|]; [|tauto]. destruct (in_dec Nat.eq_dec i ups).
      * rewrite Gu by auto. eapply ndata_ext; [| | | |apply (Da i Ai)]; auto.
      * rewrite Go by auto. auto.
  - intros i Ai. destruct (Nat.eq_dec i (length g)) as [->|N].
    + rewrite Gn. apply new_node_data; auto.
    + apply AL in Ai. destruct Ai as [Ai|]; [|tauto]. destruct (in_dec Nat.eq_dec i ups).
      * rewrite Gu by auto. eapply nnw_ext; [| | |apply (Nw i Ai)]; auto.
      * rewrite Go by auto. auto.
Qed.

(* ================================================================================================ *)
(* Part 4: garbage collection                                                                        *)
(* ================================================================================================ *)

Definition roots (g : tgraph) : list nat := filter (fun i => is_root (tget g i)) (seq 0 (length g)).
Definition kept (g : tgraph) : list nat := keep (length g) g (roots g).
Definition blank (n : tnode) : tnode := with_flags (with_downs (with_ups n []) []) false false false.
Definition cnode (g : tgraph) (K : list nat) (i : nat) : tnode :=
  let n := tget g i in
  if t_alive n && mem i K then with_downs n (filter (fun d => t_alive (tget g d) && mem d K) (t_downs n))
  else blank n.

Lemma collect_eq g : collect g = map (cnode g (kept g)) (seq 0 (length g)).
Proof. reflexivity. Qed.

Lemma collect_length g : length (collect g) = length g.
Proof. rewrite collect_eq, map_length, seq_length. auto. Qed.

Lemma tget_collect g i : tget (collect g) i = cnode g (kept g) i.
Proof.
  destruct (lt_dec i (length g)) as [L|L].
  - rewrite collect_eq. unfold tget at 1.
    rewrite (nth_indep _ dead_node (cnode g (kept g) 0)) by (rewrite map_length, seq_length; auto).
    rewrite map_nth, seq_nth; auto.
  - rewrite tget_overflow by (rewrite collect_length; lia).
    unfold cnode. rewrite tget_overflow by lia. reflexivity.
Qed.

Definition more_of (g : tgraph) (K : list nat) : list nat :=
  flat_map (fun i => filter (fun u => negb (mem u K)) (t_refs (tget g i))) K.

Lemma refs_ups n u : In u (t_ups n) -> In u (t_refs n).
Proof. unfold t_refs. rewrite in_app_iff. auto. Qed.

Lemma refs_alive g i u : TShape g -> alive g i -> In u (t_refs (tget g i)) -> alive g u.
Proof.
  intros Sh Ai H. unfold t_refs in H. apply in_app_iff in H. destruct H as [H|H].
  - apply (s_up _ Sh _ _ Ai H).
  - destruct (tk (tget g i)) eqn:K; simpl in H; try tauto. destruct H as [<-|[]]. apply (s_trig _ Sh i trig); auto.
Qed.

Lemma keep_S f g K : keep (S f) g K = match more_of g K with [] => K | _ => keep f g (K ++ more_of g K) end.
Proof. reflexivity. Qed.

Lemma more_of_In g K u : In u (more_of g K) <-> exists i, In i K /\ In u (t_refs (tget g i)) /\ ~ In u K.
Proof.
  unfold more_of. rewrite in_flat_map. split.
  - intros (i & Hi & H). apply filter_In in H. destruct H as [H1 H2]. exists i. split; auto. split; auto.
    apply mem_false. destruct (mem u K); auto; discriminate.
  - intros (i & Hi & H1 & H2). exists i. split; auto. apply filter_In. split; auto.
    apply mem_false in H2. rewrite H2. auto.
Qed.

Lemma keep_incl f g : forall K i, In i K -> In i (keep f g K).
Proof.
  induction f as [|f IH]; intros K i H; auto. rewrite keep_S.
  destruct (more_of g K); auto. apply IH. apply in_app_iff; auto.
Qed.

Lemma keep_pres (P : nat -> Prop) g :
  (forall i u, P i -> In u (t_refs (tget g i)) -> P u) ->
  forall f K, (forall i, In i K -> P i) -> forall i, In i (keep f g K) -> P i.
Proof.
  intros HP. induction f as [|f IH]; intros K HK i Hi; auto. rewrite keep_S in Hi.
  destruct (more_of g K) eqn:E; auto. rewrite <- E in Hi. eapply IH; [|exact Hi].
  intros j Hj. apply in_app_iff in Hj. destruct Hj as [Hj|Hj]; auto.
  apply more_of_In in Hj. destruct Hj as (i0 & H0 & H1 & _). eauto.
Qed.

Lemma keep_from g : forall f K i, In i (keep f g K) ->
  In i K \/ exists j, In j (keep f g K) /\ In i (t_refs (tget g j)).
Proof.
  induction f as [|f IH]; intros K i Hi; auto. rewrite keep_S in *.
  destruct (more_of g K) eqn:E; auto. rewrite <- E in *.
  destruct (IH _ _ Hi) as [H|H]; auto.
  apply in_app_iff in H. destruct H as [H|H]; auto.
  apply more_of_In in H. destruct H as (j & Hj & Hu & _). right. exists j. split; auto.
  apply keep_incl. apply in_app_iff; auto.
Qed.

Definition closed (g : tgraph) (K : list nat) : Prop :=
  forall i u, In i K -> In u (t_refs (tget g i)) -> In u K.

Lemma more_nil_closed g K : more_of g K = [] -> closed g K.
Proof.
  intros E i u Hi Hu. destruct (in_dec Nat.eq_dec u K) as [|N]; auto.
  assert (H : In u (more_of g K)) by (apply more_of_In; eauto). rewrite E in H. destruct H.
Qed.

Lemma filter_length_le {A} (p q : A -> bool) l :
  (forall x, In x l -> q x = true -> p x = true) -> length (filter q l) <= length (filter p l).
Proof.
  induction l as [|a l IH]; intros H; simpl; auto.
  assert (IH' : length (filter q l) <= length (filter p l)) by (apply IH; intros; apply H; simpl; auto).
  destruct (q a) eqn:Q.
  - rewrite (H a (or_introl eq_refl) Q). simpl. lia.
  - destruct (p a); simpl; lia.
Qed.

Lemma filter_length_lt {A} (p q : A -> bool) l x :
  (forall x, In x l -> q x = true -> p x = true) -> In x l -> p x = true -> q x = false ->
  length (filter q l) < length (filter p l).
Proof.
  induction l as [|a l IH]; intros H Hin Px Qx; simpl; [destruct Hin|].
  assert (LE : length (filter q l) <= length (filter p l)) by (apply filter_length_le; intros; apply H; simpl; auto).
  destruct Hin as [->|Hin].
  - rewrite Px, Qx. simpl. lia.
  - assert (LT : length (filter q l) < length (filter p l)) by (apply IH; auto; intros; apply H; simpl; auto).
    destruct (q a) eqn:Q.
    + rewrite (H a (or_introl eq_refl) Q). simpl. lia.
    + destruct (p a); simpl; lia.
Qed.

Definition miss (n : nat) (K : list nat) : nat := length (filter (fun i => negb (mem i K)) (seq 0 n)).

Lemma keep_closed g : TShape g ->
  forall f K, (forall i, In i K -> alive g i) -> miss (length g) K < f -> closed g (keep f g K).
Proof.
  intros Sh. induction f as [|f IH]; intros K HK Lt; [lia|]. rewrite keep_S.
  destruct (more_of g K) as [|h t] eqn:E.
  - apply more_nil_closed; auto.
  - rewrite <- E. apply IH.
    + intros i Hi. apply in_app_iff in Hi. destruct Hi as [Hi|Hi]; auto.
      apply more_of_In in Hi. destruct Hi as (j & Hj & Hu & _). apply (refs_alive _ _ _ Sh (HK j Hj) Hu).
    + assert (Hh : In h (more_of g K)) by (rewrite E; left; auto).
      assert (Hh' := Hh). apply more_of_In in Hh'. destruct Hh' as (j & Hj & Hu & Hn).
      assert (Ah : alive g h) by (apply (refs_alive _ _ _ Sh (HK j Hj) Hu)).
      assert (miss (length g) (K ++ more_of g K) < miss (length g) K); [|lia].
      unfold miss. apply filter_length_lt with (x := h).
      * intros x _ Hx. apply negb_true_iff in Hx. apply negb_true_iff.
        apply mem_false in Hx. apply mem_false. intros H. apply Hx. apply in_app_iff; auto.
      * apply in_seq. apply alive_lt in Ah. lia.
      * apply negb_true_iff. apply mem_false. auto.
      * apply negb_false_iff. apply mem_spec. apply in_app_iff; auto.
Qed.

Lemma is_root_alive n : is_root n = true -> t_alive n = true.
Proof. unfold is_root. intros H. apply andb_true_iff in H. tauto. Qed.

Lemma roots_In g i : In i (roots g) <-> is_root (tget g i) = true.
Proof.
  unfold roots. rewrite filter_In, in_seq. split; [tauto|]. intros H. split; auto.
  apply is_root_alive in H. apply alive_lt in H. lia.
Qed.

Lemma kept_alive g : TShape g -> forall i, In i (kept g) -> alive g i.
Proof.
  intros Sh. unfold kept. apply keep_pres.
  - intros i u Ai Hu. apply (refs_alive _ _ _ Sh Ai Hu).
  - intros i Hi. apply roots_In in Hi. apply is_root_alive; auto.
Qed.

Lemma kept_closed g : TShape g -> closed g (kept g).
Proof.
  intros Sh. unfold kept. destruct (roots g) as [|r l] eqn:E.
  - destruct (length g); simpl; intros i u [].
  - rewrite <- E. apply keep_closed; auto.
    + intros i Hi. apply roots_In in Hi. apply is_root_alive; auto.
    + assert (Hr : In r (roots g)) by (rewrite E; left; auto).
      assert (Lr : r < length g). { apply roots_In in Hr. apply is_root_alive in Hr. apply alive_lt in Hr. auto. }
      unfold miss. rewrite <- (seq_length (length g) 0) at 2.
      replace (length (seq 0 (length g))) with (length (filter (fun _ : nat => true) (seq 0 (length g)))).
      * apply filter_length_lt with (x := r); auto.
        -- apply in_seq. lia.
        -- apply negb_false_iff. apply mem_spec. auto.
      * f_equal. clear. induction (seq 0 (length g)); simpl; congruence.
Qed.

Lemma kept_roots g i : is_root (tget g i) = true -> In i (kept g).
Proof. intros H. apply keep_incl. apply roots_In; auto. Qed.

(* what collect does to a node *)
Lemma collect_alive g i : TShape g -> (alive (collect g) i <-> In i (kept g)).
Proof.
  intros Sh. unfold alive. rewrite tget_collect. unfold cnode.
  destruct (t_alive (tget g i) && mem i (kept g)) eqn:E.
  - apply andb_true_iff in E. destruct E as [E1 E2]. apply mem_spec in E2. simpl. tauto.
  - simpl. split; [discriminate|]. intros H. pose proof (kept_alive g Sh i H) as A. unfold alive in A.
    apply mem_spec in H. rewrite A, H in E. discriminate.
Qed.

Lemma collect_node g i : In i (kept g) -> TShape g ->
  tget (collect g) i = with_downs (tget g i) (filter (fun d => t_alive (tget g d) && mem d (kept g)) (t_downs (tget g i))).
Proof.
  intros H Sh. rewrite tget_collect. unfold cnode.
  pose proof (kept_alive g Sh i H) as A. unfold alive in A. apply mem_spec in H. rewrite A, H. reflexivity.
Qed.

Lemma collect_inv g : TInv0 g -> TInv0 (collect g).
Proof.
  intros [Sh Da Nw].
  pose proof (kept_closed g Sh) as Cl. pose proof (kept_alive g Sh) as Ka.
  assert (AL : forall i, alive (collect g) i <-> In i (kept g)) by (intros; apply collect_alive; auto).
  constructor.
  - constructor.
    + intros d u Ad Hu. apply AL in Ad. rewrite collect_node in Hu by auto. simpl in Hu.
      apply (s_ups_lt _ Sh d u); auto.
    + intros i Ai. apply AL in Ai. rewrite collect_node by auto. simpl. apply (s_nd_ups _ Sh); auto.
    + intros i Ai. apply AL in Ai. rewrite collect_node by auto. simpl. apply NoDup_filter. apply (s_nd_downs _ Sh); auto.
    + intros u d Au Hd. apply AL in Au. rewrite collect_node in Hd by auto. simpl in Hd.
      apply filter_In in Hd. destruct Hd as [Hd E]. apply andb_true_iff in E. destruct E as [E1 E2].
      apply mem_spec in E2. split; [apply AL; auto|]. rewrite collect_node by auto. simpl.
      apply (s_down _ Sh u d); auto.
    + intros u d Ad Hu. apply AL in Ad. rewrite collect_node in Hu by auto. simpl in Hu.
      assert (Ku : In u (kept g)) by (eapply Cl; eauto using refs_ups).
      split; [apply AL; auto|]. rewrite collect_node by auto. simpl. apply filter_In. split.
      * apply (s_up _ Sh u d); auto.
      * apply andb_true_iff. split; [apply Ka; auto|apply mem_spec; auto].
    + intros d t Ad Kd. apply AL in Ad. apply AL. rewrite collect_node in Kd by auto. simpl in Kd.
      apply (Cl d t Ad). unfold t_refs. rewrite Kd. apply in_app_iff. right. left. auto.
  - intros i Ai. apply AL in Ai. rewrite collect_node by auto.
    eapply ndata_ext; [| | | |apply (Da i (Ka i Ai))]; auto.
  - intros i Ai. apply AL in Ai. rewrite collect_node by auto.
    eapply nnw_ext; [| | |apply (Nw i (Ka i Ai))]; auto.
Qed.

(* ================================================================================================ *)
(* Part 4b: edits as such (shared by the top-level operations and by the reactive sink)              *)
(* ================================================================================================ *)

Definition held_node (g : tgraph) (n : nat) : Prop :=
  n < length g /\ t_alive (tget g n) = true /\ t_held (tget g n) = true.

(* what a program can do with an edit, in histories without parallel edges *)
Definition wf_edit (g : tgraph) (e : tedit) : Prop :=
  match e with
  | EConnect u d =>
      held_node g u /\ held_node g d /\ u < d /\ ~ In u (t_ups (tget g d)) /\ sinkb (tk (tget g u)) = false
  | EDisconnect u d => held_node g u /\ held_node g d
  | EDestroy n => held_node g n /\ ~ (sinkb (tk (tget g n)) = true /\ t_reg (tget g n) = false)
  end.

Definition destroy_g (g : tgraph) (n : nat) : tgraph :=
  let g1 := destroy_fold g n (t_ups (tget g n)) in
  tset g1 n (with_flags (tget g1 n) (t_held (tget g1 n)) false (t_alive (tget g1 n))).

Lemma tedit0_connect g u d : tedit0 g (EConnect u d) = (connect_g g u d, ROk, []).
Proof. reflexivity. Qed.
Lemma tedit0_disconnect g u d :
  tedit0 g (EDisconnect u d) =
  if mem d (t_downs (tget g u)) then
    let g2 := disconnect_g g u d in
    match tk (tget g2 d) with
    | TZip => let '(g3, l) := zip_drain (S (btotal (t_bufs (tget g2 d)))) g2 d in (g3, ROk, l)
    | _ => (g2, ROk, [])
    end
  else (g, RRaise, []).
Proof. reflexivity. Qed.
Lemma tedit0_destroy g n : tedit0 g (EDestroy n) = (destroy_g g n, ROk, []).
Proof. reflexivity. Qed.

(* flags after an edit: only destroy un-registers, and only its own node *)
Definition flags_edit (g g' : tgraph) (e : tedit) : Prop :=
  length g' = length g /\
  forall i, t_alive (tget g' i) = t_alive (tget g i) /\ tk (tget g' i) = tk (tget g i) /\
            t_held (tget g' i) = t_held (tget g i) /\
            (t_reg (tget g' i) = t_reg (tget g i) \/ e = EDestroy i).

Lemma flags_kept_edit g g' e : flags_kept g g' -> flags_edit g g' e.
Proof.
  intros [L H]. split; auto. intros i. destruct (H i) as (a & b & c & d). auto.
Qed.

Lemma edit0_ok g e :
  TInv0 g -> wf_edit g e ->
  TInv0 (fst (fst (tedit0 g e))) /\ flags_edit g (fst (fst (tedit0 g e))) e.
Proof.
  intros I W. destruct e as [u d|u d|n].
  - (* connect *)
    rewrite tedit0_connect. cbn [fst]. destruct W as ((_ & Au & _) & (_ & Ad & _) & Lt & Hn & _).
    destruct (connect_inv g u d I Au Ad Lt Hn). split; auto. apply flags_kept_edit; auto.
  - (* disconnect *)
    rewrite tedit0_disconnect. destruct W as ((_ & Au & _) & (_ & Ad & _)).
    destruct (mem d (t_downs (tget g u))) eqn:M.
    + apply mem_spec in M. cbv zeta. destruct I as [Sh Da Nw].
      destruct (disconnect_raw g u d Sh Da Au Ad M) as (Sh1 & Da1 & Fl1 & Nw1 & _).
      set (g2 := disconnect_g g u d) in *.
      assert (Nw2 : forall i, i <> d -> alive g2 i -> nnw (tget g2 i)).
      { intros i Ni Ai. apply Nw1; auto. apply Nw. apply (flags_kept_alive _ _ _ Fl1); auto. }
      assert (Ad2 : alive g2 d) by (apply (flags_kept_alive _ _ _ Fl1); auto).
      assert (NZ : tk (tget g2 d) <> TZip -> TInv0 g2 /\ flags_edit g g2 (EDisconnect u d)).
      { intros K. split; [|apply flags_kept_edit; auto]. constructor; auto.
        intros i Ai. destruct (Nat.eq_dec i d) as [->|]; auto. intros K'. congruence. }
      destruct (tk (tget g2 d)) eqn:K; try (cbn [fst]; apply NZ; congruence).
      destruct (zip_drain (S (btotal (t_bufs (tget g2 d)))) g2 d) as [g3 l] eqn:E. cbn [fst].
      destruct (zip_drain_spec _ g2 d Sh1 Da1 Nw2 Ad2 (Nat.lt_succ_diag_r _) _ _ E) as (F & Da3 & Nw3).
      split.
      * constructor; auto. eapply TShape_frame; eauto.
      * apply flags_kept_edit. eapply flags_kept_trans; eauto. apply frame_flags_kept; auto.
    + cbn [fst]. split; auto. apply flags_kept_edit. apply flags_kept_refl.
  - (* destroy *)
    rewrite tedit0_destroy. cbn [fst]. destruct W as ((_ & An & Hn) & _). destruct I as [Sh Da Nw].
    destruct (destroy_fold_spec n _ g Sh Da An eq_refl) as (Sh1 & Da1 & Fl1 & Nw1 & Up1 & _).
    unfold destroy_g. set (g1 := destroy_fold g n (t_ups (tget g n))) in *. cbv zeta.
    split.
    + apply flags_inv. constructor; auto.
      intros i Ai. destruct (Nat.eq_dec i n) as [->|N].
      * intros _. apply zip_ready_false. auto.
      * apply Nw1; auto. apply Nw. apply (flags_kept_alive _ _ _ Fl1); auto.
    + destruct Fl1 as [L1 H1]. split; [rewrite tset_length; auto|]. intros i.
      destruct (H1 i) as (a & b & c & e).
      destruct (Nat.eq_dec n i) as [->|N].
      * rewrite tget_tset_eq by (rewrite L1; apply alive_lt; auto). simpl. rewrite a, b, e. auto.
      * rewrite tget_tset_neq by auto. rewrite a, b, c, e. auto.
Qed.

Lemma held_node_frame g g' n : frame g g' -> held_node g n -> held_node g' n.
Proof.
  intros F (L & A & H). unfold held_node. rewrite (fr_alive _ _ _ F), (fr_held _ _ _ F), <- (proj1 F). auto.
Qed.

Lemma wf_edit_frame g g' e : frame g g' -> wf_edit g e -> wf_edit g' e.
Proof.
  intros F W. destruct e as [u d|u d|n]; simpl in *.
  - destruct W as (A & B & C & D & E). rewrite (fr_ups _ _ _ F), (fr_tk _ _ _ F).
    split; [|split; [|split; [|split]]]; eauto using held_node_frame.
  - destruct W as (A & B). split; eauto using held_node_frame.
  - destruct W as (A & B). rewrite (fr_tk _ _ _ F), (fr_reg _ _ _ F). split; eauto using held_node_frame.
Qed.

Lemma heldb_sound g n : heldb g n = true -> held_node g n.
Proof.
  unfold heldb, held_node. intros H. apply andb_true_iff in H. destruct H as [H H3].
  apply andb_true_iff in H. destruct H as [H1 H2]. apply Nat.ltb_lt in H1. auto.
Qed.
Lemma heldb_complete g n : held_node g n -> heldb g n = true.
Proof.
  unfold heldb, held_node. intros (A & B & C). rewrite B, C. apply Nat.ltb_lt in A. rewrite A. reflexivity.
Qed.

Lemma apply_edit_wf g e : wf_edit g e -> apply_edit g e = tedit0 g e.
Proof.
  intros W. unfold apply_edit.
  replace (forallb (heldb g) (edit_nodes e)) with true; auto. symmetry.
  destruct e as [u d|u d|n]; simpl in *.
  - destruct W as (A & B & _). rewrite !heldb_complete; auto.
  - destruct W as (A & B). rewrite !heldb_complete; auto.
  - destruct W as (A & _). rewrite !heldb_complete; auto.
Qed.

(* ================================================================================================ *)
(* Part 4c: an emission during which a reactive sink edits the graph                                 *)
(* ================================================================================================ *)

(* the body of the loop of Stream._emit in rdeliver: the loop walks the snapshot of the downstreams of n taken when it
   started; a child that is no longer among the downstreams of n in the CURRENT graph (detached by the edit before it
   was served) is skipped; a child attached during the emission is not in the snapshot and is served only by the
   emissions that start later *)

Definition rstep (f n : nat) (x : val) (acc : rstate) (d : nat) : rstate :=
  let '(g, p, raised, log) := acc in
  if raised then acc else
  if negb (mem d (t_downs (tget g n))) then acc else      (* detached since the snapshot: skipped *)
  let nd := tget g d in
  let log := log ++ [(n, d, x)] in
  match tk nd with
  | TPipe => let '(g', p', r', l') := rdeliver f g p d x in (g', p', r', log ++ l')
  | TSink => (g, p, false, log)
  | TRSink =>
      match p with
      | Some (t, e) =>
          if t =? d then let '(g', _, l') := apply_edit g e in (g', None, false, log ++ l')
          else (g, p, false, log)
      | None => (g, p, false, log)
      end
  | TZip =>
      if mem n (map fst (t_bufs nd)) then
        let L := buf_get n (t_bufs nd) ++ [x] in
        let nd1 := with_bufs nd (buf_set n L (t_bufs nd)) in
        if (length L =? 1) && zip_ready nd1 then
          let tup := VTup (zip_heads nd1) in
          let g1 := tset g d (zip_pop nd1) in
          let '(g', p', r', l') := rdeliver f g1 p d tup in (g', p', r', log ++ l')
        else (tset g d nd1, p, false, log)
      else (g, p, true, log)
  | TCombine =>
      if mem n (t_ups nd) then
        let last' := set_at (index_nat n (t_ups nd)) (Some x) (t_last nd) in
        let g1 := tset g d (with_last nd last') in
        match all_some_v last' with
        | Some vs => let '(g', p', r', l') := rdeliver f g1 p d (VTup vs) in (g', p', r', log ++ l')
        | None => (g1, p, false, log)
        end
      else (g, p, true, log)
  | TCombineOn t =>
      if mem n (t_ups nd) then
        let last' := set_at (index_nat n (t_ups nd)) (Some x) (t_last nd) in
        let g1 := tset g d (with_last nd last') in
        match all_some_v last' with
        | Some vs =>
            if n =? t then let '(g', p', r', l') := rdeliver f g1 p d (VTup vs) in (g', p', r', log ++ l')
            else (g1, p, false, log)
        | None => (g1, p, false, log)
        end
      else (g, p, true, log)
  end.

Lemma rdeliver_S f g p n x :
  rdeliver (S f) g p n x = fold_left (rstep f n x) (t_downs (tget g n)) (g, p, false, []).
Proof. reflexivity. Qed.

(* the pending edit stays legal as long as only per-input state changes *)
Definition pend_ok (g : tgraph) (p : rpend) : Prop :=
  match p with None => True | Some (_, e) => wf_edit g e end.

(* how the graph can change during such an emission: only per-input state (frame), or per-input state, then
   THE edit, then per-input state *)
Inductive evolve (g : tgraph) (p : rpend) (g' : tgraph) (p' : rpend) : Prop :=
| ev_frame : p' = p -> frame g g' -> evolve g p g' p'
| ev_edit t e g1 : p = Some (t, e) -> p' = None -> frame g g1 -> TInv0 g1 -> wf_edit g1 e ->
    frame (fst (fst (tedit0 g1 e))) g' -> evolve g p g' p'.

Lemma evolve_refl g p : evolve g p g p.
Proof. apply ev_frame; auto. apply frame_refl. Qed.

Lemma evolve_trans g p g1 p1 g2 p2 : evolve g p g1 p1 -> evolve g1 p1 g2 p2 -> evolve g p g2 p2.
Proof.
  intros [E1 F1|t e ga E1 E1' F1 I1 W1 F1'] [E2 F2|t2 e2 gb E2 E2' F2 I2 W2 F2'].
  - apply ev_frame; [congruence|eapply frame_trans; eauto].
  - subst p1. apply (ev_edit g p g2 p2 t2 e2 gb); auto. eapply frame_trans; eauto.
  - apply (ev_edit g p g2 p2 t e ga); auto; [congruence|eapply frame_trans; eauto].
  - congruence.
Qed.

Lemma evolve_frame_l g p g1 g' p' : frame g g1 -> evolve g1 p g' p' -> evolve g p g' p'.
Proof. intros F E. eapply evolve_trans; [apply ev_frame; eauto|eauto]. Qed.

Lemma pend_ok_frame g g' p : frame g g' -> pend_ok g p -> pend_ok g' p.
Proof. destruct p as [[t e]|]; simpl; auto. apply wf_edit_frame. Qed.

Lemma TInv0_tset g d nd :
  TInv0 g -> same_shape (tget g d) nd -> (alive g d -> ndata nd) -> (alive g d -> nnw nd) -> TInv0 (tset g d nd).
Proof.
  intros [Sh Da Nw] S Hd Hn. constructor.
  - eapply TShape_frame; [apply frame_tset; eauto|auto].
  - apply TData_tset; auto.
  - intros i Hi. destruct (Nat.eq_dec d i) as [->|N].
    + destruct (lt_dec i (length g)).
      * rewrite tget_tset_eq; auto. apply Hn.
        unfold alive in *. rewrite tget_tset_eq in Hi; auto. destruct S as (?&?&?&?&?&?); congruence.
      * rewrite tset_overflow in * by lia. auto.
    + unfold alive in *. rewrite tget_tset_neq in *; auto.
Qed.

Definition rspec (f : nat) : Prop :=
  forall g p n x g' p' r log, TInv0 g -> pend_ok g p -> rdeliver f g p n x = (g', p', r, log) ->
  TInv0 g' /\ pend_ok g' p' /\ evolve g p g' p'.

Lemma rstep_spec f n x ga pa ra la d g' p' r' l' :
  rspec f -> TInv0 ga -> pend_ok ga pa -> rstep f n x (ga, pa, ra, la) d = (g', p', r', l') ->
  TInv0 g' /\ pend_ok g' p' /\ evolve ga pa g' p'.
Proof.
  intros IH I P E. unfold rstep in E. destruct ra.
  { inversion E; subst. auto using evolve_refl. }
  destruct (negb (mem d (t_downs (tget ga n)))).
  { inversion E; subst. auto using evolve_refl. }
  destruct (tk (tget ga d)) eqn:K.
  - (* pipe *)
    destruct (rdeliver f ga pa d x) as [[[g2 p2] r2] l2] eqn:E2. inversion E; subst. eapply IH; eauto.
  - inversion E; subst. auto using evolve_refl.
  - (* zip *)
    set (nd := tget ga d) in *.
    destruct (mem n (map fst (t_bufs nd))) eqn:M; [|inversion E; subst; auto using evolve_refl].
    apply mem_spec in M.
    set (L := buf_get n (t_bufs nd) ++ [x]) in *.
    set (nd1 := with_bufs nd (buf_set n L (t_bufs nd))) in *.
    assert (Keq : map fst (buf_set n L (t_bufs nd)) = keys nd) by (apply keys_buf_set_in; auto).
    assert (Hk : alive ga d -> NoDup (keys nd) /\ forall u, In u (keys nd) <-> In u (t_ups nd)).
    { intros Ad. destruct (i_data _ I d Ad) as (_ & Hz). apply Hz; auto. }
    destruct ((length L =? 1) && zip_ready nd1) eqn:C.
    + apply andb_true_iff in C. destruct C as [C1 C2]. apply Nat.eqb_eq in C1.
      destruct (rdeliver f (tset ga d (zip_pop nd1)) pa d (VTup (zip_heads nd1))) as [[[g2 p2] r2] l2] eqn:E2.
      inversion E; subst.
      assert (SS : same_shape (tget ga d) (zip_pop nd1)) by (unfold same_shape; simpl; auto 10).
      assert (I1 : TInv0 (tset ga d (zip_pop nd1))).
      { apply TInv0_tset; auto.
        - intros Ad. destruct (Hk Ad) as (Nk & Hk'). split; simpl; [fold nd; nocomb|]. intros _. unfold keys. simpl.
          change (fun kb : nat * list val => (fst kb, tl (snd kb))) with popf.
          rewrite keys_pop, Keq. auto.
        - intros Ad _. destruct (Hk Ad) as (Nk & Hk'). apply zip_ready_false. right. exists n. split; [apply Hk'; exact M|].
          simpl. change (fun kb : nat * list val => (fst kb, tl (snd kb))) with popf.
          rewrite buf_get_pop, buf_get_set_eq.
          unfold L in *. destruct (buf_get n (t_bufs nd)); simpl in *; auto.
          rewrite app_length in C1. simpl in C1. lia. }
      assert (F1 : frame ga (tset ga d (zip_pop nd1))) by (apply frame_tset; auto).
      destruct (IH _ _ _ _ _ _ _ _ I1 (pend_ok_frame _ _ _ F1 P) E2) as (I2 & P2 & Ev2).
      split; auto. split; auto. eapply evolve_frame_l; eauto.
    + inversion E; subst.
      assert (SS : same_shape (tget ga d) nd1) by (unfold same_shape; simpl; auto 10).
      assert (F1 : frame ga (tset ga d nd1)) by (apply frame_tset; auto).
      split; [|split; [eapply pend_ok_frame; eauto|apply ev_frame; auto]].
      apply TInv0_tset; auto.
      * intros Ad. destruct (Hk Ad) as (Nk & Hk'). split; simpl; [fold nd; nocomb|]. intros _. unfold keys. simpl.
        rewrite Keq. auto.
      * intros Ad _. destruct (Hk Ad) as (Nk & Hk'). apply andb_false_iff in C. destruct C as [C|C]; auto.
        apply Nat.eqb_neq in C.
        assert (Hold : buf_get n (t_bufs nd) <> []).
        { intros E0. apply C. unfold L. rewrite E0. auto. }
        assert (R : zip_ready nd = false) by (apply (i_nw _ I d Ad K)).
        apply zip_ready_false in R. apply zip_ready_false. simpl.
        destruct R as [R | (u & Hu & Eu)]; auto. right. exists u. split; auto.
        rewrite buf_get_set_neq; auto. intros <-. auto.
  - (* combine_latest *)
    set (nd := tget ga d) in *.
    destruct (mem n (t_ups nd)) eqn:M; [|inversion E; subst; auto using evolve_refl].
    set (last' := set_at (index_nat n (t_ups nd)) (Some x) (t_last nd)) in *.
    assert (SS : same_shape (tget ga d) (with_last nd last')) by (unfold same_shape; simpl; auto 10).
    assert (F1 : frame ga (tset ga d (with_last nd last'))) by (apply frame_tset; auto).
    assert (I1 : TInv0 (tset ga d (with_last nd last'))).
    { apply TInv0_tset; auto.
      - intros Ad. split; simpl; [|fold nd; congruence]. intros _. unfold last'. rewrite set_at_length.
        destruct (i_data _ I d Ad) as (Hc & _). apply Hc; auto. fold nd. rewrite K. reflexivity.
      - intros _ K'. simpl in K'. fold nd in K'. congruence. }
    destruct (all_some_v last') as [vs|].
    + destruct (rdeliver f (tset ga d (with_last nd last')) pa d (VTup vs)) as [[[g2 p2] r2] l2] eqn:E2.
      inversion E; subst.
      destruct (IH _ _ _ _ _ _ _ _ I1 (pend_ok_frame _ _ _ F1 P) E2) as (I2 & P2 & Ev2).
      split; auto. split; auto. eapply evolve_frame_l; eauto.
    + inversion E; subst. split; auto. split; [eapply pend_ok_frame; eauto|apply ev_frame; auto].
  - (* reactive sink *)
    destruct pa as [[t e]|]; [|inversion E; subst; auto using evolve_refl].
    destruct (t =? d); [|inversion E; subst; auto using evolve_refl].
    simpl in P. rewrite (apply_edit_wf _ _ P) in E.
    destruct (tedit0 ga e) as [[g2 r2] l2] eqn:E2. inversion E; subst.
    destruct (edit0_ok ga e I P) as (I2 & _). rewrite E2 in I2. cbn [fst] in I2.
    split; auto. split; [exact Logic.I|].
    eapply ev_edit; eauto using frame_refl. rewrite E2. apply frame_refl.
  - (* combine_latest with an explicit emit_on *)
    set (nd := tget ga d) in *.
    destruct (mem n (t_ups nd)) eqn:M; [|inversion E; subst; auto using evolve_refl].
    set (last' := set_at (index_nat n (t_ups nd)) (Some x) (t_last nd)) in *.
    assert (SS : same_shape (tget ga d) (with_last nd last')) by (unfold same_shape; simpl; auto 10).
    assert (F1 : frame ga (tset ga d (with_last nd last'))) by (apply frame_tset; auto).
    assert (I1 : TInv0 (tset ga d (with_last nd last'))).
    { apply TInv0_tset; auto.
      - intros Ad. split; simpl; [|fold nd; congruence]. intros _. unfold last'. rewrite set_at_length.
        destruct (i_data _ I d Ad) as (Hc & _). apply Hc; auto. fold nd. rewrite K. reflexivity.
      - intros _ K'. simpl in K'. fold nd in K'. congruence. }
    destruct (all_some_v last') as [vs|]; [destruct (n =? trig)|].
    + destruct (rdeliver f (tset ga d (with_last nd last')) pa d (VTup vs)) as [[[g2 p2] r2] l2] eqn:E2.
      inversion E; subst.
      destruct (IH _ _ _ _ _ _ _ _ I1 (pend_ok_frame _ _ _ F1 P) E2) as (I2 & P2 & Ev2).
      split; auto. split; auto. eapply evolve_frame_l; eauto.
    + inversion E; subst. split; auto. split; [eapply pend_ok_frame; eauto|apply ev_frame; auto].
    + inversion E; subst. split; auto. split; [eapply pend_ok_frame; eauto|apply ev_frame; auto].
Qed.

Lemma rfold_spec f n x : rspec f ->
  forall l ga pa ra la g' p' r' l', TInv0 ga -> pend_ok ga pa ->
  fold_left (rstep f n x) l (ga, pa, ra, la) = (g', p', r', l') ->
  TInv0 g' /\ pend_ok g' p' /\ evolve ga pa g' p'.
Proof.
  intros IH. induction l as [|d l IHl]; intros ga pa ra la g' p' r' l' I P E; cbn [fold_left] in E.
  - inversion E; subst. auto using evolve_refl.
  - destruct (rstep f n x (ga, pa, ra, la) d) as [[[g1 p1] r1] l1] eqn:E1.
    destruct (rstep_spec _ _ _ _ _ _ _ _ _ _ _ _ IH I P E1) as (I1 & P1 & Ev1).
    destruct (IHl _ _ _ _ _ _ _ _ I1 P1 E) as (I2 & P2 & Ev2).
    split; auto. split; auto. eapply evolve_trans; eauto.
Qed.

Lemma rdeliver_rspec : forall f, rspec f.
Proof.
  induction f as [|f IH]; intros g p n x g' p' r log I P E.
  - simpl in E. inversion E; subst. auto using evolve_refl.
  - rewrite rdeliver_S in E. eapply rfold_spec; eauto.
Qed.

Lemma evolve_flags g p g' p' : evolve g p g' p' ->
  length g' = length g /\
  forall i, t_alive (tget g' i) = t_alive (tget g i) /\ tk (tget g' i) = tk (tget g i) /\
            t_held (tget g' i) = t_held (tget g i) /\
            (t_reg (tget g' i) = t_reg (tget g i) \/ exists t, p = Some (t, EDestroy i)).
Proof.
  intros [E1 F1|t e g1 E1 E1' F1 I1 W1 F1'].
  - split; [symmetry; apply F1|]. intros i.
    rewrite (fr_alive _ _ _ F1), (fr_tk _ _ _ F1), (fr_held _ _ _ F1), (fr_reg _ _ _ F1). auto.
  - destruct (edit0_ok g1 e I1 W1) as (_ & L & H).
    split; [rewrite <- (proj1 F1'), L; symmetry; apply F1|]. intros i.
    rewrite (fr_alive _ _ _ F1'), (fr_tk _ _ _ F1'), (fr_held _ _ _ F1'), (fr_reg _ _ _ F1').
    destruct (H i) as (a & b & c & d). rewrite a, b, c.
    rewrite (fr_alive _ _ _ F1), (fr_tk _ _ _ F1), (fr_held _ _ _ F1).
    repeat split; auto. destruct d as [d|d].
    + left. rewrite d. apply (fr_reg _ _ _ F1).
    + right. exists t. congruence.
Qed.

(* ================================================================================================ *)
(* Part 5: legal histories                                                                           *)
(* ================================================================================================ *)

(* what a program can do, in histories without parallel edges.  A re-entrant edit (ORemit) is an edit the program
   could also make between two emissions; the reference-counting collector is modelled at the end of a step, so the
   model covers the emissions whose edit frees nothing while the element is still in flight *)
Definition wf_op (g : tgraph) (o : top) : Prop :=
  match o with
  | ONew k ups =>
      NoDup ups /\ (forall u, In u ups -> held_node g u /\ sinkb (tk (tget g u)) = false) /\
      match k with
      | TPipe => True
      | TSink | TRSink => length ups = 1
      | TZip | TCombine => ups <> []
      | TCombineOn t => match ups with u :: _ => u = t | [] => False end   (* emit_on = the first input *)
      end
  | OEmit n _ => held_node g n
  | OConnect u d => wf_edit g (EConnect u d)
  | ODisconnect u d => wf_edit g (EDisconnect u d)
  | ODestroy n => wf_edit g (EDestroy n)
  | ODrop n => held_node g n
  | ORemit n _ t e =>
      held_node g n /\ held_node g t /\ tk (tget g t) = TRSink /\ wf_edit g e /\
      (forall i, alive g i -> alive (collect (fst (fst (tedit0 g e)))) i)
  end.

Definition step_g (g : tgraph) (o : top) : tgraph := fst (fst (tstep g o)).

Fixpoint run_ops (g : tgraph) (ops : list top) : tgraph :=
  match ops with [] => g | o :: rest => run_ops (step_g g o) rest end.
Fixpoint legal (g : tgraph) (ops : list top) : Prop :=
  match ops with [] => True | o :: rest => wf_op g o /\ legal (step_g g o) rest end.
Definition reachable (g : tgraph) : Prop := exists ops, legal [] ops /\ run_ops [] ops = g.

Lemma step_g_eq g o : step_g g o = collect (fst (fst (tstep0 g o))).
Proof. unfold step_g, tstep. destruct (tstep0 g o) as [[g' r] l]. reflexivity. Qed.

Lemma tstep0_disconnect g u d :
  tstep0 g (ODisconnect u d) =
  if mem d (t_downs (tget g u)) then
    let g2 := disconnect_g g u d in
    match tk (tget g2 d) with
    | TZip => let '(g3, l) := zip_drain (S (btotal (t_bufs (tget g2 d)))) g2 d in (g3, ROk, l)
    | _ => (g2, ROk, [])
    end
  else (g, RRaise, []).
Proof. reflexivity. Qed.

Definition drop_g (g : tgraph) (n : nat) : tgraph :=
  tset g n (with_flags (tget g n) false (t_reg (tget g n)) (t_alive (tget g n))).

Lemma tstep0_new g k ups : tstep0 g (ONew k ups) = (new_g g k ups, ROk, []).
Proof. reflexivity. Qed.
Lemma tstep0_connect g u d : tstep0 g (OConnect u d) = (connect_g g u d, ROk, []).
Proof. reflexivity. Qed.
Lemma tstep0_destroy g n : tstep0 g (ODestroy n) = (destroy_g g n, ROk, []).
Proof. reflexivity. Qed.
Lemma tstep0_drop g n : tstep0 g (ODrop n) = (drop_g g n, ROk, []).
Proof. reflexivity. Qed.
Lemma tstep0_emit g n x :
  tstep0 g (OEmit n x) = let '(g', l) := temit (S (length g)) g n x in (g', ROk, l).
Proof. reflexivity. Qed.

Lemma tstep0_remit g n x t e :
  tstep0 g (ORemit n x t e) =
  let '(g', _, r, l) := rdeliver (S (length g)) g (Some (t, e)) n x in (g', if r then RRaise else ROk, l).
Proof. reflexivity. Qed.

(* the step un-registers node i (a destroy, also one made from inside a callback) *)
Definition destroys (o : top) (i : nat) : Prop :=
  o = ODestroy i \/ exists n x t, o = ORemit n x t (EDestroy i).

(* flags of the nodes that were alive before the step (before collection) *)
Definition flags_step (g g' : tgraph) (o : top) : Prop :=
  forall i, alive g i ->
    t_alive (tget g' i) = true /\ tk (tget g' i) = tk (tget g i) /\
    (t_reg (tget g' i) = t_reg (tget g i) \/ destroys o i) /\
    (t_held (tget g' i) = t_held (tget g i) \/ o = ODrop i).

Lemma flags_kept_step g g' o : flags_kept g g' -> flags_step g g' o.
Proof.
  intros [_ H] i Ai. destruct (H i) as (a & b & c & d). unfold alive in Ai.
  rewrite a, b, c, d. auto.
Qed.

Lemma flags_edit_step g g' e o : flags_edit g g' e -> (forall i, e = EDestroy i -> destroys o i) -> flags_step g g' o.
Proof.
  intros [_ H] Hd i Ai. destruct (H i) as (a & b & c & d). unfold alive in Ai.
  rewrite a, b, c. repeat split; auto. destruct d; auto.
Qed.

Lemma tget_tset_same_flags g n nd i :
  (n < length g -> t_alive nd = t_alive (tget g n) /\ tk nd = tk (tget g n)) ->
  t_alive (tget (tset g n nd) i) = t_alive (tget g i) /\ tk (tget (tset g n nd) i) = tk (tget g i).
Proof.
  intros H. destruct (Nat.eq_dec n i) as [->|N].
  - destruct (lt_dec i (length g)).
    + rewrite tget_tset_eq; auto.
    + rewrite tset_overflow by lia. auto.
  - rewrite tget_tset_neq; auto.
Qed.

Lemma step0_ok g o :
  TInv0 g -> wf_op g o ->
  TInv0 (fst (fst (tstep0 g o))) /\ flags_step g (fst (fst (tstep0 g o))) o.
Proof.
  intros I W. destruct o as [k ups|n x|u d|u d|n|n|n x t e].
  - (* new *)
    rewrite tstep0_new. cbn [fst]. destruct W as (Nd & Hu & Hk).
    assert (Hal : forall u, In u ups -> alive g u) by (intros u H; apply Hu in H; apply H).
    split.
    + apply new_inv; auto; [intros ->; auto|].
      intros t ->. destruct ups as [|u0 ups0]; [tauto|]. subst. left; auto.
    + destruct (new_g_spec g k ups (i_shape _ I) Nd Hal) as (L & Gn & Gu & Go).
      intros i Ai. pose proof (alive_lt _ _ Ai). unfold alive in Ai.
      destruct (in_dec Nat.eq_dec i ups).
      * rewrite Gu by auto. simpl. auto.
      * rewrite Go by (auto; lia). auto.
  - (* emit *)
    rewrite tstep0_emit. destruct (temit (S (length g)) g n x) as [g' l] eqn:E. cbn [fst].
    destruct W as (_ & An & _). split.
    + eapply temit_inv; eauto.
    + apply flags_kept_step. apply frame_flags_kept.
      destruct I as [Sh Da Nw]. eapply (temit_espec _ g n x Sh Da (TNW_above _ Nw n) An); eauto.
  - (* connect *)
    destruct (edit0_ok g (EConnect u d) I W) as (I' & Fl). split; auto.
    eapply flags_edit_step; eauto. discriminate.
  - (* disconnect *)
    destruct (edit0_ok g (EDisconnect u d) I W) as (I' & Fl). split; auto.
    eapply flags_edit_step; eauto. discriminate.
  - (* destroy *)
    destruct (edit0_ok g (EDestroy n) I W) as (I' & Fl). split; auto.
    eapply flags_edit_step; eauto. intros i Ei. inversion Ei; subst. left; auto.
  - (* drop *)
    rewrite tstep0_drop. cbn [fst]. split.
    + apply flags_inv; auto.
    + intros i Ai. unfold drop_g. unfold alive in Ai. destruct (Nat.eq_dec n i) as [->|N].
      * rewrite tget_tset_eq by (apply alive_lt; auto). simpl. auto.
      * rewrite tget_tset_neq by auto. auto.
  - (* an emission with an edit made from inside a callback *)
    rewrite tstep0_remit. destruct W as (_ & _ & _ & We & _).
    destruct (rdeliver (S (length g)) g (Some (t, e)) n x) as [[[g' p'] r] l] eqn:E. cbn [fst].
    destruct (rdeliver_rspec _ g (Some (t, e)) _ _ _ _ _ _ I We E) as (I' & _ & Ev). split; auto.
    destruct (evolve_flags _ _ _ _ Ev) as (_ & H). intros i Ai. destruct (H i) as (a & b & c & d).
    unfold alive in Ai. rewrite a, b, c. repeat split; auto.
    destruct d as [d|(t0 & d)]; auto. right. right. inversion d; subst. eauto.
Qed.

Theorem step_inv g o : TInv0 g -> wf_op g o -> TInv0 (step_g g o).
Proof.
  intros I W. rewrite step_g_eq. apply collect_inv. apply step0_ok; auto.
Qed.

Lemma inv_nil : TInv0 [].
Proof.
  assert (D : forall i, ~ alive [] i).
  { intros i H. apply alive_lt in H. simpl in H. lia. }
  constructor.
  - constructor; intros; exfalso; match goal with H : alive [] _ |- _ => exact (D _ H) end.
  - intros i H; exfalso; exact (D _ H).
  - intros i H; exfalso; exact (D _ H).
Qed.

Theorem run_inv : forall ops g, TInv0 g -> legal g ops -> TInv0 (run_ops g ops).
Proof.
  induction ops as [|o ops IH]; intros g I L; simpl in *; auto.
  destruct L as [W L]. apply IH; auto. apply step_inv; auto.
Qed.

Theorem reachable_inv g : reachable g -> TInv0 g.
Proof. intros (ops & L & <-). apply run_inv; auto. apply inv_nil. Qed.

(* ================================================================================================ *)
(* Part 6: collect is idempotent                                                                     *)
(* ================================================================================================ *)

Lemma flat_map_ext_in {A B} (f h : A -> list B) l :
  (forall a, In a l -> f a = h a) -> flat_map f l = flat_map h l.
Proof.
  induction l as [|a l IH]; intros H; simpl; auto.
  rewrite (H a (or_introl eq_refl)), IH; auto. intros; apply H; simpl; auto.
Qed.

Lemma filter_all {A} (p : A -> bool) l : (forall x, In x l -> p x = true) -> filter p l = l.
Proof.
  induction l as [|a l IH]; intros H; simpl; auto.
  rewrite (H a (or_introl eq_refl)), IH; auto. intros; apply H; simpl; auto.
Qed.

Lemma more_of_ext g1 g K :
  (forall i, In i K -> t_refs (tget g1 i) = t_refs (tget g i)) -> more_of g1 K = more_of g K.
Proof. intros H. unfold more_of. apply flat_map_ext_in. intros i Hi. rewrite H; auto. Qed.

Lemma keep_ext g1 g : forall f K,
  (forall i, In i (keep f g K) -> t_refs (tget g1 i) = t_refs (tget g i)) -> keep f g1 K = keep f g K.
Proof.
  induction f as [|f IH]; intros K H; auto.
  assert (E : more_of g1 K = more_of g K).
  { apply more_of_ext. intros i Hi. apply H. apply keep_incl; auto. }
  rewrite !keep_S, E. rewrite keep_S in H. destruct (more_of g K) eqn:M; auto.
Qed.

Lemma collect_roots g : TShape g -> roots (collect g) = roots g.
Proof.
  intros Sh. unfold roots. rewrite collect_length. apply filter_ext_in. intros i _.
  destruct (in_dec Nat.eq_dec i (kept g)) as [Hi|Hi].
  - rewrite collect_node by auto. reflexivity.
  - rewrite tget_collect. unfold cnode. apply mem_false in Hi. rewrite Hi, andb_false_r.
    destruct (is_root (tget g i)) eqn:R.
    + apply kept_roots in R. apply mem_spec in R. congruence.
    + reflexivity.
Qed.

Lemma collect_kept g : TShape g -> kept (collect g) = kept g.
Proof.
  intros Sh. unfold kept at 1. rewrite collect_length, collect_roots by auto.
  apply keep_ext. intros i Hi. fold (kept g) in Hi. rewrite collect_node by auto. reflexivity.
Qed.

Theorem collect_idempotent g : TShape g -> collect (collect g) = collect g.
Proof.
  intros Sh. rewrite (collect_eq (collect g)). rewrite collect_kept, collect_length by auto.
  rewrite (collect_eq g) at 2. apply map_ext_in. intros i _.
  rewrite <- (tget_collect g i).
  unfold cnode at 1. 
  destruct (in_dec Nat.eq_dec i (kept g)) as [Hi|Hi].
  - assert (A1 : t_alive (tget (collect g) i) = true) by (apply collect_alive; auto).
    assert (M : mem i (kept g) = true) by (apply mem_spec; auto).
    rewrite A1, M. cbn [andb].
    rewrite filter_all.
    + rewrite collect_node by auto. reflexivity.
    + intros d Hd. rewrite collect_node in Hd by auto. simpl in Hd. apply filter_In in Hd.
      destruct Hd as [_ Hd]. apply andb_true_iff in Hd. destruct Hd as [_ Hd].
      rewrite Hd, andb_true_r. apply mem_spec in Hd. apply collect_alive; auto.
  - assert (A1 : t_alive (tget (collect g) i) = false).
    { destruct (t_alive (tget (collect g) i)) eqn:E; auto. apply collect_alive in E; tauto. }
    rewrite A1. cbn [andb]. rewrite tget_collect. unfold cnode.
    apply mem_false in Hi. rewrite Hi, andb_false_r. reflexivity.
Qed.

Theorem run_collected : forall ops g, TInv0 g -> collect g = g -> legal g ops -> collect (run_ops g ops) = run_ops g ops.
Proof.
  induction ops as [|o ops IH]; intros g I C L; simpl in *; auto.
  destruct L as [W L]. apply IH; auto.
  - apply step_inv; auto.
  - rewrite step_g_eq. apply collect_idempotent. apply step0_ok; auto.
Qed.

Theorem reachable_collected g : reachable g -> collect g = g.
Proof. intros (ops & L & <-). apply run_collected; auto. apply inv_nil. Qed.

(* ================================================================================================ *)
(* Part 7: headline theorems                                                                         *)
(* ================================================================================================ *)

(* 1 *)
Theorem links_consistent g : reachable g ->
  (forall u d, t_alive (tget g u) = true -> t_alive (tget g d) = true ->
     (In d (t_downs (tget g u)) <-> In u (t_ups (tget g d)))) /\
  (forall n, t_alive (tget g n) = true -> NoDup (t_ups (tget g n)) /\ NoDup (t_downs (tget g n))) /\
  (forall n i, t_alive (tget g n) = true -> In i (t_ups (tget g n)) \/ In i (t_downs (tget g n)) -> i < length g) /\
  (forall u d, t_alive (tget g d) = true -> In u (t_ups (tget g d)) -> u < d) /\
  (forall u d, t_alive (tget g u) = true -> In d (t_downs (tget g u)) -> u < d).
Proof.
  intros R. destruct (reachable_inv g R) as [Sh _ _]. repeat split.
  - intros Hd. apply (s_down _ Sh u d); auto.
  - intros Hu. apply (s_up _ Sh u d); auto.
  - apply (s_nd_ups _ Sh); auto.
  - apply (s_nd_downs _ Sh); auto.
  - intros n i An [Hi|Hi].
    + apply (s_up _ Sh) in Hi; auto. destruct Hi as (Hi & _). apply alive_lt; auto.
    + apply (s_down _ Sh) in Hi; auto. destruct Hi as (Hi & _). apply alive_lt; auto.
  - intros u d Ad Hi. apply (s_ups_lt _ Sh d u); auto.
  - intros u d Au Hi. destruct (s_down _ Sh u d Au Hi) as (Ad & Hu). apply (s_ups_lt _ Sh d u); auto.
Qed.

(* 2 *)
Theorem downs_alive g : reachable g ->
  forall u d, t_alive (tget g u) = true -> In d (t_downs (tget g u)) -> t_alive (tget g d) = true.
Proof. intros R u d Au Hi. apply (s_down _ (i_shape _ (reachable_inv g R)) u d Au Hi). Qed.

Theorem ups_alive g : reachable g ->
  forall u d, t_alive (tget g d) = true -> In u (t_ups (tget g d)) -> t_alive (tget g u) = true.
Proof. intros R u d Ad Hi. apply (s_up _ (i_shape _ (reachable_inv g R)) u d Ad Hi). Qed.

(* 3: for any fuel *)
Theorem emit_along_edges f g n x g' log : TInv0 g -> alive g n -> temit f g n x = (g', log) ->
  (forall s d v, In (s, d, v) log -> t_alive (tget g d) = true /\ In d (t_downs (tget g s))) /\
  (f <> 0 -> filter (fun e => fst (fst e) =? n) log = map (fun d => (n, d, x)) (t_downs (tget g n))).
Proof.
  intros [Sh Da Nw] An E. split.
  - destruct (temit_espec f g n x Sh Da (TNW_above _ Nw n) An _ _ E) as (_ & _ & _ & _ & Lo).
    intros s d v Hi. destruct (Lo _ _ _ Hi) as (_ & As & Hd). split; auto.
    apply (s_down _ Sh s d As Hd).
  - intros Nf. destruct f as [|f]; [congruence|].
    apply (temit_srcs f g n x g' log Sh Da (TNW_above _ Nw n) An E).
Qed.

Theorem dropped_branch_silent g n x g' r log :
  reachable g -> wf_op g (OEmit n x) -> tstep g (OEmit n x) = (g', r, log) ->
  r = ROk /\
  (forall s d v, In (s, d, v) log -> t_alive (tget g d) = true /\ In d (t_downs (tget g s))) /\
  filter (fun e => fst (fst e) =? n) log = map (fun d => (n, d, x)) (t_downs (tget g n)).
Proof.
  intros R (_ & An & _) E. unfold tstep in E. rewrite tstep0_emit in E.
  destruct (temit (S (length g)) g n x) as [g1 l] eqn:E1. inversion E; subst.
  destruct (emit_along_edges _ g n x g1 log (reachable_inv g R) An E1) as (A & B).
  split; auto.
Qed.

(* 4 *)
Theorem sink_survives_drop g o s :
  TInv0 g -> wf_op g o -> t_alive (tget g s) = true -> t_reg (tget g s) = true ->
  t_alive (tget (step_g g o) s) = true /\
  forall u, clos_refl_trans nat (fun a b => In b (t_ups (tget (step_g g o) a))) s u ->
            t_alive (tget (step_g g o) u) = true.
Proof.
  intros I W As Rs.
  assert (A' : alive (step_g g o) s).
  { rewrite step_g_eq. destruct (step0_ok g o I W) as (I0 & Fl).
    apply collect_alive; [apply I0|]. apply kept_roots.
    destruct (Fl s As) as (a & _ & b & c). unfold is_root. rewrite a. cbn [andb].
    destruct b as [b|[b|(n0 & x0 & t0 & b)]].
    - rewrite b, Rs. apply orb_true_r.
    - subst o. destruct c as [c|c]; [|discriminate]. rewrite c.
      destruct W as ((_ & _ & H) & _). rewrite H. reflexivity.
    - subst o. destruct c as [c|c]; [|discriminate]. rewrite c.
      destruct W as (_ & _ & _ & ((_ & _ & H) & _) & _). rewrite H. reflexivity. }
  split; auto. pose proof (step_inv g o I W) as [Sh _ _].
  assert (CL : forall a b, clos_refl_trans nat (fun a b => In b (t_ups (tget (step_g g o) a))) a b ->
                           alive (step_g g o) a -> alive (step_g g o) b).
  { induction 1 as [a b H| |a b c H1 IH1 H2 IH2]; auto. intros Aa. apply (s_up _ Sh b a Aa H). }
  intros u H. apply (CL s u H A').
Qed.

Lemma tk_collect g i : tk (tget (collect g) i) = tk (tget g i).
Proof. rewrite tget_collect. unfold cnode. destruct (t_alive (tget g i) && mem i (kept g)); reflexivity. Qed.

(* (a stream named by the emit_on of a live combine_latest node is referenced by that node) *)
Lemma collect_dead g n : TShape g ->
  t_held (tget g n) = false -> t_reg (tget g n) = false -> t_downs (tget g n) = [] ->
  (forall j t, alive g j -> tk (tget g j) = TCombineOn t -> t <> n) ->
  t_alive (tget (collect g) n) = false.
Proof.
  intros Sh H1 H2 H3 H4. destruct (t_alive (tget (collect g) n)) eqn:E; auto. exfalso.
  apply collect_alive in E; auto. apply keep_from in E. destruct E as [E|(j & Hj & Hu)].
  - apply roots_In in E. unfold is_root in E. rewrite H1, H2, andb_false_r in E. discriminate.
  - pose proof (kept_alive g Sh j Hj) as Aj. unfold t_refs in Hu. apply in_app_iff in Hu. destruct Hu as [Hu|Hu].
    + apply (s_up _ Sh n j Aj) in Hu. rewrite H3 in Hu. destruct Hu as (_ & []).
    + destruct (tk (tget g j)) eqn:K; simpl in Hu; try tauto. destruct Hu as [->|[]]. apply (H4 j n Aj K). auto.
Qed.

Theorem destroyed_and_dropped_dies g n :
  TInv0 g -> wf_op g (ODestroy n) -> t_downs (tget g n) = [] ->
  (forall j t, tk (tget g j) = TCombineOn t -> t <> n) ->
  wf_op (step_g g (ODestroy n)) (ODrop n) /\
  t_alive (tget (step_g (step_g g (ODestroy n)) (ODrop n)) n) = false.
Proof.
  intros I W Hd Htr. pose proof W as ((Ln & An & Hn) & _).
  assert (TK1 : forall j, tk (tget (step_g g (ODestroy n)) j) = tk (tget g j)).
  { intros j. rewrite step_g_eq, tk_collect. destruct (edit0_ok g (EDestroy n) I W) as (_ & _ & H).
    change (tstep0 g (ODestroy n)) with (tedit0 g (EDestroy n)). apply H. }
  destruct (step0_ok g _ I W) as (I0 & Fl). rewrite tstep0_destroy in I0, Fl. cbn [fst] in I0, Fl.
  destruct I as [Sh Da Nw].
  destruct (destroy_fold_spec n _ g Sh Da An eq_refl) as (_ & _ & (L1 & _) & _ & _ & Dn1).
  assert (Nd : tget (destroy_g g n) n =
               with_flags (tget (destroy_fold g n (t_ups (tget g n))) n)
                 (t_held (tget (destroy_fold g n (t_ups (tget g n))) n)) false
                 (t_alive (tget (destroy_fold g n (t_ups (tget g n))) n))).
  { unfold destroy_g. cbv zeta. rewrite tget_tset_eq; auto. rewrite L1; auto. }
  destruct (Fl n An) as (a & _ & _ & [c|c]); [|discriminate].
  assert (K1 : In n (kept (destroy_g g n))).
  { apply kept_roots. unfold is_root. rewrite a, c, Hn. reflexivity. }
  set (g1 := step_g g (ODestroy n)).
  assert (G1 : tget g1 n = with_downs (tget (destroy_g g n) n)
                 (filter (fun d => t_alive (tget (destroy_g g n) d) && mem d (kept (destroy_g g n))) (t_downs (tget (destroy_g g n) n)))).
  { unfold g1. rewrite step_g_eq, tstep0_destroy. cbn [fst]. apply collect_node; auto. apply I0. }
  assert (D0 : t_downs (tget (destroy_g g n) n) = []).
  { rewrite Nd. simpl. apply Dn1. auto. }
  rewrite D0 in G1. simpl in G1.
  assert (L' : length g1 = length g).
  { unfold g1. rewrite step_g_eq, collect_length, tstep0_destroy. cbn [fst]. unfold destroy_g. cbv zeta.
    rewrite tset_length. auto. }
  assert (W1 : wf_op g1 (ODrop n)).
  { simpl. unfold held_node. rewrite G1, L'. simpl. rewrite a, c. auto. }
  split; auto.
  assert (I1 : TInv0 g1) by (apply step_inv; auto; constructor; auto).
  destruct (step0_ok g1 _ I1 W1) as (I2 & _). rewrite tstep0_drop in I2. cbn [fst] in I2.
  rewrite step_g_eq, tstep0_drop. cbn [fst]. 
  assert (N2 : tget (drop_g g1 n) n = with_flags (tget g1 n) false (t_reg (tget g1 n)) (t_alive (tget g1 n))).
  { unfold drop_g. rewrite tget_tset_eq; auto. lia. }
  apply collect_dead; [apply I2| | | |]; try (rewrite N2, G1; simpl; auto).
  - rewrite Nd. reflexivity.
  - intros j t _ Kj. apply (Htr j t). rewrite <- TK1. fold g1.
    destruct (tget_tset_flags g1 n false (t_reg (tget g1 n)) j) as (_ & Hk & _). unfold drop_g in Kj.
    rewrite <- Hk. exact Kj.
Qed.

(* 5 *)
Theorem combine_aligned g : reachable g ->
  forall i, t_alive (tget g i) = true -> tk (tget g i) = TCombine ->
  length (t_last (tget g i)) = length (t_ups (tget g i)).
Proof. intros R i Ai K. apply (i_data _ (reachable_inv g R) i Ai); auto. rewrite K. reflexivity. Qed.

Theorem combine_on_aligned g : reachable g ->
  forall i t, t_alive (tget g i) = true -> tk (tget g i) = TCombineOn t ->
  length (t_last (tget g i)) = length (t_ups (tget g i)) /\ t_alive (tget g t) = true.
Proof.
  intros R i t Ai K. pose proof (reachable_inv g R) as I. split.
  - apply (i_data _ I i Ai); auto. rewrite K. reflexivity.
  - apply (s_trig _ (i_shape _ I) i t Ai K).
Qed.

Theorem zip_keys g : reachable g ->
  forall i, t_alive (tget g i) = true -> tk (tget g i) = TZip ->
  NoDup (map fst (t_bufs (tget g i))) /\
  (forall u, In u (map fst (t_bufs (tget g i))) <-> In u (t_ups (tget g i))).
Proof. intros R i Ai K. apply (i_data _ (reachable_inv g R) i Ai); auto. Qed.

(* 6: true of the model in every legal history, including emission into the zip itself, one-input zips,
      destruction of a zip and the disconnection of the input the others were waiting for *)
Theorem zip_never_wedged g : reachable g ->
  forall i, t_alive (tget g i) = true -> tk (tget g i) = TZip -> zip_ready (tget g i) = false.
Proof. intros R i Ai K. apply (i_nw _ (reachable_inv g R) i Ai); auto. Qed.

Theorem zip_never_wedged_step g o : reachable g -> wf_op g o ->
  forall i, t_alive (tget (step_g g o) i) = true -> tk (tget (step_g g o) i) = TZip ->
  zip_ready (tget (step_g g o) i) = false.
Proof.
  intros R W i Ai K. apply (i_nw _ (step_inv g o (reachable_inv g R) W) i Ai); auto.
Qed.

(* 7 *)
Theorem disconnect_non_edge_raises g u d :
  reachable g -> wf_op g (ODisconnect u d) -> ~ In d (t_downs (tget g u)) ->
  tstep g (ODisconnect u d) = (g, RRaise, []).
Proof.
  intros R _ Hn. unfold tstep. rewrite tstep0_disconnect. apply mem_false in Hn. rewrite Hn.
  rewrite (reachable_collected g R). reflexivity.
Qed.

(* ================================================================================================ *)
(* Part 8: executable legality check and a non-trivial legal history                                 *)
(* ================================================================================================ *)

Fixpoint nodupb (l : list nat) : bool :=
  match l with [] => true | a :: t => negb (mem a t) && nodupb t end.
Lemma nodupb_sound l : nodupb l = true -> NoDup l.
Proof.
  induction l as [|a l IH]; simpl; intros H; constructor.
  - apply andb_true_iff in H. destruct H as [H _]. apply negb_true_iff in H. apply mem_false; auto.
  - apply IH. apply andb_true_iff in H. tauto.
Qed.

Definition wf_editb (g : tgraph) (e : tedit) : bool :=
  match e with
  | EConnect u d =>
      heldb g u && heldb g d && (u <? d) && negb (mem u (t_ups (tget g d))) && negb (sinkb (tk (tget g u)))
  | EDisconnect u d => heldb g u && heldb g d
  | EDestroy n => heldb g n && negb (sinkb (tk (tget g n)) && negb (t_reg (tget g n)))
  end.

Lemma wf_editb_sound g e : wf_editb g e = true -> wf_edit g e.
Proof.
  destruct e as [u d|u d|n]; simpl; intros H.
  - do 4 (apply andb_true_iff in H; destruct H as [H ?]). fold (heldb g u) in H.
    split; [apply heldb_sound; auto|]. split; [apply heldb_sound; auto|]. split; [apply Nat.ltb_lt; auto|].
    split; [apply mem_false; apply negb_true_iff; auto|]. apply negb_true_iff; auto.
  - apply andb_true_iff in H. destruct H. split; apply heldb_sound; auto.
  - apply andb_true_iff in H. destruct H as [H1 H2]. split; [apply heldb_sound; auto|].
    intros [K R]. rewrite K, R in H2. discriminate.
Qed.

Definition rsinkb (k : tkind) : bool := match k with TRSink => true | _ => false end.

Definition wf_opb (g : tgraph) (o : top) : bool :=
  match o with
  | ONew k ups =>
      nodupb ups && forallb (fun u => heldb g u && negb (sinkb (tk (tget g u)))) ups &&
      match k with
      | TPipe => true
      | TSink | TRSink => length ups =? 1
      | TZip | TCombine => negb (match ups with [] => true | _ => false end)
      | TCombineOn t => match ups with u :: _ => u =? t | [] => false end
      end
  | OEmit n _ => heldb g n
  | OConnect u d => wf_editb g (EConnect u d)
  | ODisconnect u d => wf_editb g (EDisconnect u d)
  | ODestroy n => wf_editb g (EDestroy n)
  | ODrop n => heldb g n
  | ORemit n _ t e =>
      heldb g n && heldb g t && rsinkb (tk (tget g t)) && wf_editb g e &&
      forallb (fun i => negb (t_alive (tget g i)) || t_alive (tget (collect (fst (fst (tedit0 g e)))) i)) (seq 0 (length g))
  end.

Lemma wf_opb_sound g o : wf_opb g o = true -> wf_op g o.
Proof.
  destruct o as [k ups|n x|u d|u d|n|n|n x t e]; try (apply wf_editb_sound); simpl; intros H.
  - apply andb_true_iff in H. destruct H as [H H3]. apply andb_true_iff in H. destruct H as [H1 H2].
    split; [apply nodupb_sound; auto|]. split.
    + intros u Hu. rewrite forallb_forall in H2. specialize (H2 u Hu). apply andb_true_iff in H2.
      destruct H2 as [A B]. split; [apply heldb_sound; auto|]. apply negb_true_iff; auto.
    + destruct k; auto.
      * apply Nat.eqb_eq; auto.
      * destruct ups; [discriminate|congruence].
      * destruct ups; [discriminate|congruence].
      * apply Nat.eqb_eq; auto.
      * destruct ups; [discriminate|apply Nat.eqb_eq; auto].
  - apply heldb_sound; auto.
  - apply heldb_sound; auto.
  - do 4 (apply andb_true_iff in H; destruct H as [H ?]).
    split; [apply heldb_sound; auto|]. split; [apply heldb_sound; auto|].
    split; [destruct (tk (tget g t)); simpl in *; congruence|].
    split; [apply wf_editb_sound; auto|].
    intros i Ai. rewrite forallb_forall in H0. specialize (H0 i).
    unfold alive in *. rewrite Ai in H0. simpl in H0. apply H0. apply in_seq. pose proof (alive_lt _ _ Ai). lia.
Qed.

Fixpoint legalb (g : tgraph) (ops : list top) : bool :=
  match ops with [] => true | o :: rest => wf_opb g o && legalb (step_g g o) rest end.
Lemma legalb_sound : forall ops g, legalb g ops = true -> legal g ops.
Proof.
  induction ops as [|o ops IH]; simpl; intros g H; auto.
  apply andb_true_iff in H. destruct H. split; [apply wf_opb_sound|apply IH]; auto.
Qed.

Definition c15_ops : list top :=
  [ ONew TPipe []; ONew TPipe []; ONew TPipe [];          (* 0 a, 1 b, 2 c *)
    ONew TZip [0; 1]; ONew TSink [3];                      (* 3 zip(a,b), 4 its sink *)
    ONew TCombine [0; 2]; ONew TSink [5];                  (* 5 combine_latest(a,c), 6 its sink *)
    OEmit 0 (VInt 1%Z);                                    (* buffered in the zip, a's slot of the combine *)
    OConnect 2 3;                                          (* connect after data: zip(a,b,c) *)
    OEmit 2 (VInt 7%Z);                                    (* combine fires (1,7); zip still waits for b *)
    ODisconnect 1 3;                                       (* the bottleneck goes: zip(a,c) pairs its backlog *)
    ODisconnect 1 3;                                       (* not an edge any more: raises, nothing changes *)
    ODrop 5;                                               (* still referenced by its registered sink *)
    ODestroy 6; ODrop 6;                                   (* now the whole branch 5,6 is garbage *)
    OEmit 0 (VInt 2%Z) ].                                  (* reaches only the zip *)

Example c15_nonvacuous :
  legal [] c15_ops /\
  map (fun o => (to_raised o, to_deliv o)) (trun [] c15_ops) =
    [ (false, []); (false, []); (false, []); (false, []); (false, []); (false, []); (false, []);
      (false, [(0, 3, VInt 1%Z); (0, 5, VInt 1%Z)]);
      (false, []);
      (false, [(2, 5, VInt 7%Z); (5, 6, VTup [VInt 1%Z; VInt 7%Z]); (2, 3, VInt 7%Z)]);
      (false, [(3, 4, VTup [VInt 1%Z; VInt 7%Z])]);
      (true, []);
      (false, []); (false, []); (false, []);
      (false, [(0, 3, VInt 2%Z)]) ] /\
  links_of (run_ops [] c15_ops) =
    [ (true, [], [3]); (true, [], []); (true, [], [3]); (true, [0; 2], [4]); (true, [3], []);
      (false, [], []); (false, [], []) ].
Proof.
  split; [apply legalb_sound; vm_compute; reflexivity|]. split; vm_compute; reflexivity.
Qed.

Lemma run_ops_app : forall a b g, run_ops g (a ++ b) = run_ops (run_ops g a) b.
Proof. induction a as [|o a IH]; intros b g; simpl; auto. Qed.
Lemma legal_app : forall a b g, legal g a -> legal (run_ops g a) b -> legal g (a ++ b).
Proof. induction a as [|o a IH]; intros b g H1 H2; simpl in *; auto. destruct H1. split; auto. Qed.

Theorem reachable_nil : reachable [].
Proof. exists []. simpl. auto. Qed.
Theorem reachable_step g o : reachable g -> wf_op g o -> reachable (step_g g o).
Proof.
  intros (ops & L & <-) W. exists (ops ++ [o]). split.
  - apply legal_app; simpl; auto.
  - rewrite run_ops_app. reflexivity.
Qed.

Corollary sink_survives_own_drop g s :
  reachable g -> wf_op g (ODrop s) -> t_reg (tget g s) = true ->
  t_alive (tget (step_g g (ODrop s)) s) = true.
Proof.
  intros R W Rs. pose proof W as (_ & As & _).
  destruct (sink_survives_drop g (ODrop s) s (reachable_inv g R) W As Rs) as (H & _). exact H.
Qed.

(* the fixpoint hypothesis on [keep] is not needed: fuel [length g] always suffices *)
Theorem keep_reaches_fixpoint g : TShape g -> more_of g (kept g) = [].
Proof.
  intros Sh. destruct (more_of g (kept g)) as [|h t] eqn:E; auto. exfalso.
  assert (H : In h (more_of g (kept g))) by (rewrite E; left; auto).
  apply more_of_In in H. destruct H as (i & Hi & Hu & Hn). apply Hn. eapply kept_closed; eauto.
Qed.

(* the invariant record of the induction over legal histories, with the collected-graph component *)
Record TInv (g : tgraph) : Prop := {
  inv_shape : TShape g;            (* links_consistent, NoDup, bounds, u < d, downs_alive, ups_alive *)
  inv_data : TData g;              (* combine_aligned, zip_keys *)
  inv_nw : TNW g;                  (* zip_never_wedged *)
  inv_collected : collect g = g;   (* nothing left to free *)
}.

Theorem reachable_TInv g : reachable g -> TInv g.
Proof.
  intros R. destruct (reachable_inv g R). constructor; auto. apply reachable_collected; auto.
Qed.

(* emission frees nothing and resurrects nothing: the nodes served stay alive after the step *)
Theorem emit_preserves_liveness g n x :
  reachable g -> wf_op g (OEmit n x) ->
  forall i, t_alive (tget (step_g g (OEmit n x)) i) = t_alive (tget g i).
Proof.
  intros R (_ & An & _) i. pose proof (reachable_inv g R) as I. pose proof I as [Sh Da Nw].
  rewrite step_g_eq, tstep0_emit. destruct (temit (S (length g)) g n x) as [g1 l] eqn:E. cbn [fst].
  destruct (temit_espec _ g n x Sh Da (TNW_above _ Nw n) An _ _ E) as (F & _).
  assert (Sh1 : TShape g1) by (eapply TShape_frame; eauto).
  assert (Er : roots g1 = roots g).
  { unfold roots. rewrite <- (proj1 F). apply filter_ext. intros j. unfold is_root.
    rewrite (fr_alive _ _ _ F), (fr_held _ _ _ F), (fr_reg _ _ _ F). reflexivity. }
  assert (Ek : kept g1 = kept g).
  { unfold kept. rewrite <- (proj1 F), Er. apply keep_ext. intros j _. unfold t_refs. rewrite (fr_ups _ _ _ F), (fr_tk _ _ _ F). reflexivity. }
  assert (H1 : alive (collect g1) i <-> alive g i).
  { rewrite (collect_alive g1 i Sh1), Ek, <- (collect_alive g i Sh), (reachable_collected g R). tauto. }
  unfold alive in H1. destruct (t_alive (tget (collect g1) i)), (t_alive (tget g i)); auto.
  - symmetry. apply H1; auto.
  - apply H1; auto.
Qed.

Print Assumptions reachable_inv.
Print Assumptions links_consistent.
Print Assumptions downs_alive.
Print Assumptions ups_alive.
Print Assumptions temit_frame.
Print Assumptions emit_along_edges.
Print Assumptions dropped_branch_silent.
Print Assumptions sink_survives_drop.
Print Assumptions sink_survives_own_drop.
Print Assumptions destroyed_and_dropped_dies.
Print Assumptions combine_aligned.
Print Assumptions zip_keys.
Print Assumptions zip_never_wedged.
Print Assumptions zip_never_wedged_step.
Print Assumptions collect_idempotent.
Print Assumptions reachable_collected.
Print Assumptions disconnect_non_edge_raises.
Print Assumptions keep_reaches_fixpoint.
Print Assumptions reachable_step.
Print Assumptions reachable_TInv.
Print Assumptions emit_preserves_liveness.
Print Assumptions c15_nonvacuous.
