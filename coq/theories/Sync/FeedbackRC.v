(* Reference-count balance for pipelines WITH feedback edges: arbitrary graphs, no [wf_dag].
   A node can be re-entered while its own emission is in progress.  For every node kind that
   writes its state before it emits (all kinds but zip_latest) every exception-free push, from
   any world in which every node is in shape, keeps every node in shape and preserves
   count - holders  exactly.  Induction on fuel only; the Segment machinery of PushSpec.v (which
   needs "a node is never re-entered during its own emission") is not used. *)
From Coq Require Import List ZArith Bool Lia Arith.
From SZ Require Import Base.Values Sync.Nodes Sync.Pipeline Sync.PushSpec Sync.Dataflow
  Sync.RefCount Sync.RefCountFull Sync.Feedback.
Import ListNotations.
Close Scope Z_scope.
Open Scope nat_scope.

Definition all_state_first (g : graph) : Prop :=
  forall d, d < length g -> state_first_kindb (nkind (gnode g d)) = true.
Definition all_params_ok (g : graph) : Prop :=
  forall d, d < length g -> node_params_ok (gnode g d).

(* ------------------------------------------------------------------------- *)
(* 1. the world invariant under the frame operations                           *)
(* ------------------------------------------------------------------------- *)
Lemma WInv_retain g w m k : WInv g w -> WInv g (retain w m k).
Proof. intros [A B]. split; [apply WF_retain; exact A|]. intros d Hd. rewrite nst_retain. auto. Qed.

Lemma WInv_release g w m k : WInv g w -> WInv g (release w m k).
Proof. intros [A B]. split; [apply WF_release; exact A|]. intros d Hd. rewrite nst_release. auto. Qed.

Lemma WInv_same g w w' : WInv g w -> sts w' = sts w -> WInv g w'.
Proof.
  intros [A B] E. split; [eapply WF_same; eauto|].
  intros d Hd. unfold nst. rewrite E. apply B. exact Hd.
Qed.

(* what ANY exception-free call of an emit function promises, from ANY world in shape *)
Definition ExcessAny (g : graph) (emit : world -> val -> md -> world * status) : Prop :=
  forall w y my w', WInv g w -> emit w y my = (w', SOk) ->
    WInv g w' /\ forall r, excess g w' r = excess g w r.

(* ------------------------------------------------------------------------- *)
(* 2. the two halves of a state-first action list                              *)
(* ------------------------------------------------------------------------- *)
(* the emission-free prefix: runs to completion, touches only node d, and its books minus the
   change of what d holds is the change of excess (intermediate states need not be in shape) *)
Lemma pre_excess g emit coro d : d < length g ->
  forall pre w, forallb (fun a => negb (is_emit a)) pre = true -> length (sts w) = length g ->
  exists w1, fold_left (do_action emit coro d) pre (w, SOk) = (w1, SOk) /\
    length (sts w1) = length g /\
    nst w1 d = final_state pre (nst w d) /\ (forall i, i <> d -> nst w1 i = nst w i) /\
    forall r, excess g w1 r =
      (excess g w r + books pre r
       - (occ (held (nkind (gnode g d)) (final_state pre (nst w d))) r
          - occ (held (nkind (gnode g d)) (nst w d)) r))%Z.
Proof.
  intros Hd. induction pre as [|a t IH]; intros w Hne Hlen.
  - exists w. cbn [fold_left final_state books]. repeat split; auto. intros r. lia.
  - cbn [forallb] in Hne. apply andb_true_iff in Hne as [H1 H2].
    cbn [fold_left]. unfold do_action at 2.
    replace (if coro then status_ok SOk else status_go SOk) with true by (destruct coro; reflexivity).
    destruct a as [st|mm|mm|y my]; [| | |discriminate H1].
    + set (w0 := wset_sts w (set_nth d st (sts w))).
      assert (Hdl : d < length (sts w)) by (rewrite Hlen; exact Hd).
      assert (Hlen0 : length (sts w0) = length g) by (unfold w0; cbn; rewrite set_nth_length; exact Hlen).
      destruct (IH w0 H2 Hlen0) as [w1 [A [B [C [D E]]]]]. exists w1.
      assert (E1 : nst w0 d = st) by (unfold w0; apply nst_wset_eq; exact Hdl).
      split; [exact A|]. split; [exact B|]. split; [rewrite C, E1; reflexivity|].
      split; [intros i Hi; rewrite (D i Hi); unfold w0; apply nst_wset_neq; exact Hi|].
      intros r. rewrite E, E1. cbn [books final_state]. unfold excess.
      assert (Ec : cnt w0 r = cnt w r) by reflexivity. rewrite Ec.
      unfold w0. rewrite holders_set by assumption. lia.
    + destruct (retain_frame w mm 1) as [F1 F2].
      assert (Hlen0 : length (sts (retain w mm 1)) = length g) by (rewrite F1; exact Hlen).
      destruct (IH _ H2 Hlen0) as [w1 [A [B [C [D E]]]]]. exists w1.
      split; [exact A|]. split; [exact B|]. split; [rewrite C, nst_retain; reflexivity|].
      split; [intros i Hi; rewrite (D i Hi); apply nst_retain|].
      intros r. rewrite E, nst_retain. cbn [books final_state]. unfold excess.
      rewrite cnt_retain, holders_retain. lia.
    + destruct (release_frame w mm 1) as [F1 F2].
      assert (Hlen0 : length (sts (release w mm 1)) = length g) by (rewrite F1; exact Hlen).
      destruct (IH _ H2 Hlen0) as [w1 [A [B [C [D E]]]]]. exists w1.
      split; [exact A|]. split; [exact B|]. split; [rewrite C, nst_release; reflexivity|].
      split; [intros i Hi; rewrite (D i Hi); apply nst_release|].
      intros r. rewrite E, nst_release. cbn [books final_state]. unfold excess.
      rewrite cnt_release, holders_release. lia.
Qed.

(* the write-free suffix: every nested push starts in a world in shape (d itself included, d's own
   remaining actions do not read its state), so the induction hypothesis applies to each of them *)
Lemma post_excess g emit coro d : ExcessAny g emit ->
  forall post w w', forallb (fun a => negb (is_set a)) post = true -> WInv g w ->
    fold_left (do_action emit coro d) post (w, SOk) = (w', SOk) ->
    WInv g w' /\ forall r, excess g w' r = (excess g w r + books post r)%Z.
Proof.
  intros HX. induction post as [|a t IH]; intros w w' Hns Hwi H; cbn [fold_left] in H.
  - injection H as <-. split; [exact Hwi|]. intros r. cbn [books]. lia.
  - cbn [forallb] in Hns. apply andb_true_iff in Hns as [N1 N2].
    unfold do_action at 2 in H.
    replace (if coro then status_ok SOk else status_go SOk) with true in H by (destruct coro; reflexivity).
    destruct a as [st|mm|mm|y my]; [discriminate N1| | |].
    + destruct (IH _ w' N2 (WInv_retain _ _ _ _ Hwi) H) as [A C]. split; [exact A|].
      intros r. rewrite C. cbn [books]. unfold excess. rewrite cnt_retain, holders_retain. lia.
    + destruct (IH _ w' N2 (WInv_release _ _ _ _ Hwi) H) as [A C]. split; [exact A|].
      intros r. rewrite C. cbn [books]. unfold excess. rewrite cnt_release, holders_release. lia.
    + destruct (emit w y my) as [w1 s1] eqn:E.
      pose proof (actions_ok_inv _ _ _ _ _ _ _ H) as Hs. apply status_join_ok in Hs.
      destruct Hs as [_ Hs]. subst s1. cbn [status_join] in H.
      destruct (HX w y my w1 Hwi E) as [A1 B1].
      destruct (IH w1 w' N2 A1 H) as [A C]. split; [exact A|].
      intros r. rewrite C, B1. cbn [books]. lia.
Qed.

(* ------------------------------------------------------------------------- *)
(* 3. one delivery, all deliveries, push                                       *)
(* ------------------------------------------------------------------------- *)
Lemma deliver_excess_any g emitfrom depth n x m d w w' :
  ExcessAny g (emitfrom d) -> state_first (nkind (gnode g d)) -> WInv g w ->
  is_down g n d = true ->
  deliver emitfrom g depth n x m (w, SOk) d = (w', SOk) ->
  WInv g w' /\ forall r, excess g w' r = (excess g w r - occ m r)%Z.
Proof.
  intros HX Hsf Hwi Hdn H.
  destruct (is_down_In _ _ _ Hdn) as [Hd Hin].
  unfold deliver in H. cbn [status_go] in H.
  set (e0 := {| e_depth := depth; e_src := n; e_dst := d; e_val := x; e_md := m |}) in *.
  set (w1 := wlog w e0) in *.
  assert (Hwi1 : WInv g w1) by (eapply WInv_same; [exact Hwi | reflexivity]).
  destruct (update (nkind (gnode g d)) (nst w1 d) (index_of n (ups (gnode g d))) x m) as [acts|] eqn:Eu;
    [|destruct (is_coroutine _); discriminate H].
  destruct (run_actions (emitfrom d) (is_coroutine (nkind (gnode g d))) d acts w1) as [w3 s3] eqn:Er.
  destruct s3; try discriminate H; [|destruct (is_coroutine _); discriminate H].
  injection H as <-. unfold run_actions in Er.
  destruct (Hsf _ _ _ _ _ Eu) as [pre [post [-> [Hpre Hpost]]]].
  rewrite fold_left_app in Er.
  pose proof Hwi1 as [Hwf1 Hinv1].
  destruct (pre_excess g (emitfrom d) (is_coroutine (nkind (gnode g d))) d Hd pre w1 Hpre (proj1 Hwf1))
    as [w2 [A [B [C [D E]]]]].
  rewrite A in Er.
  assert (Hfs : final_state (pre ++ post) (nst w1 d) = final_state pre (nst w1 d))
    by (rewrite final_state_app, final_state_noset by exact Hpost; reflexivity).
  assert (Hwi2 : WInv g w2).
  { split; [split; [exact B|]|].
    - intros dd Hp. destruct (Nat.eq_dec dd d) as [->|Hne];
        [|rewrite D by exact Hne; apply Hwf1; exact Hp].
      rewrite C. destruct (final_state_in pre (nst w1 d)) as [E'|E'];
        [rewrite E'; apply Hwf1; exact Hp|].
      eapply update_detached; [exact Eu | exact Hp | apply Hwf1; exact Hp | apply in_or_app; left; exact E'].
    - intros dd Hdd. destruct (Nat.eq_dec dd d) as [->|Hne];
        [|rewrite D by exact Hne; apply Hinv1; exact Hdd].
      rewrite C, <- Hfs.
      eapply node_inv_preserved; [apply Hinv1; exact Hd | apply index_of_lt; exact Hin | exact Eu]. }
  destruct (post_excess g _ _ d HX post w2 w3 Hpost Hwi2 Er) as [A3 C3].
  split; [apply WInv_release; exact A3|].
  intros r. unfold excess at 1. rewrite cnt_release, holders_release.
  specialize (C3 r). unfold excess at 1 in C3. specialize (E r).
  pose proof (kind_books_inv (gnode g d) _ _ _ _ _ r (Hinv1 d Hd) (index_of_lt _ _ Hin) Eu) as Hb.
  rewrite books_app, Hfs in Hb.
  assert (Ew : excess g w1 r = excess g w r) by (unfold excess; f_equal).
  lia.
Qed.

(* one turn of the loop of _emit: the hand-over, or the release alone for a child that left since the snapshot (a slice
   that finished during an earlier hand-over of this same emission: with feedback edges that does happen) *)
Lemma hand_excess_any g emitfrom depth n x m d w w' :
  ExcessAny g (emitfrom d) -> state_first (nkind (gnode g d)) -> WInv g w ->
  is_down g n d = true ->
  hand emitfrom g depth n x m (w, SOk) d = (w', SOk) ->
  WInv g w' /\ forall r, excess g w' r = (excess g w r - occ m r)%Z.
Proof.
  intros HX Hsf Hwi Hdn H.
  destruct (hand_cases emitfrom g depth n x m w SOk d) as [E|[_ [_ E]]]; rewrite E in H.
  - eapply deliver_excess_any; eauto.
  - injection H as <-. split; [apply WInv_release; exact Hwi|].
    intros r. unfold excess. rewrite cnt_release, holders_release. lia.
Qed.

Lemma hand_all_excess_any g emitfrom depth n x m :
  all_state_first g -> (forall d, ExcessAny g (emitfrom d)) ->
  forall l w w', WInv g w -> (forall d, In d l -> is_down g n d = true) ->
  fold_left (hand emitfrom g depth n x m) l (w, SOk) = (w', SOk) ->
  WInv g w' /\ forall r, excess g w' r = (excess g w r - Z.of_nat (length l) * occ m r)%Z.
Proof.
  intros Hsf HX. induction l as [|d t IH]; intros w w' Hwi Hl H; cbn [fold_left] in H.
  - injection H as <-. split; [exact Hwi|]. intros r. cbn. lia.
  - destruct (hand emitfrom g depth n x m (w, SOk) d) as [w1 s1] eqn:E1.
    pose proof (hand_ok_inv _ _ _ _ _ _ _ _ _ _ H) as ->.
    pose proof (Hl d (or_introl eq_refl)) as Hdn.
    assert (Hk : state_first (nkind (gnode g d))).
    { apply state_first_ok. apply Hsf. apply (is_down_In _ _ _ Hdn). }
    destruct (hand_excess_any _ _ _ _ _ _ _ _ _ (HX d) Hk Hwi Hdn E1) as [A1 B1].
    destruct (IH w1 w' A1 (fun d' Hd' => Hl d' (or_intror Hd')) H) as [A2 B2].
    split; [exact A2|]. intros r. rewrite B2, B1. cbn [length]. lia.
Qed.

Lemma push_excess_any g : all_state_first g ->
  forall fuel depth n, ExcessAny g (push fuel g depth n).
Proof.
  intros Hsf. induction fuel as [|fuel IH]; intros depth n w y my w' Hwi H; cbn [push] in H; [discriminate|].
  destruct (hand_all_excess_any g (fun d => push fuel g (S depth) d) depth n y my Hsf
              (fun d => IH (S depth) d) (downs g w n) _ w' (WInv_retain _ _ _ _ Hwi)
              (fun dd Hdd => downs_is_down _ _ _ _ Hdd) H) as [A B].
  split; [exact A|]. intros r. rewrite B. unfold excess. rewrite cnt_retain, holders_retain. lia.
Qed.

(* ------------------------------------------------------------------------- *)
(* 4. the theorems                                                             *)
(* ------------------------------------------------------------------------- *)
Theorem push_excess_any_graph : forall g, all_params_ok g -> all_state_first g ->
  forall fuel depth d w y my w', WInv g w -> push fuel g depth d w y my = (w', SOk) ->
    WInv g w' /\ forall r, excess g w' r = excess g w r.
Proof.
  intros g _ Hsf fuel depth d w y my w' Hwi H.
  exact (push_excess_any g Hsf fuel depth d w y my w' Hwi H).
Qed.

Theorem exec_excess_any_graph : forall g fuel, all_params_ok g -> all_state_first g ->
  forall evs w w', WInv g w -> emits_only evs -> exec_from fuel g w evs = (w', SOk) ->
    WInv g w' /\ forall r, excess g w' r = excess g w r.
Proof.
  intros g fuel Hpar Hsf.
  induction evs as [|e rest IH]; intros w w' Hwi Hev H; cbn [exec_from] in H.
  - injection H as <-. split; [exact Hwi | reflexivity].
  - destruct (step fuel g w e) as [w1 s1] eqn:Es. destruct s1; try discriminate H.
    pose proof (Hev e (or_introl eq_refl)) as He. destruct e as [n x m|n]; [|contradiction].
    cbn [step] in Es.
    destruct (push_excess_any_graph g Hpar Hsf fuel 0 n w x m w1 Hwi Es) as [A1 B1].
    destruct (IH w1 w' A1 (fun e' He' => Hev e' (or_intror He')) H) as [A B].
    split; [exact A|]. intros r. rewrite B. apply B1.
Qed.

Theorem balance_at_quiescence_any_graph : forall g fuel evs w, all_params_ok g -> all_state_first g ->
  emits_only evs -> exec_from fuel g (init_world g) evs = (w, SOk) -> forall r, cnt w r = holders g w r.
Proof.
  intros g fuel evs w Hpar Hsf Hev H r.
  destruct (exec_excess_any_graph g fuel Hpar Hsf evs (init_world g) w (WInv_init g Hpar) Hev H) as [_ B].
  specialize (B r). unfold excess in B. rewrite holders_init in B. cbn [init_world cnt] in B. lia.
Qed.

Theorem count_nonneg_any_graph : forall g fuel evs w, all_params_ok g -> all_state_first g ->
  emits_only evs -> exec_from fuel g (init_world g) evs = (w, SOk) -> forall r, (0 <= cnt w r)%Z.
Proof.
  intros g fuel evs w A B C D r.
  rewrite (balance_at_quiescence_any_graph g fuel evs w A B C D r). apply holders_nonneg.
Qed.

(* ------------------------------------------------------------------------- *)
(* 5. non-vacuity: a cyclic pipeline with a sliding_window ON the cycle         *)
(* ------------------------------------------------------------------------- *)
(* source -> union -> sliding_window(2) -> unique(key = sum mod 5) -> back into the union;
   the windows also go to a partition(2) in front of a sink.  Every event carries its own counter. *)
Definition rcg : graph :=
  [ {| nkind := KSource; ups := [] |};
    {| nkind := KUnion; ups := [0; 3] |};
    {| nkind := KSliding 2 false; ups := [1] |};
    {| nkind := KUnique None (interpK (KeyMod 5%Z)); ups := [2] |};
    {| nkind := KPartition 2 None; ups := [2] |};
    {| nkind := KSink (fun _ => Some tt); ups := [4] |} ].
Definition rc_evs : list event :=
  [EEmit 0 (VInt 1%Z) (rc 0); EEmit 0 (VInt 2%Z) (rc 1); EEmit 0 (VInt 3%Z) (rc 2); EEmit 0 (VInt 4%Z) (rc 3)].
(* a notation, not a constant: no proof step has to unfold a name standing for the whole computation *)
Notation rc_run := (exec_from 100 rcg (init_world rcg) rc_evs).

Lemma rcg_params : all_params_ok rcg.
Proof.
  intros d Hd. do 6 (destruct d as [|d]; [unfold node_params_ok; cbn; first [exact I | lia]|]).
  cbn in Hd. lia.
Qed.

Lemma rcg_state_first : all_state_first rcg.
Proof. intros d Hd. do 6 (destruct d as [|d]; [reflexivity|]). cbn in Hd. lia. Qed.

Lemma rc_evs_emits : emits_only rc_evs.
Proof. intros e He. cbn in He. repeat (destruct He as [<-|He]; [exact I|]). contradiction. Qed.

Lemma rc_run_ok : rc_run = (fst rc_run, SOk).
Proof.
  assert (Hs : snd rc_run = SOk) by (vm_compute; reflexivity).
  rewrite <- Hs. apply surjective_pairing.
Qed.

Example feedback_rc_nonvacuous :
  wf_dagb rcg = false /\ ~ wf_dag rcg /\
  all_params_ok rcg /\ all_state_first rcg /\ emits_only rc_evs /\
  snd rc_run = SOk /\
  (* the sliding_window (2) is entered at depths 1, 4 and 7 within the second and the fourth event:
     twice while its own emission is still in progress *)
  reentered (log (fst rc_run)) = true /\
  map e_depth (filter (fun e => e_dst e =? 2) (rev (log (fst rc_run)))) = [1; 1; 4; 7; 1; 1; 4; 7] /\
  length (log (fst rc_run)) = 33 /\
  (* counters 0..3 and the number of holders of each, computed *)
  map (cnt (fst rc_run)) (seq 0 4) = [0; 0; 2; 3]%Z /\
  map (holders rcg (fst rc_run)) (seq 0 4) = [0; 0; 2; 3]%Z /\
  (* who holds what: one row per node, one column per counter *)
  map (fun d => map (occ (held (nkind (gnode rcg d)) (nst (fst rc_run) d))) (seq 0 4)) (seq 0 6)
  = [[0; 0; 0; 0]; [0; 0; 0; 0];
     [0; 0; 1; 2];           (* sliding_window: the last element, a fed-back window *)
     [0; 0; 0; 0];
     [0; 0; 1; 1];           (* partition: half a pair *)
     [0; 0; 0; 0]]%Z /\
  (* completion callbacks of the elements that left the pipeline *)
  fired (fst rc_run) = [0; 1] /\
  (* ... and by the theorem, for every counter *)
  (forall r, cnt (fst rc_run) r = holders rcg (fst rc_run) r) /\
  (forall r, (0 <= cnt (fst rc_run) r)%Z).
Proof.
  pose proof rc_run_ok as Hrun.
  split; [vm_compute; reflexivity|].
  split; [intros H; specialize (H 1 3); cbn in H; lia|].
  split; [exact rcg_params|]. split; [exact rcg_state_first|]. split; [exact rc_evs_emits|].
  split; [vm_compute; reflexivity|]. split; [vm_compute; reflexivity|].
  split; [vm_compute; reflexivity|]. split; [vm_compute; reflexivity|].
  split; [vm_compute; reflexivity|]. split; [vm_compute; reflexivity|].
  split; [vm_compute; reflexivity|]. split; [vm_compute; reflexivity|].
  split.
  - exact (balance_at_quiescence_any_graph rcg 100 rc_evs _ rcg_params rcg_state_first rc_evs_emits Hrun).
  - exact (count_nonneg_any_graph rcg 100 rc_evs _ rcg_params rcg_state_first rc_evs_emits Hrun).
Qed.

(* ------------------------------------------------------------------------- *)
(* 6. the exclusion of zip_latest is necessary                                  *)
(* ------------------------------------------------------------------------- *)
(* zip_latest on a cycle: while it drains its lossless buffer it is re-entered through the feedback
   edge; the inner call drains the buffer too, and the outer call then writes back its stale copy of the
   rest of the buffer, so the same elements are emitted and RELEASED twice.  The run ends without an
   exception, counters go negative. *)
Definition zlg : graph :=
  [ {| nkind := KSource; ups := [] |};
    {| nkind := KSource; ups := [] |};
    {| nkind := KUnion; ups := [0; 4] |};
    {| nkind := KZipLatest; ups := [2; 1] |};
    {| nkind := KUnique None (interpK (KeyMod 2%Z)); ups := [3] |} ].
Definition zl_evs : list event :=
  [EEmit 0 (VInt 1%Z) (rc 0); EEmit 0 (VInt 2%Z) (rc 1); EEmit 1 (VInt 10%Z) (rc 2)].
Notation zl_run := (exec_from 100 zlg (init_world zlg) zl_evs).

Lemma zlg_params : all_params_ok zlg.
Proof.
  intros d Hd. do 5 (destruct d as [|d]; [unfold node_params_ok; cbn; exact I|]).
  cbn in Hd. lia.
Qed.

Lemma zl_evs_emits : emits_only zl_evs.
Proof. intros e He. cbn in He. repeat (destruct He as [<-|He]; [exact I|]). contradiction. Qed.

Lemma zl_run_ok : zl_run = (fst zl_run, SOk).
Proof.
  assert (Hs : snd zl_run = SOk) by (vm_compute; reflexivity).
  rewrite <- Hs. apply surjective_pairing.
Qed.

Example zip_latest_cycle_unbalanced :
  all_params_ok zlg /\ emits_only zl_evs /\ snd zl_run = SOk /\
  (forall d, d < length zlg -> d <> 3 -> state_first_kindb (nkind (gnode zlg d)) = true) /\
  reentered (log (fst zl_run)) = true /\
  map (cnt (fst zl_run)) (seq 0 3) = [-1; -1; 0]%Z /\
  map (holders zlg (fst zl_run)) (seq 0 3) = [0; 0; 1]%Z /\
  fired (fst zl_run) = [1; 0; 0; 1; 1; 2].       (* callbacks of 0 and 1 scheduled twice, of 2 too early *)
Proof.
  split; [exact zlg_params|]. split; [exact zl_evs_emits|]. split; [vm_compute; reflexivity|].
  split.
  { intros d Hd Hne. do 3 (destruct d as [|d]; [reflexivity|]). destruct d as [|d]; [congruence|].
    destruct d as [|d]; [reflexivity|]. cbn in Hd. lia. }
  repeat split; vm_compute; reflexivity.
Qed.

(* the three run-level statements without [all_state_first] are false *)
Theorem balance_needs_state_first_refuted :
  ~ (forall g fuel evs w, all_params_ok g -> emits_only evs ->
       exec_from fuel g (init_world g) evs = (w, SOk) -> forall r, cnt w r = holders g w r).
Proof.
  intros H.
  pose proof zl_run_ok as Hrun.
  specialize (H zlg 100 zl_evs _ zlg_params zl_evs_emits Hrun 0). vm_compute in H. discriminate H.
Qed.

Theorem count_nonneg_needs_state_first_refuted :
  ~ (forall g fuel evs w, all_params_ok g -> emits_only evs ->
       exec_from fuel g (init_world g) evs = (w, SOk) -> forall r, (0 <= cnt w r)%Z).
Proof.
  intros H.
  pose proof zl_run_ok as Hrun.
  specialize (H zlg 100 zl_evs _ zlg_params zl_evs_emits Hrun 0). vm_compute in H. apply H. reflexivity.
Qed.

Print Assumptions push_excess_any_graph.
Print Assumptions exec_excess_any_graph.
Print Assumptions balance_at_quiescence_any_graph.
Print Assumptions count_nonneg_any_graph.
Print Assumptions feedback_rc_nonvacuous.
Print Assumptions zip_latest_cycle_unbalanced.
Print Assumptions balance_needs_state_first_refuted.
Print Assumptions count_nonneg_needs_state_first_refuted.
