(* Reference-count accounting (C05, C04 sync part): every push that ends without an
   exception preserves   count r - holders r   EXACTLY, for every counter r, every DAG and
   every starting world; hence at every quiescent point  count = number of legitimate holders. *)
From Coq Require Import List ZArith Bool Lia Arith.
From SZ Require Import Base.Values Sync.Nodes Sync.Pipeline Sync.PushSpec Sync.Dataflow.
Import ListNotations.
Close Scope Z_scope.
Open Scope nat_scope.

(* occurrences of counter r in a metadata list *)
Fixpoint occ (m : md) (r : nat) : Z :=
  match m with
  | [] => 0%Z
  | i :: t => ((if mref i && Nat.eqb (mid i) r then 1 else 0) + occ t r)%Z
  end.

Lemma occ_app m1 m2 r : occ (m1 ++ m2) r = (occ m1 r + occ m2 r)%Z.
Proof. induction m1 as [|i t IH]; cbn [app occ]; [lia | rewrite IH; lia]. Qed.

Lemma occ_nonneg m r : (0 <= occ m r)%Z.
Proof. induction m as [|i t IH]; cbn [occ]; [lia|]. destruct (mref i && Nat.eqb (mid i) r); lia. Qed.

(* what a node legitimately holds: the metadata stored in its buffers *)
Definition opt_md (o : option (val * md)) : md := match o with Some (_, m) => m | None => [] end.

Definition held (k : kind) (s : nstate) : md :=
  match k with
  | KZipLatest => flat_map snd (st_win s) ++ flat_map opt_md (tl (st_last s))
  | _ => flat_map (fun e => snd (snd e)) (st_keyed s) ++ flat_map snd (st_win s)
         ++ flat_map (flat_map snd) (st_ports s) ++ flat_map opt_md (st_last s)
  end.

Definition holders (g : graph) (w : world) (r : nat) : Z :=
  fold_right (fun d a => (occ (held (nkind (gnode g d)) (nst w d)) r + a)%Z) 0%Z (seq 0 (length g)).

Definition excess (g : graph) (w : world) (r : nat) : Z := (cnt w r - holders g w r)%Z.

(* net retains minus releases of an action list *)
Fixpoint books (acts : list action) (r : nat) : Z :=
  match acts with
  | [] => 0%Z
  | ARetain m :: t => (occ m r + books t r)%Z
  | ARelease m :: t => (books t r - occ m r)%Z
  | _ :: t => books t r
  end.

Lemma books_app a b r : books (a ++ b) r = (books a r + books b r)%Z.
Proof. induction a as [|[st|mm|mm|y my] t IH]; cbn [app books]; rewrite ?IH; lia. Qed.

(* the per-kind obligation: a node's own retains/releases equal the change of what it holds *)
Definition kind_books (k : kind) : Prop :=
  forall s p x m acts r, update k s p x m = Some acts ->
    books acts r = (occ (held k (final_state acts s)) r - occ (held k s) r)%Z.

(* ---- counters under retain / release ------------------------------------------- *)
Lemma cnt_retain w m n r : cnt (retain w m n) r = (cnt w r + n * occ m r)%Z.
Proof.
  unfold retain. revert w. induction m as [|i t IH]; intros w; cbn [fold_left occ]; [lia|].
  destruct (mref i) eqn:Ei; cbn [andb].
  - rewrite IH. cbn [retain1 cnt]. destruct (Nat.eqb_spec (mid i) r); rewrite Z.mul_add_distr_l; lia.
  - rewrite IH. rewrite Z.mul_add_distr_l. lia.
Qed.

Lemma cnt_release w m n r : cnt (release w m n) r = (cnt w r - n * occ m r)%Z.
Proof.
  unfold release. revert w. induction m as [|i t IH]; intros w; cbn [fold_left occ]; [lia|].
  destruct (mref i) eqn:Ei; cbn [andb].
  - rewrite IH. cbn [release1 cnt]. destruct (Nat.eqb_spec (mid i) r) as [e|e]; [rewrite e|]; rewrite Z.mul_add_distr_l; lia.
  - rewrite IH. rewrite Z.mul_add_distr_l. lia.
Qed.

Lemma holders_ext g w1 w2 r : sts w1 = sts w2 -> holders g w1 r = holders g w2 r.
Proof. intros H. unfold holders, nst. rewrite H. reflexivity. Qed.

Lemma holders_retain g w m n r : holders g (retain w m n) r = holders g w r.
Proof. apply holders_ext. apply retain_frame. Qed.
Lemma holders_release g w m n r : holders g (release w m n) r = holders g w r.
Proof. apply holders_ext. apply release_frame. Qed.

Lemma holders_set_gen g w d st r : forall len a,
  fold_right (fun d' acc => (occ (held (nkind (gnode g d')) (nst (wset_sts w (set_nth d st (sts w))) d')) r + acc)%Z) 0%Z (seq a len)
  = (fold_right (fun d' acc => (occ (held (nkind (gnode g d')) (nst w d')) r + acc)%Z) 0%Z (seq a len)
     + if Nat.leb a d && Nat.ltb d (a + len)%nat && Nat.ltb d (length (sts w))
       then occ (held (nkind (gnode g d)) st) r - occ (held (nkind (gnode g d)) (nst w d)) r else 0)%Z.
Proof.
  induction len as [|len IH]; intros a; cbn [seq fold_right].
  - destruct (Nat.leb_spec a d); destruct (Nat.ltb_spec d (a + 0)); cbn [andb]; try lia.
  - rewrite IH. destruct (Nat.eq_dec a d) as [->|Hne].
    + destruct (Nat.ltb_spec d (length (sts w))) as [Hl|Hl].
      * rewrite nst_wset_eq by exact Hl.
        destruct (Nat.leb_spec (S d) d); [lia|]. cbn [andb].
        destruct (Nat.leb_spec d d); [|lia]. destruct (Nat.ltb_spec d (d + S len)); [|lia]. cbn [andb]. lia.
      * assert (E : nst (wset_sts w (set_nth d st (sts w))) d = nst w d).
        { unfold nst; cbn. rewrite !nth_overflow; [reflexivity | lia | rewrite set_nth_length; lia]. }
        rewrite E. rewrite !andb_false_r. lia.
    + rewrite nst_wset_neq by lia.
      destruct (Nat.leb_spec (S a) d); destruct (Nat.leb_spec a d); destruct (Nat.ltb_spec d (S a + len));
        destruct (Nat.ltb_spec d (a + S len)); cbn [andb]; try lia.
Qed.

Lemma holders_set g w d st r : d < length g -> length (sts w) = length g ->
  holders g (wset_sts w (set_nth d st (sts w))) r
  = (holders g w r + occ (held (nkind (gnode g d)) st) r - occ (held (nkind (gnode g d)) (nst w d)) r)%Z.
Proof.
  intros Hd Hl. unfold holders. rewrite holders_set_gen.
  destruct (Nat.leb_spec 0 d); [|lia]. destruct (Nat.ltb_spec d (0 + length g)); [|lia].
  destruct (Nat.ltb_spec d (length (sts w))); [|lia]. cbn [andb]. lia.
Qed.

(* ---- excess is preserved exactly --------------------------------------------------- *)
Definition ExcessSpec (g : graph) (emitfrom : nat -> world -> val -> md -> world * status) : Prop :=
  forall d w y my w', WF g w -> emitfrom d w y my = (w', SOk) -> forall r, excess g w' r = excess g w r.

Lemma run_actions_excess g emitfrom depth d coro :
  EmitSpec g emitfrom (S depth) -> ExcessSpec g emitfrom -> d < length g ->
  forall acts w w',
    (forall st, In (ASet st) acts -> permanent g d = true -> st_detached st = false) ->
    WF g w ->
    fold_left (do_action (emitfrom d) coro d) acts (w, SOk) = (w', SOk) ->
    WF g w' /\ nst w' d = final_state acts (nst w d) /\
    forall r, excess g w' r =
      (excess g w r + books acts r
       - (occ (held (nkind (gnode g d)) (final_state acts (nst w d))) r - occ (held (nkind (gnode g d)) (nst w d)) r))%Z.
Proof.
  intros HE HX Hd. induction acts as [|a t IH]; intros w w' Hset Hwf H; cbn [fold_left] in H.
  - injection H as <-. split; [exact Hwf|]. split; [reflexivity|]. intros r. cbn. lia.
  - assert (Hset' : forall st, In (ASet st) t -> permanent g d = true -> st_detached st = false)
      by (intros st Hin; apply Hset; right; exact Hin).
    unfold do_action at 2 in H.
    replace (if coro then status_ok SOk else status_go SOk) with true in H by (destruct coro; reflexivity).
    destruct a as [st|mm|mm|y my].
    + set (w1 := wset_sts w (set_nth d st (sts w))) in *.
      assert (Hlen : d < length (sts w)) by (destruct Hwf as [-> _]; exact Hd).
      assert (Hwf1 : WF g w1).
      { destruct Hwf as [A B]. split; [unfold w1; cbn; rewrite set_nth_length; exact A|].
        intros dd Hp. destruct (Nat.eq_dec dd d) as [->|Hne].
        - unfold w1. rewrite nst_wset_eq by exact Hlen. apply Hset; [left; reflexivity | exact Hp].
        - unfold w1. rewrite nst_wset_neq by exact Hne. auto. }
      destruct (IH w1 w' Hset' Hwf1 H) as [A [B C]].
      assert (E1 : nst w1 d = st) by (unfold w1; apply nst_wset_eq; exact Hlen).
      split; [exact A|]. split; [rewrite B, E1; reflexivity|].
      intros r. rewrite C, E1. cbn [books final_state]. unfold excess.
      unfold w1 at 1 2. cbn [cnt wset_sts]. rewrite holders_set by (destruct Hwf; auto). lia.
    + destruct (IH (retain w mm 1) w' Hset' (WF_retain _ _ _ _ Hwf) H) as [A [B C]].
      split; [exact A|]. split; [rewrite B, nst_retain; reflexivity|].
      intros r. rewrite C, nst_retain. cbn [books final_state]. unfold excess.
      rewrite cnt_retain, holders_retain. lia.
    + destruct (IH (release w mm 1) w' Hset' (WF_release _ _ _ _ Hwf) H) as [A [B C]].
      split; [exact A|]. split; [rewrite B, nst_release; reflexivity|].
      intros r. rewrite C, nst_release. cbn [books final_state]. unfold excess.
      rewrite cnt_release, holders_release. lia.
    + destruct (emitfrom d w y my) as [w1 s1] eqn:E.
      pose proof (actions_ok_inv _ _ _ _ _ _ _ H) as Hs. apply status_join_ok in Hs. destruct Hs as [_ Hs]. subst s1.
      cbn [status_join] in H.
      destruct (HE d w y my w1 Hwf E) as [n1 [S1 _]].
      destruct (IH w1 w' Hset' (seg_wf _ _ _ _ _ _ S1) H) as [A [B C]].
      assert (E1 : nst w1 d = nst w d) by (apply (seg_low _ _ _ _ _ _ S1); lia).
      split; [exact A|]. split; [rewrite B, E1; reflexivity|].
      intros r. rewrite C, E1, (HX d w y my w1 Hwf E r). cbn [books final_state]. lia.
Qed.

Definition graph_books (g : graph) : Prop := forall d, kind_books (nkind (gnode g d)).

Lemma deliver_excess g emitfrom depth n x m d w w' :
  graph_books g -> EmitSpec g emitfrom (S depth) -> ExcessSpec g emitfrom -> WF g w -> d < length g ->
  deliver emitfrom g depth n x m (w, SOk) d = (w', SOk) ->
  WF g w' /\ forall r, excess g w' r = (excess g w r - occ m r)%Z.
Proof.
  intros Hb HE HX Hwf Hd H. unfold deliver in H. cbn [status_go] in H.
  set (e0 := {| e_depth := depth; e_src := n; e_dst := d; e_val := x; e_md := m |}) in *.
  set (w1 := wlog w e0) in *.
  assert (Hn1 : forall i, nst w1 i = nst w i) by reflexivity.
  assert (Hwf1 : WF g w1) by (destruct Hwf as [A B]; split; [exact A | intros dd Hp; rewrite Hn1; auto]).
  destruct (update (nkind (gnode g d)) (nst w1 d) (index_of n (ups (gnode g d))) x m) as [acts|] eqn:Eu;
    [|destruct (is_coroutine _); discriminate H].
  destruct (run_actions (emitfrom d) (is_coroutine (nkind (gnode g d))) d acts w1) as [w2 s2] eqn:Er.
  destruct s2; try discriminate H; [|destruct (is_coroutine _); discriminate H].
  injection H as <-. unfold run_actions in Er.
  assert (Hset : forall st, In (ASet st) acts -> permanent g d = true -> st_detached st = false).
  { intros st Hst Hp. eapply update_detached; eauto. destruct Hwf1 as [_ B]. apply B. exact Hp. }
  destruct (run_actions_excess g emitfrom depth d _ HE HX Hd acts w1 w2 Hset Hwf1 Er) as [A [B C]].
  split; [apply WF_release; exact A|].
  intros r. unfold excess at 1. rewrite cnt_release, holders_release.
  specialize (C r). unfold excess at 1 in C. rewrite (Hb d _ _ _ _ _ r Eu) in C.
  assert (Ew : excess g w1 r = excess g w r) by (unfold excess; f_equal).
  rewrite Ew in C. lia.
Qed.

(* one turn of the loop of _emit: the hand-over, or - for a child that left since the snapshot was taken - the release of
   the reference that was retained for it.  Either way the excess drops by exactly the occurrences in m. *)
Lemma hand_excess g emitfrom depth n x m d w w' :
  graph_books g -> EmitSpec g emitfrom (S depth) -> ExcessSpec g emitfrom -> WF g w -> d < length g ->
  hand emitfrom g depth n x m (w, SOk) d = (w', SOk) ->
  WF g w' /\ forall r, excess g w' r = (excess g w r - occ m r)%Z.
Proof.
  intros Hb HE HX Hwf Hd H.
  destruct (hand_cases emitfrom g depth n x m w SOk d) as [E|[_ [_ E]]]; rewrite E in H.
  - eapply deliver_excess; eauto.
  - injection H as <-. split; [apply WF_release; exact Hwf|].
    intros r. unfold excess. rewrite cnt_release, holders_release. lia.
Qed.

Lemma hand_all_excess g emitfrom depth n x m :
  graph_books g -> EmitSpec g emitfrom (S depth) -> ExcessSpec g emitfrom ->
  forall l w w', WF g w -> (forall d, In d l -> d < length g) ->
  fold_left (hand emitfrom g depth n x m) l (w, SOk) = (w', SOk) ->
  WF g w' /\ forall r, excess g w' r = (excess g w r - Z.of_nat (length l) * occ m r)%Z.
Proof.
  intros Hb HE HX. induction l as [|d t IH]; intros w w' Hwf Hl H; cbn [fold_left] in H.
  - injection H as <-. split; [exact Hwf|]. intros r. cbn. lia.
  - destruct (hand emitfrom g depth n x m (w, SOk) d) as [w1 s1] eqn:E1.
    pose proof (hand_ok_inv _ _ _ _ _ _ _ _ _ _ H) as ->.
    destruct (hand_excess _ _ _ _ _ _ _ _ _ Hb HE HX Hwf (Hl d (or_introl eq_refl)) E1) as [A1 B1].
    destruct (IH w1 w' A1 (fun d' Hd' => Hl d' (or_intror Hd')) H) as [A2 B2].
    split; [exact A2|]. intros r. rewrite B2, B1. cbn [length]. lia.
Qed.

Theorem push_excess g : wf_dag g -> graph_books g ->
  forall fuel depth, ExcessSpec g (fun d => push fuel g depth d).
Proof.
  intros Hdag Hb. induction fuel as [|fuel IH]; intros depth d w y my w' Hwf H r; cbn [push] in H; [discriminate|].
  destruct (hand_all_excess g _ depth d y my Hb (push_spec g Hdag fuel (S depth)) (IH (S depth))
              (downs g w d) _ w' (WF_retain _ _ _ _ Hwf)
              (fun dd Hdd => proj1 (is_down_In _ _ _ (downs_is_down _ _ _ _ Hdd))) H) as [_ B].
  rewrite B. unfold excess. rewrite cnt_retain, holders_retain. lia.
Qed.

(* ---- the per-kind obligation, kind by kind ------------------------------------------ *)
Lemma books_map_emit (l : list val) r : books (map (fun y => AEmit y []) l) r = 0%Z.
Proof. induction l; cbn; auto. Qed.

Lemma final_state_app' a b s : final_state (a ++ b) s = final_state b (final_state a s).
Proof. revert s. induction a as [|[st|mm|mm|y my] t IH]; intros s0; cbn; auto. Qed.
Lemma final_state_map_emit' (l : list val) s : final_state (map (fun y => AEmit y []) l) s = s.
Proof. induction l; cbn; auto. Qed.

Lemma occ_flat_assoc_set (ky : val) (b : list val * md) (l : list (val * (list val * md))) r :
  occ (flat_map (fun e => snd (snd e)) (assoc_set ky b l)) r =
  (occ (flat_map (fun e => snd (snd e)) l) r
   - occ (snd (match assoc_get ky l with Some b0 => b0 | None => ([], []) end)) r + occ (snd b) r)%Z.
Proof.
  induction l as [|[k' b'] t IH]; cbn [assoc_set assoc_get flat_map].
  - cbn. rewrite app_nil_r. reflexivity.
  - destruct (val_eqb ky k'); cbn [flat_map snd]; rewrite !occ_app.
    + lia.
    + rewrite IH. lia.
Qed.

Definition books_kind_ok (k : kind) : bool :=
  match k with
  | KSource | KUnion | KMap _ | KStarmap _ | KFilter _ | KAccum _ _ _ _ | KSlice _ _ _
  | KUnique _ _ | KFlatten | KPluck _ | KSink _ | KCollect | KPartition _ _ => true
  | _ => false
  end.

Lemma kind_books_ok k : books_kind_ok k = true -> kind_books k.
Proof.
  intros Hk s p x m acts r H.
  destruct k; try discriminate Hk; cbn [update] in H.
  all: try solve [split_upd H; try discriminate H; injection H as <-; cbn; lia].
  - (* partition *)
    destruct (match assoc_get _ _ with Some b => b | None => _ end) as [vs ms] eqn:Eb.
    destruct (_ =? _); injection H as <-; cbn [books final_state held set_keyed st_keyed st_win st_ports st_last];
      rewrite !occ_app, occ_flat_assoc_set, Eb; cbn [snd]; rewrite ?occ_app; cbn [occ]; lia.
  - (* flatten *)
    destruct (items x) as [[|y l]|]; try discriminate H; injection H as <-; [cbn; lia|].
    rewrite books_app, books_map_emit, final_state_app', final_state_map_emit'. cbn. lia.
  - (* collect *)
    injection H as <-. cbn [books final_state held set_win st_keyed st_win st_ports st_last].
    rewrite !occ_app, flat_map_app, occ_app. cbn. rewrite app_nil_r. lia.
Qed.

(* ---- whole runs ------------------------------------------------------------------------ *)
Definition books_graph_ok (g : graph) : Prop := forall d, d < length g -> books_kind_ok (nkind (gnode g d)) = true.

Lemma books_graph_ok_books g : books_graph_ok g -> graph_books g.
Proof.
  intros H d. destruct (Nat.lt_ge_cases d (length g)) as [Hlt|Hge].
  - apply kind_books_ok. apply H. exact Hlt.
  - unfold gnode. rewrite nth_overflow by exact Hge. apply kind_books_ok. reflexivity.
Qed.

Definition emits_only (evs : list event) : Prop :=
  forall e, In e evs -> match e with EEmit _ _ _ => True | EFlush _ => False end.

Lemma held_init k n : held k (init_state k n) = [].
Proof.
  destruct k; cbn; try reflexivity.
  - destruct stop as [[|e]|]; reflexivity.
  - induction n; cbn; auto.
  - induction n; cbn; auto.
  - destruct n; cbn; [reflexivity|]. induction n; cbn; auto.
Qed.

Lemma holders_init g r : holders g (init_world g) r = 0%Z.
Proof.
  unfold holders. induction (seq 0 (length g)) as [|d t IH]; cbn [fold_right]; [reflexivity|].
  rewrite IH. rewrite nst_init. unfold init_st. rewrite held_init. reflexivity.
Qed.

Lemma WF_init g : WF g (init_world g).
Proof.
  split; [unfold init_world; cbn; apply map_length|].
  intros d Hp. rewrite nst_init. unfold init_st. unfold permanent in Hp.
  destruct (nkind (gnode g d)); try reflexivity.
  destruct stop as [[|e]|]; try discriminate Hp; reflexivity.
Qed.

Theorem exec_excess g : wf_dag g -> books_graph_ok g ->
  forall evs w w', WF g w -> emits_only evs ->
  exec_from (fuel_for g) g w evs = (w', SOk) ->
  WF g w' /\ forall r, excess g w' r = excess g w r.
Proof.
  intros Hdag Hb. pose proof (books_graph_ok_books g Hb) as Hgb.
  induction evs as [|e rest IH]; intros w w' Hwf Hev H; cbn [exec_from] in H.
  - injection H as <-. split; [exact Hwf | reflexivity].
  - destruct (step (fuel_for g) g w e) as [w1 s1] eqn:Es. destruct s1; try discriminate H.
    pose proof (Hev e (or_introl eq_refl)) as He. destruct e as [n x m|n]; [|contradiction].
    cbn [step] in Es.
    destruct (push_spec g Hdag _ 0 n w x m w1 Hwf Es) as [new [S _]].
    destruct (IH w1 w' (seg_wf _ _ _ _ _ _ S) (fun e' He' => Hev e' (or_intror He')) H) as [A B].
    split; [exact A|]. intros r. rewrite B. apply (push_excess g Hdag Hgb _ 0 n w x m w1 Hwf Es).
Qed.

(* C05: at every quiescent point of an exception-free run the count of every counter equals the
   number of legitimate holders (buffers of unfilled partitions, unflushed collects, ...). *)
Theorem balance_at_quiescence g evs w :
  wf_dag g -> books_graph_ok g -> emits_only evs -> exec g evs = (w, SOk) ->
  forall r, cnt w r = holders g w r.
Proof.
  intros Hdag Hb Hev H r.
  destruct (exec_excess g Hdag Hb evs (init_world g) w (WF_init g) Hev H) as [_ B].
  specialize (B r). unfold excess in B. rewrite holders_init in B. cbn [init_world cnt] in B. lia.
Qed.

Lemma holders_nonneg g w r : (0 <= holders g w r)%Z.
Proof.
  unfold holders. induction (seq 0 (length g)) as [|d t IH]; cbn [fold_right]; [lia|].
  pose proof (occ_nonneg (held (nkind (gnode g d)) (nst w d)) r). lia.
Qed.

Corollary count_nonneg g evs w :
  wf_dag g -> books_graph_ok g -> emits_only evs -> exec g evs = (w, SOk) ->
  forall r, (0 <= cnt w r)%Z.
Proof. intros A B C D r. rewrite (balance_at_quiescence g evs w A B C D r). apply holders_nonneg. Qed.

(* an element that nobody holds any more has count zero *)
Corollary left_pipeline_zero g evs w r :
  wf_dag g -> books_graph_ok g -> emits_only evs -> exec g evs = (w, SOk) ->
  (forall d, d < length g -> occ (held (nkind (gnode g d)) (nst w d)) r = 0%Z) -> cnt w r = 0%Z.
Proof.
  intros A B C D Hh. rewrite (balance_at_quiescence g evs w A B C D r).
  unfold holders. assert (G : forall l, (forall d, In d l -> d < length g) ->
     fold_right (fun d a => (occ (held (nkind (gnode g d)) (nst w d)) r + a)%Z) 0%Z l = 0%Z).
  { induction l as [|d t IH]; intros Hl; cbn [fold_right]; [reflexivity|].
    rewrite IH by (intros d' Hd'; apply Hl; right; exact Hd'). rewrite Hh by (apply Hl; left; reflexivity). reflexivity. }
  apply G. intros d Hd. apply in_seq in Hd. lia.
Qed.

(* RefCounter.release: the completion callback is scheduled exactly when a release brings the count to <= 0 *)
Lemma release1_fires w r n : fired (release1 w r n) = if (cnt w r - n <=? 0)%Z then fired w ++ [r] else fired w.
Proof. reflexivity. Qed.
