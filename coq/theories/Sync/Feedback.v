(* Pipelines WITH feedback edges: arbitrary graphs, no [wf_dag].
   A node can be re-entered while its own emission is in progress.  Nodes that write
   their state before they emit ("state-first") keep the dataflow meaning
   "state = fold of update over the arrivals, in the order of the log",
   for any graph, any fuel and any outcome of the run. *)
From Coq Require Import List ZArith Bool Lia Arith.
From SZ Require Import Base.Values Sync.Nodes Sync.Pipeline Sync.PushSpec Sync.Dataflow Sync.RefCount.
Import ListNotations.
Close Scope Z_scope.
Open Scope nat_scope.

(* ------------------------------------------------------------------------- *)
(* 1. state-first action lists and kinds                                      *)
(* ------------------------------------------------------------------------- *)
Definition is_emit (a : action) : bool := match a with AEmit _ _ => true | _ => false end.
Definition is_set  (a : action) : bool := match a with ASet _ => true | _ => false end.

(* every state write precedes every emission *)
Definition state_first_acts (acts : list action) : Prop :=
  exists pre post, acts = pre ++ post /\ forallb (fun a => negb (is_emit a)) pre = true
                                     /\ forallb (fun a => negb (is_set a)) post = true.
Definition state_first (k : kind) : Prop :=
  forall s p x m acts, update k s p x m = Some acts -> state_first_acts acts.
Definition state_first_kindb (k : kind) : bool := match k with KZipLatest => false | _ => true end.

(* boolean characterisation: after the first emission there is no write *)
Fixpoint sfb (acts : list action) : bool :=
  match acts with
  | [] => true
  | AEmit _ _ :: t => forallb (fun a => negb (is_set a)) t
  | _ :: t => sfb t
  end.

Lemma sfb_sound acts : sfb acts = true -> state_first_acts acts.
Proof.
  induction acts as [|a t IH]; intros H.
  - exists [], []. repeat split; reflexivity.
  - destruct a as [st|mm|mm|y my]; cbn [sfb] in H.
    + destruct (IH H) as [pre [post [E [A B]]]]. exists (ASet st :: pre), post. subst t. repeat split; auto.
    + destruct (IH H) as [pre [post [E [A B]]]]. exists (ARetain mm :: pre), post. subst t. repeat split; auto.
    + destruct (IH H) as [pre [post [E [A B]]]]. exists (ARelease mm :: pre), post. subst t. repeat split; auto.
    + exists [], (AEmit y my :: t). repeat split; auto.
Qed.

Lemma noset_sfb l : forallb (fun a => negb (is_set a)) l = true -> sfb l = true.
Proof.
  induction l as [|a t IH]; intros H; [reflexivity|].
  cbn [forallb] in H. apply andb_true_iff in H as [H1 H2].
  destruct a; cbn [sfb]; auto.
Qed.

Lemma sfb_app_noemit l1 l2 : forallb (fun a => negb (is_emit a)) l1 = true -> sfb (l1 ++ l2) = sfb l2.
Proof.
  induction l1 as [|a t IH]; intros H; [reflexivity|].
  cbn [forallb] in H. apply andb_true_iff in H as [H1 H2].
  destruct a; cbn [sfb app]; auto. discriminate H1.
Qed.

Lemma sfb_complete acts : state_first_acts acts -> sfb acts = true.
Proof.
  intros [pre [post [-> [A B]]]]. rewrite sfb_app_noemit by exact A. apply noset_sfb. exact B.
Qed.

Lemma noset_map_emit (f : val -> action) l :
  (forall y, is_set (f y) = false) -> forallb (fun a => negb (is_set a)) (map f l) = true.
Proof. intros Hf. induction l as [|y t IH]; cbn; [reflexivity|]. rewrite Hf, IH. reflexivity. Qed.

Theorem state_first_ok : forall k, state_first_kindb k = true -> state_first k.
Proof.
  intros k Hk s p x m acts H. apply sfb_sound.
  destruct k; cbn [update] in H; try discriminate Hk.
  all: try solve [split_upd H; try discriminate H; injection H as <-; reflexivity].
  - (* partition_unique *)
    destruct (if keep_last then _ else _) as [pre kd] eqn:Epre.
    assert (Hpre : forallb (fun a => negb (is_emit a)) pre = true).
    { destruct keep_last.
      - injection Epre as <- _. destruct (assoc_get _ _) as [[? ?]|]; reflexivity.
      - destruct (assoc_get _ _); injection Epre as <- _; reflexivity. }
    destruct (_ =? _); injection H as <-.
    + change ([ARetain m] ++ pre ++ ?l) with (ARetain m :: pre ++ l). cbn [sfb].
      rewrite sfb_app_noemit by exact Hpre. reflexivity.
    + change ([ARetain m] ++ pre ++ ?l) with (ARetain m :: pre ++ l). cbn [sfb].
      rewrite sfb_app_noemit by exact Hpre. reflexivity.
  - (* flatten *)
    destruct (items x) as [[|y l]|]; try discriminate H; injection H as <-; [reflexivity|].
    apply noset_sfb. rewrite forallb_app. rewrite noset_map_emit by reflexivity. reflexivity.
Qed.

Definition zl_state : nstate :=
  set_win (set_last st_empty [None; Some (VNone, [])]) [(VNone, [])].

Theorem zip_latest_not_state_first : ~ state_first KZipLatest.
Proof.
  intros H.
  assert (E : exists acts, update KZipLatest zl_state 0 VNone [] = Some acts /\ sfb acts = false).
  { eexists. split; [vm_compute; reflexivity | vm_compute; reflexivity]. }
  destruct E as [acts [E1 E2]].
  apply H in E1. apply sfb_complete in E1. congruence.
Qed.

Theorem flush_state_first : forall s, state_first_acts (flush_actions s).
Proof. intros s. apply sfb_sound. reflexivity. Qed.

(* ------------------------------------------------------------------------- *)
(* 2. push in an arbitrary graph                                              *)
(* ------------------------------------------------------------------------- *)
Definition SF (g : graph) (d : nat) : Prop := d < length g /\ state_first (nkind (gnode g d)).

(* going from w to w', [new] was logged (program order); every node selected by P has folded its
   update over its new arrivals *)
Record Seg (g : graph) (depth : nat) (P : nat -> Prop) (w : world) (new : list entry) (w' : world) : Prop := {
  sg_log : log w' = rev new ++ log w;
  sg_len : length (sts w') = length g;
  sg_ent : forall e, In e new -> is_down g (e_src e) (e_dst e) = true /\ depth <= e_depth e;
  sg_state : forall d, P d -> nst w' d = fold_state (nkind (gnode g d)) (nst w d) (arr g new d);
}.

Lemma Seg_nil g depth P w : length (sts w) = length g -> Seg g depth P w [] w.
Proof. intros H. constructor; cbn; auto. intros e []. Qed.

Lemma Seg_app g depth P w n1 w1 n2 w2 :
  Seg g depth P w n1 w1 -> Seg g depth P w1 n2 w2 -> Seg g depth P w (n1 ++ n2) w2.
Proof.
  intros [a1 a2 a3 a4] [b1 b2 b3 b4]. constructor.
  - rewrite b1, a1, rev_app_distr, app_assoc. reflexivity.
  - exact b2.
  - intros e He. apply in_app_or in He as [He|He]; auto.
  - intros d Hd. rewrite arr_app, fold_state_app, <- (a4 d Hd). apply b4. exact Hd.
Qed.

Lemma Seg_weaken g depth depth' (P Q : nat -> Prop) w new w' :
  (forall d, Q d -> P d) -> depth' <= depth -> Seg g depth P w new w' -> Seg g depth' Q w new w'.
Proof.
  intros HPQ Hd [a1 a2 a3 a4]. constructor; auto.
  intros e He. destruct (a3 e He). split; [assumption | lia].
Qed.

Lemma Seg_end_same g depth P w new w1 w2 :
  Seg g depth P w new w1 -> sts w2 = sts w1 -> log w2 = log w1 -> Seg g depth P w new w2.
Proof.
  intros [a1 a2 a3 a4] Hs Hl. constructor; auto.
  - rewrite Hl. exact a1.
  - rewrite Hs. exact a2.
  - intros d Hd. unfold nst at 1. rewrite Hs. apply a4. exact Hd.
Qed.

Lemma Seg_start_same g depth (P : nat -> Prop) w0 w new w1 :
  Seg g depth P w new w1 -> log w0 = log w -> (forall d, P d -> nst w0 d = nst w d) -> Seg g depth P w0 new w1.
Proof.
  intros [a1 a2 a3 a4] Hl Hn. constructor; auto.
  - rewrite Hl. exact a1.
  - intros d Hd. rewrite (Hn d Hd). apply a4. exact Hd.
Qed.

Lemma Seg_new_unique g depth P Q w n1 n2 w' :
  Seg g depth P w n1 w' -> Seg g depth Q w n2 w' -> n1 = n2.
Proof.
  intros [a1 _ _ _] [b1 _ _ _]. rewrite a1 in b1. apply app_inv_tail in b1.
  apply (f_equal (@rev entry)) in b1. rewrite !rev_involutive in b1. exact b1.
Qed.

(* what ANY call of an emit function promises, whatever its outcome *)
Definition EmitAny (g : graph) (emit : world -> val -> md -> world * status) (depth : nat) : Prop :=
  forall w y my w' s, length (sts w) = length g -> emit w y my = (w', s) ->
    exists new, Seg g depth (SF g) w new w'.

Lemma final_state_app pre post s : final_state (pre ++ post) s = final_state post (final_state pre s).
Proof. revert s. induction pre as [|a t IH]; intros s; [reflexivity|]. destruct a; cbn; apply IH. Qed.

Lemma final_state_noset post s : forallb (fun a => negb (is_set a)) post = true -> final_state post s = s.
Proof.
  induction post as [|a t IH]; intros H; [reflexivity|].
  cbn [forallb] in H. apply andb_true_iff in H as [H1 H2]. destruct a; cbn; auto. discriminate H1.
Qed.

(* any action list, started in any status, stopped anywhere *)
Lemma actions_any g emit coro d dep :
  EmitAny g emit dep ->
  forall acts w s w' s', length (sts w) = length g ->
    fold_left (do_action emit coro d) acts (w, s) = (w', s') ->
    exists new, Seg g dep (fun d' => SF g d' /\ d' <> d) w new w' /\
      (SF g d -> forallb (fun a => negb (is_set a)) acts = true ->
       nst w' d = fold_state (nkind (gnode g d)) (nst w d) (arr g new d)).
Proof.
  intros HE. induction acts as [|a t IH]; intros w s w' s' Hlen H; cbn [fold_left] in H.
  - injection H as <- <-. exists []. split; [apply Seg_nil; exact Hlen | intros; reflexivity].
  - unfold do_action at 2 in H.
    destruct (if coro then status_ok s else status_go s).
    2:{ destruct (IH w s w' s' Hlen H) as [new [Sg C]]. exists new. split; [exact Sg|].
        intros Hd Hns. apply C; [exact Hd|]. cbn [forallb] in Hns. apply andb_true_iff in Hns. tauto. }
    destruct a as [st|mm|mm|y my].
    + set (w1 := wset_sts w (set_nth d st (sts w))) in *.
      assert (Hlen1 : length (sts w1) = length g) by (unfold w1; cbn; rewrite set_nth_length; exact Hlen).
      destruct (IH w1 s w' s' Hlen1 H) as [new [Sg C]]. exists new. split.
      * eapply Seg_start_same; [exact Sg | reflexivity |]. intros d' [_ Hne]. unfold w1. symmetry. apply nst_wset_neq. exact Hne.
      * intros _ Hns. discriminate Hns.
    + destruct (retain_frame w mm 1) as [F1 F2].
      assert (Hlen1 : length (sts (retain w mm 1)) = length g) by (rewrite F1; exact Hlen).
      destruct (IH _ s w' s' Hlen1 H) as [new [Sg C]]. exists new. split.
      * eapply Seg_start_same; [exact Sg | symmetry; exact F2 |]. intros d' _. symmetry. apply nst_retain.
      * intros Hd Hns. rewrite (C Hd Hns), nst_retain. reflexivity.
    + destruct (release_frame w mm 1) as [F1 F2].
      assert (Hlen1 : length (sts (release w mm 1)) = length g) by (rewrite F1; exact Hlen).
      destruct (IH _ s w' s' Hlen1 H) as [new [Sg C]]. exists new. split.
      * eapply Seg_start_same; [exact Sg | symmetry; exact F2 |]. intros d' _. symmetry. apply nst_release.
      * intros Hd Hns. rewrite (C Hd Hns), nst_release. reflexivity.
    + destruct (emit w y my) as [w1 s1] eqn:E.
      destruct (HE w y my w1 s1 Hlen E) as [n1 S1].
      destruct (IH w1 _ w' s' (sg_len _ _ _ _ _ _ S1) H) as [n2 [S2 C2]].
      exists (n1 ++ n2). split.
      * eapply Seg_app; [|exact S2]. eapply Seg_weaken; [| |exact S1]; [tauto | lia].
      * intros Hd Hns. rewrite arr_app, fold_state_app, <- (sg_state _ _ _ _ _ _ S1 d Hd). apply C2; assumption.
Qed.

(* the writes of a state-first action list all happen, whatever comes later *)
Lemma actions_pre emit coro d : forall pre w,
  forallb (fun a => negb (is_emit a)) pre = true -> d < length (sts w) ->
  exists w1, fold_left (do_action emit coro d) pre (w, SOk) = (w1, SOk) /\
    log w1 = log w /\ length (sts w1) = length (sts w) /\
    nst w1 d = final_state pre (nst w d) /\ forall i, i <> d -> nst w1 i = nst w i.
Proof.
  induction pre as [|a t IH]; intros w Hne Hd.
  - exists w. cbn. auto.
  - cbn [forallb] in Hne. apply andb_true_iff in Hne as [H1 H2].
    cbn [fold_left]. unfold do_action at 2.
    replace (if coro then status_ok SOk else status_go SOk) with true by (destruct coro; reflexivity).
    destruct a as [st|mm|mm|y my]; [| | |discriminate H1].
    + set (w0 := wset_sts w (set_nth d st (sts w))).
      assert (Hd0 : d < length (sts w0)) by (unfold w0; cbn; rewrite set_nth_length; exact Hd).
      destruct (IH w0 H2 Hd0) as [w1 [A [B [C [D E]]]]]. exists w1. split; [exact A|].
      split; [rewrite B; reflexivity|]. split; [rewrite C; unfold w0; cbn; apply set_nth_length|].
      split.
      * rewrite D. unfold w0. rewrite nst_wset_eq by exact Hd. reflexivity.
      * intros i Hi. rewrite (E i Hi). unfold w0. apply nst_wset_neq. exact Hi.
    + destruct (retain_frame w mm 1) as [F1 F2].
      assert (Hd0 : d < length (sts (retain w mm 1))) by (rewrite F1; exact Hd).
      destruct (IH _ H2 Hd0) as [w1 [A [B [C [D E]]]]]. exists w1. split; [exact A|].
      split; [rewrite B; exact F2|]. split; [rewrite C, F1; reflexivity|].
      split; [rewrite D, nst_retain; reflexivity|]. intros i Hi. rewrite (E i Hi). apply nst_retain.
    + destruct (release_frame w mm 1) as [F1 F2].
      assert (Hd0 : d < length (sts (release w mm 1))) by (rewrite F1; exact Hd).
      destruct (IH _ H2 Hd0) as [w1 [A [B [C [D E]]]]]. exists w1. split; [exact A|].
      split; [rewrite B; exact F2|]. split; [rewrite C, F1; reflexivity|].
      split; [rewrite D, nst_release; reflexivity|]. intros i Hi. rewrite (E i Hi). apply nst_release.
Qed.

(* the whole action list of one call of node d *)
Lemma run_actions_any g emit coro d dep acts w w2 s2 :
  EmitAny g emit dep -> length (sts w) = length g ->
  run_actions emit coro d acts w = (w2, s2) ->
  exists new, Seg g dep (fun d' => SF g d' /\ d' <> d) w new w2 /\
    (SF g d -> state_first_acts acts ->
     nst w2 d = fold_state (nkind (gnode g d)) (final_state acts (nst w d)) (arr g new d)).
Proof.
  intros HE Hlen H. unfold run_actions in H.
  destruct (actions_any g emit coro d dep HE acts w SOk w2 s2 Hlen H) as [new [Sg _]].
  exists new. split; [exact Sg|].
  intros Hd [pre [post [-> [Hpre Hpost]]]].
  rewrite fold_left_app in H.
  assert (Hdl : d < length (sts w)) by (rewrite Hlen; apply Hd).
  destruct (actions_pre emit coro d pre w Hpre Hdl) as [w1 [A [B [C [D E]]]]].
  rewrite A in H.
  assert (Hlen1 : length (sts w1) = length g) by (rewrite C; exact Hlen).
  destruct (actions_any g emit coro d dep HE post w1 SOk w2 s2 Hlen1 H) as [new' [Sg' C']].
  assert (Sg'' : Seg g dep (fun d' => SF g d' /\ d' <> d) w new' w2).
  { eapply Seg_start_same; [exact Sg' | symmetry; exact B |]. intros d' [_ Hne]. symmetry. apply E. exact Hne. }
  rewrite (Seg_new_unique _ _ _ _ _ _ _ _ Sg Sg'').
  rewrite (C' Hd Hpost), D, final_state_app, (final_state_noset post) by exact Hpost. reflexivity.
Qed.

Lemma nst_wlog w e i : nst (wlog w e) i = nst w i.
Proof. reflexivity. Qed.

(* one delivery, any starting status, any outcome *)
Lemma deliver_any g emitfrom depth n x m d w s w' s' :
  (forall d, EmitAny g (emitfrom d) (S depth)) -> length (sts w) = length g ->
  is_down g n d = true ->
  deliver emitfrom g depth n x m (w, s) d = (w', s') ->
  exists new, Seg g depth (SF g) w new w'.
Proof.
  intros HE Hlen Hdn H. unfold deliver in H.
  destruct (status_go s).
  2:{ injection H as <- <-. exists []. apply Seg_nil. exact Hlen. }
  set (e0 := {| e_depth := depth; e_src := n; e_dst := d; e_val := x; e_md := m |}) in *.
  set (w1 := wlog w e0) in *.
  assert (Hlen1 : length (sts w1) = length g) by exact Hlen.
  destruct (update (nkind (gnode g d)) (nst w1 d) (index_of n (ups (gnode g d))) x m) as [acts|] eqn:Eu.
  - destruct (run_actions (emitfrom d) (is_coroutine (nkind (gnode g d))) d acts w1) as [w2 s2] eqn:Er.
    destruct (run_actions_any g _ _ d (S depth) acts w1 w2 s2 (HE d) Hlen1 Er) as [new [Sg C]].
    assert (Hfin : sts w' = sts w2 /\ log w' = log w2).
    { destruct (release_frame w2 m 1) as [F1 F2].
      destruct s2; [| |destruct (is_coroutine _)|]; injection H as <- _; auto. }
    destruct Hfin as [Hf1 Hf2].
    exists (e0 :: new). apply (Seg_end_same g depth (SF g) w (e0 :: new) w2 w'); [|exact Hf1|exact Hf2].
    destruct Sg as [a1 a2 a3 a4]. constructor.
    + rewrite a1. cbn [rev]. rewrite <- app_assoc. reflexivity.
    + exact a2.
    + intros e [<-|He]; [cbn; split; [exact Hdn | lia]|]. destruct (a3 e He). split; [assumption|lia].
    + intros dd Hdd. destruct (Nat.eq_dec dd d) as [->|Hne].
      * rewrite arr_cons_hit by reflexivity. cbn [fold_state fold_left upd_state e0 e_src e_val e_md].
        change (nst w1 d) with (nst w d) in Eu, C. rewrite Eu.
        apply C; [exact Hdd|]. destruct Hdd as [_ Hsf]. eapply Hsf. exact Eu.
      * rewrite arr_cons_miss by (cbn; auto). change (nst w dd) with (nst w1 dd). apply a4. split; assumption.
  - assert (Hfin : sts w' = sts w1 /\ log w' = log w1).
    { destruct (release_frame w1 m 1) as [F1 F2]. destruct (is_coroutine _); injection H as <- _; auto. }
    destruct Hfin as [Hf1 Hf2].
    exists [e0]. apply (Seg_end_same g depth (SF g) w [e0] w1 w'); [|exact Hf1|exact Hf2].
    constructor.
    + reflexivity.
    + exact Hlen1.
    + intros e [<-|[]]. cbn. split; [exact Hdn | lia].
    + intros dd Hdd. destruct (Nat.eq_dec dd d) as [->|Hne].
      * rewrite arr_cons_hit by reflexivity. cbn [arr filter map fold_state fold_left upd_state e0 e_src e_val e_md].
        change (nst w1 d) with (nst w d) in Eu. rewrite Eu. reflexivity.
      * rewrite arr_cons_miss by (cbn; auto). reflexivity.
Qed.

(* one turn of the loop of _emit: the hand-over, or the release alone (no call, nothing logged) for a child that left *)
Lemma hand_any g emitfrom depth n x m d w s w' s' :
  (forall d, EmitAny g (emitfrom d) (S depth)) -> length (sts w) = length g ->
  is_down g n d = true ->
  hand emitfrom g depth n x m (w, s) d = (w', s') ->
  exists new, Seg g depth (SF g) w new w'.
Proof.
  intros HE Hlen Hdn H.
  destruct (hand_cases emitfrom g depth n x m w s d) as [E|[_ [_ E]]]; rewrite E in H.
  - eapply deliver_any; eauto.
  - injection H as <- <-. exists []. destruct (release_frame w m 1) as [F1 F2].
    eapply Seg_end_same; [apply Seg_nil; exact Hlen | exact F1 | exact F2].
Qed.

Lemma hand_all_any g emitfrom depth n x m :
  (forall d, EmitAny g (emitfrom d) (S depth)) ->
  forall l w s w' s', length (sts w) = length g -> (forall d, In d l -> is_down g n d = true) ->
    fold_left (hand emitfrom g depth n x m) l (w, s) = (w', s') ->
    exists new, Seg g depth (SF g) w new w'.
Proof.
  intros HE. induction l as [|d t IH]; intros w s w' s' Hlen Hl H; cbn [fold_left] in H.
  - injection H as <- <-. exists []. apply Seg_nil. exact Hlen.
  - destruct (hand emitfrom g depth n x m (w, s) d) as [w1 s1] eqn:E1.
    destruct (hand_any g emitfrom depth n x m d w s w1 s1 HE Hlen (Hl d (or_introl eq_refl)) E1) as [n1 S1].
    destruct (IH w1 s1 w' s' (sg_len _ _ _ _ _ _ S1) (fun d' Hd' => Hl d' (or_intror Hd')) H) as [n2 S2].
    exists (n1 ++ n2). eapply Seg_app; eauto.
Qed.

Lemma push_any g : forall fuel depth n, EmitAny g (push fuel g depth n) depth.
Proof.
  induction fuel as [|fuel IH]; intros depth n w y my w' s Hlen H; cbn [push] in H.
  - injection H as <- <-. exists []. apply Seg_nil. exact Hlen.
  - destruct (retain_frame w my (Z.of_nat (length (downs g w n)))) as [F1 F2].
    assert (Hlen1 : length (sts (retain w my (Z.of_nat (length (downs g w n))))) = length g) by (rewrite F1; exact Hlen).
    destruct (hand_all_any g (fun d => push fuel g (S depth) d) depth n y my (fun d => IH (S depth) d)
                (downs g w n) _ SOk w' s Hlen1 (fun dd Hdd => downs_is_down _ _ _ _ Hdd) H) as [new Sg].
    exists new. eapply Seg_start_same; [exact Sg | symmetry; exact F2 |]. intros d _. symmetry. apply nst_retain.
Qed.

Theorem push_state_fold_any_graph : forall g fuel depth n w x m w' st,
  length (sts w) = length g ->
  push fuel g depth n w x m = (w', st) ->
  exists new, log w' = rev new ++ log w /\ length (sts w') = length g /\
    (forall e, In e new -> is_down g (e_src e) (e_dst e) = true /\ depth <= e_depth e) /\
    forall d, d < length g -> state_first (nkind (gnode g d)) ->
      nst w' d = fold_state (nkind (gnode g d)) (nst w d) (arr g new d).
Proof.
  intros g fuel depth n w x m w' st Hlen H.
  destruct (push_any g fuel depth n w x m w' st Hlen H) as [new [a1 a2 a3 a4]].
  exists new. repeat split; auto.
  - apply a3; assumption.
  - apply a3; assumption.
  - intros d Hd Hsf. apply a4. split; assumption.
Qed.

(* ------------------------------------------------------------------------- *)
(* 3. whole runs: any graph, any fuel, emits at any node, any final status     *)
(* ------------------------------------------------------------------------- *)
Lemma exec_emits_any g fuel : forall evs w0 w st,
  emits_only evs -> length (sts w0) = length g ->
  exec_from fuel g w0 evs = (w, st) ->
  exists new, Seg g 0 (SF g) w0 new w.
Proof.
  induction evs as [|e rest IH]; intros w0 w st Hev Hlen H; cbn [exec_from] in H.
  - injection H as <- <-. exists []. apply Seg_nil. exact Hlen.
  - destruct (step fuel g w0 e) as [w1 s1] eqn:Es.
    pose proof (Hev e (or_introl eq_refl)) as He. destruct e as [n x m|n]; [|contradiction].
    cbn [step] in Es.
    destruct (push_any g fuel 0 n w0 x m w1 s1 Hlen Es) as [n1 S1].
    assert (Hrest : emits_only rest) by (intros e' He'; apply Hev; right; exact He').
    destruct s1; try (injection H as <- <-; exists n1; exact S1).
    destruct (IH w1 w st Hrest (sg_len _ _ _ _ _ _ S1) H) as [n2 S2].
    exists (n1 ++ n2). eapply Seg_app; eauto.
Qed.

Theorem exec_state_fold_any_graph : forall g fuel evs w st,
  exec_from fuel g (init_world g) evs = (w, st) ->
  emits_only evs ->
  forall d, d < length g -> state_first (nkind (gnode g d)) ->
    nst w d = fold_state (nkind (gnode g d)) (init_st g d) (arr g (rev (log w)) d).
Proof.
  intros g fuel evs w st H Hev d Hd Hsf.
  assert (Hlen : length (sts (init_world g)) = length g) by (unfold init_world; cbn; apply map_length).
  destruct (exec_emits_any g fuel evs _ w st Hev Hlen H) as [new [a1 a2 a3 a4]].
  cbn in a1. rewrite app_nil_r in a1. rewrite a1, rev_involutive, <- nst_init.
  apply a4. split; assumption.
Qed.

(* by-product: in any graph every logged call goes along an edge of the graph *)
Theorem exec_calls_along_edges_any_graph : forall g fuel evs w st,
  exec_from fuel g (init_world g) evs = (w, st) ->
  emits_only evs ->
  length (sts w) = length g /\
  forall e, In e (log w) -> is_down g (e_src e) (e_dst e) = true.
Proof.
  intros g fuel evs w st H Hev.
  assert (Hlen : length (sts (init_world g)) = length g) by (unfold init_world; cbn; apply map_length).
  destruct (exec_emits_any g fuel evs _ w st Hev Hlen H) as [new [a1 a2 a3 a4]].
  split; [exact a2|]. intros e He. cbn in a1. rewrite app_nil_r in a1. rewrite a1 in He.
  apply in_rev in He. apply a3. exact He.
Qed.

(* ---- with flushes: the stimuli of a node are its arrivals plus flush markers ---- *)
Inductive stim := SArr (a : arrival) | SFlush.

Definition upd_stim (k : kind) (s : nstate) (t : stim) : nstate :=
  match t with
  | SArr a => upd_state k s a
  | SFlush => final_state (flush_actions s) s          (* = set_win s [] *)
  end.
Definition fold_stim (k : kind) (s : nstate) (l : list stim) : nstate := fold_left (upd_stim k) l s.

Lemma fold_stim_arr k : forall l s, fold_stim k s (map SArr l) = fold_state k s l.
Proof. induction l as [|a t IH]; intros s; [reflexivity|]. cbn. apply IH. Qed.

Lemma fold_stim_app k s l1 l2 : fold_stim k s (l1 ++ l2) = fold_stim k (fold_stim k s l1) l2.
Proof. unfold fold_stim. apply fold_left_app. Qed.

(* the calls logged between two worlds, program order (this is [o_calls] of [observe]) *)
Definition calls_of (w w' : world) : list entry :=
  rev (firstn (length (log w') - length (log w)) (log w')).

Lemma calls_of_seg w w' new : log w' = rev new ++ log w -> calls_of w w' = new.
Proof.
  intros H. unfold calls_of. rewrite H, app_length.
  replace (length (rev new) + length (log w) - length (log w)) with (length (rev new) + 0) by lia.
  rewrite firstn_app_2. cbn. rewrite app_nil_r. apply rev_involutive.
Qed.

Definition ev_stims (g : graph) (e : event) (new : list entry) (d : nat) : list stim :=
  (match e with EFlush n => if n =? d then [SFlush] else [] | EEmit _ _ _ => [] end)
  ++ map SArr (arr g new d).

(* what node d was subjected to during a run: per event, a flush marker if d was flushed, then the calls
   of d logged during that event; the run stops at the first event that does not end SOk *)
Fixpoint stims_from (fuel : nat) (g : graph) (w : world) (evs : list event) (d : nat) : list stim :=
  match evs with
  | [] => []
  | e :: rest =>
      let '(w', s) := step fuel g w e in
      ev_stims g e (calls_of w w') d ++
      match s with SOk => stims_from fuel g w' rest d | _ => [] end
  end.

Lemma step_any g fuel w e w' s :
  length (sts w) = length g -> step fuel g w e = (w', s) ->
  exists new, log w' = rev new ++ log w /\ length (sts w') = length g /\
    (forall e', In e' new -> is_down g (e_src e') (e_dst e') = true) /\
    forall d, SF g d -> nst w' d = fold_stim (nkind (gnode g d)) (nst w d) (ev_stims g e new d).
Proof.
  intros Hlen H. destruct e as [n x m|n]; cbn [step] in H.
  - destruct (push_any g fuel 0 n w x m w' s Hlen H) as [new [a1 a2 a3 a4]].
    exists new. repeat split; auto; [apply a3; assumption|].
    intros d Hd. unfold ev_stims. cbn [app]. rewrite fold_stim_arr. apply a4. exact Hd.
  - destruct (run_actions (push fuel g 0 n) false n (flush_actions (nst w n)) w) as [w2 s2] eqn:Er.
    injection H as <- _.
    destruct (run_actions_any g _ _ n 0 _ w w2 s2 (push_any g fuel 0 n) Hlen Er) as [new [[a1 a2 a3 a4] C]].
    exists new. repeat split; auto; [apply a3; assumption|].
    intros d Hd. unfold ev_stims. destruct (Nat.eqb_spec n d) as [->|Hne].
    + cbn [app fold_stim fold_left upd_stim]. change (fold_left (upd_stim ?k) ?l ?s) with (fold_stim k s l).
      rewrite fold_stim_arr. apply C; [exact Hd | apply flush_state_first].
    + cbn [app]. rewrite fold_stim_arr. apply a4. split; [exact Hd | auto].
Qed.

Lemma exec_stims_any g fuel : forall evs w0 w st,
  length (sts w0) = length g ->
  exec_from fuel g w0 evs = (w, st) ->
  exists new, log w = rev new ++ log w0 /\ length (sts w) = length g /\
    (forall e, In e new -> is_down g (e_src e) (e_dst e) = true) /\
    forall d, SF g d ->
      nst w d = fold_stim (nkind (gnode g d)) (nst w0 d) (stims_from fuel g w0 evs d).
Proof.
  induction evs as [|e rest IH]; intros w0 w st Hlen H; cbn [exec_from stims_from] in *.
  - injection H as <- <-. exists []. repeat split; auto; try (intros e []).
  - destruct (step fuel g w0 e) as [w1 s1] eqn:Es.
    destruct (step_any g fuel w0 e w1 s1 Hlen Es) as [new [b1 [b2 [b3 b4]]]].
    rewrite (calls_of_seg _ _ _ b1).
    assert (Hstop : s1 <> SOk -> (w, st) = (w1, s1) ->
              exists new0, log w = rev new0 ++ log w0 /\ length (sts w) = length g /\
              (forall e0, In e0 new0 -> is_down g (e_src e0) (e_dst e0) = true) /\
              forall d, SF g d -> nst w d = fold_stim (nkind (gnode g d)) (nst w0 d) (ev_stims g e new d ++ [])).
    { intros _ E. injection E as -> ->. exists new. repeat split; auto.
      intros d Hd. rewrite app_nil_r. apply b4. exact Hd. }
    destruct s1; try (apply Hstop; [discriminate | symmetry; exact H]).
    destruct (IH w1 w st b2 H) as [n2 [c1 [c2 [c3 c4]]]].
    exists (new ++ n2). split; [rewrite c1, b1, rev_app_distr, app_assoc; reflexivity|].
    split; [exact c2|]. split.
    + intros e0 He0. apply in_app_or in He0 as [He0|He0]; auto.
    + intros d Hd. rewrite fold_stim_app, <- (b4 d Hd). apply c4. exact Hd.
Qed.

(* flushes allowed (on any node; the hypothesis "only collect nodes are flushed" is not needed) *)
Theorem exec_state_fold_flush_any_graph : forall g fuel evs w st,
  exec_from fuel g (init_world g) evs = (w, st) ->
  forall d, d < length g -> state_first (nkind (gnode g d)) ->
    nst w d = fold_stim (nkind (gnode g d)) (init_st g d) (stims_from fuel g (init_world g) evs d).
Proof.
  intros g fuel evs w st H d Hd Hsf.
  assert (Hlen : length (sts (init_world g)) = length g) by (unfold init_world; cbn; apply map_length).
  destruct (exec_stims_any g fuel evs _ w st Hlen H) as [new [_ [_ [_ C]]]].
  rewrite <- nst_init. apply C. split; assumption.
Qed.

(* without flushes the stimuli are exactly the arrivals of the log *)
Lemma stims_emits_only g fuel d : forall evs w0 w st,
  emits_only evs -> length (sts w0) = length g ->
  exec_from fuel g w0 evs = (w, st) ->
  stims_from fuel g w0 evs d = map SArr (arr g (calls_of w0 w) d).
Proof.
  induction evs as [|e rest IH]; intros w0 w st Hev Hlen H; cbn [exec_from stims_from] in *.
  - injection H as <- <-. unfold calls_of. rewrite Nat.sub_diag. reflexivity.
  - destruct (step fuel g w0 e) as [w1 s1] eqn:Es.
    destruct (step_any g fuel w0 e w1 s1 Hlen Es) as [new [b1 [b2 _]]].
    pose proof (Hev e (or_introl eq_refl)) as He. destruct e as [n x m|n]; [|contradiction].
    assert (Hrest : emits_only rest) by (intros e' He'; apply Hev; right; exact He').
    unfold ev_stims. cbn [app].
    destruct s1; try (injection H as <- <-; rewrite app_nil_r; reflexivity).
    destruct (exec_stims_any g fuel rest w1 w st b2 H) as [n2 [c1 _]].
    rewrite (IH w1 w st Hrest b2 H), (calls_of_seg _ _ _ b1), (calls_of_seg _ _ _ c1).
    assert (E : log w = rev (new ++ n2) ++ log w0) by (rewrite c1, b1, rev_app_distr, app_assoc; reflexivity).
    rewrite (calls_of_seg _ _ _ E), arr_app, map_app. reflexivity.
Qed.

(* ------------------------------------------------------------------------- *)
(* 5. non-vacuity: a concrete cyclic pipeline                                  *)
(* ------------------------------------------------------------------------- *)
Definition fb_g : graph :=
  [ {| nkind := KSource; ups := [] |};
    {| nkind := KUnion; ups := [0; 4] |};
    {| nkind := KAccum (interp2 BAdd) (Some (VInt 0%Z)) false false; ups := [1] |};
    {| nkind := KMap (interp1 (FModK 3%Z)); ups := [2] |};
    {| nkind := KUnique None (interpK KeyId); ups := [3] |};
    {| nkind := KSink (fun _ => Some tt); ups := [2] |} ].
Definition fb_evs : list event :=
  [EEmit 0 (VInt 1%Z) []; EEmit 0 (VInt 2%Z) [{| mid := 0; mref := true |}]; EEmit 0 (VInt 3%Z) []].
Definition fb_run : world * status := exec_from 100 fb_g (init_world fb_g) fb_evs.
Definition fb_first : world * status := exec_from 100 fb_g (init_world fb_g) [EEmit 0 (VInt 1%Z) []].

(* some node is called at two different nesting depths *)
Definition reentered (l : list entry) : bool :=
  existsb (fun a => existsb (fun b => (e_dst a =? e_dst b) && negb (e_depth a =? e_depth b)) l) l.

Example feedback_nonvacuous :
  wf_dagb fb_g = false /\ ~ wf_dag fb_g /\ emits_only fb_evs /\
  snd fb_run = SOk /\ snd fb_first = SOk /\
  (* within the first event the accumulate node (2) is entered at depths 1, 5 and 9: twice while its own
     emission is still in progress *)
  reentered (log (fst fb_first)) = true /\
  map e_depth (filter (fun e => e_dst e =? 2) (rev (log (fst fb_first)))) = [1; 5; 9] /\
  (* every node of this graph is state-first *)
  (forall d, d < length fb_g -> state_first (nkind (gnode fb_g d))) /\
  (* the conclusion of exec_state_fold_any_graph, obtained from the theorem ... *)
  (forall d, d < length fb_g ->
     nst (fst fb_run) d =
     fold_state (nkind (gnode fb_g d)) (init_st fb_g d) (arr fb_g (rev (log (fst fb_run))) d)) /\
  (* ... and the concrete values *)
  length (log (fst fb_run)) = 30 /\
  st_acc (nst (fst fb_run) 2) = Some (VInt 9%Z) /\
  st_seen (nst (fst fb_run) 4) = [VInt 0%Z; VInt 1%Z; VInt 2%Z] /\
  (* the sink behind the accumulate (its SECOND downstream) sees the first event's outputs 1, 2, 4 in reverse *)
  map fst (edge (rev (log (fst fb_first))) 2 5) = [VInt 4%Z; VInt 2%Z; VInt 1%Z] /\
  map fst (edge (rev (log (fst fb_first))) 2 3) = [VInt 1%Z; VInt 2%Z; VInt 4%Z].
Proof.
  assert (Hsf : forall d, d < length fb_g -> state_first (nkind (gnode fb_g d))).
  { intros d Hd. apply state_first_ok.
    do 6 (destruct d as [|d]; [reflexivity|]). cbn in Hd. lia. }
  assert (Hev : emits_only fb_evs) by (intros e [<-|[<-|[<-|[]]]]; exact I).
  split; [vm_compute; reflexivity|].
  split; [intros H; specialize (H 1 4); cbn in H; lia|].
  split; [exact Hev|].
  split; [vm_compute; reflexivity|]. split; [vm_compute; reflexivity|].
  split; [vm_compute; reflexivity|]. split; [vm_compute; reflexivity|].
  split; [exact Hsf|].
  split.
  { intros d Hd. apply (exec_state_fold_any_graph fb_g 100 fb_evs (fst fb_run) (snd fb_run)).
    - unfold fb_run. destruct (exec_from 100 fb_g (init_world fb_g) fb_evs); reflexivity.
    - exact Hev.
    - exact Hd.
    - apply Hsf. exact Hd. }
  repeat split; vm_compute; reflexivity.
Qed.

(* ------------------------------------------------------------------------- *)
(* 4. edge accounting for the FIRST downstream of a single-emission node       *)
(* ------------------------------------------------------------------------- *)
(* the static downstream list of u (attachment order) *)
Definition sdowns (g : graph) (u : nat) : list nat :=
  filter (fun d => existsb (Nat.eqb u) (ups (gnode g d))) (seq 0 (length g)).

Definition single_emit (k : kind) : Prop :=
  forall s p x m acts, update k s p x m = Some acts -> length (outs acts) <= 1.
Definition single_emit_kindb (k : kind) : bool :=
  match k with KFlatten | KZipLatest => false | _ => true end.

Lemma outs_app l1 l2 : outs (l1 ++ l2) = outs l1 ++ outs l2.
Proof. induction l1 as [|a t IH]; [reflexivity|]. destruct a; cbn; rewrite ?IH; reflexivity. Qed.

Lemma outs_noemit l : forallb (fun a => negb (is_emit a)) l = true -> outs l = [].
Proof.
  induction l as [|a t IH]; intros H; [reflexivity|].
  cbn [forallb] in H. apply andb_true_iff in H as [H1 H2]. destruct a; cbn; auto. discriminate H1.
Qed.

Lemma noemit_outs l : outs l = [] -> forallb (fun a => negb (is_emit a)) l = true.
Proof. induction l as [|a t IH]; intros H; [reflexivity|]. destruct a; cbn in *; auto. discriminate H. Qed.

Theorem single_emit_ok : forall k, single_emit_kindb k = true -> single_emit k.
Proof.
  intros k Hk s p x m acts H.
  destruct k; cbn [update] in H; try discriminate Hk.
  all: try solve [split_upd H; try discriminate H; injection H as <-; cbn; lia].
  - (* partition_unique *)
    destruct (if keep_last then _ else _) as [pre kd] eqn:Epre.
    assert (Hpre : outs pre = []).
    { destruct keep_last.
      - injection Epre as <- _. destruct (assoc_get _ _) as [[? ?]|]; reflexivity.
      - destruct (assoc_get _ _); injection Epre as <- _; reflexivity. }
    destruct (_ =? _); injection H as <-; cbn [app outs]; rewrite outs_app, Hpre; cbn; lia.
Qed.

Lemma split_single acts : length (outs acts) <= 1 ->
  forallb (fun a => negb (is_emit a)) acts = true \/
  exists q1 y my q2, acts = q1 ++ AEmit y my :: q2 /\
    forallb (fun a => negb (is_emit a)) q1 = true /\ forallb (fun a => negb (is_emit a)) q2 = true.
Proof.
  induction acts as [|a t IH]; intros H; [left; reflexivity|].
  destruct a as [st|mm|mm|y my]; cbn [outs] in H.
  1-3: destruct (IH H) as [L|[q1 [y [my [q2 [E [A B]]]]]]]; [left; exact L | right];
       eexists (_ :: q1), y, my, q2; (split; [rewrite E; reflexivity | split; [exact A | exact B]]).
  right. exists [], y, my, t. split; [reflexivity|]. split; [reflexivity|].
  apply noemit_outs. cbn in H. destruct (outs t); [reflexivity | cbn in H; lia].
Qed.

Lemma final_state_in acts s : final_state acts s = s \/ In (ASet (final_state acts s)) acts.
Proof.
  revert s. induction acts as [|a t IH]; intros s; [left; reflexivity|].
  destruct a as [st|mm|mm|y my]; cbn [final_state].
  - right. destruct (IH st) as [E|E]; [left; rewrite E; reflexivity | right; exact E].
  - destruct (IH s) as [E|E]; [left; exact E | right; right; exact E].
  - destruct (IH s) as [E|E]; [left; exact E | right; right; exact E].
  - destruct (IH s) as [E|E]; [left; exact E | right; right; exact E].
Qed.

Lemma status_join_SOk s : status_join SOk s = s.
Proof. destruct s; reflexivity. Qed.

(* fuel exhaustion is sticky *)
Lemma sfuel_actions emit coro d : forall acts w, fold_left (do_action emit coro d) acts (w, SFuel) = (w, SFuel).
Proof. induction acts as [|a t IH]; intros w; [reflexivity|]. cbn [fold_left]. unfold do_action at 2. destruct coro; cbn; apply IH. Qed.

Lemma sfuel_deliver emitfrom g depth n x m : forall l w,
  fold_left (deliver emitfrom g depth n x m) l (w, SFuel) = (w, SFuel).
Proof. induction l as [|d t IH]; intros w; [reflexivity|]. cbn [fold_left]. unfold deliver at 2. cbn. apply IH. Qed.
Lemma sfuel_hand emitfrom g depth n x m : forall l w,
  fold_left (hand emitfrom g depth n x m) l (w, SFuel) = (w, SFuel).
Proof. induction l as [|d t IH]; intros w; [reflexivity|]. cbn [fold_left]. rewrite hand_stop by reflexivity. apply IH. Qed.

(* actions that neither emit nor write leave states, log and status alone *)
Lemma actions_quiet emit coro d : forall q w s w' s',
  forallb (fun a => negb (is_emit a)) q = true -> forallb (fun a => negb (is_set a)) q = true ->
  fold_left (do_action emit coro d) q (w, s) = (w', s') ->
  s' = s /\ log w' = log w /\ sts w' = sts w.
Proof.
  induction q as [|a t IH]; intros w s w' s' Hne Hns H; cbn [fold_left] in H.
  - injection H as <- <-. auto.
  - cbn [forallb] in Hne, Hns. apply andb_true_iff in Hne as [E1 E2]. apply andb_true_iff in Hns as [N1 N2].
    unfold do_action at 2 in H.
    destruct (if coro then status_ok s else status_go s); [|apply (IH _ _ _ _ E2 N2 H)].
    destruct a as [st|mm|mm|y my]; [discriminate N1| | |discriminate E1].
    + destruct (IH _ _ _ _ E2 N2 H) as [A [B C]]. destruct (retain_frame w mm 1) as [F1 F2].
      split; [exact A|]. split; [rewrite B; exact F2 | rewrite C; exact F1].
    + destruct (IH _ _ _ _ E2 N2 H) as [A [B C]]. destruct (release_frame w mm 1) as [F1 F2].
      split; [exact A|]. split; [rewrite B; exact F2 | rewrite C; exact F1].
Qed.

Lemma Seg_state_of g depth (P : nat -> Prop) w n1 w1 n2 d :
  Seg g depth P w n1 w1 -> P d -> log w1 = rev n2 ++ log w ->
  nst w1 d = fold_state (nkind (gnode g d)) (nst w d) (arr g n2 d).
Proof.
  intros [a1 a2 a3 a4] Hd H. rewrite a1 in H. apply app_inv_tail in H.
  apply (f_equal (@rev entry)) in H. rewrite !rev_involutive in H. subst n2. apply a4. exact Hd.
Qed.

Lemma WF_same g w w' : WF g w -> sts w' = sts w -> WF g w'.
Proof. intros [A B] E. split; [rewrite E; exact A|]. intros d Hd. unfold nst. rewrite E. apply B. exact Hd. Qed.

Lemma edge_cons_mk depth n d x m new u d0 :
  edge ({| e_depth := depth; e_src := n; e_dst := d; e_val := x; e_md := m |} :: new) u d0 =
  (if (n =? u) && (d =? d0) then [(x, m)] else []) ++ edge new u d0.
Proof. unfold edge. cbn. destruct ((n =? u) && (d =? d0)); reflexivity. Qed.

Section FirstEdge.
Variables (g : graph) (u d0 : nat) (rest0 : list nat).
Notation ku := (nkind (gnode g u)).
Hypothesis Hu : SF g u.
Hypothesis Hone : single_emit ku.
Hypothesis Hsd : sdowns g u = d0 :: rest0.
Hypothesis Hperm : forall d, In d (sdowns g u) -> permanent g d = true.

Lemma d0_not_in_rest : ~ In d0 rest0.
Proof.
  assert (N : NoDup (sdowns g u)) by (unfold sdowns; apply NoDup_filter, seq_NoDup).
  rewrite Hsd in N. inversion N. assumption.
Qed.

Lemma downs_static w : WF g w -> downs g w u = sdowns g u.
Proof.
  intros [_ B]. unfold downs, sdowns. apply filter_ext_in. intros d Hin.
  destruct (existsb (Nat.eqb u) (ups (gnode g d))) eqn:E; [|reflexivity].
  rewrite B; [reflexivity|]. apply Hperm. unfold sdowns. apply filter_In. split; assumption.
Qed.

(* from w to w' the calls [new] were logged, and edge (u, d0) carried [front] followed by the outputs
   of u folded over its arrivals *)
Definition ESeg (w : world) (new : list entry) (w' : world) (front : list (val * md)) : Prop :=
  log w' = rev new ++ log w /\ WF g w' /\
  edge new u d0 = front ++ fold_outs ku (nst w u) (arr g new u).

Lemma ESeg_nil w : WF g w -> ESeg w [] w [].
Proof. intros H. split; [reflexivity|]. split; [exact H | reflexivity]. Qed.

Lemma ESeg_app w n1 w1 f1 n2 w2 :
  ESeg w n1 w1 f1 -> nst w1 u = fold_state ku (nst w u) (arr g n1 u) -> ESeg w1 n2 w2 [] ->
  ESeg w (n1 ++ n2) w2 f1.
Proof.
  intros [a1 [a2 a3]] Hst [b1 [b2 b3]]. split; [|split].
  - rewrite b1, a1, rev_app_distr, app_assoc. reflexivity.
  - exact b2.
  - cbn [app] in b3. rewrite edge_app, arr_app, fold_outs_app, a3, b3, <- Hst, app_assoc. reflexivity.
Qed.

Lemma ESeg_start_same w0 w new w1 f :
  ESeg w new w1 f -> log w0 = log w -> nst w0 u = nst w u -> ESeg w0 new w1 f.
Proof. intros [a1 [a2 a3]] Hl Hn. split; [rewrite Hl; exact a1|]. split; [exact a2 | rewrite Hn; exact a3]. Qed.

Lemma ESeg_end_same w new w1 w2 f :
  ESeg w new w1 f -> sts w2 = sts w1 -> log w2 = log w1 -> ESeg w new w2 f.
Proof. intros [a1 [a2 a3]] Hs Hl. split; [rewrite Hl; exact a1|]. split; [eapply WF_same; eauto | exact a3]. Qed.

Definition EmitE (emit : world -> val -> md -> world * status) (src : nat) : Prop :=
  forall w y my w' s, WF g w -> emit w y my = (w', s) -> s <> SFuel ->
    exists new, ESeg w new w' (if src =? u then [(y, my)] else []).

Lemma WF_len w : WF g w -> length (sts w) = length g.
Proof. intros [A _]. exact A. Qed.

Lemma WF_wset w d st :
  WF g w -> d < length g -> (permanent g d = true -> st_detached st = false) ->
  WF g (wset_sts w (set_nth d st (sts w))).
Proof.
  intros [A B] Hd Hst. split; [cbn; rewrite set_nth_length; exact A|].
  intros dd Hp. destruct (Nat.eq_dec dd d) as [->|Hne].
  - rewrite nst_wset_eq by (rewrite A; exact Hd). apply Hst. exact Hp.
  - rewrite nst_wset_neq by exact Hne. apply B. exact Hp.
Qed.

(* the action list of a node other than u *)
Lemma actions_E emit coro d dep :
  EmitAny g emit dep -> EmitE emit d -> d <> u -> d < length g ->
  forall acts w s w' s', WF g w ->
    (forall st, In (ASet st) acts -> permanent g d = true -> st_detached st = false) ->
    fold_left (do_action emit coro d) acts (w, s) = (w', s') -> s' <> SFuel ->
    exists new, ESeg w new w' [].
Proof.
  intros HA HE Hdu Hd. induction acts as [|a t IH]; intros w s w' s' Hwf Hset H Hs'; cbn [fold_left] in H.
  - injection H as <- <-. exists []. apply ESeg_nil. exact Hwf.
  - assert (Hset' : forall st, In (ASet st) t -> permanent g d = true -> st_detached st = false)
      by (intros st Hin; apply Hset; right; exact Hin).
    unfold do_action at 2 in H.
    destruct (if coro then status_ok s else status_go s); [|apply (IH w s w' s' Hwf Hset' H Hs')].
    destruct a as [st|mm|mm|y my].
    + assert (Hwf1 : WF g (wset_sts w (set_nth d st (sts w)))).
      { apply WF_wset; auto. apply Hset. left. reflexivity. }
      destruct (IH _ s w' s' Hwf1 Hset' H Hs') as [new E]. exists new.
      eapply ESeg_start_same; [exact E | reflexivity |]. symmetry. apply nst_wset_neq. auto.
    + destruct (IH _ s w' s' (WF_retain _ _ _ _ Hwf) Hset' H Hs') as [new E]. exists new.
      destruct (retain_frame w mm 1) as [F1 F2].
      eapply ESeg_start_same; [exact E | symmetry; exact F2 |]. symmetry. apply nst_retain.
    + destruct (IH _ s w' s' (WF_release _ _ _ _ Hwf) Hset' H Hs') as [new E]. exists new.
      destruct (release_frame w mm 1) as [F1 F2].
      eapply ESeg_start_same; [exact E | symmetry; exact F2 |]. symmetry. apply nst_release.
    + destruct (emit w y my) as [w1 s1] eqn:Em.
      assert (Hs1 : s1 <> SFuel).
      { intros ->. replace (status_join s SFuel) with SFuel in H by reflexivity.
        rewrite sfuel_actions in H. injection H as _ <-. apply Hs'. reflexivity. }
      destruct (HE w y my w1 s1 Hwf Em Hs1) as [n1 E1].
      replace (d =? u) with false in E1 by (symmetry; apply Nat.eqb_neq; exact Hdu).
      destruct (HA w y my w1 s1 (WF_len _ Hwf) Em) as [n1' S1].
      pose proof (Seg_state_of _ _ _ _ _ _ n1 u S1 Hu (proj1 E1)) as Hst.
      destruct (IH w1 _ w' s' (proj1 (proj2 E1)) Hset' H Hs') as [n2 E2].
      exists (n1 ++ n2). eapply ESeg_app; eauto.
Qed.

(* the writes of u's action list keep the world well-formed *)
Lemma pre_WF w w1 q :
  WF g w -> (forall st, In (ASet st) q -> permanent g u = true -> st_detached st = false) ->
  length (sts w1) = length (sts w) -> nst w1 u = final_state q (nst w u) ->
  (forall i, i <> u -> nst w1 i = nst w i) -> WF g w1.
Proof.
  intros [A B] Hset Hl Hn Ho. split; [rewrite Hl; exact A|].
  intros d Hp. destruct (Nat.eq_dec d u) as [->|Hne]; [|rewrite Ho by exact Hne; apply B; exact Hp].
  rewrite Hn. destruct (final_state_in q (nst w u)) as [E|E]; [rewrite E; apply B; exact Hp | apply Hset; assumption].
Qed.

(* the action list of u itself: state first, at most one emission *)
Lemma run_actions_E emit coro dep acts w w2 s2 :
  EmitAny g emit dep -> EmitE emit u -> WF g w ->
  state_first_acts acts -> length (outs acts) <= 1 ->
  (forall st, In (ASet st) acts -> permanent g u = true -> st_detached st = false) ->
  run_actions emit coro u acts w = (w2, s2) -> s2 <> SFuel ->
  exists new, log w2 = rev new ++ log w /\ WF g w2 /\
    edge new u d0 = outs acts ++ fold_outs ku (final_state acts (nst w u)) (arr g new u).
Proof.
  intros HA HE Hwf Hsf H1 Hset H Hs2. unfold run_actions in H.
  assert (Hul : u < length (sts w)) by (rewrite (WF_len _ Hwf); apply Hu).
  destruct (split_single acts H1) as [Hne|[q1 [y [my [q2 [-> [Hq1 Hq2]]]]]]].
  - destruct (actions_pre emit coro u acts w Hne Hul) as [w1 [A [B [C [D E]]]]].
    rewrite A in H. injection H as <- <-. exists []. split; [exact B|]. split.
    + eapply pre_WF; eauto.
    + rewrite (outs_noemit _ Hne). reflexivity.
  - assert (Hns2 : forallb (fun a => negb (is_set a)) q2 = true).
    { apply sfb_complete in Hsf. rewrite sfb_app_noemit in Hsf by exact Hq1. exact Hsf. }
    rewrite fold_left_app in H.
    destruct (actions_pre emit coro u q1 w Hq1 Hul) as [w1 [A [B [C [D E]]]]].
    rewrite A in H. cbn [fold_left] in H. unfold do_action at 2 in H.
    replace (if coro then status_ok SOk else status_go SOk) with true in H by (destruct coro; reflexivity).
    destruct (emit w1 y my) as [w3 s3] eqn:Em. rewrite status_join_SOk in H.
    destruct (actions_quiet emit coro u q2 w3 s3 w2 s2 Hq2 Hns2 H) as [Q1 [Q2 Q3]]. subst s2.
    assert (Hwf1 : WF g w1).
    { eapply (pre_WF w w1 q1); eauto. intros st Hin. apply Hset. apply in_or_app. left. exact Hin. }
    destruct (HE w1 y my w3 s3 Hwf1 Em Hs2) as [new [a1 [a2 a3]]].
    rewrite Nat.eqb_refl in a3.
    exists new. split; [rewrite Q2, a1, B; reflexivity|]. split; [eapply WF_same; eauto|].
    rewrite a3, D, outs_app, (outs_noemit _ Hq1). cbn [outs app]. rewrite (outs_noemit _ Hq2).
    rewrite final_state_app. cbn [final_state]. rewrite (final_state_noset q2) by exact Hns2. reflexivity.
Qed.

Lemma permanent_perm_kind d : permanent g d = perm_kind (nkind (gnode g d)).
Proof. reflexivity. Qed.

(* one delivery *)
Lemma deliver_E emitfrom depth n x m d w s w' s' :
  (forall d, EmitAny g (emitfrom d) (S depth)) -> (forall d, EmitE (emitfrom d) d) ->
  WF g w -> is_down g n d = true ->
  deliver emitfrom g depth n x m (w, s) d = (w', s') -> s' <> SFuel ->
  exists new, ESeg w new w' (if status_go s && ((n =? u) && (d =? d0)) then [(x, m)] else []).
Proof.
  intros HA HE Hwf Hdn H Hs'. unfold deliver in H.
  destruct (status_go s).
  2:{ injection H as <- <-. exists []. apply ESeg_nil. exact Hwf. }
  cbn [andb].
  destruct (is_down_In _ _ _ Hdn) as [Hd _].
  set (e0 := {| e_depth := depth; e_src := n; e_dst := d; e_val := x; e_md := m |}) in *.
  set (w1 := wlog w e0) in *.
  assert (Hwf1 : WF g w1) by (destruct Hwf as [A B]; split; [exact A | intros dd Hp; apply B; exact Hp]).
  destruct (update (nkind (gnode g d)) (nst w1 d) (index_of n (ups (gnode g d))) x m) as [acts|] eqn:Eu.
  - destruct (run_actions (emitfrom d) (is_coroutine (nkind (gnode g d))) d acts w1) as [w2 s2] eqn:Er.
    assert (Hs2 : s2 <> SFuel) by (intros ->; injection H as _ <-; apply Hs'; reflexivity).
    assert (Hfin : sts w' = sts w2 /\ log w' = log w2).
    { destruct (release_frame w2 m 1) as [F1 F2].
      destruct s2; [| |destruct (is_coroutine _)|]; injection H as <- _; auto. }
    destruct Hfin as [Hf1 Hf2].
    assert (Hset : forall st, In (ASet st) acts -> permanent g d = true -> st_detached st = false).
    { intros st Hst Hp. eapply update_detached; eauto. destruct Hwf1 as [_ B]. apply B. exact Hp. }
    destruct (Nat.eq_dec d u) as [->|Hne].
    + destruct (run_actions_E _ _ (S depth) acts w1 w2 s2 (HA u) (HE u) Hwf1
                  (proj2 Hu _ _ _ _ _ Eu) (Hone _ _ _ _ _ Eu) Hset Er Hs2) as [new [a1 [a2 a3]]].
      exists (e0 :: new). apply (ESeg_end_same w (e0 :: new) w2 w'); [|exact Hf1|exact Hf2].
      split; [rewrite a1; cbn [rev]; rewrite <- app_assoc; reflexivity|]. split; [exact a2|].
      unfold e0 at 1. rewrite edge_cons_mk, a3. rewrite arr_cons_hit by reflexivity.
      cbn [fold_outs upd_outs upd_state e0 e_src e_val e_md].
      change (nst w1 u) with (nst w u) in Eu. rewrite Eu. reflexivity.
    + unfold run_actions in Er.
      destruct (actions_E _ _ d (S depth) (HA d) (HE d) Hne Hd acts w1 SOk w2 s2 Hwf1 Hset Er Hs2) as [new [a1 [a2 a3]]].
      exists (e0 :: new). apply (ESeg_end_same w (e0 :: new) w2 w'); [|exact Hf1|exact Hf2].
      split; [rewrite a1; cbn [rev]; rewrite <- app_assoc; reflexivity|]. split; [exact a2|].
      unfold e0 at 1. rewrite edge_cons_mk, a3. rewrite arr_cons_miss by (cbn; exact Hne). reflexivity.
  - assert (Hfin : sts w' = sts w1 /\ log w' = log w1).
    { destruct (release_frame w1 m 1) as [F1 F2]. destruct (is_coroutine _); injection H as <- _; auto. }
    destruct Hfin as [Hf1 Hf2].
    exists [e0]. apply (ESeg_end_same w [e0] w1 w'); [|exact Hf1|exact Hf2].
    split; [reflexivity|]. split; [exact Hwf1|].
    unfold e0 at 1. rewrite edge_cons_mk. cbn [edge filter map]. rewrite app_nil_r.
    destruct (Nat.eq_dec d u) as [->|Hne].
    + rewrite arr_cons_hit by reflexivity. cbn [arr filter map fold_outs upd_outs e0 e_src e_val e_md].
      change (nst w1 u) with (nst w u) in Eu. rewrite Eu. rewrite app_nil_r. reflexivity.
    + rewrite arr_cons_miss by (cbn; exact Hne). cbn. rewrite app_nil_r. reflexivity.
Qed.

(* one turn of the loop of _emit: the hand-over, or the release alone for a child that left since the snapshot *)
Lemma hand_E emitfrom depth n x m d w s w' s' :
  (forall d, EmitAny g (emitfrom d) (S depth)) -> (forall d, EmitE (emitfrom d) d) ->
  WF g w -> is_down g n d = true ->
  hand emitfrom g depth n x m (w, s) d = (w', s') -> s' <> SFuel ->
  exists new, ESeg w new w' (if status_go s && attached g w n d && ((n =? u) && (d =? d0)) then [(x, m)] else []).
Proof.
  intros HA HE Hwf Hdn H Hs'.
  destruct (attached g w n d) eqn:Ha.
  - rewrite hand_attached in H by exact Ha. rewrite andb_true_r. eapply deliver_E; eauto.
  - rewrite andb_false_r. cbn [andb].
    destruct (status_go s) eqn:Go.
    + rewrite hand_gone in H by assumption. injection H as <- <-. exists [].
      destruct (release_frame w m 1) as [F1 F2].
      eapply ESeg_end_same; [apply ESeg_nil; exact Hwf | exact F1 | exact F2].
    + rewrite hand_stop in H by exact Go. injection H as <- <-. exists []. apply ESeg_nil. exact Hwf.
Qed.

(* turns that are not on edge (u, d0) *)
Lemma hand_all_E emitfrom depth n x m :
  (forall d, EmitAny g (emitfrom d) (S depth)) -> (forall d, EmitE (emitfrom d) d) ->
  forall l w s w' s', WF g w -> (forall d, In d l -> is_down g n d = true) ->
    n <> u \/ ~ In d0 l ->
    fold_left (hand emitfrom g depth n x m) l (w, s) = (w', s') -> s' <> SFuel ->
    exists new, ESeg w new w' [].
Proof.
  intros HA HE. induction l as [|d t IH]; intros w s w' s' Hwf Hl Hoff H Hs'; cbn [fold_left] in H.
  - injection H as <- <-. exists []. apply ESeg_nil. exact Hwf.
  - destruct (hand emitfrom g depth n x m (w, s) d) as [w1 s1] eqn:E1.
    assert (Hs1 : s1 <> SFuel).
    { intros ->. rewrite sfuel_hand in H. injection H as _ <-. apply Hs'. reflexivity. }
    assert (Hdn : is_down g n d = true) by (apply Hl; left; reflexivity).
    destruct (hand_E emitfrom depth n x m d w s w1 s1 HA HE Hwf Hdn E1 Hs1) as [n1 En1].
    replace (status_go s && attached g w n d && ((n =? u) && (d =? d0))) with false in En1.
    2:{ symmetry. destruct Hoff as [Hn|Hn].
        - apply Nat.eqb_neq in Hn. rewrite Hn. apply andb_false_r.
        - destruct (Nat.eqb_spec d d0) as [->|]; [exfalso; apply Hn; left; reflexivity|]. rewrite !andb_false_r. reflexivity. }
    destruct (hand_any g emitfrom depth n x m d w s w1 s1 HA (WF_len _ Hwf) Hdn E1) as [n1' S1].
    pose proof (Seg_state_of _ _ _ _ _ _ n1 u S1 Hu (proj1 En1)) as Hst.
    assert (Hoff' : n <> u \/ ~ In d0 t) by (destruct Hoff as [?|Hn]; [left; assumption | right; intros X; apply Hn; right; exact X]).
    destruct (IH w1 s1 w' s' (proj1 (proj2 En1)) (fun d' Hd' => Hl d' (or_intror Hd')) Hoff' H Hs') as [n2 En2].
    exists (n1 ++ n2). eapply ESeg_app; eauto.
Qed.

Lemma push_E : forall fuel depth n, EmitE (push fuel g depth n) n.
Proof.
  induction fuel as [|fuel IH]; intros depth n w y my w' s Hwf H Hs; cbn [push] in H.
  - injection H as _ <-. exfalso. apply Hs. reflexivity.
  - set (w0 := retain w my (Z.of_nat (length (downs g w n)))) in *.
    destruct (retain_frame w my (Z.of_nat (length (downs g w n)))) as [F1 F2].
    assert (Hwf0 : WF g w0) by (apply WF_retain; exact Hwf).
    assert (HA : forall d, EmitAny g (push fuel g (S depth) d) (S depth)) by (intros d; apply push_any).
    assert (Hdl : forall dd, In dd (downs g w n) -> is_down g n dd = true) by (intros dd Hdd; eapply downs_is_down; eauto).
    destruct (Nat.eqb_spec n u) as [->|Hne].
    + rewrite (downs_static w Hwf), Hsd in H, Hdl. cbn [fold_left] in H.
      destruct (hand (fun d => push fuel g (S depth) d) g depth u y my (w0, SOk) d0) as [w1 s1] eqn:E1.
      assert (Hs1 : s1 <> SFuel).
      { intros ->. rewrite sfuel_hand in H. injection H as _ <-. apply Hs. reflexivity. }
      (* the first child of the snapshot is still attached when its turn comes: nothing has happened yet *)
      assert (Ha0 : attached g w0 u d0 = true).
      { apply attached_In. unfold w0. rewrite downs_retain, (downs_static w Hwf), Hsd. left. reflexivity. }
      destruct (hand_E _ depth u y my d0 w0 SOk w1 s1 HA (fun d => IH (S depth) d) Hwf0
                  (Hdl d0 (or_introl eq_refl)) E1 Hs1) as [n1 En1].
      rewrite Ha0, !Nat.eqb_refl in En1. cbn [status_go andb] in En1.
      destruct (hand_any g _ depth u y my d0 w0 SOk w1 s1 HA (WF_len _ Hwf0) (Hdl d0 (or_introl eq_refl)) E1) as [n1' S1].
      pose proof (Seg_state_of _ _ _ _ _ _ n1 u S1 Hu (proj1 En1)) as Hst.
      destruct (hand_all_E _ depth u y my HA (fun d => IH (S depth) d) rest0 w1 s1 w' s
                  (proj1 (proj2 En1)) (fun d' Hd' => Hdl d' (or_intror Hd')) (or_intror d0_not_in_rest) H Hs) as [n2 En2].
      exists (n1 ++ n2). eapply ESeg_start_same; [eapply ESeg_app; eauto | symmetry; exact F2 |].
      symmetry. apply nst_retain.
    + destruct (hand_all_E _ depth n y my HA (fun d => IH (S depth) d) (downs g w n) w0 SOk w' s
                  Hwf0 Hdl (or_introl Hne) H Hs) as [new En].
      exists new. eapply ESeg_start_same; [exact En | symmetry; exact F2 |]. symmetry. apply nst_retain.
Qed.

Lemma exec_E fuel : forall evs w0 w st,
  emits_only evs -> (forall e, In e evs -> match e with EEmit n _ _ => n <> u | EFlush _ => True end) ->
  WF g w0 -> exec_from fuel g w0 evs = (w, st) -> st <> SFuel ->
  exists new, ESeg w0 new w [].
Proof.
  induction evs as [|e rest IH]; intros w0 w st Hev Hnu Hwf H Hst; cbn [exec_from] in H.
  - injection H as <- <-. exists []. apply ESeg_nil. exact Hwf.
  - destruct (step fuel g w0 e) as [w1 s1] eqn:Es.
    pose proof (Hev e (or_introl eq_refl)) as He. pose proof (Hnu e (or_introl eq_refl)) as Hn.
    destruct e as [n x m|n]; [|contradiction]. cbn [step] in Es.
    assert (Hs1 : s1 <> SFuel) by (intros ->; injection H as _ <-; apply Hst; reflexivity).
    destruct (push_E fuel 0 n w0 x m w1 s1 Hwf Es Hs1) as [n1 En1].
    replace (n =? u) with false in En1 by (symmetry; apply Nat.eqb_neq; exact Hn).
    destruct s1; try (injection H as <- <-; exists n1; exact En1).
    destruct (push_any g fuel 0 n w0 x m w1 SOk (WF_len _ Hwf) Es) as [n1' S1].
    pose proof (Seg_state_of _ _ _ _ _ _ n1 u S1 Hu (proj1 En1)) as Hst1.
    destruct (IH w1 w st (fun e' He' => Hev e' (or_intror He')) (fun e' He' => Hnu e' (or_intror He'))
                (proj1 (proj2 En1)) H Hst) as [n2 En2].
    exists (n1 ++ n2). eapply ESeg_app; eauto.
Qed.

End FirstEdge.

(* One push, any graph, any outcome except fuel exhaustion: the FIRST downstream d0 of a state-first,
   single-emission node u (none of whose downstreams is a slice with a stop) is handed exactly the outputs
   of u folded over u's arrivals, in order (preceded by the pushed element itself when the push is at u). *)
Theorem push_first_edge_any_graph : forall g u d0 rest,
  u < length g -> state_first (nkind (gnode g u)) -> single_emit (nkind (gnode g u)) ->
  sdowns g u = d0 :: rest -> (forall d, In d (sdowns g u) -> permanent g d = true) ->
  forall fuel depth n w x m w' st,
    WF g w -> push fuel g depth n w x m = (w', st) -> st <> SFuel ->
    exists new, log w' = rev new ++ log w /\ WF g w' /\
      edge new u d0 = (if n =? u then [(x, m)] else []) ++
                      fold_outs (nkind (gnode g u)) (nst w u) (arr g new u).
Proof.
  intros g u d0 rest Hu Hsf Hone Hsd Hperm fuel depth n w x m w' st Hwf H Hst.
  exact (push_E g u d0 rest (conj Hu Hsf) Hone Hsd Hperm fuel depth n w x m w' st Hwf H Hst).
Qed.

(* whole runs (emits anywhere except at u itself, any outcome except fuel exhaustion) *)
Theorem exec_first_edge_any_graph : forall g u d0 rest fuel evs w st,
  u < length g -> state_first (nkind (gnode g u)) -> single_emit (nkind (gnode g u)) ->
  sdowns g u = d0 :: rest -> (forall d, In d (sdowns g u) -> permanent g d = true) ->
  emits_only evs -> (forall e, In e evs -> match e with EEmit n _ _ => n <> u | EFlush _ => True end) ->
  exec_from fuel g (init_world g) evs = (w, st) -> st <> SFuel ->
  edge (rev (log w)) u d0 = fold_outs (nkind (gnode g u)) (init_st g u) (arr g (rev (log w)) u).
Proof.
  intros g u d0 rest fuel evs w st Hu Hsf Hone Hsd Hperm Hev Hnu H Hst.
  destruct (exec_E g u d0 rest (conj Hu Hsf) Hone Hsd Hperm fuel evs _ w st Hev Hnu (ri_wf _ _ _ (RunInv_init g)) H Hst)
    as [new [a1 [a2 a3]]].
  cbn in a1. rewrite app_nil_r in a1. rewrite a1, rev_involutive, <- nst_init. exact a3.
Qed.

(* the restriction to runs without fuel exhaustion is necessary: with fuel 2 the accumulate node (2) of fb_g is
   called and writes its state, but its emission runs out of fuel before the map (3) is called *)
Example first_edge_needs_fuel :
  exists w', push 2 fb_g 0 0 (init_world fb_g) (VInt 1%Z) [] = (w', SFuel) /\
    edge (rev (log w')) 2 3 = [] /\
    fold_outs (nkind (gnode fb_g 2)) (init_st fb_g 2) (arr fb_g (rev (log w')) 2) = [(VInt 1%Z, [])] /\
    (* while the state claim of push_state_fold_any_graph still holds there *)
    st_acc (nst w' 2) = Some (VInt 1%Z).
Proof. eexists. split; [vm_compute; reflexivity|]. repeat split; vm_compute; reflexivity. Qed.

(* the hypotheses of the first-edge theorem are met by the cyclic example: the map (3) is the first downstream
   of the accumulate (2) and receives exactly the accumulate's outputs, in order, although the accumulate is
   re-entered during its own emission (its second downstream, the sink (5), sees them in a different order:
   see feedback_nonvacuous) *)
Example feedback_first_edge :
  sdowns fb_g 2 = [3; 5] /\
  edge (rev (log (fst fb_run))) 2 3 =
    fold_outs (nkind (gnode fb_g 2)) (init_st fb_g 2) (arr fb_g (rev (log (fst fb_run))) 2) /\
  map fst (edge (rev (log (fst fb_run))) 2 3) =
    [VInt 1; VInt 2; VInt 4; VInt 6; VInt 6; VInt 9]%Z.
Proof.
  split; [vm_compute; reflexivity|]. split; [|vm_compute; reflexivity].
  apply (exec_first_edge_any_graph fb_g 2 3 [5] 100 fb_evs (fst fb_run) (snd fb_run)).
  - cbn; lia.
  - apply state_first_ok. reflexivity.
  - apply single_emit_ok. reflexivity.
  - vm_compute; reflexivity.
  - intros d [<-|[<-|[]]]; reflexivity.
  - intros e [<-|[<-|[<-|[]]]]; exact I.
  - intros e [<-|[<-|[<-|[]]]]; discriminate.
  - unfold fb_run. destruct (exec_from 100 fb_g (init_world fb_g) fb_evs); reflexivity.
  - vm_compute. discriminate.
Qed.

Print Assumptions state_first_ok.
Print Assumptions zip_latest_not_state_first.
Print Assumptions flush_state_first.
Print Assumptions push_state_fold_any_graph.
Print Assumptions exec_state_fold_any_graph.
Print Assumptions exec_calls_along_edges_any_graph.
Print Assumptions exec_state_fold_flush_any_graph.
Print Assumptions stims_emits_only.
Print Assumptions single_emit_ok.
Print Assumptions push_first_edge_any_graph.
Print Assumptions exec_first_edge_any_graph.
Print Assumptions feedback_nonvacuous.
Print Assumptions first_edge_needs_fuel.
Print Assumptions feedback_first_edge.
