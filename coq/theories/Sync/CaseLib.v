(* Helpers used by generated case files (harness/syncfam.py). *)
From Coq Require Import List ZArith Bool.
From SZ Require Import Base.Values Sync.Nodes Sync.Pipeline.
Import ListNotations.

(* accumulate(returns_state=True) user function: new state = f acc x, result = previous state *)
Definition rs_prev (f : val -> val -> option val) (acc x : val) : option val :=
  match f acc x with Some s => Some (VTup [s; acc]) | None => None end.

(* sink function: appends to a list; raises when the deep sum of the element is in bad *)
Definition sink_fail (bad : list Z) (x : val) : option unit :=
  if existsb (Z.eqb (deep_sum x)) bad then None else Some tt.
