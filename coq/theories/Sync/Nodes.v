(* Per-node update functions of the synchronous catalogue, transcribed from
   streamz/core.py (update methods) and sinks.py.  A node reacts to one
   delivery with a list of actions that the push function (Pipeline.v)
   interprets in order, exactly as the statements appear in the Python. *)
From Coq Require Import List ZArith Bool Lia Arith.
From SZ Require Import Base.Values.
Import ListNotations.
Close Scope Z_scope.
Open Scope nat_scope.

(* ---- metadata: a flat list of dictionaries; a dictionary may carry a
        reference counter (its id is the dictionary's id) ------------------ *)
Record mdi := { mid : nat; mref : bool }.
Notation md := (list mdi) (only parsing).

Definition mdi_eqb (a b : mdi) := Nat.eqb (mid a) (mid b) && Bool.eqb (mref a) (mref b).

(* ---- node kinds --------------------------------------------------------- *)
Inductive pick := PickOne (i : nat) | PickMany (l : list nat).

Inductive kind :=
| KSource                                     (* plain Stream(): update = _emit *)
| KMap (f : val -> option val)
| KStarmap (f : list val -> option val)
| KFilter (p : val -> option bool)
| KAccum (f : val -> val -> option val) (start : option val) (returns_state with_state : bool)
| KSlice (start : nat) (stop : option nat) (step : nat)   (* step >= 1, stop = Some e means e truthy or 0 *)
| KPartition (n : nat) (key : option (val -> val))
| KPartUnique (n : nat) (key : val -> val) (keep_last : bool)
| KSliding (n : nat) (partial : bool)
| KUnique (maxsize : option nat) (key : val -> val)
| KFlatten
| KPluck (p : pick)
| KCollect
| KUnion
| KZip (literals : list (nat * val))
| KCombineLatest (emit_on : option (list nat))     (* ports that trigger emission; None = all *)
| KZipLatest
| KSink (f : val -> option unit).

(* ---- node state: one record, each kind uses its own fields --------------- *)
Record nstate := {
  st_acc : option val;                          (* accumulate *)
  st_n : nat;                                   (* slice position *)
  st_detached : bool;                           (* slice removed itself from its upstream *)
  st_keyed : list (val * (list val * md));      (* partition buffers per key / partition_unique entries *)
  st_win : list (val * md);                     (* sliding_window / collect / zip_latest lossless buffer *)
  st_seen : list val;                           (* unique history, most recent first *)
  st_ports : list (list (val * md));            (* zip: one FIFO per upstream *)
  st_last : list (option (val * md));           (* combine_latest / zip_latest: latest per upstream *)
}.

Definition st_empty : nstate :=
  {| st_acc := None; st_n := 0; st_detached := false; st_keyed := []; st_win := [];
     st_seen := []; st_ports := []; st_last := [] |}.

Definition init_state (k : kind) (nups : nat) : nstate :=
  match k with
  | KAccum _ start _ _ =>
      {| st_acc := start; st_n := 0; st_detached := false; st_keyed := []; st_win := [];
         st_seen := []; st_ports := []; st_last := [] |}
  | KSlice _ (Some O) _ =>                             (* _check_end() in __init__ *)
      {| st_acc := None; st_n := 0; st_detached := true; st_keyed := []; st_win := [];
         st_seen := []; st_ports := []; st_last := [] |}
  | KZip _ =>
      {| st_acc := None; st_n := 0; st_detached := false; st_keyed := []; st_win := [];
         st_seen := []; st_ports := repeat [] nups; st_last := [] |}
  | KCombineLatest _ | KZipLatest =>
      {| st_acc := None; st_n := 0; st_detached := false; st_keyed := []; st_win := [];
         st_seen := []; st_ports := []; st_last := repeat None nups |}
  | _ => st_empty
  end.

Definition set_acc (s : nstate) (a : option val) : nstate :=
  {| st_acc := a; st_n := st_n s; st_detached := st_detached s; st_keyed := st_keyed s;
     st_win := st_win s; st_seen := st_seen s; st_ports := st_ports s; st_last := st_last s |}.
Definition set_n (s : nstate) (n : nat) (d : bool) : nstate :=
  {| st_acc := st_acc s; st_n := n; st_detached := d; st_keyed := st_keyed s;
     st_win := st_win s; st_seen := st_seen s; st_ports := st_ports s; st_last := st_last s |}.
Definition set_keyed (s : nstate) (k : list (val * (list val * md))) : nstate :=
  {| st_acc := st_acc s; st_n := st_n s; st_detached := st_detached s; st_keyed := k;
     st_win := st_win s; st_seen := st_seen s; st_ports := st_ports s; st_last := st_last s |}.
Definition set_win (s : nstate) (w : list (val * md)) : nstate :=
  {| st_acc := st_acc s; st_n := st_n s; st_detached := st_detached s; st_keyed := st_keyed s;
     st_win := w; st_seen := st_seen s; st_ports := st_ports s; st_last := st_last s |}.
Definition set_seen (s : nstate) (l : list val) : nstate :=
  {| st_acc := st_acc s; st_n := st_n s; st_detached := st_detached s; st_keyed := st_keyed s;
     st_win := st_win s; st_seen := l; st_ports := st_ports s; st_last := st_last s |}.
Definition set_ports (s : nstate) (p : list (list (val * md))) : nstate :=
  {| st_acc := st_acc s; st_n := st_n s; st_detached := st_detached s; st_keyed := st_keyed s;
     st_win := st_win s; st_seen := st_seen s; st_ports := p; st_last := st_last s |}.
Definition set_last (s : nstate) (l : list (option (val * md))) : nstate :=
  {| st_acc := st_acc s; st_n := st_n s; st_detached := st_detached s; st_keyed := st_keyed s;
     st_win := st_win s; st_seen := st_seen s; st_ports := st_ports s; st_last := l |}.

(* ---- actions ------------------------------------------------------------ *)
Inductive action :=
| ASet (s : nstate)
| ARetain (m : md)
| ARelease (m : md)
| AEmit (x : val) (m : md).

(* ---- small list helpers -------------------------------------------------- *)
Fixpoint set_nth {A} (i : nat) (x : A) (l : list A) : list A :=
  match l, i with
  | [], _ => []
  | _ :: t, O => x :: t
  | h :: t, S i' => h :: set_nth i' x t
  end.

Definition lastn {A} (n : nat) (l : list A) : list A := skipn (length l - n) l.

Fixpoint assoc_get {B} (k : val) (l : list (val * B)) : option B :=
  match l with
  | [] => None
  | (k', b) :: t => if val_eqb k k' then Some b else assoc_get k t
  end.

Fixpoint assoc_remove {B} (k : val) (l : list (val * B)) : list (val * B) :=
  match l with
  | [] => []
  | (k', b) :: t => if val_eqb k k' then t else (k', b) :: assoc_remove k t
  end.

(* replace in place if present, else append (python dict assignment) *)
Fixpoint assoc_set {B} (k : val) (b : B) (l : list (val * B)) : list (val * B) :=
  match l with
  | [] => [(k, b)]
  | (k', b') :: t => if val_eqb k k' then (k', b) :: t else (k', b') :: assoc_set k b t
  end.

Fixpoint remove_val (k : val) (l : list val) : list val :=
  match l with
  | [] => []
  | h :: t => if val_eqb k h then t else h :: remove_val k t
  end.

Definition mem_val (k : val) (l : list val) : bool := existsb (val_eqb k) l.

Definition py_index (v : val) (i : nat) : option val :=
  match items v with
  | Some l => nth_error l i
  | None => None
  end.

Fixpoint all_some {A} (l : list (option A)) : option (list A) :=
  match l with
  | [] => Some []
  | Some a :: t => match all_some t with Some r => Some (a :: r) | None => None end
  | None :: _ => None
  end.

(* zip.pack_literals: insert literal values at their positions *)
Fixpoint pack_literals (lits : list (nat * val)) (inp : list val) (out_len : nat) : list val :=
  match lits with
  | [] => inp
  | (i, v) :: rest =>
      let need := i - out_len in
      firstn need inp ++ v :: pack_literals rest (skipn need inp) (out_len + length (firstn need inp) + 1)
  end.

Definition trunc (m : option nat) (l : list val) : list val :=
  match m with
  | Some (S k) => firstn (S k) l
  | _ => l                              (* None or 0: `if self.maxsize:` is false *)
  end.

(* ---- update -------------------------------------------------------------- *)
(* None = the call raises before any effect (user function failed / bad input type). *)
Definition update (k : kind) (s : nstate) (port : nat) (x : val) (m : md) : option (list action) :=
  match k with
  | KSource | KUnion => Some [AEmit x m]
  | KMap f => match f x with Some y => Some [AEmit y m] | None => None end
  | KStarmap f =>
      match x with
      | VTup args => match f args with Some y => Some [AEmit y m] | None => None end
      | _ => None
      end
  | KFilter p =>
      match p x with
      | Some true => Some [AEmit x m]
      | Some false => Some []
      | None => None
      end
  | KAccum f _ rs ws =>
      match st_acc s with
      | None => Some [ASet (set_acc s (Some x)); AEmit (if ws then VTup [x; x] else x) m]
      | Some a =>
          match f a x with
          | None => None
          | Some r =>
              if rs then
                match items r with
                | Some [st; res] =>
                    Some [ASet (set_acc s (Some st)); AEmit (if ws then VTup [st; res] else res) m]
                | _ => None
                end
              else Some [ASet (set_acc s (Some r)); AEmit (if ws then VTup [r; r] else r) m]
          end
      end
  | KSlice start stop step =>
      let n := st_n s in
      (* finished (and detached): an emission of the upstream that was already under way still calls the node *)
      if match stop with Some e => e <=? n | None => false end then Some [ASet s] else
      let pass := (start <=? n) && ((n - start) mod step =? 0) in
      let n' := S n in
      let det := match stop with Some e => e <=? n' | None => false end in
      (* the element is counted (and the node detached once `stop` is reached) BEFORE it is passed on *)
      Some (ASet (set_n s n' det) :: (if pass then [AEmit x m] else []))
  | KPartition n key =>
      let ky := match key with Some kf => kf x | None => VNone end in
      let '(vs, ms) := match assoc_get ky (st_keyed s) with Some b => b | None => ([], []) end in
      let vs' := vs ++ [x] in
      let ms' := ms ++ m in
      if length vs' =? n then
        Some [ARetain m; ASet (set_keyed s (assoc_set ky ([], []) (st_keyed s)));
              AEmit (VTup vs') ms'; ARelease ms']
      else
        Some [ARetain m; ASet (set_keyed s (assoc_set ky (vs', ms') (st_keyed s)))]
  | KPartUnique n key keep_last =>
      let y := key x in
      let old := assoc_get y (st_keyed s) in
      let '(pre, kd) :=
        if keep_last then
          (match old with Some (_, om) => [ARelease om] | None => [] end,
           assoc_remove y (st_keyed s) ++ [(y, ([x], m))])
        else
          match old with
          | Some _ => ([ARelease m], st_keyed s)
          | None => ([], st_keyed s ++ [(y, ([x], m))])
          end in
      if length kd =? n then
        let vals := flat_map (fun e => fst (snd e)) kd in
        let mds := flat_map (fun e => snd (snd e)) kd in
        Some ([ARetain m] ++ pre ++ [ASet (set_keyed s []); AEmit (VTup vals) mds; ARelease mds])
      else
        Some ([ARetain m] ++ pre ++ [ASet (set_keyed s kd)])
  | KSliding n partial =>
      (* st_win holds the metadata deque (value component = the element); the value deque
         has maxlen n and drops its oldest on append *)
      let w' := lastn n (st_win s ++ [(x, m)]) in   (* deque(maxlen=n) *)
      (* the value deque (maxlen n) is kept in st_seen, the metadata deque in st_win: after an
         emission the metadata deque is one shorter than the value deque *)
      let vals := lastn n (st_seen s ++ [x]) in
      let s1 := set_seen (set_win s w') vals in
      if partial || (length vals =? n) then
        let flat := flat_map snd w' in
        (* when the metadata deque is full its oldest entry leaves BEFORE the window is emitted; its references are
           released afterwards (release of nothing otherwise) *)
        let full := length w' =? n in
        Some [ARetain m; ASet (if full then set_win s1 (tl w') else s1); AEmit (VTup vals) flat;
              ARelease (if full then match w' with (_, hm) :: _ => hm | [] => [] end else [])]
      else Some [ARetain m; ASet s1]
  | KUnique maxsize key =>
      let y := key x in
      if mem_val y (st_seen s) then
        Some [ASet (set_seen s (trunc maxsize (y :: remove_val y (st_seen s))))]
      else
        Some [ASet (set_seen s (trunc maxsize (y :: st_seen s))); AEmit x m]
  | KFlatten =>
      match items x with
      | None => None
      | Some [] => Some []
      | Some l => Some (map (fun y => AEmit y []) (removelast l) ++ [AEmit (last l VNone) m])
      end
  | KPluck (PickOne i) =>
      match py_index x i with Some y => Some [AEmit y m] | None => None end
  | KPluck (PickMany l) =>
      match all_some (map (py_index x) l) with
      | Some ys => Some [AEmit (VTup ys) m]
      | None => None
      end
  | KCollect => Some [ARetain m; ASet (set_win s (st_win s ++ [(x, m)]))]
  | KZip lits =>
      let bufs := st_ports s in
      let L := nth port bufs [] ++ [(x, m)] in
      let bufs' := set_nth port L bufs in
      if (length L =? 1) && forallb (fun b => negb (length b =? 0)) bufs' then
        let heads := map (fun b => hd (VNone, []) b) bufs' in
        let tup := pack_literals lits (map fst heads) 0 in
        let mds := flat_map snd heads in
        Some [ARetain m; ASet (set_ports s (map (@tl _) bufs')); AEmit (VTup tup) mds; ARelease mds]
      else
        Some [ARetain m; ASet (set_ports s bufs')]
  | KCombineLatest emit_on =>
      let old := nth port (st_last s) None in
      let last' := set_nth port (Some (x, m)) (st_last s) in
      let rel := match old with Some (_, om) => [ARelease om] | None => [] end in
      let trig := match emit_on with None => true | Some ps => existsb (Nat.eqb port) ps end in
      match all_some last' with
      | Some full =>
          if trig then
            Some ([ARetain m] ++ rel ++ [ASet (set_last s last'); AEmit (VTup (map fst full)) (flat_map snd full)])
          else Some ([ARetain m] ++ rel ++ [ASet (set_last s last')])
      | None => Some ([ARetain m] ++ rel ++ [ASet (set_last s last')])
      end
  | KZipLatest =>
      let old := nth port (st_last s) None in
      let last' := set_nth port (Some (x, m)) (st_last s) in
      let buf' := if port =? 0 then st_win s ++ [(x, m)] else st_win s in
      let rel := if port =? 0 then [] else match old with Some (_, om) => [ARelease om] | None => [] end in
      let s1 := set_win (set_last s last') buf' in
      match all_some last' with
      | Some full =>
          (* drain the lossless buffer: one emission per buffered element *)
          let others := tl full in
          let fix drain (b : list (val * md)) : list action :=
              match b with
              | [] => []
              | (x0, m0) :: rest =>
                  ASet (set_win (set_last s (Some (x0, m0) :: tl last')) rest)
                  :: AEmit (VTup (x0 :: map fst others)) (m0 ++ flat_map snd others)
                  :: ARelease m0 :: drain rest
              end in
          Some ([ARetain m] ++ rel ++ [ASet s1] ++ drain buf')
      | None => Some ([ARetain m] ++ rel ++ [ASet s1])
      end
  | KSink f => match f x with Some _ => Some [] | None => None end
  end.

(* collect.flush(): not an update but an external call on the node *)
Definition flush_actions (s : nstate) : list action :=
  let mds := flat_map snd (st_win s) in
  [ASet (set_win s []); AEmit (VTup (map fst (st_win s))) mds; ARelease mds].

(* nodes whose update is a tornado coroutine: an exception raised below them is
   captured in the returned future instead of unwinding the caller's loop *)
Definition is_coroutine (k : kind) : bool :=
  match k with KPartition _ _ => true | _ => false end.
