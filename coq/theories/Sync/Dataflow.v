(* Whole-run dataflow theorem: after any sequence of emissions at entry points of a
   DAG pipeline (no exception), every node's state is the fold of its update over what
   arrived, every permanent edge carried exactly the outputs of its source node, and
   every edge out of an entry point carried exactly what was emitted there. *)
From Coq Require Import List ZArith Bool Lia Arith.
From SZ Require Import Base.Values Sync.Nodes Sync.Pipeline Sync.PushSpec.
Import ListNotations.
Close Scope Z_scope.
Open Scope nat_scope.

Definition is_entry (g : graph) (n : nat) : Prop := ups (gnode g n) = [].

Definition emit_only (g : graph) (evs : list event) : Prop :=
  forall e, In e evs -> match e with EEmit n _ _ => is_entry g n | EFlush _ => False end.

Definition inputs (evs : list event) (n : nat) : list (val * md) :=
  flat_map (fun e => match e with
                     | EEmit n' x m => if n' =? n then [(x, m)] else []
                     | EFlush _ => [] end) evs.

Definition init_st (g : graph) (d : nat) : nstate :=
  init_state (nkind (gnode g d)) (length (ups (gnode g d))).

Record RunInv (g : graph) (evs : list event) (w : world) : Prop := {
  ri_wf : WF g w;
  ri_along : forall e, In e (log w) -> is_down g (e_src e) (e_dst e) = true;
  ri_state : forall d, nst w d = fold_state (nkind (gnode g d)) (init_st g d) (arr g (rev (log w)) d);
  ri_ok : forall d, fold_ok (nkind (gnode g d)) (init_st g d) (arr g (rev (log w)) d) = true;
  ri_edge : forall u d, ~ is_entry g u -> is_down g u d = true -> permanent g d = true ->
            edge (rev (log w)) u d = fold_outs (nkind (gnode g u)) (init_st g u) (arr g (rev (log w)) u);
  ri_entry : forall n d, is_entry g n -> is_down g n d = true -> permanent g d = true ->
            edge (rev (log w)) n d = inputs evs n;
}.

Lemma nst_init g d : nst (init_world g) d = init_st g d.
Proof.
  unfold nst, init_world, init_st, gnode; cbn.
  change st_empty with ((fun nd => init_state (nkind nd) (length (ups nd))) dummy_node).
  apply map_nth.
Qed.

Lemma RunInv_init g : RunInv g [] (init_world g).
Proof.
  constructor; cbn.
  - split; [unfold init_world; cbn; apply map_length|].
    intros d Hp. rewrite nst_init. unfold init_st. unfold permanent in Hp.
    destruct (nkind (gnode g d)); try reflexivity.
    destruct stop as [[|e]|]; try discriminate Hp; reflexivity.
  - intros e [].
  - intros d. apply nst_init.
  - intros; reflexivity.
  - intros; reflexivity.
  - intros; reflexivity.
Qed.

Lemma inputs_app evs1 evs2 n : inputs (evs1 ++ evs2) n = inputs evs1 n ++ inputs evs2 n.
Proof. unfold inputs. apply flat_map_app. Qed.

Lemma no_arrivals_at_entry g new n :
  is_entry g n -> (forall e, In e new -> is_down g (e_src e) (e_dst e) = true) -> arr g new n = [].
Proof.
  intros He H. apply arr_none. intros e Hin Heq. specialize (H e Hin). rewrite Heq in H.
  apply is_down_In in H as [_ H]. unfold is_entry in He. rewrite He in H. exact H.
Qed.

Lemma RunInv_step g evs w n x m w' :
  wf_dag g -> RunInv g evs w -> is_entry g n ->
  push (fuel_for g) g 0 n w x m = (w', SOk) ->
  RunInv g (evs ++ [EEmit n x m]) w'.
Proof.
  intros Hdag [i1 i2 i3 i3b i4 i5] Hent H.
  destruct (push_spec g Hdag _ 0 n w x m w' i1 H) as [new [S [O _]]].
  destruct S as [s1 s2 s3 s4 s4b s5 s5b s6].
  assert (Hlog : rev (log w') = rev (log w) ++ new) by (rewrite s1, rev_app_distr, rev_involutive; reflexivity).
  constructor.
  - exact s2.
  - intros e He. rewrite s1 in He. apply in_app_or in He as [He|He]; [apply s4b; apply in_rev; exact He | auto].
  - intros d. rewrite Hlog, arr_app, fold_state_app, <- i3. apply s5.
  - intros d. rewrite Hlog, arr_app, fold_ok_app, i3b, <- i3. apply s5b.
  - intros u d Hu Hdn Hp. rewrite Hlog, edge_app, arr_app, fold_outs_app, <- i3, (i4 u d Hu Hdn Hp). f_equal.
    destruct (lt_eq_lt_dec u n) as [[Hlt|Heq]|Hgt].
    + rewrite edge_none by (intros e He; left; destruct (s4 e He) as [? _]; lia).
      rewrite arr_none by (intros e He; destruct (s4 e He) as [_ [? _]]; lia). reflexivity.
    + subst u. contradiction.
    + apply s6; assumption.
  - intros n' d Hn' Hdn Hp. rewrite Hlog, edge_app, inputs_app, (i5 n' d Hn' Hdn Hp). f_equal.
    cbn. rewrite app_nil_r. destruct (Nat.eqb_spec n n') as [->|Hne].
    + apply O; assumption.
    + destruct (lt_eq_lt_dec n' n) as [[Hlt|Heq]|Hgt]; [|subst; contradiction|].
      * apply edge_none. intros e He. left. destruct (s4 e He) as [? _]. lia.
      * rewrite (s6 n' d Hgt Hdn Hp). rewrite (no_arrivals_at_entry g new n' Hn' s4b). reflexivity.
Qed.

Theorem pipeline_dataflow g evs w :
  wf_dag g -> emit_only g evs -> exec g evs = (w, SOk) -> RunInv g evs w.
Proof.
  intros Hdag. unfold exec.
  assert (Hgen : forall evs2 evs1 w0, RunInv g evs1 w0 -> emit_only g evs2 ->
             exec_from (fuel_for g) g w0 evs2 = (w, SOk) -> RunInv g (evs1 ++ evs2) w).
  { induction evs2 as [|e rest IH]; intros evs1 w0 Hinv Hev H; cbn [exec_from] in H.
    - injection H as <-. rewrite app_nil_r. exact Hinv.
    - destruct (step (fuel_for g) g w0 e) as [w1 s1] eqn:Es.
      destruct s1; try discriminate H.
      pose proof (Hev e (or_introl eq_refl)) as He. destruct e as [n x m|n]; [|contradiction].
      cbn [step] in Es.
      replace (evs1 ++ EEmit n x m :: rest) with ((evs1 ++ [EEmit n x m]) ++ rest) by (rewrite <- app_assoc; reflexivity).
      apply (IH _ w1); [eapply RunInv_step; eauto | intros e' He'; apply Hev; right; exact He' | exact H]. }
  intros Hev H. apply (Hgen evs [] (init_world g) (RunInv_init g) Hev H).
Qed.

(* Corollary: a node with a single (permanent-edge) upstream receives exactly what that upstream
   emitted, in order: nothing lost, duplicated or reordered on the edge. *)
Definition vals_of_arr (l : list arrival) : list (val * md) := map (fun a => (snd (fst a), snd a)) l.

Lemma arr_single_up g L u d :
  ups (gnode g d) = [u] -> (forall e, In e L -> is_down g (e_src e) (e_dst e) = true) ->
  vals_of_arr (arr g L d) = edge L u d.
Proof.
  intros Hu Hal. unfold vals_of_arr, arr, edge. induction L as [|e t IH]; cbn; [reflexivity|].
  assert (Ht : forall e', In e' t -> is_down g (e_src e') (e_dst e') = true) by (intros e' He'; apply Hal; right; exact He').
  destruct (Nat.eqb_spec (e_dst e) d) as [E|E].
  - assert (Hs : e_src e = u).
    { specialize (Hal e (or_introl eq_refl)). apply is_down_In in Hal as [_ Hal]. rewrite E, Hu in Hal.
      destruct Hal as [->|[]]. reflexivity. }
    rewrite Hs, Nat.eqb_refl. cbn. f_equal. apply IH. exact Ht.
  - rewrite andb_false_r. apply IH. exact Ht.
Qed.

Theorem edge_faithful g evs w u d :
  wf_dag g -> emit_only g evs -> exec g evs = (w, SOk) ->
  ups (gnode g d) = [u] -> d < length g -> permanent g d = true ->
  vals_of_arr (arr g (rev (log w)) d) =
    if ups (gnode g u) then inputs evs u
    else fold_outs (nkind (gnode g u)) (init_st g u) (arr g (rev (log w)) u).
Proof.
  intros Hdag Hev H Hu Hd Hp.
  pose proof (pipeline_dataflow g evs w Hdag Hev H) as [i1 i2 i3 i3b i4 i5].
  assert (Hdn : is_down g u d = true).
  { unfold is_down. rewrite Hu. cbn [existsb]. rewrite Nat.eqb_refl.
    apply Nat.ltb_lt in Hd. rewrite Hd. reflexivity. }
  rewrite (arr_single_up g _ u d Hu) by (intros e He; apply i2; apply in_rev; exact He).
  destruct (ups (gnode g u)) eqn:Eu.
  - apply i5; assumption.
  - apply i4; try assumption. unfold is_entry. rewrite Eu. discriminate.
Qed.
