(* C15: counting deliveries of an emission during which a consumer edits the graph (ORemit).
   Every forwarding node hands what it receives to each child whose edge exists before and after the step. *)
From Coq Require Import List ZArith Bool Lia Arith Relations.
From SZ Require Import Base.Values Sync.Topology Sync.TopologyProofs.
Import ListNotations.
Close Scope Z_scope.
Open Scope nat_scope.

Definition b2n (b : bool) : nat := if b then 1 else 0.
(* how often node P was handed something / how often P handed something to c *)
Definition cnt_to (P : nat) (l : list tdeliv) : nat :=
  length (filter (fun e : tdeliv => snd (fst e) =? P) l).
Definition cnt_edge (P c : nat) (l : list tdeliv) : nat :=
  length (filter (fun e : tdeliv => (fst (fst e) =? P) && (snd (fst e) =? c)) l).

Lemma cnt_to_app P a b : cnt_to P (a ++ b) = cnt_to P a + cnt_to P b.
Proof. unfold cnt_to. rewrite filter_app, app_length. auto. Qed.
Lemma cnt_edge_app P c a b : cnt_edge P c (a ++ b) = cnt_edge P c a + cnt_edge P c b.
Proof. unfold cnt_edge. rewrite filter_app, app_length. auto. Qed.
Lemma cnt_to_one n d (x : val) P : cnt_to P [(n, d, x)] = b2n (d =? P).
Proof. unfold cnt_to. simpl. destruct (d =? P); auto. Qed.
Lemma cnt_edge_one n d (x : val) P c : cnt_edge P c [(n, d, x)] = b2n ((n =? P) && (d =? c)).
Proof. unfold cnt_edge. simpl. destruct ((n =? P) && (d =? c)); auto. Qed.
Lemma cnt_to_nil P : cnt_to P [] = 0. Proof. reflexivity. Qed.
Lemma cnt_edge_nil P c : cnt_edge P c [] = 0. Proof. reflexivity. Qed.

Definition occ (n P c : nat) (l : list nat) : nat := if n =? P then count_occ Nat.eq_dec l c else 0.

Lemma occ_cons n P c d l : occ n P c (d :: l) = b2n ((n =? P) && (d =? c)) + occ n P c l.
Proof.
  unfold occ. simpl. destruct (n =? P); simpl; auto.
  destruct (Nat.eq_dec d c) as [->|N].
  - rewrite Nat.eqb_refl. auto.
  - apply Nat.eqb_neq in N. rewrite N. auto.
Qed.

(* ---- emission never changes the shape, whatever the state ---- *)
Lemma temit_frame0 : forall f g n x g' l, temit f g n x = (g', l) -> frame g g'.
Proof.
  induction f as [|f IH]; intros g n x g' l E.
  - simpl in E. inversion E; subst. apply frame_refl.
  - rewrite temit_S in E.
    assert (H : forall lst ga la, fold_left (estep f n x) lst (ga, la) = (g', l) -> frame ga g').
    { induction lst as [|d lst IHl]; intros ga la E'; cbn [fold_left] in E'.
      - inversion E'; subst. apply frame_refl.
      - destruct (estep f n x (ga, la) d) as [g1 l1] eqn:E1.
        eapply frame_trans; [|eapply IHl; eauto].
        unfold estep in E1. destruct (tk (tget ga d)) eqn:K.
        + destruct (temit f ga d x) as [g2 l2] eqn:E2. inversion E1; subst. eapply IH; eauto.
        + inversion E1; subst. apply frame_refl.
        + match type of E1 with (if ?c then _ else _) = _ => destruct c end.
          * match type of E1 with (let '(_, _) := temit f ?gg d ?tt in _) = _ => destruct (temit f gg d tt) as [g2 l2] eqn:E2 end.
            inversion E1; subst. eapply frame_trans; [|eapply IH; eauto].
            apply frame_tset. unfold same_shape; simpl; auto 10.
          * inversion E1; subst. apply frame_tset. unfold same_shape; simpl; auto 10.
        + match type of E1 with match ?c with _ => _ end = _ => destruct c as [vs|] end.
          * match type of E1 with (let '(_, _) := temit f ?gg d ?tt in _) = _ => destruct (temit f gg d tt) as [g2 l2] eqn:E2 end.
            inversion E1; subst. eapply frame_trans; [|eapply IH; eauto].
            apply frame_tset. unfold same_shape; simpl; auto 10.
          * inversion E1; subst. apply frame_tset. unfold same_shape; simpl; auto 10.
        + inversion E1; subst. apply frame_refl. }
    eapply H; eauto.
Qed.

(* ---- plain emission: every pipe hands what it receives to every child ---- *)
Definition tcspec (f : nat) : Prop :=
  forall g n x g' log, TShape g -> alive g n -> length g <= f + n -> temit f g n x = (g', log) ->
  forall P c, tk (tget g P) = TPipe -> In c (t_downs (tget g P)) ->
  cnt_edge P c log = cnt_to P log + b2n (n =? P).

Lemma tcount_step f g n x ga la d g1 l1 :
  tcspec f -> TShape g -> alive g n -> length g <= S f + n -> In d (t_downs (tget g n)) -> frame g ga ->
  estep f n x (ga, la) d = (g1, l1) ->
  frame g g1 /\
  forall P c, tk (tget g P) = TPipe -> In c (t_downs (tget g P)) ->
  cnt_edge P c l1 + cnt_to P la = cnt_edge P c la + cnt_to P l1 + b2n ((n =? P) && (d =? c)).
Proof.
  intros IH Sh An Fu Hin F E.
  destruct (s_down _ Sh _ _ An Hin) as (Ad & Hup).
  assert (Lt : n < d) by (eapply s_ups_lt; eauto).
  assert (Sha : forall gb, frame g gb -> TShape gb /\ alive gb d /\ length gb <= f + d).
  { intros gb Fb. split; [eapply TShape_frame; eauto|]. split; [apply (fr_alive_iff _ _ _ Fb); auto|].
    rewrite <- (proj1 Fb). lia. }
  assert (REC : forall gb y g2 l2, frame g gb -> temit f gb d y = (g2, l2) ->
            frame g g2 /\ forall P c, tk (tget g P) = TPipe -> In c (t_downs (tget g P)) ->
            cnt_edge P c ((la ++ [(n, d, x)]) ++ l2) + cnt_to P la =
            cnt_edge P c la + cnt_to P ((la ++ [(n, d, x)]) ++ l2) + b2n ((n =? P) && (d =? c))).
  { intros gb y g2 l2 Fb E2. destruct (Sha gb Fb) as (Shb & Adb & Fub).
    split; [eapply frame_trans; eauto using temit_frame0|].
    intros P c KP Hc.
    pose proof (IH gb d y g2 l2 Shb Adb Fub E2 P c) as H.
    rewrite (fr_tk _ _ _ Fb), (fr_downs _ _ _ Fb) in H. specialize (H KP Hc).
    rewrite !cnt_edge_app, !cnt_to_app, cnt_edge_one, cnt_to_one. lia. }
  assert (NOREC : forall P c, tk (tget g P) = TPipe -> tk (tget g d) <> TPipe ->
            cnt_edge P c (la ++ [(n, d, x)]) + cnt_to P la =
            cnt_edge P c la + cnt_to P (la ++ [(n, d, x)]) + b2n ((n =? P) && (d =? c))).
  { intros P c KP Kd. rewrite !cnt_edge_app, !cnt_to_app, cnt_edge_one, cnt_to_one.
    destruct (d =? P) eqn:EP; [apply Nat.eqb_eq in EP; subst; congruence|]. simpl. lia. }
  assert (Kd : tk (tget ga d) = tk (tget g d)) by (apply fr_tk; auto).
  unfold estep in E. destruct (tk (tget ga d)) eqn:K.
  - destruct (temit f ga d x) as [g2 l2] eqn:E2. inversion E; subst. eapply REC; eauto.
  - inversion E; subst. split; auto. intros. apply NOREC; auto. congruence.
  - match type of E with (if ?c then _ else _) = _ => destruct c end.
    + match type of E with (let '(_, _) := temit f ?gg d ?tt in _) = _ => destruct (temit f gg d tt) as [g2 l2] eqn:E2 end.
      inversion E; subst.
      assert (Fb : frame g (tset ga d (zip_pop (with_bufs (tget ga d)
                     (buf_set n (buf_get n (t_bufs (tget ga d)) ++ [x]) (t_bufs (tget ga d))))))).
      { eapply frame_trans; eauto. apply frame_tset. unfold same_shape; simpl; auto 10. }
      destruct (REC _ _ _ _ Fb E2) as (F2 & H2). split; auto.
Show. Abort.
