(* The push semantics of Stream._emit over a pipeline graph, with metadata,
   reference counters, the call log and exception propagation. *)
From Coq Require Import List ZArith Bool Lia Arith.
From SZ Require Import Base.Values Sync.Nodes.
Import ListNotations.
Close Scope Z_scope.
Open Scope nat_scope.

Record node := { nkind : kind; ups : list nat }.
Definition graph := list node.

Definition dummy_node : node := {| nkind := KSource; ups := [] |}.
Definition gnode (g : graph) (i : nat) : node := nth i g dummy_node.

(* creation order = attachment order: every upstream index is smaller *)
Definition wf_dag (g : graph) : Prop :=
  forall i u, i < length g -> In u (ups (gnode g i)) -> u < i.

(* one call of some node's update(), in program order, with its nesting depth *)
Record entry := { e_depth : nat; e_src : nat; e_dst : nat; e_val : val; e_md : md }.

Record world := {
  sts : list nstate;
  cnt : nat -> Z;              (* reference counters, by id *)
  fired : list nat;            (* completion callbacks scheduled, in order *)
  log : list entry;            (* whole history, most recent first *)
}.

Definition wset_sts (w : world) (s : list nstate) : world :=
  {| sts := s; cnt := cnt w; fired := fired w; log := log w |}.
Definition wlog (w : world) (e : entry) : world :=
  {| sts := sts w; cnt := cnt w; fired := fired w; log := e :: log w |}.

Definition nst (w : world) (i : nat) : nstate := nth i (sts w) st_empty.

(* RefCounter.retain(n) / release(n) on every dictionary of a metadata list that has a counter *)
Definition retain1 (w : world) (r : nat) (n : Z) : world :=
  {| sts := sts w; cnt := fun r' => if Nat.eqb r r' then (cnt w r' + n)%Z else cnt w r';
     fired := fired w; log := log w |}.

Definition release1 (w : world) (r : nat) (n : Z) : world :=
  let c := (cnt w r - n)%Z in
  {| sts := sts w; cnt := fun r' => if Nat.eqb r r' then c else cnt w r';
     fired := if (c <=? 0)%Z then fired w ++ [r] else fired w;
     log := log w |}.

Definition retain (w : world) (m : md) (n : Z) : world :=
  fold_left (fun w i => if mref i then retain1 w (mid i) n else w) m w.
Definition release (w : world) (m : md) (n : Z) : world :=
  fold_left (fun w i => if mref i then release1 w (mid i) n else w) m w.

Fixpoint index_of (x : nat) (l : list nat) : nat :=
  match l with
  | [] => 0
  | h :: t => if Nat.eqb h x then 0 else S (index_of x t)
  end.

(* list(self.downstreams): attachment order; a finished slice has removed itself *)
Definition downs (g : graph) (w : world) (n : nat) : list nat :=
  filter (fun d => existsb (Nat.eqb n) (ups (gnode g d)) && negb (st_detached (nst w d)))
         (seq 0 (length g)).

Inductive status :=
| SOk
| SFailed      (* the returned list of awaitables contains a failed future (an exception captured by a
                  coroutine node); processing of siblings continues *)
| SRaise       (* an exception is unwinding the Python stack *)
| SFuel.

Definition status_ok (s : status) : bool := match s with SOk => true | _ => false end.
Definition status_go (s : status) : bool := match s with SOk | SFailed => true | _ => false end.
Definition status_join (acc s : status) : status :=
  match s with SOk => acc | _ => s end.

(* interpret the action list of node d; `emit` is the recursive push from d.
   coro = the node's update is a tornado coroutine that yields on what its _emit returned:
   a failed awaitable then raises inside the coroutine and the remaining statements are skipped. *)
Definition do_action (emit : world -> val -> md -> world * status) (coro : bool) (d : nat)
           (ws : world * status) (a : action) : world * status :=
  let '(w, s) := ws in
  if (if coro then status_ok s else status_go s) then
    match a with
    | ASet st => (wset_sts w (set_nth d st (sts w)), s)
    | ARetain m => (retain w m 1, s)
    | ARelease m => (release w m 1, s)
    | AEmit y my => let '(w', s') := emit w y my in (w', status_join s s')
    end
  else ws.

Definition run_actions (emit : world -> val -> md -> world * status) (coro : bool)
           (d : nat) (acts : list action) (w : world) : world * status :=
  fold_left (do_action emit coro d) acts (w, SOk).

(* one downstream.update(x, who=n, metadata=m) call plus the release that follows it in _emit (the hand-over to a child
   that is still attached, see [hand]) *)
Definition deliver (emitfrom : nat -> world -> val -> md -> world * status)
           (g : graph) (depth n : nat) (x : val) (m : md)
           (ws : world * status) (d : nat) : world * status :=
  let '(w, s) := ws in
  if status_go s then
    let nd := gnode g d in
    let coro := is_coroutine (nkind nd) in
    let w := wlog w {| e_depth := depth; e_src := n; e_dst := d; e_val := x; e_md := m |} in
    match update (nkind nd) (nst w d) (index_of n (ups nd)) x m with
    | None => if coro then (release w m 1, SFailed) else (w, SRaise)
    | Some acts =>
        let '(w, s') := run_actions (emitfrom d) coro d acts w in
        match s' with
        | SOk => (release w m 1, s)
        | SFailed => (release w m 1, SFailed)
        | SRaise => if coro then (release w m 1, SFailed) else (w, SRaise)
        | SFuel => (w, SFuel)
        end
    end
  else ws.

(* `downstream in self.downstreams`, evaluated on the world at the time of the test *)
Definition attached (g : graph) (w : world) (n d : nat) : bool := existsb (Nat.eqb d) (downs g w n).

(* one turn of the loop of _emit over the snapshot `list(self.downstreams)`: a child that has left self.downstreams since
   the snapshot was taken (a slice that finished during an earlier hand-over of this same emission: a feedback edge, or
   a slice attached to several upstreams) is not called; the reference retained for it up-front is given back.  No call,
   no log entry.  Otherwise: [deliver]. *)
Definition hand (emitfrom : nat -> world -> val -> md -> world * status)
           (g : graph) (depth n : nat) (x : val) (m : md)
           (ws : world * status) (d : nat) : world * status :=
  let '(w, s) := ws in
  if status_go s then
    if attached g w n d then deliver emitfrom g depth n x m ws d
    else (release w m 1, s)
  else ws.

(* Stream._emit at node n *)
Fixpoint push (fuel : nat) (g : graph) (depth n : nat) (w : world) (x : val) (m : md)
  {struct fuel} : world * status :=
  match fuel with
  | O => (w, SFuel)
  | S fuel' =>
    let ds := downs g w n in
    let w := retain w m (Z.of_nat (length ds)) in
    fold_left (hand (fun d => push fuel' g (S depth) d) g depth n x m) ds (w, SOk)
  end.

(* ---- the three cases of one turn ---------------------------------------- *)
Lemma hand_stop emitfrom g depth n x m w s d :
  status_go s = false -> hand emitfrom g depth n x m (w, s) d = (w, s).
Proof. intros H. unfold hand. rewrite H. reflexivity. Qed.

Lemma hand_attached emitfrom g depth n x m w s d :
  attached g w n d = true -> hand emitfrom g depth n x m (w, s) d = deliver emitfrom g depth n x m (w, s) d.
Proof. intros H. unfold hand. rewrite H. destruct (status_go s) eqn:E; [reflexivity|]. unfold deliver. rewrite E. reflexivity. Qed.

Lemma hand_gone emitfrom g depth n x m w s d :
  status_go s = true -> attached g w n d = false -> hand emitfrom g depth n x m (w, s) d = (release w m 1, s).
Proof. intros H1 H2. unfold hand. rewrite H1, H2. reflexivity. Qed.

(* case analysis for proofs about a fold of [hand]: either it is the hand-over [deliver], or the world only lost the
   reference retained for the absent child *)
Lemma hand_cases emitfrom g depth n x m w s d :
  hand emitfrom g depth n x m (w, s) d = deliver emitfrom g depth n x m (w, s) d \/
  (status_go s = true /\ attached g w n d = false /\ hand emitfrom g depth n x m (w, s) d = (release w m 1, s)).
Proof.
  destruct (attached g w n d) eqn:A; [left; apply hand_attached; exact A|].
  destruct (status_go s) eqn:G.
  - right. split; [reflexivity|]. split; [reflexivity|]. apply hand_gone; assumption.
  - left. rewrite hand_stop by exact G. unfold deliver. rewrite G. reflexivity.
Qed.

(* ---- external events ---------------------------------------------------- *)
Inductive event :=
| EEmit (n : nat) (x : val) (m : md)      (* n.emit(x, metadata=m) *)
| EFlush (n : nat).                        (* n.flush() on a collect node *)

Definition init_world (g : graph) : world :=
  {| sts := map (fun nd => init_state (nkind nd) (length (ups nd))) g;
     cnt := fun _ => 0%Z; fired := []; log := [] |}.

Definition step (fuel : nat) (g : graph) (w : world) (e : event) : world * status :=
  match e with
  | EEmit n x m => push fuel g 0 n w x m
  | EFlush n =>
      (* flush() discards what _emit returned, so a failed awaitable is never looked at *)
      let '(w', s) := run_actions (push fuel g 0 n) false n (flush_actions (nst w n)) w in
      (w', match s with SFailed => SOk | _ => s end)
  end.

(* what the harness observes after one event *)
Record obs := {
  o_calls : list entry;          (* program order, this event only *)
  o_raised : bool;               (* the emit call raised (directly or through a stored future) *)
  o_counts : list Z;             (* counters 0 .. nrc-1 *)
  o_fired : list nat;            (* callbacks scheduled so far *)
}.

Definition observe (nrc : nat) (w w' : world) (s : status) : obs :=
  {| o_calls := rev (firstn (length (log w') - length (log w)) (log w'));
     o_raised := negb (status_ok s);
     o_counts := map (cnt w') (seq 0 nrc);
     o_fired := fired w' |}.

Fixpoint run_from (fuel : nat) (g : graph) (nrc : nat) (w : world) (evs : list event) : list obs :=
  match evs with
  | [] => []
  | e :: rest =>
      let '(w', s) := step fuel g w e in
      observe nrc w w' s :: run_from fuel g nrc w' rest
  end.

Definition fuel_for (g : graph) : nat := S (length g).

Definition run (g : graph) (nrc : nat) (evs : list event) : list obs :=
  run_from (fuel_for g) g nrc (init_world g) evs.

(* the final world of a run (theorems are stated about this) *)
Fixpoint exec_from (fuel : nat) (g : graph) (w : world) (evs : list event) : world * status :=
  match evs with
  | [] => (w, SOk)
  | e :: rest =>
      let '(w', s) := step fuel g w e in
      match s with
      | SOk => exec_from fuel g w' rest
      | _ => (w', s)
      end
  end.
Definition exec (g : graph) (evs : list event) : world * status :=
  exec_from (fuel_for g) g (init_world g) evs.

(* ---- boolean comparison of observations (used by the correspondence) ---- *)
Definition entry_eqb (a b : entry) : bool :=
  Nat.eqb (e_depth a) (e_depth b) && Nat.eqb (e_src a) (e_src b) && Nat.eqb (e_dst a) (e_dst b)
  && val_eqb (e_val a) (e_val b) && list_eqb mdi_eqb (e_md a) (e_md b).

Definition obs_eqb (a b : obs) : bool :=
  list_eqb entry_eqb (o_calls a) (o_calls b) && Bool.eqb (o_raised a) (o_raised b)
  && list_eqb Z.eqb (o_counts a) (o_counts b) && list_eqb Nat.eqb (o_fired a) (o_fired b).

Record case := { c_graph : graph; c_nrc : nat; c_events : list event; c_observed : list obs }.

(* graphs with a feedback edge (an upstream index not smaller than the node's) run on a generous explicit fuel; for
   DAGs this is [run] *)
Definition dagb (g : graph) : bool :=
  forallb (fun i => forallb (fun u => Nat.ltb u i) (ups (gnode g i))) (seq 0 (length g)).
Definition case_fuel (g : graph) : nat := if dagb g then fuel_for g else 600.
Definition run_case (c : case) : list obs :=
  run_from (case_fuel (c_graph c)) (c_graph c) (c_nrc c) (init_world (c_graph c)) (c_events c).

Definition agree (c : case) : bool :=
  list_eqb obs_eqb (run_case c) (c_observed c).

Fixpoint mismatches_from (i : nat) (cs : list case) : list nat :=
  match cs with
  | [] => []
  | c :: t => if agree c then mismatches_from (S i) t else i :: mismatches_from (S i) t
  end.
Definition mismatches (cs : list case) : list nat := mismatches_from 0 cs.

(* debugging aid for the harness: first event on which model and observation differ *)
Fixpoint first_diff_from (i : nat) (ms os : list obs) : option (nat * option obs * option obs) :=
  match ms, os with
  | [], [] => None
  | m :: mt, o :: ot => if obs_eqb m o then first_diff_from (S i) mt ot else Some (i, Some m, Some o)
  | m :: _, [] => Some (i, Some m, None)
  | [], o :: _ => Some (i, None, Some o)
  end.
Definition first_diff (c : case) := first_diff_from 0 (run_case c) (c_observed c).
