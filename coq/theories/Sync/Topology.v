(* Dynamic topology (C15): connect / disconnect / destroy / garbage collection interleaved with emissions.
   Links are stored at BOTH ends, as in the code (upstreams: list of strong references; downstreams:
   ordered set of weak references), so their mutual consistency is a theorem, not a definition. *)
From Coq Require Import List ZArith Bool Lia Arith.
From SZ Require Import Base.Values.
Import ListNotations.
Close Scope Z_scope.
Open Scope nat_scope.

Inductive tkind := TPipe | TSink | TZip | TCombine | TRSink | TCombineOn (trig : nat).
(* TPipe: Stream(), map(identity), union: forward.  TRSink: a sink whose callback may edit the graph while the
   element it was handed is still being delivered to other nodes (see ORemit).  TCombineOn t: combine_latest with an
   explicit emit_on naming the stream t (given as a stream or by position at construction): it emits only when t
   delivers, whatever happens to its inputs afterwards, and it holds a strong reference to t *)
Definition sinkb (k : tkind) : bool := match k with TSink | TRSink => true | _ => false end.

Record tnode := {
  tk : tkind;
  t_ups : list nat;                    (* self.upstreams, in order *)
  t_downs : list nat;                  (* self.downstreams, attachment order *)
  t_held : bool;                       (* the program still holds a reference to the node *)
  t_reg : bool;                        (* sink registered in _global_sinks (not destroyed) *)
  t_alive : bool;                      (* not garbage collected *)
  t_bufs : list (nat * list val);      (* zip: one FIFO per upstream *)
  t_last : list (option val);          (* combine_latest: latest value per upstream position *)
}.
Definition tgraph := list tnode.

Definition dead_node : tnode :=
  {| tk := TPipe; t_ups := []; t_downs := []; t_held := false; t_reg := false; t_alive := false; t_bufs := []; t_last := [] |}.
Definition tget (g : tgraph) (i : nat) : tnode := nth i g dead_node.

Fixpoint tset (g : tgraph) (i : nat) (n : tnode) : tgraph :=
  match g, i with
  | [], _ => []
  | _ :: t, O => n :: t
  | h :: t, S i' => h :: tset t i' n
  end.

Definition with_ups (n : tnode) (u : list nat) : tnode :=
  {| tk := tk n; t_ups := u; t_downs := t_downs n; t_held := t_held n; t_reg := t_reg n; t_alive := t_alive n; t_bufs := t_bufs n; t_last := t_last n |}.
Definition with_downs (n : tnode) (d : list nat) : tnode :=
  {| tk := tk n; t_ups := t_ups n; t_downs := d; t_held := t_held n; t_reg := t_reg n; t_alive := t_alive n; t_bufs := t_bufs n; t_last := t_last n |}.
Definition with_bufs (n : tnode) (b : list (nat * list val)) : tnode :=
  {| tk := tk n; t_ups := t_ups n; t_downs := t_downs n; t_held := t_held n; t_reg := t_reg n; t_alive := t_alive n; t_bufs := b; t_last := t_last n |}.
Definition with_last (n : tnode) (l : list (option val)) : tnode :=
  {| tk := tk n; t_ups := t_ups n; t_downs := t_downs n; t_held := t_held n; t_reg := t_reg n; t_alive := t_alive n; t_bufs := t_bufs n; t_last := l |}.
Definition with_flags (n : tnode) (held reg alive : bool) : tnode :=
  {| tk := tk n; t_ups := t_ups n; t_downs := t_downs n; t_held := held; t_reg := reg; t_alive := alive; t_bufs := t_bufs n; t_last := t_last n |}.

Fixpoint remove_first (x : nat) (l : list nat) : list nat :=
  match l with
  | [] => []
  | h :: t => if h =? x then t else h :: remove_first x t
  end.
Definition mem (x : nat) (l : list nat) : bool := existsb (Nat.eqb x) l.
Fixpoint index_nat (x : nat) (l : list nat) : nat :=
  match l with [] => 0 | h :: t => if h =? x then 0 else S (index_nat x t) end.
Fixpoint remove_at {A} (i : nat) (l : list A) : list A :=
  match l, i with
  | [], _ => []
  | _ :: t, O => t
  | h :: t, S i' => h :: remove_at i' t
  end.
Fixpoint set_at {A} (i : nat) (x : A) (l : list A) : list A :=
  match l, i with
  | [], _ => []
  | _ :: t, O => x :: t
  | h :: t, S i' => h :: set_at i' x t
  end.

Fixpoint buf_get (u : nat) (b : list (nat * list val)) : list val :=
  match b with [] => [] | (k, l) :: t => if k =? u then l else buf_get u t end.
Fixpoint buf_set (u : nat) (l : list val) (b : list (nat * list val)) : list (nat * list val) :=
  match b with
  | [] => [(u, l)]
  | (k, l0) :: t => if k =? u then (k, l) :: t else (k, l0) :: buf_set u l t
  end.
Fixpoint buf_del (u : nat) (b : list (nat * list val)) : list (nat * list val) :=
  match b with [] => [] | (k, l) :: t => if k =? u then t else (k, l) :: buf_del u t end.

Fixpoint all_some_v (l : list (option val)) : option (list val) :=
  match l with
  | [] => Some []
  | Some a :: t => match all_some_v t with Some r => Some (a :: r) | None => None end
  | None :: _ => None
  end.

(* one delivery: (source node, destination node, value) *)
Definition tdeliv : Type := nat * nat * val.

(* zip: all inputs have something buffered (and there is at least one input) *)
Definition zip_ready (n : tnode) : bool :=
  negb (match t_ups n with [] => true | _ => false end) &&
  forallb (fun u => negb (match buf_get u (t_bufs n) with [] => true | _ => false end)) (t_ups n).
Definition zip_heads (n : tnode) : list val := map (fun u => hd VNone (buf_get u (t_bufs n))) (t_ups n).
Definition zip_pop (n : tnode) : tnode := with_bufs n (map (fun kb => (fst kb, tl (snd kb))) (t_bufs n)).

(* Stream._emit from node n, then the reaction of each downstream (update) *)
Fixpoint temit (fuel : nat) (g : tgraph) (n : nat) (x : val) : tgraph * list tdeliv :=
  match fuel with
  | O => (g, [])
  | S fuel' =>
      fold_left (fun (acc : tgraph * list tdeliv) d =>
        let '(g, log) := acc in
        let nd := tget g d in
        let log := log ++ [(n, d, x)] in
        match tk nd with
        | TPipe => let '(g', l') := temit fuel' g d x in (g', log ++ l')
        | TSink | TRSink => (g, log)
        | TZip =>
            let L := buf_get n (t_bufs nd) ++ [x] in
            let nd1 := with_bufs nd (buf_set n L (t_bufs nd)) in
            if (length L =? 1) && zip_ready nd1 then
              let tup := VTup (zip_heads nd1) in
              let g1 := tset g d (zip_pop nd1) in
              let '(g', l') := temit fuel' g1 d tup in (g', log ++ l')
            else (tset g d nd1, log)
        | TCombine =>
            let last' := set_at (index_nat n (t_ups nd)) (Some x) (t_last nd) in
            let g1 := tset g d (with_last nd last') in
            match all_some_v last' with
            | Some vs => let '(g', l') := temit fuel' g1 d (VTup vs) in (g', log ++ l')
            | None => (g1, log)
            end
        | TCombineOn t =>
            let last' := set_at (index_nat n (t_ups nd)) (Some x) (t_last nd) in
            let g1 := tset g d (with_last nd last') in
            match all_some_v last' with
            | Some vs => if n =? t then let '(g', l') := temit fuel' g1 d (VTup vs) in (g', log ++ l') else (g1, log)
            | None => (g1, log)
            end
        end) (t_downs (tget g n)) (g, [])
  end.

(* zip._upstream_disconnected: pair the backlog of the remaining inputs *)
Fixpoint zip_drain (fuel : nat) (g : tgraph) (d : nat) : tgraph * list tdeliv :=
  match fuel with
  | O => (g, [])
  | S fuel' =>
      let nd := tget g d in
      if zip_ready nd then
        let tup := VTup (zip_heads nd) in
        let g1 := tset g d (zip_pop nd) in
        let '(g2, l1) := temit (S (length g)) g1 d tup in
        let '(g3, l2) := zip_drain fuel' g2 d in (g3, l1 ++ l2)
      else (g, [])
  end.

(* downstream._remove_upstream(u) with the overrides of zip and combine_latest *)
Definition remove_upstream (nd : tnode) (u : nat) : tnode :=
  let nd1 := match tk nd with
             | TZip => with_bufs nd (buf_del u (t_bufs nd))
             | TCombine | TCombineOn _ => with_last nd (remove_at (index_nat u (t_ups nd)) (t_last nd))
             | _ => nd
             end in
  with_ups nd1 (remove_first u (t_ups nd)).

Definition add_upstream (nd : tnode) (u : nat) : tnode :=
  let nd1 := match tk nd with
             | TZip => with_bufs nd (buf_set u [] (t_bufs nd))
             | TCombine | TCombineOn _ => with_last nd (t_last nd ++ [None])
             | _ => nd
             end in
  with_ups nd1 (t_ups nd ++ [u]).

(* ---- garbage collection: upstream references are strong, downstream references weak ---------------- *)
Definition is_root (n : tnode) : bool := t_alive n && (t_held n || t_reg n).

(* strong references of a node: its upstreams and, for combine_latest with an explicit emit_on, that stream *)
Definition t_refs (n : tnode) : list nat :=
  t_ups n ++ match tk n with TCombineOn t => [t] | _ => [] end.

(* nodes kept alive: roots and, transitively, what kept nodes reference *)
Fixpoint keep (fuel : nat) (g : tgraph) (kept : list nat) : list nat :=
  match fuel with
  | O => kept
  | S fuel' =>
      let more := flat_map (fun i => filter (fun u => negb (mem u kept)) (t_refs (tget g i))) kept in
      match more with
      | [] => kept
      | _ => keep fuel' g (kept ++ more)
      end
  end.

Definition collect (g : tgraph) : tgraph :=
  let roots := filter (fun i => is_root (tget g i)) (seq 0 (length g)) in
  let kept := keep (length g) g roots in
  map (fun i => let n := tget g i in
                if t_alive n && mem i kept then with_downs n (filter (fun d => t_alive (tget g d) && mem d kept) (t_downs n))
                else with_flags (with_downs (with_ups n []) []) false false false)
      (seq 0 (length g)).

(* ---- operations --------------------------------------------------------------------------------------- *)
(* a graph edit; also what a reactive sink does from inside its callback *)
Inductive tedit :=
| EConnect (u d : nat)
| EDisconnect (u d : nat)
| EDestroy (m : nat).

Inductive top :=
| ONew (k : tkind) (ups : list nat)      (* create through the fluent API / constructor over existing nodes *)
| OEmit (n : nat) (x : val)
| OConnect (u d : nat)
| ODisconnect (u d : nat)
| ODestroy (n : nat)
| ODrop (n : nat)                        (* the program drops its reference; the collector runs *)
| ORemit (n : nat) (x : val) (t : nat) (e : tedit).
   (* emit x at n; the FIRST time the reactive sink t is handed an element during this emission it performs the edit e
      from inside its callback, i.e. while the loops of Stream._emit further up the call stack are still running *)

Inductive tres := ROk | RRaise.

Definition new_node (k : tkind) (ups : list nat) : tnode :=
  {| tk := k; t_ups := ups; t_downs := []; t_held := true; t_reg := sinkb k;
     t_alive := true;
     t_bufs := match k with TZip => map (fun u => (u, [])) ups | _ => [] end;
     t_last := match k with TCombine | TCombineOn _ => map (fun _ => None) ups | _ => [] end |}.

Definition add_down (g : tgraph) (u d : nat) : tgraph :=
  let nu := tget g u in
  if mem d (t_downs nu) then g else tset g u (with_downs nu (t_downs nu ++ [d])).

(* connect / disconnect / destroy: both ends of the link are updated at once *)
Definition tedit0 (g : tgraph) (e : tedit) : tgraph * tres * list tdeliv :=
  match e with
  | EConnect u d =>
      let g1 := add_down g u d in
      (tset g1 d (add_upstream (tget g1 d) u), ROk, [])
  | EDisconnect u d =>
      let nu := tget g u in
      if mem d (t_downs nu) then
        let g1 := tset g u (with_downs nu (remove_first d (t_downs nu))) in
        let g2 := tset g1 d (remove_upstream (tget g1 d) u) in
        match tk (tget g2 d) with
        | TZip => let '(g3, l) := zip_drain (S (length (flat_map snd (t_bufs (tget g2 d))))) g2 d in (g3, ROk, l)
        | _ => (g2, ROk, [])
        end
      else (g, RRaise, [])                    (* WeakSet.remove raises KeyError: nothing changed *)
  | EDestroy n =>
      let nd := tget g n in
      let g1 := fold_left (fun g u =>
                  let nu := tget g u in
                  let g' := tset g u (with_downs nu (remove_first n (t_downs nu))) in
                  tset g' n (remove_upstream (tget g' n) u)) (t_ups nd) g in
      (tset g1 n (with_flags (tget g1 n) (t_held (tget g1 n)) false (t_alive (tget g1 n))), ROk, [])
  end.

(* ---- an emission during which a consumer edits the graph ------------------------------------------------ *)
Definition heldb (g : tgraph) (n : nat) : bool :=
  (n <? length g) && t_alive (tget g n) && t_held (tget g n).
Definition edit_nodes (e : tedit) : list nat :=
  match e with EConnect u d => [u; d] | EDisconnect u d => [u; d] | EDestroy m => [m] end.
(* the callback reaches the nodes through the program's variables: a dropped one cannot be edited *)
Definition apply_edit (g : tgraph) (e : tedit) : tgraph * tres * list tdeliv :=
  if forallb (heldb g) (edit_nodes e) then tedit0 g e else (g, RRaise, []).

Definition rpend : Type := option (nat * tedit).             (* reactive sink that has not reacted yet, its edit *)
Definition rstate : Type := tgraph * rpend * bool * list tdeliv.   (* graph, pending, an update raised, log *)

(* Stream._emit at n: `for downstream in list(self.downstreams)` walks the SNAPSHOT taken when this call started
   (the list t_downs (tget g n) the fold runs over), while every hand-over looks at the CURRENT graph: an edit made by
   the reactive sink changes both ends of the link at once, deeper _emit calls that start later take their snapshot
   from the edited graph, loops already running keep theirs.  Before each hand-over the loop tests
   `downstream not in self.downstreams` on the CURRENT graph and skips a child that was detached after the snapshot
   was taken (the repair of defect 32, "detached-input-still-served"): the edge no longer exists.
   The update of a combining node still raises when it is handed an element by a node that is not among its inputs
   (zip: self.buffers[who] KeyError, combine_latest: self.upstreams.index(who) ValueError) and the exception would
   unwind the whole emission - but since links are kept consistent at both ends and a detached child is skipped,
   that never happens in a legal history (TopologyReentrant.reentrant_never_raises).  Before the repair the running
   loop served the stale snapshot and the raise was reachable. *)
Fixpoint rdeliver (fuel : nat) (g : tgraph) (p : rpend) (n : nat) (x : val) : rstate :=
  match fuel with
  | O => (g, p, false, [])
  | S fuel' =>
      fold_left (fun (acc : rstate) d =>
        let '(g, p, raised, log) := acc in
        if raised then acc else
        if negb (mem d (t_downs (tget g n))) then acc else      (* detached since the snapshot: skipped *)
        let nd := tget g d in
        let log := log ++ [(n, d, x)] in
        match tk nd with
        | TPipe => let '(g', p', r', l') := rdeliver fuel' g p d x in (g', p', r', log ++ l')
        | TSink => (g, p, false, log)
        | TRSink =>
            match p with
            | Some (t, e) =>
                if t =? d then let '(g', _, l') := apply_edit g e in (g', None, false, log ++ l')
                else (g, p, false, log)
            | None => (g, p, false, log)
            end
        | TZip =>
            if mem n (map fst (t_bufs nd)) then
              let L := buf_get n (t_bufs nd) ++ [x] in
              let nd1 := with_bufs nd (buf_set n L (t_bufs nd)) in
              if (length L =? 1) && zip_ready nd1 then
                let tup := VTup (zip_heads nd1) in
                let g1 := tset g d (zip_pop nd1) in
                let '(g', p', r', l') := rdeliver fuel' g1 p d tup in (g', p', r', log ++ l')
              else (tset g d nd1, p, false, log)
            else (g, p, true, log)
        | TCombine =>
            if mem n (t_ups nd) then
              let last' := set_at (index_nat n (t_ups nd)) (Some x) (t_last nd) in
              let g1 := tset g d (with_last nd last') in
              match all_some_v last' with
              | Some vs => let '(g', p', r', l') := rdeliver fuel' g1 p d (VTup vs) in (g', p', r', log ++ l')
              | None => (g1, p, false, log)
              end
            else (g, p, true, log)
        | TCombineOn t =>
            if mem n (t_ups nd) then
              let last' := set_at (index_nat n (t_ups nd)) (Some x) (t_last nd) in
              let g1 := tset g d (with_last nd last') in
              match all_some_v last' with
              | Some vs =>
                  if n =? t then let '(g', p', r', l') := rdeliver fuel' g1 p d (VTup vs) in (g', p', r', log ++ l')
                  else (g1, p, false, log)
              | None => (g1, p, false, log)
              end
            else (g, p, true, log)
        end) (t_downs (tget g n)) (g, p, false, [])
  end.

Definition tstep0 (g : tgraph) (o : top) : tgraph * tres * list tdeliv :=
  match o with
  | ONew k ups =>
      let i := length g in
      let g1 := g ++ [new_node k ups] in
      (fold_left (fun g u => add_down g u i) ups g1, ROk, [])
  | OEmit n x => let '(g', l) := temit (S (length g)) g n x in (g', ROk, l)
  | OConnect u d => tedit0 g (EConnect u d)
  | ODisconnect u d => tedit0 g (EDisconnect u d)
  | ODestroy n => tedit0 g (EDestroy n)
  | ODrop n =>
      let nd := tget g n in
      (tset g n (with_flags nd false (t_reg nd) (t_alive nd)), ROk, [])
  | ORemit n x t e =>
      let '(g', _, r, l) := rdeliver (S (length g)) g (Some (t, e)) n x in
      (g', if r then RRaise else ROk, l)
  end.

(* CPython frees an object as soon as nothing references it (and the harness forces a collection of cycles
   after every operation): unreachable branches disappear after ANY edit, not only after a drop *)
Definition tstep (g : tgraph) (o : top) : tgraph * tres * list tdeliv :=
  let '(g', r, l) := tstep0 g o in (collect g', r, l).

(* ---- observations ---------------------------------------------------------------------------------------- *)
Record tobs := {
  to_raised : bool;
  to_deliv : list tdeliv;
  to_links : list (bool * list nat * list nat);      (* per node: alive, upstreams, downstreams *)
}.

Definition links_of (g : tgraph) : list (bool * list nat * list nat) :=
  map (fun n => if t_alive n then (true, t_ups n, t_downs n) else (false, [], [])) g.

Fixpoint trun (g : tgraph) (ops : list top) : list tobs :=
  match ops with
  | [] => []
  | o :: rest =>
      let '(g', r, l) := tstep g o in
      {| to_raised := match r with RRaise => true | ROk => false end; to_deliv := l; to_links := links_of g' |} :: trun g' rest
  end.

Definition natlist_eqb := list_eqb Nat.eqb.
Definition tdeliv_eqb (a b : tdeliv) : bool :=
  Nat.eqb (fst (fst a)) (fst (fst b)) && Nat.eqb (snd (fst a)) (snd (fst b)) && val_eqb (snd a) (snd b).
Definition link_eqb (a b : bool * list nat * list nat) : bool :=
  Bool.eqb (fst (fst a)) (fst (fst b)) && natlist_eqb (snd (fst a)) (snd (fst b)) && natlist_eqb (snd a) (snd b).
Definition tobs_eqb (a b : tobs) : bool :=
  Bool.eqb (to_raised a) (to_raised b) && list_eqb tdeliv_eqb (to_deliv a) (to_deliv b)
  && list_eqb link_eqb (to_links a) (to_links b).

Record tcase := { tc_ops : list top; tc_observed : list tobs }.
Definition tagree (c : tcase) : bool := list_eqb tobs_eqb (trun [] (tc_ops c)) (tc_observed c).
Fixpoint tmismatches_from (i : nat) (cs : list tcase) : list nat :=
  match cs with
  | [] => []
  | c :: t => if tagree c then tmismatches_from (S i) t else i :: tmismatches_from (S i) t
  end.
Definition tmismatches (cs : list tcase) : list nat := tmismatches_from 0 cs.
