(* Reference-count accounting for ALL node kinds (extends RefCount.v).

   RefCount.v proves that every exception-free push preserves  count r - holders r  under the
   hypothesis that every node kind of the graph satisfies `kind_books` for ARBITRARY states and
   ports.  That is false for sliding_window, zip, combine_latest and zip_latest (a full metadata
   deque silently drops an entry; a port outside the arity makes set_nth a no-op).  Here the
   per-kind obligation is proved under a per-node state invariant `node_inv`, the invariant is
   shown to hold initially and to be preserved by update, and the accounting chain
   run_actions / deliver / hand / hand_all / push / exec  is re-proved with the invariant threaded
   through.  No node kind has to be excluded. *)
From Coq Require Import List ZArith Bool Lia Arith.
From SZ Require Import Base.Values Sync.Nodes Sync.Pipeline Sync.PushSpec Sync.Dataflow Sync.RefCount.
Import ListNotations.
Close Scope Z_scope.
Open Scope nat_scope.

(* ---- the per-node invariant --------------------------------------------------------- *)
(* sliding_window: the value deque (st_seen, maxlen n) never exceeds n, and the metadata deque
   (st_win) is as long as the value deque until the first emission and one shorter afterwards:
   in particular it is never full when an element arrives, so nothing is dropped silently. *)
Definition node_inv (nd : node) (s : nstate) : Prop :=
  match nkind nd with
  | KSliding n _ =>
      1 <= n /\ length (st_seen s) <= n /\
      ((length (st_seen s) < n /\ length (st_win s) = length (st_seen s)) \/
       (length (st_seen s) = n /\ S (length (st_win s)) = n))
  | KZip _ => length (st_ports s) = length (ups nd)
  | KCombineLatest _ | KZipLatest => length (st_last s) = length (ups nd)
  | _ => True
  end.

(* what update really needs: the metadata deque has room for the arriving element.  This alone
   is not inductive (without emission the deque would fill up), hence the link with st_seen above *)
Lemma node_inv_sliding_room nd n partial s :
  nkind nd = KSliding n partial -> node_inv nd s -> 1 <= n /\ length (st_win s) < n.
Proof. intros Hk H. unfold node_inv in H. rewrite Hk in H. lia. Qed.

Definition node_params_ok (nd : node) : Prop :=
  match nkind nd with
  | KSliding n _ => 1 <= n
  | _ => True
  end.

Definition port_ok (nd : node) (p : nat) : Prop := p < length (ups nd).

(* ---- list helpers ------------------------------------------------------------------- *)
Lemma lastn_all {A} n (l : list A) : length l <= n -> lastn n l = l.
Proof. intros H. unfold lastn. replace (length l - n) with 0 by lia. reflexivity. Qed.

Lemma lastn_length {A} n (l : list A) : length (lastn n l) = Nat.min (length l) n.
Proof. unfold lastn. rewrite skipn_length. lia. Qed.

Lemma tl_len {A} (l : list A) : length (tl l) = length l - 1.
Proof. destruct l; cbn; lia. Qed.

Lemma occ_hd_tl (w : list (val * md)) r :
  occ (flat_map snd w) r =
  (occ (match w with (_, hm) :: _ => hm | [] => [] end) r + occ (flat_map snd (tl w)) r)%Z.
Proof. destruct w as [|[a b] t]; cbn [flat_map tl snd]; rewrite ?occ_app; cbn [occ]; lia. Qed.

Lemma occ_flat_set_nth {A} (f : A -> md) (x dflt : A) r : forall l p, p < length l ->
  occ (flat_map f (set_nth p x l)) r
  = (occ (flat_map f l) r - occ (f (nth p l dflt)) r + occ (f x) r)%Z.
Proof.
  induction l as [|h t IH]; intros [|p] Hp; cbn [length] in Hp; try lia;
    cbn [set_nth flat_map nth]; rewrite !occ_app.
  - lia.
  - rewrite IH by lia. lia.
Qed.

Lemma occ_heads_tails (bufs : list (list (val * md))) r :
  forallb (fun b => negb (length b =? 0)) bufs = true ->
  occ (flat_map (flat_map snd) bufs) r
  = (occ (flat_map snd (map (fun b => hd (VNone, []) b) bufs)) r
     + occ (flat_map (flat_map snd) (map (@tl _) bufs)) r)%Z.
Proof.
  induction bufs as [|b t IH]; intros H; cbn [forallb] in H; [reflexivity|].
  apply andb_true_iff in H as [Hb Ht]. specialize (IH Ht).
  destruct b as [|[a mm] b']; [discriminate Hb|].
  cbn [map flat_map hd tl snd]. rewrite !occ_app, IH. lia.
Qed.

Lemma occ_flat_assoc_remove (ky : val) (l : list (val * (list val * md))) r :
  occ (flat_map (fun e => snd (snd e)) (assoc_remove ky l)) r =
  (occ (flat_map (fun e => snd (snd e)) l) r
   - occ (snd (match assoc_get ky l with Some b0 => b0 | None => ([], []) end)) r)%Z.
Proof.
  induction l as [|[k' b'] t IH]; cbn [assoc_remove assoc_get flat_map].
  - cbn. reflexivity.
  - destruct (val_eqb ky k'); cbn [flat_map snd]; rewrite ?occ_app.
    + lia.
    + rewrite IH. lia.
Qed.

Lemma index_of_lt n l : In n l -> index_of n l < length l.
Proof.
  induction l as [|h t IH]; intros H; [contradiction|]. cbn [index_of length].
  destruct (Nat.eqb_spec h n) as [E|E]; [lia|].
  destruct H as [H|H]; [contradiction|]. specialize (IH H). lia.
Qed.

(* ---- sliding_window ----------------------------------------------------------------- *)
Lemma sliding_books nd n partial s p x m acts r :
  nkind nd = KSliding n partial -> node_inv nd s ->
  update (KSliding n partial) s p x m = Some acts ->
  books acts r = (occ (held (KSliding n partial) (final_state acts s)) r - occ (held (KSliding n partial) s) r)%Z.
Proof.
  intros Hk Hinv H. unfold node_inv in Hinv. rewrite Hk in Hinv. destruct Hinv as [Hn [Hs Hw]].
  cbn [update] in H.
  assert (Ew : lastn n (st_win s ++ [(x, m)]) = st_win s ++ [(x, m)])
    by (apply lastn_all; rewrite app_length; cbn [length]; lia).
  rewrite Ew in H. clear Ew.
  destruct (partial || _).
  - destruct (_ =? n); injection H as <-;
      cbn [books final_state held set_win set_seen st_keyed st_win st_ports st_last];
      rewrite !occ_app; [|rewrite flat_map_app, occ_app; cbn [flat_map snd app occ]; rewrite app_nil_r; lia].
    pose proof (occ_hd_tl (st_win s ++ [(x, m)]) r) as E.
    rewrite flat_map_app, occ_app in E. cbn [flat_map snd app] in E. rewrite app_nil_r in E. lia.
  - injection H as <-. cbn [books final_state held set_win set_seen st_keyed st_win st_ports st_last].
    rewrite !occ_app, flat_map_app, occ_app. cbn [flat_map snd app occ]. rewrite app_nil_r. lia.
Qed.

Lemma sliding_inv nd n partial s p x m acts :
  nkind nd = KSliding n partial -> node_inv nd s ->
  update (KSliding n partial) s p x m = Some acts -> node_inv nd (final_state acts s).
Proof.
  intros Hk Hinv H. unfold node_inv in *. rewrite Hk in *. destruct Hinv as [Hn [Hs Hw]].
  cbn [update] in H.
  assert (Ew : lastn n (st_win s ++ [(x, m)]) = st_win s ++ [(x, m)])
    by (apply lastn_all; rewrite app_length; cbn [length]; lia).
  rewrite Ew in H. clear Ew.
  assert (Lv : length (lastn n (st_seen s ++ [x])) = Nat.min (S (length (st_seen s))) n)
    by (rewrite lastn_length, app_length; cbn [length]; f_equal; lia).
  assert (Lw : length (st_win s ++ [(x, m)]) = S (length (st_win s)))
    by (rewrite app_length; cbn [length]; lia).
  destruct (partial || _) eqn:Ep.
  - destruct (Nat.eqb_spec (length (st_win s ++ [(x, m)])) n) as [E|E]; injection H as <-;
      cbn [final_state set_win set_seen st_win st_seen]; rewrite ?tl_len, Lv, ?Lw; lia.
  - injection H as <-. cbn [final_state set_win set_seen st_win st_seen]. rewrite Lv, Lw.
    apply orb_false_iff in Ep as [_ Ep]. apply Nat.eqb_neq in Ep. rewrite Lv in Ep. lia.
Qed.

(* ---- zip ---------------------------------------------------------------------------- *)
Lemma zip_books lits s p x m acts r :
  p < length (st_ports s) ->
  update (KZip lits) s p x m = Some acts ->
  books acts r = (occ (held (KZip lits) (final_state acts s)) r - occ (held (KZip lits) s) r)%Z.
Proof.
  intros Hp H. cbn [update] in H.
  set (L := nth p (st_ports s) [] ++ [(x, m)]) in *.
  set (bufs' := set_nth p L (st_ports s)) in *.
  assert (EB : occ (flat_map (flat_map snd) bufs') r = (occ (flat_map (flat_map snd) (st_ports s)) r + occ m r)%Z).
  { unfold bufs'. rewrite (occ_flat_set_nth (flat_map snd) L [] r _ _ Hp). unfold L.
    rewrite flat_map_app, occ_app. cbn [flat_map snd app]. rewrite app_nil_r. lia. }
  destruct (_ && _) eqn:E; injection H as <-;
    cbn [books final_state held set_ports st_keyed st_win st_ports st_last]; rewrite !occ_app.
  - apply andb_true_iff in E as [_ E]. rewrite (occ_heads_tails bufs' r E) in EB. lia.
  - lia.
Qed.

Lemma zip_inv nd lits s p x m acts :
  nkind nd = KZip lits -> node_inv nd s ->
  update (KZip lits) s p x m = Some acts -> node_inv nd (final_state acts s).
Proof.
  intros Hk Hinv H. unfold node_inv in *. rewrite Hk in *. cbn [update] in H.
  destruct (_ && _); injection H as <-; cbn [final_state set_ports st_ports];
    rewrite ?map_length, set_nth_length; exact Hinv.
Qed.

(* ---- combine_latest ------------------------------------------------------------------ *)
Lemma combine_books eo s p x m acts r :
  p < length (st_last s) ->
  update (KCombineLatest eo) s p x m = Some acts ->
  books acts r = (occ (held (KCombineLatest eo) (final_state acts s)) r - occ (held (KCombineLatest eo) s) r)%Z.
Proof.
  intros Hp H. cbn [update] in H.
  pose proof (occ_flat_set_nth opt_md (Some (x, m)) None r _ _ Hp) as EB. cbn [opt_md] in EB.
  set (last' := set_nth p (Some (x, m)) (st_last s)) in *.
  set (rel := match nth p (st_last s) None with Some (_, om) => [ARelease om] | None => [] end) in *.
  assert (ER : books rel r = (- occ (opt_md (nth p (st_last s) None)) r)%Z).
  { unfold rel. destruct (nth p (st_last s) None) as [[? om]|]; cbn [books opt_md occ]; lia. }
  assert (FR : forall t s0, final_state (rel ++ t) s0 = final_state t s0).
  { intros t s0. unfold rel. destruct (nth p (st_last s) None) as [[? om]|]; reflexivity. }
  destruct (all_some last') as [full|]; [destruct (match eo with None => true | Some ps => _ end)|];
    injection H as <-; cbn [app books]; rewrite books_app, ER; cbn [final_state]; rewrite FR;
    cbn [books final_state held set_last st_keyed st_win st_ports st_last]; rewrite !occ_app; lia.
Qed.

Lemma combine_inv nd eo s p x m acts :
  nkind nd = KCombineLatest eo -> node_inv nd s ->
  update (KCombineLatest eo) s p x m = Some acts -> node_inv nd (final_state acts s).
Proof.
  intros Hk Hinv H. unfold node_inv in *. rewrite Hk in *. cbn [update] in H.
  set (rel := match nth p (st_last s) None with Some (_, om) => [ARelease om] | None => [] end) in *.
  assert (FR : forall t s0, final_state (rel ++ t) s0 = final_state t s0).
  { intros t s0. unfold rel. destruct (nth p (st_last s) None) as [[? om]|]; reflexivity. }
  destruct (all_some _) as [full|]; [destruct (match eo with None => true | Some ps => _ end)|];
    injection H as <-; cbn [app final_state]; rewrite FR; cbn [final_state set_last st_last];
    rewrite set_nth_length; exact Hinv.
Qed.

(* ---- partition_unique (no invariant needed) -------------------------------------------- *)
Lemma partunique_books n key keep_last : kind_books (KPartUnique n key keep_last).
Proof.
  intros s p x m acts r H. cbn [update] in H.
  set (old := assoc_get (key x) (st_keyed s)) in *.
  destruct (if keep_last then _ else _) as [pre kd] eqn:Epre.
  assert (EK : (occ (flat_map (fun e => snd (snd e)) kd) r
                = occ (flat_map (fun e => snd (snd e)) (st_keyed s)) r + occ m r + books pre r)%Z
               /\ forall t s0, final_state (pre ++ t) s0 = final_state t s0).
  { destruct keep_last.
    - injection Epre as <- <-. rewrite flat_map_app, occ_app, occ_flat_assoc_remove. fold old.
      cbn [flat_map snd app]. rewrite app_nil_r.
      destruct old as [[ov om]|]; cbn [books snd occ]; split; try reflexivity; lia.
    - destruct old as [[ov om]|]; injection Epre as <- <-; cbn [books]; (split; [|reflexivity]).
      + lia.
      + rewrite flat_map_app, occ_app. cbn [flat_map snd app]. rewrite app_nil_r. lia. }
  destruct EK as [EK FR].
  destruct (length kd =? n); injection H as <-; cbn [app books]; rewrite books_app; cbn [final_state]; rewrite FR;
    cbn [books final_state held set_keyed st_keyed st_win st_ports st_last flat_map app]; rewrite !occ_app; cbn [occ]; lia.
Qed.

(* ---- zip_latest ---------------------------------------------------------------------- *)
(* the local `fix drain` of update, as a top-level function *)
Definition zl_drain (s : nstate) (last' : list (option (val * md))) (others : list (val * md))
  : list (val * md) -> list action :=
  fix drain (b : list (val * md)) : list action :=
    match b with
    | [] => []
    | (x0, m0) :: rest =>
        ASet (set_win (set_last s (Some (x0, m0) :: tl last')) rest)
        :: AEmit (VTup (x0 :: map fst others)) (m0 ++ flat_map snd others)
        :: ARelease m0 :: drain rest
    end.

Lemma zl_drain_nil s last' others : zl_drain s last' others [] = [].
Proof. reflexivity. Qed.
Lemma zl_drain_cons s last' others x0 m0 rest :
  zl_drain s last' others ((x0, m0) :: rest) =
  ASet (set_win (set_last s (Some (x0, m0) :: tl last')) rest)
  :: AEmit (VTup (x0 :: map fst others)) (m0 ++ flat_map snd others)
  :: ARelease m0 :: zl_drain s last' others rest.
Proof. reflexivity. Qed.

Lemma update_ziplatest s port x m :
  update KZipLatest s port x m =
  let old := nth port (st_last s) None in
  let last' := set_nth port (Some (x, m)) (st_last s) in
  let buf' := if port =? 0 then st_win s ++ [(x, m)] else st_win s in
  let rel := if port =? 0 then [] else match old with Some (_, om) => [ARelease om] | None => [] end in
  let s1 := set_win (set_last s last') buf' in
  match all_some last' with
  | Some full => Some ([ARetain m] ++ rel ++ [ASet s1] ++ zl_drain s last' (tl full) buf')
  | None => Some ([ARetain m] ++ rel ++ [ASet s1])
  end.
Proof. reflexivity. Qed.

Lemma zl_drain_books s last' others r : forall b,
  books (zl_drain s last' others b) r = (- occ (flat_map snd b) r)%Z.
Proof.
  induction b as [|[x0 m0] rest IH]; rewrite ?zl_drain_nil, ?zl_drain_cons; cbn [books flat_map snd]; [reflexivity|].
  rewrite IH, occ_app. lia.
Qed.

Lemma zl_drain_held s last' others r : forall b s0,
  st_win s0 = b -> tl (st_last s0) = tl last' ->
  occ (held KZipLatest (final_state (zl_drain s last' others b) s0)) r = occ (flat_map opt_md (tl last')) r.
Proof.
  induction b as [|[x0 m0] rest IH]; intros s0 Hw Hl; rewrite ?zl_drain_nil, ?zl_drain_cons; cbn [final_state].
  - cbn [held]. rewrite Hw, Hl. reflexivity.
  - apply IH; reflexivity.
Qed.

Lemma zl_drain_last s last' others : forall b s0,
  length (st_last s0) = length last' -> 1 <= length last' ->
  length (st_last (final_state (zl_drain s last' others b) s0)) = length last'.
Proof.
  induction b as [|[x0 m0] rest IH]; intros s0 Hl H1; rewrite ?zl_drain_nil, ?zl_drain_cons; cbn [final_state]; [exact Hl|].
  apply IH; [|exact H1]. cbn [st_last set_win set_last length]. rewrite tl_len. lia.
Qed.

Lemma tl_set_nth_S {A} (x : A) l p : tl (set_nth (S p) x l) = set_nth p x (tl l).
Proof. destruct l as [|h t]; [destruct p; reflexivity | reflexivity]. Qed.

Lemma nth_tl {A} (l : list A) p dflt : nth p (tl l) dflt = nth (S p) l dflt.
Proof. destruct l as [|h t]; [destruct p; reflexivity | reflexivity]. Qed.

Lemma ziplatest_books s p x m acts r :
  p < length (st_last s) ->
  update KZipLatest s p x m = Some acts ->
  books acts r = (occ (held KZipLatest (final_state acts s)) r - occ (held KZipLatest s) r)%Z.
Proof.
  intros Hp H. rewrite update_ziplatest in H. cbv zeta in H.
  set (last' := set_nth p (Some (x, m)) (st_last s)) in *.
  set (buf' := if p =? 0 then st_win s ++ [(x, m)] else st_win s) in *.
  set (rel := if p =? 0 then [] else match nth p (st_last s) None with Some (_, om) => [ARelease om] | None => [] end) in *.
  set (s1 := set_win (set_last s last') buf') in *.
  assert (FR : forall t s0, final_state (rel ++ t) s0 = final_state t s0).
  { intros t s0. unfold rel. destruct (p =? 0); [reflexivity|].
    destruct (nth p (st_last s) None) as [[? om]|]; reflexivity. }
  (* the change of what is held, apart from the drained buffer *)
  assert (EH : (occ m r + books rel r =
                occ (flat_map snd buf') r + occ (flat_map opt_md (tl last')) r
                - occ (flat_map snd (st_win s)) r - occ (flat_map opt_md (tl (st_last s))) r)%Z).
  { unfold rel, buf', last'. destruct p as [|p']; cbn [Nat.eqb].
    - destruct (st_last s) as [|h t]; [cbn [length] in Hp; lia|]. cbn [set_nth tl books].
      rewrite flat_map_app, occ_app. cbn [flat_map snd app]. rewrite app_nil_r. lia.
    - rewrite tl_set_nth_S.
      assert (Hp' : p' < length (tl (st_last s))) by (rewrite tl_len; lia).
      rewrite (occ_flat_set_nth opt_md (Some (x, m)) None r _ _ Hp'). rewrite nth_tl. cbn [opt_md].
      destruct (nth (S p') (st_last s) None) as [[? om]|]; cbn [books opt_md occ]; lia. }
  destruct (all_some last') as [full|]; injection H as <-; cbn [app books]; rewrite books_app;
    cbn [final_state]; rewrite FR; cbn [app books final_state].
  - rewrite zl_drain_books.
    rewrite (zl_drain_held s last' (tl full) r buf' s1) by reflexivity.
    cbn [held]. rewrite occ_app. lia.
  - unfold s1 at 1. cbn [held st_win st_last set_win set_last]. rewrite !occ_app. lia.
Qed.

Lemma ziplatest_inv nd s p x m acts :
  nkind nd = KZipLatest -> node_inv nd s -> p < length (ups nd) ->
  update KZipLatest s p x m = Some acts -> node_inv nd (final_state acts s).
Proof.
  intros Hk Hinv Hp H. unfold node_inv in *. rewrite Hk in *.
  rewrite update_ziplatest in H. cbv zeta in H.
  set (last' := set_nth p (Some (x, m)) (st_last s)) in *.
  set (buf' := if p =? 0 then st_win s ++ [(x, m)] else st_win s) in *.
  set (rel := if p =? 0 then [] else match nth p (st_last s) None with Some (_, om) => [ARelease om] | None => [] end) in *.
  set (s1 := set_win (set_last s last') buf') in *.
  assert (FR : forall t s0, final_state (rel ++ t) s0 = final_state t s0).
  { intros t s0. unfold rel. destruct (p =? 0); [reflexivity|].
    destruct (nth p (st_last s) None) as [[? om]|]; reflexivity. }
  assert (HL : length last' = length (ups nd)) by (unfold last'; rewrite set_nth_length; exact Hinv).
  destruct (all_some last') as [full|]; injection H as <-; cbn [app final_state]; rewrite FR; cbn [app final_state].
  - rewrite zl_drain_last; [exact HL | reflexivity | lia].
  - exact HL.
Qed.

(* ---- the per-kind obligation, every kind, under the invariant ---------------------------- *)
Theorem kind_books_inv nd s p x m acts r :
  node_inv nd s -> p < length (ups nd) ->
  update (nkind nd) s p x m = Some acts ->
  books acts r = (occ (held (nkind nd) (final_state acts s)) r - occ (held (nkind nd) s) r)%Z.
Proof.
  intros Hinv Hp H.
  destruct (books_kind_ok (nkind nd)) eqn:Hb; [eapply kind_books_ok; eauto|].
  destruct (nkind nd) eqn:Hk; try discriminate Hb.
  - eapply partunique_books; eauto.
  - eapply sliding_books; eauto.
  - apply (zip_books literals s p x m acts r); [|exact H].
    unfold node_inv in Hinv. rewrite Hk in Hinv. rewrite Hinv. exact Hp.
  - apply (combine_books emit_on s p x m acts r); [|exact H].
    unfold node_inv in Hinv. rewrite Hk in Hinv. rewrite Hinv. exact Hp.
  - apply (ziplatest_books s p x m acts r); [|exact H].
    unfold node_inv in Hinv. rewrite Hk in Hinv. rewrite Hinv. exact Hp.
Qed.

Theorem node_inv_preserved nd s p x m acts :
  node_inv nd s -> p < length (ups nd) ->
  update (nkind nd) s p x m = Some acts -> node_inv nd (final_state acts s).
Proof.
  intros Hinv Hp H. destruct (nkind nd) eqn:Hk; try (unfold node_inv; rewrite Hk; exact I).
  - eapply sliding_inv; eauto.
  - eapply zip_inv; eauto.
  - eapply combine_inv; eauto.
  - eapply ziplatest_inv; eauto.
Qed.

Theorem node_inv_init nd : node_params_ok nd -> node_inv nd (init_state (nkind nd) (length (ups nd))).
Proof.
  unfold node_params_ok, node_inv. intros H. destruct (nkind nd); try exact I.
  - cbn. lia.
  - cbn. apply repeat_length.
  - cbn. apply repeat_length.
  - cbn. apply repeat_length.
Qed.

(* ---- the world invariant ------------------------------------------------------------- *)
Definition WInv (g : graph) (w : world) : Prop :=
  WF g w /\ forall d, d < length g -> node_inv (gnode g d) (nst w d).

(* while node n is running its actions its own state may be in between (a sliding window is
   full between its append and its pop): only the nodes above n are required to be in shape;
   by the DAG order these are the only ones a push from n can reach *)
Definition WInvAbove (g : graph) (n : nat) (w : world) : Prop :=
  WF g w /\ forall d, n < d -> d < length g -> node_inv (gnode g d) (nst w d).

Lemma WInv_above g n w : WInv g w -> WInvAbove g n w.
Proof. intros [A B]. split; [exact A|]. intros d _ Hd. apply B. exact Hd. Qed.

Lemma WInvAbove_mono g n n' w : n <= n' -> WInvAbove g n w -> WInvAbove g n' w.
Proof. intros Hn [A B]. split; [exact A|]. intros d H1 H2. apply B; lia. Qed.

Lemma WInvAbove_retain g n w m k : WInvAbove g n w -> WInvAbove g n (retain w m k).
Proof. intros [A B]. split; [apply WF_retain; exact A|]. intros d H1 H2. rewrite nst_retain. auto. Qed.

Lemma WInvAbove_release g n w m k : WInvAbove g n w -> WInvAbove g n (release w m k).
Proof. intros [A B]. split; [apply WF_release; exact A|]. intros d H1 H2. rewrite nst_release. auto. Qed.

Lemma fold_state_inv nd : forall l s,
  node_inv nd s -> (forall a, In a l -> fst (fst a) < length (ups nd)) ->
  fold_ok (nkind nd) s l = true -> node_inv nd (fold_state (nkind nd) s l).
Proof.
  induction l as [|[[p x] m] t IH]; intros s Hinv Hp Hok; [exact Hinv|].
  cbn [fold_ok fst snd] in Hok. unfold fold_state. cbn [fold_left upd_state].
  destruct (update (nkind nd) s p x m) as [acts|] eqn:Eu; [|discriminate Hok].
  assert (E : upd_state (nkind nd) s (p, x, m) = final_state acts s) by (cbn [upd_state]; rewrite Eu; reflexivity).
  rewrite E in Hok. apply IH; [|intros a Ha; apply Hp; right; exact Ha | exact Hok].
  eapply node_inv_preserved; eauto. apply (Hp (p, x, m)). left. reflexivity.
Qed.

Lemma arr_ports g new d :
  (forall e, In e new -> is_down g (e_src e) (e_dst e) = true) ->
  forall a, In a (arr g new d) -> fst (fst a) < length (ups (gnode g d)).
Proof.
  intros Hal a Ha. unfold arr in Ha. apply in_map_iff in Ha as [e [<- He]].
  apply filter_In in He as [He Hd]. apply Nat.eqb_eq in Hd. cbn [fst].
  apply index_of_lt. specialize (Hal e He). apply is_down_In in Hal as [_ Hal]. rewrite Hd in Hal. exact Hal.
Qed.

(* a node that is in shape before a (piece of a) push is in shape after it *)
Lemma segment_node_inv g n depth w new w' d :
  Segment g n depth w new w' -> node_inv (gnode g d) (nst w d) -> node_inv (gnode g d) (nst w' d).
Proof.
  intros S Hinv. rewrite (seg_state _ _ _ _ _ _ S d).
  apply fold_state_inv; [exact Hinv | apply arr_ports; exact (seg_along _ _ _ _ _ _ S) | exact (seg_ok _ _ _ _ _ _ S d)].
Qed.

Lemma segment_inv_above g n k depth w new w' :
  Segment g n depth w new w' -> WInvAbove g k w -> WInvAbove g k w'.
Proof.
  intros S [A B]. split; [exact (seg_wf _ _ _ _ _ _ S)|].
  intros d H1 H2. eapply segment_node_inv; eauto.
Qed.

(* ---- excess is preserved exactly, invariant threaded ------------------------------------ *)
Definition ExcessSpecI (g : graph) (emitfrom : nat -> world -> val -> md -> world * status) : Prop :=
  forall d w y my w', WInvAbove g d w -> emitfrom d w y my = (w', SOk) ->
                      forall r, excess g w' r = excess g w r.

Lemma run_actions_excess_inv g emitfrom depth d coro :
  EmitSpec g emitfrom (S depth) -> ExcessSpecI g emitfrom -> d < length g ->
  forall acts w w',
    (forall st, In (ASet st) acts -> permanent g d = true -> st_detached st = false) ->
    WInvAbove g d w ->
    fold_left (do_action (emitfrom d) coro d) acts (w, SOk) = (w', SOk) ->
    WInvAbove g d w' /\ nst w' d = final_state acts (nst w d) /\
    forall r, excess g w' r =
      (excess g w r + books acts r
       - (occ (held (nkind (gnode g d)) (final_state acts (nst w d))) r - occ (held (nkind (gnode g d)) (nst w d)) r))%Z.
Proof.
  intros HE HX Hd. induction acts as [|a t IH]; intros w w' Hset Hwi H; cbn [fold_left] in H.
  - injection H as <-. split; [exact Hwi|]. split; [reflexivity|]. intros r. cbn. lia.
  - assert (Hset' : forall st, In (ASet st) t -> permanent g d = true -> st_detached st = false)
      by (intros st Hin; apply Hset; right; exact Hin).
    pose proof Hwi as [Hwf Hab].
    unfold do_action at 2 in H.
    replace (if coro then status_ok SOk else status_go SOk) with true in H by (destruct coro; reflexivity).
    destruct a as [st|mm|mm|y my].
    + set (w1 := wset_sts w (set_nth d st (sts w))) in *.
      assert (Hlen : d < length (sts w)) by (destruct Hwf as [-> _]; exact Hd).
      assert (Hwi1 : WInvAbove g d w1).
      { split.
        - destruct Hwf as [A B]. split; [unfold w1; cbn; rewrite set_nth_length; exact A|].
          intros dd Hp. destruct (Nat.eq_dec dd d) as [->|Hne].
          + unfold w1. rewrite nst_wset_eq by exact Hlen. apply Hset; [left; reflexivity | exact Hp].
          + unfold w1. rewrite nst_wset_neq by exact Hne. auto.
        - intros dd H1 H2. unfold w1. rewrite nst_wset_neq by lia. apply Hab; assumption. }
      destruct (IH w1 w' Hset' Hwi1 H) as [A [B C]].
      assert (E1 : nst w1 d = st) by (unfold w1; apply nst_wset_eq; exact Hlen).
      split; [exact A|]. split; [rewrite B, E1; reflexivity|].
      intros r. rewrite C, E1. cbn [books final_state]. unfold excess.
      unfold w1 at 1 2. cbn [cnt wset_sts]. rewrite holders_set by (destruct Hwf; auto). lia.
    + destruct (IH (retain w mm 1) w' Hset' (WInvAbove_retain _ _ _ _ _ Hwi) H) as [A [B C]].
      split; [exact A|]. split; [rewrite B, nst_retain; reflexivity|].
      intros r. rewrite C, nst_retain. cbn [books final_state]. unfold excess.
      rewrite cnt_retain, holders_retain. lia.
    + destruct (IH (release w mm 1) w' Hset' (WInvAbove_release _ _ _ _ _ Hwi) H) as [A [B C]].
      split; [exact A|]. split; [rewrite B, nst_release; reflexivity|].
      intros r. rewrite C, nst_release. cbn [books final_state]. unfold excess.
      rewrite cnt_release, holders_release. lia.
    + destruct (emitfrom d w y my) as [w1 s1] eqn:E.
      pose proof (actions_ok_inv _ _ _ _ _ _ _ H) as Hs. apply status_join_ok in Hs. destruct Hs as [_ Hs]. subst s1.
      cbn [status_join] in H.
      destruct (HE d w y my w1 Hwf E) as [n1 [S1 _]].
      destruct (IH w1 w' Hset' (segment_inv_above _ _ _ _ _ _ _ S1 Hwi) H) as [A [B C]].
      assert (E1 : nst w1 d = nst w d) by (apply (seg_low _ _ _ _ _ _ S1); lia).
      split; [exact A|]. split; [rewrite B, E1; reflexivity|].
      intros r. rewrite C, E1, (HX d w y my w1 Hwi E r). cbn [books final_state]. lia.
Qed.

Lemma deliver_excess_inv g emitfrom depth n x m d w w' :
  wf_dag g -> EmitSpec g emitfrom (S depth) -> ExcessSpecI g emitfrom -> WInvAbove g n w ->
  is_down g n d = true ->
  deliver emitfrom g depth n x m (w, SOk) d = (w', SOk) ->
  WInvAbove g n w' /\ forall r, excess g w' r = (excess g w r - occ m r)%Z.
Proof.
  intros Hdag HE HX Hwi Hdn H.
  destruct (is_down_In _ _ _ Hdn) as [Hd Hin]. pose proof (Hdag d n Hd Hin) as Hnd.
  pose proof Hwi as [Hwf Hab].
  split.
  { destruct (deliver_spec _ _ _ _ _ _ _ _ _ Hdag HE Hwf Hdn H) as [rest [S _]].
    eapply segment_inv_above; eauto. }
  unfold deliver in H. cbn [status_go] in H.
  set (e0 := {| e_depth := depth; e_src := n; e_dst := d; e_val := x; e_md := m |}) in *.
  set (w1 := wlog w e0) in *.
  assert (Hn1 : forall i, nst w1 i = nst w i) by reflexivity.
  assert (Hwf1 : WF g w1) by (destruct Hwf as [A B]; split; [exact A | intros dd Hp; rewrite Hn1; auto]).
  assert (Hwi1 : WInvAbove g d w1).
  { split; [exact Hwf1|]. intros dd H1 H2. rewrite Hn1. apply Hab; lia. }
  assert (Hinv : node_inv (gnode g d) (nst w1 d)) by (rewrite Hn1; apply Hab; assumption).
  destruct (update (nkind (gnode g d)) (nst w1 d) (index_of n (ups (gnode g d))) x m) as [acts|] eqn:Eu;
    [|destruct (is_coroutine _); discriminate H].
  destruct (run_actions (emitfrom d) (is_coroutine (nkind (gnode g d))) d acts w1) as [w2 s2] eqn:Er.
  destruct s2; try discriminate H; [|destruct (is_coroutine _); discriminate H].
  injection H as <-. unfold run_actions in Er.
  assert (Hset : forall st, In (ASet st) acts -> permanent g d = true -> st_detached st = false).
  { intros st Hst Hp. eapply update_detached; eauto. destruct Hwf1 as [_ B]. apply B. exact Hp. }
  destruct (run_actions_excess_inv g emitfrom depth d _ HE HX Hd acts w1 w2 Hset Hwi1 Er) as [A [B C]].
  intros r. unfold excess at 1. rewrite cnt_release, holders_release.
  specialize (C r). unfold excess at 1 in C.
  rewrite (kind_books_inv (gnode g d) _ _ _ _ _ r Hinv (index_of_lt _ _ Hin) Eu) in C.
  assert (Ew : excess g w1 r = excess g w r) by (unfold excess; f_equal).
  rewrite Ew in C. lia.
Qed.

(* one turn of the loop of _emit: the hand-over, or the release alone for a child that left since the snapshot *)
Lemma hand_excess_inv g emitfrom depth n x m d w w' :
  wf_dag g -> EmitSpec g emitfrom (S depth) -> ExcessSpecI g emitfrom -> WInvAbove g n w ->
  is_down g n d = true ->
  hand emitfrom g depth n x m (w, SOk) d = (w', SOk) ->
  WInvAbove g n w' /\ forall r, excess g w' r = (excess g w r - occ m r)%Z.
Proof.
  intros Hdag HE HX Hwi Hdn H.
  destruct (hand_cases emitfrom g depth n x m w SOk d) as [E|[_ [_ E]]]; rewrite E in H.
  - eapply deliver_excess_inv; eauto.
  - injection H as <-. split; [apply WInvAbove_release; exact Hwi|].
    intros r. unfold excess. rewrite cnt_release, holders_release. lia.
Qed.

Lemma hand_all_excess_inv g emitfrom depth n x m :
  wf_dag g -> EmitSpec g emitfrom (S depth) -> ExcessSpecI g emitfrom ->
  forall l w w', WInvAbove g n w -> (forall d, In d l -> is_down g n d = true) ->
  fold_left (hand emitfrom g depth n x m) l (w, SOk) = (w', SOk) ->
  WInvAbove g n w' /\ forall r, excess g w' r = (excess g w r - Z.of_nat (length l) * occ m r)%Z.
Proof.
  intros Hdag HE HX. induction l as [|d t IH]; intros w w' Hwi Hl H; cbn [fold_left] in H.
  - injection H as <-. split; [exact Hwi|]. intros r. cbn. lia.
  - destruct (hand emitfrom g depth n x m (w, SOk) d) as [w1 s1] eqn:E1.
    pose proof (hand_ok_inv _ _ _ _ _ _ _ _ _ _ H) as ->.
    destruct (hand_excess_inv _ _ _ _ _ _ _ _ _ Hdag HE HX Hwi (Hl d (or_introl eq_refl)) E1) as [A1 B1].
    destruct (IH w1 w' A1 (fun d' Hd' => Hl d' (or_intror Hd')) H) as [A2 B2].
    split; [exact A2|]. intros r. rewrite B2, B1. cbn [length]. lia.
Qed.

Theorem push_excess_inv g : wf_dag g ->
  forall fuel depth, ExcessSpecI g (fun d => push fuel g depth d).
Proof.
  intros Hdag. induction fuel as [|fuel IH]; intros depth d w y my w' Hwi H r; cbn [push] in H; [discriminate|].
  destruct (hand_all_excess_inv g _ depth d y my Hdag (push_spec g Hdag fuel (S depth)) (IH (S depth))
              (downs g w d) _ w' (WInvAbove_retain _ _ _ _ _ Hwi)
              (fun dd Hdd => downs_is_down _ _ _ _ Hdd) H) as [_ B].
  rewrite B. unfold excess. rewrite cnt_retain, holders_retain. lia.
Qed.

(* every exception-free push, from any world in which every node is in shape, keeps every node
   in shape and preserves  count - holders  exactly: no restriction on the node kinds *)
Theorem push_excess_full g : wf_dag g -> (forall d, d < length g -> node_params_ok (gnode g d)) ->
  forall fuel depth d w y my w', WInv g w -> push fuel g depth d w y my = (w', SOk) ->
    WInv g w' /\ forall r, excess g w' r = excess g w r.
Proof.
  intros Hdag _ fuel depth d w y my w' Hwi H. split.
  - destruct Hwi as [Hwf Hall].
    destruct (push_spec g Hdag fuel depth d w y my w' Hwf H) as [new [S _]].
    split; [exact (seg_wf _ _ _ _ _ _ S)|]. intros dd Hdd. eapply segment_node_inv; eauto.
  - apply (push_excess_inv g Hdag fuel depth d w y my w' (WInv_above _ _ _ Hwi) H).
Qed.

(* ---- whole runs ---------------------------------------------------------------------- *)
Lemma WInv_init g : (forall d, d < length g -> node_params_ok (gnode g d)) -> WInv g (init_world g).
Proof.
  intros Hp. split; [apply WF_init|]. intros d Hd. rewrite nst_init. unfold init_st.
  apply node_inv_init. apply Hp. exact Hd.
Qed.

Theorem exec_excess_full g : wf_dag g -> (forall d, d < length g -> node_params_ok (gnode g d)) ->
  forall evs w w', WInv g w -> emits_only evs ->
  exec_from (fuel_for g) g w evs = (w', SOk) ->
  WInv g w' /\ forall r, excess g w' r = excess g w r.
Proof.
  intros Hdag Hpar.
  induction evs as [|e rest IH]; intros w w' Hwi Hev H; cbn [exec_from] in H.
  - injection H as <-. split; [exact Hwi | reflexivity].
  - destruct (step (fuel_for g) g w e) as [w1 s1] eqn:Es. destruct s1; try discriminate H.
    pose proof (Hev e (or_introl eq_refl)) as He. destruct e as [n x m|n]; [|contradiction].
    cbn [step] in Es.
    destruct (push_excess_full g Hdag Hpar _ 0 n w x m w1 Hwi Es) as [A1 B1].
    destruct (IH w1 w' A1 (fun e' He' => Hev e' (or_intror He')) H) as [A B].
    split; [exact A|]. intros r. rewrite B. apply B1.
Qed.

(* C05 for every pipeline: at every quiescent point of an exception-free run the count of every
   counter equals the number of legitimate holders, whatever node kinds the graph contains *)
Theorem balance_at_quiescence_full g evs w :
  wf_dag g -> (forall d, d < length g -> node_params_ok (gnode g d)) ->
  emits_only evs -> exec g evs = (w, SOk) ->
  forall r, cnt w r = holders g w r.
Proof.
  intros Hdag Hpar Hev H r.
  destruct (exec_excess_full g Hdag Hpar evs (init_world g) w (WInv_init g Hpar) Hev H) as [_ B].
  specialize (B r). unfold excess in B. rewrite holders_init in B. cbn [init_world cnt] in B. lia.
Qed.

Corollary count_nonneg_full g evs w :
  wf_dag g -> (forall d, d < length g -> node_params_ok (gnode g d)) ->
  emits_only evs -> exec g evs = (w, SOk) ->
  forall r, (0 <= cnt w r)%Z.
Proof. intros A B C D r. rewrite (balance_at_quiescence_full g evs w A B C D r). apply holders_nonneg. Qed.

Corollary left_pipeline_zero_full g evs w r :
  wf_dag g -> (forall d, d < length g -> node_params_ok (gnode g d)) ->
  emits_only evs -> exec g evs = (w, SOk) ->
  (forall d, d < length g -> occ (held (nkind (gnode g d)) (nst w d)) r = 0%Z) -> cnt w r = 0%Z.
Proof.
  intros A B C D Hh. rewrite (balance_at_quiescence_full g evs w A B C D r).
  unfold holders. assert (G : forall l, (forall d, In d l -> d < length g) ->
     fold_right (fun d a => (occ (held (nkind (gnode g d)) (nst w d)) r + a)%Z) 0%Z l = 0%Z).
  { induction l as [|d t IH]; intros Hl; cbn [fold_right]; [reflexivity|].
    rewrite IH by (intros d' Hd'; apply Hl; right; exact Hd'). rewrite Hh by (apply Hl; left; reflexivity). reflexivity. }
  apply G. intros d Hd. apply in_seq in Hd. lia.
Qed.

(* ---- why the invariant is needed: `kind_books` (arbitrary state and port) is false ------ *)
(* These refute the UNCONDITIONAL obligation of RefCount.v only; under node_inv every kind is
   proved above, so no kind is excluded from the final theorems.  partition_unique needs no
   invariant at all (partunique_books). *)
Definition rc (i : nat) : md := [{| mid := i; mref := true |}].

(* a metadata deque that is already full drops its oldest entry without releasing it *)
Lemma sliding_books_needs_inv : ~ kind_books (KSliding 1 false).
Proof.
  intros H.
  specialize (H (set_seen (set_win st_empty [(VInt 0, rc 0)]) [VInt 0]) 0 (VInt 1) (rc 1) _ 0 eq_refl).
  vm_compute in H. discriminate H.
Qed.

(* a port outside the arity: set_nth is a no-op, the retained element is stored nowhere *)
Lemma zip_books_needs_inv : ~ kind_books (KZip []).
Proof. intros H. specialize (H st_empty 0 (VInt 1) (rc 0) _ 0 eq_refl). vm_compute in H. discriminate H. Qed.

Lemma combine_books_needs_inv : ~ kind_books (KCombineLatest None).
Proof. intros H. specialize (H st_empty 0 (VInt 1) (rc 0) _ 0 eq_refl). vm_compute in H. discriminate H. Qed.

Lemma ziplatest_books_needs_inv : ~ kind_books KZipLatest.
Proof. intros H. specialize (H st_empty 1 (VInt 1) (rc 0) _ 0 eq_refl). vm_compute in H. discriminate H. Qed.

(* sliding_window(0): the element is retained, emitted in an empty window and never released *)
Lemma sliding_zero_leaks : ~ kind_books (KSliding 0 false).
Proof. intros H. specialize (H st_empty 0 (VInt 1) (rc 0) _ 0 eq_refl). vm_compute in H. discriminate H. Qed.

(* ---- a concrete pipeline with all five kinds ---------------------------------------------- *)
Definition ex_g : graph :=
  [ {| nkind := KSource; ups := [] |};
    {| nkind := KSource; ups := [] |};
    {| nkind := KSliding 2 false; ups := [0] |};
    {| nkind := KZip []; ups := [0; 1] |};
    {| nkind := KCombineLatest None; ups := [0; 1] |};
    {| nkind := KZipLatest; ups := [0; 1] |};
    {| nkind := KPartUnique 2 (fun v => v) true; ups := [0] |};
    {| nkind := KSink (fun _ => Some tt); ups := [2; 3; 4; 5; 6] |} ].

Definition ex_evs : list event :=
  [ EEmit 0 (VInt 1) (rc 0); EEmit 0 (VInt 2) (rc 1); EEmit 1 (VInt 10) (rc 2);
    EEmit 0 (VInt 3) (rc 3); EEmit 0 (VInt 3) (rc 4); EEmit 1 (VInt 20) (rc 5);
    EEmit 1 (VInt 30) (rc 6); EEmit 0 (VInt 4) (rc 7); EEmit 0 (VInt 5) (rc 8) ].

Lemma ex_g_dag : wf_dag ex_g.
Proof. apply wf_dagb_spec. vm_compute. reflexivity. Qed.

Lemma ex_g_params : forall d, d < length ex_g -> node_params_ok (gnode ex_g d).
Proof.
  intros d Hd. do 8 (destruct d as [|d]; [unfold node_params_ok; cbn; first [exact I | lia]|]).
  cbn in Hd. lia.
Qed.

Lemma ex_evs_emits : emits_only ex_evs.
Proof. intros e He. cbn in He. repeat (destruct He as [<-|He]; [exact I|]). contradiction. Qed.

Example books_full_nonvacuous :
  wf_dag ex_g /\ (forall d, d < length ex_g -> node_params_ok (gnode ex_g d)) /\ emits_only ex_evs /\
  snd (exec ex_g ex_evs) = SOk /\
  (* counters 0..9 and the number of holders of each, computed *)
  map (cnt (fst (exec ex_g ex_evs))) (seq 0 10) = [0; 0; 0; 0; 1; 0; 2; 1; 4; 0]%Z /\
  map (holders ex_g (fst (exec ex_g ex_evs))) (seq 0 10) = [0; 0; 0; 0; 1; 0; 2; 1; 4; 0]%Z /\
  (* who holds what: one row per node, one column per counter *)
  map (fun d => map (occ (held (nkind (gnode ex_g d)) (nst (fst (exec ex_g ex_evs)) d))) (seq 0 9)) (seq 2 5)
  = [[0; 0; 0; 0; 0; 0; 0; 0; 1];       (* sliding_window: the last element *)
     [0; 0; 0; 0; 1; 0; 0; 1; 1];       (* zip: port 0 is three elements ahead *)
     [0; 0; 0; 0; 0; 0; 1; 0; 1];       (* combine_latest: the latest of each port *)
     [0; 0; 0; 0; 0; 0; 1; 0; 0];       (* zip_latest: the latest of the non-lossless port *)
     [0; 0; 0; 0; 0; 0; 0; 0; 1]]%Z /\  (* partition_unique: one key of the next pair *)
  (* ... and by the theorem, for every counter *)
  (forall r, cnt (fst (exec ex_g ex_evs)) r = holders ex_g (fst (exec ex_g ex_evs)) r).
Proof.
  split; [exact ex_g_dag|]. split; [exact ex_g_params|]. split; [exact ex_evs_emits|].
  split; [vm_compute; reflexivity|]. split; [vm_compute; reflexivity|]. split; [vm_compute; reflexivity|].
  split; [vm_compute; reflexivity|].
  apply (balance_at_quiescence_full ex_g ex_evs _ ex_g_dag ex_g_params ex_evs_emits).
  destruct (exec ex_g ex_evs) as [w s] eqn:E. cbn [fst]. f_equal.
  change s with (snd (w, s)). rewrite <- E. vm_compute. reflexivity.
Qed.

Print Assumptions kind_books_inv.
Print Assumptions node_inv_preserved.
Print Assumptions push_excess_full.
Print Assumptions balance_at_quiescence_full.
Print Assumptions count_nonneg_full.
Print Assumptions books_full_nonvacuous.
