(* Documented list-level meaning of node kinds, and the proof that folding the node's
   update over any arrival sequence produces exactly that (fold_outs is what
   pipeline_dataflow says flows on the node's outgoing edges). *)
From Coq Require Import List ZArith Bool Lia Arith.
From SZ Require Import Base.Values Sync.Nodes Sync.Pipeline Sync.PushSpec.
Import ListNotations.
Close Scope Z_scope.
Open Scope nat_scope.

Definition aval (a : arrival) : val := snd (fst a).
Definition amd (a : arrival) : md := snd a.

(* ---- one-to-one and filtering nodes ------------------------------------------ *)
Lemma sem_identity k s l : k = KSource \/ k = KUnion ->
  fold_outs k s l = map (fun a => (aval a, amd a)) l.
Proof.
  intros Hk. revert s. induction l as [|[[p x] m] t IH]; intros s; cbn [fold_outs map]; [reflexivity|].
  destruct Hk as [-> | ->]; cbn; f_equal; apply IH.
Qed.

Definition map_sem (f : val -> option val) (l : list arrival) : list (val * md) :=
  flat_map (fun a => match f (aval a) with Some y => [(y, amd a)] | None => [] end) l.

Lemma sem_map f s l : fold_outs (KMap f) s l = map_sem f l.
Proof.
  revert s. induction l as [|[[p x] m] t IH]; intros s; cbn [fold_outs map_sem flat_map]; [reflexivity|].
  unfold upd_outs, upd_state, aval, amd; cbn. destruct (f x); cbn; rewrite IH; reflexivity.
Qed.

Definition filter_sem (p : val -> option bool) (l : list arrival) : list (val * md) :=
  flat_map (fun a => match p (aval a) with Some true => [(aval a, amd a)] | _ => [] end) l.

Lemma sem_filter p s l : fold_outs (KFilter p) s l = filter_sem p l.
Proof.
  revert s. induction l as [|[[q x] m] t IH]; intros s; cbn [fold_outs filter_sem flat_map]; [reflexivity|].
  unfold upd_outs, upd_state, aval, amd; cbn. destruct (p x) as [[|]|]; cbn; rewrite IH; reflexivity.
Qed.

Definition starmap_sem (f : list val -> option val) (l : list arrival) : list (val * md) :=
  flat_map (fun a => match aval a with
                     | VTup args => match f args with Some y => [(y, amd a)] | None => [] end
                     | _ => [] end) l.

Lemma sem_starmap f s l : fold_outs (KStarmap f) s l = starmap_sem f l.
Proof.
  revert s. induction l as [|[[q x] m] t IH]; intros s; cbn [fold_outs starmap_sem flat_map]; [reflexivity|].
  unfold upd_outs, upd_state, aval, amd; cbn. destruct x; cbn; try (rewrite IH; reflexivity).
  destruct (f l); cbn; rewrite IH; reflexivity.
Qed.

Definition pluck_one_sem (i : nat) (l : list arrival) : list (val * md) :=
  flat_map (fun a => match py_index (aval a) i with Some y => [(y, amd a)] | None => [] end) l.

Lemma sem_pluck_one i s l : fold_outs (KPluck (PickOne i)) s l = pluck_one_sem i l.
Proof.
  revert s. induction l as [|[[q x] m] t IH]; intros s; cbn [fold_outs pluck_one_sem flat_map]; [reflexivity|].
  unfold upd_outs, upd_state, aval, amd; cbn. destruct (py_index x i); cbn; rewrite IH; reflexivity.
Qed.

Lemma sem_sink f s l : fold_outs (KSink f) s l = [].
Proof.
  revert s. induction l as [|[[q x] m] t IH]; intros s; cbn [fold_outs]; [reflexivity|].
  unfold upd_outs, upd_state; cbn. destruct (f x); cbn; apply IH.
Qed.

(* flatten: every piece in order; the metadata of the input rides on the LAST piece only *)
Definition flatten_pieces (x : val) (m : md) : list (val * md) :=
  match items x with
  | Some [] | None => []
  | Some l => map (fun y => (y, [])) (removelast l) ++ [(last l VNone, m)]
  end.

Definition flatten_sem (l : list arrival) : list (val * md) :=
  flat_map (fun a => flatten_pieces (aval a) (amd a)) l.

Lemma outs_app a b : outs (a ++ b) = outs a ++ outs b.
Proof. induction a as [|[st|mm|mm|y my] t IH]; cbn; rewrite ?IH; reflexivity. Qed.
Lemma outs_map_emit (l : list val) : outs (map (fun y => AEmit y []) l) = map (fun y => (y, [])) l.
Proof. induction l as [|h t IH]; cbn; [reflexivity | rewrite IH; reflexivity]. Qed.
Lemma final_state_app a b s : final_state (a ++ b) s = final_state b (final_state a s).
Proof. revert s. induction a as [|[st|mm|mm|y my] t IH]; intros s0; cbn; auto. Qed.
Lemma final_state_map_emit (l : list val) s : final_state (map (fun y => AEmit y []) l) s = s.
Proof. induction l; cbn; auto. Qed.

Lemma sem_flatten s l : fold_outs KFlatten s l = flatten_sem l.
Proof.
  revert s. induction l as [|[[q x] m] t IH]; intros s; cbn [fold_outs flatten_sem flat_map]; [reflexivity|].
  unfold upd_outs, upd_state, flatten_pieces, aval, amd; cbn.
  destruct (items x) as [[|y r]|]; cbn [outs final_state]; try (rewrite IH; reflexivity).
  rewrite outs_app, outs_map_emit, final_state_app, final_state_map_emit. cbn. rewrite IH. reflexivity.
Qed.

Lemma flatten_pieces_vals x m l : items x = Some l -> map fst (flatten_pieces x m) = l.
Proof.
  intros H. unfold flatten_pieces. rewrite H. destruct l as [|y r]; [reflexivity|].
  rewrite map_app, map_map. cbn [map fst]. rewrite map_id. symmetry. apply app_removelast_last. discriminate.
Qed.

(* ---- accumulate (plain: returns_state = with_state = false) -------------------- *)
Fixpoint scan (f : val -> val -> option val) (acc : option val) (l : list arrival) : list (val * md) :=
  match l with
  | [] => []
  | a :: t =>
      match acc with
      | None => (aval a, amd a) :: scan f (Some (aval a)) t
      | Some s => match f s (aval a) with
                  | Some r => (r, amd a) :: scan f (Some r) t
                  | None => scan f (Some s) t         (* the call raised: state unchanged *)
                  end
      end
  end.

Lemma sem_accumulate f start s l :
  fold_outs (KAccum f start false false) s l = scan f (st_acc s) l.
Proof.
  revert s. induction l as [|[[q x] m] t IH]; intros s; cbn [fold_outs scan]; [reflexivity|].
  unfold upd_outs, upd_state, aval, amd; cbn.
  destruct (st_acc s) as [a|] eqn:Ea; cbn.
  - destruct (f a x) as [r|]; cbn; rewrite IH; cbn; [reflexivity | rewrite Ea; reflexivity].
  - rewrite IH. reflexivity.
Qed.

(* ---- slice: python xs[start:stop:step] on positions ----------------------------- *)
Definition slice_pass (start step i : nat) : bool := (start <=? i) && ((i - start) mod step =? 0).

(* python xs[start:stop:step]: nothing at or after position `stop` *)
Definition slice_finished (stop : option nat) (i : nat) : bool :=
  match stop with Some e => e <=? i | None => false end.

Fixpoint slice_sem (start : nat) (stop : option nat) (step : nat) (i : nat) (l : list arrival) : list (val * md) :=
  match l with
  | [] => []
  | a :: t =>
      if slice_finished stop i then []
      else (if slice_pass start step i then [(aval a, amd a)] else []) ++ slice_sem start stop step (S i) t
  end.

(* a finished slice (it has detached itself; an emission that was under way may still call it) does nothing *)
Lemma slice_finished_silent start stop step s l :
  slice_finished stop (st_n s) = true ->
  fold_outs (KSlice start stop step) s l = [] /\ fold_state (KSlice start stop step) s l = s.
Proof.
  intros Hf. induction l as [|[[q x] m] t IH]; [split; reflexivity|].
  unfold fold_state in *. cbn [fold_outs fold_left]. unfold upd_outs, upd_state, slice_finished in *. cbn [update].
  rewrite Hf. cbn. exact IH.
Qed.

Lemma sem_slice start stop step s l :
  fold_outs (KSlice start stop step) s l = slice_sem start stop step (st_n s) l.
Proof.
  revert s. induction l as [|[[q x] m] t IH]; intros s; cbn [fold_outs slice_sem]; [reflexivity|].
  destruct (slice_finished stop (st_n s)) eqn:Hf.
  - pose proof (slice_finished_silent start stop step s ((q, x, m) :: t) Hf) as [H _]. cbn [fold_outs] in H. exact H.
  - unfold upd_outs, upd_state, aval, amd, slice_pass, slice_finished in *; cbn [update]. rewrite Hf. cbn.
    destruct ((start <=? st_n s) && ((st_n s - start) mod step =? 0)); cbn; rewrite IH; reflexivity.
Qed.

(* the slice detaches (stops receiving) exactly when `stop` elements have arrived *)
Lemma slice_detach start e step s a :
  (e <=? st_n s) = false ->
  st_detached (upd_state (KSlice start (Some e) step) s a) = (e <=? S (st_n s)).
Proof.
  intros Hf. destruct a as [[q x] m]. unfold upd_state; cbn. rewrite Hf. cbn.
  destruct ((start <=? st_n s) && ((st_n s - start) mod step =? 0)); reflexivity.
Qed.

(* ---- partition(n) without key: complete chunks in order -------------------------- *)
Definition chunk_out (c : list arrival) : val * md := (VTup (map aval c), flat_map amd c).

(* buf = elements waiting (fewer than n) *)
Fixpoint chunks (n : nat) (buf : list arrival) (l : list arrival) : list (val * md) :=
  match l with
  | [] => []
  | a :: t =>
      if length (buf ++ [a]) =? n then chunk_out (buf ++ [a]) :: chunks n [] t
      else chunks n (buf ++ [a]) t
  end.

Definition part_buf (s : nstate) : list val * md :=
  match assoc_get VNone (st_keyed s) with Some b => b | None => ([], []) end.

Lemma assoc_get_set {B} k (b : B) l : assoc_get k (assoc_set k b l) = Some b.
Proof.
  assert (R : forall v, val_eqb v v = true).
  { fix IHv 1. intros [z|l0|l0|]; cbn; try reflexivity; try apply Z.eqb_refl.
    - induction l0 as [|h t IHl]; cbn; [reflexivity|]. rewrite IHv, IHl. reflexivity.
    - induction l0 as [|h t IHl]; cbn; [reflexivity|]. rewrite IHv, IHl. reflexivity. }
  induction l as [|[k' b'] t IH]; cbn.
  - rewrite R. reflexivity.
  - destruct (val_eqb k k') eqn:E; cbn; rewrite E; [reflexivity | exact IH].
Qed.

Lemma sem_partition n l : forall s buf,
  part_buf s = (map aval buf, flat_map amd buf) ->
  fold_outs (KPartition n None) s l = chunks n buf l.
Proof.
  induction l as [|[[q x] m] t IH]; intros s buf Hb; cbn [fold_outs chunks]; [reflexivity|].
  unfold upd_outs, upd_state; cbn. unfold part_buf in Hb. rewrite Hb.
  rewrite !app_length, map_length. cbn [length].
  destruct (length buf + 1 =? n) eqn:E; cbn.
  - f_equal.
    + unfold chunk_out. rewrite map_app, flat_map_app. cbn. rewrite app_nil_r. reflexivity.
    + apply IH. unfold part_buf. cbn. rewrite assoc_get_set. reflexivity.
  - apply IH. unfold part_buf. cbn. rewrite assoc_get_set, map_app, flat_map_app. cbn. rewrite app_nil_r. reflexivity.
Qed.

(* chunks loses nothing and reorders nothing: outputs are consecutive blocks of the input *)
Lemma chunks_concat n l : forall buf, length buf < n ->
  exists rest, length rest < n /\
    flat_map (fun c => match fst c with VTup vs => vs | _ => [] end) (chunks n buf l) ++ map aval rest
      = map aval buf ++ map aval l /\
    Forall (fun c => match fst c with VTup vs => length vs = n | _ => False end) (chunks n buf l).
Proof.
  induction l as [|a t IH]; intros buf Hb; cbn [chunks].
  - exists buf. cbn. rewrite app_nil_r. auto.
  - rewrite app_length. cbn [length]. destruct (length buf + 1 =? n) eqn:E.
    + apply Nat.eqb_eq in E. destruct (IH [] ltac:(cbn; lia)) as [rest [R1 [R2 R3]]].
      exists rest. split; [exact R1|]. split.
      * cbn [flat_map chunk_out fst]. rewrite <- app_assoc, R2. cbn. rewrite map_app, <- app_assoc. reflexivity.
      * constructor; [cbn; rewrite map_length, app_length; cbn; lia | exact R3].
    + apply Nat.eqb_neq in E. destruct (IH (buf ++ [a]) ltac:(rewrite app_length; cbn; lia)) as [rest [R1 [R2 R3]]].
      exists rest. split; [exact R1|]. split; [|exact R3].
      rewrite R2, map_app, <- app_assoc. reflexivity.
Qed.
