(* C16: failures of user functions.  A user function that raises is `update = None`. *)
From Coq Require Import List ZArith Bool Lia Arith.
From SZ Require Import Base.Values Sync.Nodes Sync.Pipeline Sync.PushSpec Sync.Dataflow.
Import ListNotations.
Close Scope Z_scope.
Open Scope nat_scope.

(* (1) the exception reaches the caller of emit: if emit returned normally (SOk) then, for every
       node, no call of its update during the cascade raised.  Contrapositive: a raising user
       function anywhere in the cascade makes emit raise. *)
Theorem exn_reaches_emit g fuel depth n w x m w' :
  wf_dag g -> WF g w -> push fuel g depth n w x m = (w', SOk) ->
  exists new, log w' = rev new ++ log w /\
    forall d, fold_ok (nkind (gnode g d)) (nst w d) (arr g new d) = true.
Proof.
  intros Hdag Hwf H. destruct (push_spec g Hdag fuel depth n w x m w' Hwf H) as [new [S _]].
  exists new. split; [exact (seg_log _ _ _ _ _ _ S) | exact (seg_ok _ _ _ _ _ _ S)].
Qed.

(* the same over a whole run *)
Theorem run_ok_no_failure g evs w :
  wf_dag g -> emit_only g evs -> exec g evs = (w, SOk) ->
  forall d, fold_ok (nkind (gnode g d)) (init_st g d) (arr g (rev (log w)) d) = true.
Proof. intros A B C. exact (ri_ok _ _ _ (pipeline_dataflow g evs w A B C)). Qed.

(* (2) the call that raises changes nothing but the log: every node state, every counter and the
       callback list are exactly as before the call; a directly connected (non-coroutine) node
       propagates the exception (SRaise), so its caller performs no release for this element. *)
Theorem failing_call_changes_nothing emitfrom g depth n x m w d :
  update (nkind (gnode g d)) (nst w d) (index_of n (ups (gnode g d))) x m = None ->
  is_coroutine (nkind (gnode g d)) = false ->
  let '(w', s) := deliver emitfrom g depth n x m (w, SOk) d in
  s = SRaise /\ sts w' = sts w /\ (forall r, cnt w' r = cnt w r) /\ fired w' = fired w.
Proof.
  intros Hu Hc. unfold deliver. cbn [status_go].
  change (nst (wlog w _) d) with (nst w d). rewrite Hu, Hc. cbn. auto.
Qed.

(* once an exception unwinds, no further downstream is called and nothing is released *)
Lemma deliver_raise_skips emitfrom g depth n x m : forall l w,
  fold_left (deliver emitfrom g depth n x m) l (w, SRaise) = (w, SRaise).
Proof. induction l as [|d t IH]; intros w; cbn [fold_left]; [reflexivity|]. unfold deliver at 2. cbn. apply IH. Qed.

Lemma actions_raise_skips emit coro d : forall acts w,
  fold_left (do_action emit coro d) acts (w, SRaise) = (w, SRaise).
Proof.
  induction acts as [|a t IH]; intros w; cbn [fold_left]; [reflexivity|].
  unfold do_action at 2. destruct coro; cbn; apply IH.
Qed.

(* (3) later elements are processed as if the failing element had not been offered to that node:
       the fold that defines the node's state and outputs skips a failing arrival *)
Theorem later_as_if_not_offered k s a l :
  update k s (fst (fst a)) (snd (fst a)) (snd a) = None ->
  fold_state k s (a :: l) = fold_state k s l /\ fold_outs k s (a :: l) = fold_outs k s l.
Proof.
  intros H. destruct a as [[p x] m]. cbn in H. unfold fold_state. cbn [fold_left fold_outs].
  unfold upd_state, upd_outs. rewrite H. cbn. auto.
Qed.

(* (4) never checkpointed.  In a directly connected (non-buffered) pipeline no node retains or
       releases on its own; only _emit does.  Then: a push that starts with count >= F >= 1 never lets
       the count drop below F and never schedules the callback, whatever its outcome; and a push of an
       element carrying counter r that RAISES leaves count r >= 1 without having scheduled r's callback. *)
Definition direct_kind (k : kind) : bool :=
  match k with
  | KSource | KUnion | KMap _ | KStarmap _ | KFilter _ | KAccum _ _ _ _ | KSlice _ _ _
  | KUnique _ _ | KFlatten | KPluck _ | KSink _ => true
  | _ => false
  end.
Definition direct_graph (g : graph) : Prop := forall d, direct_kind (nkind (gnode g d)) = true.

Definition plain_action (a : action) : bool :=
  match a with ASet _ | AEmit _ _ => true | _ => false end.

Lemma plain_map_emit (l : list val) : forallb plain_action (map (fun y => AEmit y []) l) = true.
Proof. induction l as [|h t IH]; cbn; auto. Qed.

Lemma direct_acts k s p x m acts :
  direct_kind k = true -> update k s p x m = Some acts -> forallb plain_action acts = true.
Proof.
  intros Hk H. destruct k; try discriminate Hk; cbn [update] in H.
  all: try solve [split_upd H; try discriminate H; injection H as <-; reflexivity].
  - destruct (items x) as [[|y l]|]; try discriminate H; injection H as <-; [reflexivity|].
    rewrite forallb_app, plain_map_emit. reflexivity.
Qed.

Fixpoint occ_ref (m : list mdi) (r : nat) : Z :=
  match m with
  | [] => 0%Z
  | i :: t => ((if mref i && Nat.eqb (mid i) r then 1 else 0) + occ_ref t r)%Z
  end.

Definition nfired (w : world) (r : nat) : nat := count_occ Nat.eq_dec (fired w) r.

Lemma occ_ref_nonneg m r : (0 <= occ_ref m r)%Z.
Proof. induction m as [|i t IH]; cbn [occ_ref]; [lia|]. destruct (mref i && Nat.eqb (mid i) r); lia. Qed.

Lemma retain_cnt w m n r : cnt (retain w m n) r = (cnt w r + n * occ_ref m r)%Z /\ fired (retain w m n) = fired w.
Proof.
  unfold retain. revert w. induction m as [|i t IH]; intros w; cbn [fold_left occ_ref]; [split; [lia|reflexivity]|].
  destruct (mref i) eqn:Ei; cbn [andb].
  - destruct (IH (retain1 w (mid i) n)) as [A B]. rewrite A, B. cbn [retain1 cnt fired]. split; [|reflexivity].
    destruct (Nat.eqb_spec (mid i) r); rewrite Z.mul_add_distr_l; lia.
  - destruct (IH w) as [A B]. rewrite A, B. split; [rewrite Z.mul_add_distr_l; lia | reflexivity].
Qed.

Lemma release_cnt_eq w m r : cnt (release w m 1) r = (cnt w r - occ_ref m r)%Z.
Proof.
  unfold release. revert w. induction m as [|i t IH]; intros w; cbn [fold_left occ_ref]; [lia|].
  destruct (mref i) eqn:Ei; cbn [andb].
  - rewrite IH. cbn [release1 cnt]. destruct (Nat.eqb_spec (mid i) r) as [e|e]; [rewrite e|]; lia.
  - rewrite IH. lia.
Qed.

(* releasing once from a count that stays >= 1 schedules nothing for r *)
Lemma release_floor w m r F :
  (1 <= F)%Z -> (F + occ_ref m r <= cnt w r)%Z ->
  (F <= cnt (release w m 1) r)%Z /\ nfired (release w m 1) r = nfired w r /\
  cnt (release w m 1) r = (cnt w r - occ_ref m r)%Z.
Proof.
  intros HF. unfold release. revert w. induction m as [|i t IH]; intros w Hc; cbn [fold_left occ_ref] in *.
  - split; [lia|]. split; [reflexivity | lia].
  - pose proof (occ_ref_nonneg t r) as Ht.
    destruct (mref i) eqn:Ei; cbn [andb] in *.
    + destruct (Nat.eqb_spec (mid i) r) as [E|E].
      * assert (Hc1 : (F + occ_ref t r <= cnt (release1 w (mid i) 1) r)%Z).
        { cbn [release1 cnt]. rewrite E, Nat.eqb_refl. lia. }
        destruct (IH _ Hc1) as [A [B C]]. split; [exact A|]. split.
        -- rewrite B. unfold nfired. cbn [release1 fired]. rewrite E.
           destruct (Z.leb_spec (cnt w r - 1) 0); [lia | reflexivity].
        -- rewrite C. cbn [release1 cnt]. rewrite E, Nat.eqb_refl. lia.
      * assert (Hc1 : (F + occ_ref t r <= cnt (release1 w (mid i) 1) r)%Z).
        { cbn [release1 cnt]. apply Nat.eqb_neq in E. rewrite E. lia. }
        destruct (IH _ Hc1) as [A [B C]]. split; [exact A|]. split.
        -- rewrite B. unfold nfired. cbn [release1 fired].
           destruct (cnt w (mid i) - 1 <=? 0)%Z; [|reflexivity].
           rewrite count_occ_app. cbn. destruct (Nat.eq_dec (mid i) r); [contradiction | lia].
        -- rewrite C. cbn [release1 cnt]. apply Nat.eqb_neq in E. rewrite E. lia.
    + destruct (IH w ltac:(lia)) as [A [B C]]. split; [exact A|]. split; [exact B | lia].
Qed.

Definition FloorSpec (g : graph) (emitfrom : nat -> world -> val -> list mdi -> world * status) (r : nat) : Prop :=
  forall d w y my w' s F, (1 <= F)%Z -> (F <= cnt w r)%Z -> emitfrom d w y my = (w', s) ->
    (F <= cnt w' r)%Z /\ nfired w' r = nfired w r.

Lemma plain_actions_floor g emitfrom r coro d :
  FloorSpec g emitfrom r ->
  forall acts w s w' s' F, forallb plain_action acts = true -> (1 <= F)%Z -> (F <= cnt w r)%Z ->
  fold_left (do_action (emitfrom d) coro d) acts (w, s) = (w', s') ->
  (F <= cnt w' r)%Z /\ nfired w' r = nfired w r.
Proof.
  intros HS. induction acts as [|a t IH]; intros w s w' s' F Hp HF Hc H; cbn [fold_left] in H.
  - injection H as <- _. split; [exact Hc | reflexivity].
  - cbn [forallb] in Hp. apply andb_true_iff in Hp as [Ha Hp]. unfold do_action at 2 in H.
    destruct (if coro then status_ok s else status_go s); [|exact (IH w s w' s' F Hp HF Hc H)].
    destruct a as [st|mm|mm|y my]; try discriminate Ha.
    + exact (IH (wset_sts w (set_nth d st (sts w))) s w' s' F Hp HF Hc H).
    + destruct (emitfrom d w y my) as [w1 s1] eqn:E.
      destruct (HS d w y my w1 s1 F HF Hc E) as [A B].
      destruct (IH w1 _ w' s' F Hp HF A H) as [A2 B2]. split; [exact A2 | rewrite B2; exact B].
Qed.

(* one delivery.  G = count before it (>= 1). *)
Lemma deliver_floor g emitfrom r depth n x m d w s w' s' G :
  direct_graph g -> FloorSpec g emitfrom r -> status_go s = true -> (1 <= G)%Z -> (G <= cnt w r)%Z ->
  deliver emitfrom g depth n x m (w, s) d = (w', s') ->
  (status_go s' = false -> (G <= cnt w' r)%Z /\ nfired w' r = nfired w r) /\
  (status_go s' = true -> (G - occ_ref m r <= cnt w' r)%Z /\
                          ((1 <= G - occ_ref m r)%Z -> nfired w' r = nfired w r)).
Proof.
  intros Hg HS Go HG Hc H. pose proof (occ_ref_nonneg m r) as Hm. unfold deliver in H. rewrite Go in H.
  set (w1 := wlog w _) in H.
  assert (Hco : is_coroutine (nkind (gnode g d)) = false).
  { specialize (Hg d). destruct (nkind (gnode g d)); try discriminate Hg; reflexivity. }
  rewrite Hco in H.
  destruct (update _ _ _ _ _) as [acts|] eqn:Eu.
  - destruct (run_actions (emitfrom d) false d acts w1) as [w2 s2] eqn:Er. unfold run_actions in Er.
    destruct (plain_actions_floor g emitfrom r false d HS acts w1 SOk w2 s2 G
                (direct_acts _ _ _ _ _ _ (Hg d) Eu) HG Hc Er) as [A B].
    assert (Hrel : (G - occ_ref m r <= cnt (release w2 m 1) r)%Z /\
                   ((1 <= G - occ_ref m r)%Z -> nfired (release w2 m 1) r = nfired w r)).
    { split.
      - destruct (Z_le_gt_dec 1 (G - occ_ref m r)) as [Hle|Hgt].
        + destruct (release_floor w2 m r (G - occ_ref m r)%Z Hle ltac:(lia)) as [A2 _]. exact A2.
        + rewrite release_cnt_eq. lia.
      - intros Hle. destruct (release_floor w2 m r (G - occ_ref m r)%Z Hle ltac:(lia)) as [_ [B2 _]]. rewrite B2. exact B. }
    destruct s2.
    + injection H as <- <-. split; [intros X; rewrite Go in X; discriminate | intros _; exact Hrel].
    + injection H as <- <-. split; [discriminate | intros _; exact Hrel].
    + injection H as <- <-. split; [intros _; split; [exact A | exact B] | discriminate].
    + injection H as <- <-. split; [intros _; split; [exact A | exact B] | discriminate].
  - injection H as <- <-. split; [intros _; split; [exact Hc | reflexivity] | discriminate].
Qed.

Lemma deliver_stop emitfrom g depth n x m : forall l w s,
  status_go s = false -> fold_left (deliver emitfrom g depth n x m) l (w, s) = (w, s).
Proof.
  induction l as [|d t IH]; intros w s Hs; cbn [fold_left]; [reflexivity|].
  unfold deliver at 2. rewrite Hs. apply IH. exact Hs.
Qed.

(* the turns of the loop of _emit ([hand]): once an exception unwinds, no further turn does anything *)
Lemma hand_all_stop emitfrom g depth n x m : forall l w s,
  status_go s = false -> fold_left (hand emitfrom g depth n x m) l (w, s) = (w, s).
Proof.
  induction l as [|d t IH]; intros w s Hs; cbn [fold_left]; [reflexivity|].
  rewrite hand_stop by exact Hs. apply IH. exact Hs.
Qed.
Lemma hand_raise_skips emitfrom g depth n x m : forall l w,
  fold_left (hand emitfrom g depth n x m) l (w, SRaise) = (w, SRaise).
Proof. intros. apply hand_all_stop. reflexivity. Qed.

(* one turn: the hand-over [deliver_floor], or - for a child that left since the snapshot - the release alone *)
Lemma hand_floor g emitfrom r depth n x m d w s w' s' G :
  direct_graph g -> FloorSpec g emitfrom r -> status_go s = true -> (1 <= G)%Z -> (G <= cnt w r)%Z ->
  hand emitfrom g depth n x m (w, s) d = (w', s') ->
  (status_go s' = false -> (G <= cnt w' r)%Z /\ nfired w' r = nfired w r) /\
  (status_go s' = true -> (G - occ_ref m r <= cnt w' r)%Z /\
                          ((1 <= G - occ_ref m r)%Z -> nfired w' r = nfired w r)).
Proof.
  intros Hg HS Go HG Hc H. pose proof (occ_ref_nonneg m r) as Hm.
  destruct (hand_cases emitfrom g depth n x m w s d) as [E|[_ [_ E]]]; rewrite E in H.
  - eapply deliver_floor; eauto.
  - injection H as <- <-. split; [intros X; rewrite Go in X; discriminate|]. intros _. split.
    + destruct (Z_le_gt_dec 1 (G - occ_ref m r)) as [Hle|Hgt].
      * destruct (release_floor w m r (G - occ_ref m r)%Z Hle ltac:(lia)) as [A2 _]. exact A2.
      * rewrite release_cnt_eq. lia.
    + intros Hle. destruct (release_floor w m r (G - occ_ref m r)%Z Hle ltac:(lia)) as [_ [B2 _]]. exact B2.
Qed.

(* all downstreams, with a floor F >= 1 kept to the end *)
Lemma hand_all_floor g emitfrom r depth n x m :
  direct_graph g -> FloorSpec g emitfrom r ->
  forall l w s w' s' F, (1 <= F)%Z -> (F + Z.of_nat (length l) * occ_ref m r <= cnt w r)%Z ->
  fold_left (hand emitfrom g depth n x m) l (w, s) = (w', s') ->
  (F <= cnt w' r)%Z /\ nfired w' r = nfired w r.
Proof.
  intros Hg HS. pose proof (occ_ref_nonneg m r) as Hm.
  induction l as [|d t IH]; intros w s w' s' F HF Hc H; cbn [fold_left length] in *.
  - injection H as <- _. split; [lia | reflexivity].
  - destruct (status_go s) eqn:Go.
    + destruct (hand emitfrom g depth n x m (w, s) d) as [w1 s1] eqn:E1.
      destruct (hand_floor g emitfrom r depth n x m d w s w1 s1 (F + Z.of_nat (S (length t)) * occ_ref m r)%Z
                  Hg HS Go ltac:(nia) Hc E1) as [P1 P2].
      destruct (status_go s1) eqn:Go1.
      * destruct (P2 eq_refl) as [A B].
        assert (Hc1 : (F + Z.of_nat (length t) * occ_ref m r <= cnt w1 r)%Z) by nia.
        destruct (IH w1 s1 w' s' F HF Hc1 H) as [A2 B2]. split; [exact A2|]. rewrite B2. apply B. nia.
      * destruct (P1 eq_refl) as [A B]. rewrite hand_all_stop in H by exact Go1. injection H as <- <-.
        split; [nia | exact B].
    + rewrite hand_stop in H by exact Go. rewrite hand_all_stop in H by exact Go. injection H as <- <-.
      split; [nia | reflexivity].
Qed.

Theorem push_floor g r : direct_graph g -> forall fuel depth, FloorSpec g (fun d => push fuel g depth d) r.
Proof.
  intros Hg. induction fuel as [|fuel IH]; intros depth d w y my w' s F HF Hc H; cbn [push] in H.
  - injection H as <- <-. split; [exact Hc | reflexivity].
  - destruct (retain_cnt w my (Z.of_nat (length (downs g w d))) r) as [R1 R2].
    destruct (hand_all_floor g _ r depth d y my Hg (IH (S depth)) (downs g w d) _ SOk w' s F HF
                ltac:(rewrite R1; lia) H) as [A B].
    split; [exact A|]. rewrite B. unfold nfired. rewrite R2. reflexivity.
Qed.

(* the failing emit: ends in SRaise => callback of r not scheduled, count r stays >= 1 *)
Lemma hand_all_raise g emitfrom r depth n x m :
  direct_graph g -> FloorSpec g emitfrom r -> (1 <= occ_ref m r)%Z ->
  forall l w s w', status_go s = true -> (Z.of_nat (length l) * occ_ref m r <= cnt w r)%Z ->
  fold_left (hand emitfrom g depth n x m) l (w, s) = (w', SRaise) ->
  (1 <= cnt w' r)%Z /\ nfired w' r = nfired w r.
Proof.
  intros Hg HS Hocc.
  induction l as [|d t IH]; intros w s w' Go Hc H; cbn [fold_left length] in *.
  - injection H as _ Hs. subst s. discriminate Go.
  - destruct (hand emitfrom g depth n x m (w, s) d) as [w1 s1] eqn:E1.
    destruct (hand_floor g emitfrom r depth n x m d w s w1 s1 (Z.of_nat (S (length t)) * occ_ref m r)%Z
                Hg HS Go ltac:(nia) Hc E1) as [P1 P2].
    destruct (status_go s1) eqn:Go1.
    + destruct (P2 eq_refl) as [A B].
      destruct t as [|d2 t2].
      * cbn [fold_left] in H. injection H as _ Hs. subst s1. discriminate Go1.
      * assert (Hc1 : (Z.of_nat (length (d2 :: t2)) * occ_ref m r <= cnt w1 r)%Z) by (cbn [length] in *; nia).
        destruct (IH w1 s1 w' Go1 Hc1 H) as [A2 B2]. split; [exact A2|]. rewrite B2. apply B. cbn [length]. nia.
    + destruct (P1 eq_refl) as [A B]. rewrite hand_all_stop in H by exact Go1. injection H as Hw _. subst w'.
      split; [nia | exact B].
Qed.

Theorem cb_never_for_failed g fuel n w x m w' r :
  direct_graph g -> (0 <= cnt w r)%Z -> (1 <= occ_ref m r)%Z ->
  push fuel g 0 n w x m = (w', SRaise) ->
  (1 <= cnt w' r)%Z /\ nfired w' r = nfired w r.
Proof.
  intros Hg Hc Hocc H. destruct fuel as [|fuel]; cbn [push] in H; [discriminate|].
  destruct (retain_cnt w m (Z.of_nat (length (downs g w n))) r) as [R1 R2].
  destruct (hand_all_raise g _ r 0 n x m Hg (push_floor g r Hg fuel 1) Hocc (downs g w n) _ SOk w' eq_refl
              ltac:(rewrite R1; lia) H) as [A B].
  split; [exact A|]. rewrite B. unfold nfired. rewrite R2. reflexivity.
Qed.

(* and it stays that way: any later emit (whatever its outcome) keeps count r >= 1 and schedules nothing for r *)
Theorem failed_stays_unfired g fuel n w x m w' s r :
  direct_graph g -> (1 <= cnt w r)%Z -> push fuel g 0 n w x m = (w', s) ->
  (1 <= cnt w' r)%Z /\ nfired w' r = nfired w r.
Proof. intros Hg Hc H. exact (push_floor g r Hg fuel 0 n w x m w' s 1%Z ltac:(lia) Hc H). Qed.
