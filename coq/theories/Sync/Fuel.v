(* In a DAG the recursion of push is bounded by the number of nodes: the fuel used by
   `run`/`exec` is always enough, so SFuel (Python: RecursionError) never occurs. *)
From Coq Require Import List ZArith Bool Lia Arith.
From SZ Require Import Base.Values Sync.Nodes Sync.Pipeline Sync.PushSpec.
Import ListNotations.
Close Scope Z_scope.
Open Scope nat_scope.

Lemma status_join_nofuel a s : a <> SFuel -> s <> SFuel -> status_join a s <> SFuel.
Proof. destruct s; cbn; auto. Qed.

Lemma actions_no_fuel emit coro d :
  (forall w y my, snd (emit w y my) <> SFuel) ->
  forall acts w s, s <> SFuel -> snd (fold_left (do_action emit coro d) acts (w, s)) <> SFuel.
Proof.
  intros He. induction acts as [|a t IH]; intros w s Hs; cbn [fold_left]; [exact Hs|].
  unfold do_action at 2. destruct (if coro then status_ok s else status_go s); [|apply IH; exact Hs].
  destruct a as [st|mm|mm|y my]; try (apply IH; exact Hs).
  destruct (emit w y my) as [w1 s1] eqn:E. apply IH. apply status_join_nofuel; [exact Hs|].
  specialize (He w y my). rewrite E in He. exact He.
Qed.

Lemma deliver_no_fuel emitfrom g depth n x m :
  forall l, (forall d, In d l -> forall w y my, snd (emitfrom d w y my) <> SFuel) ->
  forall w s, s <> SFuel -> snd (fold_left (deliver emitfrom g depth n x m) l (w, s)) <> SFuel.
Proof.
  induction l as [|d t IH]; intros He w s Hs; cbn [fold_left]; [exact Hs|].
  assert (He' : forall d', In d' t -> forall w y my, snd (emitfrom d' w y my) <> SFuel)
    by (intros d' Hd'; apply He; right; exact Hd').
  unfold deliver at 2. destruct (status_go s); [|apply IH; assumption].
  set (w1 := wlog w _).
  destruct (update _ _ _ _ _) as [acts|].
  - destruct (run_actions (emitfrom d) _ d acts w1) as [w2 s2] eqn:Er.
    assert (Hs2 : s2 <> SFuel).
    { pose proof (actions_no_fuel (emitfrom d) (is_coroutine (nkind (gnode g d))) d
                   (He d (or_introl eq_refl)) acts w1 SOk ltac:(discriminate)) as X.
      unfold run_actions in Er. rewrite Er in X. exact X. }
    destruct s2; try (apply IH; [assumption | discriminate || exact Hs]).
    + destruct (is_coroutine _); apply IH; try assumption; discriminate.
    + contradiction.
  - destruct (is_coroutine _); apply IH; try assumption; discriminate.
Qed.

(* the same for the turns of the loop of _emit ([hand]: the hand-over, or nothing but a release for a child that left) *)
Lemma hand_no_fuel emitfrom g depth n x m :
  forall l, (forall d, In d l -> forall w y my, snd (emitfrom d w y my) <> SFuel) ->
  forall w s, s <> SFuel -> snd (fold_left (hand emitfrom g depth n x m) l (w, s)) <> SFuel.
Proof.
  induction l as [|d t IH]; intros He w s Hs; cbn [fold_left]; [exact Hs|].
  assert (He' : forall d', In d' t -> forall w y my, snd (emitfrom d' w y my) <> SFuel)
    by (intros d' Hd'; apply He; right; exact Hd').
  destruct (hand_cases emitfrom g depth n x m w s d) as [E|[_ [_ E]]]; rewrite E.
  - assert (He1 : forall d', In d' [d] -> forall w y my, snd (emitfrom d' w y my) <> SFuel)
      by (intros d' [<-|[]]; apply He; left; reflexivity).
    pose proof (deliver_no_fuel emitfrom g depth n x m [d] He1 w s Hs) as X.
    cbn [fold_left] in X. destruct (deliver emitfrom g depth n x m (w, s) d) as [w1 s1]. apply IH; assumption.
  - apply IH; assumption.
Qed.

Theorem push_fuel_enough g : wf_dag g ->
  forall fuel depth n w x m, length g < fuel + n -> 0 < fuel ->
  snd (push fuel g depth n w x m) <> SFuel.
Proof.
  intros Hdag. induction fuel as [|fuel IH]; intros depth n w x m Hf Hpos; [lia|].
  cbn [push]. apply hand_no_fuel; [|discriminate].
  intros d Hd w' y my. apply downs_is_down in Hd. apply is_down_In in Hd as [Hlt Hin].
  pose proof (Hdag d n Hlt Hin) as Hnd. assert (A1 : length g < fuel + d) by lia. assert (A2 : 0 < fuel) by lia. exact (IH (S depth) d w' y my A1 A2).
Qed.

Theorem step_fuel_enough g w e : wf_dag g -> snd (step (fuel_for g) g w e) <> SFuel.
Proof.
  intros Hdag. unfold fuel_for. destruct e as [n x m|n]; cbn [step].
  - apply push_fuel_enough; [exact Hdag | lia | lia].
  - destruct (run_actions _ _ _ _ _) as [w' s] eqn:E. cbn.
    assert (s <> SFuel).
    { pose proof (actions_no_fuel (push (S (length g)) g 0 n) false n
                    (fun w y my => push_fuel_enough g Hdag (S (length g)) 0 n w y my ltac:(lia) ltac:(lia))
                    (flush_actions (nst w n)) w SOk ltac:(discriminate)) as X.
      unfold run_actions in E. rewrite E in X. exact X. }
    destruct s; try discriminate; contradiction.
Qed.
