(* Theorems about the delay(interval) model, for ALL action sequences (schedules). *)
From Coq Require Import List ZArith Bool Lia Arith Sorted.
From SZ Require Import Base.Values Sync.Nodes Async.Core Async.Delay.
Import ListNotations.
Close Scope Z_scope.
Open Scope nat_scope.

(* ---- common helper facts (local copies, see THEOREMS.md) -------------------------------------- *)
Lemma ins_of_app a b : ins_of (a ++ b) = ins_of a ++ ins_of b.
Proof. apply flat_map_app. Qed.
Lemma ids_of_app a b : ids_of (a ++ b) = ids_of a ++ ids_of b.
Proof. apply flat_map_app. Qed.
Lemma all_deliv_app a b : all_deliv (a ++ b) = all_deliv a ++ all_deliv b.
Proof. apply flat_map_app. Qed.
Lemma all_done_app a b : all_done (a ++ b) = all_done a ++ all_done b.
Proof. apply flat_map_app. Qed.
Lemma deliv_items_app a b : deliv_items (a ++ b) = deliv_items a ++ deliv_items b.
Proof. apply map_app. Qed.
Lemma n_emits_app a b : n_emits (a ++ b) = n_emits a + n_emits b.
Proof. unfold n_emits. rewrite ins_of_app, app_length. reflexivity. Qed.

Lemma ins_of_snoc_emit acts src x m : ins_of (acts ++ [AEmit src x m]) = ins_of acts ++ [(x, m)].
Proof. rewrite ins_of_app. reflexivity. Qed.
Lemma ids_of_snoc_emit acts src x m : ids_of (acts ++ [AEmit src x m]) = ids_of acts ++ map mid (filter mref m).
Proof. rewrite ids_of_app. cbn [ids_of flat_map]. rewrite app_nil_r. reflexivity. Qed.
Lemma n_emits_snoc_emit acts src x m : n_emits (acts ++ [AEmit src x m]) = S (n_emits acts).
Proof. rewrite n_emits_app. cbn. lia. Qed.

Definition no_emit (a : act) : Prop := match a with AEmit _ _ _ => False | _ => True end.
Lemma ins_of_snoc_other acts a : no_emit a -> ins_of (acts ++ [a]) = ins_of acts.
Proof. intros H. rewrite ins_of_app. destruct a; try destruct H; cbn; apply app_nil_r. Qed.
Lemma ids_of_snoc_other acts a : no_emit a -> ids_of (acts ++ [a]) = ids_of acts.
Proof. intros H. rewrite ids_of_app. destruct a; try destruct H; cbn; apply app_nil_r. Qed.

Lemma mocc_notin m r : ~ In r (map mid (filter mref m)) -> mocc m r = 0%Z.
Proof.
  induction m as [|i t IH]; cbn [mocc filter map]; intros H; [reflexivity|].
  destruct (mref i) eqn:Ei; cbn [andb map] in *.
  - destruct (Nat.eqb_spec (mid i) r) as [E|E].
    + exfalso. apply H. left. exact E.
    + rewrite IH; [reflexivity|]. intros X. apply H. right. exact X.
  - rewrite IH; [reflexivity | exact H].
Qed.

Lemma nodup_app_inv {A} (l1 l2 : list A) :
  NoDup (l1 ++ l2) -> NoDup l1 /\ NoDup l2 /\ (forall x, In x l1 -> ~ In x l2).
Proof.
  induction l1 as [|a t IH]; cbn [app]; intros H.
  - split; [constructor|]. split; [exact H|]. intros x [].
  - inversion H as [|? ? Hn Ht]; subst. destruct (IH Ht) as [H1 [H2 H3]].
    split; [constructor; [intros X; apply Hn; apply in_or_app; left; exact X | exact H1]|].
    split; [exact H2|]. intros x [<-|Hx]; [intros X; apply Hn; apply in_or_app; right; exact X | apply H3; exact Hx].
Qed.

Lemma nodup_snoc_emit acts src x m :
  NoDup (ids_of (acts ++ [AEmit src x m])) ->
  NoDup (ids_of acts) /\ (forall r, In r (ids_of acts) -> mocc m r = 0%Z).
Proof.
  rewrite ids_of_snoc_emit. intros H. apply nodup_app_inv in H as [H1 [H2 H3]].
  split; [exact H1|]. intros r Hr. apply mocc_notin. apply H3. exact Hr.
Qed.

Lemma notin_snoc_emit acts src x m r :
  ~ In r (ids_of (acts ++ [AEmit src x m])) -> ~ In r (ids_of acts) /\ mocc m r = 0%Z.
Proof.
  rewrite ids_of_snoc_emit. intros H. split.
  - intros X. apply H. apply in_or_app. left. exact X.
  - apply mocc_notin. intros X. apply H. apply in_or_app. right. exact X.
Qed.

(* lifting a step invariant to all runs *)
Lemma run_steps_inv (M : node_model)
      (I : list act -> nm_state M -> list (list (Z * val * md) * list nat) -> Prop) :
  (forall acts s outs a s' o, I acts s outs -> nm_step M s a = (s', o) -> I (acts ++ [a]) s' (outs ++ [o])) ->
  forall acts acts0 s0 outs0 s outs,
    I acts0 s0 outs0 -> run_steps M s0 acts = (s, outs) -> I (acts0 ++ acts) s (outs0 ++ outs).
Proof.
  intros Hstep. induction acts as [|a t IH]; intros acts0 s0 outs0 s outs H0 Hr; cbn [run_steps] in Hr.
  - injection Hr as <- <-. rewrite !app_nil_r. exact H0.
  - destruct (nm_step M s0 a) as [s1 o] eqn:E1. destruct (run_steps M s1 t) as [s2 os] eqn:E2.
    injection Hr as <- <-.
    change (a :: t) with ([a] ++ t). change (o :: os) with ([o] ++ os). rewrite !app_assoc.
    eapply IH; [|exact E2]. eapply Hstep; [exact H0 | exact E1].
Qed.

(* decomposing where a callback can have been scheduled *)
Ltac fired_cases H :=
  unfold rc_via_emit in H; cbv beta in H;
  repeat match type of H with
  | In _ (rfired (rc_release _ _ 1)) =>
      let H1 := fresh "Hle" in let H2 := fresh "Hge" in
      apply rfired_release_new in H; destruct H as [H | [H1 H2]]
  | In _ (rfired (rc_retain _ _ _)) => rewrite rfired_retain in H
  end.
Ltac rc_norm := unfold rc_via_emit in *; repeat (rewrite ?rcnt_release, ?rcnt_retain in * ).

Lemma deliv_times_app a b : deliv_times (a ++ b) = deliv_times a ++ deliv_times b.
Proof. apply map_app. Qed.

Lemma StronglySorted_snoc (l : list Z) (x : Z) :
  StronglySorted Z.le l -> Forall (fun y => (y <= x)%Z) l -> StronglySorted Z.le (l ++ [x]).
Proof.
  induction l as [|a t IH]; cbn [app]; intros Hs Hf.
  - constructor; constructor.
  - apply StronglySorted_inv in Hs as [Hs Ha]. inversion Hf as [|? ? Hax Ht]; subst.
    constructor; [apply IH; assumption|].
    apply Forall_app. split; [exact Ha | constructor; [exact Hax | constructor]].
Qed.

(* ---- the model-specific notions ------------------------------------------------------------------ *)
Definition d_pending (s : dst) : list (val * md) := d_q s.
Definition d_held (s : dst) : md :=
  (match d_mode s with DEmit _ m => m | _ => [] end) ++ flat_map snd (d_q s).

(* DL = deliveries so far, N = completed emits so far *)
Record DInv (acts : list act) (s : dst) (DL : list (Z * val * md)) (N : list nat) : Prop := {
  di_done : N = seq 0 (n_emits acts);
  di_next : d_next s = n_emits acts;
  di_fifo : deliv_items DL ++ d_pending s = ins_of acts;
  di_sorted : StronglySorted Z.le (deliv_times DL);
  di_bound : Forall (fun t => (t <= d_now s)%Z) (deliv_times DL);
  di_bal : forall r, rcnt (d_rc s) r = mocc (d_held s) r;
  di_ids : forall r, ~ In r (ids_of acts) -> mocc (d_held s) r = 0%Z /\ ~ In r (rfired (d_rc s));
  di_cb : NoDup (ids_of acts) -> forall r, In r (rfired (d_rc s)) -> mocc (d_held s) r = 0%Z;
}.

Ltac dsimpl := unfold d_pending in *; cbn [d_set d_int d_sync d_now d_rc d_next d_q d_mode] in *.

Lemma DInv_init interval sync : DInv [] (d_init interval sync) [] [].
Proof. constructor; cbn; auto. constructor. Qed.

Lemma DInv_ext a1 a2 s DL N :
  ins_of a1 = ins_of a2 -> ids_of a1 = ids_of a2 -> DInv a1 s DL N -> DInv a2 s DL N.
Proof.
  intros E1 E2 [a b c c1 c2 d e f].
  assert (En : n_emits a1 = n_emits a2) by (unfold n_emits; rewrite E1; reflexivity).
  constructor; rewrite <- ?E1, <- ?E2, <- ?En; assumption.
Qed.

Lemma d_after_cases s now t0 : (exists u, d_after s now t0 = DSleep u) \/ d_after s now t0 = DWait now.
Proof. unfold d_after. destruct (0 <? d_int s - (now - t0))%Z; [left; eexists; reflexivity | right; reflexivity]. Qed.

Lemma d_after_md s now t0 : (match d_after s now t0 with DEmit _ m => m | _ => [] end) = @nil mdi.
Proof. destruct (d_after_cases s now t0) as [[u ->] | ->]; reflexivity. Qed.

(* update(): retain and enqueue (state before the forwarder is given a chance to run) *)
Lemma DInv_emit acts s DL N src x m :
  DInv acts s DL N ->
  DInv (acts ++ [AEmit src x m])
       {| d_int := d_int s; d_sync := d_sync s; d_now := d_now s;
          d_rc := rc_via_emit (d_rc s) m (fun r => rc_retain r m 1); d_next := S (d_next s);
          d_q := d_q s ++ [(x, m)]; d_mode := d_mode s |}
       DL (N ++ [d_next s]).
Proof.
  intros [a b c c1 c2 d e f]. unfold d_held in *.
  set (mm := match d_mode s with DEmit _ m0 => m0 | _ => [] end) in *.
  constructor; unfold d_held; dsimpl; try fold mm; try assumption.
  - rewrite n_emits_snoc_emit, seq_S, a, b. reflexivity.
  - rewrite n_emits_snoc_emit, b. reflexivity.
  - rewrite ins_of_snoc_emit, app_assoc, c. reflexivity.
  - intros r. specialize (d r). rewrite flat_map_app, !mocc_app in *. cbn [flat_map snd]. rewrite app_nil_r. rc_norm. lia.
  - intros r Hr. apply notin_snoc_emit in Hr as [Hr Hm]. destruct (e r Hr) as [e1 e2].
    rewrite flat_map_app, !mocc_app in *. cbn [flat_map snd]. rewrite app_nil_r.
    split; [lia|]. intros Hf. fired_cases Hf; try lia. exact (e2 Hf).
  - intros Hnd r Hf. apply nodup_snoc_emit in Hnd as [Hnd Hm].
    specialize (d r). rewrite flat_map_app, !mocc_app in *. cbn [flat_map snd]. rewrite app_nil_r.
    pose proof (mocc_nonneg mm r). pose proof (mocc_nonneg (flat_map snd (d_q s)) r). pose proof (mocc_nonneg m r).
    fired_cases Hf.
    + assert (In r (ids_of acts)) as Hin.
      { destruct (in_dec Nat.eq_dec r (ids_of acts)) as [X|X]; [exact X|]. destruct (e r X) as [_ X2]. contradiction. }
      specialize (f Hnd r Hf). specialize (Hm r Hin). rewrite mocc_app in f. lia.
    + rc_norm. lia.
Qed.

(* the forwarder's loop head: take the next element if it is waiting in get() *)
Lemma DInv_iter acts s DL N s2 dl :
  DInv acts s DL N -> d_iter s = (s2, dl) -> DInv acts s2 (DL ++ dl) N.
Proof.
  intros HI Hi. unfold d_iter in Hi.
  destruct (d_mode s) as [t0|t0 m0|u] eqn:Em; try (injection Hi as <- <-; rewrite app_nil_r; exact HI).
  destruct (d_q s) as [|[x m] q] eqn:Eq; try (injection Hi as <- <-; rewrite app_nil_r; exact HI).
  destruct HI as [a b c c1 c2 d e f]. unfold d_held in *. dsimpl. rewrite Em, Eq in *.
  cbn [flat_map snd app] in *.
  assert (Hfifo : deliv_items (DL ++ [(d_now s, x, m)]) ++ q = ins_of acts).
  { rewrite deliv_items_app, <- app_assoc. exact c. }
  assert (Hsort : StronglySorted Z.le (deliv_times (DL ++ [(d_now s, x, m)]))).
  { rewrite deliv_times_app. apply StronglySorted_snoc; assumption. }
  assert (Hbound : Forall (fun t => (t <= d_now s)%Z) (deliv_times (DL ++ [(d_now s, x, m)]))).
  { rewrite deliv_times_app. apply Forall_app. split; [exact c2|]. constructor; [cbn; lia | constructor]. }
  unfold d_take in Hi.
  destruct (d_sync s) eqn:Esy; injection Hi as <- <-;
    constructor; unfold d_held; dsimpl; rewrite ?d_after_md; cbn [app]; try assumption.
  - intros r. specialize (d r). rewrite mocc_app in d. rc_norm. lia.
  - intros r Hr. destruct (e r Hr) as [e1 e2]. rewrite mocc_app in e1.
    pose proof (mocc_nonneg m r). pose proof (mocc_nonneg (flat_map snd q) r).
    split; [lia|]. intros Hf. fired_cases Hf; try lia. exact (e2 Hf).
  - intros Hnd r Hf. specialize (d r). rewrite mocc_app in d.
    pose proof (mocc_nonneg m r). pose proof (mocc_nonneg (flat_map snd q) r).
    fired_cases Hf; rc_norm; try lia. specialize (f Hnd r Hf). rewrite mocc_app in f. lia.
  - intros r. specialize (d r). rewrite mocc_app in *. rc_norm. lia.
  - intros r Hr. destruct (e r Hr) as [e1 e2]. split; [exact e1|].
    rewrite mocc_app in e1. pose proof (mocc_nonneg m r). pose proof (mocc_nonneg (flat_map snd q) r).
    intros Hf. fired_cases Hf; try lia. exact (e2 Hf).
  - intros Hnd r Hf. specialize (d r). rewrite mocc_app in *.
    pose proof (mocc_nonneg m r). pose proof (mocc_nonneg (flat_map snd q) r).
    fired_cases Hf; rc_norm; try lia. specialize (f Hnd r Hf). rewrite mocc_app in f. lia.
Qed.

(* the sink's future resolves: release, then sleep or wait *)
Lemma DInv_ack acts s DL N t0 m :
  DInv acts s DL N -> d_mode s = DEmit t0 m ->
  DInv acts (d_set s (d_now s) (rc_release (d_rc s) m 1) (d_q s) (d_after s (d_now s) t0)) DL N.
Proof.
  intros [a b c c1 c2 d e f] Em. unfold d_held in *. rewrite Em in *.
  constructor; unfold d_held; dsimpl; rewrite ?d_after_md; cbn [app]; try assumption.
  - intros r. specialize (d r). rewrite mocc_app in d. rc_norm. lia.
  - intros r Hr. destruct (e r Hr) as [e1 e2]. rewrite mocc_app in e1.
    pose proof (mocc_nonneg m r). pose proof (mocc_nonneg (flat_map snd (d_q s)) r).
    split; [lia|]. intros Hf. fired_cases Hf; try lia. exact (e2 Hf).
  - intros Hnd r Hf. specialize (d r). rewrite mocc_app in d.
    pose proof (mocc_nonneg m r). pose proof (mocc_nonneg (flat_map snd (d_q s)) r).
    fired_cases Hf; rc_norm; try lia. specialize (f Hnd r Hf). rewrite mocc_app in f. lia.
Qed.

(* time passes / the mode changes between modes that hold nothing *)
Lemma DInv_setnow acts s DL N now' mode' :
  DInv acts s DL N -> (d_now s <= now')%Z ->
  (match mode' with DEmit _ m => m | _ => [] end) = (match d_mode s with DEmit _ m => m | _ => [] end) ->
  DInv acts (d_set s now' (d_rc s) (d_q s) mode') DL N.
Proof.
  intros [a b c c1 c2 d e f] Hn Hm. unfold d_held in *.
  constructor; unfold d_held; dsimpl; rewrite ?Hm; try assumption.
  eapply Forall_impl; [|exact c2]. cbn beta. intros t Ht. lia.
Qed.

Lemma DInv_tick acts s DL N s2 dl :
  DInv acts s DL N -> d_tick s = (s2, dl) -> DInv acts s2 (DL ++ dl) N.
Proof.
  intros HI Ht. unfold d_tick in Ht.
  destruct (d_mode s) as [t0|t0 m0|u] eqn:Em.
  - injection Ht as <- <-. rewrite app_nil_r. apply DInv_setnow; [exact HI | lia | rewrite Em; reflexivity].
  - injection Ht as <- <-. rewrite app_nil_r. apply DInv_setnow; [exact HI | lia | rewrite Em; reflexivity].
  - destruct (u <=? d_now s + 1)%Z.
    + eapply DInv_iter; [|exact Ht]. apply DInv_setnow; [exact HI | lia | rewrite Em; reflexivity].
    + injection Ht as <- <-. rewrite app_nil_r. apply DInv_setnow; [exact HI | lia | rewrite Em; reflexivity].
Qed.

Lemma DInv_adv acts N : forall n s DL s2 dl,
  DInv acts s DL N -> d_adv n s = (s2, dl) -> DInv acts s2 (DL ++ dl) N.
Proof.
  induction n as [|n IH]; intros s DL s2 dl HI Ha; cbn [d_adv] in Ha.
  - injection Ha as <- <-. rewrite app_nil_r. exact HI.
  - destruct (d_tick s) as [s1 d1] eqn:Et. destruct (d_adv n s1) as [s3 d2] eqn:Ea.
    injection Ha as <- <-. rewrite app_assoc. eapply IH; [|exact Ea]. eapply DInv_tick; [exact HI | exact Et].
Qed.

Definition DFull (acts : list act) (s : dst) (outs : list (list (Z * val * md) * list nat)) : Prop :=
  DInv acts s (all_deliv outs) (all_done outs).

Lemma DFull_step acts s outs a s' o :
  DFull acts s outs -> nm_step delay_model s a = (s', o) -> DFull (acts ++ [a]) s' (outs ++ [o]).
Proof.
  intros HI Hs. cbn [nm_step delay_model] in Hs. unfold DFull in *.
  rewrite all_deliv_app, all_done_app. cbn [all_deliv all_done flat_map]. rewrite !app_nil_r.
  destruct a as [src x m| |k|dt]; cbn [d_step] in Hs.
  - pose proof (DInv_emit acts s _ _ src x m HI) as H1.
    match type of Hs with (let '(_, _) := d_iter ?s1 in _) = _ => destruct (d_iter s1) as [s2 dl] eqn:Ei end.
    injection Hs as <- <-. cbn [fst snd].
    exact (DInv_iter _ _ _ _ _ _ H1 Ei).
  - destruct (d_mode s) as [t0|t0 m0|u] eqn:Em;
      try (injection Hs as <- <-; cbn [fst snd]; rewrite !app_nil_r;
           eapply DInv_ext; [| |exact HI]; symmetry; [apply ins_of_snoc_other | apply ids_of_snoc_other]; exact I).
    pose proof (DInv_ack acts s _ _ t0 m0 HI Em) as H1.
    match type of Hs with (let '(_, _) := d_iter ?s1 in _) = _ => destruct (d_iter s1) as [s2 dl] eqn:Ei end.
    injection Hs as <- <-. cbn [fst snd]. rewrite app_nil_r.
    eapply DInv_ext; [| |exact (DInv_iter _ _ _ _ _ _ H1 Ei)]; symmetry; [apply ins_of_snoc_other | apply ids_of_snoc_other]; exact I.
  - injection Hs as <- <-. cbn [fst snd]. rewrite !app_nil_r.
    eapply DInv_ext; [| |exact HI]; symmetry; [apply ins_of_snoc_other | apply ids_of_snoc_other]; exact I.
  - destruct (d_adv (Z.to_nat dt) s) as [s1 dl] eqn:Ea. injection Hs as <- <-. cbn [fst snd]. rewrite app_nil_r.
    eapply DInv_ext; [| |exact (DInv_adv _ _ _ _ _ _ _ HI Ea)]; symmetry; [apply ins_of_snoc_other | apply ids_of_snoc_other]; exact I.
Qed.

Theorem delay_reach interval sync acts s outs :
  run_steps delay_model (d_init interval sync) acts = (s, outs) -> DFull acts s outs.
Proof.
  intros H.
  apply (run_steps_inv delay_model DFull DFull_step acts [] (d_init interval sync) [] s outs); [|exact H].
  apply DInv_init.
Qed.

(* ---- headline theorems (they hold for every interval, also interval <= 0) ------------------------ *)
Theorem delay_fifo interval sync acts s outs :
  run_steps delay_model (d_init interval sync) acts = (s, outs) ->
  deliv_items (all_deliv outs) ++ d_pending s = ins_of acts.
Proof. intros H. exact (di_fifo _ _ _ _ (delay_reach _ _ _ _ _ H)). Qed.

Theorem delay_done interval sync acts s outs :
  run_steps delay_model (d_init interval sync) acts = (s, outs) ->
  all_done outs = seq 0 (n_emits acts).
Proof. intros H. exact (di_done _ _ _ _ (delay_reach _ _ _ _ _ H)). Qed.

Theorem delay_times_sorted interval sync acts s outs :
  run_steps delay_model (d_init interval sync) acts = (s, outs) ->
  StronglySorted Z.le (deliv_times (all_deliv outs)) /\
  Forall (fun t => (t <= d_now s)%Z) (deliv_times (all_deliv outs)).
Proof.
  intros H. pose proof (delay_reach _ _ _ _ _ H) as HI.
  split; [exact (di_sorted _ _ _ _ HI) | exact (di_bound _ _ _ _ HI)].
Qed.

Theorem delay_balance interval sync acts s outs :
  run_steps delay_model (d_init interval sync) acts = (s, outs) ->
  forall r, rcnt (d_rc s) r = mocc (d_held s) r.
Proof. intros H. exact (di_bal _ _ _ _ (delay_reach _ _ _ _ _ H)). Qed.

Theorem delay_cb_not_early interval sync acts s outs :
  run_steps delay_model (d_init interval sync) acts = (s, outs) ->
  NoDup (ids_of acts) -> forall r, In r (rfired (d_rc s)) -> mocc (d_held s) r = 0%Z.
Proof. intros H. exact (di_cb _ _ _ _ (delay_reach _ _ _ _ _ H)). Qed.

Theorem delay_count_nonneg interval sync acts s outs :
  run_steps delay_model (d_init interval sync) acts = (s, outs) ->
  forall r, (0 <= rcnt (d_rc s) r)%Z.
Proof. intros H r. rewrite (delay_balance _ _ _ _ _ H). apply mocc_nonneg. Qed.

(* ---- where 0 < interval matters: the forwarder never idles in get() while elements are queued ---- *)
Definition DW (interval : Z) (s : dst) : Prop :=
  d_int s = interval /\ (forall t0, d_mode s = DWait t0 -> d_q s = []).

Lemma DW_iter_fresh s s2 dl :
  (0 < d_int s)%Z -> (forall t0, d_mode s = DWait t0 -> t0 = d_now s) ->
  d_iter s = (s2, dl) -> DW (d_int s) s2.
Proof.
  intros Hpos Hfresh Hi. unfold d_iter in Hi.
  destruct (d_mode s) as [t0|t0 m0|u] eqn:Em.
  - destruct (d_q s) as [|[x m] q] eqn:Eq.
    + injection Hi as <- <-. split; [reflexivity|]. intros _ _. exact Eq.
    + rewrite (Hfresh t0 eq_refl) in Hi. unfold d_take in Hi.
      destruct (d_sync s); injection Hi as <- <-; (split; [reflexivity|]); dsimpl; [|discriminate].
      unfold d_after. destruct (Z.ltb_spec 0 (d_int s - (d_now s - d_now s))) as [X|X]; [discriminate | lia].
  - injection Hi as <- <-. split; [reflexivity|]. rewrite Em. discriminate.
  - injection Hi as <- <-. split; [reflexivity|]. rewrite Em. discriminate.
Qed.

Lemma DW_iter_one s s2 dl :
  (forall t0, d_mode s = DWait t0 -> length (d_q s) <= 1) ->
  d_iter s = (s2, dl) -> DW (d_int s) s2.
Proof.
  intros Hone Hi. unfold d_iter in Hi.
  destruct (d_mode s) as [t0|t0 m0|u] eqn:Em.
  - destruct (d_q s) as [|[x m] q] eqn:Eq.
    + injection Hi as <- <-. split; [reflexivity|]. intros _ _. exact Eq.
    + specialize (Hone t0 eq_refl). destruct q; [|cbn [length] in Hone; lia].
      unfold d_take in Hi. destruct (d_sync s); injection Hi as <- <-; (split; [reflexivity|]); dsimpl; reflexivity.
  - injection Hi as <- <-. split; [reflexivity|]. rewrite Em. discriminate.
  - injection Hi as <- <-. split; [reflexivity|]. rewrite Em. discriminate.
Qed.

Lemma DW_tick interval s s2 dl :
  (0 < interval)%Z -> DW interval s -> d_tick s = (s2, dl) -> DW interval s2.
Proof.
  intros Hpos [Hi Hw] Ht. unfold d_tick in Ht.
  destruct (d_mode s) as [t0|t0 m0|u] eqn:Em.
  - injection Ht as <- <-. split; [exact Hi|]. dsimpl. intros _ _. exact (Hw t0 eq_refl).
  - injection Ht as <- <-. split; [exact Hi|]. dsimpl. discriminate.
  - destruct (u <=? d_now s + 1)%Z.
    + apply DW_iter_fresh in Ht; dsimpl; [rewrite Hi in Ht; exact Ht | lia |].
      intros t0 H. injection H as <-. reflexivity.
    + injection Ht as <- <-. split; [exact Hi|]. dsimpl. discriminate.
Qed.

Lemma DW_adv interval : (0 < interval)%Z -> forall n s s2 dl,
  DW interval s -> d_adv n s = (s2, dl) -> DW interval s2.
Proof.
  intros Hpos. induction n as [|n IH]; intros s s2 dl HW Ha; cbn [d_adv] in Ha.
  - injection Ha as <- <-. exact HW.
  - destruct (d_tick s) as [s1 d1] eqn:Et. destruct (d_adv n s1) as [s3 d2] eqn:Ea.
    injection Ha as <- <-. eapply IH; [|exact Ea]. eapply DW_tick; [exact Hpos | exact HW | exact Et].
Qed.

Lemma DW_step interval s a s' o :
  (0 < interval)%Z -> DW interval s -> nm_step delay_model s a = (s', o) -> DW interval s'.
Proof.
  intros Hpos [Hi Hw] Hs. cbn [nm_step delay_model] in Hs.
  destruct a as [src x m| |k|dt]; cbn [d_step] in Hs.
  - match type of Hs with (let '(_, _) := d_iter ?s1 in _) = _ => destruct (d_iter s1) as [s2 dl] eqn:Ei end.
    injection Hs as <- <-. apply DW_iter_one in Ei; dsimpl; [rewrite Hi in Ei; exact Ei|].
    intros t0 Em. rewrite (Hw t0 Em). cbn. lia.
  - destruct (d_mode s) as [t0|t0 m0|u] eqn:Em; try (injection Hs as <- <-; split; [exact Hi|]; rewrite Em; discriminate).
    + injection Hs as <- <-. split; [exact Hi|]. intros _ _. exact (Hw t0 eq_refl).
    + match type of Hs with (let '(_, _) := d_iter ?s1 in _) = _ => destruct (d_iter s1) as [s2 dl] eqn:Ei end.
      injection Hs as <- <-. apply DW_iter_fresh in Ei; dsimpl; [rewrite Hi in Ei; exact Ei | lia |].
      intros t1 H. destruct (d_after_cases s (d_now s) t0) as [[u E] | E]; rewrite E in H; [discriminate|].
      injection H as <-. reflexivity.
  - injection Hs as <- <-. split; [exact Hi | exact Hw].
  - destruct (d_adv (Z.to_nat dt) s) as [s1 dl] eqn:Ea. injection Hs as <- <-.
    eapply DW_adv; [exact Hpos | split; [exact Hi | exact Hw] | exact Ea].
Qed.

Theorem delay_no_stall interval sync acts s outs :
  (0 < interval)%Z ->
  run_steps delay_model (d_init interval sync) acts = (s, outs) ->
  forall t0, d_mode s = DWait t0 -> d_pending s = [].
Proof.
  intros Hpos H.
  pose proof (run_steps_inv delay_model (fun _ s _ => DW interval s)
                (fun acts s outs a s' o HW Hs => DW_step interval s a s' o Hpos HW Hs)
                acts [] (d_init interval sync) [] s outs) as X.
  destruct X as [_ X]; [split; [reflexivity | intros _ _; reflexivity] | exact H | exact X].
Qed.

(* ---- non-vacuity: an element in flight, one queued behind a sleeping forwarder ------------------- *)
Definition dm (i : nat) : md := [{| mid := i; mref := true |}].
Definition d_ex_acts : list act :=
  [AEmit 0 (VInt 1) (dm 0); AEmit 0 (VInt 2) (dm 1); AAck; AAdv 1; AAdv 5; AAck].

Example delay_nonvacuous :
  NoDup (ids_of d_ex_acts) /\
  (let '(s, outs) := run_steps delay_model (d_init 3 false) (firstn 2 d_ex_acts) in
   d_mode s = DEmit 0 (dm 0) /\ d_q s = [(VInt 2, dm 1)] /\ all_done outs = [0; 1] /\
   map (rcnt (d_rc s)) [0; 1] = [1; 1]%Z /\ rfired (d_rc s) = []) /\
  (let '(s, outs) := run_steps delay_model (d_init 3 false) (firstn 4 d_ex_acts) in
   d_mode s = DSleep 3 /\ d_q s = [(VInt 2, dm 1)] /\ d_now s = 1%Z /\
   deliv_items (all_deliv outs) = [(VInt 1, dm 0)] /\ rfired (d_rc s) = [0]) /\
  (let '(s, outs) := run_steps delay_model (d_init 3 false) d_ex_acts in
   d_mode s = DWait 6 /\ d_q s = [] /\ deliv_times (all_deliv outs) = [0; 3]%Z /\
   deliv_items (all_deliv outs) = [(VInt 1, dm 0); (VInt 2, dm 1)] /\ rfired (d_rc s) = [0; 1]).
Proof.
  split.
  - vm_compute. repeat constructor; cbn; intuition discriminate.
  - vm_compute. repeat split; reflexivity.
Qed.

Print Assumptions delay_fifo.
Print Assumptions delay_done.
Print Assumptions delay_times_sorted.
Print Assumptions delay_balance.
Print Assumptions delay_cb_not_early.
Print Assumptions delay_count_nonneg.
Print Assumptions delay_no_stall.
Print Assumptions delay_nonvacuous.
