(* Common definitions for the asynchronous single-node models: reference counters, actions of
   the stepped harness, observations.  A model step is what the real node does between two
   quiescent points of the event loop (harness/asyncfam.py drives the real code the same way). *)
From Coq Require Import List ZArith Bool Lia Arith.
From SZ Require Import Base.Values Sync.Nodes.
Import ListNotations.
Close Scope Z_scope.
Open Scope nat_scope.

(* ---- reference counters (RefCounter.retain / release with a completion callback) ---------- *)
Record rcs := { rcnt : nat -> Z; rfired : list nat }.
Definition rc0 : rcs := {| rcnt := fun _ => 0%Z; rfired := [] |}.

Definition rc_retain1 (s : rcs) (r : nat) (n : Z) : rcs :=
  {| rcnt := fun r' => if Nat.eqb r r' then (rcnt s r' + n)%Z else rcnt s r'; rfired := rfired s |}.
Definition rc_release1 (s : rcs) (r : nat) (n : Z) : rcs :=
  let c := (rcnt s r - n)%Z in
  {| rcnt := fun r' => if Nat.eqb r r' then c else rcnt s r';
     rfired := if (c <=? 0)%Z then rfired s ++ [r] else rfired s |}.
Definition rc_retain (s : rcs) (m : md) (n : Z) : rcs :=
  fold_left (fun s i => if mref i then rc_retain1 s (mid i) n else s) m s.
Definition rc_release (s : rcs) (m : md) (n : Z) : rcs :=
  fold_left (fun s i => if mref i then rc_release1 s (mid i) n else s) m s.

(* Stream._emit towards a single downstream whose update returns at once (possibly with an
   awaitable): retain 1, call, release 1.  `inner` is what the downstream does to the counters. *)
Definition rc_via_emit (s : rcs) (m : md) (inner : rcs -> rcs) : rcs :=
  rc_release (inner (rc_retain s m 1)) m 1.

Fixpoint mocc (m : md) (r : nat) : Z :=
  match m with
  | [] => 0%Z
  | i :: t => ((if mref i && Nat.eqb (mid i) r then 1 else 0) + mocc t r)%Z
  end.

Lemma mocc_app m1 m2 r : mocc (m1 ++ m2) r = (mocc m1 r + mocc m2 r)%Z.
Proof. induction m1 as [|i t IH]; cbn [app mocc]; [lia | rewrite IH; lia]. Qed.
Lemma mocc_nonneg m r : (0 <= mocc m r)%Z.
Proof. induction m as [|i t IH]; cbn [mocc]; [lia|]. destruct (mref i && Nat.eqb (mid i) r); lia. Qed.

Lemma rcnt_retain s m n r : rcnt (rc_retain s m n) r = (rcnt s r + n * mocc m r)%Z.
Proof.
  unfold rc_retain. revert s. induction m as [|i t IH]; intros s; cbn [fold_left mocc]; [lia|].
  destruct (mref i) eqn:Ei; cbn [andb]; rewrite IH.
  - cbn [rc_retain1 rcnt]. destruct (Nat.eqb_spec (mid i) r); rewrite Z.mul_add_distr_l; lia.
  - rewrite Z.mul_add_distr_l. lia.
Qed.
Lemma rcnt_release s m n r : rcnt (rc_release s m n) r = (rcnt s r - n * mocc m r)%Z.
Proof.
  unfold rc_release. revert s. induction m as [|i t IH]; intros s; cbn [fold_left mocc]; [lia|].
  destruct (mref i) eqn:Ei; cbn [andb]; rewrite IH.
  - cbn [rc_release1 rcnt]. destruct (Nat.eqb_spec (mid i) r) as [e|e]; [rewrite e|]; rewrite Z.mul_add_distr_l; lia.
  - rewrite Z.mul_add_distr_l. lia.
Qed.
Lemma rfired_retain s m n : rfired (rc_retain s m n) = rfired s.
Proof.
  unfold rc_retain. revert s. induction m as [|i t IH]; intros s; cbn [fold_left]; [reflexivity|].
  destruct (mref i); rewrite IH; reflexivity.
Qed.

(* a callback for r is scheduled by a release only when that release left count r <= 0 *)
Lemma rfired_release_new s m r :
  In r (rfired (rc_release s m 1)) -> In r (rfired s) \/ (rcnt s r - mocc m r <= 0)%Z /\ (1 <= mocc m r)%Z.
Proof.
  unfold rc_release. revert s. induction m as [|i t IH]; intros s H; cbn [fold_left mocc] in *; [left; exact H|].
  pose proof (mocc_nonneg t r) as Ht.
  destruct (mref i) eqn:Ei; cbn [andb].
  - apply IH in H. destruct H as [H|[H1 H2]].
    + cbn [rc_release1 rfired] in H. destruct (rcnt s (mid i) - 1 <=? 0)%Z eqn:Ec; [|left; exact H].
      apply in_app_or in H as [H|[<-|[]]]; [left; exact H|]. right. rewrite Nat.eqb_refl.
      apply Z.leb_le in Ec. split; lia.
    + right. cbn [rc_release1 rcnt] in H1. destruct (Nat.eqb_spec (mid i) r) as [e|e]; [rewrite e in *|]; split; lia.
  - apply IH in H. destruct H as [H|[H1 H2]]; [left; exact H | right; split; lia].
Qed.

(* ---- harness actions and observations --------------------------------------------------------- *)
Inductive act :=
| AEmit (src : nat) (x : val) (m : md)      (* source.emit(x, metadata=m), awaitable tracked *)
| AAck                                       (* resolve the oldest outstanding sink future *)
| ATask (k : nat)                            (* complete the k-th outstanding map_async task *)
| AAdv (dt : Z).                             (* advance virtual time by dt ticks *)

Record aobs := {
  ao_now : Z;
  ao_deliv : list (Z * val * md);            (* (tick, value, metadata) received by the sink in this step *)
  ao_done : list nat;                        (* emits whose awaitable completed in this step (sorted) *)
  ao_counts : list Z;
  ao_fired : list nat;
}.

Definition deliv_eqb (a b : Z * val * md) : bool :=
  Z.eqb (fst (fst a)) (fst (fst b)) && val_eqb (snd (fst a)) (snd (fst b)) && list_eqb mdi_eqb (snd a) (snd b).

Definition aobs_eqb (a b : aobs) : bool :=
  Z.eqb (ao_now a) (ao_now b) && list_eqb deliv_eqb (ao_deliv a) (ao_deliv b)
  && list_eqb Nat.eqb (ao_done a) (ao_done b) && list_eqb Z.eqb (ao_counts a) (ao_counts b)
  && list_eqb Nat.eqb (ao_fired a) (ao_fired b).

(* insertion into a sorted list of emit ids (the harness reports `done` sorted) *)
Fixpoint ins_sorted (x : nat) (l : list nat) : list nat :=
  match l with
  | [] => [x]
  | h :: t => if x <=? h then x :: l else h :: ins_sorted x t
  end.
Definition sort_nat (l : list nat) : list nat := fold_right ins_sorted [] l.

(* a node model *)
Record node_model := {
  nm_state : Type;
  nm_step : nm_state -> act -> nm_state * (list (Z * val * md) * list nat);
  nm_now : nm_state -> Z;
  nm_rc : nm_state -> rcs;
}.

Definition observe (M : node_model) (nrc : nat) (s : nm_state M) (o : list (Z * val * md) * list nat) : aobs :=
  {| ao_now := nm_now M s; ao_deliv := fst o; ao_done := sort_nat (snd o);
     ao_counts := map (rcnt (nm_rc M s)) (seq 0 nrc); ao_fired := rfired (nm_rc M s) |}.

Fixpoint run_model (M : node_model) (nrc : nat) (s : nm_state M) (acts : list act) : list aobs :=
  match acts with
  | [] => []
  | a :: t => let '(s', o) := nm_step M s a in observe M nrc s' o :: run_model M nrc s' t
  end.

Record acase (M : node_model) := {
  ac_init : nm_state M * (list (Z * val * md) * list nat);     (* state after construction + what construction emitted *)
  ac_nrc : nat;
  ac_acts : list act;
  ac_observed : list aobs;
}.

Definition aagree (M : node_model) (c : acase M) : bool :=
  list_eqb aobs_eqb
    (observe M (ac_nrc M c) (fst (ac_init M c)) (snd (ac_init M c)) :: run_model M (ac_nrc M c) (fst (ac_init M c)) (ac_acts M c))
    (ac_observed M c).

Fixpoint amismatches_from (M : node_model) (i : nat) (cs : list (acase M)) : list nat :=
  match cs with
  | [] => []
  | c :: t => if aagree M c then amismatches_from M (S i) t else i :: amismatches_from M (S i) t
  end.
Definition amismatches (M : node_model) (cs : list (acase M)) : list nat := amismatches_from M 0 cs.

(* ---- traces (theorems are stated about these) ------------------------------------------------- *)
Fixpoint run_steps (M : node_model) (s : nm_state M) (acts : list act)
  : nm_state M * list (list (Z * val * md) * list nat) :=
  match acts with
  | [] => (s, [])
  | a :: t => let '(s1, o) := nm_step M s a in
              let '(s2, os) := run_steps M s1 t in (s2, o :: os)
  end.

Definition all_deliv (outs : list (list (Z * val * md) * list nat)) : list (Z * val * md) := flat_map fst outs.
Definition all_done (outs : list (list (Z * val * md) * list nat)) : list nat := flat_map snd outs.
Definition deliv_items (l : list (Z * val * md)) : list (val * md) := map (fun d => (snd (fst d), snd d)) l.
Definition deliv_times (l : list (Z * val * md)) : list Z := map (fun d => fst (fst d)) l.

(* what was pushed in, and the counter ids attached to it *)
Definition ins_of (acts : list act) : list (val * md) :=
  flat_map (fun a => match a with AEmit _ x m => [(x, m)] | _ => [] end) acts.
Definition ins_src (src : nat) (acts : list act) : list (val * md) :=
  flat_map (fun a => match a with AEmit s x m => if s =? src then [(x, m)] else [] | _ => [] end) acts.
Definition ids_of (acts : list act) : list nat :=
  flat_map (fun a => match a with AEmit _ _ m => map mid (filter mref m) | _ => [] end) acts.
Definition n_emits (acts : list act) : nat := length (ins_of acts).

Lemma run_steps_app M : forall a1 s a2,
  run_steps M s (a1 ++ a2) =
  let '(s1, o1) := run_steps M s a1 in let '(s2, o2) := run_steps M s1 a2 in (s2, o1 ++ o2).
Proof.
  induction a1 as [|a t IH]; intros s a2; cbn [app run_steps].
  - destruct (run_steps M s a2); reflexivity.
  - destruct (nm_step M s a) as [s1 o]. rewrite IH.
    destruct (run_steps M s1 t) as [s2 os]. destruct (run_steps M s2 a2) as [s3 os3]. reflexivity.
Qed.

Lemma mocc_le_one_of_nodup m r : NoDup (map mid (filter mref m)) -> (mocc m r <= 1)%Z.
Proof.
  induction m as [|i t IH]; intros H; cbn [mocc filter map] in *; [lia|].
  destruct (mref i) eqn:Ei; cbn [andb map] in *.
  - inversion H as [|? ? Hn Ht]; subst. specialize (IH Ht).
    destruct (Nat.eqb_spec (mid i) r) as [E|E]; [|lia].
    assert (mocc t r = 0%Z); [|lia]. clear -Hn E. subst r.
    induction t as [|j t IH]; cbn [mocc]; [reflexivity|].
    cbn [filter map] in Hn. destruct (mref j) eqn:Ej; cbn [andb map] in *.
    + destruct (Nat.eqb_spec (mid j) (mid i)) as [E2|E2]; [exfalso; apply Hn; left; exact E2|].
      rewrite IH; [reflexivity|]. intros X. apply Hn. right. exact X.
    + apply IH. exact Hn.
  - apply IH. exact H.
Qed.
