(* rate_limit(interval):  every update is its own coroutine
     update: retain(md); now = time(); old_next = self.next; self.next = max(now, self.next) + interval
             if now < old_next: yield sleep(old_next - now)
             yield self._emit(x, md); release(md) *)
From Coq Require Import List ZArith Bool Lia Arith.
From SZ Require Import Base.Values Sync.Nodes Async.Core.
Import ListNotations.
Close Scope Z_scope.
Open Scope nat_scope.

(* the slot reservation kernel (also regenerated from the source into Gen/RateLimitKernel.v) *)
Definition rl_slot (now next interval : Z) : Z * Z :=      (* (new next, delivery time) *)
  ((Z.max now next + interval)%Z, Z.max now next).

Record rst := {
  r_int : Z; r_sync : bool; r_now : Z; r_rc : rcs; r_nextid : nat;
  r_next : Z;                                   (* self.next *)
  r_sleep : list (Z * val * md * nat);          (* sleeping updates: due, element, emit id; due increasing *)
  r_flight : list (md * nat);                   (* updates awaiting the sink, oldest first *)
}.

Definition r_init (interval : Z) (sync : bool) : rst :=
  {| r_int := interval; r_sync := sync; r_now := 0%Z; r_rc := rc0; r_nextid := 0; r_next := 0%Z;
     r_sleep := []; r_flight := [] |}.

(* an update reaches `yield self._emit(x, md)` at time t *)
Definition r_deliver (s : rst) (t : Z) (rc : rcs) (x : val) (m : md) (e : nat)
  : rcs * list (md * nat) * list (Z * val * md) * list nat :=
  let rc1 := rc_via_emit rc m (fun r => r) in
  if r_sync s then (rc_release rc1 m 1, [], [(t, x, m)], [e])
  else (rc1, [(m, e)], [(t, x, m)], []).

Definition r_tick (s : rst) : rst * (list (Z * val * md) * list nat) :=
  let now := (r_now s + 1)%Z in
  match r_sleep s with
  | (due, x, m, e) :: rest =>
      if (due <=? now)%Z then
        let '(rc1, fl, dl, dn) := r_deliver s now (r_rc s) x m e in
        ({| r_int := r_int s; r_sync := r_sync s; r_now := now; r_rc := rc1; r_nextid := r_nextid s;
            r_next := r_next s; r_sleep := rest; r_flight := r_flight s ++ fl |}, (dl, dn))
      else ({| r_int := r_int s; r_sync := r_sync s; r_now := now; r_rc := r_rc s; r_nextid := r_nextid s;
               r_next := r_next s; r_sleep := r_sleep s; r_flight := r_flight s |}, ([], []))
  | [] => ({| r_int := r_int s; r_sync := r_sync s; r_now := now; r_rc := r_rc s; r_nextid := r_nextid s;
              r_next := r_next s; r_sleep := []; r_flight := r_flight s |}, ([], []))
  end.

Fixpoint r_adv (n : nat) (s : rst) : rst * (list (Z * val * md) * list nat) :=
  match n with
  | O => (s, ([], []))
  | S n' => let '(s1, (d1, n1)) := r_tick s in let '(s2, (d2, n2)) := r_adv n' s1 in (s2, (d1 ++ d2, n1 ++ n2))
  end.

Definition r_step (s : rst) (a : act) : rst * (list (Z * val * md) * list nat) :=
  match a with
  | AEmit _ x m =>
      let e := r_nextid s in
      let now := r_now s in
      let '(next', slot) := rl_slot now (r_next s) (r_int s) in
      if (now <? r_next s)%Z then
        (* source retain, rate_limit retain, (sleep), source release *)
        let rc := rc_via_emit (r_rc s) m (fun r => rc_retain r m 1) in
        ({| r_int := r_int s; r_sync := r_sync s; r_now := now; r_rc := rc; r_nextid := S e; r_next := next';
            r_sleep := r_sleep s ++ [(r_next s, x, m, e)]; r_flight := r_flight s |}, ([], []))
      else
        let rc0' := rc_retain (rc_retain (r_rc s) m 1) m 1 in
        let '(rc1, fl, dl, dn) := r_deliver s now rc0' x m e in
        ({| r_int := r_int s; r_sync := r_sync s; r_now := now; r_rc := rc_release rc1 m 1; r_nextid := S e;
            r_next := next'; r_sleep := r_sleep s; r_flight := r_flight s ++ fl |}, (dl, dn))
  | AAck =>
      match r_flight s with
      | (m, e) :: rest =>
          ({| r_int := r_int s; r_sync := r_sync s; r_now := r_now s; r_rc := rc_release (r_rc s) m 1;
              r_nextid := r_nextid s; r_next := r_next s; r_sleep := r_sleep s; r_flight := rest |}, ([], [e]))
      | [] => (s, ([], []))
      end
  | ATask _ => (s, ([], []))
  | AAdv dt => r_adv (Z.to_nat dt) s
  end.

Definition rate_limit_model : node_model :=
  {| nm_state := rst; nm_step := r_step; nm_now := r_now; nm_rc := r_rc |}.
