(* map_async(func, parallelism=p):
     update:       retain(md); return create_task(_insert_job(x, md))
     _insert_job:  while work_queue.full(): await sleep(0)
                   task = create_task(func(x)); await work_queue.put((task, md))
     work_callback: while True: task, md = await work_queue.get(); result = await task
                                results = self._emit(result, md); await the gathered results; release(md)
   NOTE (as found, kept by the existing test-suite): taking a job out of the queue frees its slot while the
   job's task is still running, so up to p + 1 tasks run concurrently. *)
From Coq Require Import List ZArith Bool Lia Arith.
From SZ Require Import Base.Values Sync.Nodes Async.Core.
Import ListNotations.
Close Scope Z_scope.
Open Scope nat_scope.

Inductive mworker :=
| MIdle
| MTask (tid : nat) (m : md)         (* awaiting the task it dequeued *)
| MEmit (m : md).                    (* awaiting the sink *)

Record mst := {
  m_p : nat; m_sync : bool; m_now : Z; m_rc : rcs; m_next : nat; m_tid : nat;
  m_queue : list (nat * md);               (* work_queue: task id, metadata *)
  m_worker : mworker;
  m_blocked : list (val * md * nat);       (* _insert_job coroutines spinning for a slot, oldest first *)
  m_running : list (nat * val);            (* started, not finished tasks in start order *)
  m_finished : list (nat * val);           (* finished tasks not yet consumed by the worker: id, result *)
}.

Definition m_init (p : nat) (sync : bool) : mst :=
  {| m_p := p; m_sync := sync; m_now := 0%Z; m_rc := rc0; m_next := 0; m_tid := 0; m_queue := [];
     m_worker := MIdle; m_blocked := []; m_running := []; m_finished := [] |}.

Fixpoint find_res (tid : nat) (l : list (nat * val)) : option val :=
  match l with
  | [] => None
  | (t, r) :: rest => if t =? tid then Some r else find_res tid rest
  end.
Fixpoint drop_res (tid : nat) (l : list (nat * val)) : list (nat * val) :=
  match l with
  | [] => []
  | (t, r) :: rest => if t =? tid then rest else (t, r) :: drop_res tid rest
  end.

(* the harness's mapped coroutine returns 10 * x for integers *)
Definition task_result (x : val) : val := match x with VInt z => VInt (z * 10)%Z | _ => x end.

(* apply enabled internal steps until none is enabled *)
Fixpoint m_pump (fuel : nat) (s : mst) : mst * (list (Z * val * md) * list nat) :=
  match fuel with
  | O => (s, ([], []))
  | S fuel' =>
      match m_worker s, m_queue s with
      | MIdle, (tid, m) :: q =>
          m_pump fuel' {| m_p := m_p s; m_sync := m_sync s; m_now := m_now s; m_rc := m_rc s; m_next := m_next s;
                          m_tid := m_tid s; m_queue := q; m_worker := MTask tid m; m_blocked := m_blocked s;
                          m_running := m_running s; m_finished := m_finished s |}
      | _, _ =>
          match m_worker s with
          | MTask tid m =>
              match find_res tid (m_finished s) with
              | Some r =>
                  let rc1 := rc_via_emit (m_rc s) m (fun x => x) in
                  let s1 := {| m_p := m_p s; m_sync := m_sync s; m_now := m_now s;
                               m_rc := if m_sync s then rc_release rc1 m 1 else rc1;
                               m_next := m_next s; m_tid := m_tid s; m_queue := m_queue s;
                               m_worker := if m_sync s then MIdle else MEmit m; m_blocked := m_blocked s;
                               m_running := m_running s; m_finished := drop_res tid (m_finished s) |} in
                  let '(s2, (dl, dn)) := m_pump fuel' s1 in
                  (s2, ((m_now s, r, m) :: dl, dn))
              | None => m_insert fuel' s
              end
          | _ => m_insert fuel' s
          end
      end
  end
with m_insert (fuel : nat) (s : mst) : mst * (list (Z * val * md) * list nat) :=
  match fuel with
  | O => (s, ([], []))
  | S fuel' =>
      match m_blocked s with
      | (x, m, e) :: rest =>
          if length (m_queue s) <? m_p s then
            let s1 := {| m_p := m_p s; m_sync := m_sync s; m_now := m_now s; m_rc := m_rc s; m_next := m_next s;
                         m_tid := S (m_tid s); m_queue := m_queue s ++ [(m_tid s, m)]; m_worker := m_worker s;
                         m_blocked := rest; m_running := m_running s ++ [(m_tid s, x)]; m_finished := m_finished s |} in
            let '(s2, (dl, dn)) := m_pump fuel' s1 in (s2, (dl, e :: dn))
          else (s, ([], []))
      | [] => (s, ([], []))
      end
  end.

Definition m_fuel (s : mst) : nat := 4 * (3 + length (m_queue s) + length (m_blocked s) + length (m_finished s)).

Fixpoint take_nth {A} (k : nat) (l : list A) : option (A * list A) :=
  match l, k with
  | [], _ => None
  | h :: t, O => Some (h, t)
  | h :: t, S k' => match take_nth k' t with Some (x, r) => Some (x, h :: r) | None => None end
  end.

Definition m_step (s : mst) (a : act) : mst * (list (Z * val * md) * list nat) :=
  match a with
  | AEmit _ x m =>
      let e := m_next s in
      let rc := rc_via_emit (m_rc s) m (fun r => rc_retain r m 1) in
      let s1 := {| m_p := m_p s; m_sync := m_sync s; m_now := m_now s; m_rc := rc; m_next := S e; m_tid := m_tid s;
                   m_queue := m_queue s; m_worker := m_worker s; m_blocked := m_blocked s ++ [(x, m, e)];
                   m_running := m_running s; m_finished := m_finished s |} in
      m_pump (m_fuel s1) s1
  | AAck =>
      match m_worker s with
      | MEmit m =>
          let s1 := {| m_p := m_p s; m_sync := m_sync s; m_now := m_now s; m_rc := rc_release (m_rc s) m 1;
                       m_next := m_next s; m_tid := m_tid s; m_queue := m_queue s; m_worker := MIdle;
                       m_blocked := m_blocked s; m_running := m_running s; m_finished := m_finished s |} in
          m_pump (m_fuel s1) s1
      | _ => (s, ([], []))
      end
  | ATask k =>
      match take_nth k (m_running s) with
      | Some ((tid, x), rest) =>
          let s1 := {| m_p := m_p s; m_sync := m_sync s; m_now := m_now s; m_rc := m_rc s; m_next := m_next s;
                       m_tid := m_tid s; m_queue := m_queue s; m_worker := m_worker s; m_blocked := m_blocked s;
                       m_running := rest; m_finished := m_finished s ++ [(tid, task_result x)] |} in
          m_pump (m_fuel s1) s1
      | None => (s, ([], []))
      end
  | AAdv dt =>
      ({| m_p := m_p s; m_sync := m_sync s; m_now := (m_now s + dt)%Z; m_rc := m_rc s; m_next := m_next s;
          m_tid := m_tid s; m_queue := m_queue s; m_worker := m_worker s; m_blocked := m_blocked s;
          m_running := m_running s; m_finished := m_finished s |}, ([], []))
  end.

Definition map_async_model : node_model :=
  {| nm_state := mst; nm_step := m_step; nm_now := m_now; nm_rc := m_rc |}.
