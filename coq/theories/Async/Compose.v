(* Composition of lossless stages (C02 pipeline level): if every stage, at every moment, has delivered a
   prefix of what its list-level meaning prescribes for what it received so far, and the meanings are
   prefix-monotone, then so has the chain; and when every stage is complete the chain is complete. *)
From Coq Require Import List.
Import ListNotations.

Definition prefix {A} (l1 l2 : list A) : Prop := exists t, l2 = l1 ++ t.

Lemma prefix_refl {A} (l : list A) : prefix l l.
Proof. exists []. rewrite app_nil_r. reflexivity. Qed.
Lemma prefix_trans {A} (a b c : list A) : prefix a b -> prefix b c -> prefix a c.
Proof. intros [t1 ->] [t2 ->]. exists (t1 ++ t2). rewrite app_assoc. reflexivity. Qed.

Definition monotone {A B} (f : list A -> list B) : Prop := forall l1 l2, prefix l1 l2 -> prefix (f l1) (f l2).

(* a stage observed at some moment: what went in, what came out *)
Theorem chain_prefix {A B C} (f : list A -> list B) (g : list B -> list C) (ins : list A) (mid : list B) (outs : list C) :
  monotone g -> prefix mid (f ins) -> prefix outs (g mid) -> prefix outs (g (f ins)).
Proof. intros Hg H1 H2. eapply prefix_trans; [exact H2 | apply Hg; exact H1]. Qed.

Theorem chain_complete {A B C} (f : list A -> list B) (g : list B -> list C) (ins : list A) (mid : list B) (outs : list C) :
  mid = f ins -> outs = g mid -> outs = g (f ins).
Proof. intros -> ->. reflexivity. Qed.

Lemma monotone_map {A B} (h : A -> B) : monotone (map h).
Proof. intros l1 l2 [t ->]. exists (map h t). apply map_app. Qed.
Lemma monotone_filter {A} (p : A -> bool) : monotone (filter p).
Proof. intros l1 l2 [t ->]. exists (filter p t). apply filter_app. Qed.
Lemma monotone_id {A} : monotone (fun l : list A => l).
Proof. intros l1 l2 H. exact H. Qed.
Lemma monotone_comp {A B C} (f : list A -> list B) (g : list B -> list C) :
  monotone f -> monotone g -> monotone (fun l => g (f l)).
Proof. intros Hf Hg l1 l2 H. apply Hg, Hf, H. Qed.
