(* partition(n, timeout, key) on the event loop:
     update (coroutine): retain(md); append to the key's buffer
                         if len == n: (cancel the key's timer when timeout and n > 1); yield self._flush(key); return
                         if len == 1 and timeout: arm call_later(timeout, self._flush, key)
     _flush (coroutine): swap the key's buffers; yield self._emit(tuple, md); release(md) *)
From Coq Require Import List ZArith Bool Lia Arith.
From SZ Require Import Base.Values Sync.Nodes Async.Core.
Import ListNotations.
Close Scope Z_scope.
Open Scope nat_scope.

Record pst := {
  p_n : nat; p_to : option Z; p_key : option (val -> val); p_sync : bool;
  p_now : Z; p_rc : rcs; p_next : nat;
  p_bufs : list (val * (list val * md));      (* per key *)
  p_timers : list (val * Z);                  (* armed timers: key, due; in arming order *)
  p_flight : list (md * option nat);          (* flushes awaiting the sink, oldest first; Some e = the emit waits for it *)
}.

Definition p_init (n : nat) (timeout : option Z) (key : option (val -> val)) (sync : bool) : pst :=
  {| p_n := n; p_to := timeout; p_key := key; p_sync := sync; p_now := 0%Z; p_rc := rc0; p_next := 0;
     p_bufs := []; p_timers := []; p_flight := [] |}.

Definition p_upd (s : pst) (now : Z) (rc : rcs) (bufs : list (val * (list val * md))) (timers : list (val * Z))
           (flight : list (md * option nat)) : pst :=
  {| p_n := p_n s; p_to := p_to s; p_key := p_key s; p_sync := p_sync s; p_now := now; p_rc := rc; p_next := p_next s;
     p_bufs := bufs; p_timers := timers; p_flight := flight |}.

Definition p_get (k : val) (l : list (val * (list val * md))) : list val * md :=
  match assoc_get k l with Some b => b | None => ([], []) end.

(* _flush(key) at time `now`; who = Some e when an update coroutine waits for it *)
Definition p_flush (s : pst) (now : Z) (rc : rcs) (bufs : list (val * (list val * md))) (k : val) (who : option nat)
  : rcs * list (val * (list val * md)) * list (md * option nat) * list (Z * val * md) * list nat :=
  let '(vs, m) := p_get k bufs in
  let bufs' := assoc_set k ([], []) bufs in
  let rc1 := rc_via_emit rc m (fun r => r) in
  if p_sync s then (rc_release rc1 m 1, bufs', [], [(now, VTup vs, m)], match who with Some e => [e] | None => [] end)
  else (rc1, bufs', [(m, who)], [(now, VTup vs, m)], []).

Fixpoint tremove (k : val) (l : list (val * Z)) : list (val * Z) :=
  match l with
  | [] => []
  | (k', d) :: t => if val_eqb k k' then t else (k', d) :: tremove k t
  end.

(* fire, in arming order, the timers due at `now` *)
Fixpoint p_fire (s : pst) (now : Z) (timers : list (val * Z)) (rc : rcs) (bufs : list (val * (list val * md)))
  : rcs * list (val * (list val * md)) * list (val * Z) * list (md * option nat) * list (Z * val * md) :=
  match timers with
  | [] => (rc, bufs, [], [], [])
  | (k, due) :: rest =>
      if (due <=? now)%Z then
        let '(rc1, bufs1, fl1, dl1, _) := p_flush s now rc bufs k None in
        let '(rc2, bufs2, rest2, fl2, dl2) := p_fire s now rest rc1 bufs1 in
        (rc2, bufs2, rest2, fl1 ++ fl2, dl1 ++ dl2)
      else
        let '(rc2, bufs2, rest2, fl2, dl2) := p_fire s now rest rc bufs in
        (rc2, bufs2, (k, due) :: rest2, fl2, dl2)
  end.

Definition p_tick (s : pst) : pst * list (Z * val * md) :=
  let now := (p_now s + 1)%Z in
  let '(rc, bufs, timers, fl, dl) := p_fire s now (p_timers s) (p_rc s) (p_bufs s) in
  (p_upd s now rc bufs timers (p_flight s ++ fl), dl).

Fixpoint p_adv (n : nat) (s : pst) : pst * list (Z * val * md) :=
  match n with
  | O => (s, [])
  | S n' => let '(s1, d1) := p_tick s in let '(s2, d2) := p_adv n' s1 in (s2, d1 ++ d2)
  end.

Definition p_step (s : pst) (a : act) : pst * (list (Z * val * md) * list nat) :=
  match a with
  | AEmit _ x m =>
      let e := p_next s in
      let k := match p_key s with Some kf => kf x | None => VNone end in
      let '(vs, ms) := p_get k (p_bufs s) in
      let vs' := vs ++ [x] in
      let bufs1 := assoc_set k (vs', ms ++ m) (p_bufs s) in
      (* source retain 1, partition retain 1 *)
      let rc0' := rc_retain (rc_retain (p_rc s) m 1) m 1 in
      if length vs' =? p_n s then
        let timers1 := match p_to s with Some _ => if 1 <? p_n s then tremove k (p_timers s) else p_timers s | None => p_timers s end in
        let '(rc1, bufs2, fl, dl, dn) := p_flush s (p_now s) rc0' bufs1 k (Some e) in
        ({| p_n := p_n s; p_to := p_to s; p_key := p_key s; p_sync := p_sync s; p_now := p_now s;
            p_rc := rc_release rc1 m 1; p_next := S e; p_bufs := bufs2; p_timers := timers1;
            p_flight := p_flight s ++ fl |}, (dl, dn))
      else
        let timers1 := match p_to s with
                       | Some t => if length vs' =? 1 then p_timers s ++ [(k, (p_now s + t)%Z)] else p_timers s
                       | None => p_timers s end in
        ({| p_n := p_n s; p_to := p_to s; p_key := p_key s; p_sync := p_sync s; p_now := p_now s;
            p_rc := rc_release rc0' m 1; p_next := S e; p_bufs := bufs1; p_timers := timers1;
            p_flight := p_flight s |}, ([], [e]))
  | AAck =>
      match p_flight s with
      | (m, who) :: rest =>
          (p_upd s (p_now s) (rc_release (p_rc s) m 1) (p_bufs s) (p_timers s) rest,
           ([], match who with Some e => [e] | None => [] end))
      | [] => (s, ([], []))
      end
  | ATask _ => (s, ([], []))
  | AAdv dt => let '(s1, dl) := p_adv (Z.to_nat dt) s in (s1, (dl, []))
  end.

Definition partition_model : node_model :=
  {| nm_state := pst; nm_step := p_step; nm_now := p_now; nm_rc := p_rc |}.
