(* latest():
     update: release(previous slot md); retain(md); slot = (x, md); fresh = True; add_callback(notify)
     cb:     while True:
               while not fresh: yield condition.wait()
               fresh = False; x, md = slot; retain(md); yield self._emit(x, md); release(md)
   The slot keeps its reference until it is superseded (existing behaviour, see test_latest_ref_counts). *)
From Coq Require Import List ZArith Bool Lia Arith.
From SZ Require Import Base.Values Sync.Nodes Async.Core.
Import ListNotations.
Close Scope Z_scope.
Open Scope nat_scope.

Record lst := {
  l_sync : bool; l_now : Z; l_rc : rcs; l_next : nat;
  l_slot : option (val * md);
  l_fresh : bool;
  l_busy : option md;              (* forwarder awaits the sink: metadata of the element in flight *)
}.

Definition l_init (sync : bool) : lst :=
  {| l_sync := sync; l_now := 0%Z; l_rc := rc0; l_next := 0; l_slot := None; l_fresh := false; l_busy := None |}.

(* the forwarder is free: forward the slot if it is fresh *)
Definition l_forward (s : lst) : lst * list (Z * val * md) :=
  match l_busy s, l_fresh s, l_slot s with
  | None, true, Some (x, m) =>
      let rc1 := rc_via_emit (rc_retain (l_rc s) m 1) m (fun r => r) in
      if l_sync s then
        ({| l_sync := l_sync s; l_now := l_now s; l_rc := rc_release rc1 m 1; l_next := l_next s;
            l_slot := l_slot s; l_fresh := false; l_busy := None |}, [(l_now s, x, m)])
      else
        ({| l_sync := l_sync s; l_now := l_now s; l_rc := rc1; l_next := l_next s;
            l_slot := l_slot s; l_fresh := false; l_busy := Some m |}, [(l_now s, x, m)])
  | _, _, _ => (s, [])
  end.

Definition l_step (s : lst) (a : act) : lst * (list (Z * val * md) * list nat) :=
  match a with
  | AEmit _ x m =>
      let e := l_next s in
      let old := match l_slot s with Some (_, om) => om | None => [] end in
      let rc := rc_via_emit (l_rc s) m (fun r => rc_retain (rc_release r old 1) m 1) in
      let s1 := {| l_sync := l_sync s; l_now := l_now s; l_rc := rc; l_next := S e;
                   l_slot := Some (x, m); l_fresh := true; l_busy := l_busy s |} in
      let '(s2, dl) := l_forward s1 in (s2, (dl, [e]))
  | AAck =>
      match l_busy s with
      | Some m =>
          let s1 := {| l_sync := l_sync s; l_now := l_now s; l_rc := rc_release (l_rc s) m 1; l_next := l_next s;
                       l_slot := l_slot s; l_fresh := l_fresh s; l_busy := None |} in
          let '(s2, dl) := l_forward s1 in (s2, (dl, []))
      | None => (s, ([], []))
      end
  | ATask _ => (s, ([], []))
  | AAdv dt =>
      ({| l_sync := l_sync s; l_now := (l_now s + dt)%Z; l_rc := l_rc s; l_next := l_next s;
          l_slot := l_slot s; l_fresh := l_fresh s; l_busy := l_busy s |}, ([], []))
  end.

Definition latest_model : node_model :=
  {| nm_state := lst; nm_step := l_step; nm_now := l_now; nm_rc := l_rc |}.
