(* buffer(n): tornado Queue(maxsize=n) + one consumer coroutine
     cb:      while True: x, md = yield queue.get(); yield self._emit(x, md); release(md)
     update:  retain(md); return queue.put((x, md))
   between a controlled source and a controlled (or synchronous) sink. *)
From Coq Require Import List ZArith Bool Lia Arith.
From SZ Require Import Base.Values Sync.Nodes Async.Core.
Import ListNotations.
Close Scope Z_scope.
Open Scope nat_scope.

Record bst := {
  b_n : nat;                               (* maxsize *)
  b_sync : bool;                           (* the sink returns no awaitable *)
  b_now : Z;
  b_rc : rcs;
  b_next : nat;                            (* id of the next emit *)
  b_q : list (val * md);                   (* queue, head first *)
  b_putters : list (val * md * nat);       (* blocked put()s with the id of their emit *)
  b_busy : option md;                      (* consumer awaits the sink: metadata of the element in flight *)
}.

Definition b_init (n : nat) (sync : bool) : bst :=
  {| b_n := n; b_sync := sync; b_now := 0%Z; b_rc := rc0; b_next := 0; b_q := []; b_putters := []; b_busy := None |}.

(* the consumer hands (x, m) to the sink: buffer._emit retains/releases around sink.update; with a
   synchronous sink the consumer then releases its own reference at once *)
Definition b_deliver_rc (sync : bool) (rc : rcs) (m : md) : rcs :=
  let rc := rc_via_emit rc m (fun r => r) in
  if sync then rc_release rc m 1 else rc.

(* consumer loop after it became free: with a synchronous sink it drains everything *)
Fixpoint b_drain (fuel : nat) (sync : bool) (now : Z) (rc : rcs) (q : list (val * md)) (putters : list (val * md * nat))
  : rcs * list (val * md) * list (val * md * nat) * option md * list (Z * val * md) * list nat :=
  match fuel with
  | O => (rc, q, putters, None, [], [])
  | S fuel' =>
      (* queue.get(): a waiting putter first moves its item into the queue *)
      let '(q1, putters1, done1) :=
        match putters with
        | (x, m, e) :: pt => (q ++ [(x, m)], pt, [e])
        | [] => (q, [], [])
        end in
      match q1 with
      | [] => (rc, [], putters1, None, [], done1)
      | (x, m) :: qt =>
          let rc1 := b_deliver_rc sync rc m in
          if sync then
            let '(rc2, q2, p2, busy2, dl, dn) := b_drain fuel' sync now rc1 qt putters1 in
            (rc2, q2, p2, busy2, (now, x, m) :: dl, done1 ++ dn)
          else (rc1, qt, putters1, Some m, [(now, x, m)], done1)
      end
  end.

Definition b_step (s : bst) (a : act) : bst * (list (Z * val * md) * list nat) :=
  match a with
  | AEmit _ x m =>
      let e := b_next s in
      (* source._emit: retain 1; buffer.update: retain 1, put; source: release 1 *)
      let rc := rc_via_emit (b_rc s) m (fun r => rc_retain r m 1) in
      match b_busy s with
      | None =>
          (* the consumer is waiting in get(): direct hand-off *)
          let rc1 := b_deliver_rc (b_sync s) rc m in
          ({| b_n := b_n s; b_sync := b_sync s; b_now := b_now s; b_rc := rc1; b_next := S e;
              b_q := []; b_putters := []; b_busy := if b_sync s then None else Some m |},
           ([(b_now s, x, m)], [e]))
      | Some _ =>
          if length (b_q s) <? b_n s then
            ({| b_n := b_n s; b_sync := b_sync s; b_now := b_now s; b_rc := rc; b_next := S e;
                b_q := b_q s ++ [(x, m)]; b_putters := b_putters s; b_busy := b_busy s |}, ([], [e]))
          else
            ({| b_n := b_n s; b_sync := b_sync s; b_now := b_now s; b_rc := rc; b_next := S e;
                b_q := b_q s; b_putters := b_putters s ++ [(x, m, e)]; b_busy := b_busy s |}, ([], []))
      end
  | AAck =>
      match b_busy s with
      | None => (s, ([], []))
      | Some m0 =>
          let rc := rc_release (b_rc s) m0 1 in
          let '(rc1, q1, p1, busy1, dl, dn) :=
            b_drain (S (length (b_q s) + length (b_putters s))) (b_sync s) (b_now s) rc (b_q s) (b_putters s) in
          ({| b_n := b_n s; b_sync := b_sync s; b_now := b_now s; b_rc := rc1; b_next := b_next s;
              b_q := q1; b_putters := p1; b_busy := busy1 |}, (dl, dn))
      end
  | ATask _ => (s, ([], []))
  | AAdv dt =>
      ({| b_n := b_n s; b_sync := b_sync s; b_now := (b_now s + dt)%Z; b_rc := b_rc s; b_next := b_next s;
          b_q := b_q s; b_putters := b_putters s; b_busy := b_busy s |}, ([], []))
  end.

Definition buffer_model : node_model :=
  {| nm_state := bst; nm_step := b_step; nm_now := b_now; nm_rc := b_rc |}.
