(* source.map(identity).sink(f): no buffering node.  The awaitable of emit is the sink's awaitable;
   Stream._emit releases right after update() returned, whatever it returned. *)
From Coq Require Import List ZArith Bool Lia Arith.
From SZ Require Import Base.Values Sync.Nodes Async.Core.
Import ListNotations.
Close Scope Z_scope.
Open Scope nat_scope.

Record plst := { pl_sync : bool; pl_now : Z; pl_rc : rcs; pl_next : nat; pl_flight : list nat }.

Definition pl_init (sync : bool) : plst := {| pl_sync := sync; pl_now := 0%Z; pl_rc := rc0; pl_next := 0; pl_flight := [] |}.

Definition pl_step (s : plst) (a : act) : plst * (list (Z * val * md) * list nat) :=
  match a with
  | AEmit _ x m =>
      let e := pl_next s in
      let rc := rc_via_emit (pl_rc s) m (fun r => rc_via_emit r m (fun r => r)) in
      ({| pl_sync := pl_sync s; pl_now := pl_now s; pl_rc := rc; pl_next := S e;
          pl_flight := if pl_sync s then pl_flight s else pl_flight s ++ [e] |},
       ([(pl_now s, x, m)], if pl_sync s then [e] else []))
  | AAck =>
      match pl_flight s with
      | e :: rest => ({| pl_sync := pl_sync s; pl_now := pl_now s; pl_rc := pl_rc s; pl_next := pl_next s; pl_flight := rest |}, ([], [e]))
      | [] => (s, ([], []))
      end
  | ATask _ => (s, ([], []))
  | AAdv dt => ({| pl_sync := pl_sync s; pl_now := (pl_now s + dt)%Z; pl_rc := pl_rc s; pl_next := pl_next s; pl_flight := pl_flight s |}, ([], []))
  end.

Definition plain_model : node_model := {| nm_state := plst; nm_step := pl_step; nm_now := pl_now; nm_rc := pl_rc |}.

(* C04 known finding, as a theorem about the faithful model: the callback of an element is scheduled while the
   (asynchronous) sink handling it has not finished *)
Example plain_cb_early_refuted :
  exists acts s outs r, NoDup (ids_of acts) /\ run_steps plain_model (pl_init false) acts = (s, outs)
    /\ In r (rfired (pl_rc s)) /\ pl_flight s <> [].
Proof.
  exists [AEmit 0 (VInt 1%Z) [{| mid := 0; mref := true |}]].
  eexists. eexists. exists 0. split; [repeat constructor; intros []|]. split; [vm_compute; reflexivity|].
  split; [vm_compute; left; reflexivity | vm_compute; discriminate].
Qed.

(* C03, no buffering node in between: the awaitable of emit completes only when the consumer has finished
   (ack), never in the step that merely handed the element over (controlled sink) *)
Lemma plain_emit_waits s src x m :
  pl_sync s = false -> snd (snd (pl_step s (AEmit src x m))) = [] /\ In (pl_next s) (pl_flight (fst (pl_step s (AEmit src x m)))).
Proof. intros H. cbn. rewrite H. split; [reflexivity|]. apply in_or_app. right. left. reflexivity. Qed.
