(* Theorems about the map_async(func, parallelism=p) model, for ALL action sequences (schedules). *)
From Coq Require Import List ZArith Bool Lia Arith.
From SZ Require Import Base.Values Sync.Nodes Async.Core Async.MapAsync.
Import ListNotations.
Close Scope Z_scope.
Open Scope nat_scope.

Definition wmd (w : mworker) : md := match w with MTask _ m | MEmit m => m | MIdle => [] end.
Definition wk (w : mworker) : list (nat * md) := match w with MTask tid m => [(tid, m)] | _ => [] end.
Definition bmd (b : val * md * nat) : md := snd (fst b).

Definition m_held (s : mst) : md :=
  flat_map snd (m_queue s) ++
  (match m_worker s with MTask _ m | MEmit m => m | MIdle => [] end) ++
  flat_map (fun b => snd (fst b)) (m_blocked s).

(* ghost description of a started job: task id, input, metadata *)
Definition gt : Type := nat * val * md.
Definition tm (t : gt) : nat * md := (fst (fst t), snd t).
Definition gres (t : gt) : val * md := (task_result (snd (fst t)), snd t).
Definition bres (b : val * md * nat) : val * md := (task_result (fst (fst b)), snd (fst b)).
Definition fres (xm : val * md) : val * md := (task_result (fst xm), snd xm).

(* results still owed to the sink, in the order they will leave *)
Definition pipeline (s : mst) (T : list gt) : list (val * md) := map gres T ++ map bres (m_blocked s).

(* ---- small list facts --------------------------------------------------------------------------- *)
Lemma ins_of_app a b : ins_of (a ++ b) = ins_of a ++ ins_of b.
Proof. unfold ins_of. apply flat_map_app. Qed.
Lemma ids_of_app a b : ids_of (a ++ b) = ids_of a ++ ids_of b.
Proof. unfold ids_of. apply flat_map_app. Qed.
Lemma all_deliv_app a b : all_deliv (a ++ b) = all_deliv a ++ all_deliv b.
Proof. unfold all_deliv. apply flat_map_app. Qed.

Lemma nodup_app_l {A} (l1 l2 : list A) : NoDup (l1 ++ l2) -> NoDup l1.
Proof.
  induction l1 as [|a t IH]; cbn; intros H; [constructor|].
  inversion H as [|? ? Hn Ht]; subst. constructor; [|apply IH; exact Ht].
  intros X. apply Hn. apply in_or_app. left. exact X.
Qed.
Lemma nodup_app_disj {A} (l1 l2 : list A) x : NoDup (l1 ++ l2) -> In x l1 -> ~ In x l2.
Proof.
  induction l1 as [|a t IH]; cbn; intros H Hi; [contradiction|].
  inversion H as [|? ? Hn Ht]; subst. destruct Hi as [<-|Hi].
  - intros X. apply Hn. apply in_or_app. right. exact X.
  - apply IH; assumption.
Qed.

Lemma mocc_pos_in m r : (0 < mocc m r)%Z -> In r (map mid (filter mref m)).
Proof.
  induction m as [|i t IH]; cbn [mocc filter map]; [lia|].
  destruct (mref i) eqn:Ei; cbn [andb map].
  - destruct (Nat.eqb_spec (mid i) r) as [E|E]; [intros _; left; exact E|]. intros H. right. apply IH. lia.
  - intros H. apply IH. lia.
Qed.

Lemma find_res_some tid l r :
  find_res tid l = Some r -> In (tid, r) l /\ length l = S (length (drop_res tid l)).
Proof.
  induction l as [|[t r0] rest IH]; cbn [find_res drop_res]; [discriminate|].
  destruct (Nat.eqb_spec t tid) as [E|E]; intros H.
  - injection H as <-. subst t. split; [left; reflexivity | reflexivity].
  - destruct (IH H) as [A B]. split; [right; exact A | cbn [length]; lia].
Qed.
Lemma drop_res_incl tid l e : In e (drop_res tid l) -> In e l.
Proof.
  induction l as [|[t r0] rest IH]; cbn [drop_res]; [auto|].
  destruct (t =? tid); intros H; [right; exact H|]. destruct H as [H|H]; [left; exact H | right; apply IH; exact H].
Qed.

Lemma take_nth_some {A} k : forall (l : list A) a rest,
  take_nth k l = Some (a, rest) -> In a l /\ (forall y, In y rest -> In y l) /\ length l = S (length rest).
Proof.
  induction k as [|k IH]; intros [|h t] a rest H; cbn [take_nth] in H; try discriminate.
  - injection H as <- <-. split; [left; reflexivity|]. split; [intros y Hy; right; exact Hy | reflexivity].
  - destruct (take_nth k t) as [[x r]|] eqn:E; [|discriminate]. injection H as <- <-.
    destruct (IH _ _ _ E) as (A1 & A2 & A3). split; [right; exact A1|]. split; [|cbn [length]; lia].
    intros y [<-|Hy]; [left; reflexivity | right; apply A2; exact Hy].
Qed.

(* ---- counters ------------------------------------------------------------------------------------ *)
(* E: side condition under which callbacks are claimed not to be early; ids: counter ids seen so far;
   h: number of references the node holds for each id *)
Definition RcOK (E : Prop) (ids : list nat) (rc : rcs) (h : nat -> Z) : Prop :=
  (forall r, rcnt rc r = h r) /\
  (E -> forall r, In r (rfired rc) -> h r = 0%Z) /\
  (forall r, In r (rfired rc) \/ (0 < h r)%Z -> In r ids).

Lemma rcok_ext E ids rc h h' : (forall r, h' r = h r) -> RcOK E ids rc h -> RcOK E ids rc h'.
Proof.
  intros X (A & B & C). split; [|split].
  - intros r. rewrite X. apply A.
  - intros e r Hr. rewrite X. apply B; assumption.
  - intros r Hr. apply C. rewrite <- X. exact Hr.
Qed.

Lemma rcok_weaken (E E' : Prop) ids ids' rc h :
  (E' -> E) -> incl ids ids' -> RcOK E ids rc h -> RcOK E' ids' rc h.
Proof.
  intros X Y (A & B & C). split; [exact A|]. split.
  - intros e. apply B. apply X. exact e.
  - intros r Hr. apply Y. apply C. exact Hr.
Qed.

Lemma fired_via_id rc m r :
  (mocc m r <= rcnt rc r)%Z -> In r (rfired (rc_via_emit rc m (fun x => x))) -> In r (rfired rc).
Proof.
  intros Hle H. unfold rc_via_emit in H. apply rfired_release_new in H. destruct H as [H|[H1 H2]].
  - rewrite rfired_retain in H. exact H.
  - rewrite rcnt_retain in H1. lia.
Qed.

Lemma rcok_via_id E ids rc h m :
  (forall r, mocc m r <= h r)%Z -> RcOK E ids rc h -> RcOK E ids (rc_via_emit rc m (fun x => x)) h.
Proof.
  intros Hle (A & B & C).
  assert (F : forall r, In r (rfired (rc_via_emit rc m (fun x => x))) -> In r (rfired rc)).
  { intros r. apply fired_via_id. rewrite A. apply Hle. }
  split; [|split].
  - intros r. unfold rc_via_emit. rewrite rcnt_release, rcnt_retain, A. lia.
  - intros e r Hr. apply B; auto.
  - intros r [Hr|Hr]; apply C; auto.
Qed.

Lemma rcok_release E ids rc h m :
  (forall r, mocc m r <= h r)%Z -> RcOK E ids rc h ->
  RcOK E ids (rc_release rc m 1) (fun r => h r - mocc m r)%Z.
Proof.
  intros Hle (A & B & C). split; [|split].
  - intros r. rewrite rcnt_release, A. lia.
  - intros e r Hr. pose proof (Hle r). pose proof (mocc_nonneg m r).
    apply rfired_release_new in Hr. destruct Hr as [Hr|[H1 H2]].
    + pose proof (B e r Hr). lia.
    + rewrite A in H1. lia.
  - intros r Hr. pose proof (Hle r). pose proof (mocc_nonneg m r). destruct Hr as [Hr|Hr].
    + apply rfired_release_new in Hr. destruct Hr as [Hr|[H1 H2]]; apply C; [left; exact Hr | right; lia].
    + apply C. right. lia.
Qed.

Lemma rcok_emit (E E' : Prop) ids rc h m :
  (forall r, 0 <= h r)%Z -> (E' -> E) -> (E' -> NoDup (ids ++ map mid (filter mref m))) ->
  RcOK E ids rc h ->
  RcOK E' (ids ++ map mid (filter mref m)) (rc_via_emit rc m (fun x => rc_retain x m 1)) (fun r => h r + mocc m r)%Z.
Proof.
  intros Hnn X Y (A & B & C).
  assert (F : forall r, In r (rfired (rc_via_emit rc m (fun x => rc_retain x m 1))) -> In r (rfired rc)).
  { intros r H. unfold rc_via_emit in H. apply rfired_release_new in H. destruct H as [H|[H1 H2]].
    - rewrite !rfired_retain in H. exact H.
    - rewrite !rcnt_retain, A in H1. pose proof (Hnn r). lia. }
  split; [|split].
  - intros r. unfold rc_via_emit. rewrite rcnt_release, !rcnt_retain, A. lia.
  - intros e r Hr. apply F in Hr. rewrite (B (X e) r Hr).
    assert (Hi : In r ids) by (apply C; left; exact Hr).
    pose proof (nodup_app_disj _ _ r (Y e) Hi) as Hn.
    pose proof (mocc_nonneg m r). destruct (Z.eq_dec (mocc m r) 0) as [Z0|Z0]; [lia|].
    exfalso. apply Hn. apply mocc_pos_in. lia.
  - intros r [Hr|Hr]; apply in_or_app.
    + left. apply C. left. apply F. exact Hr.
    + destruct (Z_lt_le_dec 0 (h r)) as [Hp|Hp]; [left; apply C; right; exact Hp|].
      right. apply mocc_pos_in. lia.
Qed.

(* ---- the state invariant (preserved by every internal step) ------------------------------------- *)
Record Inner (E : Prop) (ids : list nat) (p : nat) (s : mst) (T : list gt) : Prop := {
  in_p : m_p s = p;
  in_rc : RcOK E ids (m_rc s) (fun r => mocc (m_held s) r);
  in_qlen : length (m_queue s) <= p;
  in_T : map tm T = wk (m_worker s) ++ m_queue s;
  in_cnt : length (m_running s) + length (m_finished s) = length T;
  in_fresh_run : forall tid x, In (tid, x) (m_running s) -> tid < m_tid s;
  in_fresh_fin : forall tid r, In (tid, r) (m_finished s) -> tid < m_tid s;
  in_fresh_T : forall t, In t T -> fst (fst t) < m_tid s;
  in_run : forall tid x t, In (tid, x) (m_running s) -> In t T -> fst (fst t) = tid -> snd (fst t) = x;
  in_fin : forall tid r t, In (tid, r) (m_finished s) -> In t T -> fst (fst t) = tid -> r = task_result (snd (fst t));
}.

Lemma inner_weaken (E E' : Prop) ids ids' p s T :
  (E' -> E) -> incl ids ids' -> Inner E ids p s T -> Inner E' ids' p s T.
Proof. intros X Y []. constructor; auto. eapply rcok_weaken; eauto. Qed.

Lemma held_split s r :
  mocc (m_held s) r = (mocc (flat_map snd (m_queue s)) r + mocc (wmd (m_worker s)) r + mocc (flat_map bmd (m_blocked s)) r)%Z.
Proof. unfold m_held. rewrite !mocc_app. change (fun b : val * md * nat => snd (fst b)) with bmd. fold (wmd (m_worker s)). lia. Qed.

(* the states reached by the individual steps (literally the records of MapAsync.v) *)
Definition d_deq (s : mst) (tid : nat) (m : md) (q : list (nat * md)) : mst :=
  {| m_p := m_p s; m_sync := m_sync s; m_now := m_now s; m_rc := m_rc s; m_next := m_next s;
     m_tid := m_tid s; m_queue := q; m_worker := MTask tid m; m_blocked := m_blocked s;
     m_running := m_running s; m_finished := m_finished s |}.
Definition d_dlv (s : mst) (tid : nat) (m : md) : mst :=
  {| m_p := m_p s; m_sync := m_sync s; m_now := m_now s;
     m_rc := if m_sync s then rc_release (rc_via_emit (m_rc s) m (fun x => x)) m 1 else rc_via_emit (m_rc s) m (fun x => x);
     m_next := m_next s; m_tid := m_tid s; m_queue := m_queue s;
     m_worker := if m_sync s then MIdle else MEmit m; m_blocked := m_blocked s;
     m_running := m_running s; m_finished := drop_res tid (m_finished s) |}.
Definition d_ins (s : mst) (x : val) (m : md) (rest : list (val * md * nat)) : mst :=
  {| m_p := m_p s; m_sync := m_sync s; m_now := m_now s; m_rc := m_rc s; m_next := m_next s;
     m_tid := S (m_tid s); m_queue := m_queue s ++ [(m_tid s, m)]; m_worker := m_worker s;
     m_blocked := rest; m_running := m_running s ++ [(m_tid s, x)]; m_finished := m_finished s |}.
Definition d_emit (s : mst) (x : val) (m : md) : mst :=
  {| m_p := m_p s; m_sync := m_sync s; m_now := m_now s;
     m_rc := rc_via_emit (m_rc s) m (fun r => rc_retain r m 1); m_next := S (m_next s); m_tid := m_tid s;
     m_queue := m_queue s; m_worker := m_worker s; m_blocked := m_blocked s ++ [(x, m, m_next s)];
     m_running := m_running s; m_finished := m_finished s |}.
Definition d_ack (s : mst) (m : md) : mst :=
  {| m_p := m_p s; m_sync := m_sync s; m_now := m_now s; m_rc := rc_release (m_rc s) m 1;
     m_next := m_next s; m_tid := m_tid s; m_queue := m_queue s; m_worker := MIdle;
     m_blocked := m_blocked s; m_running := m_running s; m_finished := m_finished s |}.
Definition d_task (s : mst) (tid : nat) (x : val) (rest : list (nat * val)) : mst :=
  {| m_p := m_p s; m_sync := m_sync s; m_now := m_now s; m_rc := m_rc s; m_next := m_next s;
     m_tid := m_tid s; m_queue := m_queue s; m_worker := m_worker s; m_blocked := m_blocked s;
     m_running := rest; m_finished := m_finished s ++ [(tid, task_result x)] |}.
Definition d_adv (s : mst) (dt : Z) : mst :=
  {| m_p := m_p s; m_sync := m_sync s; m_now := (m_now s + dt)%Z; m_rc := m_rc s; m_next := m_next s;
     m_tid := m_tid s; m_queue := m_queue s; m_worker := m_worker s; m_blocked := m_blocked s;
     m_running := m_running s; m_finished := m_finished s |}.

Ltac prj := cbn [d_deq d_dlv d_ins d_emit d_ack d_task d_adv
                 m_p m_sync m_now m_rc m_next m_tid m_queue m_worker m_blocked m_running m_finished] in *.

(* worker takes the next job out of the queue: the queue slot is free although the task may still run *)
Lemma inner_deq E ids p s T tid m q :
  m_worker s = MIdle -> m_queue s = (tid, m) :: q -> Inner E ids p s T -> Inner E ids p (d_deq s tid m q) T.
Proof.
  intros Hw Hq [].
  assert (Hh : forall r, mocc (m_held (d_deq s tid m q)) r = mocc (m_held s) r).
  { intros r. rewrite !held_split. prj. rewrite Hw, Hq. cbn [flat_map wmd snd]. rewrite mocc_app. cbn [mocc]. lia. }
  constructor; prj; auto.
  - eapply rcok_ext; [exact Hh | assumption].
  - rewrite Hq in in_qlen0. cbn [length] in in_qlen0. lia.
  - rewrite Hw, Hq in in_T0. exact in_T0.
Qed.

(* worker's task has finished: emit the result; in sync mode the sink returns at once *)
Lemma inner_dlv E ids p s T tid m r :
  m_worker s = MTask tid m -> find_res tid (m_finished s) = Some r -> Inner E ids p s T ->
  exists t T', T = t :: T' /\ gres t = (r, m) /\ Inner E ids p (d_dlv s tid m) T'.
Proof.
  intros Hw Hf [].
  destruct (find_res_some _ _ _ Hf) as [Hin Hlen].
  rewrite Hw in in_T0. cbn [wk app] in in_T0.
  destruct T as [|t T']; [discriminate|]. cbn [map] in in_T0. injection in_T0 as Et1 Et2 ET.
  exists t, T'. split; [reflexivity|]. split.
  { unfold gres. rewrite Et2. f_equal. symmetry. apply (in_fin0 tid r t Hin); [left; reflexivity | exact Et1]. }
  assert (Hle : forall r0, (mocc m r0 <= mocc (m_held s) r0)%Z).
  { intros r0. rewrite held_split, Hw. cbn [wmd].
    pose proof (mocc_nonneg (flat_map snd (m_queue s)) r0). pose proof (mocc_nonneg (flat_map bmd (m_blocked s)) r0). lia. }
  constructor; prj; auto.
  - destruct (m_sync s) eqn:Hs.
    + eapply rcok_ext; [| apply rcok_release; [| apply rcok_via_id; [exact Hle | exact in_rc0]]].
      * intros r0. cbn beta. rewrite !held_split. prj. rewrite Hw, Hs. cbn [wmd mocc]. lia.
      * exact Hle.
    + eapply rcok_ext; [| apply rcok_via_id; [exact Hle | exact in_rc0]].
      intros r0. rewrite !held_split. prj. rewrite Hw, Hs. cbn [wmd]. reflexivity.
  - destruct (m_sync s); cbn [wk app]; exact ET.
  - cbn [length] in in_cnt0. lia.
  - intros tid0 r0 H. apply (in_fresh_fin0 tid0 r0). eapply drop_res_incl; exact H.
  - intros t0 H. apply in_fresh_T0. right. exact H.
  - intros tid0 x t0 H1 H2. apply (in_run0 tid0 x t0 H1). right. exact H2.
  - intros tid0 r0 t0 H1 H2. apply (in_fin0 tid0 r0 t0); [eapply drop_res_incl; exact H1 | right; exact H2].
Qed.

(* a spinning _insert_job finds a free slot: it starts its task and enqueues it *)
Lemma inner_ins E ids p s T x m e rest :
  m_blocked s = (x, m, e) :: rest -> length (m_queue s) < p -> Inner E ids p s T ->
  Inner E ids p (d_ins s x m rest) (T ++ [(m_tid s, x, m)]).
Proof.
  intros Hb Hlt [].
  constructor; prj; auto.
  - eapply rcok_ext; [|exact in_rc0]. intros r. rewrite !held_split. prj. rewrite Hb.
    rewrite flat_map_app. cbn [flat_map snd bmd fst]. rewrite !mocc_app. cbn [mocc]. lia.
  - rewrite app_length. cbn [length]. lia.
  - rewrite map_app, in_T0, app_assoc. reflexivity.
  - rewrite !app_length. cbn [length]. lia.
  - intros tid x0 H. apply in_app_or in H. destruct H as [H|[H|[]]].
    + apply in_fresh_run0 in H. lia.
    + injection H as <- _. lia.
  - intros tid r H. apply in_fresh_fin0 in H. lia.
  - intros t H. apply in_app_or in H. destruct H as [H|[<-|[]]].
    + apply in_fresh_T0 in H. lia.
    + cbn. lia.
  - intros tid x0 t H1 H2 H3. apply in_app_or in H1. apply in_app_or in H2.
    destruct H1 as [H1|[H1|[]]]; destruct H2 as [H2|[H2|[]]].
    + eapply in_run0; eauto.
    + subst t. cbn in H3. apply in_fresh_run0 in H1. lia.
    + injection H1 as <- <-. apply in_fresh_T0 in H2. lia.
    + subst t. injection H1 as _ <-. reflexivity.
  - intros tid r t H1 H2 H3. apply in_app_or in H2. destruct H2 as [H2|[H2|[]]].
    + eapply in_fin0; eauto.
    + subst t. cbn in H3. apply in_fresh_fin0 in H1. lia.
Qed.

(* ---- the pump loop: every fuel -------------------------------------------------------------------- *)
Definition Post (E : Prop) ids p (s : mst) (T : list gt) (res : mst * (list (Z * val * md) * list nat)) : Prop :=
  exists T', Inner E ids p (fst res) T' /\ deliv_items (fst (snd res)) ++ pipeline (fst res) T' = pipeline s T.

Lemma pump_ok E ids p : forall fuel,
  (forall s T, Inner E ids p s T -> Post E ids p s T (m_pump fuel s)) /\
  (forall s T, Inner E ids p s T -> Post E ids p s T (m_insert fuel s)).
Proof.
  assert (Refl : forall s T, Inner E ids p s T -> Post E ids p s T (s, ([], []))).
  { intros s T I. exists T. split; [exact I | reflexivity]. }
  induction fuel as [|fuel [IHp IHi]]; [split; intros s T I; apply Refl; exact I|].
  assert (Hins : forall s T, Inner E ids p s T -> Post E ids p s T (m_insert (S fuel) s)).
  { intros s T I. cbn [m_insert].
    destruct (m_blocked s) as [|[[x m] e] rest] eqn:Hb; [apply Refl; exact I|].
    destruct (Nat.ltb_spec (length (m_queue s)) (m_p s)) as [Hlt|Hge]; [|apply Refl; exact I].
    rewrite (in_p _ _ _ _ _ I) in Hlt.
    pose proof (IHp _ _ (inner_ins _ _ _ _ _ x m e rest Hb Hlt I)) as (T' & I' & Hp).
    change (m_pump fuel _) with (m_pump fuel (d_ins s x m rest)).
    destruct (m_pump fuel (d_ins s x m rest)) as [s2 [dl dn]]. cbn [fst snd] in *.
    exists T'. cbn [fst snd]. split; [exact I'|]. rewrite Hp. unfold pipeline. prj. rewrite Hb, map_app, <- app_assoc. reflexivity. }
  split; [|exact Hins].
  intros s T I. cbn [m_pump].
  assert (Hdeq : forall tid m q, m_worker s = MIdle -> m_queue s = (tid, m) :: q ->
                 Post E ids p s T (m_pump fuel (d_deq s tid m q))).
  { intros tid m q Hw Hq. pose proof (IHp _ _ (inner_deq _ _ _ _ _ tid m q Hw Hq I)) as (T' & I' & Hp).
    exists T'. cbn [fst snd]. split; [exact I'|]. rewrite Hp. reflexivity. }
  destruct (m_worker s) as [|tid m|m] eqn:Hw.
  - destruct (m_queue s) as [|[tid m] q] eqn:Hq.
    + rewrite <- Hq in *. apply IHi. exact I.
    + apply (Hdeq tid m q); reflexivity.
  - assert (Hgo : Post E ids p s T
       match find_res tid (m_finished s) with
       | Some r => let '(s2, (dl, dn)) := m_pump fuel (d_dlv s tid m) in (s2, ((m_now s, r, m) :: dl, dn))
       | None => m_insert fuel s
       end).
    { destruct (find_res tid (m_finished s)) as [r|] eqn:Hf; [|apply IHi; exact I].
      destruct (inner_dlv _ _ _ _ _ _ _ _ Hw Hf I) as (t & T1 & -> & Hg & I1).
      pose proof (IHp _ _ I1) as (T' & I' & Hp).
      destruct (m_pump fuel (d_dlv s tid m)) as [s2 [dl dn]]. cbn [fst snd] in *.
      exists T'. cbn [fst snd]. split; [exact I'|]. unfold deliv_items in *. cbn [map fst snd app]. rewrite Hp.
      unfold pipeline. prj. cbn [map app]. rewrite Hg. reflexivity. }
    exact Hgo.
  - apply IHi; exact I.
Qed.

Lemma pump_post E ids p fuel s T : Inner E ids p s T -> Post E ids p s T (m_pump fuel s).
Proof. apply (proj1 (pump_ok E ids p fuel)). Qed.

(* ---- the trace invariant -------------------------------------------------------------------------- *)
Definition MInv (p : nat) (acts : list act) (s : mst) (outs : list (list (Z * val * md) * list nat)) : Prop :=
  exists T, Inner (NoDup (ids_of acts)) (ids_of acts) p s T /\
            deliv_items (all_deliv outs) ++ pipeline s T = map fres (ins_of acts).

Lemma MInv_init p sync : MInv p [] (m_init p sync) [].
Proof.
  exists []. split; [|reflexivity].
  constructor; cbn; auto; try lia; try contradiction.
  split; [reflexivity|]. split; [intros _ r []|]. intros r [[]|H]. lia.
Qed.

Lemma inner_emit p acts s T x m src :
  Inner (NoDup (ids_of acts)) (ids_of acts) p s T ->
  Inner (NoDup (ids_of (acts ++ [AEmit src x m]))) (ids_of (acts ++ [AEmit src x m])) p (d_emit s x m) T.
Proof.
  intros [].
  assert (Eids : ids_of (acts ++ [AEmit src x m]) = ids_of acts ++ map mid (filter mref m)).
  { rewrite ids_of_app. cbn. rewrite app_nil_r. reflexivity. }
  rewrite Eids.
  constructor; prj; auto.
  eapply rcok_ext; [| apply (rcok_emit (NoDup (ids_of acts))); [| | | exact in_rc0]].
  - intros r. cbn beta. rewrite !held_split. prj. rewrite flat_map_app. cbn [flat_map bmd snd fst].
    rewrite !mocc_app. cbn [mocc]. lia.
  - intros r. apply mocc_nonneg.
  - apply nodup_app_l.
  - auto.
Qed.

Lemma inner_ack E ids p s T m :
  m_worker s = MEmit m -> Inner E ids p s T -> Inner E ids p (d_ack s m) T.
Proof.
  intros Hw [].
  constructor; prj; auto.
  - eapply rcok_ext; [| apply rcok_release; [|exact in_rc0]].
    + intros r. cbn beta. rewrite !held_split. prj. rewrite Hw. cbn [wmd mocc]. lia.
    + intros r. rewrite held_split, Hw. cbn [wmd].
      pose proof (mocc_nonneg (flat_map snd (m_queue s)) r). pose proof (mocc_nonneg (flat_map bmd (m_blocked s)) r). lia.
  - rewrite Hw in in_T0. exact in_T0.
Qed.

Lemma inner_task E ids p s T k tid x rest :
  take_nth k (m_running s) = Some ((tid, x), rest) -> Inner E ids p s T -> Inner E ids p (d_task s tid x rest) T.
Proof.
  intros Hk []. destruct (take_nth_some _ _ _ _ Hk) as (A1 & A2 & A3).
  constructor; prj; auto.
  - rewrite app_length. cbn [length]. lia.
  - intros tid0 x0 H. eapply in_fresh_run0. apply A2. exact H.
  - intros tid0 r H. apply in_app_or in H. destruct H as [H|[H|[]]].
    + eapply in_fresh_fin0; exact H.
    + injection H as <- _. eapply in_fresh_run0; exact A1.
  - intros tid0 x0 t H1. apply (in_run0 tid0 x0 t). apply A2. exact H1.
  - intros tid0 r t H1 H2 H3. apply in_app_or in H1. destruct H1 as [H1|[H1|[]]].
    + eapply in_fin0; eauto.
    + injection H1 as <- <-. f_equal. symmetry. eapply in_run0; eauto.
Qed.

Lemma inner_adv E ids p s T dt : Inner E ids p s T -> Inner E ids p (d_adv s dt) T.
Proof. intros []. constructor; prj; auto. Qed.

Lemma MInv_step p acts s outs a s' o :
  MInv p acts s outs -> m_step s a = (s', o) -> MInv p (acts ++ [a]) s' (outs ++ [o]).
Proof.
  intros (T & I & Hp) H.
  assert (Hframe : forall b, match b with AEmit _ _ _ => False | _ => True end ->
            ids_of (acts ++ [b]) = ids_of acts /\ ins_of (acts ++ [b]) = ins_of acts).
  { intros b Hb. rewrite ids_of_app, ins_of_app. destruct b; try contradiction; cbn; rewrite !app_nil_r; auto. }
  assert (Hsame : forall b, match b with AEmit _ _ _ => False | _ => True end ->
            MInv p (acts ++ [b]) s (outs ++ [([], [])])).
  { intros b Hb. unfold MInv. destruct (Hframe b Hb) as [-> Hi]. exists T. split; [exact I|].
    rewrite Hi, all_deliv_app. cbn. rewrite app_nil_r. exact Hp. }
  assert (Hpump : forall b s1 fuel, match b with AEmit _ _ _ => False | _ => True end ->
            Inner (NoDup (ids_of acts)) (ids_of acts) p s1 T -> pipeline s1 T = pipeline s T ->
            m_pump fuel s1 = (s', o) -> MInv p (acts ++ [b]) s' (outs ++ [o])).
  { intros b s1 fuel Hb I1 Hpl Hrun. unfold MInv. destruct (Hframe b Hb) as [-> Hi].
    pose proof (pump_post _ _ _ fuel _ _ I1) as (T' & I' & Hp'). rewrite Hrun in *. cbn [fst snd] in *.
    exists T'. split; [exact I'|].
    rewrite Hi, all_deliv_app. cbn [all_deliv flat_map]. rewrite app_nil_r.
    unfold deliv_items in *. rewrite map_app, <- app_assoc, Hp', Hpl. exact Hp. }
  destruct a as [src x m| |k|dt]; cbn [m_step] in H.
  - (* emit *)
    change (m_pump _ _) with (m_pump (m_fuel (d_emit s x m)) (d_emit s x m)) in H.
    pose proof (pump_post _ _ _ (m_fuel (d_emit s x m)) _ _ (inner_emit p acts s T x m src I)) as (T' & I' & Hp').
    rewrite H in *. cbn [fst snd] in *.
    exists T'. split; [exact I'|].
    rewrite ins_of_app, all_deliv_app. cbn [all_deliv ins_of flat_map]. rewrite !app_nil_r.
    unfold deliv_items in *. rewrite !map_app, <- app_assoc, Hp'. unfold pipeline in *. prj.
    rewrite map_app, app_assoc, app_assoc. rewrite <- (app_assoc _ (map gres T)), Hp. reflexivity.
  - (* ack *)
    destruct (m_worker s) as [|tid m|m] eqn:Hw; try (injection H as <- <-; apply Hsame; exact Logic.I).
    apply (Hpump AAck (d_ack s m) _ Logic.I (inner_ack _ _ _ _ _ m Hw I) eq_refl H).
  - (* task completion *)
    destruct (take_nth k (m_running s)) as [[[tid x] rest]|] eqn:Hk; [|injection H as <- <-; apply Hsame; exact Logic.I].
    apply (Hpump (ATask k) (d_task s tid x rest) _ Logic.I (inner_task _ _ _ _ _ k tid x rest Hk I) eq_refl H).
  - (* time *)
    injection H as <- <-. unfold MInv. destruct (Hframe (AAdv dt) Logic.I) as [-> Hi]. exists T. split; [apply inner_adv; exact I|].
    rewrite Hi, all_deliv_app. cbn. rewrite app_nil_r. exact Hp.
Qed.

Lemma MInv_steps p : forall acts acts0 s0 outs0 s outs,
  MInv p acts0 s0 outs0 -> run_steps map_async_model s0 acts = (s, outs) -> MInv p (acts0 ++ acts) s (outs0 ++ outs).
Proof.
  induction acts as [|a t IH]; intros acts0 s0 outs0 s outs I H; cbn [run_steps] in H.
  - injection H as <- <-. rewrite !app_nil_r. exact I.
  - destruct (nm_step map_async_model s0 a) as [s1 o] eqn:E1.
    destruct (run_steps map_async_model s1 t) as [s2 os] eqn:E2. injection H as <- <-.
    change (a :: t) with ([a] ++ t). change (o :: os) with ([o] ++ os). rewrite !app_assoc.
    eapply IH; [|exact E2]. eapply MInv_step; [exact I | exact E1].
Qed.

Theorem map_async_reach p sync acts s outs :
  run_steps map_async_model (m_init p sync) acts = (s, outs) -> MInv p acts s outs.
Proof. intros H. apply (MInv_steps p acts [] _ [] s outs (MInv_init p sync) H). Qed.

(* ---- headline theorems ---------------------------------------------------------------------------- *)
Theorem map_async_order p sync acts s outs :
  run_steps map_async_model (m_init p sync) acts = (s, outs) ->
  deliv_items (all_deliv outs) =
  map (fun xm => (task_result (fst xm), snd xm)) (firstn (length (all_deliv outs)) (ins_of acts)).
Proof.
  intros H. destruct (map_async_reach _ _ _ _ _ H) as (T & _ & Hp).
  change (fun xm : val * md => (task_result (fst xm), snd xm)) with fres.
  rewrite <- firstn_map, <- Hp.
  replace (length (all_deliv outs)) with (length (deliv_items (all_deliv outs)) + 0)
    by (unfold deliv_items; rewrite map_length; lia).
  rewrite firstn_app_2. cbn. rewrite app_nil_r. reflexivity.
Qed.

Theorem map_async_queue_bound p sync acts s outs :
  run_steps map_async_model (m_init p sync) acts = (s, outs) -> length (m_queue s) <= p.
Proof. intros H. destruct (map_async_reach _ _ _ _ _ H) as (T & I & _). exact (in_qlen _ _ _ _ _ I). Qed.

Theorem map_async_bound_p1 p sync acts s outs :
  run_steps map_async_model (m_init p sync) acts = (s, outs) -> length (m_running s) <= S p.
Proof.
  intros H. destruct (map_async_reach _ _ _ _ _ H) as (T & I & _). destruct I.
  apply (f_equal (@length _)) in in_T0. rewrite map_length, app_length in in_T0.
  assert (length (wk (m_worker s)) <= 1) by (destruct (m_worker s); cbn; lia). lia.
Qed.

(* INTENDED (documented) BOUND `length (m_running s) <= p` is false: *)
Theorem map_async_bound_refuted :
  exists acts s outs, run_steps map_async_model (m_init 2 false) acts = (s, outs) /\ length (m_running s) = 3.
Proof.
  exists [AEmit 0 (VInt 1) []; AEmit 0 (VInt 2) []; AEmit 0 (VInt 3) []]. eexists. eexists.
  split; [vm_compute; reflexivity | reflexivity].
Qed.

Theorem map_async_balance p sync acts s outs :
  run_steps map_async_model (m_init p sync) acts = (s, outs) -> forall r, rcnt (m_rc s) r = mocc (m_held s) r.
Proof. intros H. destruct (map_async_reach _ _ _ _ _ H) as (T & I & _). exact (proj1 (in_rc _ _ _ _ _ I)). Qed.

Theorem map_async_cb_not_early p sync acts s outs :
  run_steps map_async_model (m_init p sync) acts = (s, outs) ->
  NoDup (ids_of acts) -> forall r, In r (rfired (m_rc s)) -> mocc (m_held s) r = 0%Z.
Proof. intros H. destruct (map_async_reach _ _ _ _ _ H) as (T & I & _). exact (proj1 (proj2 (in_rc _ _ _ _ _ I))). Qed.

Theorem map_async_count_nonneg p sync acts s outs :
  run_steps map_async_model (m_init p sync) acts = (s, outs) -> forall r, (0 <= rcnt (m_rc s) r)%Z.
Proof. intros H r. rewrite (map_async_balance _ _ _ _ _ H). apply mocc_nonneg. Qed.

(* extra: every counter id the node still holds or has fired a callback for was attached to an emitted element *)
Theorem map_async_ids_known p sync acts s outs :
  run_steps map_async_model (m_init p sync) acts = (s, outs) ->
  forall r, In r (rfired (m_rc s)) \/ (0 < mocc (m_held s) r)%Z -> In r (ids_of acts).
Proof. intros H. destruct (map_async_reach _ _ _ _ _ H) as (T & I & _). exact (proj2 (proj2 (in_rc _ _ _ _ _ I))). Qed.

(* extra: FIFO correspondence.  The jobs referenced by the worker (while it awaits a task) and by the queue, followed
   by the blocked _insert_job coroutines, are exactly the not yet delivered inputs, in arrival order *)
Theorem map_async_fifo p sync acts s outs :
  run_steps map_async_model (m_init p sync) acts = (s, outs) ->
  exists T : list (nat * val * md),
    map (fun t => (fst (fst t), snd t)) T = wk (m_worker s) ++ m_queue s /\
    length (m_running s) + length (m_finished s) = length T /\
    deliv_items (all_deliv outs) ++ map gres T ++ map bres (m_blocked s) = map fres (ins_of acts).
Proof.
  intros H. destruct (map_async_reach _ _ _ _ _ H) as (T & I & Hp). exists T.
  split; [exact (in_T _ _ _ _ _ I)|]. split; [exact (in_cnt _ _ _ _ _ I) | exact Hp].
Qed.

Definition mdr (i : nat) : mdi := {| mid := i; mref := true |}.

(* non-vacuity: parallelism 1, three emits: one task dequeued by the worker, one queued, the third _insert_job
   spins; the SECOND task finishes first and nothing is delivered; when the first finishes its result leaves,
   the worker waits for the sink, then the ack releases the reference and fires the callback of id 0 only *)
Example map_async_nonvacuous :
  let acts := [AEmit 0 (VInt 1) [mdr 0]; AEmit 0 (VInt 2) [mdr 1]; AEmit 0 (VInt 3) [mdr 2]; ATask 1; ATask 0; AAck] in
  let s3 := fst (run_steps map_async_model (m_init 1 false) (firstn 3 acts)) in
  let '(s4, o4) := run_steps map_async_model (m_init 1 false) (firstn 4 acts) in
  let '(s5, o5) := run_steps map_async_model (m_init 1 false) (firstn 5 acts) in
  let '(s, outs) := run_steps map_async_model (m_init 1 false) acts in
  NoDup (ids_of acts) /\
  length (m_running s3) = 2 /\ length (m_queue s3) = 1 /\ map snd (m_blocked s3) = [2] /\
  all_deliv o4 = [] /\ m_finished s4 = [(1, VInt 20)] /\
  all_deliv o5 = [(0%Z, VInt 10, [mdr 0])] /\ m_worker s5 = MEmit [mdr 0] /\ rfired (m_rc s5) = [] /\
  map (rcnt (m_rc s5)) [0; 1; 2] = [1; 1; 1]%Z /\
  all_deliv outs = [(0%Z, VInt 10, [mdr 0]); (0%Z, VInt 20, [mdr 1])] /\ all_done outs = [0; 1; 2] /\
  rfired (m_rc s) = [0] /\ map (rcnt (m_rc s)) [0; 1; 2] = [0; 1; 1]%Z.
Proof.
  vm_compute. repeat split; try reflexivity.
  repeat constructor; cbn; intuition discriminate.
Qed.

Print Assumptions map_async_reach.
Print Assumptions map_async_order.
Print Assumptions map_async_bound_p1.
Print Assumptions map_async_bound_refuted.
Print Assumptions map_async_queue_bound.
Print Assumptions map_async_balance.
Print Assumptions map_async_cb_not_early.
Print Assumptions map_async_count_nonneg.
Print Assumptions map_async_ids_known.
Print Assumptions map_async_fifo.
Print Assumptions map_async_nonvacuous.
