(* zip(a, b, maxsize=m) with an asynchronous consumer:
     update: retain(md); L = buffers[who]; L.append((x, md))
             if len(L) == 1 and all buffers non-empty: pop one of each; condition.notify_all();
                  ret = self._emit(tuple, md); release(md); return ret
             elif len(L) > maxsize: return condition.wait()
   zip is not a coroutine: it cannot wait for its consumer, so its references are released as soon as
   sink.update() has returned (the generic early-release of a non-waiting node, see C04 known finding). *)
From Coq Require Import List ZArith Bool Lia Arith.
From SZ Require Import Base.Values Sync.Nodes Async.Core.
Import ListNotations.
Close Scope Z_scope.
Open Scope nat_scope.

Record zst := {
  z_max : nat; z_sync : bool; z_now : Z; z_rc : rcs; z_next : nat;
  z_a : list (val * md); z_b : list (val * md);
  z_waiters : list nat;               (* emits blocked in condition.wait() *)
  z_flight : list nat;                (* emits awaiting the sink for the tuple they completed, oldest first *)
}.

Definition z_init (maxsize : nat) (sync : bool) : zst :=
  {| z_max := maxsize; z_sync := sync; z_now := 0%Z; z_rc := rc0; z_next := 0; z_a := []; z_b := [];
     z_waiters := []; z_flight := [] |}.

Definition z_step (s : zst) (a : act) : zst * (list (Z * val * md) * list nat) :=
  match a with
  | AEmit src x m =>
      let e := z_next s in
      let rc0' := rc_retain (rc_retain (z_rc s) m 1) m 1 in     (* source, then zip *)
      let la := if src =? 0 then z_a s ++ [(x, m)] else z_a s in
      let lb := if src =? 0 then z_b s else z_b s ++ [(x, m)] in
      let L := if src =? 0 then la else lb in
      match la, lb with
      | (xa, ma) :: ta, (xb, mb) :: tb =>
          if length L =? 1 then
            let mt := ma ++ mb in
            let rc1 := rc_release (rc_via_emit rc0' mt (fun r => r)) mt 1 in
            let rc2 := rc_release rc1 m 1 in                     (* source releases after update returned *)
            ({| z_max := z_max s; z_sync := z_sync s; z_now := z_now s; z_rc := rc2; z_next := S e;
                z_a := ta; z_b := tb; z_waiters := [];
                z_flight := if z_sync s then z_flight s else z_flight s ++ [e] |},
             ([(z_now s, VTup [xa; xb], mt)], z_waiters s ++ (if z_sync s then [e] else [])))
          else if z_max s <? length L then
            ({| z_max := z_max s; z_sync := z_sync s; z_now := z_now s; z_rc := rc_release rc0' m 1; z_next := S e;
                z_a := la; z_b := lb; z_waiters := z_waiters s ++ [e]; z_flight := z_flight s |}, ([], []))
          else
            ({| z_max := z_max s; z_sync := z_sync s; z_now := z_now s; z_rc := rc_release rc0' m 1; z_next := S e;
                z_a := la; z_b := lb; z_waiters := z_waiters s; z_flight := z_flight s |}, ([], [e]))
      | _, _ =>
          if z_max s <? length L then
            ({| z_max := z_max s; z_sync := z_sync s; z_now := z_now s; z_rc := rc_release rc0' m 1; z_next := S e;
                z_a := la; z_b := lb; z_waiters := z_waiters s ++ [e]; z_flight := z_flight s |}, ([], []))
          else
            ({| z_max := z_max s; z_sync := z_sync s; z_now := z_now s; z_rc := rc_release rc0' m 1; z_next := S e;
                z_a := la; z_b := lb; z_waiters := z_waiters s; z_flight := z_flight s |}, ([], [e]))
      end
  | AAck =>
      match z_flight s with
      | e :: rest =>
          ({| z_max := z_max s; z_sync := z_sync s; z_now := z_now s; z_rc := z_rc s; z_next := z_next s;
              z_a := z_a s; z_b := z_b s; z_waiters := z_waiters s; z_flight := rest |}, ([], [e]))
      | [] => (s, ([], []))
      end
  | ATask _ => (s, ([], []))
  | AAdv dt =>
      ({| z_max := z_max s; z_sync := z_sync s; z_now := (z_now s + dt)%Z; z_rc := z_rc s; z_next := z_next s;
          z_a := z_a s; z_b := z_b s; z_waiters := z_waiters s; z_flight := z_flight s |}, ([], []))
  end.

Definition zip_model : node_model :=
  {| nm_state := zst; nm_step := z_step; nm_now := z_now; nm_rc := z_rc |}.
