(* Theorems about the latest() model, for ALL action sequences (schedules). *)
From Coq Require Import List ZArith Bool Lia Arith.
From SZ Require Import Base.Values Sync.Nodes Async.Core Async.Latest.
Import ListNotations.
Close Scope Z_scope.
Open Scope nat_scope.

(* ---- common helper facts (local copies, see THEOREMS.md) -------------------------------------- *)
Lemma ins_of_app a b : ins_of (a ++ b) = ins_of a ++ ins_of b.
Proof. apply flat_map_app. Qed.
Lemma ids_of_app a b : ids_of (a ++ b) = ids_of a ++ ids_of b.
Proof. apply flat_map_app. Qed.
Lemma all_deliv_app a b : all_deliv (a ++ b) = all_deliv a ++ all_deliv b.
Proof. apply flat_map_app. Qed.
Lemma all_done_app a b : all_done (a ++ b) = all_done a ++ all_done b.
Proof. apply flat_map_app. Qed.
Lemma deliv_items_app a b : deliv_items (a ++ b) = deliv_items a ++ deliv_items b.
Proof. apply map_app. Qed.
Lemma n_emits_app a b : n_emits (a ++ b) = n_emits a + n_emits b.
Proof. unfold n_emits. rewrite ins_of_app, app_length. reflexivity. Qed.

Lemma ins_of_snoc_emit acts src x m : ins_of (acts ++ [AEmit src x m]) = ins_of acts ++ [(x, m)].
Proof. rewrite ins_of_app. reflexivity. Qed.
Lemma ids_of_snoc_emit acts src x m : ids_of (acts ++ [AEmit src x m]) = ids_of acts ++ map mid (filter mref m).
Proof. rewrite ids_of_app. cbn [ids_of flat_map]. rewrite app_nil_r. reflexivity. Qed.
Lemma n_emits_snoc_emit acts src x m : n_emits (acts ++ [AEmit src x m]) = S (n_emits acts).
Proof. rewrite n_emits_app. cbn. lia. Qed.

Definition no_emit (a : act) : Prop := match a with AEmit _ _ _ => False | _ => True end.
Lemma ins_of_snoc_other acts a : no_emit a -> ins_of (acts ++ [a]) = ins_of acts.
Proof. intros H. rewrite ins_of_app. destruct a; try destruct H; cbn; apply app_nil_r. Qed.
Lemma ids_of_snoc_other acts a : no_emit a -> ids_of (acts ++ [a]) = ids_of acts.
Proof. intros H. rewrite ids_of_app. destruct a; try destruct H; cbn; apply app_nil_r. Qed.

Lemma mocc_notin m r : ~ In r (map mid (filter mref m)) -> mocc m r = 0%Z.
Proof.
  induction m as [|i t IH]; cbn [mocc filter map]; intros H; [reflexivity|].
  destruct (mref i) eqn:Ei; cbn [andb map] in *.
  - destruct (Nat.eqb_spec (mid i) r) as [E|E].
    + exfalso. apply H. left. exact E.
    + rewrite IH; [reflexivity|]. intros X. apply H. right. exact X.
  - rewrite IH; [reflexivity | exact H].
Qed.

Lemma nodup_app_inv {A} (l1 l2 : list A) :
  NoDup (l1 ++ l2) -> NoDup l1 /\ NoDup l2 /\ (forall x, In x l1 -> ~ In x l2).
Proof.
  induction l1 as [|a t IH]; cbn [app]; intros H.
  - split; [constructor|]. split; [exact H|]. intros x [].
  - inversion H as [|? ? Hn Ht]; subst. destruct (IH Ht) as [H1 [H2 H3]].
    split; [constructor; [intros X; apply Hn; apply in_or_app; left; exact X | exact H1]|].
    split; [exact H2|]. intros x [<-|Hx]; [intros X; apply Hn; apply in_or_app; right; exact X | apply H3; exact Hx].
Qed.

Lemma nodup_snoc_emit acts src x m :
  NoDup (ids_of (acts ++ [AEmit src x m])) ->
  NoDup (ids_of acts) /\ (forall r, In r (ids_of acts) -> mocc m r = 0%Z).
Proof.
  rewrite ids_of_snoc_emit. intros H. apply nodup_app_inv in H as [H1 [H2 H3]].
  split; [exact H1|]. intros r Hr. apply mocc_notin. apply H3. exact Hr.
Qed.

Lemma notin_snoc_emit acts src x m r :
  ~ In r (ids_of (acts ++ [AEmit src x m])) -> ~ In r (ids_of acts) /\ mocc m r = 0%Z.
Proof.
  rewrite ids_of_snoc_emit. intros H. split.
  - intros X. apply H. apply in_or_app. left. exact X.
  - apply mocc_notin. intros X. apply H. apply in_or_app. right. exact X.
Qed.

(* lifting a step invariant to all runs *)
Lemma run_steps_inv (M : node_model)
      (I : list act -> nm_state M -> list (list (Z * val * md) * list nat) -> Prop) :
  (forall acts s outs a s' o, I acts s outs -> nm_step M s a = (s', o) -> I (acts ++ [a]) s' (outs ++ [o])) ->
  forall acts acts0 s0 outs0 s outs,
    I acts0 s0 outs0 -> run_steps M s0 acts = (s, outs) -> I (acts0 ++ acts) s (outs0 ++ outs).
Proof.
  intros Hstep. induction acts as [|a t IH]; intros acts0 s0 outs0 s outs H0 Hr; cbn [run_steps] in Hr.
  - injection Hr as <- <-. rewrite !app_nil_r. exact H0.
  - destruct (nm_step M s0 a) as [s1 o] eqn:E1. destruct (run_steps M s1 t) as [s2 os] eqn:E2.
    injection Hr as <- <-.
    change (a :: t) with ([a] ++ t). change (o :: os) with ([o] ++ os). rewrite !app_assoc.
    eapply IH; [|exact E2]. eapply Hstep; [exact H0 | exact E1].
Qed.

(* decomposing where a callback can have been scheduled *)
Ltac fired_cases H :=
  unfold rc_via_emit in H; cbv beta in H;
  repeat match type of H with
  | In _ (rfired (rc_release _ _ 1)) =>
      let H1 := fresh "Hle" in let H2 := fresh "Hge" in
      apply rfired_release_new in H; destruct H as [H | [H1 H2]]
  | In _ (rfired (rc_retain _ _ _)) => rewrite rfired_retain in H
  end.
Ltac rc_norm := unfold rc_via_emit in *; repeat (rewrite ?rcnt_release, ?rcnt_retain in * ).

(* ---- order-preserving embedding ----------------------------------------------------------------- *)
Inductive Sublist {A : Type} : list A -> list A -> Prop :=
| SL_nil : Sublist [] []
| SL_skip x l1 l2 : Sublist l1 l2 -> Sublist l1 (x :: l2)
| SL_cons x l1 l2 : Sublist l1 l2 -> Sublist (x :: l1) (x :: l2).

Lemma Sublist_nil_l {A} (l : list A) : Sublist [] l.
Proof. induction l; constructor; assumption. Qed.
Lemma Sublist_app_skip {A} (l1 l2 : list A) x : Sublist l1 l2 -> Sublist l1 (l2 ++ [x]).
Proof. induction 1; cbn [app]; repeat constructor; assumption. Qed.
Lemma Sublist_snoc {A} (l1 l2 : list A) x : Sublist l1 l2 -> Sublist (l1 ++ [x]) (l2 ++ [x]).
Proof. induction 1; cbn [app]; repeat constructor; assumption. Qed.
Lemma Sublist_length {A} (l1 l2 : list A) : Sublist l1 l2 -> length l1 <= length l2.
Proof. induction 1; cbn [length]; lia. Qed.

(* ---- the model-specific notions ------------------------------------------------------------------ *)
Definition l_held (s : lst) : md :=
  (match l_slot s with Some (_, m) => m | None => [] end) ++ (match l_busy s with Some m => m | None => [] end).

(* D = items delivered so far, N = completed emits so far *)
Record LInv (acts : list act) (s : lst) (D : list (val * md)) (N : list nat) : Prop := {
  li_done : N = seq 0 (n_emits acts);
  li_next : l_next s = n_emits acts;
  li_slot : match l_slot s with
            | None => ins_of acts = [] /\ D = [] /\ l_fresh s = false
            | Some xm => exists pre, ins_of acts = pre ++ [xm] /\
                 if l_fresh s then Sublist D pre else exists D', D = D' ++ [xm] /\ Sublist D' pre
            end;
  li_bal : forall r, rcnt (l_rc s) r = mocc (l_held s) r;
  li_ids : forall r, ~ In r (ids_of acts) -> mocc (l_held s) r = 0%Z /\ ~ In r (rfired (l_rc s));
  li_cb : NoDup (ids_of acts) -> forall r, In r (rfired (l_rc s)) -> mocc (l_held s) r = 0%Z;
}.

Lemma LInv_init sync : LInv [] (l_init sync) [] [].
Proof.
  constructor; cbn; auto.
Qed.

Lemma LInv_ext a1 a2 s D N :
  ins_of a1 = ins_of a2 -> ids_of a1 = ids_of a2 -> LInv a1 s D N -> LInv a2 s D N.
Proof.
  intros E1 E2 [a b c d e f].
  assert (En : n_emits a1 = n_emits a2) by (unfold n_emits; rewrite E1; reflexivity).
  constructor; rewrite <- ?E1, <- ?E2, <- ?En; assumption.
Qed.

(* the slot is overwritten by an emit (state before the forwarder runs) *)
Lemma LInv_emit acts s D N src x m :
  LInv acts s D N ->
  LInv (acts ++ [AEmit src x m])
       {| l_sync := l_sync s; l_now := l_now s;
          l_rc := rc_via_emit (l_rc s) m
                    (fun r => rc_retain (rc_release r (match l_slot s with Some (_, om) => om | None => [] end) 1) m 1);
          l_next := S (l_next s); l_slot := Some (x, m); l_fresh := true; l_busy := l_busy s |}
       D (N ++ [l_next s]).
Proof.
  intros [a b c d e f]. destruct s as [sync now rc next slot fresh busy]. cbn [l_sync l_now l_rc l_next l_slot l_fresh l_busy] in *.
  unfold l_held in *. cbn [l_slot l_busy l_rc] in *.
  set (old := match slot with Some (_, om) => om | None => [] end) in *.
  assert (Eold : (match slot with Some (_, m0) => m0 | None => [] end) = old) by reflexivity.
  set (bm := match busy with Some m0 => m0 | None => [] end) in *.
  constructor; unfold l_held; cbn [l_sync l_now l_rc l_next l_slot l_fresh l_busy]; try fold bm.
  - rewrite n_emits_snoc_emit, seq_S, a, b. reflexivity.
  - rewrite n_emits_snoc_emit, b. reflexivity.
  - exists (ins_of acts). split; [apply ins_of_snoc_emit|].
    destruct slot as [xm0|].
    + destruct c as [pre [c1 c2]]. rewrite c1. destruct fresh.
      * apply Sublist_app_skip. exact c2.
      * destruct c2 as [D' [-> c2]]. apply Sublist_snoc. exact c2.
    + destruct c as [_ [-> _]]. apply Sublist_nil_l.
  - intros r. specialize (d r). rewrite mocc_app in *. rc_norm. lia.
  - intros r Hr. apply notin_snoc_emit in Hr as [Hr Hm]. destruct (e r Hr) as [e1 e2].
    rewrite mocc_app in *. pose proof (mocc_nonneg old r). pose proof (mocc_nonneg bm r).
    split; [lia|]. intros Hf. fired_cases Hf; try lia. exact (e2 Hf).
  - intros Hnd r Hf. apply nodup_snoc_emit in Hnd as [Hnd Hm].
    specialize (d r). rewrite mocc_app in *.
    pose proof (mocc_nonneg old r). pose proof (mocc_nonneg bm r). pose proof (mocc_nonneg m r).
    fired_cases Hf.
    + (* fired before: r is an old id *)
      assert (In r (ids_of acts)) as Hin.
      { destruct (in_dec Nat.eq_dec r (ids_of acts)) as [X|X]; [exact X|]. destruct (e r X) as [_ X2]. contradiction. }
      specialize (f Hnd r Hf). specialize (Hm r Hin). rewrite mocc_app in f. lia.
    + (* fired by releasing the superseded slot *)
      rc_norm.
      assert (In r (ids_of acts)) as Hin.
      { destruct (in_dec Nat.eq_dec r (ids_of acts)) as [X|X]; [exact X|]. destruct (e r X) as [X1 _]. rewrite mocc_app in X1. lia. }
      specialize (Hm r Hin). lia.
    + (* the source's own release cannot fire *)
      rc_norm.
      destruct (in_dec Nat.eq_dec r (ids_of acts)) as [X|X]; [specialize (Hm r X); lia|].
      destruct (e r X) as [X1 _]. rewrite mocc_app in X1. lia.
Qed.

Lemma LInv_forward acts s D N s2 dl :
  LInv acts s D N -> l_forward s = (s2, dl) ->
  LInv acts s2 (D ++ deliv_items dl) N /\ (l_busy s2 = None -> l_fresh s2 = false).
Proof.
  intros HI Hf. unfold l_forward in Hf.
  destruct (l_busy s) as [mb|] eqn:Eb.
  { injection Hf as <- <-. cbn. rewrite app_nil_r. split; [exact HI|]. rewrite Eb. discriminate. }
  destruct (l_fresh s) eqn:Ef.
  2:{ injection Hf as <- <-. cbn. rewrite app_nil_r. split; [exact HI|]. intros _. exact Ef. }
  destruct (l_slot s) as [[x m]|] eqn:Es.
  2:{ exfalso. destruct HI as [_ _ c _ _ _]. rewrite Es in c. destruct c as [_ [_ c]]. congruence. }
  destruct HI as [a b c d e f]. unfold l_held in *. rewrite Es, Eb, ?Ef in *. rewrite app_nil_r in *.
  destruct c as [pre [c1 c2]].
  destruct (l_sync s) eqn:Esy; injection Hf as <- <-; cbn [l_busy l_fresh deliv_items map fst snd];
    (split; [|try discriminate; reflexivity]);
    constructor; unfold l_held; cbn [l_sync l_now l_rc l_next l_slot l_fresh l_busy]; try assumption; rewrite ?app_nil_r.
  - exists pre. split; [exact c1|]. exists D. split; [reflexivity | exact c2].
  - intros r. specialize (d r). rc_norm. lia.
  - intros r Hr. destruct (e r Hr) as [e1 e2]. split; [exact e1|].
    intros Hf. fired_cases Hf; try lia. exact (e2 Hf).
  - intros Hnd r Hf. specialize (d r). pose proof (mocc_nonneg m r).
    fired_cases Hf; rc_norm; try lia. exact (f Hnd r Hf).
  - exists pre. split; [exact c1|]. exists D. split; [reflexivity | exact c2].
  - intros r. specialize (d r). rewrite mocc_app. rc_norm. lia.
  - intros r Hr. destruct (e r Hr) as [e1 e2]. rewrite mocc_app. split; [lia|].
    intros Hf. fired_cases Hf; try lia. exact (e2 Hf).
  - intros Hnd r Hf. specialize (d r). pose proof (mocc_nonneg m r). rewrite mocc_app.
    fired_cases Hf; rc_norm; try lia. specialize (f Hnd r Hf). lia.
Qed.

(* the sink's future resolves: the forwarder releases its reference *)
Lemma LInv_ack acts s D N mb :
  LInv acts s D N -> l_busy s = Some mb ->
  LInv acts {| l_sync := l_sync s; l_now := l_now s; l_rc := rc_release (l_rc s) mb 1; l_next := l_next s;
               l_slot := l_slot s; l_fresh := l_fresh s; l_busy := None |} D N.
Proof.
  intros [a b c d e f] Eb. unfold l_held in *. rewrite Eb in *.
  set (old := match l_slot s with Some (_, om) => om | None => [] end) in *.
  constructor; unfold l_held; cbn [l_sync l_now l_rc l_next l_slot l_fresh l_busy]; try assumption; fold old; rewrite app_nil_r.
  - intros r. specialize (d r). rewrite mocc_app in d. rc_norm. lia.
  - intros r Hr. destruct (e r Hr) as [e1 e2]. rewrite mocc_app in e1.
    pose proof (mocc_nonneg old r). pose proof (mocc_nonneg mb r). split; [lia|].
    intros Hf. fired_cases Hf; try lia. exact (e2 Hf).
  - intros Hnd r Hf. specialize (d r). rewrite mocc_app in d.
    pose proof (mocc_nonneg old r). pose proof (mocc_nonneg mb r).
    fired_cases Hf; rc_norm.
    + specialize (f Hnd r Hf). rewrite mocc_app in f. lia.
    + lia.
Qed.

Definition LFull (acts : list act) (s : lst) (outs : list (list (Z * val * md) * list nat)) : Prop :=
  LInv acts s (deliv_items (all_deliv outs)) (all_done outs) /\ (l_busy s = None -> l_fresh s = false).

Lemma LFull_step acts s outs a s' o :
  LFull acts s outs -> nm_step latest_model s a = (s', o) -> LFull (acts ++ [a]) s' (outs ++ [o]).
Proof.
  intros [HI Hidle] Hs. cbn [nm_step latest_model] in Hs. unfold LFull.
  rewrite all_deliv_app, all_done_app, deliv_items_app. cbn [all_deliv all_done flat_map]. rewrite !app_nil_r.
  destruct a as [src x m| |k|dt]; cbn [l_step] in Hs.
  - pose proof (LInv_emit acts s _ _ src x m HI) as H1.
    match type of Hs with (let '(_, _) := l_forward ?s1 in _) = _ => destruct (l_forward s1) as [s2 dl] eqn:Ef end.
    injection Hs as <- <-. cbn [fst snd].
    exact (LInv_forward _ _ _ _ _ _ H1 Ef).
  - destruct (l_busy s) as [mb|] eqn:Eb.
    + pose proof (LInv_ack acts s _ _ mb HI Eb) as H1.
      match type of Hs with (let '(_, _) := l_forward ?s1 in _) = _ => destruct (l_forward s1) as [s2 dl] eqn:Ef end.
      injection Hs as <- <-. cbn [fst snd]. rewrite app_nil_r.
      destruct (LInv_forward _ _ _ _ _ _ H1 Ef) as [H2 H3]. split; [|exact H3].
      eapply LInv_ext; [| |exact H2]; symmetry; [apply ins_of_snoc_other | apply ids_of_snoc_other]; exact I.
    + injection Hs as <- <-. cbn [fst snd]. rewrite !app_nil_r. split; [|intros _; apply Hidle; reflexivity].
      eapply LInv_ext; [| |exact HI]; symmetry; [apply ins_of_snoc_other | apply ids_of_snoc_other]; exact I.
  - injection Hs as <- <-. cbn [fst snd]. rewrite !app_nil_r. split; [|exact Hidle].
    eapply LInv_ext; [| |exact HI]; symmetry; [apply ins_of_snoc_other | apply ids_of_snoc_other]; exact I.
  - injection Hs as <- <-. cbn [fst snd l_busy l_fresh]. rewrite !app_nil_r. split; [|exact Hidle].
    eapply LInv_ext; [symmetry; apply ins_of_snoc_other; exact I | symmetry; apply ids_of_snoc_other; exact I |].
    destruct HI as [a b c d e f]. constructor; assumption.
Qed.

Theorem latest_reach sync acts s outs :
  run_steps latest_model (l_init sync) acts = (s, outs) -> LFull acts s outs.
Proof.
  intros H.
  apply (run_steps_inv latest_model LFull LFull_step acts [] (l_init sync) [] s outs); [|exact H].
  split; [apply LInv_init | reflexivity].
Qed.

(* ---- headline theorems --------------------------------------------------------------------------- *)
Theorem latest_subseq sync acts s outs :
  run_steps latest_model (l_init sync) acts = (s, outs) ->
  Sublist (deliv_items (all_deliv outs)) (ins_of acts).
Proof.
  intros H. destruct (latest_reach _ _ _ _ H) as [[_ _ c _ _ _] _].
  destruct (l_slot s) as [xm|].
  - destruct c as [pre [-> c]]. destruct (l_fresh s).
    + apply Sublist_app_skip. exact c.
    + destruct c as [D' [-> c]]. apply Sublist_snoc. exact c.
  - destruct c as [_ [-> _]]. apply Sublist_nil_l.
Qed.

Theorem latest_final sync acts s outs d :
  run_steps latest_model (l_init sync) acts = (s, outs) ->
  l_busy s = None ->
  l_fresh s = false /\
  (ins_of acts <> [] -> last (deliv_items (all_deliv outs)) d = last (ins_of acts) d).
Proof.
  intros H Hb. destruct (latest_reach _ _ _ _ H) as [[_ _ c _ _ _] Hidle].
  specialize (Hidle Hb). split; [exact Hidle|]. intros Hne.
  destruct (l_slot s) as [xm|].
  - destruct c as [pre [-> c]]. rewrite Hidle in c. destruct c as [D' [-> _]]. rewrite !last_last. reflexivity.
  - destruct c as [c _]. contradiction.
Qed.

Theorem latest_done sync acts s outs :
  run_steps latest_model (l_init sync) acts = (s, outs) -> all_done outs = seq 0 (n_emits acts).
Proof. intros H. destruct (latest_reach _ _ _ _ H) as [[a _ _ _ _ _] _]. exact a. Qed.

Theorem latest_balance sync acts s outs :
  run_steps latest_model (l_init sync) acts = (s, outs) ->
  forall r, rcnt (l_rc s) r = mocc (l_held s) r.
Proof. intros H. destruct (latest_reach _ _ _ _ H) as [[_ _ _ d _ _] _]. exact d. Qed.

Theorem latest_cb_not_early sync acts s outs :
  run_steps latest_model (l_init sync) acts = (s, outs) ->
  NoDup (ids_of acts) -> forall r, In r (rfired (l_rc s)) -> mocc (l_held s) r = 0%Z.
Proof. intros H. destruct (latest_reach _ _ _ _ H) as [[_ _ _ _ _ f] _]. exact f. Qed.

Theorem latest_count_nonneg sync acts s outs :
  run_steps latest_model (l_init sync) acts = (s, outs) ->
  forall r, (0 <= rcnt (l_rc s) r)%Z.
Proof. intros H r. rewrite (latest_balance _ _ _ _ H). apply mocc_nonneg. Qed.

(* the slot legitimately keeps the newest element referenced: its callback is not scheduled
   before the element is superseded *)
Theorem latest_slot_kept sync acts s outs x m :
  run_steps latest_model (l_init sync) acts = (s, outs) ->
  NoDup (ids_of acts) -> l_slot s = Some (x, m) ->
  forall r, (1 <= mocc m r)%Z -> ~ In r (rfired (l_rc s)).
Proof.
  intros H Hnd Es r Hr Hf. pose proof (latest_cb_not_early _ _ _ _ H Hnd r Hf) as X.
  unfold l_held in X. rewrite Es, mocc_app in X.
  pose proof (mocc_nonneg (match l_busy s with Some m0 => m0 | None => [] end) r). lia.
Qed.

(* ---- non-vacuity: an element in flight, a fresh one waiting in the slot, an overwritten one ---- *)
Definition lm (i : nat) : md := [{| mid := i; mref := true |}].
Definition l_ex_acts : list act :=
  [AEmit 0 (VInt 1) (lm 0); AEmit 0 (VInt 2) (lm 1); AEmit 0 (VInt 3) (lm 2); AAdv 2; AAck].

Example latest_nonvacuous :
  NoDup (ids_of l_ex_acts) /\
  (let '(s, outs) := run_steps latest_model (l_init false) (firstn 3 l_ex_acts) in
   l_busy s = Some (lm 0) /\ l_fresh s = true /\ l_slot s = Some (VInt 3, lm 2) /\
   deliv_items (all_deliv outs) = [(VInt 1, lm 0)] /\ rfired (l_rc s) = [1] /\
   map (rcnt (l_rc s)) [0; 1; 2] = [1; 0; 1]%Z) /\
  (let '(s, outs) := run_steps latest_model (l_init false) l_ex_acts in
   l_busy s = Some (lm 2) /\ l_fresh s = false /\
   deliv_items (all_deliv outs) = [(VInt 1, lm 0); (VInt 3, lm 2)] /\
   deliv_times (all_deliv outs) = [0; 2]%Z /\ all_done outs = [0; 1; 2] /\ rfired (l_rc s) = [1; 0]).
Proof.
  split.
  - vm_compute. repeat constructor; cbn; intuition discriminate.
  - vm_compute. repeat split; reflexivity.
Qed.

Print Assumptions latest_subseq.
Print Assumptions latest_final.
Print Assumptions latest_done.
Print Assumptions latest_balance.
Print Assumptions latest_cb_not_early.
Print Assumptions latest_count_nonneg.
Print Assumptions latest_slot_kept.
Print Assumptions latest_nonvacuous.
