(* Theorems about the rate_limit(interval) model, for ALL action sequences (schedules). *)
From Coq Require Import List ZArith Bool Lia Arith.
From SZ Require Import Base.Values Sync.Nodes Async.Core Async.RateLimit.
Import ListNotations.
Close Scope Z_scope.
Open Scope nat_scope.

(* ---- generic counter reasoning ------------------------------------------------------------------ *)
Definition mids (m : md) : list nat := map mid (filter mref m).

Lemma mocc_pos_in m r : (1 <= mocc m r)%Z -> In r (mids m).
Proof.
  unfold mids. induction m as [|i t IH]; cbn [mocc filter map]; intros H; [lia|].
  destruct (mref i) eqn:E; cbn [andb] in H.
  - cbn [map]. destruct (Nat.eqb_spec (mid i) r) as [e|e]; [left; exact e | right; apply IH; lia].
  - apply IH. lia.
Qed.

Lemma nodup_app_disj {A} (l l' : list A) x : NoDup (l ++ l') -> In x l -> In x l' -> False.
Proof.
  induction l as [|a l IH]; cbn [app In]; intros H H1 H2; [exact H1|].
  inversion H as [|? ? Hn Hd]; subst. destruct H1 as [->|H1].
  - apply Hn. apply in_or_app. right. exact H2.
  - exact (IH Hd H1 H2).
Qed.

Lemma nodup_app_l {A} (l l' : list A) : NoDup (l ++ l') -> NoDup l.
Proof.
  induction l as [|a l IH]; cbn [app]; intros H; [constructor|].
  inversion H as [|? ? Hn Hd]; subst. constructor; [|exact (IH Hd)].
  intros X. apply Hn. apply in_or_app. left. exact X.
Qed.

(* `h r` = number of references to counter r held by somebody; ids = counter ids seen so far *)
Record rcI (ids : list nat) (rc : rcs) (h : nat -> Z) : Prop := {
  rci_bal : forall r, rcnt rc r = h r;
  rci_nn : forall r, (0 <= h r)%Z;
  rci_fired_ids : forall r, In r (rfired rc) -> In r ids;
  rci_held_ids : forall r, (1 <= h r)%Z -> In r ids;
  rci_cb : NoDup ids -> forall r, In r (rfired rc) -> h r = 0%Z;
}.

Lemma rcI_ext ids rc h h' : (forall r, h r = h' r) -> rcI ids rc h -> rcI ids rc h'.
Proof.
  intros E [a b c d e]. constructor; intros.
  - rewrite <- E. apply a.
  - rewrite <- E. apply b.
  - apply c; assumption.
  - apply d. rewrite E. assumption.
  - rewrite <- E. apply e; assumption.
Qed.

Lemma rcI_more ids ids' rc h : rcI ids rc h -> rcI (ids ++ ids') rc h.
Proof.
  intros [a b c d e]. constructor; intros.
  - apply a.
  - apply b.
  - apply in_or_app. left. apply c; assumption.
  - apply in_or_app. left. apply d; assumption.
  - apply e; [eapply nodup_app_l; eassumption | assumption].
Qed.

Lemma rcI_fresh_cond ids rc h m :
  rcI ids rc h -> NoDup (ids ++ mids m) -> forall r, In r (rfired rc) -> mocc m r = 0%Z.
Proof.
  intros I Hn r Hf. pose proof (mocc_nonneg m r).
  destruct (Z.eq_dec (mocc m r) 0) as [e|e]; [exact e|]. exfalso.
  eapply nodup_app_disj; [exact Hn | eapply rci_fired_ids; eassumption | apply mocc_pos_in; lia].
Qed.

Lemma rcI_retain ids rc h m h' :
  rcI ids rc h -> (forall r, h' r = h r + mocc m r)%Z ->
  (forall r, (1 <= mocc m r)%Z -> In r ids) ->
  (NoDup ids -> forall r, In r (rfired rc) -> mocc m r = 0%Z) ->
  rcI ids (rc_retain rc m 1) h'.
Proof.
  intros [a b c d e] E Hi Hf. constructor; intros.
  - rewrite rcnt_retain, E, a. lia.
  - rewrite E. pose proof (b r). pose proof (mocc_nonneg m r). lia.
  - rewrite rfired_retain in H. apply c; assumption.
  - rewrite E in H. pose proof (b r). pose proof (mocc_nonneg m r).
    destruct (Z_le_gt_dec 1 (h r)); [apply d; assumption | apply Hi; lia].
  - rewrite rfired_retain in H0. rewrite E, (e H r H0), (Hf H r H0). reflexivity.
Qed.

Lemma rcI_retain_held ids rc h m h' :
  rcI ids rc h -> (forall r, h' r = h r + mocc m r)%Z -> (forall r, mocc m r <= h r)%Z ->
  rcI ids (rc_retain rc m 1) h'.
Proof.
  intros I E Hle. eapply rcI_retain; [exact I | exact E | |].
  - intros r H. eapply rci_held_ids; [exact I|]. specialize (Hle r). lia.
  - intros Hn r Hf. pose proof (rci_cb _ _ _ I Hn r Hf). pose proof (mocc_nonneg m r). specialize (Hle r). lia.
Qed.

Lemma rcI_release ids rc h m h' :
  rcI ids rc h -> (forall r, h r = h' r + mocc m r)%Z -> (forall r, 0 <= h' r)%Z ->
  rcI ids (rc_release rc m 1) h'.
Proof.
  intros [a b c d e] E Hnn. constructor; intros.
  - rewrite rcnt_release, a, E. lia.
  - apply Hnn.
  - apply rfired_release_new in H. destruct H as [H|[H1 H2]]; [apply c; exact H|].
    apply d. rewrite E. specialize (Hnn r). lia.
  - apply d. rewrite E. pose proof (mocc_nonneg m r). lia.
  - apply rfired_release_new in H0. pose proof (mocc_nonneg m r). pose proof (Hnn r).
    destruct H0 as [H0|[H1' H2']].
    + pose proof (e H r H0) as X. rewrite E in X. lia.
    + rewrite a, E in H1'. lia.
Qed.

(* Stream._emit of metadata that is already held: counts unchanged, no callback for a held element *)
Lemma rcI_via_emit_id ids rc h m :
  rcI ids rc h -> (forall r, mocc m r <= h r)%Z -> rcI ids (rc_via_emit rc m (fun r => r)) h.
Proof.
  intros I Hle. unfold rc_via_emit.
  eapply rcI_release with (h := fun r => (h r + mocc m r)%Z).
  - eapply rcI_retain_held; [exact I | intros r; reflexivity | exact Hle].
  - intros r. reflexivity.
  - apply (rci_nn _ _ _ I).
Qed.

(* ---- rate_limit ------------------------------------------------------------------------------------ *)
Definition r_pending (s : rst) : list (val * md) := map (fun e => (snd (fst (fst e)), snd (fst e))) (r_sleep s).
Definition r_held (s : rst) : md := flat_map (fun e => snd (fst e)) (r_sleep s) ++ flat_map fst (r_flight s).

(* consecutive entries differ by at least i *)
Fixpoint spaced (i : Z) (l : list Z) : Prop :=
  match l with
  | [] => True
  | a :: t => match t with [] => True | b :: _ => (a + i <= b)%Z end /\ spaced i t
  end.

Lemma spaced_snoc i l x : spaced i l -> Forall (fun t => (t + i <= x)%Z) l -> spaced i (l ++ [x]).
Proof.
  induction l as [|a t IH]; cbn [app spaced]; intros H F; [auto|].
  inversion F as [|? ? Fa Ft]; subst. destruct H as [H1 H2]. split; [|apply IH; assumption].
  destruct t as [|b t']; cbn [app]; [exact Fa | exact H1].
Qed.

Lemma spaced_app_r i l1 l2 : spaced i (l1 ++ l2) -> spaced i l2.
Proof. induction l1 as [|a t IH]; cbn [app spaced]; intros H; [exact H | apply IH, H]. Qed.

Lemma spaced_head_all i a l : (0 <= i)%Z -> spaced i (a :: l) -> Forall (fun t => (a + i <= t)%Z) l.
Proof.
  intros Hi. revert a. induction l as [|b t IH]; intros a H; [constructor|].
  cbn [spaced] in H. destruct H as [H1 H2]. constructor; [exact H1|].
  specialize (IH b H2). eapply Forall_impl; [|exact IH]. cbv beta. intros; lia.
Qed.

Definition s_due (e : Z * val * md * nat) : Z := fst (fst (fst e)).
Definition s_id (e : Z * val * md * nat) : nat := snd e.

Record RInv (i : Z) (sync : bool) (ids : list nat) (ins : list (val * md)) (s : rst)
       (D : list (Z * val * md)) (N : list nat) : Prop := {
  ri_int : r_int s = i;
  ri_sync : r_sync s = sync;
  ri_fifo : deliv_items D ++ r_pending s = ins;
  ri_spaced : spaced i (deliv_times D ++ map s_due (r_sleep s));
  ri_next : Forall (fun t => (t + i <= r_next s)%Z) (deliv_times D ++ map s_due (r_sleep s));
  ri_past : Forall (fun t => (t <= r_now s)%Z) (deliv_times D);
  ri_future : Forall (fun t => (r_now s < t)%Z) (map s_due (r_sleep s));
  ri_ids : map s_id (r_sleep s) = seq (length D) (length (r_sleep s));
  ri_nextid : r_nextid s = length D + length (r_sleep s);
  ri_done : N ++ map snd (r_flight s) = seq 0 (length D);
  ri_flight : sync = true -> r_flight s = [];
  ri_rc : rcI ids (r_rc s) (mocc (r_held s));
}.

Ltac mo := intros; cbv beta; repeat (rewrite ?flat_map_app, ?mocc_app, ?app_nil_r; cbn [flat_map fst snd mocc app]); try lia.
Ltac rsimp := cbn [r_int r_sync r_now r_rc r_nextid r_next r_sleep r_flight].

Lemma RInv_init i sync : RInv i sync [] [] (r_init i sync) [] [].
Proof.
  constructor; unfold r_pending, r_held, r_init; rsimp; cbn [map flat_map app deliv_items deliv_times spaced length seq]; auto.
  constructor; cbn [rc0 rcnt rfired mocc]; intros; try reflexivity; try lia; try contradiction.
Qed.

Lemma r_tick_inv i sync ids ins s D N s' d n :
  (0 < i)%Z -> RInv i sync ids ins s D N -> r_tick s = (s', (d, n)) ->
  RInv i sync ids ins s' (D ++ d) (N ++ n) /\ (sync = true -> length n = length d).
Proof.
  intros Hi [Hint Hsync Hfifo Hsp Hnx Hpast Hfut Hids Hnid Hdone Hfl Hrc] H.
  unfold r_tick in H. unfold r_pending, r_held in *.
  destruct (r_sleep s) as [|[[[due x] m] e] rest] eqn:Es.
  - injection H as <- <- <-. rewrite !app_nil_r. split; [|reflexivity]. cbn [map flat_map length] in *.
    constructor; unfold r_pending, r_held; rsimp; cbn [map flat_map length]; auto.
    eapply Forall_impl; [|exact Hpast]. cbv beta. intros; lia.
  - cbn [map flat_map length] in *. unfold s_due, s_id in Hfut, Hids. cbn [fst snd] in Hfut, Hids.
    pose proof (Forall_inv Hfut) as Hdue. pose proof (Forall_inv_tail Hfut) as Hfut'. cbv beta in Hdue.
    injection Hids as He Hids.
    pose proof (spaced_app_r _ _ _ Hsp) as Hsp2.
    pose proof (spaced_head_all i _ _ ltac:(lia) Hsp2) as Hgap. unfold s_due at 1 in Hgap. cbn [fst] in Hgap.
    destruct (due <=? r_now s + 1)%Z eqn:Ed.
    + apply Z.leb_le in Ed. assert (due = (r_now s + 1)%Z) by lia. subst due.
      assert (Hle : forall r, (mocc m r <= mocc ((m ++ flat_map (fun e0 => snd (fst e0)) rest) ++ flat_map fst (r_flight s)) r)%Z).
      { intros r. rewrite !mocc_app. pose proof (mocc_nonneg (flat_map (fun e0 => snd (fst e0)) rest) r).
        pose proof (mocc_nonneg (flat_map fst (r_flight s)) r). lia. }
      pose proof (rcI_via_emit_id _ _ _ m Hrc Hle) as Hrc1.
      assert (Hfut2 : Forall (fun t => (r_now s + 1 < t)%Z) (map s_due rest)).
      { eapply Forall_impl; [|exact Hgap]. cbv beta. intros; lia. }
      assert (Hpast2 : Forall (fun t => (t <= r_now s + 1)%Z) (deliv_times (D ++ [((r_now s + 1)%Z, x, m)]))).
      { unfold deliv_times. rewrite map_app. apply Forall_app. split.
        - eapply Forall_impl; [|exact Hpast]. cbv beta. intros; lia.
        - constructor; [cbn [fst]; lia | constructor]. }
      assert (Hslots : deliv_times (D ++ [((r_now s + 1)%Z, x, m)]) ++ map s_due rest
                       = deliv_times D ++ (r_now s + 1)%Z :: map s_due rest).
      { unfold deliv_times. rewrite map_app, <- app_assoc. reflexivity. }
      assert (Hlen : length (D ++ [((r_now s + 1)%Z, x, m)]) = S (length D)).
      { rewrite app_length. cbn [length]. lia. }
      unfold r_deliver in H. destruct (r_sync s) eqn:Esy.
      * injection H as <- <- <-. split; [|reflexivity].
        constructor; unfold r_pending, r_held; rsimp; auto.
        -- unfold deliv_items. rewrite map_app, <- app_assoc. exact Hfifo.
        -- rewrite Hslots. exact Hsp.
        -- rewrite Hslots. exact Hnx.
        -- rewrite Hlen. exact Hids.
        -- rewrite Hlen. lia.
        -- rewrite Hlen. rewrite (Hfl (eq_sym Hsync)) in *. cbn [map app] in *. rewrite !app_nil_r in *.
           rewrite seq_S, <- Hdone, He. reflexivity.
        -- intros _. rewrite (Hfl (eq_sym Hsync)). reflexivity.
        -- eapply rcI_release; [exact Hrc1 | |intros r; apply mocc_nonneg].
           mo.
      * injection H as <- <- <-. split; [|intros Hs; congruence].
        constructor; unfold r_pending, r_held; rsimp; auto.
        -- unfold deliv_items. rewrite map_app, <- app_assoc. exact Hfifo.
        -- rewrite Hslots. exact Hsp.
        -- rewrite Hslots. exact Hnx.
        -- rewrite Hlen. exact Hids.
        -- rewrite Hlen. lia.
        -- rewrite Hlen, app_nil_r, map_app, app_assoc, Hdone, seq_S, He. reflexivity.
        -- intros Hs; congruence.
        -- eapply rcI_ext; [|exact Hrc1]. mo.
    + apply Z.leb_gt in Ed. injection H as <- <- <-. rewrite !app_nil_r. split; [|reflexivity].
      constructor; unfold r_pending, r_held; rewrite ?Es; rsimp; cbn [map flat_map length]; auto.
      * eapply Forall_impl; [|exact Hpast]. cbv beta. intros; lia.
      * constructor; [unfold s_due; cbn [fst]; lia|].
        eapply Forall_impl; [|exact Hgap]. cbv beta. intros; lia.
      * cbn [seq]. unfold s_id. cbn [snd]. rewrite He. f_equal. exact Hids.
Qed.

Lemma r_adv_inv i sync ids ins : (0 < i)%Z -> forall k s D N s' d n,
  RInv i sync ids ins s D N -> r_adv k s = (s', (d, n)) ->
  RInv i sync ids ins s' (D ++ d) (N ++ n) /\ (sync = true -> length n = length d).
Proof.
  intros Hi. induction k as [|k IH]; intros s D N s' d n I H; cbn [r_adv] in H.
  - injection H as <- <- <-. rewrite !app_nil_r. split; [exact I | reflexivity].
  - destruct (r_tick s) as [s1 [d1 n1]] eqn:Et. destruct (r_adv k s1) as [s2 [d2 n2]] eqn:Ea.
    injection H as <- <- <-.
    destruct (r_tick_inv _ _ _ _ _ _ _ _ _ _ Hi I Et) as [I1 L1].
    destruct (IH _ _ _ _ _ _ I1 Ea) as [I2 L2].
    rewrite !app_assoc. split; [exact I2|]. intros Hs. rewrite !app_length, L1, L2; auto.
Qed.

Definition ids_act (a : act) : list nat := match a with AEmit _ _ m => mids m | _ => [] end.
Definition ins_act (a : act) : list (val * md) := match a with AEmit _ x m => [(x, m)] | _ => [] end.

Lemma r_step_inv i sync ids ins s D N a s' d n :
  (0 < i)%Z -> RInv i sync ids ins s D N -> r_step s a = (s', (d, n)) ->
  RInv i sync (ids ++ ids_act a) (ins ++ ins_act a) s' (D ++ d) (N ++ n) /\ (sync = true -> length n = length d).
Proof.
  intros Hi I H. destruct a as [src x m| |k|dt]; cbn [ids_act ins_act]; rewrite ?app_nil_r.
  - (* emit *)
    destruct I as [Hint Hsync Hfifo Hsp Hnx Hpast Hfut Hids Hnid Hdone Hfl Hrc].
    cbn [r_step] in H. unfold rl_slot in H. cbv beta iota in H.
    pose proof (rcI_more _ (mids m) _ _ Hrc) as Hrc'.
    assert (Hfresh : NoDup (ids ++ mids m) -> forall r, In r (rfired (r_rc s)) -> mocc m r = 0%Z)
      by (apply (rcI_fresh_cond _ _ _ _ Hrc)).
    assert (Hmi : forall r, (1 <= mocc m r)%Z -> In r (ids ++ mids m))
      by (intros r Hr; apply in_or_app; right; apply mocc_pos_in; exact Hr).
    pose proof (rcI_retain _ _ _ m (fun r => (mocc (r_held s) r + mocc m r)%Z) Hrc' ltac:(intros; reflexivity) Hmi Hfresh) as Hrc1.
    assert (Hrc2 : rcI (ids ++ mids m) (rc_retain (rc_retain (r_rc s) m 1) m 1) (fun r => (mocc (r_held s) r + 2 * mocc m r)%Z)).
    { eapply rcI_retain_held; [exact Hrc1 | intros r; cbv beta; lia |].
      intros r. cbv beta. pose proof (mocc_nonneg (r_held s) r). lia. }
    destruct (r_now s <? r_next s)%Z eqn:El.
    + apply Z.ltb_lt in El. injection H as <- <- <-. rewrite !app_nil_r. split; [|reflexivity].
      rewrite Hint in *.
      constructor; unfold r_pending, r_held in *; rsimp; auto.
      * rewrite map_app, app_assoc, Hfifo. reflexivity.
      * rewrite map_app, app_assoc. apply spaced_snoc; assumption.
      * rewrite map_app, app_assoc. apply Forall_app. split.
        -- eapply Forall_impl; [|exact Hnx]. cbv beta. intros; lia.
        -- constructor; [unfold s_due; cbn [fst]; lia | constructor].
      * rewrite map_app. apply Forall_app. split; [exact Hfut|].
        constructor; [unfold s_due; cbn [fst]; lia | constructor].
      * rewrite map_app, Hids, app_length. cbn [map length]. rewrite Nat.add_1_r, seq_S.
        unfold s_id. cbn [snd]. rewrite Hnid. reflexivity.
      * rewrite app_length. cbn [length]. lia.
      * unfold rc_via_emit. eapply rcI_release; [exact Hrc2 | | intros r; apply mocc_nonneg].
        mo.
    + apply Z.ltb_ge in El.
      (* nobody can be sleeping *)
      assert (Hempty : r_sleep s = []).
      { destruct (r_sleep s) as [|e0 rest]; [reflexivity|]. exfalso.
        cbn [map] in Hfut. pose proof (Forall_inv Hfut) as Hd. cbv beta in Hd.
        apply Forall_app in Hnx as [_ Hnx]. cbn [map] in Hnx. pose proof (Forall_inv Hnx) as Hd2. cbv beta in Hd2. lia. }
      unfold r_pending, r_held in *. rewrite Hempty in *. cbn [map flat_map app length] in *. rewrite !app_nil_r in *.
      rewrite Hint in *.
      assert (Hrc3 : rcI (ids ++ mids m) (rc_via_emit (rc_retain (rc_retain (r_rc s) m 1) m 1) m (fun r => r))
                         (fun r => (mocc (flat_map fst (r_flight s)) r + 2 * mocc m r)%Z)).
      { apply rcI_via_emit_id; [exact Hrc2|]. intros r. cbv beta. pose proof (mocc_nonneg (flat_map fst (r_flight s)) r). pose proof (mocc_nonneg m r). lia. }
      assert (Hlen : length (D ++ [(r_now s, x, m)]) = S (length D)).
      { rewrite app_length. cbn [length]. lia. }
      assert (Hsl : deliv_times (D ++ [(r_now s, x, m)]) = deliv_times D ++ [r_now s]).
      { unfold deliv_times. rewrite map_app. reflexivity. }
      unfold r_deliver in H. destruct (r_sync s) eqn:Esy.
      * injection H as <- <- <-. split; [|reflexivity].
        constructor; unfold r_pending, r_held; rsimp; rewrite ?Hempty; cbn [map flat_map app length]; rewrite ?app_nil_r; auto.
        -- unfold deliv_items. rewrite map_app, <- Hfifo. reflexivity.
        -- rewrite Hsl. apply spaced_snoc; [exact Hsp|]. eapply Forall_impl; [|exact Hnx]. cbv beta. intros; lia.
        -- rewrite Hsl. apply Forall_app. split.
           ++ eapply Forall_impl; [|exact Hpast]. cbv beta. intros; lia.
           ++ constructor; [lia | constructor].
        -- rewrite Hsl. apply Forall_app. split; [exact Hpast|]. constructor; [lia | constructor].
        -- rewrite Hlen. lia.
        -- rewrite Hlen, seq_S. rewrite (Hfl (eq_sym Hsync)) in *. cbn [map] in *. rewrite !app_nil_r in *.
           rewrite Hdone, Hnid. cbn. rewrite Nat.add_0_r. reflexivity.
        -- eapply rcI_release with (h := fun r => (mocc (flat_map fst (r_flight s)) r + mocc m r)%Z).
           ++ eapply rcI_release; [exact Hrc3 | intros r; cbv beta; lia |].
              intros r. cbv beta. pose proof (mocc_nonneg (flat_map fst (r_flight s)) r). pose proof (mocc_nonneg m r). lia.
           ++ intros r. reflexivity.
           ++ intros r. apply mocc_nonneg.
      * injection H as <- <- <-. split; [|intros Hs; congruence].
        constructor; unfold r_pending, r_held; rsimp; rewrite ?Hempty; cbn [map flat_map app length]; rewrite ?app_nil_r; auto.
        -- unfold deliv_items. rewrite map_app, <- Hfifo. reflexivity.
        -- rewrite Hsl. apply spaced_snoc; [exact Hsp|]. eapply Forall_impl; [|exact Hnx]. cbv beta. intros; lia.
        -- rewrite Hsl. apply Forall_app. split.
           ++ eapply Forall_impl; [|exact Hpast]. cbv beta. intros; lia.
           ++ constructor; [lia | constructor].
        -- rewrite Hsl. apply Forall_app. split; [exact Hpast|]. constructor; [lia | constructor].
        -- rewrite Hlen. lia.
        -- rewrite Hlen, seq_S, map_app, app_assoc, Hdone, Hnid. cbn. rewrite Nat.add_0_r. reflexivity.
        -- intros Hs; congruence.
        -- eapply rcI_release; [exact Hrc3 | | intros r; apply mocc_nonneg].
           mo.
  - (* ack *)
    cbn [r_step] in H. destruct (r_flight s) as [|[m e] rest] eqn:Ef.
    + injection H as <- <- <-. rewrite !app_nil_r. split; [exact I | reflexivity].
    + destruct I as [Hint Hsync Hfifo Hsp Hnx Hpast Hfut Hids Hnid Hdone Hfl Hrc].
      injection H as <- <- <-. rewrite !app_nil_r.
      assert (sync = false) as -> by (destruct sync; [specialize (Hfl eq_refl); congruence | reflexivity]).
      split; [|discriminate].
      constructor; unfold r_pending, r_held in *; rsimp; auto.
      * rewrite Ef in Hdone. cbn [map snd] in Hdone. rewrite <- app_assoc. exact Hdone.
      * discriminate.
      * eapply rcI_release; [exact Hrc | | intros r; apply mocc_nonneg].
        rewrite Ef. mo.
  - cbn [r_step] in H. injection H as <- <- <-. rewrite !app_nil_r. split; [exact I | reflexivity].
  - cbn [r_step] in H. eapply r_adv_inv; eassumption.
Qed.

Lemma ids_of_cons a t : ids_of (a :: t) = ids_act a ++ ids_of t.
Proof. destruct a; reflexivity. Qed.
Lemma ins_of_cons a t : ins_of (a :: t) = ins_act a ++ ins_of t.
Proof. destruct a; reflexivity. Qed.

Lemma r_reach_gen i sync : (0 < i)%Z -> forall acts ids ins s0 D N s outs,
  RInv i sync ids ins s0 D N -> run_steps rate_limit_model s0 acts = (s, outs) ->
  RInv i sync (ids ++ ids_of acts) (ins ++ ins_of acts) s (D ++ all_deliv outs) (N ++ all_done outs)
  /\ Forall (fun o => sync = true -> length (snd o) = length (fst o)) outs.
Proof.
  intros Hi. induction acts as [|a t IH]; intros ids ins s0 D N s outs I H; cbn [run_steps] in H.
  - injection H as <- <-. cbn [ids_of ins_of all_deliv all_done flat_map]. rewrite !app_nil_r. split; [exact I | constructor].
  - change (nm_step rate_limit_model s0 a) with (r_step s0 a) in H.
    destruct (r_step s0 a) as [s1 [d n]] eqn:Est.
    destruct (run_steps rate_limit_model s1 t) as [s2 os] eqn:Er. injection H as <- <-.
    destruct (r_step_inv _ _ _ _ _ _ _ _ _ _ _ Hi I Est) as [I1 L1].
    destruct (IH _ _ _ _ _ _ _ I1 Er) as [I2 L2].
    rewrite ids_of_cons, ins_of_cons. unfold all_deliv, all_done in *. cbn [flat_map fst snd].
    rewrite !app_assoc. split; [exact I2|]. constructor; [exact L1 | exact L2].
Qed.

Theorem r_reach i sync acts s outs : (0 < i)%Z ->
  run_steps rate_limit_model (r_init i sync) acts = (s, outs) ->
  RInv i sync (ids_of acts) (ins_of acts) s (all_deliv outs) (all_done outs)
  /\ Forall (fun o => sync = true -> length (snd o) = length (fst o)) outs.
Proof.
  intros Hi H. exact (r_reach_gen i sync Hi acts [] [] _ [] [] s outs (RInv_init i sync) H).
Qed.

(* ---- headline theorems ----------------------------------------------------------------------------- *)
Section Headlines.
Variables (i : Z) (sync : bool) (acts : list act) (s : rst) (outs : list (list (Z * val * md) * list nat)).
Hypothesis Hi : (0 < i)%Z.
Hypothesis Hrun : run_steps rate_limit_model (r_init i sync) acts = (s, outs).

Theorem rl_fifo : deliv_items (all_deliv outs) ++ r_pending s = ins_of acts.
Proof. apply (ri_fifo _ _ _ _ _ _ _ (proj1 (r_reach _ _ _ _ _ Hi Hrun))). Qed.

Theorem rl_spacing : spaced i (deliv_times (all_deliv outs)).
Proof.
  pose proof (ri_spaced _ _ _ _ _ _ _ (proj1 (r_reach _ _ _ _ _ Hi Hrun))) as H.
  revert H. generalize (deliv_times (all_deliv outs)) as l. generalize (map s_due (r_sleep s)) as l2.
  intros l2 l. induction l as [|a t IH]; cbn [app spaced]; intros H; [exact I|].
  destruct H as [H1 H2]. split; [|apply IH; exact H2].
  destruct t as [|b t']; [exact I | exact H1].
Qed.

(* the slots reserved for the sleepers continue the spacing of the deliveries, all in the future *)
Theorem rl_sleepers_spaced :
  spaced i (deliv_times (all_deliv outs) ++ map s_due (r_sleep s)) /\ Forall (fun t => (r_now s < t)%Z) (map s_due (r_sleep s))
  /\ Forall (fun t => (t <= r_now s)%Z) (deliv_times (all_deliv outs)).
Proof.
  destruct (proj1 (r_reach _ _ _ _ _ Hi Hrun)). auto.
Qed.

Theorem rl_idle_no_delay src x m :
  (r_next s <= r_now s)%Z -> fst (snd (r_step s (AEmit src x m))) = [(r_now s, x, m)].
Proof.
  intros Hle. cbn [r_step]. unfold rl_slot. cbv beta iota.
  destruct (r_now s <? r_next s)%Z eqn:E; [apply Z.ltb_lt in E; lia|].
  unfold r_deliver. destruct (r_sync s); reflexivity.
Qed.

(* ... and then nothing is sleeping, so the element overtakes nobody *)
Theorem rl_idle_no_sleepers : (r_next s <= r_now s)%Z -> r_sleep s = [].
Proof.
  intros Hle. destruct (proj1 (r_reach _ _ _ _ _ Hi Hrun)) as [_ _ _ _ Hnx _ Hfut _ _ _ _ _].
  destruct (r_sleep s) as [|e0 rest]; [reflexivity|]. exfalso.
  cbn [map] in Hfut. pose proof (Forall_inv Hfut) as Hd. cbv beta in Hd.
  apply Forall_app in Hnx as [_ Hnx]. cbn [map] in Hnx. pose proof (Forall_inv Hnx) as Hd2. cbv beta in Hd2. lia.
Qed.

(* sync sink: in every step as many awaitables complete as elements are delivered, and the completed emits are
   0,1,2,... in order; with rl_fifo (k-th delivery = k-th emit) every emit completes in the step delivering it *)
Theorem rl_done_sync : sync = true ->
  r_flight s = [] /\ Forall (fun o => length (snd o) = length (fst o)) outs
  /\ all_done outs = seq 0 (length (all_deliv outs)).
Proof.
  intros Hs. destruct (r_reach _ _ _ _ _ Hi Hrun) as [I F].
  pose proof (ri_flight _ _ _ _ _ _ _ I Hs) as Hf. split; [exact Hf|]. split.
  - eapply Forall_impl; [|exact F]. cbv beta. intros o Ho. apply Ho, Hs.
  - pose proof (ri_done _ _ _ _ _ _ _ I) as Hd. rewrite Hf in Hd. cbn [map] in Hd. rewrite app_nil_r in Hd. exact Hd.
Qed.

(* both modes: the emits of the delivered elements have completed or wait for the sink, in order *)
Theorem rl_done : all_done outs ++ map snd (r_flight s) = seq 0 (length (all_deliv outs)).
Proof. apply (ri_done _ _ _ _ _ _ _ (proj1 (r_reach _ _ _ _ _ Hi Hrun))). Qed.

Theorem rl_balance : forall r, rcnt (r_rc s) r = mocc (r_held s) r.
Proof. apply (rci_bal _ _ _ (ri_rc _ _ _ _ _ _ _ (proj1 (r_reach _ _ _ _ _ Hi Hrun)))). Qed.

Theorem rl_cb_not_early : NoDup (ids_of acts) -> forall r, In r (rfired (r_rc s)) -> mocc (r_held s) r = 0%Z.
Proof. apply (rci_cb _ _ _ (ri_rc _ _ _ _ _ _ _ (proj1 (r_reach _ _ _ _ _ Hi Hrun)))). Qed.

Theorem rl_count_nonneg : forall r, (0 <= rcnt (r_rc s) r)%Z.
Proof. intros r. rewrite rl_balance. apply mocc_nonneg. Qed.
End Headlines.

(* a sleeper, an element in flight, spacing visible *)
Example rl_nonvacuous :
  let acts := [AEmit 0 (VInt 1) [{| mid := 0; mref := true |}]; AEmit 0 (VInt 2) [{| mid := 1; mref := true |}];
               AEmit 0 (VInt 3) [{| mid := 2; mref := true |}]; AAdv 3; AAck] in
  let '(s, outs) := run_steps rate_limit_model (r_init 3 false) acts in
  deliv_times (all_deliv outs) = [0; 3]%Z /\ map s_due (r_sleep s) = [6%Z] /\ length (r_flight s) = 1
  /\ all_done outs = [0] /\ NoDup (ids_of acts) /\ rfired (r_rc s) = [0].
Proof. vm_compute. repeat split; repeat constructor; cbn; intuition congruence. Qed.

Print Assumptions rl_fifo.
Print Assumptions rl_spacing.
Print Assumptions rl_sleepers_spaced.
Print Assumptions rl_idle_no_delay.
Print Assumptions rl_idle_no_sleepers.
Print Assumptions rl_done_sync.
Print Assumptions rl_done.
Print Assumptions rl_balance.
Print Assumptions rl_cb_not_early.
Print Assumptions rl_count_nonneg.
Print Assumptions rl_nonvacuous.
