(* Theorems about the zip(a, b, maxsize) model with an asynchronous consumer, for ALL action sequences. *)
From Coq Require Import List ZArith Bool Lia Arith.
From SZ Require Import Base.Values Sync.Nodes Async.Core Async.ZipBP.
Import ListNotations.
Close Scope Z_scope.
Open Scope nat_scope.

Definition z_held (s : zst) : md := flat_map snd (z_a s) ++ flat_map snd (z_b s).

(* what the model really stores in buffer b: every emit whose source index is not 0 *)
Definition ins_nz (acts : list act) : list (val * md) :=
  flat_map (fun a => match a with AEmit s x m => if s =? 0 then [] else [(x, m)] | _ => [] end) acts.

Definition src_ok (a : act) : Prop := match a with AEmit src _ _ => src <= 1 | _ => True end.

Definition mk_val (p : (val * md) * (val * md)) : val := VTup [fst (fst p); fst (snd p)].
Definition mk_item (p : (val * md) * (val * md)) : val * md := (mk_val p, snd (fst p) ++ snd (snd p)).

(* ---- small list facts --------------------------------------------------------------------------- *)
Lemma ins_src_app k a b : ins_src k (a ++ b) = ins_src k a ++ ins_src k b.
Proof. unfold ins_src. apply flat_map_app. Qed.
Lemma ins_nz_app a b : ins_nz (a ++ b) = ins_nz a ++ ins_nz b.
Proof. unfold ins_nz. apply flat_map_app. Qed.
Lemma all_deliv_app a b : all_deliv (a ++ b) = all_deliv a ++ all_deliv b.
Proof. unfold all_deliv. apply flat_map_app. Qed.

Lemma combine_snoc {A B} (l1 : list A) (l2 : list B) a b :
  length l1 = length l2 -> combine (l1 ++ [a]) (l2 ++ [b]) = combine l1 l2 ++ [(a, b)].
Proof.
  revert l2; induction l1 as [|h t IH]; intros [|h2 t2] H; cbn in *; try discriminate; [reflexivity|].
  f_equal. apply IH. lia.
Qed.

Lemma ins_nz_src1 acts : Forall src_ok acts -> ins_nz acts = ins_src 1 acts.
Proof.
  induction 1 as [|a t Ha Ht IH]; [reflexivity|].
  unfold ins_nz, ins_src in *. cbn [flat_map]. rewrite IH. f_equal.
  destruct a as [src x m| | |]; try reflexivity. cbn in Ha.
  destruct src as [|[|src]]; cbn; try reflexivity. lia.
Qed.

(* ---- counters ------------------------------------------------------------------------------------ *)
Lemma ids_of_app a b : ids_of (a ++ b) = ids_of a ++ ids_of b.
Proof. unfold ids_of. apply flat_map_app. Qed.

Lemma nodup_app_l {A} (l1 l2 : list A) : NoDup (l1 ++ l2) -> NoDup l1.
Proof.
  induction l1 as [|a t IH]; cbn; intros H; [constructor|].
  inversion H as [|? ? Hn Ht]; subst. constructor; [|apply IH; exact Ht].
  intros X. apply Hn. apply in_or_app. left. exact X.
Qed.
Lemma nodup_app_disj {A} (l1 l2 : list A) x : NoDup (l1 ++ l2) -> In x l1 -> ~ In x l2.
Proof.
  induction l1 as [|a t IH]; cbn; intros H Hi; [contradiction|].
  inversion H as [|? ? Hn Ht]; subst. destruct Hi as [<-|Hi].
  - intros X. apply Hn. apply in_or_app. right. exact X.
  - apply IH; assumption.
Qed.

Lemma mocc_pos_in m r : (0 < mocc m r)%Z -> In r (map mid (filter mref m)).
Proof.
  induction m as [|i t IH]; cbn [mocc filter map]; [lia|].
  destruct (mref i) eqn:Ei; cbn [andb map].
  - destruct (Nat.eqb_spec (mid i) r) as [E|E]; [intros _; left; exact E|]. intros H. right. apply IH. lia.
  - intros H. apply IH. lia.
Qed.

(* E: side condition under which callbacks are claimed not to be early; ids: counter ids seen so far;
   h: number of references currently held for each id *)
Definition RcOK (E : Prop) (ids : list nat) (rc : rcs) (h : nat -> Z) : Prop :=
  (forall r, rcnt rc r = h r) /\
  (E -> forall r, In r (rfired rc) -> h r = 0%Z) /\
  (forall r, In r (rfired rc) \/ (0 < h r)%Z -> In r ids).

Lemma rcok_ext E ids rc h h' : (forall r, h' r = h r) -> RcOK E ids rc h -> RcOK E ids rc h'.
Proof.
  intros X (A & B & C). split; [|split].
  - intros r. rewrite X. apply A.
  - intros e r Hr. rewrite X. apply B; assumption.
  - intros r Hr. apply C. rewrite <- X. exact Hr.
Qed.

Lemma rcok_weaken (E E' : Prop) ids ids' rc h :
  (E' -> E) -> incl ids ids' -> RcOK E ids rc h -> RcOK E' ids' rc h.
Proof.
  intros X Y (A & B & C). split; [exact A|]. split.
  - intros e. apply B. apply X. exact e.
  - intros r Hr. apply Y. apply C. exact Hr.
Qed.

Lemma rcok_retain (E : Prop) ids rc h m :
  (E -> forall r, In r (rfired rc) -> mocc m r = 0%Z) -> (forall r, (0 < mocc m r)%Z -> In r ids) ->
  RcOK E ids rc h -> RcOK E ids (rc_retain rc m 1) (fun r => h r + mocc m r)%Z.
Proof.
  intros X Y (A & B & C). split; [|split].
  - intros r. rewrite rcnt_retain, A. lia.
  - intros e r Hr. rewrite rfired_retain in Hr. rewrite (B e r Hr), (X e r Hr). reflexivity.
  - intros r [Hr|Hr].
    + rewrite rfired_retain in Hr. apply C; left; exact Hr.
    + destruct (Z_lt_le_dec 0 (h r)); [apply C; right; assumption | apply Y; lia].
Qed.

Lemma rcok_via_id E ids rc h m :
  (forall r, mocc m r <= h r)%Z -> RcOK E ids rc h -> RcOK E ids (rc_via_emit rc m (fun x => x)) h.
Proof.
  intros Hle (A & B & C).
  assert (F : forall r, In r (rfired (rc_via_emit rc m (fun x => x))) -> In r (rfired rc)).
  { intros r H. unfold rc_via_emit in H. apply rfired_release_new in H. destruct H as [H|[H1 H2]].
    - rewrite rfired_retain in H. exact H.
    - rewrite rcnt_retain, A in H1. pose proof (Hle r). lia. }
  split; [|split].
  - intros r. unfold rc_via_emit. rewrite rcnt_release, rcnt_retain, A. lia.
  - intros e r Hr. apply B; auto.
  - intros r [Hr|Hr]; apply C; auto.
Qed.

Lemma rcok_release E ids rc h m :
  (forall r, mocc m r <= h r)%Z -> RcOK E ids rc h ->
  RcOK E ids (rc_release rc m 1) (fun r => h r - mocc m r)%Z.
Proof.
  intros Hle (A & B & C). split; [|split].
  - intros r. rewrite rcnt_release, A. lia.
  - intros e r Hr. pose proof (Hle r). pose proof (mocc_nonneg m r).
    apply rfired_release_new in Hr. destruct Hr as [Hr|[H1 H2]].
    + pose proof (B e r Hr). lia.
    + rewrite A in H1. lia.
  - intros r Hr. pose proof (Hle r). pose proof (mocc_nonneg m r). destruct Hr as [Hr|Hr].
    + apply rfired_release_new in Hr. destruct Hr as [Hr|[H1 H2]]; apply C; [left; exact Hr | right; lia].
    + apply C. right. lia.
Qed.

(* a new element arrives: its ids are fresh, so no callback already fired concerns it *)
Lemma rcok_new (E E' : Prop) ids rc h m :
  (E' -> E) -> (E' -> NoDup (ids ++ map mid (filter mref m))) -> RcOK E ids rc h ->
  RcOK E' (ids ++ map mid (filter mref m)) rc h /\
  (E' -> forall r, In r (rfired rc) -> mocc m r = 0%Z) /\
  (forall r, (0 < mocc m r)%Z -> In r (ids ++ map mid (filter mref m))).
Proof.
  intros X Y R. split; [|split].
  - eapply rcok_weaken; [exact X | apply incl_appl, incl_refl | exact R].
  - intros e r Hr. destruct R as (A & B & C).
    assert (Hi : In r ids) by (apply C; left; exact Hr).
    pose proof (nodup_app_disj _ _ r (Y e) Hi) as Hn.
    pose proof (mocc_nonneg m r). destruct (Z.eq_dec (mocc m r) 0) as [Z0|Z0]; [exact Z0|].
    exfalso. apply Hn. apply mocc_pos_in. lia.
  - intros r Hr. apply in_or_app. right. apply mocc_pos_in. exact Hr.
Qed.

Lemma ids_of_emit acts src x m : ids_of (acts ++ [AEmit src x m]) = ids_of acts ++ map mid (filter mref m).
Proof. rewrite ids_of_app. cbn. rewrite app_nil_r. reflexivity. Qed.

(* ---- the invariant ------------------------------------------------------------------------------ *)
Record ZInv (acts : list act) (s : zst) (outs : list (list (Z * val * md) * list nat)) : Prop := {
  zi_pairs : exists Da Db,
      ins_src 0 acts = Da ++ z_a s /\ ins_nz acts = Db ++ z_b s /\
      length Da = length (all_deliv outs) /\ length Db = length (all_deliv outs) /\
      deliv_items (all_deliv outs) = map mk_item (combine Da Db);
  zi_empty : z_a s = [] \/ z_b s = [];
  zi_rc : RcOK (NoDup (ids_of acts)) (ids_of acts) (z_rc s) (fun r => mocc (z_held s) r);
}.

Lemma ZInv_init mx sync : ZInv [] (z_init mx sync) [].
Proof.
  constructor; cbn.
  - exists [], []. cbn. repeat split; reflexivity.
  - left; reflexivity.
  - split; [reflexivity|]. split; [intros _ r []|]. intros r [[]|H]. cbn in H. lia.
Qed.

(* an emit that only stores its element *)
Lemma zinv_store acts s outs src x m nx w d :
  ZInv acts s outs ->
  (src = 0 -> z_b s = []) -> (src <> 0 -> z_a s = []) ->
  ZInv (acts ++ [AEmit src x m])
       {| z_max := z_max s; z_sync := z_sync s; z_now := z_now s;
          z_rc := rc_release (rc_retain (rc_retain (z_rc s) m 1) m 1) m 1; z_next := nx;
          z_a := if src =? 0 then z_a s ++ [(x, m)] else z_a s;
          z_b := if src =? 0 then z_b s else z_b s ++ [(x, m)];
          z_waiters := w; z_flight := z_flight s |}
       (outs ++ [([], d)]).
Proof.
  intros [(Da & Db & Ha & Hb & La & Lb & Hd) He Hbal] H0 H1.
  constructor; cbn [z_a z_b z_rc].
  - exists Da, Db. rewrite ins_src_app, ins_nz_app, all_deliv_app. cbn. rewrite !app_nil_r.
    destruct (Nat.eqb_spec src 0) as [E|E]; cbn; rewrite ?app_nil_r, Ha, Hb, ?app_assoc; auto.
  - destruct (Nat.eqb_spec src 0) as [E|E]; [right|left]; auto.
  - rewrite ids_of_emit.
    destruct (rcok_new _ (NoDup (ids_of acts ++ map mid (filter mref m))) _ _ _ m (@nodup_app_l _ _ _) (fun e => e) Hbal)
      as (R0 & F & G).
    pose proof (rcok_retain _ _ _ _ m F G R0) as R1.
    assert (F1 : NoDup (ids_of acts ++ map mid (filter mref m)) ->
                 forall r, In r (rfired (rc_retain (z_rc s) m 1)) -> mocc m r = 0%Z)
      by (intros e r Hr; rewrite rfired_retain in Hr; apply F; assumption).
    pose proof (rcok_retain _ _ _ _ m F1 G R1) as R2.
    assert (L : forall r, (mocc m r <= (fun r => (fun r => mocc (z_held s) r + mocc m r) r + mocc m r) r)%Z).
    { intros r. cbn beta. pose proof (mocc_nonneg (z_held s) r). pose proof (mocc_nonneg m r). lia. }
    pose proof (rcok_release _ _ _ _ m L R2) as R3.
    eapply rcok_ext; [|exact R3].
    intros r. cbn beta. unfold z_held. cbn [z_a z_b].
    destruct (src =? 0); rewrite ?flat_map_app; cbn [flat_map snd]; rewrite ?mocc_app, ?app_nil_r; cbn [mocc]; lia.
Qed.

(* an emit that completes a tuple *)
Lemma zinv_deliver acts s outs src x m nx w fl d xa ma ta xb mb tb :
  ZInv acts s outs ->
  (if src =? 0 then z_a s ++ [(x, m)] else z_a s) = (xa, ma) :: ta ->
  (if src =? 0 then z_b s else z_b s ++ [(x, m)]) = (xb, mb) :: tb ->
  (ta = [] \/ tb = []) ->
  ZInv (acts ++ [AEmit src x m])
       {| z_max := z_max s; z_sync := z_sync s; z_now := z_now s;
          z_rc := rc_release (rc_release (rc_via_emit (rc_retain (rc_retain (z_rc s) m 1) m 1) (ma ++ mb) (fun r => r))
                                         (ma ++ mb) 1) m 1;
          z_next := nx; z_a := ta; z_b := tb; z_waiters := w; z_flight := fl |}
       (outs ++ [([(z_now s, VTup [xa; xb], ma ++ mb)], d)]).
Proof.
  intros [(Da & Db & Ha & Hb & La & Lb & Hd) He Hbal] Ea Eb Ht.
  constructor; cbn [z_a z_b z_rc].
  - exists (Da ++ [(xa, ma)]), (Db ++ [(xb, mb)]).
    rewrite ins_src_app, ins_nz_app, all_deliv_app. cbn. rewrite !app_nil_r.
    rewrite combine_snoc by lia. unfold deliv_items in *. rewrite !map_app, Hd, !app_length. cbn.
    rewrite <- !app_assoc. cbn. rewrite Ha, Hb.
    destruct (Nat.eqb_spec src 0) as [E|E]; cbn; rewrite ?app_nil_r.
    + rewrite <- app_assoc, Ea, <- Eb. repeat split; auto; lia.
    + rewrite <- app_assoc, Eb, <- Ea. repeat split; auto; lia.
  - exact Ht.
  - rewrite ids_of_emit.
    assert (K : forall r, (mocc (z_held s) r + mocc m r = mocc (ma ++ mb) r + mocc (flat_map snd ta ++ flat_map snd tb) r)%Z).
    { intros r. unfold z_held.
      assert (Ea' : mocc (flat_map snd (if src =? 0 then z_a s ++ [(x, m)] else z_a s)) r = (mocc ma r + mocc (flat_map snd ta) r)%Z)
        by (rewrite Ea; cbn [flat_map snd]; apply mocc_app).
      assert (Eb' : mocc (flat_map snd (if src =? 0 then z_b s else z_b s ++ [(x, m)])) r = (mocc mb r + mocc (flat_map snd tb) r)%Z)
        by (rewrite Eb; cbn [flat_map snd]; apply mocc_app).
      clear Ea Eb. rewrite !mocc_app.
      destruct (src =? 0); rewrite ?flat_map_app in *; cbn [flat_map snd] in *; rewrite ?mocc_app, ?app_nil_r in *;
        cbn [mocc] in *; lia. }
    destruct (rcok_new _ (NoDup (ids_of acts ++ map mid (filter mref m))) _ _ _ m (@nodup_app_l _ _ _) (fun e => e) Hbal)
      as (R0 & F & G).
    pose proof (rcok_retain _ _ _ _ m F G R0) as R1.
    assert (F1 : NoDup (ids_of acts ++ map mid (filter mref m)) ->
                 forall r, In r (rfired (rc_retain (z_rc s) m 1)) -> mocc m r = 0%Z)
      by (intros e r Hr; rewrite rfired_retain in Hr; apply F; assumption).
    pose proof (rcok_retain _ _ _ _ m F1 G R1) as R2.
    assert (L1 : forall r, (mocc (ma ++ mb) r <= (fun r => (fun r => mocc (z_held s) r + mocc m r) r + mocc m r) r)%Z).
    { intros r. cbn beta. pose proof (K r). pose proof (mocc_nonneg m r).
      pose proof (mocc_nonneg (flat_map snd ta ++ flat_map snd tb) r). lia. }
    pose proof (rcok_via_id _ _ _ _ (ma ++ mb) L1 R2) as R3.
    pose proof (rcok_release _ _ _ _ (ma ++ mb) L1 R3) as R4.
    assert (L2 : forall r, (mocc m r <= (fun r => (fun r => (fun r => mocc (z_held s) r + mocc m r) r + mocc m r) r - mocc (ma ++ mb) r) r)%Z).
    { intros r. cbn beta. pose proof (K r). pose proof (mocc_nonneg m r).
      pose proof (mocc_nonneg (flat_map snd ta ++ flat_map snd tb) r). lia. }
    pose proof (rcok_release _ _ _ _ m L2 R4) as R5.
    eapply rcok_ext; [|exact R5].
    intros r. cbn beta. unfold z_held at 1. cbn [z_a z_b]. pose proof (K r). lia.
Qed.

Lemma zinv_frame acts s outs a mx sy now nx w fl d :
  ZInv acts s outs ->
  match a with AEmit _ _ _ => False | _ => True end ->
  ZInv (acts ++ [a])
       {| z_max := mx; z_sync := sy; z_now := now; z_rc := z_rc s; z_next := nx; z_a := z_a s; z_b := z_b s;
          z_waiters := w; z_flight := fl |} (outs ++ [([], d)]).
Proof.
  intros [(Da & Db & Ha & Hb & La & Lb & Hd) He Hbal] Hna.
  constructor; cbn [z_a z_b z_rc]; auto.
  - exists Da, Db. rewrite ins_src_app, ins_nz_app, all_deliv_app. cbn [all_deliv flat_map fst]. rewrite !app_nil_r.
    destruct a; try contradiction; cbn; rewrite !app_nil_r; auto.
  - replace (ids_of (acts ++ [a])) with (ids_of acts); [exact Hbal|].
    rewrite ids_of_app. destruct a; try contradiction; cbn; rewrite app_nil_r; reflexivity.
Qed.

Lemma zst_eta s : s = {| z_max := z_max s; z_sync := z_sync s; z_now := z_now s; z_rc := z_rc s; z_next := z_next s;
                         z_a := z_a s; z_b := z_b s; z_waiters := z_waiters s; z_flight := z_flight s |}.
Proof. destruct s; reflexivity. Qed.

Lemma snoc_single {A} (l : list A) (x : A) : length (l ++ [x]) = 1 -> l = [].
Proof. rewrite app_length. cbn. destruct l; cbn; [reflexivity | lia]. Qed.

Lemma ZInv_step acts s outs a s' o :
  ZInv acts s outs -> z_step s a = (s', o) -> ZInv (acts ++ [a]) s' (outs ++ [o]).
Proof.
  intros I H. destruct a as [src x m| |k|dt]; cbn [z_step] in H.
  - (* emit *)
    pose proof (zi_empty _ _ _ I) as He.
    destruct (if src =? 0 then z_a s ++ [(x, m)] else z_a s) as [|[xa ma] ta] eqn:Ea.
    { (* la = [] : src <> 0 and z_a = [] *)
      destruct (Nat.eqb_spec src 0) as [E|E]; [destruct (z_a s); discriminate|].
      assert (Hs : forall d w, ZInv (acts ++ [AEmit src x m])
               {| z_max := z_max s; z_sync := z_sync s; z_now := z_now s;
                  z_rc := rc_release (rc_retain (rc_retain (z_rc s) m 1) m 1) m 1; z_next := S (z_next s);
                  z_a := []; z_b := z_b s ++ [(x, m)]; z_waiters := w; z_flight := z_flight s |} (outs ++ [([], d)])).
      { intros d w. pose proof (zinv_store acts s outs src x m (S (z_next s)) w d I) as Q.
        destruct (Nat.eqb_spec src 0); [contradiction|]. rewrite Ea in Q. apply Q; [intros; contradiction | reflexivity]. }
      destruct (z_max s <? length (z_b s ++ [(x, m)])); injection H as <- <-; apply Hs. }
    destruct (if src =? 0 then z_b s else z_b s ++ [(x, m)]) as [|[xb mb] tb] eqn:Eb.
    { (* lb = [] : src = 0 and z_b = [] *)
      destruct (Nat.eqb_spec src 0) as [E|E]; [|destruct (z_b s); discriminate].
      rewrite <- Ea in H.
      assert (Hs : forall d w, ZInv (acts ++ [AEmit src x m])
               {| z_max := z_max s; z_sync := z_sync s; z_now := z_now s;
                  z_rc := rc_release (rc_retain (rc_retain (z_rc s) m 1) m 1) m 1; z_next := S (z_next s);
                  z_a := z_a s ++ [(x, m)]; z_b := []; z_waiters := w; z_flight := z_flight s |} (outs ++ [([], d)])).
      { intros d w. pose proof (zinv_store acts s outs src x m (S (z_next s)) w d I) as Q.
        destruct (Nat.eqb_spec src 0); [|contradiction]. rewrite Eb in Q. apply Q; [reflexivity | intros; contradiction]. }
      destruct (z_max s <? length (z_a s ++ [(x, m)])); injection H as <- <-; apply Hs. }
    (* both non-empty: the new element is alone in its buffer *)
    assert (Hone : length (if src =? 0 then (xa, ma) :: ta else (xb, mb) :: tb) = 1 /\ (ta = [] \/ tb = [])).
    { destruct (Nat.eqb_spec src 0) as [E|E].
      - destruct He as [He|He]; [|rewrite He in Eb; discriminate].
        rewrite He in Ea. cbn in Ea. injection Ea as _ _ <-. auto.
      - destruct He as [He|He]; [rewrite He in Ea; discriminate|].
        rewrite He in Eb. cbn in Eb. injection Eb as _ _ <-. auto. }
    destruct Hone as [Hone Ht]. rewrite Hone in H. cbn [Nat.eqb] in H.
    injection H as <- <-.
    apply (zinv_deliver acts s outs src x m); assumption.
  - (* ack *)
    destruct (z_flight s) as [|e rest] eqn:Ef.
    + injection H as <- <-. rewrite (zst_eta s). apply zinv_frame; [exact I | exact Logic.I].
    + injection H as <- <-. apply zinv_frame; [exact I | exact Logic.I].
  - injection H as <- <-. rewrite (zst_eta s). apply zinv_frame; [exact I | exact Logic.I].
  - injection H as <- <-. apply zinv_frame; [exact I | exact Logic.I].
Qed.

Lemma ZInv_steps : forall acts acts0 s0 outs0 s outs,
  ZInv acts0 s0 outs0 -> run_steps zip_model s0 acts = (s, outs) -> ZInv (acts0 ++ acts) s (outs0 ++ outs).
Proof.
  induction acts as [|a t IH]; intros acts0 s0 outs0 s outs I H; cbn [run_steps] in H.
  - injection H as <- <-. rewrite !app_nil_r. exact I.
  - destruct (nm_step zip_model s0 a) as [s1 o] eqn:E1.
    destruct (run_steps zip_model s1 t) as [s2 os] eqn:E2. injection H as <- <-.
    change (a :: t) with ([a] ++ t). change (o :: os) with ([o] ++ os). rewrite !app_assoc.
    eapply IH; [|exact E2]. eapply ZInv_step; [exact I | exact E1].
Qed.

Theorem zip_reach mx sync acts s outs :
  run_steps zip_model (z_init mx sync) acts = (s, outs) -> ZInv acts s outs.
Proof. intros H. apply (ZInv_steps acts [] _ [] s outs (ZInv_init mx sync) H). Qed.

(* ---- headline theorems ---------------------------------------------------------------------------- *)

(* general form: buffer b receives every emit whose source index is not 0 *)
Theorem zip_pairs_gen mx sync acts s outs :
  run_steps zip_model (z_init mx sync) acts = (s, outs) ->
  let k := length (all_deliv outs) in
  deliv_items (all_deliv outs) = map mk_item (combine (firstn k (ins_src 0 acts)) (firstn k (ins_nz acts)))
  /\ z_a s = skipn k (ins_src 0 acts) /\ z_b s = skipn k (ins_nz acts) /\ (z_a s = [] \/ z_b s = []).
Proof.
  intros H k. destruct (zip_reach _ _ _ _ _ H) as [(Da & Db & Ha & Hb & La & Lb & Hd) He _].
  assert (F : forall (D R : list (val * md)), length D = k -> firstn k (D ++ R) = D /\ skipn k (D ++ R) = R).
  { intros D R <-. rewrite firstn_app, skipn_app, firstn_all, skipn_all, Nat.sub_diag. cbn. rewrite app_nil_r. auto. }
  rewrite Ha, Hb. destruct (F Da (z_a s) La) as [-> ->]. destruct (F Db (z_b s) Lb) as [-> ->]. auto.
Qed.

(* INTENDED STATEMENT (zip_pairs), false of the model for action lists that emit on a source index >= 2
   (the model, like the harness, treats every non-zero index as input b):
   forall mx sync acts s outs, run_steps zip_model (z_init mx sync) acts = (s, outs) ->
     let k := length (all_deliv outs) in
     map (fun d => snd (fst d)) (all_deliv outs) = map (fun p => VTup [fst (fst p); fst (snd p)]) (combine (firstn k (ins_src 0 acts)) (firstn k (ins_src 1 acts)))
     /\ z_a s = skipn k (ins_src 0 acts) /\ z_b s = skipn k (ins_src 1 acts) /\ (z_a s = [] \/ z_b s = []). *)
Theorem zip_pairs_refuted :
  exists mx sync acts s outs, run_steps zip_model (z_init mx sync) acts = (s, outs) /\
    let k := length (all_deliv outs) in z_b s <> skipn k (ins_src 1 acts).
Proof.
  exists 1, false, [AEmit 2 (VInt 7) []]. eexists. eexists. split; [vm_compute; reflexivity|].
  vm_compute. discriminate.
Qed.

Theorem zip_pairs_partial mx sync acts s outs :
  Forall src_ok acts ->                      (* extra hypothesis: only the two real inputs 0 and 1 emit *)
  run_steps zip_model (z_init mx sync) acts = (s, outs) ->
  let k := length (all_deliv outs) in
  map (fun d => snd (fst d)) (all_deliv outs) = map (fun p => VTup [fst (fst p); fst (snd p)]) (combine (firstn k (ins_src 0 acts)) (firstn k (ins_src 1 acts)))
  /\ z_a s = skipn k (ins_src 0 acts) /\ z_b s = skipn k (ins_src 1 acts) /\ (z_a s = [] \/ z_b s = []).
Proof.
  intros Hs H k. destruct (zip_pairs_gen _ _ _ _ _ H) as (A & B & C & D). fold k in A, B, C.
  rewrite (ins_nz_src1 _ Hs) in *. repeat split; auto.
  apply (f_equal (map fst)) in A. unfold deliv_items in A. rewrite !map_map in A. cbn [fst] in A. exact A.
Qed.

(* the metadata of a delivered tuple is the concatenation of its members' metadata *)
Theorem zip_pairs_md mx sync acts s outs :
  Forall src_ok acts ->
  run_steps zip_model (z_init mx sync) acts = (s, outs) ->
  let k := length (all_deliv outs) in
  map snd (all_deliv outs) = map (fun p => snd (fst p) ++ snd (snd p)) (combine (firstn k (ins_src 0 acts)) (firstn k (ins_src 1 acts))).
Proof.
  intros Hs H k. destruct (zip_pairs_gen _ _ _ _ _ H) as (A & _). fold k in A.
  rewrite (ins_nz_src1 _ Hs) in *.
  apply (f_equal (map snd)) in A. unfold deliv_items in A. rewrite !map_map in A. cbn [snd] in A. exact A.
Qed.

Theorem zip_balance mx sync acts s outs :
  run_steps zip_model (z_init mx sync) acts = (s, outs) -> forall r, rcnt (z_rc s) r = mocc (z_held s) r.
Proof. intros H. exact (proj1 (zi_rc _ _ _ (zip_reach _ _ _ _ _ H))). Qed.

Theorem zip_count_nonneg mx sync acts s outs :
  run_steps zip_model (z_init mx sync) acts = (s, outs) -> forall r, (0 <= rcnt (z_rc s) r)%Z.
Proof. intros H r. rewrite (zip_balance _ _ _ _ _ H). apply mocc_nonneg. Qed.

(* the TRUE part of the generic callback property: no callback is ever scheduled for an element that is still
   BUFFERED in the node (what fails, see zip_cb_early_refuted, is only the wait for the consumer of a delivered tuple) *)
Theorem zip_cb_not_early_buffered mx sync acts s outs :
  run_steps zip_model (z_init mx sync) acts = (s, outs) ->
  NoDup (ids_of acts) -> forall r, In r (rfired (z_rc s)) -> mocc (z_held s) r = 0%Z.
Proof. intros H. exact (proj1 (proj2 (zi_rc _ _ _ (zip_reach _ _ _ _ _ H)))). Qed.

Definition mdr (i : nat) : mdi := {| mid := i; mref := true |}.

(* zip releases its references as soon as sink.update() has returned: the completion callbacks of both members
   are scheduled while the consumer of their tuple is still unfinished *)
Theorem zip_cb_early_refuted :
  exists acts s outs r, NoDup (ids_of acts) /\ run_steps zip_model (z_init 1 false) acts = (s, outs)
    /\ In r (rfired (z_rc s)) /\ z_flight s <> [].
Proof.
  exists [AEmit 0 (VInt 1) [mdr 0]; AEmit 1 (VInt 2) [mdr 1]]. eexists. eexists. exists 0.
  split; [|split; [vm_compute; reflexivity|]].
  - cbn. repeat constructor; cbn; intuition discriminate.
  - split; [vm_compute; auto | vm_compute; discriminate].
Qed.

(* one step: a delivery wakes every waiter (notify_all) and completes their awaitables in that step *)
Lemma zip_step_waiters s a s' o :
  z_step s a = (s', o) -> fst o <> [] -> z_waiters s' = [] /\ incl (z_waiters s) (snd o).
Proof.
  intros H Hd. destruct a as [src x m| |k|dt]; cbn [z_step] in H.
  - destruct (if src =? 0 then z_a s ++ [(x, m)] else z_a s) as [|[xa ma] ta];
      [destruct (_ <? _); injection H as <- <-; cbn in Hd; contradiction|].
    destruct (if src =? 0 then z_b s else z_b s ++ [(x, m)]) as [|[xb mb] tb];
      [destruct (_ <? _); injection H as <- <-; cbn in Hd; contradiction|].
    destruct (_ =? 1).
    + injection H as <- <-. cbn. split; [reflexivity|]. apply incl_appl, incl_refl.
    + destruct (_ <? _); injection H as <- <-; cbn in Hd; contradiction.
  - destruct (z_flight s); injection H as <- <-; cbn in Hd; contradiction.
  - injection H as <- <-; cbn in Hd; contradiction.
  - injection H as <- <-; cbn in Hd; contradiction.
Qed.

Theorem zip_waiters_released mx sync acts a s outs o :
  run_steps zip_model (z_init mx sync) (acts ++ [a]) = (s, outs ++ [o]) ->
  fst o <> [] -> z_waiters s = [].
Proof.
  intros H Hd. rewrite run_steps_app in H.
  destruct (run_steps zip_model (z_init mx sync) acts) as [s1 o1].
  cbn [run_steps] in H. destruct (nm_step zip_model s1 a) as [s2 o2] eqn:E.
  injection H as <- H. apply app_inj_tail in H as [_ <-].
  exact (proj1 (zip_step_waiters _ _ _ _ E Hd)).
Qed.

(* non-vacuity: with maxsize 1 the second emit on input a blocks (a waiter), the emit on b delivers a tuple,
   wakes the waiter, leaves one element buffered and its own awaitable in flight to the sink *)
Example zip_nonvacuous :
  let acts := [AEmit 0 (VInt 1) [mdr 0]; AEmit 0 (VInt 2) [mdr 1]; AEmit 1 (VInt 3) [mdr 2]] in
  let '(s, outs) := run_steps zip_model (z_init 1 false) acts in
  Forall src_ok acts /\ NoDup (ids_of acts) /\
  all_deliv outs = [(0%Z, VTup [VInt 1; VInt 3], [mdr 0; mdr 2])] /\ all_done outs = [0; 1] /\
  z_a s = [(VInt 2, [mdr 1])] /\ z_b s = [] /\ z_flight s = [2] /\ z_waiters s = [] /\
  map (rcnt (z_rc s)) [0; 1; 2] = [0; 1; 0]%Z /\ rfired (z_rc s) = [0; 2] /\
  z_waiters (fst (run_steps zip_model (z_init 1 false) (firstn 2 acts))) = [1].
Proof.
  vm_compute. repeat split; try reflexivity.
  - repeat constructor.
  - repeat constructor; cbn; intuition discriminate.
Qed.

Print Assumptions zip_reach.
Print Assumptions zip_pairs_gen.
Print Assumptions zip_pairs_refuted.
Print Assumptions zip_pairs_partial.
Print Assumptions zip_pairs_md.
Print Assumptions zip_balance.
Print Assumptions zip_count_nonneg.
Print Assumptions zip_cb_early_refuted.
Print Assumptions zip_cb_not_early_buffered.
Print Assumptions zip_waiters_released.
Print Assumptions zip_nonvacuous.
