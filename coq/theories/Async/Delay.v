(* delay(interval): unbounded tornado Queue + one forwarding coroutine
     cb: while True: last = time(); x, md = yield queue.get(); yield self._emit(x, md); release(md)
                     duration = interval - (time() - last); if duration > 0: yield sleep(duration)
     update: retain(md); return queue.put((x, md))       (never blocks) *)
From Coq Require Import List ZArith Bool Lia Arith.
From SZ Require Import Base.Values Sync.Nodes Async.Core.
Import ListNotations.
Close Scope Z_scope.
Open Scope nat_scope.

Inductive dmode :=
| DWait (t0 : Z)                      (* waiting in queue.get() since t0 *)
| DEmit (t0 : Z) (m : md)             (* awaiting the sink for the element taken in the iteration begun at t0 *)
| DSleep (until : Z).

Record dst := {
  d_int : Z; d_sync : bool; d_now : Z; d_rc : rcs; d_next : nat;
  d_q : list (val * md); d_mode : dmode;
}.

Definition d_init (interval : Z) (sync : bool) : dst :=
  {| d_int := interval; d_sync := sync; d_now := 0%Z; d_rc := rc0; d_next := 0; d_q := []; d_mode := DWait 0%Z |}.

Definition d_set (s : dst) (now : Z) (rc : rcs) (q : list (val * md)) (mode : dmode) : dst :=
  {| d_int := d_int s; d_sync := d_sync s; d_now := now; d_rc := rc; d_next := d_next s; d_q := q; d_mode := mode |}.

(* after an emission finished at time `now` in an iteration begun at t0 *)
Definition d_after (s : dst) (now t0 : Z) : dmode :=
  let duration := (d_int s - (now - t0))%Z in
  if (0 <? duration)%Z then DSleep (now + duration)%Z else DWait now.

(* the forwarder takes (x, m) at time `now` in an iteration begun at t0 *)
Definition d_take (s : dst) (now t0 : Z) (rc : rcs) (x : val) (m : md) (q : list (val * md))
  : dst * list (Z * val * md) :=
  let rc1 := rc_via_emit rc m (fun r => r) in
  if d_sync s then (d_set s now (rc_release rc1 m 1) q (d_after s now t0), [(now, x, m)])
  else (d_set s now rc1 q (DEmit t0 m), [(now, x, m)]).

(* a new iteration of the loop begins at `now` (state has mode DWait now) *)
Definition d_iter (s : dst) : dst * list (Z * val * md) :=
  match d_mode s, d_q s with
  | DWait t0, (x, m) :: q => d_take s (d_now s) t0 (d_rc s) x m q
  | _, _ => (s, [])
  end.

Definition d_tick (s : dst) : dst * list (Z * val * md) :=
  let now := (d_now s + 1)%Z in
  let s1 := d_set s now (d_rc s) (d_q s) (d_mode s) in
  match d_mode s with
  | DSleep until => if (until <=? now)%Z then d_iter (d_set s now (d_rc s) (d_q s) (DWait now)) else (s1, [])
  | _ => (s1, [])
  end.

Fixpoint d_adv (n : nat) (s : dst) : dst * list (Z * val * md) :=
  match n with
  | O => (s, [])
  | S n' => let '(s1, d1) := d_tick s in let '(s2, d2) := d_adv n' s1 in (s2, d1 ++ d2)
  end.

Definition d_step (s : dst) (a : act) : dst * (list (Z * val * md) * list nat) :=
  match a with
  | AEmit _ x m =>
      let e := d_next s in
      let rc := rc_via_emit (d_rc s) m (fun r => rc_retain r m 1) in
      let s1 := {| d_int := d_int s; d_sync := d_sync s; d_now := d_now s; d_rc := rc; d_next := S e;
                   d_q := d_q s ++ [(x, m)]; d_mode := d_mode s |} in
      let '(s2, dl) := d_iter s1 in
      (* with a synchronous sink and interval satisfied the loop may go on: the queue holds one element at most here *)
      (s2, (dl, [e]))
  | AAck =>
      match d_mode s with
      | DEmit t0 m =>
          let rc := rc_release (d_rc s) m 1 in
          let mode := d_after s (d_now s) t0 in
          let '(s2, dl) := d_iter (d_set s (d_now s) rc (d_q s) mode) in
          (s2, (dl, []))
      | _ => (s, ([], []))
      end
  | ATask _ => (s, ([], []))
  | AAdv dt => let '(s1, dl) := d_adv (Z.to_nat dt) s in (s1, (dl, []))
  end.

Definition delay_model : node_model :=
  {| nm_state := dst; nm_step := d_step; nm_now := d_now; nm_rc := d_rc |}.
