(* Theorems about the buffer(n) model, for ALL action sequences (schedules). *)
From Coq Require Import List ZArith Bool Lia Arith Permutation.
From SZ Require Import Base.Values Sync.Nodes Async.Core Async.Buffer.
Import ListNotations.
Close Scope Z_scope.
Open Scope nat_scope.

(* ---- common helper facts (local copies, see THEOREMS.md) -------------------------------------- *)
Lemma ins_of_app a b : ins_of (a ++ b) = ins_of a ++ ins_of b.
Proof. apply flat_map_app. Qed.
Lemma ids_of_app a b : ids_of (a ++ b) = ids_of a ++ ids_of b.
Proof. apply flat_map_app. Qed.
Lemma all_deliv_app a b : all_deliv (a ++ b) = all_deliv a ++ all_deliv b.
Proof. apply flat_map_app. Qed.
Lemma all_done_app a b : all_done (a ++ b) = all_done a ++ all_done b.
Proof. apply flat_map_app. Qed.
Lemma deliv_items_app a b : deliv_items (a ++ b) = deliv_items a ++ deliv_items b.
Proof. apply map_app. Qed.
Lemma n_emits_app a b : n_emits (a ++ b) = n_emits a + n_emits b.
Proof. unfold n_emits. rewrite ins_of_app, app_length. reflexivity. Qed.

Lemma ins_of_snoc_emit acts src x m : ins_of (acts ++ [AEmit src x m]) = ins_of acts ++ [(x, m)].
Proof. rewrite ins_of_app. reflexivity. Qed.
Lemma ids_of_snoc_emit acts src x m : ids_of (acts ++ [AEmit src x m]) = ids_of acts ++ map mid (filter mref m).
Proof. rewrite ids_of_app. cbn [ids_of flat_map]. rewrite app_nil_r. reflexivity. Qed.
Lemma n_emits_snoc_emit acts src x m : n_emits (acts ++ [AEmit src x m]) = S (n_emits acts).
Proof. rewrite n_emits_app. cbn. lia. Qed.

Definition no_emit (a : act) : Prop := match a with AEmit _ _ _ => False | _ => True end.
Lemma ins_of_snoc_other acts a : no_emit a -> ins_of (acts ++ [a]) = ins_of acts.
Proof. intros H. rewrite ins_of_app. destruct a; try destruct H; cbn; apply app_nil_r. Qed.
Lemma ids_of_snoc_other acts a : no_emit a -> ids_of (acts ++ [a]) = ids_of acts.
Proof. intros H. rewrite ids_of_app. destruct a; try destruct H; cbn; apply app_nil_r. Qed.

Lemma mocc_notin m r : ~ In r (map mid (filter mref m)) -> mocc m r = 0%Z.
Proof.
  induction m as [|i t IH]; cbn [mocc filter map]; intros H; [reflexivity|].
  destruct (mref i) eqn:Ei; cbn [andb map] in *.
  - destruct (Nat.eqb_spec (mid i) r) as [E|E].
    + exfalso. apply H. left. exact E.
    + rewrite IH; [reflexivity|]. intros X. apply H. right. exact X.
  - rewrite IH; [reflexivity | exact H].
Qed.

Lemma nodup_app_inv {A} (l1 l2 : list A) :
  NoDup (l1 ++ l2) -> NoDup l1 /\ NoDup l2 /\ (forall x, In x l1 -> ~ In x l2).
Proof.
  induction l1 as [|a t IH]; cbn [app]; intros H.
  - split; [constructor|]. split; [exact H|]. intros x [].
  - inversion H as [|? ? Hn Ht]; subst. destruct (IH Ht) as [H1 [H2 H3]].
    split; [constructor; [intros X; apply Hn; apply in_or_app; left; exact X | exact H1]|].
    split; [exact H2|]. intros x [<-|Hx]; [intros X; apply Hn; apply in_or_app; right; exact X | apply H3; exact Hx].
Qed.

Lemma nodup_snoc_emit acts src x m :
  NoDup (ids_of (acts ++ [AEmit src x m])) ->
  NoDup (ids_of acts) /\ (forall r, In r (ids_of acts) -> mocc m r = 0%Z).
Proof.
  rewrite ids_of_snoc_emit. intros H. apply nodup_app_inv in H as [H1 [H2 H3]].
  split; [exact H1|]. intros r Hr. apply mocc_notin. apply H3. exact Hr.
Qed.

Lemma notin_snoc_emit acts src x m r :
  ~ In r (ids_of (acts ++ [AEmit src x m])) -> ~ In r (ids_of acts) /\ mocc m r = 0%Z.
Proof.
  rewrite ids_of_snoc_emit. intros H. split.
  - intros X. apply H. apply in_or_app. left. exact X.
  - apply mocc_notin. intros X. apply H. apply in_or_app. right. exact X.
Qed.

(* lifting a step invariant to all runs *)
Lemma run_steps_inv (M : node_model)
      (I : list act -> nm_state M -> list (list (Z * val * md) * list nat) -> Prop) :
  (forall acts s outs a s' o, I acts s outs -> nm_step M s a = (s', o) -> I (acts ++ [a]) s' (outs ++ [o])) ->
  forall acts acts0 s0 outs0 s outs,
    I acts0 s0 outs0 -> run_steps M s0 acts = (s, outs) -> I (acts0 ++ acts) s (outs0 ++ outs).
Proof.
  intros Hstep. induction acts as [|a t IH]; intros acts0 s0 outs0 s outs H0 Hr; cbn [run_steps] in Hr.
  - injection Hr as <- <-. rewrite !app_nil_r. exact H0.
  - destruct (nm_step M s0 a) as [s1 o] eqn:E1. destruct (run_steps M s1 t) as [s2 os] eqn:E2.
    injection Hr as <- <-.
    change (a :: t) with ([a] ++ t). change (o :: os) with ([o] ++ os). rewrite !app_assoc.
    eapply IH; [|exact E2]. eapply Hstep; [exact H0 | exact E1].
Qed.

(* decomposing where a callback can have been scheduled *)
Ltac fired_cases H :=
  unfold rc_via_emit in H; cbv beta in H;
  repeat match type of H with
  | In _ (rfired (rc_release _ _ 1)) =>
      let H1 := fresh "Hle" in let H2 := fresh "Hge" in
      apply rfired_release_new in H; destruct H as [H | [H1 H2]]
  | In _ (rfired (rc_retain _ _ _)) => rewrite rfired_retain in H
  end.
Ltac rc_norm := unfold rc_via_emit in *; repeat (rewrite ?rcnt_release, ?rcnt_retain in * ).

(* ---- the model-specific notions ------------------------------------------------------------------ *)
Definition p_item (p : val * md * nat) : val * md := (fst (fst p), snd (fst p)).
Definition b_pending (s : bst) : list (val * md) := b_q s ++ map p_item (b_putters s).
Definition b_held (s : bst) : md :=
  (match b_busy s with Some m => m | None => [] end) ++ flat_map snd (b_pending s).

(* literally the definitions of THEOREMS.md *)
Lemma b_pending_spec s : b_pending s = b_q s ++ map (fun p => (fst (fst p), snd (fst p))) (b_putters s).
Proof. reflexivity. Qed.
Lemma b_held_spec s : b_held s = (match b_busy s with Some m => m | None => [] end) ++ flat_map snd (b_pending s).
Proof. reflexivity. Qed.

Ltac bsimpl := cbn [b_n b_sync b_now b_rc b_next b_q b_putters b_busy] in *.

(* ---- one round of the consumer loop with a sink that returns an awaitable ----------------------- *)
Lemma drain1 f now rc q pt rc' q' pt' busy' dl dn :
  b_drain (S f) false now rc q pt = (rc', q', pt', busy', dl, dn) ->
  (q ++ map p_item pt = [] /\ q' = [] /\ pt' = [] /\ busy' = None /\ dl = [] /\ dn = [] /\ rc' = rc) \/
  (exists x m, q ++ map p_item pt = (x, m) :: q' ++ map p_item pt' /\ busy' = Some m /\ dl = [(now, x, m)] /\
               rc' = rc_via_emit rc m (fun r => r) /\ dn ++ map snd pt' = map snd pt /\
               length q' <= length q /\ (pt' <> [] -> length q' = length q /\ pt <> [])).
Proof.
  cbn [b_drain]. destruct pt as [|[[x0 m0] e0] pt1].
  - destruct q as [|[x m] qt]; intros H; injection H as <- <- <- <- <- <-.
    + left. repeat split; reflexivity.
    + right. exists x, m. cbn [map length]. rewrite !app_nil_r.
      repeat match goal with |- _ /\ _ => split end; try reflexivity; try lia. intros X. contradiction.
  - destruct (q ++ [(x0, m0)]) as [|[x m] qt] eqn:Eq; [destruct q; discriminate|].
    intros H; injection H as <- <- <- <- <- <-.
    assert (Hlen : length qt = length q).
    { apply (f_equal (@length _)) in Eq. rewrite app_length in Eq. cbn [length] in Eq. lia. }
    right. exists x, m. cbn [map p_item fst snd].
    repeat match goal with |- _ /\ _ => split end; try reflexivity; try lia; try (intros _; split; [lia | discriminate]).
    change (p_item (x0, m0, e0)) with (x0, m0).
    change (q ++ (x0, m0) :: map p_item pt1) with (q ++ [(x0, m0)] ++ map p_item pt1).
    rewrite app_assoc, Eq. reflexivity.
Qed.

(* ---- the invariant: DL = deliveries so far, N = completed emits so far -------------------------- *)
Record BInv (n : nat) (acts : list act) (s : bst) (DL : list (Z * val * md)) (N : list nat) : Prop := {
  bi_n : b_n s = n;
  bi_next : b_next s = n_emits acts;
  bi_fifo : deliv_items DL ++ b_pending s = ins_of acts;
  bi_bound : length (b_q s) <= n /\ (b_putters s <> [] -> length (b_q s) = n /\ b_busy s <> None);
  bi_idle : b_busy s = None -> b_q s = [] /\ b_putters s = [];
  bi_sync : b_sync s = true -> b_busy s = None;
  bi_done : Permutation (N ++ map snd (b_putters s)) (seq 0 (n_emits acts));
  bi_bal : forall r, rcnt (b_rc s) r = mocc (b_held s) r;
  bi_ids : forall r, ~ In r (ids_of acts) -> mocc (b_held s) r = 0%Z /\ ~ In r (rfired (b_rc s));
  bi_cb : NoDup (ids_of acts) -> forall r, In r (rfired (b_rc s)) -> mocc (b_held s) r = 0%Z;
}.

Lemma BInv_init n sync : BInv n [] (b_init n sync) [] [].
Proof. constructor; cbn; auto. split; [lia | intros X; contradiction]. Qed.

Lemma BInv_ext n a1 a2 s DL N :
  ins_of a1 = ins_of a2 -> ids_of a1 = ids_of a2 -> BInv n a1 s DL N -> BInv n a2 s DL N.
Proof.
  intros E1 E2 [a b c c1 c2 c3 c4 d e f].
  assert (En : n_emits a1 = n_emits a2) by (unfold n_emits; rewrite E1; reflexivity).
  constructor; rewrite <- ?E1, <- ?E2, <- ?En; assumption.
Qed.

Lemma in_ids_of_fired n acts s DL N :
  BInv n acts s DL N -> forall r, In r (rfired (b_rc s)) -> In r (ids_of acts).
Proof.
  intros HI r Hf. destruct (in_dec Nat.eq_dec r (ids_of acts)) as [X|X]; [exact X|].
  destruct (bi_ids _ _ _ _ _ HI r X) as [_ X2]. contradiction.
Qed.

(* emit while the consumer waits in get(): direct hand-off to the sink *)
Lemma BInv_emit_idle n acts s DL N src x m :
  BInv n acts s DL N -> b_busy s = None ->
  BInv n (acts ++ [AEmit src x m])
       {| b_n := b_n s; b_sync := b_sync s; b_now := b_now s;
          b_rc := b_deliver_rc (b_sync s) (rc_via_emit (b_rc s) m (fun r => rc_retain r m 1)) m;
          b_next := S (b_next s); b_q := []; b_putters := [];
          b_busy := if b_sync s then None else Some m |}
       (DL ++ [(b_now s, x, m)]) (N ++ [b_next s]).
Proof.
  intros HI Eb. pose proof (in_ids_of_fired _ _ _ _ _ HI) as Hfired. destruct HI as [a b c c1 c2 c3 c4 d e f].
  destruct (c2 Eb) as [Eq Ep]. unfold b_held, b_pending in *. rewrite Eb, Eq, Ep in *. cbn [map app flat_map] in *.
  constructor; unfold b_held, b_pending; bsimpl; cbn [map app flat_map length]; try assumption.
  - rewrite n_emits_snoc_emit, b. reflexivity.
  - rewrite ins_of_snoc_emit, deliv_items_app, !app_nil_r in *. rewrite c. reflexivity.
  - split; [lia | intros X; contradiction].
  - intros _. split; reflexivity.
  - intros ->. reflexivity.
  - rewrite n_emits_snoc_emit, seq_S, app_nil_r in *. rewrite b. apply Permutation_app_tail. exact c4.
  - intros r. specialize (d r). unfold b_deliver_rc. destruct (b_sync s); rewrite ?app_nil_r; cbn [mocc] in *; rc_norm; lia.
  - intros r Hr. apply notin_snoc_emit in Hr as [Hr Hm]. destruct (e r Hr) as [e1 e2].
    split; [destruct (b_sync s); rewrite ?app_nil_r; cbn [mocc]; lia|].
    intros Hf. unfold b_deliver_rc in Hf. destruct (b_sync s); fired_cases Hf; try lia; exact (e2 Hf).
  - intros Hnd r Hf. apply nodup_snoc_emit in Hnd as [Hnd Hm]. specialize (d r). cbn [mocc] in d.
    pose proof (mocc_nonneg m r).
    unfold b_deliver_rc in Hf. destruct (b_sync s); rewrite ?app_nil_r; cbn [mocc];
      fired_cases Hf; rc_norm; try lia; exact (Hm r (Hfired r Hf)).
Qed.

(* emit while the consumer is busy: enqueue, or block in put() when the queue is full *)
Lemma BInv_emit_busy n acts s DL N src x m m0 :
  BInv n acts s DL N -> b_busy s = Some m0 ->
  BInv n (acts ++ [AEmit src x m])
       (if length (b_q s) <? b_n s then
          {| b_n := b_n s; b_sync := b_sync s; b_now := b_now s;
             b_rc := rc_via_emit (b_rc s) m (fun r => rc_retain r m 1); b_next := S (b_next s);
             b_q := b_q s ++ [(x, m)]; b_putters := b_putters s; b_busy := b_busy s |}
        else
          {| b_n := b_n s; b_sync := b_sync s; b_now := b_now s;
             b_rc := rc_via_emit (b_rc s) m (fun r => rc_retain r m 1); b_next := S (b_next s);
             b_q := b_q s; b_putters := b_putters s ++ [(x, m, b_next s)]; b_busy := b_busy s |})
       DL (N ++ (if length (b_q s) <? b_n s then [b_next s] else [])).
Proof.
  intros HI Eb. pose proof (in_ids_of_fired _ _ _ _ _ HI) as Hfired. destruct HI as [a b c c1 c2 c3 c4 d e f].
  unfold b_held, b_pending in *. rewrite Eb in *.
  set (P := flat_map snd (b_q s ++ map p_item (b_putters s))) in *.
  (* the counter facts are the same in both branches *)
  assert (Hheld : forall q' p', flat_map snd (q' ++ map p_item p') = P ++ m ->
     (forall r, rcnt (rc_via_emit (b_rc s) m (fun r0 => rc_retain r0 m 1)) r = mocc (m0 ++ flat_map snd (q' ++ map p_item p')) r) /\
     (forall r, ~ In r (ids_of (acts ++ [AEmit src x m])) ->
                mocc (m0 ++ flat_map snd (q' ++ map p_item p')) r = 0%Z /\
                ~ In r (rfired (rc_via_emit (b_rc s) m (fun r0 => rc_retain r0 m 1)))) /\
     (NoDup (ids_of (acts ++ [AEmit src x m])) -> forall r,
                In r (rfired (rc_via_emit (b_rc s) m (fun r0 => rc_retain r0 m 1))) ->
                mocc (m0 ++ flat_map snd (q' ++ map p_item p')) r = 0%Z)).
  { intros q' p' ->. split; [|split].
    - intros r. specialize (d r). rewrite !mocc_app in *. rc_norm. lia.
    - intros r Hr. apply notin_snoc_emit in Hr as [Hr Hm]. destruct (e r Hr) as [e1 e2].
      rewrite !mocc_app in *. split; [lia|]. intros Hf. fired_cases Hf; try lia. exact (e2 Hf).
    - intros Hnd r Hf. apply nodup_snoc_emit in Hnd as [Hnd Hm]. specialize (d r). rewrite !mocc_app in *.
      pose proof (mocc_nonneg m0 r). pose proof (mocc_nonneg P r). pose proof (mocc_nonneg m r).
      fired_cases Hf; rc_norm; try lia.
      specialize (f Hnd r Hf). specialize (Hm r (Hfired r Hf)). rewrite mocc_app in f. lia. }
  subst P.
  destruct (Nat.ltb_spec (length (b_q s)) (b_n s)) as [Hlt|Hge].
  - (* room in the queue; no put() can be blocked *)
    assert (Ep : b_putters s = []).
    { destruct (b_putters s) as [|p pt]; [reflexivity|]. destruct c1 as [_ c1]. destruct c1 as [c1 _]; [discriminate | lia]. }
    rewrite Ep in *. cbn [map] in *. rewrite app_nil_r in *.
    destruct (Hheld (b_q s ++ [(x, m)]) []) as [H1 [H2 H3]].
    { cbn [map]. rewrite app_nil_r, flat_map_app. cbn [flat_map snd]. rewrite app_nil_r. reflexivity. }
    cbn [map] in H1, H2, H3. rewrite app_nil_r in H1, H2, H3.
    constructor; unfold b_held, b_pending; bsimpl; rewrite ?Eb, ?Ep; cbn [map]; rewrite ?app_nil_r; try assumption.
    + rewrite n_emits_snoc_emit, b. reflexivity.
    + rewrite ins_of_snoc_emit, app_assoc, c. reflexivity.
    + split; [rewrite app_length; cbn [length]; lia | intros X; contradiction].
    + discriminate.
    + rewrite n_emits_snoc_emit, seq_S, b. apply Permutation_app_tail. exact c4.
  - (* queue full: the put() blocks *)
    destruct (Hheld (b_q s) (b_putters s ++ [(x, m, b_next s)])) as [H1 [H2 H3]].
    { rewrite map_app, app_assoc, flat_map_app. cbn [map p_item flat_map fst snd]. rewrite app_nil_r. reflexivity. }
    constructor; unfold b_held, b_pending; bsimpl; rewrite ?Eb; try assumption.
    + rewrite n_emits_snoc_emit, b. reflexivity.
    + rewrite ins_of_snoc_emit, map_app, !app_assoc. rewrite !app_assoc in c. rewrite c. reflexivity.
    + destruct c1 as [c1 _]. split; [exact c1|]. intros _. split; [lia | discriminate].
    + discriminate.
    + rewrite n_emits_snoc_emit, seq_S, app_nil_r, map_app, app_assoc. cbn [map snd]. rewrite b.
      apply Permutation_app_tail. exact c4.
Qed.

(* the sink's future resolves: release, then one round of the consumer loop *)
Lemma BInv_ack n acts s DL N m0 rc1 q1 p1 busy1 dl dn :
  BInv n acts s DL N -> b_busy s = Some m0 ->
  b_drain (S (length (b_q s) + length (b_putters s))) (b_sync s) (b_now s) (rc_release (b_rc s) m0 1) (b_q s) (b_putters s)
    = (rc1, q1, p1, busy1, dl, dn) ->
  BInv n acts {| b_n := b_n s; b_sync := b_sync s; b_now := b_now s; b_rc := rc1; b_next := b_next s;
                 b_q := q1; b_putters := p1; b_busy := busy1 |} (DL ++ dl) (N ++ dn).
Proof.
  intros [a b c c1 c2 c3 c4 d e f] Eb Hd.
  assert (Esy : b_sync s = false).
  { destruct (b_sync s); [|reflexivity]. rewrite (c3 eq_refl) in Eb. discriminate. }
  rewrite Esy in Hd. apply drain1 in Hd.
  unfold b_held, b_pending in *. rewrite Eb in *.
  destruct Hd as [[Hp [-> [-> [-> [-> [-> ->]]]]]] | [x [m [Hp [-> [-> [-> [Hdn [Hl1 Hl2]]]]]]]]].
  - (* nothing pending: the consumer goes back to get() *)
    rewrite Hp in *. cbn [flat_map] in *. rewrite !app_nil_r in *.
    constructor; unfold b_held, b_pending; bsimpl; cbn [map app flat_map length]; rewrite ?app_nil_r; try assumption.
    + split; [lia | intros X; contradiction].
    + intros _. split; reflexivity.
    + intros _. reflexivity.
    + apply app_eq_nil in Hp as [_ Hp]. destruct (b_putters s); [|discriminate]. cbn [map] in c4. rewrite app_nil_r in c4. exact c4.
    + intros r. specialize (d r). cbn [mocc]. rc_norm. lia.
    + intros r Hr. destruct (e r Hr) as [e1 e2]. split; [reflexivity|].
      pose proof (mocc_nonneg m0 r). intros Hf. fired_cases Hf; try lia. exact (e2 Hf).
    + intros _ r _. reflexivity.
  - (* the head of the pending elements goes to the sink *)
    rewrite Hp in *. cbn [flat_map snd] in *.
    set (R := flat_map snd (q1 ++ map p_item p1)) in *.
    constructor; unfold b_held, b_pending; bsimpl; try fold R; try assumption.
    + rewrite deliv_items_app, <- app_assoc. exact c.
    + destruct c1 as [c1 c1']. split; [lia|]. intros X. destruct (Hl2 X) as [Y Z]. destruct (c1' Z) as [W _].
      split; [lia | discriminate].
    + discriminate.
    + rewrite Esy. discriminate.
    + rewrite <- app_assoc, Hdn. exact c4.
    + intros r. specialize (d r). rewrite !mocc_app in *. rc_norm. lia.
    + intros r Hr. destruct (e r Hr) as [e1 e2]. rewrite !mocc_app in *.
      pose proof (mocc_nonneg m0 r). pose proof (mocc_nonneg m r). pose proof (mocc_nonneg R r).
      split; [lia|]. intros Hf. fired_cases Hf; try lia. exact (e2 Hf).
    + intros Hnd r Hf. specialize (d r). rewrite !mocc_app in *.
      pose proof (mocc_nonneg m0 r). pose proof (mocc_nonneg m r). pose proof (mocc_nonneg R r).
      fired_cases Hf; rc_norm; try lia. specialize (f Hnd r Hf). rewrite !mocc_app in f. lia.
Qed.

Definition BFull (n : nat) (acts : list act) (s : bst) (outs : list (list (Z * val * md) * list nat)) : Prop :=
  BInv n acts s (all_deliv outs) (all_done outs).

Lemma BFull_step n acts s outs a s' o :
  BFull n acts s outs -> nm_step buffer_model s a = (s', o) -> BFull n (acts ++ [a]) s' (outs ++ [o]).
Proof.
  intros HI Hs. cbn [nm_step buffer_model] in Hs. unfold BFull in *.
  rewrite all_deliv_app, all_done_app. cbn [all_deliv all_done flat_map]. rewrite !app_nil_r.
  destruct a as [src x m| |k|dt]; cbn [b_step] in Hs.
  - destruct (b_busy s) as [m0|] eqn:Eb.
    + pose proof (BInv_emit_busy n acts s _ _ src x m m0 HI Eb) as H1. rewrite Eb in H1.
      destruct (length (b_q s) <? b_n s); injection Hs as <- <-; cbn [fst snd]; rewrite ?app_nil_r in *; exact H1.
    + pose proof (BInv_emit_idle n acts s _ _ src x m HI Eb) as H1.
      injection Hs as <- <-. cbn [fst snd]. exact H1.
  - destruct (b_busy s) as [m0|] eqn:Eb.
    + match type of Hs with (let '(_, _) := ?dr in _) = _ => destruct dr as [[[[[rc1 q1] p1] busy1] dl] dn] eqn:Ed end.
      injection Hs as <- <-. cbn [fst snd].
      eapply BInv_ext; [| |exact (BInv_ack _ _ _ _ _ _ _ _ _ _ _ _ HI Eb Ed)]; symmetry;
        [apply ins_of_snoc_other | apply ids_of_snoc_other]; exact I.
    + injection Hs as <- <-. cbn [fst snd]. rewrite !app_nil_r.
      eapply BInv_ext; [| |exact HI]; symmetry; [apply ins_of_snoc_other | apply ids_of_snoc_other]; exact I.
  - injection Hs as <- <-. cbn [fst snd]. rewrite !app_nil_r.
    eapply BInv_ext; [| |exact HI]; symmetry; [apply ins_of_snoc_other | apply ids_of_snoc_other]; exact I.
  - injection Hs as <- <-. cbn [fst snd]. rewrite !app_nil_r.
    eapply BInv_ext; [symmetry; apply ins_of_snoc_other; exact I | symmetry; apply ids_of_snoc_other; exact I |].
    destruct HI as [a b c c1 c2 c3 c4 d e f]. constructor; assumption.
Qed.

Theorem buffer_reach n sync acts s outs :
  run_steps buffer_model (b_init n sync) acts = (s, outs) -> BFull n acts s outs.
Proof.
  intros H.
  apply (run_steps_inv buffer_model (BFull n) (BFull_step n) acts [] (b_init n sync) [] s outs); [|exact H].
  apply BInv_init.
Qed.

(* ---- headline theorems (they hold for every n, also n = 0) --------------------------------------- *)
Theorem buffer_fifo n sync acts s outs :
  run_steps buffer_model (b_init n sync) acts = (s, outs) ->
  deliv_items (all_deliv outs) ++ b_pending s = ins_of acts.
Proof. intros H. exact (bi_fifo _ _ _ _ _ (buffer_reach _ _ _ _ _ H)). Qed.

Theorem buffer_bound n sync acts s outs :
  run_steps buffer_model (b_init n sync) acts = (s, outs) ->
  length (b_q s) <= n /\ (b_putters s <> [] -> length (b_q s) = n /\ b_busy s <> None).
Proof. intros H. exact (bi_bound _ _ _ _ _ (buffer_reach _ _ _ _ _ H)). Qed.

Theorem buffer_no_lost_wakeup n sync acts s outs :
  run_steps buffer_model (b_init n sync) acts = (s, outs) ->
  b_busy s = None -> b_q s = [] /\ b_putters s = [].
Proof. intros H. exact (bi_idle _ _ _ _ _ (buffer_reach _ _ _ _ _ H)). Qed.

Theorem buffer_sync_never_busy n sync acts s outs :
  run_steps buffer_model (b_init n sync) acts = (s, outs) ->
  b_sync s = true -> b_busy s = None.
Proof. intros H. exact (bi_sync _ _ _ _ _ (buffer_reach _ _ _ _ _ H)). Qed.

Theorem buffer_done n sync acts s outs :
  run_steps buffer_model (b_init n sync) acts = (s, outs) ->
  Permutation (all_done outs ++ map snd (b_putters s)) (seq 0 (n_emits acts)).
Proof. intros H. exact (bi_done _ _ _ _ _ (buffer_reach _ _ _ _ _ H)). Qed.

Theorem buffer_balance n sync acts s outs :
  run_steps buffer_model (b_init n sync) acts = (s, outs) ->
  forall r, rcnt (b_rc s) r = mocc (b_held s) r.
Proof. intros H. exact (bi_bal _ _ _ _ _ (buffer_reach _ _ _ _ _ H)). Qed.

Theorem buffer_cb_not_early n sync acts s outs :
  run_steps buffer_model (b_init n sync) acts = (s, outs) ->
  NoDup (ids_of acts) -> forall r, In r (rfired (b_rc s)) -> mocc (b_held s) r = 0%Z.
Proof. intros H. exact (bi_cb _ _ _ _ _ (buffer_reach _ _ _ _ _ H)). Qed.

Theorem buffer_count_nonneg n sync acts s outs :
  run_steps buffer_model (b_init n sync) acts = (s, outs) ->
  forall r, (0 <= rcnt (b_rc s) r)%Z.
Proof. intros H r. rewrite (buffer_balance _ _ _ _ _ H). apply mocc_nonneg. Qed.

(* ---- non-vacuity: element in flight, full queue, a blocked put() that is woken by an ack -------- *)
Definition bm (i : nat) : md := [{| mid := i; mref := true |}].
Definition b_ex_acts : list act :=
  [AEmit 0 (VInt 1) (bm 0); AEmit 0 (VInt 2) (bm 1); AEmit 0 (VInt 3) (bm 2); AAdv 4; AAck; AAck; AAck].

Example buffer_nonvacuous :
  NoDup (ids_of b_ex_acts) /\
  (let '(s, outs) := run_steps buffer_model (b_init 1 false) (firstn 3 b_ex_acts) in
   b_busy s = Some (bm 0) /\ b_q s = [(VInt 2, bm 1)] /\ b_putters s = [(VInt 3, bm 2, 2)] /\
   all_done outs = [0; 1] /\ deliv_items (all_deliv outs) = [(VInt 1, bm 0)] /\
   map (rcnt (b_rc s)) [0; 1; 2] = [1; 1; 1]%Z /\ rfired (b_rc s) = []) /\
  (let '(s, outs) := run_steps buffer_model (b_init 1 false) (firstn 5 b_ex_acts) in
   b_busy s = Some (bm 1) /\ b_q s = [(VInt 3, bm 2)] /\ b_putters s = [] /\
   all_done outs = [0; 1; 2] /\ deliv_times (all_deliv outs) = [0; 4]%Z /\ rfired (b_rc s) = [0]) /\
  (let '(s, outs) := run_steps buffer_model (b_init 1 false) b_ex_acts in
   b_busy s = None /\ b_q s = [] /\ b_putters s = [] /\
   deliv_items (all_deliv outs) = [(VInt 1, bm 0); (VInt 2, bm 1); (VInt 3, bm 2)] /\
   rfired (b_rc s) = [0; 1; 2] /\ map (rcnt (b_rc s)) [0; 1; 2] = [0; 0; 0]%Z) /\
  (let '(s, outs) := run_steps buffer_model (b_init 1 true) b_ex_acts in
   b_busy s = None /\ all_done outs = [0; 1; 2] /\ deliv_times (all_deliv outs) = [0; 0; 0]%Z /\
   rfired (b_rc s) = [0; 1; 2]).
Proof.
  split.
  - vm_compute. repeat constructor; cbn; intuition discriminate.
  - vm_compute. repeat split; reflexivity.
Qed.

Print Assumptions buffer_fifo.
Print Assumptions buffer_bound.
Print Assumptions buffer_no_lost_wakeup.
Print Assumptions buffer_sync_never_busy.
Print Assumptions buffer_done.
Print Assumptions buffer_balance.
Print Assumptions buffer_cb_not_early.
Print Assumptions buffer_count_nonneg.
Print Assumptions buffer_nonvacuous.
