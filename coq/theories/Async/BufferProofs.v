(* Theorems about the buffer(n) model, for ALL action sequences (schedules). *)
From Coq Require Import List ZArith Bool Lia Arith Permutation.
From SZ Require Import Base.Values Sync.Nodes Async.Core Async.Buffer.
Import ListNotations.
Close Scope Z_scope.
Open Scope nat_scope.

Definition p_item (p : val * md * nat) : val * md := (fst (fst p), snd (fst p)).
Definition b_pending (s : bst) : list (val * md) := b_q s ++ map p_item (b_putters s).
Definition b_flight (s : bst) : md := match b_busy s with Some m => m | None => [] end.
Definition b_held (s : bst) : md := b_flight s ++ flat_map snd (b_pending s).

(* closed forms for the counters *)
Ltac rc_norm :=
  unfold b_deliver_rc, rc_via_emit in *;
  repeat first [ rewrite rcnt_release | rewrite rcnt_retain ].

Lemma rcnt_deliver sync rc m r :
  rcnt (b_deliver_rc sync rc m) r = (rcnt rc r - (if sync then mocc m r else 0))%Z.
Proof. unfold b_deliver_rc, rc_via_emit. destruct sync; rc_norm; lia. Qed.

(* ---- the drain loop ---------------------------------------------------------------------------- *)
Record drain_ok (sync : bool) (now : Z) (rc : rcs) (q : list (val * md)) (pt : list (val * md * nat))
       (res : rcs * list (val * md) * list (val * md * nat) * option md * list (Z * val * md) * list nat) : Prop := {
  dr_items : let '(rc', q', pt', busy', dl, dn) := res in
             deliv_items dl ++ q' ++ map p_item pt' = q ++ map p_item pt;
  dr_rc : let '(rc', q', pt', busy', dl, dn) := res in
          forall r, rcnt rc' r = (rcnt rc r - (if sync then mocc (flat_map snd (deliv_items dl)) r else 0))%Z;
  dr_busy : let '(rc', q', pt', busy', dl, dn) := res in
            (busy' = None -> q' = [] /\ pt' = []) /\
            (forall m, busy' = Some m -> sync = false /\ exists x, dl = [(now, x, m)]) /\
            (sync = true -> busy' = None);
  dr_done : let '(rc', q', pt', busy', dl, dn) := res in
            dn ++ map snd pt' = map snd pt /\ length q' + (if busy' then 1 else 0) + length dl * (if sync then 1 else 0) <= S (length q) + length pt;
}.

Lemma b_drain_spec sync now : forall fuel rc q pt,
  length q + length pt < fuel ->
  drain_ok sync now rc q pt (b_drain fuel sync now rc q pt).
Proof.
  induction fuel as [|fuel IH]; intros rc q pt Hf; [lia|].
  cbn [b_drain].
  destruct pt as [|[[x0 m0] e0] pt'].
  - (* no putter *)
    destruct q as [|[x m] qt].
    + constructor; cbn; auto. split; [auto|]. split; [intros m H; discriminate | auto].
    + destruct sync.
      * specialize (IH (b_deliver_rc true rc m) qt [] ltac:(cbn in *; lia)).
        destruct (b_drain fuel true now (b_deliver_rc true rc m) qt []) as [[[[[rc2 q2] p2] busy2] dl] dn].
        destruct IH as [a b c d]. constructor.
        -- cbn in *. rewrite <- a. reflexivity.
        -- intros r. rewrite b, rcnt_deliver. cbn. rewrite mocc_app. lia.
        -- destruct c as [c1 [c2 c3]]. split; [exact c1|]. split; [|exact c3].
           intros mm Hm. rewrite (c3 eq_refl) in Hm. discriminate.
        -- cbn in *. destruct d as [d1 d2]. split; [exact d1|]. lia.
      * constructor; cbn.
        -- reflexivity.
        -- intros r. rewrite rcnt_deliver. lia.
        -- split; [discriminate|]. split; [|discriminate]. intros mm Hm. injection Hm as <-. split; [reflexivity|]. eauto.
        -- split; [reflexivity | lia].
  - (* a putter moves its item into the queue first *)
    destruct (q ++ [(x0, m0)]) as [|[x m] qt] eqn:Eq; [destruct q; discriminate|].
    assert (Hlen : length qt = length q) by (apply (f_equal (@length _)) in Eq; rewrite app_length in Eq; cbn in Eq; lia).
    destruct sync.
    + specialize (IH (b_deliver_rc true rc m) qt pt' ltac:(cbn in *; lia)).
      destruct (b_drain fuel true now (b_deliver_rc true rc m) qt pt') as [[[[[rc2 q2] p2] busy2] dl] dn].
      destruct IH as [a b c d]. constructor.
      * cbn in *. rewrite <- app_assoc in *. cbn. rewrite a.
        change ((x, m) :: qt ++ map p_item pt') with (((x, m) :: qt) ++ map p_item pt'). rewrite <- Eq, <- app_assoc. reflexivity.
      * intros r. rewrite b, rcnt_deliver. cbn. rewrite mocc_app. lia.
      * destruct c as [c1 [c2 c3]]. split; [exact c1|]. split; [|exact c3].
        intros mm Hm. rewrite (c3 eq_refl) in Hm. discriminate.
      * cbn in *. destruct d as [d1 d2]. split; [rewrite d1; reflexivity | lia].
    + constructor; cbn.
      * change ((x, m) :: qt ++ map p_item pt') with (((x, m) :: qt) ++ map p_item pt'). rewrite <- Eq, <- app_assoc. reflexivity.
      * intros r. rewrite rcnt_deliver. lia.
      * split; [discriminate|]. split; [|discriminate]. intros mm Hm. injection Hm as <-. split; [reflexivity|]. eauto.
      * split; [reflexivity | lia].
Qed.

(* ---- the invariant ------------------------------------------------------------------------------ *)
Record BInv (acts : list act) (s : bst) (outs : list (list (Z * val * md) * list nat)) : Prop := {
  bi_fifo : deliv_items (all_deliv outs) ++ b_pending s = ins_of acts;
  bi_idle : b_busy s = None -> b_q s = [] /\ b_putters s = [];
  bi_sync : b_sync s = true -> b_busy s = None;
  bi_bal : forall r, rcnt (b_rc s) r = mocc (b_held s) r;
  bi_next : b_next s = n_emits acts;
  bi_done : Permutation (all_done outs ++ map snd (b_putters s)) (seq 0 (n_emits acts));
}.
