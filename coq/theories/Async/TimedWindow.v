(* timed_window(interval) and timed_window_unique(interval, key, keep):
     update: buffer.append(x) [keyed replace/drop]; retain(md); return self.last
     cb:     while True: swap buffers; self.last = convert_yielded(self._emit(batch, md)); yield self.last
                         release(md); yield sleep(interval)
   The tick loop is started at construction: the first (empty) batch leaves at time 0. *)
From Coq Require Import List ZArith Bool Lia Arith.
From SZ Require Import Base.Values Sync.Nodes Async.Core.
Import ListNotations.
Close Scope Z_scope.
Open Scope nat_scope.

Inductive wmode :=
| WAwait (m : md)               (* awaiting the sink for the batch just emitted (its flat metadata) *)
| WSleep (until : Z).

(* uniq = None: timed_window (value = python list); uniq = Some (key, keep_last): timed_window_unique (tuple) *)
Record wst := {
  w_int : Z; w_sync : bool; w_uniq : option ((val -> val) * bool);
  w_now : Z; w_rc : rcs; w_next : nat;
  w_buf : list (val * val * md);          (* key (VNone when not unique), element, metadata; emission order *)
  w_mode : wmode;
  w_waiting : list nat;                   (* emits whose awaitable is the still-pending self.last *)
}.

Definition w_set (s : wst) (now : Z) (rc : rcs) (buf : list (val * val * md)) (mode : wmode) (waiting : list nat) : wst :=
  {| w_int := w_int s; w_sync := w_sync s; w_uniq := w_uniq s; w_now := now; w_rc := rc; w_next := w_next s;
     w_buf := buf; w_mode := mode; w_waiting := waiting |}.

Definition w_batch (s : wst) (buf : list (val * val * md)) : val :=
  match w_uniq s with
  | None => VList (map (fun e => snd (fst e)) buf)
  | Some _ => VTup (map (fun e => snd (fst e)) buf)
  end.

(* one pass of the tick loop body at time `now`: swap, emit, (await) *)
Definition w_emit (s : wst) (now : Z) : wst * list (Z * val * md) :=
  let buf := w_buf s in
  let m := flat_map snd buf in
  let rc1 := rc_via_emit (w_rc s) m (fun r => r) in
  let dl := [(now, w_batch s buf, m)] in
  if w_sync s then (w_set s now (rc_release rc1 m 1) [] (WSleep (now + w_int s)%Z) (w_waiting s), dl)
  else (w_set s now rc1 [] (WAwait m) (w_waiting s), dl).

Definition w_init (interval : Z) (sync : bool) (uniq : option ((val -> val) * bool)) : wst * (list (Z * val * md) * list nat) :=
  let s0 := {| w_int := interval; w_sync := sync; w_uniq := uniq; w_now := 0%Z; w_rc := rc0; w_next := 0;
               w_buf := []; w_mode := WSleep 0%Z; w_waiting := [] |} in
  let '(s1, dl) := w_emit s0 0%Z in (s1, (dl, [])).

Definition w_tick (s : wst) : wst * list (Z * val * md) :=
  let now := (w_now s + 1)%Z in
  match w_mode s with
  | WSleep until => if (until <=? now)%Z then w_emit s now
                    else (w_set s now (w_rc s) (w_buf s) (w_mode s) (w_waiting s), [])
  | WAwait _ => (w_set s now (w_rc s) (w_buf s) (w_mode s) (w_waiting s), [])
  end.

Fixpoint w_adv (n : nat) (s : wst) : wst * list (Z * val * md) :=
  match n with
  | O => (s, [])
  | S n' => let '(s1, d1) := w_tick s in let '(s2, d2) := w_adv n' s1 in (s2, d1 ++ d2)
  end.

Fixpoint kassoc (k : val) (l : list (val * val * md)) : option md :=
  match l with
  | [] => None
  | (k', _, m) :: t => if val_eqb k k' then Some m else kassoc k t
  end.
Fixpoint kremove (k : val) (l : list (val * val * md)) : list (val * val * md) :=
  match l with
  | [] => []
  | (k', x, m) :: t => if val_eqb k k' then t else (k', x, m) :: kremove k t
  end.

Definition w_step (s : wst) (a : act) : wst * (list (Z * val * md) * list nat) :=
  match a with
  | AEmit _ x m =>
      let e := w_next s in
      (* source retain; update: [keyed handling], retain; source release *)
      let '(buf', inner) :=
        match w_uniq s with
        | None => (w_buf s ++ [(VNone, x, m)], fun r : rcs => rc_retain r m 1)
        | Some (key, keep_last) =>
            let y := key x in
            match kassoc y (w_buf s) with
            | Some om =>
                if keep_last then (kremove y (w_buf s) ++ [(y, x, m)], fun r : rcs => rc_release (rc_retain r m 1) om 1)
                else (w_buf s, fun r : rcs => rc_release (rc_retain r m 1) m 1)
            | None => (w_buf s ++ [(y, x, m)], fun r : rcs => rc_retain r m 1)
            end
        end in
      let rc := rc_via_emit (w_rc s) m inner in
      match w_mode s with
      | WAwait _ =>
          ({| w_int := w_int s; w_sync := w_sync s; w_uniq := w_uniq s; w_now := w_now s; w_rc := rc; w_next := S e;
              w_buf := buf'; w_mode := w_mode s; w_waiting := w_waiting s ++ [e] |}, ([], []))
      | WSleep _ =>
          ({| w_int := w_int s; w_sync := w_sync s; w_uniq := w_uniq s; w_now := w_now s; w_rc := rc; w_next := S e;
              w_buf := buf'; w_mode := w_mode s; w_waiting := w_waiting s |}, ([], [e]))
      end
  | AAck =>
      match w_mode s with
      | WAwait m =>
          (w_set s (w_now s) (rc_release (w_rc s) m 1) (w_buf s) (WSleep (w_now s + w_int s)%Z) [], ([], w_waiting s))
      | WSleep _ => (s, ([], []))
      end
  | ATask _ => (s, ([], []))
  | AAdv dt => let '(s1, dl) := w_adv (Z.to_nat dt) s in (s1, (dl, []))
  end.

Definition timed_window_model : node_model :=
  {| nm_state := wst; nm_step := w_step; nm_now := w_now; nm_rc := w_rc |}.
