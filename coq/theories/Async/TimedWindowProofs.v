(* Theorems about the timed_window / timed_window_unique model, for ALL action sequences (schedules). *)
From Coq Require Import List ZArith Bool Lia Arith.
From SZ Require Import Base.Values Sync.Nodes Async.Core Async.TimedWindow.
Import ListNotations.
Close Scope Z_scope.
Open Scope nat_scope.

(* ---- generic counter reasoning ------------------------------------------------------------------ *)
Definition mids (m : md) : list nat := map mid (filter mref m).

Lemma mocc_pos_in m r : (1 <= mocc m r)%Z -> In r (mids m).
Proof.
  unfold mids. induction m as [|i t IH]; cbn [mocc filter map]; intros H; [lia|].
  destruct (mref i) eqn:E; cbn [andb] in H.
  - cbn [map]. destruct (Nat.eqb_spec (mid i) r) as [e|e]; [left; exact e | right; apply IH; lia].
  - apply IH. lia.
Qed.

Lemma nodup_app_disj {A} (l l' : list A) x : NoDup (l ++ l') -> In x l -> In x l' -> False.
Proof.
  induction l as [|a l IH]; cbn [app In]; intros H H1 H2; [exact H1|].
  inversion H as [|? ? Hn Hd]; subst. destruct H1 as [->|H1].
  - apply Hn. apply in_or_app. right. exact H2.
  - exact (IH Hd H1 H2).
Qed.

Lemma nodup_app_l {A} (l l' : list A) : NoDup (l ++ l') -> NoDup l.
Proof.
  induction l as [|a l IH]; cbn [app]; intros H; [constructor|].
  inversion H as [|? ? Hn Hd]; subst. constructor; [|exact (IH Hd)].
  intros X. apply Hn. apply in_or_app. left. exact X.
Qed.

(* `h r` = number of references to counter r held by somebody; ids = counter ids seen so far *)
Record rcI (ids : list nat) (rc : rcs) (h : nat -> Z) : Prop := {
  rci_bal : forall r, rcnt rc r = h r;
  rci_nn : forall r, (0 <= h r)%Z;
  rci_fired_ids : forall r, In r (rfired rc) -> In r ids;
  rci_held_ids : forall r, (1 <= h r)%Z -> In r ids;
  rci_cb : NoDup ids -> forall r, In r (rfired rc) -> h r = 0%Z;
}.

Lemma rcI_ext ids rc h h' : (forall r, h r = h' r) -> rcI ids rc h -> rcI ids rc h'.
Proof.
  intros E [a b c d e]. constructor; intros.
  - rewrite <- E. apply a.
  - rewrite <- E. apply b.
  - apply c; assumption.
  - apply d. rewrite E. assumption.
  - rewrite <- E. apply e; assumption.
Qed.

Lemma rcI_more ids ids' rc h : rcI ids rc h -> rcI (ids ++ ids') rc h.
Proof.
  intros [a b c d e]. constructor; intros.
  - apply a.
  - apply b.
  - apply in_or_app. left. apply c; assumption.
  - apply in_or_app. left. apply d; assumption.
  - apply e; [eapply nodup_app_l; eassumption | assumption].
Qed.

Lemma rcI_fresh_cond ids rc h m :
  rcI ids rc h -> NoDup (ids ++ mids m) -> forall r, In r (rfired rc) -> mocc m r = 0%Z.
Proof.
  intros I Hn r Hf. pose proof (mocc_nonneg m r).
  destruct (Z.eq_dec (mocc m r) 0) as [e|e]; [exact e|]. exfalso.
  eapply nodup_app_disj; [exact Hn | eapply rci_fired_ids; eassumption | apply mocc_pos_in; lia].
Qed.

Lemma rcI_retain ids rc h m h' :
  rcI ids rc h -> (forall r, h' r = h r + mocc m r)%Z ->
  (forall r, (1 <= mocc m r)%Z -> In r ids) ->
  (NoDup ids -> forall r, In r (rfired rc) -> mocc m r = 0%Z) ->
  rcI ids (rc_retain rc m 1) h'.
Proof.
  intros [a b c d e] E Hi Hf. constructor; intros.
  - rewrite rcnt_retain, E, a. lia.
  - rewrite E. pose proof (b r). pose proof (mocc_nonneg m r). lia.
  - rewrite rfired_retain in H. apply c; assumption.
  - rewrite E in H. pose proof (b r). pose proof (mocc_nonneg m r).
    destruct (Z_le_gt_dec 1 (h r)); [apply d; assumption | apply Hi; lia].
  - rewrite rfired_retain in H0. rewrite E, (e H r H0), (Hf H r H0). reflexivity.
Qed.

Lemma rcI_retain_held ids rc h m h' :
  rcI ids rc h -> (forall r, h' r = h r + mocc m r)%Z -> (forall r, mocc m r <= h r)%Z ->
  rcI ids (rc_retain rc m 1) h'.
Proof.
  intros I E Hle. eapply rcI_retain; [exact I | exact E | |].
  - intros r H. eapply rci_held_ids; [exact I|]. specialize (Hle r). lia.
  - intros Hn r Hf. pose proof (rci_cb _ _ _ I Hn r Hf). pose proof (mocc_nonneg m r). specialize (Hle r). lia.
Qed.

Lemma rcI_release ids rc h m h' :
  rcI ids rc h -> (forall r, h r = h' r + mocc m r)%Z -> (forall r, 0 <= h' r)%Z ->
  rcI ids (rc_release rc m 1) h'.
Proof.
  intros [a b c d e] E Hnn. constructor; intros.
  - rewrite rcnt_release, a, E. lia.
  - apply Hnn.
  - apply rfired_release_new in H. destruct H as [H|[H1 H2]]; [apply c; exact H|].
    apply d. rewrite E. specialize (Hnn r). lia.
  - apply d. rewrite E. pose proof (mocc_nonneg m r). lia.
  - apply rfired_release_new in H0. pose proof (mocc_nonneg m r). pose proof (Hnn r).
    destruct H0 as [H0|[H1' H2']].
    + pose proof (e H r H0) as X. rewrite E in X. lia.
    + rewrite a, E in H1'. lia.
Qed.

(* Stream._emit of metadata that is already held: counts unchanged, no callback for a held element *)
Lemma rcI_via_emit_id ids rc h m :
  rcI ids rc h -> (forall r, mocc m r <= h r)%Z -> rcI ids (rc_via_emit rc m (fun r => r)) h.
Proof.
  intros I Hle. unfold rc_via_emit.
  eapply rcI_release with (h := fun r => (h r + mocc m r)%Z).
  - eapply rcI_retain_held; [exact I | intros r; reflexivity | exact Hle].
  - intros r. reflexivity.
  - apply (rci_nn _ _ _ I).
Qed.

(* ---- val_eqb decides equality -------------------------------------------------------------------- *)
Section ValInd.
Variable P : val -> Prop.
Hypothesis HI : forall z, P (VInt z).
Hypothesis HT : forall l, Forall P l -> P (VTup l).
Hypothesis HL : forall l, Forall P l -> P (VList l).
Hypothesis HN : P VNone.
Fixpoint val_ind2 (v : val) : P v :=
  match v with
  | VInt z => HI z
  | VTup l => HT l ((fix go (l : list val) : Forall P l :=
                      match l with [] => Forall_nil _ | x :: t => Forall_cons x (val_ind2 x) (go t) end) l)
  | VList l => HL l ((fix go (l : list val) : Forall P l :=
                      match l with [] => Forall_nil _ | x :: t => Forall_cons x (val_ind2 x) (go t) end) l)
  | VNone => HN
  end.
End ValInd.

Definition vleqb := fix leqb (l1 l2 : list val) {struct l1} : bool :=
      match l1, l2 with
      | [], [] => true
      | x :: t1, y :: t2 => val_eqb x y && leqb t1 t2
      | _, _ => false
      end.

Lemma vleqb_spec l1 : Forall (fun a => forall b, val_eqb a b = true <-> a = b) l1 ->
  forall l2, vleqb l1 l2 = true <-> l1 = l2.
Proof.
  induction 1 as [|x t Hx Ht IH]; intros [|y t2]; cbn [vleqb]; split; intros H; try reflexivity; try discriminate.
  - apply andb_true_iff in H as [H1 H2]. apply Hx in H1. apply IH in H2. congruence.
  - injection H as <- <-. apply andb_true_iff. split; [apply Hx | apply IH]; reflexivity.
Qed.

Lemma val_eqb_spec a : forall b, val_eqb a b = true <-> a = b.
Proof.
  induction a as [z|l Hl|l Hl|] using val_ind2; intros [z2|l2|l2|]; cbn [val_eqb]; try (split; intros H; (discriminate || reflexivity)).
  - rewrite Z.eqb_eq. split; congruence.
  - change (vleqb l l2 = true <-> VTup l = VTup l2). rewrite (vleqb_spec l Hl l2). split; congruence.
  - change (vleqb l l2 = true <-> VList l = VList l2). rewrite (vleqb_spec l Hl l2). split; congruence.
Qed.

Lemma val_eqb_refl a : val_eqb a a = true.
Proof. apply val_eqb_spec. reflexivity. Qed.

(* ---- timed_window ------------------------------------------------------------------------------- *)
Definition w_items (s : wst) : list (val * md) := map (fun e => (snd (fst e), snd e)) (w_buf s).
Definition w_held (s : wst) : md := (match w_mode s with WAwait m => m | WSleep _ => [] end) ++ flat_map snd (w_buf s).
Definition batch_items (v : val) : list val := match v with VList l | VTup l => l | _ => [] end.

Local Notation bkey := (fun e : val * val * md => fst (fst e)).
Local Notation belt := (fun e : val * val * md => snd (fst e)).
Local Notation bitems := (fun d : Z * val * md => batch_items (snd (fst d))).

Ltac mo := intros; cbv beta; repeat (rewrite ?flat_map_app, ?mocc_app, ?app_nil_r; cbn [flat_map fst snd mocc app]); try lia.

Lemma map_fst_items (buf : list (val * val * md)) :
  map fst (map (fun e => (snd (fst e), snd e)) buf) = map belt buf.
Proof. rewrite map_map. reflexivity. Qed.
Lemma flat_snd_items (buf : list (val * val * md)) :
  flat_map snd (map (fun e => (snd (fst e), snd e)) buf) = flat_map snd buf.
Proof. induction buf as [|e t IH]; cbn [map flat_map snd]; [reflexivity | rewrite IH; reflexivity]. Qed.

Lemma kassoc_none y l : kassoc y l = None -> ~ In y (map bkey l).
Proof.
  induction l as [|[[k x] m] t IH]; cbn [kassoc map In fst]; intros H; [tauto|].
  destruct (val_eqb y k) eqn:E; [discriminate|].
  intros [<-|Hin]; [rewrite val_eqb_refl in E; discriminate | exact (IH H Hin)].
Qed.

Lemma kassoc_some_le y l om r : kassoc y l = Some om -> (mocc om r <= mocc (flat_map snd l) r)%Z.
Proof.
  induction l as [|[[k x] m] t IH]; cbn [kassoc]; intros H; [discriminate|].
  cbn [flat_map snd]. rewrite mocc_app. pose proof (mocc_nonneg m r). pose proof (mocc_nonneg (flat_map snd t) r).
  destruct (val_eqb y k) eqn:E.
  - injection H as <-. lia.
  - specialize (IH H). lia.
Qed.

Lemma kremove_mocc y l om r :
  kassoc y l = Some om -> (mocc (flat_map snd (kremove y l)) r + mocc om r = mocc (flat_map snd l) r)%Z.
Proof.
  induction l as [|[[k x] m] t IH]; cbn [kassoc kremove]; intros H; [discriminate|].
  destruct (val_eqb y k) eqn:E.
  - injection H as <-. cbn [flat_map snd]. rewrite mocc_app. lia.
  - cbn [flat_map snd]. rewrite !mocc_app. specialize (IH H). lia.
Qed.

Lemma kremove_incl y l z : In z (kremove y l) -> In z l.
Proof.
  induction l as [|[[k x] m] t IH]; cbn [kremove]; intros H; [exact H|].
  destruct (val_eqb y k); [right; exact H|]. destruct H as [H|H]; [left; exact H | right; exact (IH H)].
Qed.

Lemma kremove_Forall (P : val * val * md -> Prop) y l : Forall P l -> Forall P (kremove y l).
Proof. intros H. apply Forall_forall. intros z Hz. apply kremove_incl in Hz. revert z Hz. apply Forall_forall. exact H. Qed.

Lemma kremove_keys y l om :
  kassoc y l = Some om -> NoDup (map bkey l) -> NoDup (map bkey (kremove y l)) /\ ~ In y (map bkey (kremove y l)).
Proof.
  induction l as [|[[k x] m] t IH]; cbn [kassoc kremove map fst]; intros H Hn; [discriminate|].
  inversion Hn as [|? ? Hni Hnd]; subst.
  destruct (val_eqb y k) eqn:E.
  - apply val_eqb_spec in E. subst k. split; assumption.
  - destruct (IH H Hnd) as [A B]. cbn [map fst In]. split.
    + constructor; [|exact A]. intros X. apply Hni. apply in_map_iff in X as [z [Hz1 Hz2]].
      apply in_map_iff. exists z. split; [exact Hz1 | eapply kremove_incl; exact Hz2].
    + intros [X|X]; [subst k; rewrite val_eqb_refl in E; discriminate | exact (B X)].
Qed.

Lemma nodup_snoc {A} (l : list A) x : NoDup l -> ~ In x l -> NoDup (l ++ [x]).
Proof.
  induction l as [|a t IH]; cbn [app]; intros Hn Hx; [constructor; [intros []|constructor]|].
  inversion Hn as [|? ? Ha Ht]; subst. constructor.
  - intros X. apply in_app_or in X as [X|[X|[]]]; [exact (Ha X) | subst; apply Hx; left; reflexivity].
  - apply IH; [exact Ht | intros X; apply Hx; right; exact X].
Qed.

(* what update() does to the buffer and to the counters (between the source's retain and release) *)
Definition w_upd_buf (s : wst) (x : val) (m : md) : list (val * val * md) * (rcs -> rcs) :=
  match w_uniq s with
  | None => (w_buf s ++ [(VNone, x, m)], fun r : rcs => rc_retain r m 1)
  | Some (key, keep_last) =>
      let y := key x in
      match kassoc y (w_buf s) with
      | Some om =>
          if keep_last then (kremove y (w_buf s) ++ [(y, x, m)], fun r : rcs => rc_release (rc_retain r m 1) om 1)
          else (w_buf s, fun r : rcs => rc_release (rc_retain r m 1) m 1)
      | None => (w_buf s ++ [(y, x, m)], fun r : rcs => rc_retain r m 1)
      end
  end.

Lemma w_step_emit s src x m :
  w_step s (AEmit src x m) =
  let '(buf', inner) := w_upd_buf s x m in
  let rc := rc_via_emit (w_rc s) m inner in
  match w_mode s with
  | WAwait _ =>
      ({| w_int := w_int s; w_sync := w_sync s; w_uniq := w_uniq s; w_now := w_now s; w_rc := rc; w_next := S (w_next s);
          w_buf := buf'; w_mode := w_mode s; w_waiting := w_waiting s ++ [w_next s] |}, ([], []))
  | WSleep _ =>
      ({| w_int := w_int s; w_sync := w_sync s; w_uniq := w_uniq s; w_now := w_now s; w_rc := rc; w_next := S (w_next s);
          w_buf := buf'; w_mode := w_mode s; w_waiting := w_waiting s |}, ([], [w_next s]))
  end.
Proof. reflexivity. Qed.

Lemma w_upd_buf_rc s x m buf' inner ids rc1 h1 :
  w_upd_buf s x m = (buf', inner) -> rcI ids rc1 h1 ->
  (forall r, mocc (flat_map snd (w_buf s)) r + mocc m r <= h1 r)%Z ->
  rcI ids (inner rc1) (fun r => (h1 r + mocc (flat_map snd buf') r - mocc (flat_map snd (w_buf s)) r)%Z).
Proof.
  intros H I Hle. unfold w_upd_buf in H.
  assert (Hm : forall r, (mocc m r <= h1 r)%Z).
  { intros r. specialize (Hle r). pose proof (mocc_nonneg (flat_map snd (w_buf s)) r). lia. }
  assert (Happ : forall k, rcI ids (rc_retain rc1 m 1)
            (fun r => (h1 r + mocc (flat_map snd (w_buf s ++ [(k, x, m)])) r - mocc (flat_map snd (w_buf s)) r)%Z)).
  { intros k. eapply rcI_retain_held; [exact I | | exact Hm]. mo. }
  destruct (w_uniq s) as [[key keep]|].
  - cbv zeta in H. destruct (kassoc (key x) (w_buf s)) as [om|] eqn:Ek.
    + destruct keep; injection H as <- <-.
      * eapply rcI_release with (h := fun r => (h1 r + mocc m r)%Z).
        -- eapply rcI_retain_held; [exact I | intros r; reflexivity | exact Hm].
        -- intros r. cbv beta. pose proof (kremove_mocc _ _ _ r Ek). mo.
        -- intros r. cbv beta. pose proof (kremove_mocc _ _ _ r Ek). pose proof (kassoc_some_le _ _ _ r Ek).
           specialize (Hle r). pose proof (mocc_nonneg m r). pose proof (mocc_nonneg (flat_map snd (kremove (key x) (w_buf s))) r). mo.
      * eapply rcI_release with (h := fun r => (h1 r + mocc m r)%Z).
        -- eapply rcI_retain_held; [exact I | intros r; reflexivity | exact Hm].
        -- intros r. cbv beta. lia.
        -- intros r. cbv beta. pose proof (rci_nn _ _ _ I r). lia.
    + injection H as <- <-. apply Happ.
  - injection H as <- <-. apply Happ.
Qed.

Lemma w_upd_buf_none s x m buf' inner :
  w_upd_buf s x m = (buf', inner) -> w_uniq s = None -> buf' = w_buf s ++ [(VNone, x, m)].
Proof. unfold w_upd_buf. intros H E. rewrite E in H. injection H as <- <-. reflexivity. Qed.

Lemma w_upd_buf_keys s x m buf' inner key keep :
  w_upd_buf s x m = (buf', inner) -> w_uniq s = Some (key, keep) ->
  Forall (fun e => bkey e = key (belt e)) (w_buf s) -> NoDup (map bkey (w_buf s)) ->
  Forall (fun e => bkey e = key (belt e)) buf' /\ NoDup (map bkey buf').
Proof.
  unfold w_upd_buf. intros H E HF HN. rewrite E in H. cbv zeta in H.
  destruct (kassoc (key x) (w_buf s)) as [om|] eqn:Ek.
  - destruct keep; injection H as <- <-.
    + destruct (kremove_keys _ _ _ Ek HN) as [A B]. split.
      * apply Forall_app. split; [apply kremove_Forall; exact HF | constructor; [reflexivity | constructor]].
      * rewrite map_app. cbn [map fst]. apply nodup_snoc; assumption.
    + split; assumption.
  - injection H as <- <-. split.
    + apply Forall_app. split; [exact HF | constructor; [reflexivity | constructor]].
    + rewrite map_app. cbn [map fst]. apply nodup_snoc; [exact HN | apply kassoc_none; exact Ek].
Qed.

Record WInv (i : Z) (uniq : option ((val -> val) * bool)) (ids : list nat) (ins : list (val * md)) (s : wst)
       (D : list (Z * val * md)) (N : list nat) : Prop := {
  wi_int : w_int s = i;
  wi_uniq : w_uniq s = uniq;
  wi_deadline : forall u, w_mode s = WSleep u -> (w_now s < u <= w_now s + i)%Z;
  wi_waiting : forall u, w_mode s = WSleep u -> w_waiting s = [];
  wi_syncmode : w_sync s = true -> exists u, w_mode s = WSleep u;
  wi_next : w_next s = length ins;
  wi_done : N ++ w_waiting s = seq 0 (length ins);
  wi_rc : rcI ids (w_rc s) (mocc (w_held s));
  wi_cons : uniq = None ->
            flat_map bitems D ++ map fst (w_items s) = map fst ins
            /\ flat_map snd D ++ flat_map snd (w_items s) = flat_map snd ins;
  wi_keys : forall key keep, uniq = Some (key, keep) ->
            Forall (fun e => bkey e = key (belt e)) (w_buf s) /\ NoDup (map bkey (w_buf s))
            /\ Forall (fun d => NoDup (map key (bitems d))) D;
}.

Ltac wsimp := unfold w_set; cbn [w_int w_sync w_uniq w_now w_rc w_next w_buf w_mode w_waiting].

Lemma WInv_init i sync uniq : (0 < i)%Z ->
  WInv i uniq [] [] (fst (w_init i sync uniq)) (fst (snd (w_init i sync uniq))) [].
Proof.
  intros Hi. unfold w_init, w_emit. wsimp. cbn [flat_map].
  assert (R0 : rcI [] (rc_via_emit rc0 [] (fun r => r)) (mocc [])).
  { apply rcI_via_emit_id; [|intros r; cbn [mocc]; lia].
    constructor; cbn [rc0 rcnt rfired mocc]; intros; try reflexivity; try lia; try contradiction. }
  destruct uniq as [[key0 keep0]|]; destruct sync; cbn [fst snd]; constructor; unfold w_held, w_items, w_batch; wsimp;
    cbn [map flat_map app length seq fst snd batch_items]; auto;
    try (intros u [= <-]; lia); try (intros u [=]); try (intros [=]); eauto;
    try (intros E; split; reflexivity);
    try (intros key keep E; split; [constructor|]; split; [constructor|]; constructor; [cbn; constructor | constructor]).
Qed.

Lemma keys_of_batch (key : val -> val) (buf : list (val * val * md)) :
  Forall (fun e => bkey e = key (belt e)) buf -> map key (map belt buf) = map bkey buf.
Proof.
  induction 1 as [|e t He Ht IH]; cbn [map]; [reflexivity|]. rewrite IH, <- He. reflexivity.
Qed.

Lemma w_tick_inv i uniq ids ins s D N s' d :
  (0 < i)%Z -> WInv i uniq ids ins s D N -> w_tick s = (s', d) -> WInv i uniq ids ins s' (D ++ d) N.
Proof.
  intros Hi [Hint Hun Hdl Hwt Hsm Hnx Hdn Hrc Hcons Hkeys] H.
  unfold w_tick in H.
  assert (Hidle : forall md0, w_mode s = md0 -> (forall u, md0 = WSleep u -> (w_now s + 1 < u)%Z) ->
            WInv i uniq ids ins (w_set s (w_now s + 1)%Z (w_rc s) (w_buf s) md0 (w_waiting s)) (D ++ []) N).
  { intros md0 Em Hu. rewrite app_nil_r. constructor; unfold w_held, w_items in *; wsimp; rewrite <- ?Em; auto.
    intros u Eu. rewrite Em in Eu. specialize (Hu u Eu). specialize (Hdl u ltac:(rewrite Em; exact Eu)). lia. }
  destruct (w_mode s) as [m0|until] eqn:Em.
  - injection H as <- <-. apply Hidle; [reflexivity | intros u [=]].
  - destruct (until <=? w_now s + 1)%Z eqn:Eu.
    2:{ apply Z.leb_gt in Eu. injection H as <- <-. apply Hidle; [reflexivity | intros u [= <-]; exact Eu]. }
    apply Z.leb_le in Eu. clear Hidle. unfold w_emit in H.
    unfold w_held, w_items in *. rewrite Em in Hrc. cbn [app] in Hrc.
    pose proof (rcI_via_emit_id _ _ _ (flat_map snd (w_buf s)) Hrc ltac:(intros; lia)) as Hrc1.
    assert (Hc : uniq = None ->
       flat_map bitems (D ++ [((w_now s + 1)%Z, w_batch s (w_buf s), flat_map snd (w_buf s))]) ++ [] = map fst ins
       /\ flat_map snd (D ++ [((w_now s + 1)%Z, w_batch s (w_buf s), flat_map snd (w_buf s))]) ++ [] = flat_map snd ins).
    { intros E. destruct (Hcons E) as [C1 C2]. unfold w_batch. rewrite Hun, E.
      rewrite !flat_map_app. cbn [flat_map batch_items fst snd]. rewrite !app_nil_r.
      rewrite map_fst_items in C1. rewrite flat_snd_items in C2. split; assumption. }
    assert (Hk : forall key keep, uniq = Some (key, keep) ->
       Forall (fun d => NoDup (map key (bitems d))) (D ++ [((w_now s + 1)%Z, w_batch s (w_buf s), flat_map snd (w_buf s))])).
    { intros key keep E. destruct (Hkeys key keep E) as [K1 [K2 K3]]. apply Forall_app. split; [exact K3|].
      constructor; [|constructor]. unfold w_batch. rewrite Hun, E. cbn [batch_items fst snd].
      rewrite (keys_of_batch key _ K1). exact K2. }
    destruct (w_sync s) eqn:Esy; injection H as <- <-.
    + constructor; unfold w_held, w_items; wsimp; cbn [map flat_map app]; auto.
      * intros u [= <-]. rewrite Hint. lia.
      * intros u _. eapply Hwt. reflexivity.
      * eauto.
      * eapply rcI_release; [exact Hrc1 | intros r; cbn [mocc]; lia | intros r; cbn [mocc]; lia].
      * intros key keep E. split; [constructor|]. split; [constructor|]. eapply Hk; exact E.
    + constructor; unfold w_held, w_items; wsimp; cbn [map flat_map app]; auto.
      * intros u [=].
      * intros u [=].
      * intros Hs. congruence.
      * rewrite app_nil_r. exact Hrc1.
      * intros key keep E. split; [constructor|]. split; [constructor|]. eapply Hk; exact E.
Qed.

Lemma w_adv_inv i uniq ids ins : (0 < i)%Z -> forall k s D N s' d,
  WInv i uniq ids ins s D N -> w_adv k s = (s', d) -> WInv i uniq ids ins s' (D ++ d) N.
Proof.
  intros Hi. induction k as [|k IH]; intros s D N s' d I H; cbn [w_adv] in H.
  - injection H as <- <-. rewrite app_nil_r. exact I.
  - destruct (w_tick s) as [s1 d1] eqn:Et. destruct (w_adv k s1) as [s2 d2] eqn:Ea.
    injection H as <- <-. rewrite app_assoc. eapply IH; [|exact Ea]. eapply w_tick_inv; eassumption.
Qed.

Definition ids_act (a : act) : list nat := match a with AEmit _ _ m => mids m | _ => [] end.
Definition ins_act (a : act) : list (val * md) := match a with AEmit _ x m => [(x, m)] | _ => [] end.

Lemma w_step_inv i uniq ids ins s D N a s' d n :
  (0 < i)%Z -> WInv i uniq ids ins s D N -> w_step s a = (s', (d, n)) ->
  WInv i uniq (ids ++ ids_act a) (ins ++ ins_act a) s' (D ++ d) (N ++ n).
Proof.
  intros Hi I H. destruct a as [src x m| |k|dt]; cbn [ids_act ins_act]; rewrite ?app_nil_r.
  - (* emit *)
    destruct I as [Hint Hun Hdl Hwt Hsm Hnx Hdn Hrc Hcons Hkeys].
    rewrite w_step_emit in H. destruct (w_upd_buf s x m) as [buf' inner] eqn:Eb.
    pose proof (rcI_more _ (mids m) _ _ Hrc) as Hrc'.
    assert (Hfresh : NoDup (ids ++ mids m) -> forall r, In r (rfired (w_rc s)) -> mocc m r = 0%Z)
      by (apply (rcI_fresh_cond _ _ _ _ Hrc)).
    assert (Hmi : forall r, (1 <= mocc m r)%Z -> In r (ids ++ mids m))
      by (intros r Hr; apply in_or_app; right; apply mocc_pos_in; exact Hr).
    pose proof (rcI_retain _ _ _ m (fun r => (mocc (w_held s) r + mocc m r)%Z) Hrc' ltac:(intros; reflexivity) Hmi Hfresh) as Hrc1.
    assert (Hrc2 : rcI (ids ++ mids m) (rc_via_emit (w_rc s) m inner)
              (mocc ((match w_mode s with WAwait m0 => m0 | WSleep _ => [] end) ++ flat_map snd buf'))).
    { unfold rc_via_emit. eapply rcI_release; [eapply (w_upd_buf_rc _ _ _ _ _ _ _ _ Eb Hrc1) | |intros r; apply mocc_nonneg].
      - intros r. cbv beta. unfold w_held. rewrite mocc_app.
        pose proof (mocc_nonneg (match w_mode s with WAwait m0 => m0 | WSleep _ => [] end) r). lia.
      - intros r. cbv beta. unfold w_held. rewrite !mocc_app. lia. }
    assert (Hc : uniq = None ->
       flat_map bitems D ++ map fst (map (fun e => (snd (fst e), snd e)) buf') = map fst (ins ++ [(x, m)])
       /\ flat_map snd D ++ flat_map snd (map (fun e => (snd (fst e), snd e)) buf') = flat_map snd (ins ++ [(x, m)])).
    { intros E. destruct (Hcons E) as [C1 C2]. rewrite (w_upd_buf_none _ _ _ _ _ Eb (eq_trans Hun E)).
      unfold w_items in *. rewrite !map_app, !flat_map_app, !app_assoc, C1, C2. cbn [map flat_map fst snd]. rewrite app_nil_r. split; reflexivity. }
    assert (Hk : forall key keep, uniq = Some (key, keep) ->
       Forall (fun e => bkey e = key (belt e)) buf' /\ NoDup (map bkey buf') /\ Forall (fun d => NoDup (map key (bitems d))) D).
    { intros key keep E. destruct (Hkeys key keep E) as [K1 [K2 K3]].
      destruct (w_upd_buf_keys _ _ _ _ _ key keep Eb (eq_trans Hun E) K1 K2) as [A B]. auto. }
    assert (Hlen : length (ins ++ [(x, m)]) = S (length ins)) by (rewrite app_length; cbn [length]; lia).
    cbv zeta in H. destruct (w_mode s) as [m0|until] eqn:Em; injection H as <- <- <-; rewrite ?app_nil_r.
    + constructor; unfold w_held, w_items; wsimp; rewrite ?Em; auto.
      * intros u [=].
      * rewrite Hlen. lia.
      * rewrite Hlen, seq_S, app_assoc, Hdn, Hnx. reflexivity.
    + constructor; unfold w_held, w_items; wsimp; rewrite ?Em; auto.
      * rewrite Hlen. lia.
      * assert (Hw : w_waiting s = []) by (eapply Hwt; first [exact Em | reflexivity]).
        rewrite Hw, app_nil_r in *. rewrite Hlen, seq_S, Hdn, Hnx. reflexivity.
  - (* ack *)
    cbn [w_step] in H. destruct I as [Hint Hun Hdl Hwt Hsm Hnx Hdn Hrc Hcons Hkeys].
    destruct (w_mode s) as [m0|until] eqn:Em; injection H as <- <- <-; rewrite ?app_nil_r.
    + constructor; unfold w_held, w_items in *; wsimp; cbn [app]; auto.
      * intros u [= <-]. rewrite Hint. lia.
      * eauto.
      * rewrite app_nil_r. exact Hdn.
      * eapply rcI_release; [exact Hrc | rewrite Em; mo | intros r; apply mocc_nonneg].
    + constructor; rewrite ?Em; auto.
  - cbn [w_step] in H. injection H as <- <- <-. rewrite !app_nil_r. exact I.
  - cbn [w_step] in H. destruct (w_adv (Z.to_nat dt) s) as [s1 dl] eqn:Ea. injection H as <- <- <-. rewrite app_nil_r.
    eapply w_adv_inv; eassumption.
Qed.

Lemma ids_of_cons a t : ids_of (a :: t) = ids_act a ++ ids_of t.
Proof. destruct a; reflexivity. Qed.
Lemma ins_of_cons a t : ins_of (a :: t) = ins_act a ++ ins_of t.
Proof. destruct a; reflexivity. Qed.

Lemma w_reach_gen i uniq : (0 < i)%Z -> forall acts ids ins s0 D N s outs,
  WInv i uniq ids ins s0 D N -> run_steps timed_window_model s0 acts = (s, outs) ->
  WInv i uniq (ids ++ ids_of acts) (ins ++ ins_of acts) s (D ++ all_deliv outs) (N ++ all_done outs).
Proof.
  intros Hi. induction acts as [|a t IH]; intros ids ins s0 D N s outs I H; cbn [run_steps] in H.
  - injection H as <- <-. cbn [ids_of ins_of all_deliv all_done flat_map]. rewrite !app_nil_r. exact I.
  - change (nm_step timed_window_model s0 a) with (w_step s0 a) in H.
    destruct (w_step s0 a) as [s1 [d n]] eqn:Est.
    destruct (run_steps timed_window_model s1 t) as [s2 os] eqn:Er. injection H as <- <-.
    pose proof (w_step_inv _ _ _ _ _ _ _ _ _ _ _ Hi I Est) as I1.
    pose proof (IH _ _ _ _ _ _ _ I1 Er) as I2.
    rewrite ids_of_cons, ins_of_cons. unfold all_deliv, all_done in *. cbn [flat_map fst snd].
    rewrite !app_assoc. exact I2.
Qed.

(* the construction already emitted one (empty) batch: outs0 = [snd (w_init ..)] *)
Theorem w_reach i sync uniq acts s outs : (0 < i)%Z ->
  run_steps timed_window_model (fst (w_init i sync uniq)) acts = (s, outs) ->
  WInv i uniq (ids_of acts) (ins_of acts) s (all_deliv (snd (w_init i sync uniq) :: outs)) (all_done (snd (w_init i sync uniq) :: outs)).
Proof.
  intros Hi H.
  pose proof (w_reach_gen i uniq Hi acts [] [] _ _ [] s outs (WInv_init i sync uniq Hi) H) as X.
  unfold all_deliv, all_done in *. cbn [flat_map]. cbn [app] in X.
  replace (snd (snd (w_init i sync uniq))) with (@nil nat); [exact X|].
  unfold w_init, w_emit. destruct sync; reflexivity.
Qed.

(* ---- headline theorems ----------------------------------------------------------------------------- *)
Section Headlines.
Variables (i : Z) (sync : bool) (uniq : option ((val -> val) * bool)) (acts : list act) (s : wst)
          (outs : list (list (Z * val * md) * list nat)).
Hypothesis Hi : (0 < i)%Z.
Hypothesis Hrun : run_steps timed_window_model (fst (w_init i sync uniq)) acts = (s, outs).
Let outs' := snd (w_init i sync uniq) :: outs.

Theorem tw_conserve : uniq = None ->
  flat_map (fun d => batch_items (snd (fst d))) (all_deliv outs') ++ map fst (w_items s) = map fst (ins_of acts)
  /\ flat_map snd (all_deliv outs') ++ flat_map snd (w_items s) = flat_map snd (ins_of acts).
Proof. apply (wi_cons _ _ _ _ _ _ _ (w_reach _ _ _ _ _ _ Hi Hrun)). Qed.

(* every delivered batch has pairwise distinct keys (and the buffer too) *)
Theorem tw_unique_keys key keep : uniq = Some (key, keep) ->
  Forall (fun d => NoDup (map key (batch_items (snd (fst d))))) (all_deliv outs')
  /\ NoDup (map key (map fst (w_items s))).
Proof.
  intros E. destruct (wi_keys _ _ _ _ _ _ _ (w_reach _ _ _ _ _ _ Hi Hrun) key keep E) as [K1 [K2 K3]].
  split; [exact K3|]. unfold w_items. rewrite map_fst_items, (keys_of_batch key _ K1). exact K2.
Qed.

Theorem tw_deadline u : w_mode s = WSleep u -> (w_now s < u <= w_now s + i)%Z.
Proof. apply (wi_deadline _ _ _ _ _ _ _ (w_reach _ _ _ _ _ _ Hi Hrun)). Qed.

Theorem tw_waiting u : w_mode s = WSleep u -> w_waiting s = [].
Proof. apply (wi_waiting _ _ _ _ _ _ _ (w_reach _ _ _ _ _ _ Hi Hrun)). Qed.

(* every emit's awaitable has completed unless it waits for the batch in flight *)
Theorem tw_done : all_done outs' ++ w_waiting s = seq 0 (n_emits acts).
Proof. apply (wi_done _ _ _ _ _ _ _ (w_reach _ _ _ _ _ _ Hi Hrun)). Qed.

Theorem tw_sync_never_awaits : w_sync s = true -> exists u, w_mode s = WSleep u.
Proof. apply (wi_syncmode _ _ _ _ _ _ _ (w_reach _ _ _ _ _ _ Hi Hrun)). Qed.

Theorem tw_balance : forall r, rcnt (w_rc s) r = mocc (w_held s) r.
Proof. apply (rci_bal _ _ _ (wi_rc _ _ _ _ _ _ _ (w_reach _ _ _ _ _ _ Hi Hrun))). Qed.

Theorem tw_cb_not_early : NoDup (ids_of acts) -> forall r, In r (rfired (w_rc s)) -> mocc (w_held s) r = 0%Z.
Proof. apply (rci_cb _ _ _ (wi_rc _ _ _ _ _ _ _ (w_reach _ _ _ _ _ _ Hi Hrun))). Qed.

Theorem tw_count_nonneg : forall r, (0 <= rcnt (w_rc s) r)%Z.
Proof. intros r. rewrite tw_balance. apply mocc_nonneg. Qed.
End Headlines.

(* a batch in flight, an emitter waiting for it, an element buffered; and a keyed replacement *)
Example tw_nonvacuous :
  let md0 := [{| mid := 0; mref := true |}] in let md1 := [{| mid := 1; mref := true |}] in
  let md2 := [{| mid := 2; mref := true |}] in
  let acts := [AEmit 0 (VInt 1) md0; AEmit 0 (VInt 2) md1; AAck; AAdv 2; AEmit 0 (VInt 3) md2] in
  let '(s, outs) := run_steps timed_window_model (fst (w_init 2 false None)) acts in
  all_deliv (snd (w_init 2 false None) :: outs) = [(0%Z, VList [], []); (2%Z, VList [VInt 1; VInt 2], md0 ++ md1)]
  /\ w_mode s = WAwait (md0 ++ md1) /\ w_waiting s = [2] /\ map fst (w_items s) = [VInt 3]
  /\ all_done (snd (w_init 2 false None) :: outs) = [0; 1] /\ NoDup (ids_of acts)
  /\ map (rcnt (w_rc s)) [0; 1; 2] = [1; 1; 1]%Z.
Proof. vm_compute. repeat split; repeat constructor; cbn; intuition congruence. Qed.

Example tw_unique_nonvacuous :
  let key := fun v => match v with VInt z => VInt (z mod 2) | _ => VNone end in
  let mk := fun n => [{| mid := n; mref := true |}] in
  let acts := [AEmit 0 (VInt 1) (mk 0); AEmit 0 (VInt 2) (mk 1); AEmit 0 (VInt 3) (mk 2); AAdv 5] in
  let '(s, outs) := run_steps timed_window_model (fst (w_init 5 true (Some (key, true)))) acts in
  all_deliv (snd (w_init 5 true (Some (key, true))) :: outs) = [(0%Z, VTup [], []); (5%Z, VTup [VInt 2; VInt 3], mk 1 ++ mk 2)]
  /\ w_mode s = WSleep 10 /\ rfired (w_rc s) = [0; 1; 2].
Proof. vm_compute. repeat split. Qed.

Print Assumptions tw_conserve.
Print Assumptions tw_unique_keys.
Print Assumptions tw_deadline.
Print Assumptions tw_waiting.
Print Assumptions tw_done.
Print Assumptions tw_sync_never_awaits.
Print Assumptions tw_balance.
Print Assumptions tw_cb_not_early.
Print Assumptions tw_count_nonneg.
Print Assumptions tw_nonvacuous.
Print Assumptions tw_unique_nonvacuous.
