(* Theorems about the partition(n, timeout, key) model on the event loop, for ALL action sequences (schedules). *)
From Coq Require Import List ZArith Bool Lia Arith.
From SZ Require Import Base.Values Sync.Nodes Async.Core Async.PartitionTO.
Import ListNotations.
Close Scope Z_scope.
Open Scope nat_scope.

(* ---- generic counter reasoning ------------------------------------------------------------------ *)
Definition mids (m : md) : list nat := map mid (filter mref m).

Lemma mocc_pos_in m r : (1 <= mocc m r)%Z -> In r (mids m).
Proof.
  unfold mids. induction m as [|i t IH]; cbn [mocc filter map]; intros H; [lia|].
  destruct (mref i) eqn:E; cbn [andb] in H.
  - cbn [map]. destruct (Nat.eqb_spec (mid i) r) as [e|e]; [left; exact e | right; apply IH; lia].
  - apply IH. lia.
Qed.

Lemma nodup_app_disj {A} (l l' : list A) x : NoDup (l ++ l') -> In x l -> In x l' -> False.
Proof.
  induction l as [|a l IH]; cbn [app In]; intros H H1 H2; [exact H1|].
  inversion H as [|? ? Hn Hd]; subst. destruct H1 as [->|H1].
  - apply Hn. apply in_or_app. right. exact H2.
  - exact (IH Hd H1 H2).
Qed.

Lemma nodup_app_l {A} (l l' : list A) : NoDup (l ++ l') -> NoDup l.
Proof.
  induction l as [|a l IH]; cbn [app]; intros H; [constructor|].
  inversion H as [|? ? Hn Hd]; subst. constructor; [|exact (IH Hd)].
  intros X. apply Hn. apply in_or_app. left. exact X.
Qed.

(* `h r` = number of references to counter r held by somebody; ids = counter ids seen so far *)
Record rcI (ids : list nat) (rc : rcs) (h : nat -> Z) : Prop := {
  rci_bal : forall r, rcnt rc r = h r;
  rci_nn : forall r, (0 <= h r)%Z;
  rci_fired_ids : forall r, In r (rfired rc) -> In r ids;
  rci_held_ids : forall r, (1 <= h r)%Z -> In r ids;
  rci_cb : NoDup ids -> forall r, In r (rfired rc) -> h r = 0%Z;
}.

Lemma rcI_ext ids rc h h' : (forall r, h r = h' r) -> rcI ids rc h -> rcI ids rc h'.
Proof.
  intros E [a b c d e]. constructor; intros.
  - rewrite <- E. apply a.
  - rewrite <- E. apply b.
  - apply c; assumption.
  - apply d. rewrite E. assumption.
  - rewrite <- E. apply e; assumption.
Qed.

Lemma rcI_more ids ids' rc h : rcI ids rc h -> rcI (ids ++ ids') rc h.
Proof.
  intros [a b c d e]. constructor; intros.
  - apply a.
  - apply b.
  - apply in_or_app. left. apply c; assumption.
  - apply in_or_app. left. apply d; assumption.
  - apply e; [eapply nodup_app_l; eassumption | assumption].
Qed.

Lemma rcI_fresh_cond ids rc h m :
  rcI ids rc h -> NoDup (ids ++ mids m) -> forall r, In r (rfired rc) -> mocc m r = 0%Z.
Proof.
  intros I Hn r Hf. pose proof (mocc_nonneg m r).
  destruct (Z.eq_dec (mocc m r) 0) as [e|e]; [exact e|]. exfalso.
  eapply nodup_app_disj; [exact Hn | eapply rci_fired_ids; eassumption | apply mocc_pos_in; lia].
Qed.

Lemma rcI_retain ids rc h m h' :
  rcI ids rc h -> (forall r, h' r = h r + mocc m r)%Z ->
  (forall r, (1 <= mocc m r)%Z -> In r ids) ->
  (NoDup ids -> forall r, In r (rfired rc) -> mocc m r = 0%Z) ->
  rcI ids (rc_retain rc m 1) h'.
Proof.
  intros [a b c d e] E Hi Hf. constructor; intros.
  - rewrite rcnt_retain, E, a. lia.
  - rewrite E. pose proof (b r). pose proof (mocc_nonneg m r). lia.
  - rewrite rfired_retain in H. apply c; assumption.
  - rewrite E in H. pose proof (b r). pose proof (mocc_nonneg m r).
    destruct (Z_le_gt_dec 1 (h r)); [apply d; assumption | apply Hi; lia].
  - rewrite rfired_retain in H0. rewrite E, (e H r H0), (Hf H r H0). reflexivity.
Qed.

Lemma rcI_retain_held ids rc h m h' :
  rcI ids rc h -> (forall r, h' r = h r + mocc m r)%Z -> (forall r, mocc m r <= h r)%Z ->
  rcI ids (rc_retain rc m 1) h'.
Proof.
  intros I E Hle. eapply rcI_retain; [exact I | exact E | |].
  - intros r H. eapply rci_held_ids; [exact I|]. specialize (Hle r). lia.
  - intros Hn r Hf. pose proof (rci_cb _ _ _ I Hn r Hf). pose proof (mocc_nonneg m r). specialize (Hle r). lia.
Qed.

Lemma rcI_release ids rc h m h' :
  rcI ids rc h -> (forall r, h r = h' r + mocc m r)%Z -> (forall r, 0 <= h' r)%Z ->
  rcI ids (rc_release rc m 1) h'.
Proof.
  intros [a b c d e] E Hnn. constructor; intros.
  - rewrite rcnt_release, a, E. lia.
  - apply Hnn.
  - apply rfired_release_new in H. destruct H as [H|[H1 H2]]; [apply c; exact H|].
    apply d. rewrite E. specialize (Hnn r). lia.
  - apply d. rewrite E. pose proof (mocc_nonneg m r). lia.
  - apply rfired_release_new in H0. pose proof (mocc_nonneg m r). pose proof (Hnn r).
    destruct H0 as [H0|[H1' H2']].
    + pose proof (e H r H0) as X. rewrite E in X. lia.
    + rewrite a, E in H1'. lia.
Qed.

(* Stream._emit of metadata that is already held: counts unchanged, no callback for a held element *)
Lemma rcI_via_emit_id ids rc h m :
  rcI ids rc h -> (forall r, mocc m r <= h r)%Z -> rcI ids (rc_via_emit rc m (fun r => r)) h.
Proof.
  intros I Hle. unfold rc_via_emit.
  eapply rcI_release with (h := fun r => (h r + mocc m r)%Z).
  - eapply rcI_retain_held; [exact I | intros r; reflexivity | exact Hle].
  - intros r. reflexivity.
  - apply (rci_nn _ _ _ I).
Qed.

(* ---- val_eqb decides equality -------------------------------------------------------------------- *)
Section ValInd.
Variable P : val -> Prop.
Hypothesis HI : forall z, P (VInt z).
Hypothesis HT : forall l, Forall P l -> P (VTup l).
Hypothesis HL : forall l, Forall P l -> P (VList l).
Hypothesis HN : P VNone.
Fixpoint val_ind2 (v : val) : P v :=
  match v with
  | VInt z => HI z
  | VTup l => HT l ((fix go (l : list val) : Forall P l :=
                      match l with [] => Forall_nil _ | x :: t => Forall_cons x (val_ind2 x) (go t) end) l)
  | VList l => HL l ((fix go (l : list val) : Forall P l :=
                      match l with [] => Forall_nil _ | x :: t => Forall_cons x (val_ind2 x) (go t) end) l)
  | VNone => HN
  end.
End ValInd.

Definition vleqb := fix leqb (l1 l2 : list val) {struct l1} : bool :=
      match l1, l2 with
      | [], [] => true
      | x :: t1, y :: t2 => val_eqb x y && leqb t1 t2
      | _, _ => false
      end.

Lemma vleqb_spec l1 : Forall (fun a => forall b, val_eqb a b = true <-> a = b) l1 ->
  forall l2, vleqb l1 l2 = true <-> l1 = l2.
Proof.
  induction 1 as [|x t Hx Ht IH]; intros [|y t2]; cbn [vleqb]; split; intros H; try reflexivity; try discriminate.
  - apply andb_true_iff in H as [H1 H2]. apply Hx in H1. apply IH in H2. congruence.
  - injection H as <- <-. apply andb_true_iff. split; [apply Hx | apply IH]; reflexivity.
Qed.

Lemma val_eqb_spec a : forall b, val_eqb a b = true <-> a = b.
Proof.
  induction a as [z|l Hl|l Hl|] using val_ind2; intros [z2|l2|l2|]; cbn [val_eqb]; try (split; intros H; (discriminate || reflexivity)).
  - rewrite Z.eqb_eq. split; congruence.
  - change (vleqb l l2 = true <-> VTup l = VTup l2). rewrite (vleqb_spec l Hl l2). split; congruence.
  - change (vleqb l l2 = true <-> VList l = VList l2). rewrite (vleqb_spec l Hl l2). split; congruence.
Qed.

Lemma val_eqb_refl a : val_eqb a a = true.
Proof. apply val_eqb_spec. reflexivity. Qed.

Lemma val_eqb_false a b : val_eqb a b = false <-> a <> b.
Proof.
  split.
  - intros H E. subst. rewrite val_eqb_refl in H. discriminate.
  - intros H. destruct (val_eqb a b) eqn:E; [|reflexivity]. apply val_eqb_spec in E. contradiction.
Qed.

(* ---- generic list facts --------------------------------------------------------------------------- *)
Lemma nodup_snoc {A} (l : list A) x : NoDup l -> ~ In x l -> NoDup (l ++ [x]).
Proof.
  induction l as [|a t IH]; cbn [app]; intros Hn Hx; [constructor; [intros []|constructor]|].
  inversion Hn as [|? ? Ha Ht]; subst. constructor.
  - intros X. apply in_app_or in X as [X|[X|[]]]; [exact (Ha X) | subst; apply Hx; left; reflexivity].
  - apply IH; [exact Ht | intros X; apply Hx; right; exact X].
Qed.

Lemma filter_all {A} (p : A -> bool) l : (forall x, In x l -> p x = true) -> filter p l = l.
Proof.
  induction l as [|a t IH]; cbn [filter]; intros H; [reflexivity|].
  rewrite (H a (or_introl eq_refl)), IH; [reflexivity|]. intros x Hx. apply H. right. exact Hx.
Qed.

Lemma nodup_map_filter {A B} (f : A -> B) (p : A -> bool) l : NoDup (map f l) -> NoDup (map f (filter p l)).
Proof.
  induction l as [|a t IH]; cbn [map filter]; intros H; [constructor|].
  inversion H as [|? ? Ha Ht]; subst. destruct (p a); [|exact (IH Ht)].
  cbn [map]. constructor; [|exact (IH Ht)]. intros X. apply Ha.
  apply in_map_iff in X as [z [Hz1 Hz2]]. apply filter_In in Hz2 as [Hz2 _]. apply in_map_iff. exists z. split; assumption.
Qed.

Lemma Forall_filter {A} (P : A -> Prop) (p : A -> bool) l : Forall P l -> Forall P (filter p l).
Proof.
  intros H. apply Forall_forall. intros x Hx. apply filter_In in Hx as [Hx _]. revert x Hx. apply Forall_forall. exact H.
Qed.

(* ---- association lists ------------------------------------------------------------------------------ *)
Local Notation bvals := (fun b : val * (list val * md) => fst (snd b)).
Local Notation bmd := (fun b : val * (list val * md) => snd (snd b)).

Lemma get_set_same {B} k (b : B) l : assoc_get k (assoc_set k b l) = Some b.
Proof.
  induction l as [|[k1 b1] t IH]; cbn [assoc_set assoc_get].
  - rewrite val_eqb_refl. reflexivity.
  - destruct (val_eqb k k1) eqn:E; cbn [assoc_get]; rewrite E; [reflexivity | exact IH].
Qed.

Lemma get_set_other {B} k k' (b : B) l : k' <> k -> assoc_get k' (assoc_set k b l) = assoc_get k' l.
Proof.
  intros Hne. apply val_eqb_false in Hne.
  induction l as [|[k1 b1] t IH]; cbn [assoc_set assoc_get].
  - rewrite Hne. reflexivity.
  - destruct (val_eqb k k1) eqn:E; cbn [assoc_get].
    + apply val_eqb_spec in E. subst k1. rewrite Hne. reflexivity.
    + destruct (val_eqb k' k1); [reflexivity | exact IH].
Qed.

Lemma p_get_set_same k b l : p_get k (assoc_set k b l) = b.
Proof. unfold p_get. rewrite get_set_same. reflexivity. Qed.
Lemma p_get_set_other k k' b l : k' <> k -> p_get k' (assoc_set k b l) = p_get k' l.
Proof. intros H. unfold p_get. rewrite get_set_other; [reflexivity | exact H]. Qed.

Lemma bmd_set k vs' m' l r :
  mocc (flat_map bmd (assoc_set k (vs', m') l)) r
  = (mocc (flat_map bmd l) r - mocc (snd (p_get k l)) r + mocc m' r)%Z.
Proof.
  unfold p_get. induction l as [|[k1 [v1 m1]] t IH]; cbn [assoc_set assoc_get flat_map snd].
  - rewrite app_nil_r. cbn [mocc]. lia.
  - destruct (val_eqb k k1) eqn:E; cbn [flat_map snd]; rewrite !mocc_app.
    + lia.
    + rewrite IH. lia.
Qed.

Lemma bmd_get_le k l r : (mocc (snd (p_get k l)) r <= mocc (flat_map bmd l) r)%Z.
Proof.
  unfold p_get. induction l as [|[k1 [v1 m1]] t IH]; cbn [assoc_get flat_map snd]; [cbn [mocc]; lia|].
  rewrite mocc_app. pose proof (mocc_nonneg m1 r). pose proof (mocc_nonneg (flat_map bmd t) r).
  destruct (val_eqb k k1); cbn [snd]; lia.
Qed.

Lemma tremove_filter k l : NoDup (map fst l) -> tremove k l = filter (fun kd => negb (val_eqb k (fst kd))) l.
Proof.
  induction l as [|[k1 d1] t IH]; cbn [tremove filter map fst]; intros H; [reflexivity|].
  inversion H as [|? ? Ha Ht]; subst. destruct (val_eqb k k1) eqn:E; cbn [negb].
  - apply val_eqb_spec in E. subst k1. symmetry. apply filter_all. intros [k2 d2] Hx. cbn [fst].
    destruct (val_eqb k k2) eqn:E2; [|reflexivity]. apply val_eqb_spec in E2. subst k2.
    exfalso. apply Ha. apply in_map_iff. exists (k, d2). split; [reflexivity | exact Hx].
  - rewrite IH; [reflexivity | exact Ht].
Qed.

(* ---- partition ------------------------------------------------------------------------------------- *)
Definition p_items (s : pst) : list val := flat_map (fun b => fst (snd b)) (p_bufs s).
Definition p_held (s : pst) : md := flat_map (fun b => snd (snd b)) (p_bufs s) ++ flat_map fst (p_flight s).
Definition tuple_items (v : val) : list val := match v with VTup l => l | _ => [] end.
Local Notation titems := (fun d : Z * val * md => tuple_items (snd (fst d))).

Ltac mo := intros; cbv beta; repeat (rewrite ?flat_map_app, ?mocc_app, ?app_nil_r; cbn [flat_map fst snd mocc app]); try lia.

(* with key = None there is a single buffer *)
Definition one_buf (bufs : list (val * (list val * md))) : Prop := bufs = [] \/ exists b, bufs = [(VNone, b)].

Lemma one_buf_set b bufs : one_buf bufs -> one_buf (assoc_set VNone b bufs).
Proof. intros [->|[b0 ->]]; right; exists b; reflexivity. Qed.

Lemma one_buf_items bufs : one_buf bufs -> flat_map bvals bufs = fst (p_get VNone bufs).
Proof. intros [->|[b0 ->]]; cbn; [reflexivity | apply app_nil_r]. Qed.

Lemma p_flush_spec s now rc bufs k who rc1 bufs' fl dl dn :
  p_flush s now rc bufs k who = (rc1, bufs', fl, dl, dn) ->
  bufs' = assoc_set k ([], []) bufs /\ dl = [(now, VTup (fst (p_get k bufs)), snd (p_get k bufs))] /\
  (forall ids h, rcI ids rc h -> (forall r, mocc (flat_map bmd bufs) r <= h r)%Z ->
     rcI ids rc1 (fun r => h r - mocc (snd (p_get k bufs)) r + mocc (flat_map fst fl) r)%Z).
Proof.
  unfold p_flush. intros H. destruct (p_get k bufs) as [vs m] eqn:Eg.
  assert (Hm : forall h, (forall r, mocc (flat_map bmd bufs) r <= h r)%Z -> forall r, (mocc m r <= h r)%Z).
  { intros h Hh r. pose proof (bmd_get_le k bufs r) as X. rewrite Eg in X. cbn [snd] in X. specialize (Hh r). lia. }
  destruct (p_sync s); injection H as <- <- <- <- <-; (split; [reflexivity|]); (split; [reflexivity|]); intros ids h I Hh; cbn [fst snd].
  - eapply rcI_release; [apply rcI_via_emit_id; [exact I | exact (Hm h Hh)] | mo |].
    intros r. cbv beta. cbn [flat_map mocc]. specialize (Hm h Hh r). lia.
  - eapply rcI_ext; [|apply rcI_via_emit_id; [exact I | exact (Hm h Hh)]]. mo.
Qed.

Lemma p_fire_spec s now : forall timers rc bufs rc2 bufs2 rest2 fl2 dl2,
  p_fire s now timers rc bufs = (rc2, bufs2, rest2, fl2, dl2) ->
  rest2 = filter (fun kd => negb (snd kd <=? now)%Z) timers
  /\ (forall ids h, rcI ids rc h -> (forall r, mocc (flat_map bmd bufs) r <= h r)%Z ->
        rcI ids rc2 (fun r => h r - mocc (flat_map bmd bufs) r + mocc (flat_map bmd bufs2) r + mocc (flat_map fst fl2) r)%Z)
  /\ (forall k, (p_get k bufs2 = p_get k bufs /\ forall d, In (k, d) timers -> (now < d)%Z)
                \/ (p_get k bufs2 = ([], []) /\ exists d, In (k, d) timers /\ (d <= now)%Z))
  /\ (NoDup (map fst timers) ->
        Forall (fun dd => exists k d, In (k, d) timers /\ snd (fst dd) = VTup (fst (p_get k bufs))) dl2)
  /\ (one_buf bufs -> Forall (fun kd => fst kd = VNone) timers ->
        one_buf bufs2 /\ flat_map titems dl2 ++ fst (p_get VNone bufs2) = fst (p_get VNone bufs)).
Proof.
  induction timers as [|[k0 due] rest IH]; intros rc bufs rc2 bufs2 rest2 fl2 dl2 H; cbn [p_fire] in H.
  - injection H as <- <- <- <- <-. split; [reflexivity|]. split.
    { intros ids h I Hh. eapply rcI_ext; [|exact I]. mo. }
    split. { intros k. left. split; [reflexivity | intros d []]. }
    split. { intros _. constructor. }
    intros O _. split; [exact O | reflexivity].
  - cbn [filter snd]. destruct (due <=? now)%Z eqn:Ed; cbn [negb].
    + apply Z.leb_le in Ed.
      destruct (p_flush s now rc bufs k0 None) as [[[[rc1 bufs1] fl1] dl1] dn1] eqn:Ef.
      destruct (p_fire s now rest rc1 bufs1) as [[[[rc2' bufs2'] rest2'] fl2'] dl2'] eqn:Ep.
      injection H as <- <- <- <- <-.
      destruct (p_flush_spec _ _ _ _ _ _ _ _ _ _ _ Ef) as [Eb [Edl Frc]].
      destruct (IH _ _ _ _ _ _ _ Ep) as [I1 [I2 [I3 [I4 I5]]]].
      assert (Hb1 : forall r, mocc (flat_map bmd bufs1) r = (mocc (flat_map bmd bufs) r - mocc (snd (p_get k0 bufs)) r)%Z).
      { intros r. rewrite Eb, bmd_set. cbn [mocc]. lia. }
      split; [exact I1|]. split.
      { intros ids h I Hh. eapply rcI_ext; [|apply (I2 ids _ (Frc ids h I Hh))].
        - intros r. cbv beta. rewrite Hb1. mo.
        - intros r. cbv beta. rewrite Hb1. specialize (Hh r). pose proof (mocc_nonneg (flat_map fst fl1) r). lia. }
      split.
      { intros k. destruct (val_eqb k k0) eqn:Ek.
        - apply val_eqb_spec in Ek. subst k0. right. split; [|exists due; split; [left; reflexivity | exact Ed]].
          destruct (I3 k) as [[G _]|[G _]]; [|exact G]. rewrite G, Eb. apply p_get_set_same.
        - apply val_eqb_false in Ek.
          assert (G1 : p_get k bufs1 = p_get k bufs) by (rewrite Eb; apply p_get_set_other; exact Ek).
          destruct (I3 k) as [[G Hd]|[G [d [Hd1 Hd2]]]].
          + left. split; [congruence|]. intros d [X|X]; [congruence | exact (Hd d X)].
          + right. split; [exact G|]. exists d. split; [right; exact Hd1 | exact Hd2]. }
      split.
      { intros Hn. cbn [map fst] in Hn. apply NoDup_cons_iff in Hn as [Ha Ht]. rewrite Edl. cbn [app]. constructor.
        - exists k0, due. split; [left; reflexivity | reflexivity].
        - eapply Forall_impl; [|exact (I4 Ht)]. cbv beta. intros dd [k [d [Hin Hv]]].
          exists k, d. split; [right; exact Hin|]. rewrite Hv.
          rewrite Eb, p_get_set_other; [reflexivity|]. intros ->. apply Ha. apply in_map_iff. exists (k0, d). split; [reflexivity | exact Hin]. }
      intros O Hk. pose proof (Forall_inv Hk) as Hk0. cbn [fst] in Hk0. subst k0.
      assert (O1 : one_buf bufs1) by (rewrite Eb; apply one_buf_set; exact O).
      destruct (I5 O1 (Forall_inv_tail Hk)) as [O2 C]. split; [exact O2|].
      rewrite Edl. cbn [app flat_map tuple_items fst snd]. rewrite <- app_assoc, C, Eb, p_get_set_same. cbn [fst]. rewrite !app_nil_r. reflexivity.
    + apply Z.leb_gt in Ed.
      destruct (p_fire s now rest rc bufs) as [[[[rc2' bufs2'] rest2'] fl2'] dl2'] eqn:Ep.
      injection H as <- <- <- <- <-.
      destruct (IH _ _ _ _ _ _ _ Ep) as [I1 [I2 [I3 [I4 I5]]]].
      split; [rewrite I1; reflexivity|]. split; [exact I2|]. split.
      { intros k. destruct (I3 k) as [[G Hd]|[G [d [Hd1 Hd2]]]].
        - left. split; [exact G|]. intros d [X|X]; [injection X as _ <-; exact Ed | exact (Hd d X)].
        - right. split; [exact G|]. exists d. split; [right; exact Hd1 | exact Hd2]. }
      split.
      { intros Hn. cbn [map fst] in Hn. apply NoDup_cons_iff in Hn as [Ha Ht].
        eapply Forall_impl; [|exact (I4 Ht)]. cbv beta. intros dd [k [d [Hin Hv]]]. exists k, d. split; [right; exact Hin | exact Hv]. }
      intros O Hk. exact (I5 O (Forall_inv_tail Hk)).
Qed.

(* the timers are exactly the non-empty buffers, once each, due within the timeout *)
Definition timers_ok (t now : Z) (timers : list (val * Z)) (bufs : list (val * (list val * md))) : Prop :=
  NoDup (map fst timers)
  /\ (forall k, In k (map fst timers) <-> fst (p_get k bufs) <> [])
  /\ Forall (fun kd => (now < snd kd <= now + t)%Z) timers.

Lemma timers_flush k (b1 : list val * md) (timers : list (val * Z)) (bufs : list (val * (list val * md))) :
  NoDup (map fst timers) -> (forall k', In k' (map fst timers) <-> fst (p_get k' bufs) <> []) ->
  NoDup (map fst (filter (fun kd => negb (val_eqb k (fst kd))) timers))
  /\ (forall k', In k' (map fst (filter (fun kd => negb (val_eqb k (fst kd))) timers))
                 <-> fst (p_get k' (assoc_set k ([], []) (assoc_set k b1 bufs))) <> []).
Proof.
  intros T1 T2. split; [apply nodup_map_filter; exact T1|]. intros k'. split.
  - intros Hin. apply in_map_iff in Hin as [[k1 d1] [Hk Hin]]. cbn [fst] in Hk. subst k1.
    apply filter_In in Hin as [Hin Hd]. cbn [fst] in Hd. apply negb_true_iff, val_eqb_false in Hd.
    rewrite !p_get_set_other by congruence. apply T2. apply in_map_iff. exists (k', d1). auto.
  - intros Hne. destruct (val_eqb k k') eqn:E.
    + apply val_eqb_spec in E. subst k'. rewrite p_get_set_same in Hne. contradiction (Hne eq_refl).
    + pose proof E as E'. apply val_eqb_false in E'. rewrite !p_get_set_other in Hne by congruence.
      apply T2 in Hne. apply in_map_iff in Hne as [[k1 d1] [Hk Hin]]. cbn [fst] in Hk. subst k1.
      apply in_map_iff. exists (k', d1). split; [reflexivity|]. apply filter_In. split; [exact Hin|].
      cbn [fst]. rewrite E. reflexivity.
Qed.

Lemma timers_keep k (b1 : list val * md) (timers : list (val * Z)) (bufs : list (val * (list val * md))) :
  fst b1 <> [] -> In k (map fst timers) ->
  (forall k', In k' (map fst timers) <-> fst (p_get k' bufs) <> []) ->
  (forall k', In k' (map fst timers) <-> fst (p_get k' (assoc_set k b1 bufs)) <> []).
Proof.
  intros Hb Hin T2 k'. destruct (val_eqb k k') eqn:E.
  - apply val_eqb_spec in E. subst k'. rewrite p_get_set_same. tauto.
  - apply val_eqb_false in E. rewrite p_get_set_other by congruence. apply T2.
Qed.

Lemma timers_arm k (b1 : list val * md) (d : Z) (timers : list (val * Z)) (bufs : list (val * (list val * md))) :
  fst b1 <> [] -> ~ In k (map fst timers) -> NoDup (map fst timers) ->
  (forall k', In k' (map fst timers) <-> fst (p_get k' bufs) <> []) ->
  NoDup (map fst (timers ++ [(k, d)]))
  /\ (forall k', In k' (map fst (timers ++ [(k, d)])) <-> fst (p_get k' (assoc_set k b1 bufs)) <> []).
Proof.
  intros Hb Hni T1 T2. rewrite map_app. cbn [map fst]. split; [apply nodup_snoc; assumption|].
  intros k'. rewrite in_app_iff. cbn [In]. destruct (val_eqb k k') eqn:E.
  - apply val_eqb_spec in E. subst k'. rewrite p_get_set_same. tauto.
  - apply val_eqb_false in E. rewrite p_get_set_other by congruence. rewrite <- T2. tauto.
Qed.

Definition sized (n : nat) (d : Z * val * md) : Prop := exists vs, snd (fst d) = VTup vs /\ 1 <= length vs <= n.

Record PInv (n : nat) (to : option Z) (key : option (val -> val)) (ids : list nat) (ins : list (val * md)) (s : pst)
       (D : list (Z * val * md)) : Prop := {
  pi_n : p_n s = n;
  pi_to : p_to s = to;
  pi_key : p_key s = key;
  pi_rc : rcI ids (p_rc s) (mocc (p_held s));
  pi_len : forall k, length (fst (p_get k (p_bufs s))) < n;
  pi_size : Forall (sized n) D;
  pi_notimers : to = None -> p_timers s = [];
  pi_timers : forall t, to = Some t -> timers_ok t (p_now s) (p_timers s) (p_bufs s);
  pi_cons : key = None ->
            one_buf (p_bufs s) /\ Forall (fun kd => fst kd = VNone) (p_timers s)
            /\ flat_map titems D ++ fst (p_get VNone (p_bufs s)) = map fst ins;
}.

Ltac psimp := unfold p_upd; cbn [p_n p_to p_key p_sync p_now p_rc p_next p_bufs p_timers p_flight].

Lemma PInv_init n to key sync : 1 <= n -> PInv n to key [] [] (p_init n to key sync) [].
Proof.
  intros Hn. constructor; unfold p_held, p_init, timers_ok; psimp; cbn [map flat_map app]; auto.
  - constructor; cbn [rc0 rcnt rfired mocc]; intros; try reflexivity; try lia; try contradiction.
  - intros t _. split; [constructor|]. split; [|constructor]. intros k. cbn. tauto.
  - intros _. split; [left; reflexivity|]. split; [constructor | reflexivity].
Qed.

Lemma p_tick_inv n to key ids ins s D s' d :
  1 <= n -> (forall t, to = Some t -> (0 < t)%Z) ->
  PInv n to key ids ins s D -> p_tick s = (s', d) -> PInv n to key ids ins s' (D ++ d).
Proof.
  intros Hn Ht [Hpn Hto Hkey Hrc Hlen Hsize Hnt Htm Hcons] H. unfold p_tick in H.
  destruct (p_fire s (p_now s + 1)%Z (p_timers s) (p_rc s) (p_bufs s)) as [[[[rc2 bufs2] rest2] fl2] dl2] eqn:Ep.
  injection H as <- <-.
  destruct (p_fire_spec _ _ _ _ _ _ _ _ _ _ Ep) as [F1 [F2 [F3 [F4 F5]]]].
  constructor; unfold p_held in *; psimp; auto.
  - eapply rcI_ext; [|apply (F2 ids _ Hrc)]; [mo | mo].
    pose proof (mocc_nonneg (flat_map fst (p_flight s)) r). lia.
  - intros k. destruct (F3 k) as [[G _]|[G _]]; rewrite G; [apply Hlen | cbn [fst length]; lia].
  - apply Forall_app. split; [exact Hsize|].
    destruct to as [t|].
    + destruct (Htm t eq_refl) as [T1 [T2 T3]].
      eapply Forall_impl; [|exact (F4 T1)]. cbv beta. intros dd [k [d0 [Hin Hv]]].
      exists (fst (p_get k (p_bufs s))). split; [exact Hv|]. specialize (Hlen k).
      assert (fst (p_get k (p_bufs s)) <> []) as Hne.
      { apply T2. apply in_map_iff. exists (k, d0). split; [reflexivity | exact Hin]. }
      destruct (fst (p_get k (p_bufs s))); [contradiction | cbn [length] in *; lia].
    + rewrite (Hnt eq_refl) in Ep. cbn [p_fire] in Ep. injection Ep as _ _ _ _ <-. constructor.
  - intros E. rewrite F1, (Hnt E). reflexivity.
  - intros t E. destruct (Htm t E) as [T1 [T2 T3]]. specialize (Ht t E). unfold timers_ok. psimp. rewrite F1.
    split; [apply nodup_map_filter; exact T1|]. split.
    + intros k. split.
      * intros Hin. apply in_map_iff in Hin as [[k1 d1] [Hk Hin]]. cbn [fst] in Hk. subst k1.
        apply filter_In in Hin as [Hin Hd]. cbn [snd] in Hd. apply negb_true_iff, Z.leb_gt in Hd.
        destruct (F3 k) as [[G _]|[G [d2 [Hd1 Hd2]]]].
        -- rewrite G. apply T2. apply in_map_iff. exists (k, d1). split; [reflexivity | exact Hin].
        -- exfalso. assert (d2 = d1); [|lia].
           clear -T1 Hin Hd1. induction (p_timers s) as [|[k2 d3] t0 IH]; [contradiction|].
           cbn [map fst] in T1. apply NoDup_cons_iff in T1 as [Ha Ht0].
           destruct Hin as [X|X]; destruct Hd1 as [Y|Y].
           ++ congruence.
           ++ injection X as -> ->. exfalso. apply Ha. apply in_map_iff. exists (k, d2). split; [reflexivity | exact Y].
           ++ injection Y as -> ->. exfalso. apply Ha. apply in_map_iff. exists (k, d1). split; [reflexivity | exact X].
           ++ exact (IH Ht0 X Y).
      * intros Hne. destruct (F3 k) as [[G Hd]|[G _]]; [|rewrite G in Hne; contradiction].
        rewrite G in Hne. apply T2 in Hne. apply in_map_iff in Hne as [[k1 d1] [Hk Hin]]. cbn [fst] in Hk. subst k1.
        apply in_map_iff. exists (k, d1). split; [reflexivity|]. apply filter_In. split; [exact Hin|].
        cbn [snd]. apply negb_true_iff, Z.leb_gt. exact (Hd d1 Hin).
    + apply Forall_forall. intros [k d1] Hin. apply filter_In in Hin as [Hin Hd]. cbn [snd] in *.
      apply negb_true_iff, Z.leb_gt in Hd. pose proof (proj1 (Forall_forall _ _) T3 _ Hin) as X. cbn [snd] in X. lia.
  - intros E. destruct (Hcons E) as [O [K C]]. destruct (F5 O K) as [O2 C2]. split; [exact O2|]. split.
    + rewrite F1. apply Forall_filter. exact K.
    + rewrite flat_map_app, <- app_assoc, C2. exact C.
Qed.

Lemma p_adv_inv n to key ids ins : 1 <= n -> (forall t, to = Some t -> (0 < t)%Z) -> forall k s D s' d,
  PInv n to key ids ins s D -> p_adv k s = (s', d) -> PInv n to key ids ins s' (D ++ d).
Proof.
  intros Hn Ht. induction k as [|k IH]; intros s D s' d I H; cbn [p_adv] in H.
  - injection H as <- <-. rewrite app_nil_r. exact I.
  - destruct (p_tick s) as [s1 d1] eqn:Et. destruct (p_adv k s1) as [s2 d2] eqn:Ea.
    injection H as <- <-. rewrite app_assoc. eapply IH; [|exact Ea]. eapply p_tick_inv; eassumption.
Qed.

Definition ids_act (a : act) : list nat := match a with AEmit _ _ m => mids m | _ => [] end.
Definition ins_act (a : act) : list (val * md) := match a with AEmit _ x m => [(x, m)] | _ => [] end.

Lemma p_step_inv n to key ids ins s D a s' d dn :
  1 <= n -> (forall t, to = Some t -> (0 < t)%Z) ->
  PInv n to key ids ins s D -> p_step s a = (s', (d, dn)) ->
  PInv n to key (ids ++ ids_act a) (ins ++ ins_act a) s' (D ++ d).
Proof.
  intros Hn Ht I H. destruct a as [src x m| |j|dt]; cbn [ids_act ins_act]; rewrite ?app_nil_r.
  - (* emit *)
    destruct I as [Hpn Hto Hkey Hrc Hlen Hsize Hnt Htm Hcons].
    cbn [p_step] in H.
    remember (match p_key s with Some kf => kf x | None => VNone end) as k eqn:Ek.
    destruct (p_get k (p_bufs s)) as [vs ms] eqn:Eg. cbv beta iota in H.
    remember (assoc_set k (vs ++ [x], ms ++ m) (p_bufs s)) as bufs1 eqn:Eb1.
    remember (rc_retain (rc_retain (p_rc s) m 1) m 1) as rc0' eqn:Erc0.
    pose proof (rcI_more _ (mids m) _ _ Hrc) as Hrc'.
    assert (Hfresh : NoDup (ids ++ mids m) -> forall r, In r (rfired (p_rc s)) -> mocc m r = 0%Z)
      by (apply (rcI_fresh_cond _ _ _ _ Hrc)).
    assert (Hmi : forall r, (1 <= mocc m r)%Z -> In r (ids ++ mids m))
      by (intros r Hr; apply in_or_app; right; apply mocc_pos_in; exact Hr).
    pose proof (rcI_retain _ _ _ m (fun r => (mocc (p_held s) r + mocc m r)%Z) Hrc' ltac:(intros; reflexivity) Hmi Hfresh) as Hrc1.
    assert (Hrc2 : rcI (ids ++ mids m) rc0' (fun r => (mocc (p_held s) r + 2 * mocc m r)%Z)).
    { rewrite Erc0. eapply rcI_retain_held; [exact Hrc1 | intros r; cbv beta; lia |].
      intros r. cbv beta. pose proof (mocc_nonneg (p_held s) r). lia. }
    assert (Hb1 : forall r, mocc (flat_map bmd bufs1) r = (mocc (flat_map bmd (p_bufs s)) r - mocc ms r + mocc ms r + mocc m r)%Z).
    { intros r. rewrite Eb1, bmd_set, Eg. cbn [snd]. rewrite mocc_app. lia. }
    assert (Hmsle : forall r, (mocc ms r <= mocc (flat_map bmd (p_bufs s)) r)%Z).
    { intros r. pose proof (bmd_get_le k (p_bufs s) r) as X. rewrite Eg in X. exact X. }
    assert (Hg1 : p_get k bufs1 = (vs ++ [x], ms ++ m)) by (rewrite Eb1; apply p_get_set_same).
    assert (Hgo : forall k', k' <> k -> p_get k' bufs1 = p_get k' (p_bufs s)) by (intros k' Hk; rewrite Eb1; apply p_get_set_other; exact Hk).
    assert (Hvs : length vs < n) by (specialize (Hlen k); rewrite Eg in Hlen; exact Hlen).
    assert (Hne : vs ++ [x] <> []) by (destruct vs; discriminate).
    assert (Hlv : length (vs ++ [x]) = S (length vs)) by (rewrite app_length; cbn [length]; lia).
    assert (Hkn : key = None -> k = VNone) by (intros E; rewrite Ek, Hkey, E; reflexivity).
    assert (Hins : map fst (ins ++ [(x, m)]) = map fst ins ++ [x]) by (rewrite map_app; reflexivity).
    destruct (length (vs ++ [x]) =? p_n s) eqn:En.
    + (* size flush *)
      apply Nat.eqb_eq in En. rewrite Hpn in En.
      destruct (p_flush s (p_now s) rc0' bufs1 k (Some (p_next s))) as [[[[rc1 bufs2] fl] dl] dn1] eqn:Ef.
      injection H as <- <- <-.
      destruct (p_flush_spec _ _ _ _ _ _ _ _ _ _ _ Ef) as [Eb2 [Edl Frc]].
      assert (Hb2 : forall r, mocc (flat_map bmd bufs2) r = (mocc (flat_map bmd (p_bufs s)) r - mocc ms r)%Z).
      { intros r. rewrite Eb2, bmd_set, Hg1, Hb1. cbn [snd mocc]. rewrite mocc_app. lia. }
      assert (Hg2 : forall k', p_get k' bufs2 = ([], []) \/ p_get k' bufs2 = p_get k' (p_bufs s)).
      { intros k'. destruct (val_eqb k k') eqn:E.
        - apply val_eqb_spec in E. subst k'. left. rewrite Eb2. apply p_get_set_same.
        - apply val_eqb_false in E. right. rewrite Eb2, p_get_set_other by congruence. apply Hgo. congruence. }
      assert (Htim : forall t, to = Some t ->
                (match p_to s with Some _ => if 1 <? p_n s then tremove k (p_timers s) else p_timers s | None => p_timers s end)
                = filter (fun kd => negb (val_eqb k (fst kd))) (p_timers s)).
      { intros t E. destruct (Htm t E) as [T1 [T2 T3]]. rewrite Hto, E, Hpn. destruct (1 <? n) eqn:E1.
        - apply tremove_filter. exact T1.
        - apply Nat.ltb_ge in E1. symmetry. apply filter_all. intros [k2 d2] Hin. cbn [fst].
          apply negb_true_iff, val_eqb_false. intros <-.
          assert (fst (p_get k (p_bufs s)) <> []) as X by (apply T2; apply in_map_iff; exists (k, d2); auto).
          rewrite Eg in X. cbn [fst] in X. destruct vs; [contradiction | cbn [length] in *; lia]. }
      constructor; unfold p_held in *; psimp; auto.
      * eapply rcI_release; [apply (Frc _ _ Hrc2) | | intros r; apply mocc_nonneg].
        -- intros r. cbv beta. rewrite Hb1. mo. pose proof (mocc_nonneg (flat_map fst (p_flight s)) r). pose proof (mocc_nonneg m r). specialize (Hmsle r). lia.
        -- intros r. cbv beta. rewrite Hg1. cbn [snd]. mo. rewrite Hb2. lia.
      * intros k'. destruct (Hg2 k') as [G|G]; rewrite G; [cbn [fst length]; lia | apply Hlen].
      * apply Forall_app. split; [exact Hsize|]. rewrite Edl, Hg1. constructor; [|constructor].
        exists (vs ++ [x]). split; [reflexivity | lia].
      * intros E. rewrite Hto, E. apply Hnt. exact E.
      * intros t E. rewrite (Htim t E). destruct (Htm t E) as [T1 [T2 T3]].
        destruct (timers_flush k (vs ++ [x], ms ++ m) _ _ T1 T2) as [A B]. rewrite Eb2, Eb1.
        split; [exact A|]. split; [exact B|]. apply Forall_filter. exact T3.
      * intros E. destruct (Hcons E) as [O [K C]]. specialize (Hkn E). clear Ek. subst k. split; [|split].
        -- rewrite Eb2, Eb1. apply one_buf_set, one_buf_set. exact O.
        -- destruct to as [t|].
           ++ rewrite (Htim t eq_refl). apply Forall_filter. exact K.
           ++ rewrite Hto. exact K.
        -- rewrite Eb2 at 1. rewrite p_get_set_same. cbn [fst]. rewrite Edl, Hg1, flat_map_app, Hins, <- C, Eg.
           cbn [flat_map tuple_items fst snd]. rewrite !app_nil_r, app_assoc. reflexivity.
    + (* buffered *)
      apply Nat.eqb_neq in En. rewrite Hpn in En. injection H as <- <- <-. rewrite app_nil_r.
      constructor; unfold p_held in *; psimp; auto.
      * eapply rcI_release; [exact Hrc2 | | intros r; apply mocc_nonneg]. intros r. cbv beta. mo. rewrite Hb1. lia.
      * intros k'. destruct (val_eqb k k') eqn:E.
        -- apply val_eqb_spec in E. subst k'. rewrite Hg1. cbn [fst]. lia.
        -- apply val_eqb_false in E. rewrite Hgo by congruence. apply Hlen.
      * intros E. rewrite Hto, E. apply Hnt. exact E.
      * intros t E. destruct (Htm t E) as [T1 [T2 T3]]. specialize (Ht t E). rewrite Hto, E, Eb1. unfold timers_ok.
        destruct (length (vs ++ [x]) =? 1) eqn:E1.
        -- apply Nat.eqb_eq in E1. assert (vs = []) as -> by (destruct vs; [reflexivity | cbn [length] in *; lia]).
           assert (~ In k (map fst (p_timers s))) as Hni.
           { intros X. apply T2 in X. rewrite Eg in X. apply X. reflexivity. }
           destruct (timers_arm k ([] ++ [x], ms ++ m) (p_now s + t)%Z _ _ Hne Hni T1 T2) as [A B].
           split; [exact A|]. split; [exact B|]. apply Forall_app. split; [exact T3|]. constructor; [cbn [snd]; lia | constructor].
        -- apply Nat.eqb_neq in E1. assert (In k (map fst (p_timers s))) as Hin.
           { apply T2. rewrite Eg. cbn [fst]. destruct vs; [cbn [app length] in E1; lia | discriminate]. }
           split; [exact T1|]. split; [|exact T3]. apply (timers_keep k (vs ++ [x], ms ++ m) _ _ Hne Hin T2).
      * intros E. destruct (Hcons E) as [O [K C]]. specialize (Hkn E). clear Ek. subst k. split; [|split].
        -- rewrite Eb1. apply one_buf_set. exact O.
        -- destruct (p_to s) as [t|]; [|exact K]. destruct (length (vs ++ [x]) =? 1); [|exact K].
           apply Forall_app. split; [exact K | constructor; [reflexivity | constructor]].
        -- rewrite Hg1, Hins, <- C, Eg. cbn [fst]. rewrite app_assoc. reflexivity.
  - (* ack *)
    cbn [p_step] in H. destruct (p_flight s) as [|[m who] rest] eqn:Ef.
    + injection H as <- <- <-. rewrite app_nil_r. exact I.
    + destruct I as [Hpn Hto Hkey Hrc Hlen Hsize Hnt Htm Hcons].
      injection H as <- <- <-. rewrite app_nil_r.
      constructor; unfold p_held in *; psimp; auto.
      eapply rcI_release; [exact Hrc | | intros r; apply mocc_nonneg]. rewrite Ef. mo.
  - cbn [p_step] in H. injection H as <- <- <-. rewrite app_nil_r. exact I.
  - cbn [p_step] in H. destruct (p_adv (Z.to_nat dt) s) as [s1 dl] eqn:Ea. injection H as <- <- <-.
    eapply p_adv_inv; eassumption.
Qed.

Lemma ids_of_cons a t : ids_of (a :: t) = ids_act a ++ ids_of t.
Proof. destruct a; reflexivity. Qed.
Lemma ins_of_cons a t : ins_of (a :: t) = ins_act a ++ ins_of t.
Proof. destruct a; reflexivity. Qed.

Lemma p_reach_gen n to key : 1 <= n -> (forall t, to = Some t -> (0 < t)%Z) -> forall acts ids ins s0 D s outs,
  PInv n to key ids ins s0 D -> run_steps partition_model s0 acts = (s, outs) ->
  PInv n to key (ids ++ ids_of acts) (ins ++ ins_of acts) s (D ++ all_deliv outs).
Proof.
  intros Hn Ht. induction acts as [|a t IH]; intros ids ins s0 D s outs I H; cbn [run_steps] in H.
  - injection H as <- <-. cbn [ids_of ins_of all_deliv flat_map]. rewrite !app_nil_r. exact I.
  - change (nm_step partition_model s0 a) with (p_step s0 a) in H.
    destruct (p_step s0 a) as [s1 [d dn]] eqn:Est.
    destruct (run_steps partition_model s1 t) as [s2 os] eqn:Er. injection H as <- <-.
    pose proof (p_step_inv _ _ _ _ _ _ _ _ _ _ _ Hn Ht I Est) as I1.
    pose proof (IH _ _ _ _ _ _ I1 Er) as I2.
    rewrite ids_of_cons, ins_of_cons. unfold all_deliv in *. cbn [flat_map fst].
    rewrite !app_assoc. exact I2.
Qed.

Theorem p_reach n to key sync acts s outs : 1 <= n -> (forall t, to = Some t -> (0 < t)%Z) ->
  run_steps partition_model (p_init n to key sync) acts = (s, outs) ->
  PInv n to key (ids_of acts) (ins_of acts) s (all_deliv outs).
Proof.
  intros Hn Ht H. exact (p_reach_gen n to key Hn Ht acts [] [] _ [] s outs (PInv_init n to key sync Hn) H).
Qed.

(* ---- headline theorems ----------------------------------------------------------------------------- *)
Section Headlines.
Variables (n : nat) (to : option Z) (key : option (val -> val)) (sync : bool) (acts : list act) (s : pst)
          (outs : list (list (Z * val * md) * list nat)).
Hypothesis Hn : 1 <= n.
Hypothesis Ht : forall t, to = Some t -> (0 < t)%Z.
Hypothesis Hrun : run_steps partition_model (p_init n to key sync) acts = (s, outs).

Theorem partition_size :
  Forall (fun d => exists vs, snd (fst d) = VTup vs /\ 1 <= length vs <= n) (all_deliv outs).
Proof. apply (pi_size _ _ _ _ _ _ _ (p_reach _ _ _ _ _ _ _ Hn Ht Hrun)). Qed.

(* no key's buffer ever holds n elements between steps *)
Theorem partition_buf_bound : forall k, length (fst (p_get k (p_bufs s))) < n.
Proof. apply (pi_len _ _ _ _ _ _ _ (p_reach _ _ _ _ _ _ _ Hn Ht Hrun)). Qed.

Theorem partition_conserve : key = None ->
  flat_map (fun d => tuple_items (snd (fst d))) (all_deliv outs) ++ p_items s = map fst (ins_of acts).
Proof.
  intros E. destruct (pi_cons _ _ _ _ _ _ _ (p_reach _ _ _ _ _ _ _ Hn Ht Hrun) E) as [O [_ C]].
  unfold p_items. rewrite (one_buf_items _ O). exact C.
Qed.

(* holds for every n >= 1 (for n = 1 no timer is ever armed and every buffer is empty) *)
Theorem partition_timer_inv_gen t : to = Some t ->
  NoDup (map fst (p_timers s))
  /\ (forall k, In k (map fst (p_timers s)) <-> fst (p_get k (p_bufs s)) <> [])
  /\ Forall (fun kd => (p_now s < snd kd <= p_now s + t)%Z) (p_timers s).
Proof. apply (pi_timers _ _ _ _ _ _ _ (p_reach _ _ _ _ _ _ _ Hn Ht Hrun)). Qed.

Theorem partition_timer_inv t : to = Some t -> 1 < n ->
  NoDup (map fst (p_timers s))
  /\ (forall k, In k (map fst (p_timers s)) <-> fst (p_get k (p_bufs s)) <> [])
  /\ Forall (fun kd => (p_now s < snd kd <= p_now s + t)%Z) (p_timers s).
Proof. intros E _. apply partition_timer_inv_gen. exact E. Qed.

Theorem partition_no_timeout_no_timers : to = None -> p_timers s = [].
Proof. apply (pi_notimers _ _ _ _ _ _ _ (p_reach _ _ _ _ _ _ _ Hn Ht Hrun)). Qed.

Theorem partition_balance : forall r, rcnt (p_rc s) r = mocc (p_held s) r.
Proof. apply (rci_bal _ _ _ (pi_rc _ _ _ _ _ _ _ (p_reach _ _ _ _ _ _ _ Hn Ht Hrun))). Qed.

Theorem partition_cb_not_early : NoDup (ids_of acts) -> forall r, In r (rfired (p_rc s)) -> mocc (p_held s) r = 0%Z.
Proof. apply (rci_cb _ _ _ (pi_rc _ _ _ _ _ _ _ (p_reach _ _ _ _ _ _ _ Hn Ht Hrun))). Qed.

Theorem partition_count_nonneg : forall r, (0 <= rcnt (p_rc s) r)%Z.
Proof. intros r. rewrite partition_balance. apply mocc_nonneg. Qed.
End Headlines.

(* a timeout flush and a size flush in flight, a cancelled and a re-armed timer, an element buffered *)
Example partition_nonvacuous :
  let mk := fun i => [{| mid := i; mref := true |}] in
  let acts := [AEmit 0 (VInt 1) (mk 0); AEmit 0 (VInt 2) (mk 1); AAdv 5; AEmit 0 (VInt 3) (mk 2); AEmit 0 (VInt 4) (mk 3);
               AEmit 0 (VInt 5) (mk 4); AEmit 0 (VInt 6) (mk 5)] in
  let '(s, outs) := run_steps partition_model (p_init 3 (Some 5%Z) None false) acts in
  map (fun d => (fst (fst d), snd (fst d))) (all_deliv outs)
    = [(5%Z, VTup [VInt 1; VInt 2]); (5%Z, VTup [VInt 3; VInt 4; VInt 5])]
  /\ p_timers s = [(VNone, 10%Z)] /\ map snd (p_flight s) = [None; Some 4] /\ p_items s = [VInt 6]
  /\ all_done outs = [0; 1; 2; 3; 5] /\ NoDup (ids_of acts) /\ map (rcnt (p_rc s)) [0; 1; 2; 3; 4; 5] = [1; 1; 1; 1; 1; 1]%Z.
Proof. vm_compute. repeat split; repeat constructor; cbn; intuition congruence. Qed.

Example partition_keyed_nonvacuous :
  let key := fun v => match v with VInt z => VInt (z mod 2) | _ => VNone end in
  let mk := fun i => [{| mid := i; mref := true |}] in
  let acts := [AEmit 0 (VInt 1) (mk 0); AAdv 1; AEmit 0 (VInt 2) (mk 1); AAdv 3] in
  let '(s, outs) := run_steps partition_model (p_init 3 (Some 4%Z) (Some key) true) acts in
  all_deliv outs = [(4%Z, VTup [VInt 1], mk 0)] /\ p_timers s = [(VInt 0, 5%Z)] /\ rfired (p_rc s) = [0].
Proof. vm_compute. repeat split. Qed.

Print Assumptions partition_size.
Print Assumptions partition_buf_bound.
Print Assumptions partition_conserve.
Print Assumptions partition_timer_inv_gen.
Print Assumptions partition_timer_inv.
Print Assumptions partition_no_timeout_no_timers.
Print Assumptions partition_balance.
Print Assumptions partition_cb_not_early.
Print Assumptions partition_count_nonneg.
Print Assumptions partition_nonvacuous.
Print Assumptions partition_keyed_nonvacuous.
