# map_async retained the element only after its job had been queued inside a task, i.e. after the
# upstream had already released it: the completion callback fired at emit time (count 0), the count
# then rose again, and the callback fired a second time after delivery.  It also released (and so
# checkpointed) elements whose mapped coroutine raised.
import asyncio
from streamz import Stream
from streamz.core import RefCounter
class L:
    def add_callback(self, cb): cb()
async def main():
    fired = []
    s = Stream(asynchronous=True); out = []
    async def work(x):
        await asyncio.sleep(0.03)
        if x == 2:
            raise RuntimeError("boom")
        return x
    s.map_async(work).sink(out.append)
    refs = [RefCounter(cb=(lambda i=i: fired.append(i)), loop=L()) for i in range(3)]
    await s.emit(1, metadata=[{'ref': refs[1]}])
    assert fired == [], ("callback fired while the job is still running", fired)
    await s.emit(2, metadata=[{'ref': refs[2]}])
    await asyncio.sleep(0.15)
    assert out == [1] and fired == [1], (out, fired)     # once for 1, never for the failed 2
asyncio.run(main()); print("ok")
