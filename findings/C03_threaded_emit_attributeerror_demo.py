"""C03 (threaded operation): two producer threads block in source.emit(); the consumers of both finish in the same loop
callback.  Before the fix the second emit raises AttributeError (del thread_state.asynchronous twice); after it both return."""
import threading, time, asyncio
from tornado.ioloop import IOLoop
from streamz import Stream
loop_box=[]
ready=threading.Event()
def run():
    asyncio.set_event_loop(asyncio.new_event_loop())
    l=IOLoop.current(); loop_box.append(l); l.add_callback(ready.set); l.start()
t=threading.Thread(target=run,daemon=True); t.start(); ready.wait()
loop=loop_box[0]
s=Stream(loop=loop)
futs=[]
def sinkf(x):
    f=asyncio.get_event_loop().create_future(); futs.append((x,f)); return f
s.sink(sinkf)
log=[]
def emitter(v):
    try:
        s.emit(v); log.append(("ret",v))
    except Exception as e:
        log.append(("exc",v,repr(e)))
ths=[threading.Thread(target=emitter,args=(v,)) for v in (1,2)]
for th in ths: th.start()
time.sleep(0.2)
print(len(futs))
loop.add_callback(lambda: [f.set_result(None) for x,f in futs])
for x,f in []:
    loop.add_callback(f.set_result,None); time.sleep(0.1)
for th in ths: th.join(2)
print(log)
