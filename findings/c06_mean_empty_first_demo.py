# C06: Series.mean() after an empty first batch; expanding().x.var() on an empty first batch
import numpy as np, pandas as pd
from streamz import Stream
from streamz.dataframe import DataFrame
empty = pd.DataFrame({'x': np.array([], dtype=float)})
data = pd.DataFrame({'x': [1.0, 3.0]})
src = Stream(); sdf = DataFrame(src, example=data)
means = sdf.x.mean().stream.sink_to_list()
src.emit(empty); src.emit(data)
print("streaming mean after [empty, {1,3}]:", means[-1], " pandas:", pd.concat([empty, data]).x.mean())
src2 = Stream(); sdf2 = DataFrame(src2, example=data)
var = sdf2.expanding().x.var().stream.sink_to_list()
src2.emit(empty); src2.emit(data)          # ZeroDivisionError on the first emit before the fix
print("streaming var:", var[-1], " pandas:", data.x.var())
assert means[-1] == 2.0 and var[-1] == 2.0
