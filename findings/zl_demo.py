from streamz import Stream
a=Stream(); b=Stream()
z=a.zip_latest(b)
out=z.partition(1).sink_to_list()   # partition needs an event loop -> emit goes through sync()
b.emit(1)
a.emit(2)
print(out)
