import asyncio
from streamz import Stream
async def main():
    s = Stream(asynchronous=True)
    done = []
    async def slow(x):
        await asyncio.sleep(0.05); done.append(x)
    s.slice(0, None, 1).sink(slow)
    await s.emit(1)
    print("after awaited emit, consumer finished:", done)
    assert done == [1]
asyncio.run(main())
