# cd /verif/harness && PYTHONPATH=/repo /venv/bin/python ../findings/C09_refresh_discovery_demo.py   (PYTHONPATH=/tmp/wt_c09: fixed)
# npartitions=1 is configured, the topic has 2 partitions, refresh_partitions=True picks up partition 1.
import sys; sys.path.insert(0, "/verif/harness")
import c09_impl as I
for reset in ("latest", "earliest"):
    case = {"reset": reset, "maxb": 2, "np0": 2, "np": 1, "refresh": True, "low": 0, "sink": "hold", "pre": [0, 0],
            "events": [["produce", 1, 4], ["poll"], ["poll"], ["done", 0], ["crash"], ["poll"]]}
    st = I.run_case(case)["steps"]
    print(reset, "| before crash: emitted", [r for s in st[:5] for r in s["ranges"]], "completed: first batch only; committed:", st[4]["committed"])
    print(reset, "| after restart: emitted", [r for s in st[5:] for r in s["ranges"]], "positions:", st[-1]["positions"])
# as found:  latest   -> after restart nothing is emitted, positions [.., 4]: offsets 2,3 (batch never completed) are lost
#            earliest -> after restart [1,0,1] is emitted again although offset 2 is committed (completed batch delivered twice)
# fixed:     both     -> after restart exactly [1,2,3] is emitted
