# PYTHONPATH=/repo /venv/bin/python /tmp/c17_demo.py   (run again with PYTHONPATH=/tmp/wt_c17 to see the fix)
import asyncio, os, tempfile
from streamz import Stream
from tornado.ioloop import IOLoop
async def feed(chunks):
    fd, p = tempfile.mkstemp(); os.close(fd)
    s = Stream.from_textfile(p, poll_interval=0, loop=IOLoop.current(), asynchronous=True); L = s.sink_to_list()
    try:
        for ch in chunks:
            open(p, "ab").write(ch); await s._run()          # one write, one poll
        return L
    except Exception as e:
        return "%s: %s" % (type(e).__name__, e)
    finally:
        s.file.close(); os.unlink(p)
async def main():
    print("CRLF at once   :", await feed([b"x\r\ny\r\n"]))      # ['x\n', 'y\n']
    print("CRLF cut by poll:", await feed([b"x\r", b"\ny\r\n"]))  # as found: ['x\n', '\n', 'y\n']  (spurious record)
    print("UTF-8 at once  :", await feed(["é\n".encode()]))      # ['é\n']
    print("UTF-8 cut by poll:", await feed(["é\n".encode()[:1], "é\n".encode()[1:]]))  # as found: UnicodeDecodeError
asyncio.run(main())
