# latest(): (1) elements arriving while the consumer is busy were never delivered once it became free
# (the wake-up was lost); (2) two arrivals in one loop iteration delivered the same element twice;
# (3) the element being handled by a slow consumer was released as soon as the next one arrived.
import asyncio
from tornado import gen
from streamz import Stream
from streamz.core import RefCounter
class L:
    def add_callback(self, cb): cb()
async def main():
    s = Stream(asynchronous=True); got = []; gate = []
    @gen.coroutine
    def slow(x):
        got.append(x)
        yield gen.sleep(0.05)
    s.latest().sink(slow)
    fired = []
    r1 = RefCounter(cb=lambda: fired.append(1), loop=L())
    s.emit(1, metadata=[{'ref': r1}]); await asyncio.sleep(0.01)
    s.emit(2); s.emit(3)
    await asyncio.sleep(0.01)
    assert fired == [], "element 1 released while its consumer is still busy"
    await asyncio.sleep(0.2)
    assert got == [1, 3], got                      # newest delivered once the consumer is free
    s2 = Stream(asynchronous=True); got2 = []
    s2.latest().sink(got2.append)
    s2.emit(1); s2.emit(2)                         # same loop iteration
    await asyncio.sleep(0.05)
    assert got2 == [2], got2                       # no duplicate
asyncio.run(main()); print("ok")
