# stop() immediately followed by start() while the old polling loop was still suspended left TWO loops
# running (both saw stopped == False): from_periodic polled twice per interval, from_iterable emitted
# items twice / out of order and then stopped early.
import asyncio
from streamz import Stream
async def main():
    n = [0]
    def cb():
        n[0] += 1; return n[0]
    s = Stream.from_periodic(cb, poll_interval=0.02, asynchronous=True); L = s.sink_to_list()
    s.start(); await asyncio.sleep(0.03)
    s.stop(); s.start()                      # old loop is asleep
    await asyncio.sleep(0.1); s.stop()
    assert len(L) <= 8, ("two polling loops", L)
    src = Stream.from_iterable([1, 2, 3, 4], asynchronous=True); M = []
    async def slow(x):
        await asyncio.sleep(0.01); M.append(x)
    src.sink(slow); src.start(); await asyncio.sleep(0.015)
    src.stop(); src.start(); await asyncio.sleep(0.1)
    assert M == [1, 2, 3, 4], M
asyncio.run(main()); print("ok")
