# Joining two pipelines copied the first upstream's loop/mode without telling the other upstreams:
# one connected pipeline ended up on two event loops / with mixed asynchronous and blocking parts.
from tornado.ioloop import IOLoop
from streamz import Stream
import asyncio
async def main():
    a = Stream(asynchronous=True); b = Stream(asynchronous=False)
    try:
        z = a.zip(b)
    except ValueError:
        print("ok: conflicting join raises"); return
    assert a.loop is b.loop, "one pipeline, two loops: %r %r" % (a.loop, b.loop)
asyncio.run(main())
