# combine_latest: disconnecting an input that had already delivered data raised KeyError half-way through
# (missing.remove), leaving the upstream without its downstream link but still listed as an upstream.
from streamz import Stream
a = Stream(); b = Stream()
cl = a.combine_latest(b); L = cl.sink_to_list()
a.emit(1); b.emit(2)
b.disconnect(cl)
assert cl.upstreams == [a] and list(b.downstreams) == [] and cl.last == [1], (cl.upstreams, cl.last)
a.emit(3)
assert L == [(1, 2), (3,)], L
print("ok")
