# Why the repair of defect 32 releases before it continues.  Stream._emit retains len(self.downstreams) references
# up-front (one per child of the snapshot) and releases one after each call.  Skipping a detached child with a bare
# `continue` (the first wording of the repair, seeded/emit/emit_guard_without_release.patch) also skips that release:
# one reference leaks per skipped child, the count never comes back and the completion callback never fires.
from streamz import Stream
from streamz.core import RefCounter

s = Stream()
a = s.sink(lambda x: b.destroy())          # the edit, from inside a callback: detaches the sibling b
b = s.sink(lambda x: None)
r = RefCounter(initial=1)                   # the owner's reference
s.emit(1, metadata=[{'ref': r}])
assert r.count == 1, "emit left %d reference(s) behind (the owner holds 1)" % r.count

# the same inside the static world of the model: a slice that finishes during the inner emission of a feedback loop is
# gone when the outer loop reaches it
s = Stream()
back = s.filter(lambda x: x < 1).map(lambda x: x + 1)
first = s.slice(0, 1)
out = first.sink_to_list()
back.connect(s)
r = RefCounter(initial=1)
s.emit(0, metadata=[{'ref': r}])
assert out == [1] and r.count == 1, (out, r.count)
print("ok")
