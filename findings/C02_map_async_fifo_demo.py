"""C02: map_async(parallelism=1) reorders elements when a new element arrives one loop iteration after a job
finished while an earlier element is still waiting (spinning on sleep(0)) for a free work slot: the newcomer sees the
free slot first.  Before the fix this prints [0, 1, 3, 2]; after it [0, 1, 2, 3].   usage: python demo.py [extra_loop_turns]"""
import asyncio, sys
from streamz import Stream
async def main():
    s = Stream(asynchronous=True)
    gates = {}
    async def work(x):
        ev = gates.setdefault(x, asyncio.Event())
        await ev.wait()
        return x
    out = []
    s.map_async(work, parallelism=1).sink(out.append)
    for i in range(3):
        s.emit(i)
    await asyncio.sleep(0.01)
    gates[0].set()
    await asyncio.sleep(0)   # one loop turn
    for k in range(int(sys.argv[1]) if len(sys.argv)>1 else 0):
        await asyncio.sleep(0)
    s.emit(3)
    await asyncio.sleep(0.01)
    for i in range(1,4):
        gates.setdefault(i, asyncio.Event()).set()
        await asyncio.sleep(0.01)
    print(out)
asyncio.run(main())
