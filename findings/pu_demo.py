from streamz import Stream
from streamz.core import RefCounter
class L:
    def add_callback(self, cb): cb()
fired=[]
for keep in ("first","last"):
    s=Stream(); out=[]; mds=[]
    p=s.partition_unique(2, keep=keep)
    orig=p._emit
    p.sink(out.append)
    rcs=[RefCounter(cb=(lambda i=i: fired.append((keep,i))), loop=L()) for i in range(4)]
    seen_md=[]
    d=p.downstreams; 
    for i,x in enumerate([1,1,2,3]):
        s.emit(x, metadata=[{'id':i,'ref':rcs[i]}])
    print(keep, out, [r.count for r in rcs], fired, 'current_metadata of node:', p.current_metadata)
