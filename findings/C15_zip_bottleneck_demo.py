# zip: after disconnecting the input the others were waiting for, the remaining inputs' backlog was never
# paired (emission was only triggered by `len(L) == 1`): the node stayed wedged for ever.
import streamz
from streamz import Stream
a = Stream(); b = Stream(); c = Stream()
z = streamz.zip(a, b, c); L = z.sink_to_list()
a.emit(1); a.emit(2); b.emit(10); b.emit(20)
c.disconnect(z)
assert L == [(1, 10), (2, 20)], L          # what a zip(a, b) fed the same elements would have emitted
a.emit(3); b.emit(30)
assert L == [(1, 10), (2, 20), (3, 30)], L
print("ok")
