# C12: window(...with_state=True).x.std() -- exposing the state must not break the aggregation
import pandas as pd
from streamz import Stream
from streamz.dataframe import DataFrame
b1 = pd.DataFrame({'x': [1.0, 3.0]}); b2 = pd.DataFrame({'x': [8.0]}, index=[2])
src = Stream(); sdf = DataFrame(src, example=b1)
out = sdf.window(n=3, with_state=True).x.std().stream.sink_to_list()
src.emit(b1)                                # TypeError: tuple ** float before the fix
state, std = out[-1]
src2 = Stream(); sdf2 = DataFrame(src2, example=b1)
out2 = sdf2.window(n=3, with_state=True, start=state).x.std().stream.sink_to_list()
src.emit(b2); src2.emit(b2)
print("uninterrupted:", out[-1][1], " resumed:", out2[-1][1], " pandas:", pd.concat([b1, b2]).x.std())
assert out[-1][1] == out2[-1][1] and abs(out[-1][1] - pd.concat([b1, b2]).x.std()) < 1e-12
