"""C20 demo: union fan-in in front of a bare gather() is emitted in completion order, not in pipeline order.
Run:  PYTHONPATH=/repo:/verif/harness /venv/bin/python /verif/findings/C20_gather_fanin_demo.py"""
import c20_impl
case = {"stages": [{"k": "union", "a": [{"k": "map", "f": ["FInc"]}], "b": [{"k": "map", "f": ["FDouble"]}]}],
        "inputs": [[5, False]], "sched": {"seed": 0, "mode": "lifo", "p_emit": 1.0}}   # newest task finishes first
print("local :", c20_impl.run_local(case)["sunk"])    # [6, 10]
d = c20_impl.run_dask(case)                            # source.scatter().[union(map(inc), map(double))].gather()
print("dask  :", d["sunk"], "schedule", [s[0] for s in d["steps"]])   # [10, 6] as found; [6, 10] with the patch
