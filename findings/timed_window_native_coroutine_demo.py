# timed_window handed the SAME coroutine object of a native-coroutine consumer both to its own
# tick loop and to every emitter waiting for backpressure: "cannot reuse already awaited coroutine".
import asyncio
from streamz import Stream
async def main():
    s = Stream(asynchronous=True); got = []
    async def consume(batch):
        await asyncio.sleep(0.01); got.append(batch)
    s.timed_window(0.02).sink(consume)
    await asyncio.sleep(0.005)
    await s.emit(1)
    await s.emit(2)
    await asyncio.sleep(0.1)
    assert [x for b in got for x in b] == [1, 2], got
asyncio.run(main()); print("ok")
