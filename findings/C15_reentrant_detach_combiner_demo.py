# A zip / combine_latest node that a consumer callback disconnects WHILE the element is being handed out is still served
# from the snapshot `list(self.downstreams)` of the running loop; its per-input state is already gone, so update() raises
# (zip: KeyError in self.buffers[who]; combine_latest: ValueError in self.upstreams.index(who)), emit() fails and the
# siblings served later - whose edges nobody touched - never see the element.
import streamz
from streamz import Stream
for make in (streamz.zip, streamz.combine_latest):
    p, other, got = Stream(), Stream(), []
    p.sink(lambda x: x == 2 and p.disconnect(z))      # the edit, from inside a callback
    z = make(p, other)
    late = p.sink(got.append)                          # untouched sibling, served after z
    p.emit(1)
    p.emit(2)                                          # raises today
    assert got == [1, 2], got
print("ok")
