# rate_limit never retained the element it delays: the completion callback fired while the
# element was still waiting for its slot (and a second time after delivery).
import asyncio
from streamz import Stream
from streamz.core import RefCounter
async def main():
    s = Stream(asynchronous=True); out = []
    s.rate_limit(0.05).sink(out.append)
    fired = []
    class L:
        def add_callback(self, cb): cb()
    refs = [RefCounter(cb=(lambda i=i: fired.append(i)), loop=L()) for i in range(2)]
    s.emit(1, metadata=[{'ref': refs[0]}]); s.emit(2, metadata=[{'ref': refs[1]}])
    await asyncio.sleep(0.01)
    assert out == [1] and 1 not in fired, (out, fired)        # element 2 is still waiting
    await asyncio.sleep(0.1)
    assert out == [1, 2] and fired == [0, 1], (out, fired)
asyncio.run(main()); print("ok")
