# timed_window released the references of a window before its (asynchronous) consumer had finished,
# and timed_window_unique never released dropped / replaced duplicates.
import asyncio
from streamz import Stream
from streamz.core import RefCounter
class L:
    def add_callback(self, cb): cb()
async def main():
    fired = []
    s = Stream(asynchronous=True); done = []
    from tornado import gen
    @gen.coroutine
    def slow(batch):
        yield gen.sleep(0.08); done.append(batch)
    s.timed_window(0.02).sink(slow)
    r = RefCounter(cb=lambda: fired.append('w'), loop=L())
    await asyncio.sleep(0.01)          # the initial empty window is being consumed
    s.emit(1, metadata=[{'ref': r}])
    for _ in range(40):
        await asyncio.sleep(0.01)
        if fired:
            break
    assert [1] in done, ("callback fired while the window was still being handled", done)
    s2 = Stream(asynchronous=True)
    s2.timed_window_unique(0.02, keep="first").sink(lambda b: None)
    r1 = RefCounter(cb=lambda: fired.append('a'), loop=L()); r2 = RefCounter(cb=lambda: fired.append('b'), loop=L())
    s2.emit(5, metadata=[{'ref': r1}]); s2.emit(5, metadata=[{'ref': r2}])
    await asyncio.sleep(0.1)
    assert r1.count == 0 and r2.count == 0, (r1.count, r2.count)
asyncio.run(main()); print("ok")
