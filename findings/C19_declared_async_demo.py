# Stream.__init__: `if ensure_io_loop and not self.loop: self._set_asynchronous(False)` clobbered an explicit
# asynchronous=True: sources/nodes declared asynchronous moved to the background-thread loop (or raised).
import asyncio, threading
from tornado.ioloop import IOLoop
from streamz import Stream, Source
async def main():
    n = threading.active_count()
    s = Source(asynchronous=True)
    assert s.asynchronous is True and s.loop is IOLoop.current(), (s.asynchronous, s.loop)
    assert threading.active_count() == n
    b = Stream().map(lambda x: x).buffer(2, asynchronous=True)   # raised ValueError before
    assert b.asynchronous is True and b.loop is IOLoop.current()
    L = []; src = Stream.from_iterable([1, 2], asynchronous=True)
    src.sink(lambda x: L.append(threading.current_thread() is threading.main_thread())); src.start()
    await asyncio.sleep(0.2); assert L == [True, True], L; print("ok")
asyncio.run(main())
