# batch-by-batch results must equal pandas in one pass; run with PYTHONPATH=<streamz tree>
import numpy as np, pandas as pd
from streamz import Stream
from streamz.dataframe import DataFrame
df = pd.DataFrame({'x': [1.0, np.nan, 3.0]})
def run(build, batches):
    source = Stream(); sdf = DataFrame(source, example=df.iloc[:1])
    L = build(sdf).stream.sink_to_list()
    for b in batches: source.emit(b)
    return L
L = run(lambda s: s.x.cumsum(), [df.iloc[:2], df.iloc[2:]])          # first batch ends with NaN
got = pd.concat(L).tolist(); exp = df.x.cumsum().tolist()
print("cumsum", got, "expected", exp); assert got[2] == exp[2] == 4.0
d2 = pd.DataFrame({'x': [1.0, 2.0]})
L = run(lambda s: s.ewm(com=1).x.mean(), [d2.iloc[:0], d2])            # empty first batch
print("ewm", [list(r) for r in L], "expected last", d2.x.ewm(com=1).mean().iloc[-1])
assert len(L[-1]) == 1 and abs(L[-1].iloc[0] - d2.x.ewm(com=1).mean().iloc[-1]) < 1e-12
