"""C09 model-free oracle: the clauses of the property evaluated directly on the trace of the real source against the
fake broker (no Coq model involved).  Returns [(signature, message)]."""
NONE = -1001


def is_latest(case):
    return case.get("reset") != "earliest"


def runs_of(case, obs):
    """split the trace into runs; per run: start step, initial partition set info, batches, done steps"""
    low = case.get("low", 0)
    steps = obs["steps"]
    runs = []
    cur = None
    pre = case.get("pre", [])
    prev_high = [low + (pre[p] if p < len(pre) else 0) for p in range(case["np0"])]
    prev_comm = [NONE] * case["np0"]
    for k, st in enumerate(steps):
        if st["event"][0] in ("start", "crash"):
            cur = {"start": k, "nparts_at_start": len(prev_high), "high_at_start": list(prev_high),
                   "batches": [], "emit_step": [], "done_step": {}, "ooo": set()}
            runs.append(cur)
        st["_run"] = cur
        st["_prev_high"] = prev_high
        st["_prev_comm"] = prev_comm
        for rg in st["ranges"]:
            cur["batches"].append(rg)
            cur["emit_step"].append(k)
        for e in st["model_events"]:
            if e[0] == "BatchDone":
                i = e[1]
                if i < len(cur["batches"]):
                    p = cur["batches"][i][0]
                    if any(cur["batches"][j][0] == p and j not in cur["done_step"] for j in range(i)):
                        cur["ooo"].add(p)
                cur["done_step"][i] = k
        st["_undone"] = [i for i in range(len(cur["batches"])) if i not in cur["done_step"]]
        st["_ooo"] = set(cur["ooo"])
        prev_high = st["high"]
        prev_comm = st["committed"]
    return runs


def in_first_pass(case, run, p):
    if p >= run["nparts_at_start"]:
        return False
    if case.get("np") is None or case.get("refresh"):
        return True
    return p < case["np"]


def discovered_by_refresh(case, p):
    return bool(case.get("refresh")) and case.get("np") is not None and p >= case["np"]


def check(case, obs):
    out = []
    if obs.get("errors"):
        out.append(("C09/error", "exception while building/starting the source: %s" % obs["errors"][0]))
    low = case.get("low", 0)
    maxb = case["maxb"]
    steps = obs["steps"]
    runs_of(case, obs)
    last_end = {}
    cur_run = None
    seen_commit_for = set()
    for k, st in enumerate(steps):
        run = st["_run"]
        if run is not cur_run:
            cur_run = run
            last_end = {}
            seen_commit_for = set()
        high_now = st["high"]
        for (p, lo, hi) in st["ranges"]:
            where = "step %d (%s), range (p=%d, %d..%d)" % (k, st["event"][0], p, lo, hi)
            if hi < lo:
                out.append(("C09/range/empty", "empty range emitted at " + where))
            if hi - lo + 1 > maxb:
                out.append(("C09/range/exceeds-max-batch-size", "%s has %d > max_batch_size=%d messages" % (where, hi - lo + 1, maxb)))
            hw = st["_prev_high"][p] if p < len(st["_prev_high"]) else low
            if hi >= hw:
                out.append(("C09/range/past-high-watermark", "%s passes the high watermark %d" % (where, hw)))
            if lo < low:
                out.append(("C09/range/below-low-watermark", "%s starts below the low watermark %d" % (where, low)))
            if p in last_end:
                if lo != last_end[p] + 1:
                    out.append(("C09/contiguity/%s" % ("gap" if lo > last_end[p] + 1 else "overlap"),
                                "%s does not start at %d, one past the previous range of the partition" % (where, last_end[p] + 1)))
            else:
                rc = st["_prev_comm"][p] if p < len(st["_prev_comm"]) else NONE
                suffix = "/refresh-discovered-partition" if discovered_by_refresh(case, p) else ""
                if rc != NONE:
                    if lo != max(rc, low):
                        out.append(("C09/first-range/not-at-committed" + suffix,
                                    "%s: first range of the run for this partition starts at %d, the group's committed offset is %d (low watermark %d)"
                                    % (where, lo, rc, low)))
                else:
                    if not is_latest(case) or not in_first_pass(case, run, p):
                        exp = low
                    else:
                        exp = run["high_at_start"][p]
                    if lo != exp:
                        out.append(("C09/first-range/not-at-reset-position" + suffix,
                                    "%s: nothing committed, reset=%s: expected the first range to start at %d" % (where, case.get("reset"), exp)))
            last_end[p] = hi
        # delivered payloads are exactly the log contents of the range
        for (p, lo, hi, vals) in st["deliv"]:
            exp = ["%d:%d" % (p, o) for o in range(max(lo, low), hi + 1)]
            if vals != exp:
                out.append(("C09/delivery/wrong-messages", "step %d: batch (p=%d, %d..%d) delivered %r" % (k, p, lo, hi, vals[:6])))
        # commits of this step == completions of this step (offset = end + 1), in order
        done_now = [e[1] for e in st["model_events"] if e[0] == "BatchDone"]
        expected = []
        for i in done_now:
            if i < len(run["batches"]):
                p, lo, hi = run["batches"][i]
                expected.append([p, hi + 1])
        got = [list(c) for c in st["commits"]]
        if got != expected:
            sig = None
            for c in got:
                if c not in expected:
                    ends = [(i, b) for i, b in enumerate(run["batches"]) if b[0] == c[0] and b[2] + 1 == c[1]]
                    if not ends:
                        sig = ("C09/commit/wrong-offset", "step %d: commit of offset %d for partition %d, no emitted batch ends at %d"
                               % (k, c[1], c[0], c[1] - 1))
                    elif all(i in run["done_step"] and run["done_step"][i] < k for i, _ in ends):
                        sig = ("C09/commit/duplicate", "step %d: offset %d of partition %d committed again" % (k, c[1], c[0]))
                    else:
                        sig = ("C09/commit/early", "step %d: offset %d of partition %d committed although the batch ending at %d "
                               "has not been completely processed" % (k, c[1], c[0], c[1] - 1))
                    break
            if sig is None:
                missing = [c for c in expected if c not in got]
                if missing:
                    sig = ("C09/commit/missing", "step %d: batch of partition %d ending at %d was completely processed but offset %d was not committed"
                           % (k, missing[0][0], missing[0][1] - 1, missing[0][1]))
                else:
                    sig = ("C09/commit/order", "step %d: commits %r, completions imply %r" % (k, got, expected))
            out.append(sig)
    seen = set()
    res = []
    for s in out:
        if s[0] not in seen:
            seen.add(s[0])
            res.append(s)
    return res


def probe_points(case, obs):
    """for every step: (step index, high, committed, {p: [offsets that must be delivered again]})"""
    pts = []
    for k, st in enumerate(obs["steps"]):
        run = st["_run"]
        need = {}
        for i in st["_undone"]:
            p, lo, hi = run["batches"][i]
            if p in st["_ooo"]:
                continue            # the proviso: batches of this partition did not complete in order
            if is_latest(case) and st["committed"][p] == NONE:
                continue            # nothing committed + reset=latest: the configured start IS the end of the log
            need.setdefault(p, set()).update(range(lo, hi + 1))
        pts.append((k, list(st["high"]), list(st["committed"]), need))
    return pts


def check_probe(case, k, high, committed, need, probe):
    out = []
    low = case.get("low", 0)
    if probe.get("errors"):
        out.append(("C09/error", "restart after step %d: %s" % (k, probe["errors"][0])))
    got = {}
    first = {}
    for (p, lo, hi) in probe["ranges"]:
        got.setdefault(p, set()).update(range(lo, hi + 1))
        first.setdefault(p, lo)
    for p, lo in sorted(first.items()):
        if committed[p] != NONE and lo != max(committed[p], low):
            suffix = "/refresh-discovered-partition" if discovered_by_refresh(case, p) else ""
            out.append(("C09/first-range/not-at-committed" + suffix,
                        "crash after step %d, restart: first range of partition %d starts at %d, committed offset is %d"
                        % (k, p, lo, committed[p])))
    for p, offs in sorted(need.items()):
        lost = sorted(offs - got.get(p, set()))
        if lost:
            suffix = "/refresh-discovered-partition" if discovered_by_refresh(case, p) else ""
            out.append(("C09/at-least-once/lost-after-restart" + suffix,
                        "crash after step %d: offsets %s of partition %d were emitted in a batch that had not been completely processed "
                        "(committed offset %d); the restarted source (polled until quiet) never delivers them again"
                        % (k, lost[:8], p, committed[p])))
    return out
