"""Acceptance run of the node translator: apply each patch of seeded/kern/*.patch to the snapshot of the library
(VERIF_REPO, a git checkout), regenerate Gen/KN_*.v, rebuild Base/BridgeNodes.vo and say who noticed:
  translator  - gen_nodes raised KernelError (the generated file is the non-compiling placeholder)
  bridge      - a bridge proof no longer checks (theorem named)
  nothing     - everything still builds
The checkout is restored after every patch (`git checkout -- .`).  Usage: kern_acceptance.py [name ...]"""
import glob
import os
import re
import subprocess
import sys
import time

sys.path.insert(0, os.path.dirname(os.path.abspath(__file__)))
import common
import gen_kernels

REPO = gen_kernels.REPO
PATCHES = os.path.join(common.VERIF, "seeded", "kern")


def sh(cmd, cwd=None, timeout=900):
    p = subprocess.run(cmd, shell=True, cwd=cwd, stdout=subprocess.PIPE, stderr=subprocess.STDOUT, text=True, timeout=timeout)
    return p.returncode, p.stdout


def theorem_at(path, line):
    name = None
    for i, ln in enumerate(open(path).read().split("\n"), 1):
        m = re.match(r"\s*(Theorem|Lemma)\s+(\w+)", ln)
        if m:
            name = m.group(2)
        if i >= line:
            break
    return name


def build():
    t0 = time.time()
    errs = gen_kernels.regenerate()
    t1 = time.time()
    common.ensure_makefile()
    rc, out = sh("timeout 900 make -f Makefile.coq -j16 theories/Base/BridgeNodes.vo", cwd=common.COQ, timeout=1000)
    t2 = time.time()
    verdict = "nothing"
    detail = ""
    nerr = {k: v for k, v in errs.items() if k.startswith("KN_")}
    if nerr:
        verdict = "translator"
        detail = "; ".join("%s: %s" % kv for kv in sorted(nerr.items()))
    elif rc != 0:
        m = re.search(r'File "([^"]+)", line (\d+)', out)
        if m and "BridgeNodes" in m.group(1):
            verdict = "bridge"
            detail = theorem_at(os.path.join(common.COQ, m.group(1)), int(m.group(2))) or "?"
        elif m:
            verdict = "generated file does not compile"
            detail = "%s line %s: %s" % (m.group(1), m.group(2), " ".join(out[m.end():].split())[:160])
        else:
            verdict = "build error"
            detail = out[-300:]
    return verdict, detail, t1 - t0, t2 - t1


def main(names):
    rc, out = sh("git status --porcelain", cwd=REPO)
    if out.strip():
        print("the checkout %s is not clean" % REPO)
        return 2
    v, d, tg, tb = build()
    print("%-44s %-12s %s   [regenerate %.2fs, bridge build %.1fs]" % ("(unchanged source)", v, d, tg, tb))
    rows = []
    bad = 0
    for p in sorted(glob.glob(os.path.join(PATCHES, "*.patch"))):
        name = os.path.basename(p)[:-6]
        if names and name not in names:
            continue
        rc, out = sh("git apply %s" % p, cwd=REPO)
        if rc != 0:
            print("%-44s PATCH DOES NOT APPLY: %s" % (name, out.strip()[:200]))
            bad += 1
            continue
        try:
            v, d, tg, tb = build()
        finally:
            sh("git checkout -- .", cwd=REPO)
        kind = open(p).readline().split(":")[0].split()[0]
        ok = (v == "nothing") == (kind == "harmless")
        bad += 0 if ok else 1
        rows.append((name, kind, v, d))
        print("%-44s %-9s %-12s %s   [regenerate %.2fs, bridge build %.1fs]%s"
              % (name, kind, v, d[:300], tg, tb, "" if ok else "   <-- UNEXPECTED"))
    build()
    return 1 if bad else 0


if __name__ == "__main__":
    sys.exit(main(sys.argv[1:]))
