"""Regenerates MANIFEST.json from the table below (kept in one place so it stays valid)."""
import json, os
VERIF = os.path.dirname(os.path.dirname(os.path.abspath(__file__)))
BASE = "cd /repo && /venv/bin/python -m pytest -ra -q -p no:cacheprovider --timeout=900 --continue-on-collection-errors"

# id -> (technique, level text, level note, design ref); only properties whose check exists are listed
CHECKS = {}
try:
    from manifest_table import CHECKS as _C
    CHECKS.update(_C)
except ImportError:
    pass

# families built separately drop one JSON per property into harness/manifest_entries/
_ed = os.path.join(VERIF, "harness", "manifest_entries")
if os.path.isdir(_ed):
    for _f in sorted(os.listdir(_ed)):
        if _f.endswith(".json"):
            CHECKS[_f[:-5]] = json.load(open(os.path.join(_ed, _f)))

ALL = ["C%02d" % i for i in range(1, 21)]


def main():
    checks = []
    for pid in ALL:
        if pid not in CHECKS:
            continue
        c = CHECKS[pid]
        checks.append({
            "property_id": pid,
            "quick_cmd": "bin/check %s --tier quick" % pid,
            "thorough_cmd": "bin/check %s --tier thorough" % pid,
            "evidence_file": "/verif/evidence/%s.json" % pid,
            "replay_cmd_template": "bin/check %s --replay {path}" % pid,
            "engine": "coq-model+correspondence",
            "level_claimed": {"category": "proof", "text": c["text"], "design_ref": c["design_ref"]},
            "level_note": c["note"],
            "technique": c["technique"],
        })
    na = [{"property_id": pid, "reason": "check not built yet in this session (work in progress; see DESIGN.md section 9)"}
          for pid in ALL if pid not in CHECKS]
    man = {
        "version": 1,
        "setup_cmd": "bin/setup",
        "hooks": {
            "guard": "STREAMZ_VERIF",
            "enable": "no source hooks: instrumentation is applied from the harness process by wrapping public methods and injecting fakes through sys.modules; checks import streamz from /repo via PYTHONPATH",
            "baseline_off_cmd": BASE,
            "source_commits": [],
            "add_only": True,
        },
        "engines": [{"name": "coq-model+correspondence", "path": "/verif/bin/check",
                     "serves_properties": [c["property_id"] for c in checks],
                     "kind_free_text": "Coq 8.16 models and theorems (coq/theories), tied to /repo by a differential correspondence check evaluated inside Coq with vm_compute, plus model-free oracles on implementation traces to produce replays"}],
        "checks": checks,
        "not_applicable": na,
        "notes": "All claims are at level proof: theorems about executable Gallina models; the tie to the code is the correspondence check re-run from /repo's working tree on every invocation. See DESIGN.md.",
    }
    with open(os.path.join(VERIF, "MANIFEST.json"), "w") as f:
        json.dump(man, f, indent=1)


if __name__ == "__main__":
    main()
