import json, os, sys
sys.path.insert(0, os.path.dirname(os.path.abspath(__file__)))
import common, topofam, check_c15
case = json.load(open(sys.argv[1]))["replay"]["case"]
obs = topofam.run_case(case)
d = common.scratch("topo_diff")
p = os.path.join(d, "one.v")
with open(p, "w") as f:
    f.write(check_c15.HEADER)
    f.write("Definition c0 : tcase := {| tc_ops := [%s];\n tc_observed := [%s] |}.\n" % ("; ".join(check_c15.coq_op(op) for op in case["ops"]), ";\n  ".join(check_c15.coq_obs(x) for x in obs)))
    f.write("Set Printing Width 220.\nEval vm_compute in (map (fun p => tobs_eqb (fst p) (snd p)) (combine (trun [] (tc_ops c0)) (tc_observed c0))).\nEval vm_compute in (trun [] (tc_ops c0)).\n")
rc, out, _ = common.sh("coqc -Q %s/theories SZ -w none %s" % (common.COQ, p))
print(out[:6000])
for op, o in zip(case["ops"], obs): print(op, o)
