"""C06/C12: write generated Coq case files (case + what the real code emitted) and read back the mismatch lists."""
import os
import re

import common
import df_common as dfc
import c06_impl as ci

HEADER = """From Coq Require Import List ZArith QArith Qcanon.
From SZ Require Import DF.Frames DF.Agg DF.GroupBy DF.AggCase.
Import ListNotations.
"""


def coq_case(name, case, obs):
    a = ci.AGGS[case["agg"]]
    keycol = {"k": 2, "x": 0}[a["keycol"]]
    filt = "None" if case.get("filt") is None else "(Some %s)" % dfc.coq_q(case["filt"])
    return "Definition %s : case := mkcase %s %s %s\n  %s\n  %s.\n" % (
        name, a["coq"], filt, "true" if a["quot"] else "false",
        dfc.coq_batches(case["rows"], case["sizes"], keycol), coq_steps(a, obs))


def coq_steps(a, obs):
    steps = []
    for o in obs:
        if o["exc"] is not None:
            steps.append("None")
            continue
        v = o["val"]
        if a["square"]:
            v = dfc.canon_map(v, lambda x: x * x)
        steps.append("(Some (%s, %s))" % (dfc.coq_oval(o["state"]), dfc.coq_oval(v)))
    return dfc.coq_list(steps)


def resume_correspondence(tag, items, shard=200):
    """items: list of (c06-style case, full obs, cut k, resumed obs).  Returns (mism as_found, mism repaired, unenc, errors)."""
    d = common.scratch(tag)
    paths, unenc = [], []
    for s in range(0, len(items), shard):
        chunk = items[s:s + shard]
        p = os.path.join(d, "rcases_%d.v" % (s // shard))
        live = []
        with open(p, "w") as f:
            f.write(HEADER)
            for j, (c, full, k, resumed) in enumerate(chunk):
                try:
                    txt = coq_case("b%d" % (s + j), c, full)
                    txt += "Definition r%d : rcase := mkrcase b%d %d%%nat %s.\n" % (s + j, s + j, k, coq_steps(ci.AGGS[c["agg"]], resumed))
                except TypeError:
                    unenc.append(s + j)
                    continue
                f.write(txt)
                live.append(s + j)
            f.write("Definition all_cases := [%s].\n" % "; ".join("r%d" % i for i in live))
            f.write("Eval vm_compute in (rmismatches as_found all_cases).\n")
            f.write("Eval vm_compute in (rmismatches repaired all_cases).\n")
        paths.append((p, live))
    res = common.run_case_files([p for p, _ in paths])
    m_af, m_rep, errors = [], [], []
    for p, live in paths:
        rc, out = res[p]
        lists = parse_natlists(out) if rc == 0 else []
        if len(lists) != 2:
            errors.append((p, out[-2000:]))
            continue
        m_af.extend(live[i] for i in lists[0])
        m_rep.extend(live[i] for i in lists[1])
    return sorted(m_af), sorted(m_rep), sorted(unenc), errors


_NATLIST = re.compile(r"=\s*(\[[^\]]*\]|nil)\s*:\s*list\s+nat", re.S)


def parse_natlists(out):
    res = []
    for m in _NATLIST.finditer(out):
        body = m.group(1)
        res.append([] if body == "nil" else [int(x) for x in re.findall(r"\d+", body)])
    return res


def correspondence(tag, items, shard=250):
    """items: list of (case, obs).  Returns (mismatch indices under as_found, under repaired, unencodable, errors)."""
    d = common.scratch(tag)
    paths = []
    unenc = []
    for s in range(0, len(items), shard):
        chunk = items[s:s + shard]
        p = os.path.join(d, "cases_%d.v" % (s // shard))
        live = []
        with open(p, "w") as f:
            f.write(HEADER)
            for j, (c, o) in enumerate(chunk):
                try:
                    txt = coq_case("c%d" % (s + j), c, o)
                except TypeError:
                    unenc.append(s + j)
                    continue
                f.write(txt)
                live.append(s + j)
            names = "; ".join("c%d" % i for i in live)
            f.write("Definition all_cases := [%s].\n" % names)
            f.write("Eval vm_compute in (mismatches as_found all_cases).\n")
            f.write("Eval vm_compute in (mismatches repaired all_cases).\n")
        paths.append((p, live))
    res = common.run_case_files([p for p, _ in paths])
    m_af, m_rep, errors = [], [], []
    for p, live in paths:
        rc, out = res[p]
        lists = parse_natlists(out) if rc == 0 else []
        if len(lists) != 2:
            errors.append((p, out[-2000:]))
            continue
        m_af.extend(live[i] for i in lists[0])
        m_rep.extend(live[i] for i in lists[1])
    return sorted(m_af), sorted(m_rep), sorted(unenc), errors
