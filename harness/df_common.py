"""Shared helpers of the dataframe family (C06, C12; C07/C11 may import, not edit).

Tables, batches, canonical encoding of pandas results, exact-rational Coq literals.

A *table* is a list of rows [x, y, k] with small integer values or None (= NaN); column k is the key column.
A *batch sequence* is given by `sizes` (consecutive slices of the table, 0 = empty batch).  The index is the
unique increasing range 0..n-1.  dtype "float" (NaN allowed) or "int" (only when the table has no None).
"""
import math
from fractions import Fraction

import numpy as np
import pandas as pd

COLS = ["x", "y", "k"]


# ---------------------------------------------------------------------------
# tables and batches
# ---------------------------------------------------------------------------

def make_df(rows, start=0, dtype="float", index="range"):
    data = {}
    for j, c in enumerate(COLS):
        vals = [r[j] for r in rows]
        if dtype == "int":
            data[c] = np.array(vals, dtype="int64") if vals else np.array([], dtype="int64")
        else:
            data[c] = np.array([np.nan if v is None else float(v) for v in vals], dtype="float64")
    if index == "time":       # one row per second from the epoch: unique, increasing DatetimeIndex
        idx = pd.to_datetime(list(range(start, start + len(rows))), unit="s")
    else:
        idx = pd.RangeIndex(start, start + len(rows))
    return pd.DataFrame(data, index=idx, columns=COLS)


def example_df(dtype="float", kind="row", index="range"):
    """the `example` given to the streaming DataFrame (never fed to the stream; streamz uses it to compute
    output types).  kind "row": one row that passes the filters used here; "empty": no rows, as in streamz' own
    tests (`example=pd.DataFrame({'name': [], 'amount': []})`)."""
    if kind == "empty":
        return make_df([], start=0, dtype=dtype, index=index)
    return make_df([[9, 9, 1]], start=-1 if index == "range" else 0, dtype=dtype, index=index)


def split_rows(rows, sizes):
    out, pos = [], 0
    for s in sizes:
        out.append((pos, rows[pos:pos + s]))
        pos += s
    assert pos == len(rows), (sizes, len(rows))
    return out


def batches_of(rows, sizes, dtype="float", index="range"):
    return [make_df(rs, start=pos, dtype=dtype, index=index) for pos, rs in split_rows(rows, sizes)]


def compositions(n):
    """all ways of writing n as an ordered sum of positive parts (2^(n-1) of them; [[]] for n=0)"""
    if n == 0:
        return [[]]
    res = []
    for mask in range(1 << (n - 1)):
        parts, cur = [], 1
        for i in range(n - 1):
            if mask >> i & 1:
                parts.append(cur)
                cur = 1
            else:
                cur += 1
        parts.append(cur)
        res.append(parts)
    return res


def with_empties(parts):
    """the composition itself, plus one empty batch at the start / at each interior gap / at the end,
    plus empties everywhere, plus two leading empties"""
    res = [list(parts), [0] + list(parts), list(parts) + [0]]
    for g in range(1, len(parts)):
        res.append(list(parts[:g]) + [0] + list(parts[g:]))
    allg = [0]
    for p in parts:
        allg += [p, 0]
    res.append(allg)
    res.append([0, 0] + list(parts))
    uniq, seen = [], set()
    for r in res:
        t = tuple(r)
        if t not in seen:
            seen.add(t)
            uniq.append(r)
    return uniq


def all_splits(n):
    res = []
    for c in compositions(n):
        res.extend(with_empties(c))
    uniq, seen = [], set()
    for r in res:
        t = tuple(r)
        if t not in seen:
            seen.add(t)
            uniq.append(r)
    return uniq


# ---------------------------------------------------------------------------
# canonical form of pandas / numpy results
#   ["none"] | ["n", x] | ["v", [x...]] | ["m", [[key, [x...]]...]] | ["t", [canon...]]
#   x is a python float or None (= NaN).  Keyed results are sorted by key.  Series-valued keyed results carry
#   singleton value lists, DataFrame-valued ones one value per column.
# ---------------------------------------------------------------------------

def _num(v):
    if v is None:
        return None
    f = float(v)
    return None if math.isnan(f) else f


def canon(v):
    if v is None:
        return ["none"]
    if isinstance(v, (tuple, list)):
        return ["t", [canon(e) for e in v]]
    if isinstance(v, dict):          # window_accumulator state
        parts = [["v", [float(len(d)) for d in v["dfs"]]], canon(v["state"])]
        return ["t", parts]
    if isinstance(v, pd.DataFrame):
        items = []
        for key, row in v.iterrows():
            items.append([_num(key), [_num(row[c]) for c in v.columns]])
        items.sort(key=lambda kv: (kv[0] is None, kv[0]))
        return ["m", items]
    if isinstance(v, pd.Series):
        idx = list(v.index)
        if len(idx) and all(isinstance(i, str) for i in idx):
            return ["v", [_num(e) for e in v.tolist()]]
        items = [[_num(key), [_num(val)]] for key, val in zip(idx, v.tolist())]
        items.sort(key=lambda kv: (kv[0] is None, kv[0]))
        return ["m", items]
    if isinstance(v, (int, float, np.integer, np.floating, np.bool_)):
        return ["n", _num(v)]
    raise TypeError("cannot canonicalise %r" % (type(v),))


def num_close(a, b, quot):
    """a = implementation, b = reference"""
    if a is None or b is None:
        return a is None and b is None
    if not quot:
        return a == b
    if math.isinf(a) or math.isinf(b):
        return a == b
    return abs(a - b) <= 1e-9 * max(1.0, abs(b))


def canon_equal(a, b, quot=False):
    if a[0] != b[0]:
        return False
    t = a[0]
    if t == "none":
        return True
    if t == "n":
        return num_close(a[1], b[1], quot)
    if t == "v":
        return len(a[1]) == len(b[1]) and all(num_close(x, y, quot) for x, y in zip(a[1], b[1]))
    if t == "m":
        if len(a[1]) != len(b[1]):
            return False
        for (ka, va), (kb, vb) in zip(a[1], b[1]):
            if ka != kb or len(va) != len(vb):
                return False
            if not all(num_close(x, y, quot) for x, y in zip(va, vb)):
                return False
        return True
    if t == "t":
        return len(a[1]) == len(b[1]) and all(canon_equal(x, y, quot) for x, y in zip(a[1], b[1]))
    raise ValueError(t)


def canon_map(c, f):
    """apply f to every number of a canonical value (used for std -> var by squaring)"""
    t = c[0]
    if t == "none":
        return c
    if t == "n":
        return ["n", None if c[1] is None else f(c[1])]
    if t == "v":
        return ["v", [None if x is None else f(x) for x in c[1]]]
    if t == "m":
        return ["m", [[k, [None if x is None else f(x) for x in vs]] for k, vs in c[1]]]
    return ["t", [canon_map(e, f) for e in c[1]]]


# ---------------------------------------------------------------------------
# Coq literals (exact rationals, Qc)
# ---------------------------------------------------------------------------

def coq_z(n):
    n = int(n)
    return "(%d)%%Z" % n


def coq_q(x):
    """python number -> Qc literal, exactly (floats via their binary expansion)"""
    fr = Fraction(x)
    return "(mkq (%d)%%Z %d%%positive)" % (fr.numerator, fr.denominator)


def coq_oq(x):
    return "None" if x is None else "(Some %s)" % coq_q(x)


def coq_list(items):
    return "[" + "; ".join(items) + "]"


def coq_key(k):
    if k is None:
        raise TypeError("NaN key in a keyed result")
    if float(k) != int(k):
        raise TypeError("non-integer key %r" % (k,))
    return coq_z(int(k))


def coq_oval(c):
    t = c[0]
    if t == "none":
        return "ONone"
    if t == "n":
        return "(ONum %s)" % coq_oq(c[1])
    if t == "v":
        return "(OVec %s)" % coq_list([coq_oq(x) for x in c[1]])
    if t == "m":
        return "(OMap %s)" % coq_list(["(%s, %s)" % (coq_key(k), coq_list([coq_oq(x) for x in vs])) for k, vs in c[1]])
    if t == "t":
        return "(OTup %s)" % coq_list([coq_oval(e) for e in c[1]])
    raise ValueError(t)


def coq_row(stamp, r, keycol=2):
    kv = r[keycol]
    if kv is not None and float(kv) != int(kv):
        raise TypeError("non-integer key %r" % (kv,))
    key = "None" if kv is None else "(Some %s)" % coq_z(kv)
    return "(mkrow %s %s %s)" % (coq_z(stamp), key, coq_list([coq_oq(r[0]), coq_oq(r[1])]))


def coq_batches(rows, sizes, keycol=2):
    """keycol: which column is presented to the model as the key field (2 = k; 0 = x for x.value_counts())"""
    bs = []
    for pos, rs in split_rows(rows, sizes):
        bs.append(coq_list([coq_row(pos + i, r, keycol) for i, r in enumerate(rs)]))
    return coq_list(bs)
