"""Topology family (C15): connect / disconnect / destroy / drop histories interleaved with emissions on real nodes.

case = {"ops": [["new", kind, [ups]], ["emit", n, int], ["connect", u, d], ["disconnect", u, d], ["destroy", n], ["drop", n]]}
kinds: pipe | sink | zip | combine | combine_on | combine_on0 | rsink
 ["remit", n, x, t, edit]: emit x at node n; when the reactive sink t (kind rsink) is handed x it performs `edit`
 (["connect", u, d] | ["disconnect", u, d] | ["destroy", m]) from INSIDE its callback, i.e. while the element is being
 delivered (Coq: ORemit / rdeliver in Sync/Topology.v)
"""
import gc
import logging
import weakref

logging.disable(logging.CRITICAL)


def run_case(case):
    import streamz
    from streamz import Stream
    held = {}          # index -> strong reference (the "program's" variables)
    wr = {}            # index -> weakref
    ident = {}         # id(obj) -> index (only valid while alive)
    log = []
    mdlog = []         # case["md"]: every emitted value v travels with the metadata [{"v": v}]; per delivery the ids received
    with_md = bool(case.get("md"))
    obs = []
    pending = {}       # rsink index -> edit to perform inside its callback
    edit_exc = []

    def apply_edit(ed):
        if ed[0] == "connect":
            held[ed[1]].connect(held[ed[2]])
        elif ed[0] == "disconnect":
            held[ed[1]].disconnect(held[ed[2]])
        elif ed[0] == "destroy":
            held[ed[1]].destroy()

    def reactive(i):
        def cb(x):
            ed = pending.pop(i, None)
            if ed is not None:
                try:
                    apply_edit(ed)
                except Exception as e:      # noqa
                    edit_exc.append(type(e).__name__)
        return cb

    def idx_of(obj):
        return ident.get(id(obj), -1)

    def wrap(node, i):
        # no reference cycle: the wrapper reaches the node through a weak reference, so CPython's reference
        # counting frees an unreferenced branch immediately, as it does in a user's program
        ref = weakref.ref(node)
        cls_update = type(node).update

        def wrapped(x, who=None, metadata=None):
            log.append((idx_of(who), i, x))
            mdlog.append([m.get("v") for m in (metadata or [])])
            return cls_update(ref(), x, who=who, metadata=metadata)
        node.update = wrapped

    def snapshot():
        out = []
        for i in range(len(wr)):
            n = wr[i]()
            if n is None:
                out.append((False, [], []))
            else:
                out.append((True, [idx_of(u) for u in n.upstreams], [idx_of(d) for d in n.downstreams]))
        return out

    from streamz.core import RefCounter
    plain = all(op[1] in ("pipe", "sink", "rsink") for op in case["ops"] if op[0] == "new")
    for op in case["ops"]:
        del log[:]
        del mdlog[:]
        raised = False
        refc = None
        try:
            k = op[0]
            if k == "new":
                _, kind, ups = op
                U = [held[u] for u in ups]
                if kind == "pipe":
                    n = Stream() if not U else (U[0].map(lambda x: x) if len(U) == 1 else U[0].union(*U[1:]))
                elif kind == "sink":
                    n = U[0].sink(lambda x: None)
                elif kind == "rsink":
                    n = U[0].sink(reactive(len(wr)))
                elif kind == "zip":
                    n = streamz.zip(*U)
                elif kind == "combine":
                    n = streamz.combine_latest(*U)
                elif kind == "combine_on0":
                    # the same, with the trigger input given by POSITION (a falsy value)
                    n = streamz.combine_latest(*U, emit_on=0)
                elif kind == "combine_on":
                    # combine_latest that emits only when its FIRST input delivers (explicit emit_on)
                    n = streamz.combine_latest(*U, emit_on=U[0])
                i = len(wr)
                held[i] = n
                wr[i] = weakref.ref(n)
                ident[id(n)] = i
                wrap(n, i)
                del n, U
            elif k == "emit":
                if with_md:
                    held[op[1]].emit(op[2], metadata=[{"v": op[2]}])
                else:
                    held[op[1]].emit(op[2])
            elif k == "remit":
                pending.clear()
                del edit_exc[:]
                pending[op[3]] = op[4]
                if with_md:
                    held[op[1]].emit(op[2], metadata=[{"v": op[2]}])
                elif plain:
                    # no node of this history keeps references of its own: whatever the callback does to the graph,
                    # the emission must give back every reference it took (the owner's one is left)
                    refc = RefCounter(initial=1)
                    held[op[1]].emit(op[2], metadata=[{"ref": refc}])
                else:
                    held[op[1]].emit(op[2])
            elif k == "connect":
                held[op[1]].connect(held[op[2]])
            elif k == "disconnect":
                held[op[1]].disconnect(held[op[2]])
            elif k == "destroy":
                held[op[1]].destroy()
            elif k == "drop":
                del held[op[1]]
        except Exception as e:      # noqa
            raised = type(e).__name__
        gc.collect(0)
        # forget ids of collected objects (ids can be reused)
        for i in list(wr):
            if wr[i]() is None:
                for key in [kk for kk, v in ident.items() if v == i]:
                    del ident[key]
        obs.append({"raised": raised, "deliv": list(log), "links": snapshot()})
        if with_md:
            obs[-1]["deliv_md"] = list(mdlog)
        if op[0] == "remit":
            obs[-1]["edit_raised"] = list(edit_exc)
            obs[-1]["edit_done"] = op[3] not in pending
            if refc is not None:
                obs[-1]["refs_left"] = refc.count
            pending.clear()
    # cleanup: destroy remaining sinks so the global registry does not grow
    for i in list(held):
        n = held[i]
        try:
            if type(n).__name__ == "sink":
                n.destroy()
        except Exception:
            pass
    pending.clear()
    for i in range(len(wr)):
        n = wr[i]()
        if n is not None and type(n).__name__ == "sink":
            try:
                n.destroy()
            except Exception:
                pass
    held.clear()
    gc.collect()
    return obs
