"""Run the sync-family correspondence: generate cases, run the real code, let Coq compare."""
import json, os, random, sys, time
sys.path.insert(0, os.path.dirname(os.path.abspath(__file__)))
import common, syncfam


def correspondence(prop_id, cases_obs, shard=150):
    """cases_obs: list of (case, obs). Returns (mismatch indices, errors)."""
    d = common.scratch(prop_id)
    paths = []
    for s in range(0, len(cases_obs), shard):
        chunk = cases_obs[s:s + shard]
        p = os.path.join(d, "cases_%d.v" % (s // shard))
        with open(p, "w") as f:
            f.write(syncfam.COQ_HEADER)
            names = []
            for j, (c, o) in enumerate(chunk):
                nm = "c%d" % (s + j)
                try:
                    f.write(syncfam.coq_case(nm, c, o))
                    names.append(nm)
                except TypeError as e:
                    names.append(None)
            f.write("Eval vm_compute in (map (fun i => i + %d) (mismatches [%s])).\n" % (s, "; ".join(n for n in names if n)))
        paths.append((p, s, names))
    res = common.run_case_files([p for p, _, _ in paths])
    mism, errors = [], []
    for p, s, names in paths:
        rc, out = res[p]
        lst = common.parse_natlist(out) if rc == 0 else None
        if lst is None:
            errors.append((p, out[-2000:]))
            continue
        live = [s + j for j, n in enumerate(names) if n]
        # indices printed are positions within the live list offset by s
        for i in lst:
            mism.append(live[i - s])
        for j, n in enumerate(names):
            if n is None:
                mism.append(s + j)
    return sorted(mism), errors


if __name__ == "__main__":
    n = int(sys.argv[1]) if len(sys.argv) > 1 else 100
    seed = int(sys.argv[2]) if len(sys.argv) > 2 else 0
    rng = random.Random(seed)
    g = syncfam.Gen(rng, max_nodes=int(os.environ.get("MAXN","10")), max_events=15, faults=os.environ.get("FAULTS"))
    t0 = time.time()
    co = []
    for i in range(n):
        c = g.case()
        o, diag = syncfam.run_case(c)
        co.append((c, o))
    print("ran", n, "cases in", round(time.time() - t0, 2))
    mism, errors = correspondence("sync_dbg", co)
    print("mismatches", mism[:20], len(mism), "errors", len(errors))
    for p, out in errors[:2]:
        print(p, out)
    if mism:
        c, o = co[mism[0]]
        json.dump({"case": c}, open("/tmp/mism.json", "w"))
        print(json.dumps(c))
        for ob in o:
            print(ob)
