"""Shared table of user-function symbols: the Python meaning (mirrors
coq/theories/Base/Values.v) and the Coq text of each symbol.

Values: int | tuple | list | None.  JSON form: int | {"t": [...]} | {"l": [...]} | null.
"""


BOOMS = []          # every raise of a fault-injecting symbol is recorded here (value that triggered it)


class Boom(Exception):
    """raised by fault-injecting symbols"""

    def __init__(self, *a):
        super().__init__(*a)
        BOOMS.append(a[0] if a else None)


def boom(v, key):
    """raise a failure for value v; the exception CLASS varies with the value (a library that treats some
    exception types specially - StopIteration inside iterator plumbing, KeyError in dict code - must still let
    it reach the emitter)"""
    BOOMS.append(v)
    kind = key % 3
    if kind == 0:
        raise Boom.__new__(Boom)
    if kind == 1:
        raise StopIteration(v)
    raise KeyError(v)


def deep_sum(v):
    if isinstance(v, bool):
        raise TypeError("bool")
    if isinstance(v, int):
        return v
    if isinstance(v, (tuple, list)):
        return sum(deep_sum(x) for x in v)
    if v is None:
        return 0
    raise TypeError(type(v))


def _need_int(v):
    if not isinstance(v, int) or isinstance(v, bool):
        raise TypeError("int expected")
    return v


# ---- unary ---------------------------------------------------------------
def fn1(sym):
    tag = sym[0]
    if tag == 'FId':
        return lambda x: x
    if tag == 'FInc':
        return lambda x: _need_int(x) + 1
    if tag == 'FDouble':
        return lambda x: 2 * _need_int(x)
    if tag == 'FNeg':
        return lambda x: -_need_int(x)
    if tag == 'FAddK':
        k = sym[1]
        return lambda x: _need_int(x) + k
    if tag == 'FModK':
        k = sym[1]
        return lambda x: _need_int(x) % k
    if tag == 'FDeepSum':
        return deep_sum
    if tag == 'FPair':
        return lambda x: (_need_int(x), x + 1)
    if tag == 'FRange':
        return lambda x: list(range(_need_int(x) % 3))
    if tag == 'FFailIn':
        bad, inner = sym[1], fn1(sym[2])

        def f(x):
            if deep_sum(x) in bad:
                boom(x, deep_sum(x))
            return inner(x)
        return f
    raise KeyError(tag)


def pred(sym):
    tag = sym[0]
    if tag == 'PTrue':
        return lambda x: True
    if tag == 'PFalse':
        return lambda x: False
    if tag == 'PEven':
        return lambda x: deep_sum(x) % 2 == 0
    if tag == 'PLtK':
        k = sym[1]
        return lambda x: deep_sum(x) < k
    if tag == 'PModNe':
        k, r = sym[1], sym[2]
        return lambda x: deep_sum(x) % k != r
    if tag == 'PFailIn':
        bad, inner = sym[1], pred(sym[2])

        def p(x):
            if deep_sum(x) in bad:
                boom(x, deep_sum(x))
            return inner(x)
        return p
    raise KeyError(tag)


def fn2(sym):
    tag = sym[0]
    if tag == 'BAdd':
        return lambda acc, x: _need_int(acc) + deep_sum(x)
    if tag == 'BMax':
        return lambda acc, x: max(_need_int(acc), deep_sum(x))
    if tag == 'BSnd':
        return lambda acc, x: x
    if tag == 'BCountTo':
        k = sym[1]
        return lambda acc, x: (_need_int(acc) + 1) % k
    if tag == 'BFailIn':
        bad, inner = sym[1], fn2(sym[2])

        def f(acc, x):
            if deep_sum(x) in bad:
                boom(x, deep_sum(x))
            return inner(acc, x)
        return f
    raise KeyError(tag)


def fnN(sym):
    tag = sym[0]
    if tag == 'NSum':
        return lambda *a: deep_sum(a)
    if tag == 'NFirst':
        def first(*a):
            if not a:
                raise TypeError("no args")
            return a[0]
        return first
    if tag == 'NTuple':
        return lambda *a: tuple(reversed(a))
    if tag == 'NFailIn':
        bad, inner = sym[1], fnN(sym[2])

        def f(*a):
            if deep_sum(a) in bad:
                boom(a, deep_sum(a))
            return inner(*a)
        return f
    raise KeyError(tag)


def keyfn(sym):
    tag = sym[0]
    if tag == 'KeyId':
        return lambda x: x
    if tag == 'KeyMod':
        k = sym[1]
        return lambda x: deep_sum(x) % k
    if tag == 'KeySum':
        return deep_sum
    raise KeyError(tag)


# ---- Coq text --------------------------------------------------------------
def z(i):
    return "(%d)%%Z" % i


def zlist(l):
    return "[" + "; ".join(z(i) for i in l) + "]"


def coq_sym(sym):
    tag = sym[0]
    if tag in ('FFailIn', 'PFailIn', 'BFailIn', 'NFailIn'):
        return "(%s %s %s)" % (tag, zlist(sym[1]), coq_sym(sym[2]))
    if len(sym) == 1:
        return tag
    return "(%s %s)" % (tag, " ".join(z(a) for a in sym[1:]))


def coq_val(v):
    if v is None:
        return "VNone"
    if isinstance(v, bool):
        raise TypeError("bool value")
    if isinstance(v, int):
        return "(VInt %s)" % z(v)
    if isinstance(v, tuple):
        return "(VTup [" + "; ".join(coq_val(x) for x in v) + "])"
    if isinstance(v, list):
        return "(VList [" + "; ".join(coq_val(x) for x in v) + "])"
    raise TypeError("value not encodable: %r" % (v,))


def val_to_json(v):
    if v is None or (isinstance(v, int) and not isinstance(v, bool)):
        return v
    if isinstance(v, tuple):
        return {"t": [val_to_json(x) for x in v]}
    if isinstance(v, list):
        return {"l": [val_to_json(x) for x in v]}
    return {"repr": repr(v)}


def val_from_json(j):
    if j is None or isinstance(j, int):
        return j
    if "t" in j:
        return tuple(val_from_json(x) for x in j["t"])
    if "l" in j:
        return [val_from_json(x) for x in j["l"]]
    raise ValueError(j)
