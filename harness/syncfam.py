"""Synchronous pipeline family (C01, C05, C10, C16): case generator, driver
of the REAL streamz code, canonical trace, Coq encoder.

A case is pure data:
  {"nodes": [spec...], "nrc": int, "events": [["emit", node, val_json, [[id, has_ref]...]] | ["flush", node]]}
"""
import logging
import random

logging.disable(logging.CRITICAL)

import symbols as symbols_mod
from symbols import (Boom, coq_sym, coq_val, deep_sum, fn1, fn2, fnN, keyfn, pred,
                     val_from_json, val_to_json, z, zlist)

# --------------------------------------------------------------------------
# building the real pipeline
# --------------------------------------------------------------------------


class FakeLoop:
    """RefCounter only uses loop.add_callback(cb); record the scheduling order."""

    def __init__(self):
        self.scheduled = []

    def add_callback(self, cb, *a, **k):
        cb(*a, **k)


class NotFlat(Exception):
    pass


def build(case):
    """Build the real streamz pipeline for a case. Returns (nodes, ctx)."""
    import streamz
    from streamz import Stream
    nodes = []
    ctx = {"log": [], "depth": 0, "sinkdata": {}, "nonflat": []}
    for i, sp in enumerate(case["nodes"]):
        k = sp["k"]
        ups = [nodes[u] for u in sp.get("ups", [])]
        if k == "source":
            n = Stream()
        elif k == "map":
            n = ups[0].map(fn1(sp["f"]))
        elif k == "starmap":
            n = ups[0].starmap(fnN(sp["f"]))
        elif k == "filter":
            n = ups[0].filter(pred(sp["p"]))
        elif k == "accumulate":
            f = fn2(sp["f"])
            if sp["rs"]:
                g = (lambda f: (lambda acc, x: (f(acc, x), acc)))(f)
            else:
                g = f
            kw = {}
            if "start" in sp:
                kw["start"] = val_from_json(sp["start"])
            if sp["ws"]:
                kw["with_state"] = True
            n = ups[0].accumulate(g, returns_state=sp["rs"], **kw)
        elif k == "slice":
            n = ups[0].slice(sp["start"], sp["end"], sp["step"])
        elif k == "partition":
            kw = {}
            if sp.get("key") is not None:
                kw["key"] = keyfn(sp["key"])
            n = ups[0].partition(sp["n"], **kw)
        elif k == "partition_unique":
            n = ups[0].partition_unique(sp["n"], key=keyfn(sp["key"]), keep=sp["keep"])
        elif k == "sliding_window":
            n = ups[0].sliding_window(sp["n"], return_partial=sp["partial"])
        elif k == "unique":
            n = ups[0].unique(maxsize=sp["maxsize"], key=keyfn(sp["key"]), hashable=sp["hashable"])
        elif k == "flatten":
            n = ups[0].flatten()
        elif k == "pluck":
            n = ups[0].pluck(sp["pick"])
        elif k == "collect":
            n = ups[0].collect()
        elif k == "union":
            n = ups[0].union(*ups[1:])
        elif k == "zip":
            args = list(ups)
            for pos, v in sp.get("literals", []):
                args.insert(pos, val_from_json(v))
            n = streamz.zip(*args, **({"maxsize": sp["maxsize"]} if sp.get("maxsize") is not None else {}))
        elif k == "combine_latest":
            kw = {}
            if sp.get("emit_on") is not None:
                kw["emit_on"] = [ups[p] for p in sp["emit_on"]]
            n = streamz.combine_latest(*ups, **kw)
        elif k == "zip_latest":
            n = ups[0].zip_latest(*ups[1:])
        elif k == "sink":
            bad = sp.get("fail", [])
            L = []
            ctx["sinkdata"][i] = L

            def f(x, L=L, bad=bad):
                if bad and deep_sum(x) in bad:
                    symbols_mod.boom(x, deep_sum(x))
                L.append(x)
            n = ups[0].sink(f)
        else:
            raise KeyError(k)
        nodes.append(n)
    # feedback edges: connected once the whole graph exists (the source of such an edge has no other downstream)
    for (a, b) in case.get("fb", []):
        nodes[a].connect(nodes[b])
    index = {id(n): i for i, n in enumerate(nodes)}
    for i, n in enumerate(nodes):
        _wrap(n, i, index, ctx)
    ctx["index"] = index
    return nodes, ctx


def _wrap(node, i, index, ctx):
    orig = node.update

    def wrapped(x, who=None, metadata=None):
        mids = []
        if metadata is not None:
            for m in metadata:
                if isinstance(m, dict) and 'id' in m:
                    mids.append((m['id'], 'ref' in m))
                else:
                    ctx["nonflat"].append((i, repr(metadata)[:200]))
                    mids.append((999999, False))
        ctx["log"].append((ctx["depth"], index.get(id(who), -1), i, x, mids))
        ctx["depth"] += 1
        try:
            return orig(x, who=who, metadata=metadata)
        finally:
            ctx["depth"] -= 1
    node.update = wrapped


def run_case(case):
    """Run the real code. Returns list of observations (dicts) + diagnostics."""
    from streamz.core import RefCounter
    nodes, ctx = build(case)
    nrc = case["nrc"]
    fired = []
    loop = FakeLoop()
    counters = {}
    for i in range(nrc):
        counters[i] = RefCounter(initial=0, cb=(lambda i=i: fired.append(i)), loop=loop)
    obs = []
    mdobjs = {}
    del symbols_mod.BOOMS[:]
    for ev in case["events"]:
        ctx["log"].clear()
        ctx["depth"] = 0
        raised = False
        exc = None
        try:
            if ev[0] == "emit":
                _, n, vj, mdj = ev
                md = []
                for (mid_, has_ref) in mdj:
                    d = {"id": mid_}
                    if has_ref:
                        d["ref"] = counters[mid_]
                    mdobjs[mid_] = d
                    md.append(d)
                nodes[n].emit(val_from_json(vj), metadata=md if md else None)
            else:
                nodes[ev[1]].flush()
        except Exception as e:   # noqa
            raised = True
            exc = type(e).__name__
        obs.append({"calls": list(ctx["log"]), "raised": raised, "exc": exc, "booms": len(symbols_mod.BOOMS),
                    "counts": [counters[i].count for i in range(nrc)],
                    "fired": list(fired)})
    diag = {"nonflat": list(ctx["nonflat"]), "sinkdata": ctx["sinkdata"]}
    # break reference cycles / global sink registry so pipelines do not accumulate
    for n in nodes:
        try:
            if hasattr(n, "destroy") and type(n).__name__ == "sink":
                n.destroy()
        except Exception:
            pass
    return obs, diag


# --------------------------------------------------------------------------
# Coq encoding
# --------------------------------------------------------------------------

def coq_md(mdj):
    return "[" + "; ".join("{| mid := %d; mref := %s |}" % (i, "true" if r else "false") for i, r in mdj) + "]"


def coq_natlist(l):
    return "[" + "; ".join(str(int(i)) for i in l) + "]"


def coq_kind(sp):
    k = sp["k"]
    if k == "source":
        return "KSource"
    if k == "map":
        return "(KMap (interp1 %s))" % coq_sym(sp["f"])
    if k == "starmap":
        return "(KStarmap (interpN %s))" % coq_sym(sp["f"])
    if k == "filter":
        return "(KFilter (interpP %s))" % coq_sym(sp["p"])
    if k == "accumulate":
        f = "(interp2 %s)" % coq_sym(sp["f"])
        if sp["rs"]:
            f = "(rs_prev %s)" % f
        start = "(Some %s)" % coq_val(val_from_json(sp["start"])) if "start" in sp else "None"
        return "(KAccum %s %s %s %s)" % (f, start, "true" if sp["rs"] else "false",
                                        "true" if sp["ws"] else "false")
    if k == "slice":
        stop = "None" if sp["end"] is None else "(Some %d)" % sp["end"]
        return "(KSlice %d %s %d)" % (sp["start"] or 0, stop, sp["step"] or 1)
    if k == "partition":
        key = "None" if sp.get("key") is None else "(Some (interpK %s))" % coq_sym(sp["key"])
        return "(KPartition %d %s)" % (sp["n"], key)
    if k == "partition_unique":
        return "(KPartUnique %d (interpK %s) %s)" % (sp["n"], coq_sym(sp["key"]),
                                                     "true" if sp["keep"] == "last" else "false")
    if k == "sliding_window":
        return "(KSliding %d %s)" % (sp["n"], "true" if sp["partial"] else "false")
    if k == "unique":
        ms = "None" if sp["maxsize"] is None else "(Some %d)" % sp["maxsize"]
        return "(KUnique %s (interpK %s))" % (ms, coq_sym(sp["key"]))
    if k == "flatten":
        return "KFlatten"
    if k == "pluck":
        if isinstance(sp["pick"], list):
            return "(KPluck (PickMany %s))" % coq_natlist(sp["pick"])
        return "(KPluck (PickOne %d))" % sp["pick"]
    if k == "collect":
        return "KCollect"
    if k == "union":
        return "KUnion"
    if k == "zip":
        lits = "[" + "; ".join("(%d, %s)" % (p, coq_val(val_from_json(v))) for p, v in sp.get("literals", [])) + "]"
        return "(KZip %s)" % lits
    if k == "combine_latest":
        eo = "None" if sp.get("emit_on") is None else "(Some %s)" % coq_natlist(sp["emit_on"])
        return "(KCombineLatest %s)" % eo
    if k == "zip_latest":
        return "KZipLatest"
    if k == "sink":
        return "(KSink (sink_fail %s))" % zlist(sp.get("fail", []))
    raise KeyError(k)


def coq_graph(case):
    extra = {}
    for (a, b) in case.get("fb", []):
        extra.setdefault(b, []).append(a)
    return "[" + ";\n   ".join("{| nkind := %s; ups := %s |}" % (coq_kind(sp), coq_natlist(sp.get("ups", []) + extra.get(i, [])))
                                for i, sp in enumerate(case["nodes"])) + "]"


def coq_events(case):
    out = []
    for ev in case["events"]:
        if ev[0] == "emit":
            out.append("EEmit %d %s %s" % (ev[1], coq_val(val_from_json(ev[2])), coq_md(ev[3])))
        else:
            out.append("EFlush %d" % ev[1])
    return "[" + ";\n   ".join(out) + "]"


def coq_obs(obs):
    out = []
    for o in obs:
        calls = "[" + "; ".join(
            "{| e_depth := %d; e_src := %d; e_dst := %d; e_val := %s; e_md := %s |}" %
            (d, s, t, coq_val(x), coq_md(mids))
            for (d, s, t, x, mids) in o["calls"]) + "]"
        out.append("{| o_calls := %s; o_raised := %s; o_counts := %s; o_fired := %s |}" %
                   (calls, "true" if o["raised"] else "false",
                    "[" + "; ".join(z(c) for c in o["counts"]) + "]", coq_natlist(o["fired"])))
    return "[" + ";\n   ".join(out) + "]"


def coq_case(name, case, obs):
    return ("Definition %s : case := {| c_graph := %s;\n  c_nrc := %d;\n  c_events := %s;\n  c_observed := %s |}.\n"
            % (name, coq_graph(case), case["nrc"], coq_events(case), coq_obs(obs)))


COQ_HEADER = """From Coq Require Import List ZArith.
From SZ Require Import Base.Values Sync.Nodes Sync.Pipeline Sync.CaseLib.
Import ListNotations.
Close Scope Z_scope. Open Scope nat_scope.
"""


# --------------------------------------------------------------------------
# generator
# --------------------------------------------------------------------------
INT = ('int',)
ANY = ('any',)
OPT = ('opt',)          # an integer or None ("no value" markers travel through pipelines like any other element)
OPT_OK = ("union", "zip", "combine_latest", "zip_latest", "sliding_window", "partition", "partition_unique", "unique",
          "collect", "slice", "sink", "map")


def has_opt(t):
    return t == OPT or (isinstance(t, tuple) and any(has_opt(x) for x in t if isinstance(x, tuple)))


def T_tup(k, e):
    return ('tup', k, e)


def T_list(e):
    return ('list', e)


def hashable(t):
    if t[0] == 'int':
        return True
    if t[0] == 'tup':
        return hashable(t[2])
    return False


def elem_of(t):
    return t[2] if t[0] == 'tup' else t[1]


def common(ts):
    return ts[0] if all(t == ts[0] for t in ts) else ANY


class Gen:
    def __init__(self, rng, max_nodes=10, max_events=20, faults=False, allow=None, md_prob=0.6, feedback=0.2, narrow=False):
        self.r = rng
        self.narrow = narrow
        self.feedback = feedback
        self.max_nodes = max_nodes
        self.max_events = max_events
        self.faults = faults
        self.allow = allow
        self.md_prob = md_prob

    def small(self):
        return self.r.choice([1, 1, 2, 2, 3, 3, 4])

    def bad(self):
        return sorted(set(self.r.choice([0, 1, 2, 3, 4, 5, 6]) for _ in range(self.r.choice([1, 1, 2]))))

    def key(self, t):
        opts = [['KeyMod', 2], ['KeyMod', 3], ['KeySum']]
        if hashable(t):
            opts += [['KeyId'], ['KeyId']]
        return self.r.choice(opts)

    def gen_value(self, t, depth=0):
        r = self.r
        if t[0] == 'int':
            if self.narrow:
                return r.choice([0, 1, 2, 3, 4])
            return r.choice([0, 1, 1, 2, 2, 3, 4, 5])
        if t[0] == 'opt':
            return r.choice([None, None, 0, 1, 2, 3])
        if t[0] == 'tup':
            k = t[1] if t[1] is not None else r.choice([0, 1, 2, 3])
            return tuple(self.gen_value(t[2], depth + 1) for _ in range(k))
        if t[0] == 'list':
            return [self.gen_value(t[1], depth + 1) for _ in range(r.choice([0, 1, 2, 3]))]
        return r.choice([0, 1, 2, (1, 2), [3]])

    def case(self):
        r = self.r
        nodes = []
        types = []
        nsrc = r.choice([1, 1, 1, 2, 2, 3])
        for _ in range(nsrc):
            t = r.choice([INT, INT, INT, INT, T_tup(2, INT), T_list(INT), OPT])
            nodes.append({"k": "source"})
            types.append(t)
        target = r.randint(nsrc + 1, max(nsrc + 1, self.max_nodes))
        kinds = ["map", "map", "starmap", "filter", "accumulate", "slice", "partition", "partition_unique",
                 "sliding_window", "unique", "flatten", "pluck", "collect", "union", "zip", "combine_latest",
                 "zip_latest", "sink", "sink"]
        if self.allow:
            kinds = [k for k in kinds if k in self.allow]
        if self.faults == "direct":
            # C16 speaks about directly connected (non-buffered) pipelines; partition is a coroutine
            # node that needs an event loop and captures exceptions in its future
            kinds = [k for k in kinds if k != "partition"]
        attempts = 0
        while len(nodes) < target and attempts < 200:
            attempts += 1
            k = r.choice(kinds)
            cands = [i for i, sp in enumerate(nodes) if sp["k"] != "sink"]
            # bias to recent nodes (chains) but allow fan-out
            u = r.choice(cands[-3:] if r.random() < 0.6 else cands)
            t = types[u]
            sp = self.make(k, u, t, nodes, types, cands)
            if sp is None:
                continue
            spec, ot = sp
            nodes.append(spec)
            types.append(ot)
        # optional feedback edge guarded by unique: V -> map(mod k) -> unique -> back into an ancestor A of V
        fb = []
        if self.feedback and not self.faults and r.random() < self.feedback and not any(sp["k"] == "partition" for sp in nodes):
            anc = {}
            for i, sp in enumerate(nodes):
                a = set()
                for u in sp.get("ups", []):
                    a |= anc[u] | {u}
                anc[i] = a
            single = ("map", "filter", "accumulate", "slice", "unique", "sliding_window", "union", "flatten", "pluck")
            pairs = []
            for v, sp in enumerate(nodes):
                if types[v] != INT or sp["k"] in ("sink",):
                    continue
                for a in sorted(anc[v] | {v}):
                    spa = nodes[a]
                    if spa["k"] == "slice" and spa.get("end") is not None:
                        continue        # a finite slice detaches itself from its upstreams; re-attaching it is another story
                    if spa["k"] in single and all(types[u] == INT for u in spa.get("ups", [])):
                        pairs.append((v, a))
            if pairs:
                v, a = r.choice(pairs)
                nodes.append({"k": "map", "f": ['FModK', r.choice([2, 3])], "ups": [v]})
                types.append(INT)
                nodes.append({"k": "unique", "maxsize": None, "key": ['KeyId'], "hashable": True, "ups": [len(nodes) - 1]})
                types.append(INT)
                fb.append([len(nodes) - 1, a])
        fb_src = {x for x, _ in fb}
        # sinks on leaves
        has_down = set(fb_src)
        for sp in nodes:
            for u in sp.get("ups", []):
                has_down.add(u)
        for i in range(len(nodes)):
            if nodes[i]["k"] != "sink" and i not in has_down and r.random() < 0.85:
                spec = {"k": "sink", "ups": [i]}
                if self.faults and r.random() < 0.3:
                    spec["fail"] = self.bad()
                nodes.append(spec)
                types.append(None)
        # a blocking emit through a pipeline that owns an event loop (partition) really waits for zip's
        # backpressure future - for ever in a single-threaded producer - so small bounds only without a loop
        if any(sp["k"] == "partition" for sp in nodes):
            for sp in nodes:
                if sp["k"] == "zip":
                    sp["maxsize"] = 1000
        # events
        events = []
        nrc = 0
        nev = r.randint(1, self.max_events)
        collects = [i for i, sp in enumerate(nodes) if sp["k"] == "collect"]
        for _ in range(nev):
            if collects and r.random() < 0.15:
                events.append(["flush", r.choice(collects)])
                continue
            s = r.randrange(nsrc)
            v = self.gen_value(types[s])
            md = []
            if r.random() < self.md_prob:
                for _ in range(r.choice([1, 1, 1, 2])):
                    md.append([nrc, r.random() < 0.8])
                    nrc += 1
            events.append(["emit", s, val_to_json(v), md])
        case = {"nodes": nodes, "nrc": nrc, "events": events}
        if fb:
            case["fb"] = fb
        return case

    def wrap1(self, sym):
        if self.faults and self.r.random() < 0.35:
            return ['FFailIn', self.bad(), sym]
        return sym

    def make(self, k, u, t, nodes, types, cands):
        r = self.r
        if has_opt(t) and k not in OPT_OK:
            return None
        if k == "map":
            if t == INT:
                f = r.choice([['FInc'], ['FDouble'], ['FNeg'], ['FAddK', r.choice([-1, 2, 3])],
                              ['FModK', r.choice([2, 3])], ['FPair'], ['FRange'], ['FId'], ['FDeepSum']])
            else:
                f = r.choice([['FId'], ['FDeepSum'], ['FDeepSum']])
            ot = {'FPair': T_tup(2, INT), 'FRange': T_list(INT), 'FId': t}.get(f[0], INT)
            return {"k": "map", "f": self.wrap1(f), "ups": [u]}, ot
        if k == "starmap":
            if t[0] != 'tup':
                return None
            opts = [['NSum'], ['NTuple']]
            if t[1] is not None and t[1] >= 1:
                opts.append(['NFirst'])
            f = r.choice(opts)
            ot = INT if f[0] == 'NSum' else (t[2] if f[0] == 'NFirst' else t)
            if self.faults and r.random() < 0.3:
                f = ['NFailIn', self.bad(), f]
            return {"k": "starmap", "f": f, "ups": [u]}, ot
        if k == "filter":
            p = r.choice([['PEven'], ['PEven'], ['PLtK', r.choice([2, 3, 4])], ['PModNe', 3, r.choice([0, 1])],
                          ['PTrue'], ['PFalse']])
            if self.faults and r.random() < 0.3:
                p = ['PFailIn', self.bad(), p]
            return {"k": "filter", "p": p, "ups": [u]}, t
        if k == "accumulate":
            rs = r.random() < 0.3
            ws = r.random() < 0.25
            f = r.choice([['BAdd'], ['BAdd'], ['BMax'], ['BSnd'], ['BCountTo', 3]])
            spec = {"k": "accumulate", "f": f, "rs": rs, "ws": ws, "ups": [u]}
            if f[0] == 'BSnd':
                if r.random() < 0.5:
                    spec["start"] = 0
                res = t if not rs else ANY
            else:
                if t != INT or r.random() < 0.6:
                    spec["start"] = r.choice([0, 0, 1, 10])
                res = INT
            if self.faults and r.random() < 0.35:
                spec["f"] = ['BFailIn', self.bad(), f]
            ot = T_tup(2, ANY) if ws else res
            return spec, ot
        if k == "slice":
            start = r.choice([None, 0, 1, 1, 2, 3])
            step = r.choice([None, 1, 2, 2, 3])
            s0 = start or 0
            end = r.choice([None, None, 0, s0, s0 + 1, s0 + 2, s0 + 4, 5])
            return {"k": "slice", "start": start, "end": end, "step": step, "ups": [u]}, t
        if k == "partition":
            n = self.small()
            key = None
            if r.random() < 0.4:
                key = self.key(t)
            return {"k": "partition", "n": n, "key": key, "ups": [u]}, T_tup(n, t)
        if k == "partition_unique":
            n = self.small()
            key = self.key(t)
            if self.narrow:
                # focused mode: partitions of 3-4 distinct keys over a 4-letter alphabet, so that a key is seen again
                # (replaced / moved) after other keys have arrived and before the partition completes
                n = r.choice([2, 3, 3, 4])
                key = r.choice([['KeyId'], ['KeyMod', 4]] if hashable(t) else [['KeyMod', 4], ['KeySum']])
            return {"k": "partition_unique", "n": n, "key": key,
                    "keep": r.choice(["first", "last"]), "ups": [u]}, T_tup(n, t)
        if k == "sliding_window":
            n = self.small()
            partial = r.random() < 0.5
            return {"k": "sliding_window", "n": n, "partial": partial, "ups": [u]}, T_tup(None if partial else n, t)
        if k == "unique":
            key = self.key(t)
            hsh = True
            if r.random() < (0.5 if self.narrow else 0.25):
                hsh = False
            # focused cases: histories of 3-4 keys over a small alphabet, so that refreshes of entries in the middle of
            # the history and the evictions that follow them are reached
            ms = r.choice([None, 2, 3, 3, 3, 4]) if self.narrow else r.choice([None, None, 1, 2, 3])
            if self.narrow and ms is not None and ms >= 3 and t[0] == 'int' and r.random() < 0.8:
                key = ['KeyId']      # as many distinct keys as the alphabet has values: the history really fills up
            return {"k": "unique", "maxsize": ms, "key": key,
                    "hashable": hsh, "ups": [u]}, t
        if k == "flatten":
            if t[0] not in ('tup', 'list'):
                return None
            return {"k": "flatten", "ups": [u]}, elem_of(t)
        if k == "pluck":
            if t[0] != 'tup' or not t[1]:
                return None
            if r.random() < 0.6:
                return {"k": "pluck", "pick": r.randrange(t[1]), "ups": [u]}, t[2]
            picks = [r.randrange(t[1]) for _ in range(r.choice([1, 2, 3]))]
            return {"k": "pluck", "pick": picks, "ups": [u]}, T_tup(len(picks), t[2])
        if k == "collect":
            return {"k": "collect", "ups": [u]}, T_tup(None, t)
        if k in ("union", "zip", "combine_latest", "zip_latest"):
            others = [c for c in cands if c != u]
            r.shuffle(others)
            m = r.choice([1, 1, 2]) if k != "union" else r.choice([0, 1, 2])
            ups = [u] + others[:m]
            if k in ("zip_latest", "combine_latest") and len(ups) < 2 and r.random() < 0.8:
                return None
            ts = [types[x] for x in ups]
            if k == "union":
                return {"k": "union", "ups": ups}, common(ts)
            if k == "zip":
                lits = []
                n_out = len(ups)
                if r.random() < 0.3:
                    pos = r.randrange(n_out + 1)
                    lits.append([pos, r.choice([7, 9])])
                    n_out += 1
                e = common(ts) if not lits else (INT if common(ts) == INT else ANY)
                # small bounds: a blocking emit ignores the returned wait-future, so one input may run far ahead
                return {"k": "zip", "ups": ups, "literals": lits, "maxsize": r.choice([None, 1, 1, 2])}, T_tup(n_out, e)
            if k == "combine_latest":
                eo = None
                if r.random() < 0.4:
                    eo = sorted(set(r.randrange(len(ups)) for _ in range(r.choice([1, 2]))))
                return {"k": "combine_latest", "ups": ups, "emit_on": eo}, T_tup(len(ups), common(ts))
            return {"k": "zip_latest", "ups": ups}, T_tup(len(ups), common(ts))
        if k == "sink":
            spec = {"k": "sink", "ups": [u]}
            if self.faults and r.random() < 0.4:
                spec["fail"] = self.bad()
            return spec, None
        return None


def has_state(sp):
    return sp["k"] in ("accumulate", "slice", "partition", "partition_unique", "sliding_window", "unique",
                       "collect", "zip", "combine_latest", "zip_latest")


def nontrivial(case, obs):
    """at least one delivery reaches a sink or a state-dependent node, and some state-dependent node exists"""
    if not any(has_state(sp) for sp in case["nodes"]):
        return False
    return any(o["calls"] for o in obs)
