"""C17 — file-based sources deliver every record exactly once however the data arrives.
   proof cone (Props/C17.v)  +  correspondence of Ext/TextFile.v, Ext/Filenames.v with the real
   from_textfile / filenames (compared inside Coq)  +  model-free oracle on the same runs."""
import json
import os
import random
import sys
import time
sys.path.insert(0, os.path.dirname(os.path.abspath(__file__)))
import common
import c17_cases as G
import c17_impl as I
import c17_oracle as O

PROP = "C17"


# ---------------------------------------------------------------------------- cases
def gen_cases(rng, tier):
    cases = []
    if tier == "quick":
        cases += list(G.tf_exhaustive(G.QUICK_DELIMS, 6, rng))            # all texts <= 6 chars, all 2^(n-1) chunkings
        cases += list(G.tf_from_end_exhaustive(["||", "aba", "|"], 2, 3, rng))
        cases += list(G.tf_random(rng, 1500, 40))
        cases += list(G.tf_linebreakish(rng, 300, 12))
        cases += list(G.sp_exhaustive(G.QUICK_DELIMS + ["a", "aab"], 9))
        cases += list(G.fn_exhaustive(["b", "a10", "a9", "B"]))
        cases += list(G.fn_random(rng, 400, 6, 6))
        cases += G.io_cases(rng, 60)
    else:
        cases += list(G.tf_exhaustive(G.QUICK_DELIMS + G.MORE_DELIMS[:4], 7, rng))
        cases += list(G.tf_from_end_exhaustive(G.QUICK_DELIMS, 3, 4, rng))
        cases += list(G.tf_random(rng, 20000, 200))
        cases += list(G.tf_linebreakish(rng, 4000, 40))
        cases += list(G.sp_exhaustive(G.QUICK_DELIMS + G.MORE_DELIMS, 11))
        cases += list(G.fn_exhaustive(["b", "a10", "a9", "B", "a"]))
        cases += list(G.fn_random(rng, 6000, 10, 8))
        cases += G.io_cases(rng, 1500)
    return cases


def load_corpus():
    d = os.path.join(common.VERIF, "corpus", PROP)
    out = []
    if os.path.isdir(d):
        for f in sorted(os.listdir(d)):
            if f.endswith(".json"):
                out.append(json.load(open(os.path.join(d, f)))["case"])
    return out


def oracle(case, obs):
    k = case["kind"]
    if k == "tf":
        return O.check_tf(case, obs)
    if k == "fn":
        return O.check_fn(case, obs, G.fn_snapshots(case))
    if k == "io":
        return O.check_io(case, obs)
    return O.check_sp(case, obs)


# ---------------------------------------------------------------------------- shrinking
def _fails(case, sig):
    try:
        obs = I.run_cases([case])[0]
    except Exception:
        return False
    return any(s == sig for s, _ in oracle(case, obs))


def shrink(case, sig, budget=400):
    cur = json.loads(json.dumps(case))
    tries = [0]

    def attempt(c2):
        if tries[0] >= budget:
            return False
        tries[0] += 1
        return _fails(c2, sig)

    changed = True
    while changed and tries[0] < budget:
        changed = False
        if cur["kind"] == "tf":
            cands = []
            ch = cur["chunks"]
            for i in range(len(ch)):                       # drop a chunk
                if len(ch) > 1:
                    cands.append(dict(cur, chunks=ch[:i] + ch[i + 1:]))
            for i in range(len(ch) - 1):                   # merge neighbours
                cands.append(dict(cur, chunks=ch[:i] + [ch[i] + ch[i + 1]] + ch[i + 2:]))
            for i in range(len(ch)):                       # delete one character
                for j in range(len(ch[i])):
                    cands.append(dict(cur, chunks=ch[:i] + [ch[i][:j] + ch[i][j + 1:]] + ch[i + 1:]))
            if cur["pre"]:
                cands.append(dict(cur, pre=""))
                cands.append(dict(cur, pre=cur["pre"][1:]))
            if len(cur["delim"]) > 1:
                cands.append(dict(cur, delim=cur["delim"][:-1]))
        elif cur["kind"] == "fn":
            cands = []
            st = cur["steps"]
            for i in range(len(st)):
                if len(st) > 1:
                    cands.append(dict(cur, steps=st[:i] + st[i + 1:]))
                for j in range(len(st[i])):
                    cands.append(dict(cur, steps=st[:i] + [st[i][:j] + st[i][j + 1:]] + st[i + 1:]))
            for i in range(len(st) - 1):
                cands.append(dict(cur, steps=st[:i] + [st[i] + st[i + 1]] + st[i + 2:]))
        elif cur["kind"] == "io":
            cands = []
            ch = cur["chunks_hex"]
            for i in range(len(ch)):
                if len(ch) > 1:
                    cands.append(dict(cur, chunks_hex=ch[:i] + ch[i + 1:]))
                for j in range(0, len(ch[i]), 2):
                    cands.append(dict(cur, chunks_hex=ch[:i] + [ch[i][:j] + ch[i][j + 2:]] + ch[i + 1:]))
        else:
            cands = []
        for c2 in cands:
            if attempt(c2):
                cur = c2
                changed = True
                break
    return cur


# ---------------------------------------------------------------------------- correspondence
IO_DEF = ("Definition io_agree (c : text * list text * (text * list text)) : bool :=\n"
          "  let '(d, chunks, (b, recs)) := c in let '(b', recs') := %s d chunks in\n"
          "  text_eqb b b' && list_eqb text_eqb recs recs'.\n")


def correspondence(co, as_found_io=True, shard=400):
    """co: list of (case, obs) without crashes.  Returns (mismatch indices into co, errors, io_mismatch indices)."""
    d = common.scratch(PROP)
    groups = {"tf": [], "fn": [], "sp": [], "io": []}
    for i, (c, o) in enumerate(co):
        if c["kind"] == "io":
            raw = b"".join(bytes.fromhex(h) for h in c["chunks_hex"])
            if o.get("exception") or any(b > 127 for b in raw):
                continue
        groups[c["kind"]].append(i)
    enc = {"tf": (G.coq_tf, "tf_mismatches"), "fn": (G.coq_fn, "fn_mismatches"), "sp": (G.coq_sp, "split_mismatches"),
           "io": (G.coq_io, "mism_from io_agree 0")}
    files = []
    for kind, idxs in groups.items():
        f_enc, fun = enc[kind]
        for s in range(0, len(idxs), shard):
            part = idxs[s:s + shard]
            p = os.path.join(d, "cases_%s_%d.v" % (kind, s // shard))
            with open(p, "w") as f:
                f.write(G.COQ_HEADER)
                if kind == "io":
                    f.write(IO_DEF % ("run_chunks_textmode" if as_found_io else "run_chunks_textmode_fixed"))
                f.write("Definition cs := [\n%s\n].\n" % ";\n".join(f_enc(*co[i]) for i in part))
                f.write("Eval vm_compute in (%s cs).\n" % fun)
            files.append((p, kind, part))
    res = common.run_case_files([p for p, _, _ in files])
    mism, errors, io_mism = [], [], []
    for p, kind, part in files:
        rc, out = res[p]
        lst = common.parse_natlist(out) if rc == 0 else None
        if lst is None:
            errors.append((p, out[-1500:]))
            continue
        for j in lst:
            (io_mism if kind == "io" else mism).append(part[j])
    return sorted(mism), errors, sorted(io_mism), {k: len(v) for k, v in groups.items()}


# ---------------------------------------------------------------------------- main
def evaluate(cases, out, known, max_report=3):
    """run the implementation and the oracle; returns (co, findings_by_sig, stats)"""
    obs = I.run_cases(cases)
    co = []
    by_sig = {}
    for ci, (c, o) in enumerate(zip(cases, obs)):
        fnd = oracle(c, o)
        for sig, msg in fnd:
            by_sig.setdefault(sig, []).append((ci, msg))
        if "crash" not in o:
            co.append((c, o))
    return co, by_sig


def nontrivial(c, o):
    if c["kind"] == "tf":
        return sum(len(p) for p in o.get("polls", [])) >= 1 and sum(1 for ch in c["chunks"] if ch) >= 2
    if c["kind"] == "fn":
        return sum(1 for p in o.get("polls", []) if p) >= 2 or any(len(p) >= 2 for p in o.get("polls", []))
    if c["kind"] == "io":
        return len(c["chunks_hex"]) >= 2
    return len(o.get("parts", [])) >= 2


def run(prop, tier, seed, replay=None):
    out = common.Outcome(prop, tier, seed)
    t0 = time.time()
    proof = common.props_check(prop)
    t_proof = time.time() - t0
    rng = random.Random(seed * 1000003 + 17)
    if replay:
        cases = [json.load(open(replay))["replay"]["case"]]
    else:
        cases = load_corpus() + gen_cases(rng, tier)
    known = common.known_signatures(prop)
    t1 = time.time()
    co, by_sig = evaluate(cases, out, known)
    t_impl = time.time() - t1
    reported = 0
    for sig, lst in sorted(by_sig.items()):
        if sig in known:
            out.known_finding(sig, known[sig]["what"] + " (%d cases this run)" % len(lst))
            continue
        if reported < 3:
            ci, msg = min(lst, key=lambda t: len(json.dumps(cases[t[0]])))
            small = shrink(cases[ci], sig)
            o2 = I.run_cases([small])[0]
            m2 = [m for s, m in oracle(small, o2) if s == sig]
            out.violation(sig, (m2[0] if m2 else msg) + " [%d failing cases]" % len(lst),
                          {"case": small, "observed": o2, "original_case": cases[ci]})
            reported += 1
    as_found_io = any(s.startswith("C17/from_textfile/textmode/crlf") for s in by_sig)
    # correspondence inside Coq
    t2 = time.time()
    mism, errors, io_mism, sent = correspondence(co, as_found_io)
    t_coq = time.time() - t2
    for p, o_ in errors:
        out.violation("C17/correspondence-error", "coqc failed on generated cases: %s" % o_[-400:], {"file": p}, no_input=True)
    # io cases are compared with the as-found text-mode model when the oracle saw the CR chunk-dependence on this
    # tree, with the repaired (incremental decoding) model otherwise; either way a disagreement counts
    mism = sorted(mism + io_mism)
    widened = 0
    if mism and not out.violations:
        # widened search: more and longer random cases, oracle only
        rng2 = random.Random(seed * 7919 + 1)
        extra = list(G.tf_random(rng2, 6000, 120)) + list(G.fn_random(rng2, 2000, 10, 8))
        co2, by2 = evaluate(extra, out, known)
        widened = len(extra)
        new = {s: l for s, l in by2.items() if s not in known}
        if new:
            sig, lst = sorted(new.items())[0]
            ci, msg = lst[0]
            small = shrink(extra[ci], sig)
            out.violation(sig, msg, {"case": small, "original_case": extra[ci]})
        else:
            c, o = co[mism[0]]
            out.violation("C17/correspondence/model-differs/%s" % c["kind"],
                          "Coq model and implementation disagree on %d of %d cases (first: %s); the oracle accepts all %d traces (+%d widened)"
                          % (len(mism), len(co), json.dumps(c), len(co), widened),
                          {"case": c, "observed": o, "model": "SZ.Ext.TextFile.run_file / SZ.Ext.Filenames.frun",
                           "mismatching_cases": [co[i][0] for i in mism[:10]]}, no_input=True)
    if not proof["ok"]:
        out.violation("C17/proof/%s" % proof["failing"], "proof obligation no longer checks: %s" % proof["failing"],
                      {"theorem_or_file": proof["failing"], "log": proof["log"][-3000:]}, no_input=True)
    # coverage
    kinds, delims, nchunks = {}, {}, {}
    nontriv = set()
    inside = from_end = with_pre = empties = 0
    for c, o in co:
        kinds[c["kind"]] = kinds.get(c["kind"], 0) + 1
        if nontrivial(c, o):
            nontriv.add(json.dumps(c, sort_keys=True))
        if c["kind"] == "tf":
            delims[c["delim"]] = delims.get(c["delim"], 0) + 1
            b = min(len(c["chunks"]), 8)
            nchunks[str(b) if b < 8 else "8+"] = nchunks.get(str(b) if b < 8 else "8+", 0) + 1
            inside += O.cut_inside_delimiter(c)
            from_end += bool(c["from_end"])
            with_pre += bool(c["pre"])
            empties += any(ch == "" for ch in c["chunks"])
    samples = []
    for k in ("tf", "fn", "io"):
        samples += [c for c, o in co if c["kind"] == k and nontrivial(c, o)][:2]
    cov = {
        "obligations": proof["obligations"], "discharged": proof["discharged"],
        "evaluations": len(co), "distinct_nontrivial": len(nontriv),
        "rule": "from_textfile: every text up to N chars over the delimiter's own characters (+1), every one of its 2^(n-1) "
                "chunkings (a third with empty polls inserted), delimiters of length 1-3 incl. self-overlapping, from_end on/off with "
                "pre-existing content, plus random longer texts biased to delimiter characters; filenames: every creation order and poll "
                "placement of 4 names whose code-point order differs from natural order, plus random create/delete histories; "
                "non-trivial = at least one record emitted and >= 2 non-empty chunks (tf) / >= 2 emitting polls or a poll emitting >= 2 names (fn); "
                "distinct by JSON of the case",
        "traces_validated_against_impl": sum(sent.values()) - len(mism),
        "disagreements_checked": len(mism),
        "sent_to_coq_by_kind": sent,
        "io_layer_variant": ("as-found: read() flushes a pending CR (model run_chunks_textmode)" if as_found_io else
                             "repaired: incremental decoding (model run_chunks_textmode_fixed)") + (", MODEL DIFFERS" if io_mism else ""),
        "case_kind_histogram": kinds,
        "delimiter_histogram": delims,
        "chunks_per_case_histogram": nchunks,
        "cases_with_cut_inside_a_delimiter": inside,
        "cases_from_end": from_end, "cases_with_preexisting_content": with_pre, "cases_with_empty_polls": empties,
        "oracle_findings_by_signature": {s: len(l) for s, l in by_sig.items()},
        "widened_search_cases": widened,
        "samples": samples,
        "seconds": {"proof": round(t_proof, 1), "impl+oracle": round(t_impl, 1), "coq_cases": round(t_coq, 1)},
    }
    extra_assumptions = [
        "C17: the model is over decoded characters; OS read()/append atomicity, encodings and glob are exercised by the "
        "correspondence on a real temp directory but not modelled (as-found text-mode CR handling is modelled by nl_translate)",
    ]
    return out.finish(proof, cov, extra_assumptions)


if __name__ == "__main__":
    import argparse
    ap = argparse.ArgumentParser()
    ap.add_argument("--tier", default=common.tier_from_env())
    ap.add_argument("--replay")
    a = ap.parse_args()
    sys.exit(run(PROP, a.tier, common.seed_from_env(), a.replay))
