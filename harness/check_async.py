"""Checks of the asynchronous family: C02, C03, C04, C08, C13, C14 (and the asynchronous part of C05).

Per property: proof cone of Props/<id>.v, correspondence of the Coq node models with the real code on
random schedules (single node between controlled source(s) and sink), model-free oracles of the property
clauses on the same traces and on random multi-node chains."""
import json, os, random, sys, time
sys.path.insert(0, os.path.dirname(os.path.abspath(__file__)))
import common, asyncfam, asyncrun, asyncoracle, asyncchain, threadfam

ALL_KINDS = ["buffer", "delay", "rate_limit", "timed_window", "timed_window_unique", "partition", "zip",
             "map_async", "latest", "plain"]
KINDS = {
    "C02": ["buffer", "delay", "rate_limit", "timed_window", "timed_window_unique", "partition", "zip", "map_async", "plain"],
    "C03": ["buffer", "zip", "zip3", "map_async", "plain", "partition", "rate_limit", "timed_window", "delay", "flatten", "zip_latest"],
    "C04": ALL_KINDS,
    "C05A": ALL_KINDS,
    "C10A": ["buffer", "delay", "rate_limit", "timed_window", "timed_window_unique", "partition", "zip", "map_async", "latest", "plain"],
    "C08": ["timed_window", "timed_window_unique", "partition"],
    "C13": ["rate_limit", "delay"],
    "C14": ["latest"],
    "C16A": ["partition", "timed_window_unique", "map_async", "flatten"],
}


def oracle(prop, case, obs):
    if prop == "C02":
        return asyncoracle.check_c02(case, obs)
    if prop == "C03":
        return asyncoracle.check_c03(case, obs)
    if prop == "C04":
        return asyncoracle.check_refs(case, obs, want=("C04",))
    if prop == "C05A":
        return [f for f in asyncoracle.check_refs(case, obs, want=("C05",))]
    if prop == "C10A":
        return asyncoracle.check_c10(case, obs)
    if prop == "C08":
        return asyncoracle.check_c08(case, obs)
    if prop == "C13":
        return asyncoracle.check_c13(case, obs)
    if prop == "C14":
        return asyncoracle.check_c14(case, obs)
    if prop == "C16A":
        return asyncoracle.check_c16a(case, obs)
    return []


def after_failed_call(case, obs):
    """C03 on a map_async whose function failed at call time for some elements: every emit of the other elements completes
    once all consumers and tasks have finished"""
    return [("C03", sig.replace("C16/", "C03/after-failed-call/"), msg) for (_, sig, msg) in asyncoracle.check_c16a(case, obs)
            if "never-complete" in sig or "later-elements-lost" in sig]


def well_formed(case):
    """no element is emitted while the node's feed is detached (such an element goes nowhere by construction)"""
    detached = False
    for a in case["actions"]:
        if a[0] == "detach":
            detached = True
        elif a[0] == "attach":
            detached = False
        elif detached and (a[0] in ("emit", "burst", "seq", "chain") or (a[0] == "mix" and any(sa[0] == "emit" for sa in a[2]))):
            return False
    return True


def shrink(case, still):
    cur = json.loads(json.dumps(case))
    changed = True
    while changed:
        changed = False
        for i in range(len(cur["actions"]) - 1, -1, -1):
            if cur["actions"][i][0] in ("adv", "attach"):
                continue        # time advances (the clauses about loss rely on the drain) and re-attachments are kept
            c2 = json.loads(json.dumps(cur))
            del c2["actions"][i]
            if not c2["actions"] or not well_formed(c2):
                continue
            # keep counter ids dense
            try:
                if still(c2):
                    cur = c2
                    changed = True
            except Exception:
                pass
    return cur


def single_node_part(prop, oprop, tier, rng, out, known, cov):
    n_per_kind = {"quick": 120, "thorough": 1500}[tier]
    g = asyncrun.AGen(rng, max_actions=16 if tier == "quick" else 40, mix=True, block=oprop in ("C13", "C02"),
                      detach=oprop in ("C02", "C03", "C08", "C14"))
    co = []
    kinds_hist = {}
    nontriv = set()
    nfind = 0
    # corpus of minimised earlier failures (corpus/<prop>/async_*.json), run first
    cdir = os.path.join(common.VERIF, "corpus", prop)
    ncorpus = 0
    if os.path.isdir(cdir):
        for f in sorted(os.listdir(cdir)):
            if not (f.startswith("async_") and f.endswith(".json")):
                continue
            cc = json.load(open(os.path.join(cdir, f)))["case"]
            ncorpus += 1
            try:
                oo = asyncfam.run_case(cc)
            except Exception as e:
                out.violation("%s/harness-crash/corpus" % prop, "driver crashed on corpus case %s: %r" % (f, e), {"case": cc}, no_input=True)
                continue
            for (p, sig, msg) in oracle(oprop, cc, oo):
                sig = sig.replace("C05A", "C05").replace("C16A", "C16")
                if sig in known:
                    out.known_finding(sig, known[sig]["what"])
                else:
                    out.violation(sig, msg + " [corpus case %s]" % f, {"case": cc, "family": "async-single"})
                break
    cov["corpus_cases"] = ncorpus
    for kind in KINDS[oprop]:
        for _ in range(n_per_kind):
            c = g.case(kind)
            if oprop == "C14" and rng.random() < 0.5 and not any(a[0] == "detach" for a in c["actions"]):
                # several arrivals inside one loop iteration / in consecutive loop callbacks
                for _rep in range(rng.choice([1, 1, 2])):
                    pos = rng.randrange(len(c["actions"]) + 1)
                    base = 1000 + rng.randrange(100) * 10
                    c["actions"].insert(pos, [rng.choice(["burst", "seq", "chain", "chain"]), 0, [base + j for j in range(rng.choice([2, 3]))]])
            faulty = False
            if oprop == "C04" and c.get("sink") != "sync" and not c.get("react") and rng.random() < 0.2 \
                    and not any(a[0] == "mix" for a in c["actions"]):
                # some consumers FAIL instead of finishing: only the last clause of C04 is judged on such a run (a node
                # whose forwarding coroutine died is wedged afterwards, which no property forbids)
                idx = [i for i, a in enumerate(c["actions"]) if a == ["ack"]][:8]
                for i in rng.sample(idx, min(len(idx), rng.choice([1, 1, 2]))):
                    c["actions"][i] = ["ackfail"]
                    faulty = True
            if oprop == "C16A":
                # the key function of the node raises for some elements (the node sits directly behind the emitter)
                vals = [a[2] for a in c["actions"] if a[0] == "emit" and isinstance(a[2], int)]
                if (not vals and kind != "flatten") or c.get("react") or any(a[0] == "mix" for a in c["actions"]):
                    continue
                if kind == "flatten":
                    # the CONSUMERS of some items fail (the items of one element are handed on one after the other; a
                    # failure of any of them, first, middle or last, is a failure of the element)
                    if c.get("sink") == "sync":
                        c["sink"] = "ctl"
                    idx = [i for i, a in enumerate(c["actions"]) if a == ["ack"]][:10]
                    for i in rng.sample(idx, min(len(idx), rng.choice([1, 1, 2, 3]))):
                        c["actions"][i] = ["ackfail"]
                else:
                    if kind == "partition" and c["node"].get("key") is None:
                        c["node"]["key"] = rng.choice([["KeyMod", 2], ["KeyId"]])
                        c["node"]["timeout"] = None
                    if kind == "map_async":
                        c["node"]["failmode"] = "call"
                    c["node"]["userfail"] = rng.sample(vals, min(len(vals), rng.choice([1, 1, 2])))
            if oprop == "C04" and not faulty and not c.get("react") and rng.random() < 0.25 \
                    and not any(a[0] == "mix" for a in c["actions"]) \
                    and (kind in ("timed_window_unique", "map_async") or (kind == "partition" and c["node"].get("key") is not None)):
                # a user function of the node itself (key function / mapped coroutine) raises for some elements
                vals = [a[2] for a in c["actions"] if a[0] == "emit" and isinstance(a[2], int)]
                if vals:
                    c["node"]["userfail"] = rng.sample(vals, min(len(vals), rng.choice([1, 1, 2])))
                    faulty = True
            callfail = False
            if oprop == "C03" and kind == "map_async" and rng.random() < 0.25 and not c.get("react") \
                    and not any(a[0] == "mix" for a in c["actions"]):
                # the mapped function fails at call time for some elements: the emits of the OTHER elements must still
                # complete once every consumer and task has finished (no slot or lock may stay taken)
                vals = [a[2] for a in c["actions"] if a[0] == "emit" and isinstance(a[2], int)]
                if vals:
                    c["node"]["failmode"] = "call"
                    c["node"]["userfail"] = rng.sample(vals, min(len(vals), rng.choice([1, 1, 2])))
                    callfail = True
            try:
                o = asyncfam.run_case(c)
            except Exception as e:
                out.violation("%s/harness-crash/%s" % (prop, kind), "driver crashed: %r" % (e,), {"case": c}, no_input=True)
                continue
            co.append((c, o))
            kinds_hist[kind] = kinds_hist.get(kind, 0) + 1
            feat = cov.setdefault("schedule_features", {})
            for name, present in (("mix", any(a[0] == "mix" for a in c["actions"])), ("consumer_reaction", bool(c.get("react"))),
                                  ("failing_consumer", any(a[0] == "ackfail" for a in c["actions"])),
                                  ("failing_user_function", bool(c["node"].get("userfail"))),
                                  ("burst_seq_chain", any(a[0] in ("burst", "seq", "chain") for a in c["actions"])),
                                  ("feed_detached_and_reattached", any(a[0] == "detach" for a in c["actions"])),
                                  ("sink_" + str(c.get("sink")), True)):
                if present:
                    feat[name] = feat.get(name, 0) + 1
            if any(ob["deliv"] for ob in o[1:]):
                nontriv.add(json.dumps(c, sort_keys=True))
            for (p, sig, msg) in (asyncoracle.check_failed(c, o) if faulty else (after_failed_call(c, o) if callfail else oracle(oprop, c, o))):
                sig = sig.replace("C05A", "C05").replace("C16A", "C16")
                if sig in known:
                    out.known_finding(sig, known[sig]["what"])
                    continue
                if nfind < 3:
                    def still(c2, sig=sig, faulty=faulty, callfail=callfail):
                        o2 = asyncfam.run_case(c2)
                        return any(s == sig for _, s, _ in (asyncoracle.check_failed(c2, o2) if faulty else (after_failed_call(c2, o2) if callfail else oracle(oprop, c2, o2))))
                    out.violation(sig, msg, {"case": shrink(c, still), "family": "async-single"})
                nfind += 1
                break
    # correspondence (cases with a burst / mix have no model action: oracle only)
    modelled = [(c, o) for (c, o) in co if c["node"]["k"] in asyncrun.MODELS and not any(a[0] in ("burst", "seq", "chain", "mix", "ackfail", "detach", "attach") for a in c["actions"]) and not c.get("react") and not c["node"].get("userfail")]
    mism, errors = asyncrun.correspondence(prop, modelled)
    for p_, o_ in errors:
        out.violation("%s/correspondence-error" % prop, "coqc failed on generated cases: %s" % o_[-400:], {"file": p_}, no_input=True)
    if mism and not out.violations:
        c, o = modelled[mism[0]]
        out.violation("%s/correspondence/model-differs/%s" % (prop, c["node"]["k"]),
                      "Coq model and implementation disagree on %d of %d schedules (first: node %s); no oracle violation found on those traces"
                      % (len(mism), len(modelled), c["node"]["k"]),
                      {"case": c, "family": "async-single", "correspondence": "Async.Core.aagree", "mismatching": len(mism)}, no_input=True)
    cov["evaluations"] = cov.get("evaluations", 0) + len(co)
    cov["distinct_nontrivial"] = cov.get("distinct_nontrivial", 0) + len(nontriv)
    cov["traces_validated_against_impl"] = cov.get("traces_validated_against_impl", 0) + len(modelled) - len(mism)
    cov["disagreements_checked"] = cov.get("disagreements_checked", 0) + len(mism)
    cov["single_node_kind_histogram"] = kinds_hist
    cov.setdefault("samples", []).extend([co[i][0] for i in range(min(2, len(co)))])


def chain_part(prop, oprop, tier, rng, out, known, cov):
    if oprop not in ("C02", "C04", "C05A", "C03"):
        return
    n = {"quick": 150, "thorough": 2500}[tier]
    res = asyncchain.run_many(rng, n, oprop, tier)
    nfind = 0
    for (case, findings) in res["findings"]:
        for (p, sig, msg) in findings:
            sig = sig.replace("C05A", "C05")
            if sig in known:
                out.known_finding(sig, known[sig]["what"])
                continue
            if nfind < 3:
                out.violation(sig, msg, {"case": case, "family": "async-chain"})
            nfind += 1
    cov["chain_evaluations"] = res["n"]
    cov["chain_nontrivial"] = res["nontrivial"]
    cov["chain_node_histogram"] = res["hist"]
    cov["evaluations"] = cov.get("evaluations", 0) + res["n"]
    cov["distinct_nontrivial"] = cov.get("distinct_nontrivial", 0) + res["nontrivial"]
    if res["samples"]:
        cov.setdefault("samples", []).append(res["samples"][0])


def thread_part(prop, oprop, tier, rng, out, known, cov):
    """threaded operation: loop in a background thread, blocking emits from several producer threads (oracle only)"""
    if oprop not in ("C02", "C03", "C16A"):
        return
    n = {"quick": 60, "thorough": 900}[tier]
    nfind = 0
    hist = {}
    for _ in range(n):
        # (C16: some consumers fail; the exception must come out of the blocking emit in the producer's thread)
        c = threadfam.gen_case(rng, fail=(oprop == "C16A"))
        hist[c["node"]["k"]] = hist.get(c["node"]["k"], 0) + 1
        try:
            r = threadfam.run_case(c)
            fs = threadfam.check(c, r, want=("C16" if oprop == "C16A" else oprop,))
        except Exception as e:
            fs = [(oprop, "%s/threaded/harness-crash" % oprop, "threaded driver crashed: %r" % (e,))]
        for (p, sig, msg) in fs:
            if sig in known:
                out.known_finding(sig, known[sig]["what"])
                continue
            if nfind < 3:
                out.violation(sig, msg, {"case": c, "family": "threaded"})
            nfind += 1
        if any(("loop-thread-blocked" in f[1] or "emit-never-returns" in f[1]) for f in fs):
            break                       # every further case would wait for the stall timeout again
    cov["threaded_evaluations"] = n
    cov["threaded_node_histogram"] = hist
    cov["evaluations"] = cov.get("evaluations", 0) + n
    cov["distinct_nontrivial"] = cov.get("distinct_nontrivial", 0) + n


def run(prop, tier, seed, replay=None, extra=None):
    """prop: property id; the asynchronous part of C05 is invoked by check_sync with extra outcome."""
    oprop = {"C05": "C05A", "C10": "C10A", "C16": "C16A"}.get(prop, prop)
    out = extra if extra is not None else common.Outcome(prop, tier, seed)
    proof = common.props_check(prop) if extra is None else None
    known = common.known_signatures(prop)
    rng = random.Random(seed * 7919 + sum(ord(ch) for ch in oprop))
    cov = {}
    if replay:
        rp = json.load(open(replay))["replay"]
        c = rp["case"]
        if rp.get("family") is None:
            rp["family"] = "threaded" if "threads" in c else ("async-single" if "node" in c else "async-chain")
        if rp.get("family") == "threaded":
            for _rep in range(5):
                fs = threadfam.check(c, threadfam.run_case(c), want=("C16" if oprop == "C16A" else oprop,))
                for (p, sig, msg) in fs:
                    (out.known_finding(sig, known[sig]["what"]) if sig in known else out.violation(sig, msg, {"case": c, "family": "threaded"}))
                if fs:
                    break
        elif rp.get("family") == "async-chain":
            for (p, sig, msg) in asyncchain.check_one(c, oprop):
                sig = sig.replace("C05A", "C05")
                (out.known_finding(sig, known[sig]["what"]) if sig in known else out.violation(sig, msg, {"case": c, "family": "async-chain"}))
        else:
            o = asyncfam.run_case(c)
            faulty_r = (any(a[0] == "ackfail" for a in c["actions"]) or bool(c["node"].get("userfail"))) and oprop == "C04"
            callfail_r = oprop == "C03" and c["node"].get("failmode") == "call"
            for (p, sig, msg) in (asyncoracle.check_failed(c, o) if faulty_r else (after_failed_call(c, o) if callfail_r else oracle(oprop, c, o))):
                sig = sig.replace("C05A", "C05").replace("C16A", "C16")
                (out.known_finding(sig, known[sig]["what"]) if sig in known else out.violation(sig, msg, {"case": c, "family": "async-single"}))
        cov = {"evaluations": 1, "distinct_nontrivial": 1, "samples": [c], "rule": "replay"}
    else:
        single_node_part(prop, oprop, tier, rng, out, known, cov)
        chain_part(prop, oprop, tier, rng, out, known, cov)
        thread_part(prop, oprop, tier, rng, out, known, cov)
        if prop == "C04" and extra is None:
            import check_sync
            cov["sync_part"] = check_sync.embedded(prop, tier, seed, out, known, want=("C04",))
        cov["rule"] = ("single asynchronous node between controlled source(s) and a controlled or synchronous sink on a stepped virtual-time loop; "
                       "random schedules of emit / consumer-completion / task-completion / time-advance followed by a drain phase; plus random chains of "
                       "synchronous and asynchronous nodes (oracle only); schedules with several sub-actions between two quiescent points ('mix': same "
                       "callback, adjacent callbacks, k loop turns apart; oracle only); for C02/C03 threaded operation (loop in a background thread, "
                       "blocking emits from 1-3 producer threads, consumer completions singly or several in one callback; oracle only); non-trivial = at least one delivery; distinct by JSON of the case")
    if extra is not None:
        return cov
    if not proof["ok"]:
        out.violation("%s/proof/%s" % (prop, proof["failing"]), "proof obligation no longer checks: %s" % proof["failing"],
                      {"theorem_or_file": proof["failing"], "log": proof["log"][-3000:]}, no_input=True)
    cov["obligations"] = proof["obligations"]
    cov["discharged"] = proof["discharged"]
    return out.finish(proof, cov)


if __name__ == "__main__":
    import argparse
    ap = argparse.ArgumentParser()
    ap.add_argument("prop")
    ap.add_argument("--tier", default=common.tier_from_env())
    ap.add_argument("--replay")
    a = ap.parse_args()
    sys.exit(run(a.prop, a.tier, common.seed_from_env(), a.replay))
